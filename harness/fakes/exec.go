package fakes

import (
	"bytes"
	"context"
	"fmt"
	"io"
	"sort"
	"strconv"
	"strings"
	"sync"

	utilexec "k8s.io/utils/exec"
	"tkestack.io/galaxy/pkg/utils/ipset"
	utiliptables "tkestack.io/galaxy/pkg/utils/iptables"
)

// Exec is a fake k8s.io/utils/exec.Interface that interprets the command lines galaxy's exec-backed runners
// (pkg/utils/ipset `ipset.New`, pkg/utils/iptables `iptables.New`) emit, against the SAME strict stores the
// Interface-level fakes use. With it the runners' command building, validation and output parsing are executed by
// the code under test instead of being bypassed. A command shape the interpreter does not know is recorded and
// fails (exit 127): callers must turn that into an inconclusive run, never ignore it.
type Exec struct {
	sets *IPSet
	ipt  *IPTables

	mu      sync.Mutex
	verbs   map[string]int
	unknown []string
}

// NewExec creates the interpreter over the given stores (ipt may be nil if only ipset commands are expected).
func NewExec(sets *IPSet, ipt *IPTables) *Exec {
	return &Exec{sets: sets, ipt: ipt, verbs: map[string]int{}}
}

var _ utilexec.Interface = &Exec{}

// Verbs returns how many commands were interpreted per tool and verb.
func (x *Exec) Verbs() map[string]int {
	x.mu.Lock()
	defer x.mu.Unlock()
	out := map[string]int{}
	for k, v := range x.verbs {
		out[k] = v
	}
	return out
}

// Unknown returns the command lines the interpreter could not interpret.
func (x *Exec) Unknown() []string {
	x.mu.Lock()
	defer x.mu.Unlock()
	return append([]string(nil), x.unknown...)
}

func (x *Exec) count(verb string) {
	x.mu.Lock()
	x.verbs[verb]++
	x.mu.Unlock()
}

func (x *Exec) Command(cmd string, args ...string) utilexec.Cmd {
	return &execCmd{x: x, cmd: cmd, args: append([]string(nil), args...)}
}

func (x *Exec) CommandContext(ctx context.Context, cmd string, args ...string) utilexec.Cmd {
	return x.Command(cmd, args...)
}

func (x *Exec) LookPath(file string) (string, error) { return "/usr/sbin/" + file, nil }

type execCmd struct {
	x      *Exec
	cmd    string
	args   []string
	stdin  io.Reader
	stdout io.Writer
	stderr io.Writer
}

var _ utilexec.Cmd = &execCmd{}

func exitErr(code int) error {
	return utilexec.CodeExitError{Err: fmt.Errorf("exit status %d", code), Code: code}
}

func (c *execCmd) run() (stdout, stderr string, err error) {
	var code int
	switch c.cmd {
	case "ipset":
		stdout, stderr, code = c.x.ipsetCmd(c.args)
	case "iptables":
		stdout, stderr, code = c.x.iptablesCmd(c.args)
	case "iptables-save":
		stdout, stderr, code = c.x.iptablesSave(c.args)
	case "iptables-restore":
		var data []byte
		if c.stdin != nil {
			data, _ = io.ReadAll(c.stdin)
		}
		stdout, stderr, code = c.x.iptablesRestore(c.args, data)
	default:
		code = c.x.unknownCmd(c.cmd, c.args)
		stderr = "command not found"
	}
	if code != 0 {
		err = exitErr(code)
	}
	return
}

func (c *execCmd) CombinedOutput() ([]byte, error) {
	o, e, err := c.run()
	return []byte(o + e), err
}

func (c *execCmd) Output() ([]byte, error) {
	o, _, err := c.run()
	return []byte(o), err
}

func (c *execCmd) Run() error {
	o, e, err := c.run()
	if c.stdout != nil {
		_, _ = io.WriteString(c.stdout, o)
	}
	if c.stderr != nil {
		_, _ = io.WriteString(c.stderr, e)
	}
	return err
}

func (c *execCmd) SetDir(dir string)       {}
func (c *execCmd) SetStdin(in io.Reader)   { c.stdin = in }
func (c *execCmd) SetStdout(out io.Writer) { c.stdout = out }
func (c *execCmd) SetStderr(out io.Writer) { c.stderr = out }
func (c *execCmd) SetEnv(env []string)     {}
func (c *execCmd) Start() error            { return c.Run() }
func (c *execCmd) Wait() error             { return nil }
func (c *execCmd) Stop()                   {}
func (c *execCmd) StdoutPipe() (io.ReadCloser, error) {
	return nil, fmt.Errorf("fakes.Exec: StdoutPipe is not modelled")
}
func (c *execCmd) StderrPipe() (io.ReadCloser, error) {
	return nil, fmt.Errorf("fakes.Exec: StderrPipe is not modelled")
}

func (x *Exec) unknownCmd(cmd string, args []string) int {
	x.mu.Lock()
	x.unknown = append(x.unknown, cmd+" "+strings.Join(args, " "))
	x.mu.Unlock()
	return 127
}

// toolError turns the error of a store operation into (stderr text, exit code) of the tool.
func toolError(tool string, err error) (string, int) {
	s := err.Error()
	if strings.Contains(s, "exit status 4") {
		return s + "\n", 4
	}
	// the stores render "exit status 1 (<op> <data>: <reason>)"; the tool prints "<tool> vX: <reason>"
	reason := s
	if i := strings.Index(s, ": "); i >= 0 && strings.HasPrefix(s, "exit status 1 (") {
		reason = strings.TrimSuffix(s[i+2:], ")")
	}
	return tool + ": " + reason + "\n", 1
}

// ---- ipset ----

const ipsetVersion = "ipset v7.17"

func (x *Exec) ipsetCmd(raw []string) (string, string, int) {
	exist := false
	var args []string
	for _, a := range raw {
		if a == "-exist" || a == "-!" {
			exist = true
			continue
		}
		args = append(args, a)
	}
	if len(args) == 0 {
		return "", "", x.unknownCmd("ipset", raw)
	}
	fail := func(err error) (string, string, int) {
		msg, code := toolError(ipsetVersion, err)
		return "", msg, code
	}
	switch args[0] {
	case "--version", "version":
		x.count("ipset version")
		return ipsetVersion + ", protocol version: 7\n", "", 0
	case "create":
		x.count("ipset create")
		if len(args) < 3 {
			return "", "", x.unknownCmd("ipset", raw)
		}
		set := &ipset.IPSet{Name: args[1], SetType: ipset.Type(args[2])}
		for i := 3; i < len(args); i += 2 {
			if i+1 >= len(args) {
				return "", "", x.unknownCmd("ipset", raw)
			}
			switch args[i] {
			case "family":
				set.HashFamily = args[i+1]
				if args[i+1] != "inet" && args[i+1] != "inet6" {
					return "", ipsetVersion + ": Syntax error: unknown inet family " + args[i+1] + "\n", 1
				}
			case "hashsize":
				set.HashSize, _ = strconv.Atoi(args[i+1])
			case "maxelem":
				set.MaxElem, _ = strconv.Atoi(args[i+1])
			case "range":
				set.PortRange = args[i+1]
			case "timeout", "netmask", "markmask":
			default:
				return "", "", x.unknownCmd("ipset", raw)
			}
		}
		if err := x.sets.CreateSet(set, exist); err != nil {
			return fail(err)
		}
		return "", "", 0
	case "add":
		x.count("ipset add")
		if len(args) < 3 {
			return "", "", x.unknownCmd("ipset", raw)
		}
		for _, o := range args[3:] {
			if o != "nomatch" {
				return "", "", x.unknownCmd("ipset", raw)
			}
		}
		if err := x.sets.AddEntry(strings.Join(args[2:], " "), &ipset.IPSet{Name: args[1]}, exist); err != nil {
			return fail(err)
		}
		return "", "", 0
	case "del":
		x.count("ipset del")
		if len(args) != 3 {
			return "", "", x.unknownCmd("ipset", raw)
		}
		if err := x.sets.DelEntry(args[2], args[1]); err != nil {
			if exist && strings.Contains(err.Error(), "it's not added") {
				return "", "", 0
			}
			return fail(err)
		}
		return "", "", 0
	case "test":
		x.count("ipset test")
		if len(args) != 3 {
			return "", "", x.unknownCmd("ipset", raw)
		}
		in, err := x.sets.TestEntry(args[2], args[1])
		if err != nil {
			return "", ipsetVersion + ": " + err.Error() + "\n", 1
		}
		if in {
			return "", args[2] + " is in set " + args[1] + ".\n", 0
		}
		return "", args[2] + " is NOT in set " + args[1] + ".\n", 1
	case "flush":
		x.count("ipset flush")
		if len(args) != 2 {
			return "", "", x.unknownCmd("ipset", raw)
		}
		if err := x.sets.FlushSet(args[1]); err != nil {
			return fail(err)
		}
		return "", "", 0
	case "destroy":
		x.count("ipset destroy")
		var err error
		switch len(args) {
		case 1:
			err = x.sets.DestroyAllSets()
		case 2:
			err = x.sets.DestroySet(args[1])
		default:
			return "", "", x.unknownCmd("ipset", raw)
		}
		if err != nil {
			return fail(err)
		}
		return "", "", 0
	case "list":
		switch {
		case len(args) == 2 && (args[1] == "-n" || args[1] == "-name"):
			x.count("ipset list -n")
			names, err := x.sets.ListSets()
			if err != nil {
				return fail(err)
			}
			var b strings.Builder
			for _, n := range names {
				if n != "" {
					b.WriteString(n + "\n")
				}
			}
			return b.String(), "", 0
		case len(args) == 1:
			x.count("ipset list (all)")
			names, err := x.sets.ListSets()
			if err != nil {
				return fail(err)
			}
			var b strings.Builder
			for _, n := range names {
				if n == "" {
					continue
				}
				out, msg, code := x.listOne(n)
				if code != 0 {
					return "", msg, code
				}
				b.WriteString(out + "\n")
			}
			return b.String(), "", 0
		case len(args) == 2:
			x.count("ipset list <set>")
			return x.listOne(args[1])
		}
	}
	return "", "", x.unknownCmd("ipset", raw)
}

// listOne renders one set the way `ipset list NAME` does.
func (x *Exec) listOne(name string) (string, string, int) {
	entries, err := x.sets.ListEntries(name)
	if err != nil {
		if strings.Contains(err.Error(), "exit status 4") || strings.Contains(err.Error(), "exit status 1 (") {
			msg, code := toolError(ipsetVersion, err)
			return "", msg, code
		}
		return "", ipsetVersion + ": The set with the given name does not exist\n", 1
	}
	info := x.sets.Sets()[name]
	refs := 0
	if x.sets.refs != nil {
		x.sets.mu.Lock()
		refs = x.sets.refs(name)
		x.sets.mu.Unlock()
	}
	var b strings.Builder
	fmt.Fprintf(&b, "Name: %s\nType: %s\nRevision: 6\nHeader: family inet hashsize 1024 maxelem 65536\n", name, info.Type)
	fmt.Fprintf(&b, "Size in memory: %d\nReferences: %d\nNumber of entries: %d\nMembers:\n", 448+64*len(entries), refs, len(entries))
	sort.Strings(entries)
	for _, e := range entries {
		b.WriteString(e + "\n")
	}
	return b.String(), "", 0
}

// ---- iptables ----

const iptablesVersion = "v1.8.9 (nf_tables)"

func stripWait(args []string) []string {
	var out []string
	for i := 0; i < len(args); i++ {
		if args[i] == "-w" || args[i] == "--wait" {
			if i+1 < len(args) {
				if _, err := strconv.Atoi(args[i+1]); err == nil {
					i++
				}
			}
			continue
		}
		out = append(out, args[i])
	}
	return out
}

func (x *Exec) iptablesCmd(raw []string) (string, string, int) {
	args := stripWait(raw)
	if len(args) == 1 && args[0] == "--version" {
		x.count("iptables --version")
		return "iptables " + iptablesVersion + "\n", "", 0
	}
	// <op> <chain> -t <table> [rule...]  (utiliptables.makeFullArgs); -P <chain> <policy> comes as -t <table> -P ...
	if len(args) >= 5 && args[0] == "-t" && args[2] == "-P" {
		x.count("iptables -P")
		if err := x.ipt.EnsurePolicy(utiliptables.Table(args[1]), utiliptables.Chain(args[3]), args[4]); err != nil {
			msg, code := toolError("iptables "+iptablesVersion, err)
			return "", msg, code
		}
		return "", "", 0
	}
	if len(args) < 4 || args[2] != "-t" {
		return "", "", x.unknownCmd("iptables", raw)
	}
	op, chain, table, rule := args[0], utiliptables.Chain(args[1]), utiliptables.Table(args[3]), args[4:]
	fail := func(err error) (string, string, int) {
		s := err.Error()
		if strings.Contains(s, "exit status 4") {
			return "", s + "\n", 4
		}
		return "", "iptables: " + s + "\n", 1
	}
	x.count("iptables " + op)
	switch op {
	case "-N":
		existed, err := x.ipt.EnsureChain(table, chain)
		if err != nil {
			return fail(err)
		}
		if existed {
			return "", "iptables: Chain already exists.\n", 1
		}
		return "", "", 0
	case "-F":
		if err := x.ipt.FlushChain(table, chain); err != nil {
			return fail(err)
		}
		return "", "", 0
	case "-X":
		if err := x.ipt.DeleteChain(table, chain); err != nil {
			return fail(err)
		}
		return "", "", 0
	case "-C":
		exists, bad, injected := x.ipt.checkExists(string(table), string(chain), rule)
		switch {
		case injected != nil:
			return fail(injected)
		case bad != nil:
			return "", "iptables " + iptablesVersion + ": " + bad.Error() + "\n", 2
		case !exists:
			return "", "iptables: Bad rule (does a matching rule exist in that chain?).\n", 1
		}
		return "", "", 0
	case "-A", "-I":
		if err := x.ipt.addRule(string(table), string(chain), op, rule); err != nil {
			return fail(err)
		}
		return "", "", 0
	case "-D":
		// the runner has just checked with -C that the rule exists
		if err := x.ipt.DeleteRule(table, chain, rule...); err != nil {
			return fail(err)
		}
		return "", "", 0
	case "-S":
		lines, err := x.ipt.ListRule(table, chain, rule...)
		if err != nil {
			return "", "iptables: " + NoChainErr + ".\n", 1
		}
		return strings.Join(lines, "\n"), "", 0
	}
	return "", "", x.unknownCmd("iptables", raw)
}

// checkExists is `iptables -C`: (exists, parameter problem, injected tool failure).
func (f *IPTables) checkExists(tn, cn string, args []string) (bool, error, error) {
	f.mu.Lock()
	defer f.mu.Unlock()
	if err := f.hook("-C"); err != nil {
		return false, nil, err
	}
	t, ok := f.tables[tn]
	if !ok {
		return false, fmt.Errorf("can't initialize iptables table `%s': Table does not exist", tn), nil
	}
	c, ok := t.chains[cn]
	if !ok {
		return false, nil, nil // exit status 1: No chain/target/match by that name
	}
	r := Rule{Tokens: normalize(args)}
	if err := f.checkRule(t, r); err != nil {
		return false, err, nil
	}
	return t.findRule(c, r) >= 0, nil, nil
}

// addRule is `iptables -A|-I` (no existence check: the tool appends duplicates).
func (f *IPTables) addRule(tn, cn, op string, args []string) error {
	f.mu.Lock()
	defer f.mu.Unlock()
	if err := f.hook(op); err != nil {
		return err
	}
	t, ok := f.tables[tn]
	if !ok {
		return fmt.Errorf("can't initialize iptables table `%s': Table does not exist", tn)
	}
	r := Rule{Tokens: normalize(args)}
	if err := f.checkRule(t, r); err != nil {
		return f.reject(op, err.Error(), cn+" "+strings.Join(args, " "))
	}
	c, ok := t.chains[cn]
	if !ok {
		return f.reject(op, NoChainErr, cn+" "+strings.Join(args, " "))
	}
	if op == "-I" {
		c.rules = append([]Rule{r}, c.rules...)
	} else {
		c.rules = append(c.rules, r)
	}
	return nil
}

func (x *Exec) iptablesSave(raw []string) (string, string, int) {
	args := stripWait(raw)
	if len(args) != 2 || args[0] != "-t" {
		return "", "", x.unknownCmd("iptables-save", raw)
	}
	x.count("iptables-save")
	var b bytes.Buffer
	if err := x.ipt.SaveInto(utiliptables.Table(args[1]), &b); err != nil {
		s := err.Error()
		if strings.Contains(s, "exit status 4") {
			return "", s + "\n", 4
		}
		return "", "iptables-save " + iptablesVersion + ": " + s + "\n", 1
	}
	return b.String(), "", 0
}

func (x *Exec) iptablesRestore(raw []string, data []byte) (string, string, int) {
	args := stripWait(raw)
	if len(args) == 1 && args[0] == "--version" {
		x.count("iptables-restore --version")
		return "iptables-restore " + iptablesVersion + "\n", "", 0
	}
	only, flush := "", true
	for i := 0; i < len(args); i++ {
		switch args[i] {
		case "--noflush", "-n":
			flush = false
		case "--counters", "-c":
		case "-T", "--table":
			if i+1 >= len(args) {
				return "", "", x.unknownCmd("iptables-restore", raw)
			}
			only = args[i+1]
			i++
		default:
			return "", "", x.unknownCmd("iptables-restore", raw)
		}
	}
	x.count("iptables-restore")
	if err := x.ipt.restore(only, data, flush); err != nil {
		s := err.Error()
		if strings.Contains(s, "exit status 4") {
			return "", s + "\n", 4
		}
		return "", "iptables-restore " + iptablesVersion + ": " + s + "\n", 1
	}
	return "", "", 0
}
