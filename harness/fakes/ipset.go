package fakes

import (
	"bytes"
	"fmt"
	"net"
	"sort"
	"strings"
	"sync"

	"tkestack.io/galaxy/pkg/utils/ipset"
)

type setState struct {
	typ     ipset.Type
	members map[string]string // element -> options ("" or "nomatch")
}

// IPSet is a strict, goroutine-safe fake of ipset.Interface.
type IPSet struct {
	mu      *sync.Mutex
	sets    map[string]*setState
	refs    func(name string) int // number of iptables rules referencing the set; called with mu held
	rejects []Reject
	ops     map[string]int
	// FailHook, if set, is consulted (with the kernel lock held) before every operation; a returned error makes the
	// operation fail without effect and without an entry in the reject log (the tool failed, the kernel refused nothing).
	FailHook func(op string) error
}

// NewIPSet creates the fake.
func NewIPSet() *IPSet {
	return &IPSet{mu: &sync.Mutex{}, sets: map[string]*setState{}, ops: map[string]int{}}
}

var _ ipset.Interface = &IPSet{}

func (f *IPSet) reject(op, reason, data string) error {
	f.rejects = append(f.rejects, Reject{Op: "ipset " + op, Kind: classify(reason), Reason: reason, Data: data})
	return fmt.Errorf("exit status 1 (ipset %s %s: %s)", op, data, reason)
}

// Rejects returns a copy of the reject log.
func (f *IPSet) Rejects() []Reject {
	f.mu.Lock()
	defer f.mu.Unlock()
	return append([]Reject(nil), f.rejects...)
}

// ResetRejects clears the reject log.
func (f *IPSet) ResetRejects() {
	f.mu.Lock()
	f.rejects = nil
	f.mu.Unlock()
}

func (f *IPSet) existsLocked(name string) bool {
	_, ok := f.sets[name]
	return ok
}

// Exists reports whether a set exists.
func (f *IPSet) Exists(name string) bool {
	f.mu.Lock()
	defer f.mu.Unlock()
	return f.existsLocked(name)
}

func (f *IPSet) FlushSet(set string) error {
	f.mu.Lock()
	defer f.mu.Unlock()
	f.ops["flush"]++
	if f.FailHook != nil {
		if err := f.FailHook("flush"); err != nil {
			return err
		}
	}
	s, ok := f.sets[set]
	if !ok {
		return f.reject("flush", "The set with the given name does not exist", set)
	}
	s.members = map[string]string{}
	return nil
}

func (f *IPSet) DestroySet(set string) error {
	f.mu.Lock()
	defer f.mu.Unlock()
	f.ops["destroy"]++
	if f.FailHook != nil {
		if err := f.FailHook("destroy"); err != nil {
			return err
		}
	}
	if _, ok := f.sets[set]; !ok {
		return f.reject("destroy", "The set with the given name does not exist", set)
	}
	if f.refs != nil && f.refs(set) > 0 {
		return f.reject("destroy", "Set cannot be destroyed: it is in use by a kernel component", set)
	}
	delete(f.sets, set)
	return nil
}

func (f *IPSet) DestroyAllSets() error {
	f.mu.Lock()
	defer f.mu.Unlock()
	f.ops["destroy-all"]++
	if f.FailHook != nil {
		if err := f.FailHook("destroy-all"); err != nil {
			return err
		}
	}
	for name := range f.sets {
		if f.refs != nil && f.refs(name) > 0 {
			return f.reject("destroy", "Set cannot be destroyed: it is in use by a kernel component", name)
		}
	}
	f.sets = map[string]*setState{}
	return nil
}

func (f *IPSet) CreateSet(set *ipset.IPSet, ignoreExistErr bool) error {
	f.mu.Lock()
	defer f.mu.Unlock()
	f.ops["create"]++
	if f.FailHook != nil {
		if err := f.FailHook("create"); err != nil {
			return err
		}
	}
	if set == nil || set.Name == "" || len(set.Name) > 31 {
		return f.reject("create", "invalid set name", fmt.Sprintf("%v", set))
	}
	typ := set.SetType
	if typ == "" {
		typ = ipset.HashIPPort
	}
	valid := false
	for _, t := range ipset.ValidIPSetTypes {
		if t == typ {
			valid = true
		}
	}
	if !valid {
		return f.reject("create", "unknown set type", string(typ))
	}
	if old, ok := f.sets[set.Name]; ok {
		if old.typ != typ {
			return f.reject("create", "Set cannot be created: set with the same name already exists (different type)",
				set.Name)
		}
		if !ignoreExistErr {
			return f.reject("create", "Set cannot be created: set with the same name already exists", set.Name)
		}
		return nil
	}
	f.sets[set.Name] = &setState{typ: typ, members: map[string]string{}}
	return nil
}

// canonElem validates and canonicalises an element for a set type.
func canonElem(typ ipset.Type, elem string) (string, error) {
	switch typ {
	case ipset.HashIP:
		ip := net.ParseIP(elem)
		if ip == nil || ip.To4() == nil {
			return "", fmt.Errorf("Syntax error: cannot parse %s: resolving to IPv4 address failed", elem)
		}
		return ip.To4().String(), nil
	case ipset.HashNet:
		if !strings.Contains(elem, "/") {
			ip := net.ParseIP(elem)
			if ip == nil || ip.To4() == nil {
				return "", fmt.Errorf("Syntax error: cannot parse %s", elem)
			}
			return ip.To4().String(), nil
		}
		_, n, err := net.ParseCIDR(elem)
		if err != nil || n.IP.To4() == nil {
			return "", fmt.Errorf("Syntax error: cannot parse %s", elem)
		}
		ones, _ := n.Mask.Size()
		if ones == 0 {
			return "", fmt.Errorf("The value of the CIDR parameter of the IP address is invalid")
		}
		if ones == 32 {
			return n.IP.String(), nil
		}
		return n.String(), nil
	default:
		if elem == "" {
			return "", fmt.Errorf("empty element")
		}
		return elem, nil
	}
}

func (f *IPSet) add(name, elem string, options []string, ignoreExist bool) error {
	s, ok := f.sets[name]
	if !ok {
		return f.reject("add", "The set with the given name does not exist", name+" "+elem)
	}
	ce, err := canonElem(s.typ, elem)
	if err != nil {
		return f.reject("add", err.Error(), name+" "+elem)
	}
	opt := strings.Join(options, " ")
	if opt != "" && !(opt == "nomatch" && s.typ == ipset.HashNet) {
		return f.reject("add", "unsupported option "+opt, name+" "+elem)
	}
	if _, exists := s.members[ce]; exists && !ignoreExist {
		return f.reject("add", "Element cannot be added to the set: it's already added", name+" "+elem)
	}
	s.members[ce] = opt
	return nil
}

func (f *IPSet) AddEntry(entry string, set *ipset.IPSet, ignoreExistErr bool) error {
	f.mu.Lock()
	defer f.mu.Unlock()
	f.ops["add"]++
	if f.FailHook != nil {
		if err := f.FailHook("add"); err != nil {
			return err
		}
	}
	parts := strings.Fields(entry)
	if len(parts) == 0 {
		return f.reject("add", "empty entry", set.Name)
	}
	return f.add(set.Name, parts[0], parts[1:], ignoreExistErr)
}

func (f *IPSet) AddEntryWithOptions(entry *ipset.Entry, set *ipset.IPSet, ignoreExistErr bool) error {
	f.mu.Lock()
	defer f.mu.Unlock()
	f.ops["add"]++
	if f.FailHook != nil {
		if err := f.FailHook("add"); err != nil {
			return err
		}
	}
	return f.add(set.Name, entry.String(), entry.Options, ignoreExistErr)
}

func (f *IPSet) del(name, elem string) error {
	s, ok := f.sets[name]
	if !ok {
		return f.reject("del", "The set with the given name does not exist", name+" "+elem)
	}
	ce, err := canonElem(s.typ, elem)
	if err != nil {
		return f.reject("del", err.Error(), name+" "+elem)
	}
	if _, exists := s.members[ce]; !exists {
		return f.reject("del", "Element cannot be deleted from the set: it's not added", name+" "+elem)
	}
	delete(s.members, ce)
	return nil
}

func (f *IPSet) DelEntry(entry string, set string) error {
	f.mu.Lock()
	defer f.mu.Unlock()
	f.ops["del"]++
	if f.FailHook != nil {
		if err := f.FailHook("del"); err != nil {
			return err
		}
	}
	parts := strings.Fields(entry)
	if len(parts) == 0 {
		return f.reject("del", "empty entry", set)
	}
	return f.del(set, parts[0])
}

func (f *IPSet) DelEntryWithOptions(set, entry string, options ...string) error {
	f.mu.Lock()
	defer f.mu.Unlock()
	f.ops["del"]++
	if f.FailHook != nil {
		if err := f.FailHook("del"); err != nil {
			return err
		}
	}
	return f.del(set, entry)
}

func (f *IPSet) TestEntry(entry string, set string) (bool, error) {
	f.mu.Lock()
	defer f.mu.Unlock()
	s, ok := f.sets[set]
	if !ok {
		return false, fmt.Errorf("The set with the given name does not exist")
	}
	ce, err := canonElem(s.typ, entry)
	if err != nil {
		return false, err
	}
	_, has := s.members[ce]
	return has, nil
}

func (f *IPSet) entriesLocked(s *setState) []string {
	var out []string
	for e, o := range s.members {
		if o != "" {
			out = append(out, e+" "+o)
		} else {
			out = append(out, e)
		}
	}
	sort.Strings(out)
	return out
}

func (f *IPSet) ListEntries(set string) ([]string, error) {
	f.mu.Lock()
	defer f.mu.Unlock()
	f.ops["list"]++
	if f.FailHook != nil {
		if err := f.FailHook("list"); err != nil {
			return nil, err
		}
	}
	if set == "" {
		return nil, fmt.Errorf("set name can't be nil")
	}
	s, ok := f.sets[set]
	if !ok {
		return nil, fmt.Errorf("error listing set: %s, error: The set with the given name does not exist", set)
	}
	return f.entriesLocked(s), nil
}

func (f *IPSet) ListSets() ([]string, error) {
	f.mu.Lock()
	defer f.mu.Unlock()
	f.ops["list-sets"]++
	if f.FailHook != nil {
		if err := f.FailHook("list-sets"); err != nil {
			return nil, err
		}
	}
	names := make([]string, 0, len(f.sets)+1)
	for n := range f.sets {
		names = append(names, n)
	}
	sort.Strings(names)
	// the real runner splits `ipset list -n` output on "\n", leaving a trailing empty string
	return append(names, ""), nil
}

func (f *IPSet) GetVersion() (string, error) { return "v7.17", nil }

func (f *IPSet) SaveAllSets() ([]byte, error) {
	return []byte(f.Dump()), nil
}

// Dump returns the canonical text of all sets.
func (f *IPSet) Dump() string {
	f.mu.Lock()
	defer f.mu.Unlock()
	names := make([]string, 0, len(f.sets))
	for n := range f.sets {
		names = append(names, n)
	}
	sort.Strings(names)
	var b bytes.Buffer
	for _, n := range names {
		s := f.sets[n]
		fmt.Fprintf(&b, "Name: %s\nType: %s\nMembers:\n", n, s.typ)
		for _, e := range f.entriesLocked(s) {
			b.WriteString(e + "\n")
		}
		b.WriteString("\n")
	}
	return b.String()
}

// SetInfo is a structured copy of one set.
type SetInfo struct {
	Type    ipset.Type
	Members map[string]string // element -> "" | "nomatch"
}

// Sets returns a structured copy of all sets.
func (f *IPSet) Sets() map[string]SetInfo {
	f.mu.Lock()
	defer f.mu.Unlock()
	out := map[string]SetInfo{}
	for n, s := range f.sets {
		m := map[string]string{}
		for e, o := range s.members {
			m[e] = o
		}
		out[n] = SetInfo{Type: s.typ, Members: m}
	}
	return out
}

// Ops returns a copy of the op counters.
func (f *IPSet) Ops() map[string]int {
	f.mu.Lock()
	defer f.mu.Unlock()
	m := map[string]int{}
	for k, v := range f.ops {
		m[k] = v
	}
	return m
}
