// Package fakes holds strict in-process models of the kernel interfaces galaxy drives through exec:
// iptables (save/restore/-N/-F/-X/-A/-I/-C/-D/-S/-P) and ipset. They are *environment*, not oracle:
// they behave like iptables 1.8.9 (nf_tables) as far as galaxy's use of it goes, reject what the kernel
// would reject, and log every rejected command with the reason.
package fakes

import (
	"bytes"
	"fmt"
	"sort"
	"strings"
	"sync"

	utiliptables "tkestack.io/galaxy/pkg/utils/iptables"
)

const NoChainErr = "No chain/target/match by that name"

// Rule is one rule: normalised tokens (unquoted), e.g. ["-d","10.0.0.1/32","-m","comment","--comment","a b","-j","X"].
type Rule struct {
	Tokens []string
}

// Canon returns the canonical comparison form of a rule.
func (r Rule) Canon() string { return strings.Join(canonGroups(r.Tokens), "\x00") }

// Target returns the -j/-g target or "".
func (r Rule) Target() string {
	for i := 0; i+1 < len(r.Tokens); i++ {
		if r.Tokens[i] == "-j" || r.Tokens[i] == "--jump" || r.Tokens[i] == "-g" || r.Tokens[i] == "--goto" {
			return r.Tokens[i+1]
		}
	}
	return ""
}

// MatchSets returns the set names referenced with -m set --match-set.
func (r Rule) MatchSets() []string {
	var out []string
	for i := 0; i+1 < len(r.Tokens); i++ {
		if r.Tokens[i] == "--match-set" {
			out = append(out, r.Tokens[i+1])
		}
	}
	return out
}

// String renders the rule body in iptables-save syntax.
func (r Rule) String() string {
	parts := make([]string, len(r.Tokens))
	for i, t := range r.Tokens {
		parts[i] = quoteIfNeeded(t)
	}
	return strings.Join(parts, " ")
}

func quoteIfNeeded(t string) string {
	if t == "" || strings.ContainsAny(t, " \t\"'\\") {
		return `"` + strings.ReplaceAll(strings.ReplaceAll(t, `\`, `\\`), `"`, `\"`) + `"`
	}
	return t
}

type chain struct {
	builtin bool
	policy  string
	rules   []Rule
}

type table struct {
	chains map[string]*chain
}

func (t *table) clone() *table {
	nt := &table{chains: make(map[string]*chain, len(t.chains))}
	for n, c := range t.chains {
		nc := &chain{builtin: c.builtin, policy: c.policy, rules: make([]Rule, len(c.rules))}
		copy(nc.rules, c.rules)
		nt.chains[n] = nc
	}
	return nt
}

// Reject is one rejected command.
type Reject struct {
	Op     string
	Kind   string // missing-chain | missing-set | chain-in-use | set-in-use | exists | not-member | other
	Reason string
	Data   string
}

// classify maps a rejection reason to its kind.
func classify(reason string) string {
	switch {
	case strings.Contains(reason, "doesn't exist") || strings.Contains(reason, "given name does not exist"):
		return "missing-set"
	case strings.Contains(reason, NoChainErr) || strings.Contains(reason, "Couldn't load target"):
		return "missing-chain"
	case strings.Contains(reason, "Too many links") || strings.Contains(reason, "Directory not empty"):
		return "chain-in-use"
	case strings.Contains(reason, "in use by a kernel component"):
		return "set-in-use"
	case strings.Contains(reason, "already exists") || strings.Contains(reason, "already added"):
		return "exists"
	case strings.Contains(reason, "it's not added"):
		return "not-member"
	}
	return "other"
}

// IPTables is a strict, goroutine-safe fake of utiliptables.Interface.
type IPTables struct {
	mu      *sync.Mutex // shared with the linked IPSet: one "kernel lock"
	tables  map[string]*table
	sets    *IPSet
	rejects []Reject
	ops     map[string]int
	// FailNext, if set, is consulted before every mutating op; returning an error makes the op fail without effect.
	FailHook func(op string) error
}

var builtinChains = map[string][]string{
	"filter": {"INPUT", "FORWARD", "OUTPUT"},
	"nat":    {"PREROUTING", "INPUT", "OUTPUT", "POSTROUTING"},
	"mangle": {"PREROUTING", "INPUT", "FORWARD", "OUTPUT", "POSTROUTING"},
}

var builtinTargets = map[string]bool{"ACCEPT": true, "DROP": true, "RETURN": true, "REJECT": true, "MARK": true,
	"DNAT": true, "SNAT": true, "MASQUERADE": true, "LOG": true, "REDIRECT": true, "QUEUE": true, "CONNMARK": true,
	"TCPMSS": true, "NOTRACK": true, "CT": true}

// NewIPTables creates the fake; sets may be nil (then -m set always fails).
func NewIPTables(sets *IPSet) *IPTables {
	f := &IPTables{tables: map[string]*table{}, sets: sets, ops: map[string]int{}, mu: &sync.Mutex{}}
	if sets != nil {
		f.mu = sets.mu
	}
	for tn, cs := range builtinChains {
		t := &table{chains: map[string]*chain{}}
		for _, c := range cs {
			t.chains[c] = &chain{builtin: true, policy: "ACCEPT"}
		}
		f.tables[tn] = t
	}
	if sets != nil {
		sets.refs = f.setRefs
	}
	return f
}

var _ utiliptables.Interface = &IPTables{}

func (f *IPTables) reject(op, reason, data string) error {
	f.rejects = append(f.rejects, Reject{Op: op, Kind: classify(reason), Reason: reason, Data: data})
	return fmt.Errorf("exit status 1 (%s: %s)", op, reason)
}

// Rejects returns a copy of the reject log.
func (f *IPTables) Rejects() []Reject {
	f.mu.Lock()
	defer f.mu.Unlock()
	return append([]Reject(nil), f.rejects...)
}

// ResetRejects clears the reject log.
func (f *IPTables) ResetRejects() {
	f.mu.Lock()
	f.rejects = nil
	f.mu.Unlock()
}

// Ops returns a copy of the op counters.
func (f *IPTables) Ops() map[string]int {
	f.mu.Lock()
	defer f.mu.Unlock()
	m := map[string]int{}
	for k, v := range f.ops {
		m[k] = v
	}
	return m
}

func (f *IPTables) setRefs(name string) int {
	// called by IPSet with the shared lock held
	n := 0
	for _, t := range f.tables {
		for _, c := range t.chains {
			for _, r := range c.rules {
				for _, s := range r.MatchSets() {
					if s == name {
						n++
					}
				}
			}
		}
	}
	return n
}

func (f *IPTables) hook(op string) error {
	f.ops[op]++
	if f.FailHook != nil {
		return f.FailHook(op)
	}
	return nil
}

func (f *IPTables) GetVersion() (string, error) { return "1.8.9", nil }
func (f *IPTables) IsIpv6() bool                { return false }

func (f *IPTables) tbl(name utiliptables.Table) (*table, error) {
	t, ok := f.tables[string(name)]
	if !ok {
		return nil, fmt.Errorf("can't initialize iptables table `%s': Table does not exist", name)
	}
	return t, nil
}

// EnsureChain is part of Interface.
func (f *IPTables) EnsureChain(tn utiliptables.Table, cn utiliptables.Chain) (bool, error) {
	f.mu.Lock()
	defer f.mu.Unlock()
	if err := f.hook("-N"); err != nil {
		return false, err
	}
	t, err := f.tbl(tn)
	if err != nil {
		return false, err
	}
	if _, ok := t.chains[string(cn)]; ok {
		return true, nil
	}
	if err := validChainName(string(cn)); err != nil {
		return false, f.reject("-N", err.Error(), string(cn))
	}
	t.chains[string(cn)] = &chain{}
	return false, nil
}

func validChainName(n string) error {
	if n == "" || len(n) > 28 || strings.ContainsAny(n, " \t") || strings.HasPrefix(n, "-") || strings.HasPrefix(n, "!") {
		return fmt.Errorf("Invalid chain name `%s'", n)
	}
	return nil
}

// FlushChain is part of Interface.
func (f *IPTables) FlushChain(tn utiliptables.Table, cn utiliptables.Chain) error {
	f.mu.Lock()
	defer f.mu.Unlock()
	if err := f.hook("-F"); err != nil {
		return err
	}
	t, err := f.tbl(tn)
	if err != nil {
		return err
	}
	c, ok := t.chains[string(cn)]
	if !ok {
		return fmt.Errorf("error flushing chain %q: exit status 1: iptables: %s.", cn, NoChainErr)
	}
	c.rules = nil
	return nil
}

func (t *table) referenced(name string) bool {
	for _, c := range t.chains {
		for _, r := range c.rules {
			if r.Target() == name {
				return true
			}
		}
	}
	return false
}

func (t *table) deleteChain(name string) error {
	c, ok := t.chains[name]
	if !ok {
		return fmt.Errorf("%s", NoChainErr)
	}
	if c.builtin {
		return fmt.Errorf("Invalid argument (cannot delete built-in chain)")
	}
	if len(c.rules) > 0 {
		return fmt.Errorf("Directory not empty")
	}
	if t.referenced(name) {
		return fmt.Errorf("Too many links (chain is referenced)")
	}
	delete(t.chains, name)
	return nil
}

// DeleteChain is part of Interface.
func (f *IPTables) DeleteChain(tn utiliptables.Table, cn utiliptables.Chain) error {
	f.mu.Lock()
	defer f.mu.Unlock()
	if err := f.hook("-X"); err != nil {
		return err
	}
	t, err := f.tbl(tn)
	if err != nil {
		return err
	}
	if err := t.deleteChain(string(cn)); err != nil {
		if !strings.Contains(err.Error(), NoChainErr) {
			_ = f.reject("-X", err.Error(), string(cn))
		}
		return fmt.Errorf("error deleting chain %q: exit status 1: iptables: %s.", cn, err.Error())
	}
	return nil
}

// checkRule validates a rule against a table state: targets and sets must exist.
func (f *IPTables) checkRule(t *table, r Rule) error {
	if len(r.Tokens) == 0 {
		return nil
	}
	for i, tok := range r.Tokens {
		if (tok == "-j" || tok == "-g" || tok == "--match-set" || tok == "-s" || tok == "-d" || tok == "-p" ||
			tok == "--dport" || tok == "--dports" || tok == "--comment" || tok == "-m") && i+1 >= len(r.Tokens) {
			return fmt.Errorf("option %q requires an argument", tok)
		}
	}
	if tg := r.Target(); tg != "" && !builtinTargets[tg] {
		if _, ok := t.chains[tg]; !ok {
			return fmt.Errorf("Couldn't load target `%s': chain does not exist", tg)
		}
		if t.chains[tg].builtin {
			return fmt.Errorf("Invalid target: built-in chain `%s'", tg)
		}
	}
	for _, s := range r.MatchSets() {
		if f.sets == nil || !f.sets.existsLocked(s) {
			return fmt.Errorf("Set %s doesn't exist", s)
		}
	}
	return nil
}

func (t *table) findRule(c *chain, r Rule) int {
	canon := r.Canon()
	for i := range c.rules {
		if c.rules[i].Canon() == canon {
			return i
		}
	}
	return -1
}

// EnsureRule is part of Interface.
func (f *IPTables) EnsureRule(pos utiliptables.RulePosition, tn utiliptables.Table, cn utiliptables.Chain,
	args ...string) (bool, error) {
	f.mu.Lock()
	defer f.mu.Unlock()
	if err := f.hook(string(pos)); err != nil {
		return false, err
	}
	t, err := f.tbl(tn)
	if err != nil {
		return false, err
	}
	r := Rule{Tokens: normalize(args)}
	if err := f.checkRule(t, r); err != nil {
		return false, f.reject(string(pos), err.Error(), string(cn)+" "+strings.Join(args, " "))
	}
	c, ok := t.chains[string(cn)]
	if !ok {
		return false, f.reject(string(pos), NoChainErr, string(cn)+" "+strings.Join(args, " "))
	}
	if t.findRule(c, r) >= 0 {
		return true, nil
	}
	if pos == utiliptables.Prepend {
		c.rules = append([]Rule{r}, c.rules...)
	} else {
		c.rules = append(c.rules, r)
	}
	return false, nil
}

// DeleteRule is part of Interface.
func (f *IPTables) DeleteRule(tn utiliptables.Table, cn utiliptables.Chain, args ...string) error {
	f.mu.Lock()
	defer f.mu.Unlock()
	if err := f.hook("-D"); err != nil {
		return err
	}
	t, err := f.tbl(tn)
	if err != nil {
		return err
	}
	r := Rule{Tokens: normalize(args)}
	c, ok := t.chains[string(cn)]
	if !ok {
		// iptables -C on a missing chain exits 1, which the real runner reads as "rule absent"
		return nil
	}
	if err := f.checkRule(t, r); err != nil {
		// -C with an unknown target/set is a parameter problem (exit 2) in the real runner
		return f.reject("-D", err.Error(), string(cn)+" "+strings.Join(args, " "))
	}
	if i := t.findRule(c, r); i >= 0 {
		c.rules = append(c.rules[:i:i], c.rules[i+1:]...)
	}
	return nil
}

// ListRule is part of Interface (iptables -S chain).
func (f *IPTables) ListRule(tn utiliptables.Table, cn utiliptables.Chain, args ...string) ([]string, error) {
	f.mu.Lock()
	defer f.mu.Unlock()
	f.ops["-S"]++
	t, err := f.tbl(tn)
	if err != nil {
		return nil, err
	}
	c, ok := t.chains[string(cn)]
	if !ok {
		return nil, fmt.Errorf("error listing rule: exit status 1: iptables: %s.", NoChainErr)
	}
	var b strings.Builder
	if c.builtin {
		fmt.Fprintf(&b, "-P %s %s\n", cn, c.policy)
	} else {
		fmt.Fprintf(&b, "-N %s\n", cn)
	}
	for _, r := range c.rules {
		fmt.Fprintf(&b, "-A %s %s\n", cn, r.String())
	}
	return strings.Split(b.String(), "\n"), nil
}

func (t *table) sortedChains() []string {
	var bi, user []string
	for n, c := range t.chains {
		if c.builtin {
			bi = append(bi, n)
		} else {
			user = append(user, n)
		}
	}
	sort.Strings(bi)
	sort.Strings(user)
	return append(bi, user...)
}

func (t *table) save(name string, b *bytes.Buffer) {
	fmt.Fprintf(b, "*%s\n", name)
	names := t.sortedChains()
	for _, n := range names {
		c := t.chains[n]
		pol := "-"
		if c.builtin {
			pol = c.policy
		}
		fmt.Fprintf(b, ":%s %s [0:0]\n", n, pol)
	}
	for _, n := range names {
		for _, r := range t.chains[n].rules {
			fmt.Fprintf(b, "-A %s %s\n", n, r.String())
		}
	}
	b.WriteString("COMMIT\n")
}

// SaveInto is part of Interface.
func (f *IPTables) SaveInto(tn utiliptables.Table, buffer *bytes.Buffer) error {
	f.mu.Lock()
	defer f.mu.Unlock()
	f.ops["save"]++
	if f.FailHook != nil {
		if err := f.FailHook("save"); err != nil {
			return err
		}
	}
	t, err := f.tbl(tn)
	if err != nil {
		return err
	}
	t.save(string(tn), buffer)
	return nil
}

// Dump returns the canonical text of one table (iptables-save syntax, chains sorted).
func (f *IPTables) Dump(tn string) string {
	f.mu.Lock()
	defer f.mu.Unlock()
	t, ok := f.tables[tn]
	if !ok {
		return ""
	}
	var b bytes.Buffer
	t.save(tn, &b)
	return b.String()
}

// Chains returns a structured copy of one table: chain -> rules.
func (f *IPTables) Chains(tn string) map[string][]Rule {
	f.mu.Lock()
	defer f.mu.Unlock()
	out := map[string][]Rule{}
	t, ok := f.tables[tn]
	if !ok {
		return out
	}
	for n, c := range t.chains {
		out[n] = append([]Rule(nil), c.rules...)
	}
	return out
}

// Policy returns the policy of a built-in chain.
func (f *IPTables) Policy(tn, cn string) string {
	f.mu.Lock()
	defer f.mu.Unlock()
	if t, ok := f.tables[tn]; ok {
		if c, ok := t.chains[cn]; ok {
			return c.policy
		}
	}
	return ""
}

// EnsurePolicy is part of Interface.
func (f *IPTables) EnsurePolicy(tn utiliptables.Table, cn utiliptables.Chain, policy string) error {
	f.mu.Lock()
	defer f.mu.Unlock()
	if err := f.hook("-P"); err != nil {
		return err
	}
	t, err := f.tbl(tn)
	if err != nil {
		return err
	}
	c, ok := t.chains[string(cn)]
	if !ok || !c.builtin {
		return f.reject("-P", "Bad built-in chain name", string(cn))
	}
	if policy != "ACCEPT" && policy != "DROP" {
		return f.reject("-P", "Bad policy name", policy)
	}
	c.policy = policy
	return nil
}

// Restore is part of Interface.
func (f *IPTables) Restore(tn utiliptables.Table, data []byte, flush utiliptables.FlushFlag,
	counters utiliptables.RestoreCountersFlag) error {
	return f.restore(string(tn), data, bool(flush))
}

// RestoreAll is part of Interface.
func (f *IPTables) RestoreAll(data []byte, flush utiliptables.FlushFlag,
	counters utiliptables.RestoreCountersFlag) error {
	return f.restore("", data, bool(flush))
}

// restore applies an iptables-restore script. Each table section is atomic: it is applied to a copy and swapped
// in at COMMIT; the first failing line rejects the section (and, like the real tool, ends the run: sections
// committed earlier stay).
func (f *IPTables) restore(only string, data []byte, flush bool) error {
	f.mu.Lock()
	defer f.mu.Unlock()
	if err := f.hook("restore"); err != nil {
		return err
	}
	var cur *table
	var curName string
	lines := strings.Split(string(data), "\n")
	fail := func(n int, line, reason string) error {
		return f.reject("restore", fmt.Sprintf("line %d: %s", n+1, reason), string(data))
	}
	for n, raw := range lines {
		line := strings.TrimSpace(raw)
		if line == "" || strings.HasPrefix(line, "#") {
			continue
		}
		switch {
		case strings.HasPrefix(line, "*"):
			if cur != nil {
				return fail(n, line, "table line inside a table section")
			}
			curName = strings.TrimSpace(line[1:])
			t, ok := f.tables[curName]
			if !ok {
				return fail(n, line, "Table does not exist: "+curName)
			}
			if only != "" && only != curName {
				cur, curName = nil, "" // skipped section
				continue
			}
			cur = t.clone()
			if flush {
				for name, c := range cur.chains {
					if c.builtin {
						c.rules = nil
					} else {
						delete(cur.chains, name)
					}
				}
			}
		case line == "COMMIT":
			if cur != nil {
				// deletion of sets referenced by rules is not checked here; sets are checked per rule
				f.tables[curName] = cur
			}
			cur, curName = nil, ""
		case strings.HasPrefix(line, ":"):
			if cur == nil {
				if only != "" {
					continue
				}
				return fail(n, line, "chain line outside a table section")
			}
			fields := strings.Fields(line[1:])
			if len(fields) < 2 {
				return fail(n, line, "bad chain line")
			}
			name, pol := fields[0], fields[1]
			if c, ok := cur.chains[name]; ok {
				if c.builtin {
					if pol != "-" {
						if pol != "ACCEPT" && pol != "DROP" {
							return fail(n, line, "bad policy")
						}
						c.policy = pol
					}
				} else {
					if pol != "-" {
						return fail(n, line, "policy on a user chain")
					}
					c.rules = nil // existing user chain: flushed
				}
			} else {
				if err := validChainName(name); err != nil {
					return fail(n, line, err.Error())
				}
				if pol != "-" {
					return fail(n, line, "policy on a user chain")
				}
				cur.chains[name] = &chain{}
			}
		case strings.HasPrefix(line, "-"):
			if cur == nil {
				if only != "" {
					continue
				}
				return fail(n, line, "rule line outside a table section")
			}
			toks, err := tokenize(line)
			if err != nil {
				return fail(n, line, err.Error())
			}
			if len(toks) < 2 {
				return fail(n, line, "bad rule line")
			}
			op, cn, rest := toks[0], toks[1], toks[2:]
			switch op {
			case "-A", "-I", "-D":
				r := Rule{Tokens: normalize(rest)}
				c, ok := cur.chains[cn]
				if !ok {
					return fail(n, line, NoChainErr+" (chain "+cn+")")
				}
				if err := f.checkRule(cur, r); err != nil {
					return fail(n, line, err.Error())
				}
				switch op {
				case "-A":
					c.rules = append(c.rules, r)
				case "-I":
					c.rules = append([]Rule{r}, c.rules...)
				case "-D":
					i := cur.findRule(c, r)
					if i < 0 {
						return fail(n, line, "Bad rule (does a matching rule exist in that chain?)")
					}
					c.rules = append(c.rules[:i:i], c.rules[i+1:]...)
				}
			case "-X":
				if err := cur.deleteChain(cn); err != nil {
					return fail(n, line, "-X "+cn+": "+err.Error())
				}
			case "-F":
				c, ok := cur.chains[cn]
				if !ok {
					return fail(n, line, NoChainErr)
				}
				c.rules = nil
			case "-N":
				if _, ok := cur.chains[cn]; ok {
					return fail(n, line, "Chain already exists")
				}
				cur.chains[cn] = &chain{}
			default:
				return fail(n, line, "unsupported command "+op)
			}
		default:
			return fail(n, line, "unrecognised line")
		}
	}
	if cur != nil {
		return f.reject("restore", "missing COMMIT", string(data))
	}
	return nil
}

// tokenize splits a restore line into tokens honouring double quotes and backslash escapes.
func tokenize(line string) ([]string, error) {
	var toks []string
	var cur strings.Builder
	inQ, have := false, false
	for i := 0; i < len(line); i++ {
		c := line[i]
		switch {
		case inQ && c == '\\' && i+1 < len(line):
			i++
			cur.WriteByte(line[i])
		case c == '"':
			inQ = !inQ
			have = true
		case !inQ && (c == ' ' || c == '\t'):
			if have {
				toks = append(toks, cur.String())
				cur.Reset()
				have = false
			}
		default:
			cur.WriteByte(c)
			have = true
		}
	}
	if inQ {
		return nil, fmt.Errorf("unterminated quote")
	}
	if have {
		toks = append(toks, cur.String())
	}
	return toks, nil
}

// normalize canonicalises argument tokens: strips surrounding quotes handed over verbatim, splits --opt=value,
// adds /32 to bare -s/-d addresses.
func normalize(args []string) []string {
	var out []string
	for i := 0; i < len(args); i++ {
		a := args[i]
		if strings.HasPrefix(a, "--") && strings.Contains(a, "=") {
			kv := strings.SplitN(a, "=", 2)
			out = append(out, kv[0], kv[1])
			continue
		}
		out = append(out, a)
	}
	for i := 0; i+1 < len(out); i++ {
		switch out[i] {
		case "-s", "-d", "--source", "--destination":
			if out[i] == "--source" {
				out[i] = "-s"
			}
			if out[i] == "--destination" {
				out[i] = "-d"
			}
			if !strings.Contains(out[i+1], "/") {
				out[i+1] += "/32"
			}
		case "--jump":
			out[i] = "-j"
		case "--protocol":
			out[i] = "-p"
		case "--match":
			out[i] = "-m"
		}
	}
	return out
}

// canonGroups groups tokens by option and orders the protocol first; "-p all" is dropped.
func canonGroups(toks []string) []string {
	var groups []string
	var proto string
	i := 0
	for i < len(toks) {
		j := i + 1
		if toks[i] == "!" && j < len(toks) {
			j++
		}
		for j < len(toks) && !(strings.HasPrefix(toks[j], "-") && len(toks[j]) > 1 && !isNumber(toks[j])) && toks[j] != "!" {
			j++
		}
		g := strings.Join(toks[i:j], "\x01")
		if toks[i] == "-p" {
			if !(j-i == 2 && toks[i+1] == "all") {
				proto = g
			}
		} else {
			groups = append(groups, g)
		}
		i = j
	}
	if proto != "" {
		groups = append([]string{proto}, groups...)
	}
	return groups
}

func isNumber(s string) bool {
	if len(s) < 2 || s[0] != '-' {
		return false
	}
	for _, c := range s[1:] {
		if c < '0' || c > '9' {
			return false
		}
	}
	return true
}

// Plant applies a restore script that must succeed (used by harnesses to set up prior state); the reject log is
// left untouched on success.
func (f *IPTables) Plant(script string) error {
	return f.restore("", []byte(script), false)
}
