module verif/harness

go 1.18

require (
	github.com/anishathalye/porcupine v1.3.0
	tkestack.io/galaxy v0.0.0
)

require (
	github.com/go-logr/logr v1.2.3 // indirect
	golang.org/x/sys v0.6.0 // indirect
	k8s.io/apimachinery v0.24.3 // indirect
	k8s.io/klog v1.0.0 // indirect
	k8s.io/klog/v2 v2.80.1 // indirect
	k8s.io/utils v0.0.0-20220210201930-3a6ce19ff2f9 // indirect
)

replace tkestack.io/galaxy => /repo
