// Package model holds harness-side reference models that are independent of galaxy's own code: pool topology as
// integer sets, allocation-key construction/parsing as documented, release-policy rules.
package model

import (
	"encoding/json"
	"fmt"
	"math/rand"
	"net"
	"sort"
	"strings"
)

// U32 converts a dotted IPv4 to uint32 (0 on error).
func U32(s string) uint32 {
	ip := net.ParseIP(s).To4()
	if ip == nil {
		return 0
	}
	return uint32(ip[0])<<24 | uint32(ip[1])<<16 | uint32(ip[2])<<8 | uint32(ip[3])
}

// IPStr converts uint32 to dotted IPv4.
func IPStr(u uint32) string {
	return fmt.Sprintf("%d.%d.%d.%d", byte(u>>24), byte(u>>16), byte(u>>8), byte(u))
}

// Subnet is base/bits.
type Subnet struct {
	Base uint32
	Bits int
}

func (s Subnet) Mask() uint32 {
	if s.Bits == 0 {
		return 0
	}
	return ^uint32(0) << (32 - uint(s.Bits))
}
func (s Subnet) Contains(u uint32) bool { return u&s.Mask() == s.Base&s.Mask() }
func (s Subnet) String() string         { return fmt.Sprintf("%s/%d", IPStr(s.Base&s.Mask()), s.Bits) }

// ParseSubnet parses a CIDR.
func ParseSubnet(c string) (Subnet, error) {
	_, n, err := net.ParseCIDR(c)
	if err != nil {
		return Subnet{}, err
	}
	ones, _ := n.Mask.Size()
	return Subnet{Base: U32(n.IP.String()), Bits: ones}, nil
}

// Pool is one configured pool.
type Pool struct {
	Subnet      Subnet
	Gateway     uint32
	Vlan        uint16
	Ranges      [][2]uint32
	NodeSubnets []Subnet
}

// IPs enumerates the pool's IPs.
func (p Pool) IPs() []uint32 {
	var out []uint32
	for _, r := range p.Ranges {
		for u := r[0]; ; u++ {
			out = append(out, u)
			if u == r[1] {
				break
			}
		}
	}
	return out
}

func (p Pool) Has(u uint32) bool {
	for _, r := range p.Ranges {
		if u >= r[0] && u <= r[1] {
			return true
		}
	}
	return false
}

func (p Pool) ServesNodeSubnet(s string) bool {
	for _, n := range p.NodeSubnets {
		if n.String() == s {
			return true
		}
	}
	return false
}

// Node is one cluster node.
type Node struct {
	Name string
	IP   string // "" = no InternalIP
}

// Topo is a generated topology.
type Topo struct {
	Pools []Pool
	Nodes []Node
}

// ConfText renders the pools as the floatingips JSON array (input text for galaxy).
func ConfText(pools []Pool) string {
	type conf struct {
		NodeSubnets []string `json:"nodeSubnets"`
		IPs         []string `json:"ips"`
		Subnet      string   `json:"subnet"`
		Gateway     string   `json:"gateway"`
		Vlan        uint16   `json:"vlan,omitempty"`
	}
	var cs []conf
	for _, p := range pools {
		c := conf{Subnet: p.Subnet.String(), Gateway: IPStr(p.Gateway), Vlan: p.Vlan}
		for _, n := range p.NodeSubnets {
			c.NodeSubnets = append(c.NodeSubnets, n.String())
		}
		for _, r := range p.Ranges {
			if r[0] == r[1] && r[0]&1 == 1 {
				// a single address may also be written as a range with equal ends
				c.IPs = append(c.IPs, IPStr(r[0])+"~"+IPStr(r[0]))
			} else if r[0] == r[1] {
				c.IPs = append(c.IPs, IPStr(r[0]))
			} else {
				c.IPs = append(c.IPs, IPStr(r[0])+"~"+IPStr(r[1]))
			}
		}
		cs = append(cs, c)
	}
	b, _ := json.Marshal(cs)
	return string(b)
}

// PoolOf returns the index of the pool holding ip, or -1.
func (t *Topo) PoolOf(ip string) int {
	u := U32(ip)
	for i, p := range t.Pools {
		if p.Has(u) {
			return i
		}
	}
	return -1
}

// AllIPs returns the configured IP set.
func (t *Topo) AllIPs() map[string]int {
	out := map[string]int{}
	for i, p := range t.Pools {
		for _, u := range p.IPs() {
			out[IPStr(u)] = i
		}
	}
	return out
}

// NodeSubnetOf returns the node subnet string containing the node's IP ("" if none).
func (t *Topo) NodeSubnetOf(n Node) string {
	if n.IP == "" {
		return ""
	}
	u := U32(n.IP)
	for _, p := range t.Pools {
		for _, s := range p.NodeSubnets {
			if s.Contains(u) {
				return s.String()
			}
		}
	}
	return ""
}

// Routable reports whether ip may be used on node n.
func (t *Topo) Routable(ip string, n Node) bool {
	pi := t.PoolOf(ip)
	if pi < 0 {
		return false
	}
	s := t.NodeSubnetOf(n)
	return s != "" && t.Pools[pi].ServesNodeSubnet(s)
}

// GenTopo generates a topology: 2–5 pools; pod subnets /24–/28 with 1–3 ranges of 1–4 IPs; pools may share a pod
// subnet with disjoint ranges; node subnets are drawn from a small pool of pairwise-disjoint subnets (incl. /32)
// so that several pools list the same node subnet; 3–6 nodes, some outside every node subnet, some without IP.
func GenTopo(rng *rand.Rand) *Topo {
	t := &Topo{}
	// node subnets: disjoint by construction (distinct third octet / host)
	nns := 2 + rng.Intn(3)
	var nodeSubnets []Subnet
	for i := 0; i < nns; i++ {
		switch rng.Intn(4) {
		case 0: // /32
			nodeSubnets = append(nodeSubnets, Subnet{Base: U32(fmt.Sprintf("172.16.%d.%d", 100+i, 2+rng.Intn(200))), Bits: 32})
		case 1: // /26
			nodeSubnets = append(nodeSubnets, Subnet{Base: U32(fmt.Sprintf("172.16.%d.%d", i, 64*rng.Intn(4))), Bits: 26})
		default:
			nodeSubnets = append(nodeSubnets, Subnet{Base: U32(fmt.Sprintf("172.16.%d.0", i)), Bits: 24})
		}
	}
	npools := 2 + rng.Intn(4)
	type podSubnet struct {
		s    Subnet
		used map[uint32]bool
	}
	var podSubnets []*podSubnet
	for i := 0; i < npools; i++ {
		var ps *podSubnet
		if len(podSubnets) > 0 && rng.Intn(3) == 0 {
			ps = podSubnets[rng.Intn(len(podSubnets))]
		} else {
			bits := 24 + rng.Intn(5) // /24../28
			ps = &podSubnet{s: Subnet{Base: U32(fmt.Sprintf("10.%d.%d.0", 1+len(podSubnets), rng.Intn(4))), Bits: bits},
				used: map[uint32]bool{}}
			podSubnets = append(podSubnets, ps)
		}
		size := uint32(1) << (32 - uint(ps.s.Bits))
		base := ps.s.Base & ps.s.Mask()
		p := Pool{Subnet: ps.s, Vlan: uint16(rng.Intn(6)) + uint16(i)*7}
		// gateway: a host address in the subnet, distinct per pool
		for tries := 0; tries < 50; tries++ {
			g := base + 1 + uint32(rng.Intn(int(size-2)))
			if !ps.used[g] {
				ps.used[g] = true
				p.Gateway = g
				break
			}
		}
		if p.Gateway == 0 {
			continue
		}
		nr := 1 + rng.Intn(3)
		for r := 0; r < nr; r++ {
			ln := uint32(1 + rng.Intn(4))
			for tries := 0; tries < 30; tries++ {
				lo := base + 1 + uint32(rng.Intn(int(size-2)))
				hi := lo + ln - 1
				if hi >= base+size-1 {
					continue
				}
				ok := true
				// keep a gap of ≥1 to everything used (so ranges are never mergeable) and avoid used addresses
				for u := lo - 1; u <= hi+1; u++ {
					if ps.used[u] && !(u == p.Gateway && (u == lo-1 || u == hi+1)) {
						ok = false
						break
					}
				}
				if !ok {
					continue
				}
				for u := lo - 1; u <= hi+1; u++ {
					ps.used[u] = true
				}
				p.Ranges = append(p.Ranges, [2]uint32{lo, hi})
				break
			}
		}
		if len(p.Ranges) == 0 {
			continue
		}
		sort.Slice(p.Ranges, func(a, b int) bool { return p.Ranges[a][0] < p.Ranges[b][0] })
		nn := 1 + rng.Intn(2)
		seen := map[int]bool{}
		for k := 0; k < nn; k++ {
			j := rng.Intn(len(nodeSubnets))
			if !seen[j] {
				seen[j] = true
				p.NodeSubnets = append(p.NodeSubnets, nodeSubnets[j])
			}
		}
		t.Pools = append(t.Pools, p)
	}
	if len(t.Pools) == 0 {
		return GenTopo(rng)
	}
	// nodes
	nnodes := 3 + rng.Intn(4)
	for i := 0; i < nnodes; i++ {
		n := Node{Name: fmt.Sprintf("node%d", i)}
		switch {
		case i == nnodes-1 && rng.Intn(3) == 0:
			n.IP = "" // no InternalIP
		case rng.Intn(6) == 0:
			n.IP = fmt.Sprintf("192.168.%d.%d", i, 5) // outside every node subnet
		default:
			s := nodeSubnets[rng.Intn(len(nodeSubnets))]
			if s.Bits == 32 {
				n.IP = IPStr(s.Base)
			} else {
				sz := uint32(1) << (32 - uint(s.Bits))
				n.IP = IPStr((s.Base & s.Mask()) + 1 + uint32(rng.Intn(int(sz-2))))
			}
		}
		t.Nodes = append(t.Nodes, n)
	}
	return t
}

// ---- allocation keys, built and parsed as documented (doc comments in util/utils.go and doc/float-ip.md) ----

// Key describes an allocation key.
type Key struct {
	Pool, Type, NS, App, Pod string // Type without trailing underscore: dp sts tapp NULL ...
}

// PodKey builds the key of a pod.
func PodKey(pool, typ, ns, app, pod string) string {
	k := fmt.Sprintf("%s_%s_%s_%s", typ, ns, app, pod)
	if pool != "" {
		return "pool__" + pool + "_" + k
	}
	return k
}

// PrefixKey builds the key under which an app (deployment) or a pool holds IPs in reserve.
func PrefixKey(pool, typ, ns, app string) string {
	if pool != "" {
		return "pool__" + pool + "_"
	}
	return fmt.Sprintf("%s_%s_%s_", typ, ns, app)
}

// ParseKey splits a key. ok=false if it has neither the pod nor a prefix form.
func ParseKey(key string) (k Key, ok bool) {
	rest := key
	if strings.HasPrefix(key, "pool__") {
		r := key[len("pool__"):]
		i := strings.Index(r, "_")
		if i < 0 {
			return k, false
		}
		k.Pool = r[:i]
		rest = r[i+1:]
		if rest == "" {
			return k, true // pool prefix key
		}
	}
	parts := strings.Split(rest, "_")
	if len(parts) != 4 {
		return k, false
	}
	k.Type, k.NS, k.App, k.Pod = parts[0], parts[1], parts[2], parts[3]
	return k, true
}

// IsPrefix reports whether the key is an app/pool reserve key (no pod part).
func (k Key) IsPrefix() bool { return k.Pod == "" }
