package model

import "math/rand"

// MutateTopo derives a new configuration: grow, shrink, move a range to another pool, change node subnets, change the
// VLAN of a pool that keeps its addresses (what a bound pod is told about an address it re-uses must follow).
func MutateTopo(rng *rand.Rand, old *Topo) *Topo {
	nt := &Topo{Nodes: old.Nodes}
	for _, p := range old.Pools {
		q := p
		q.Ranges = append([][2]uint32(nil), p.Ranges...)
		q.NodeSubnets = append([]Subnet(nil), p.NodeSubnets...)
		nt.Pools = append(nt.Pools, q)
	}
	i := rng.Intn(len(nt.Pools))
	p := &nt.Pools[i]
	switch rng.Intn(5) {
	case 4: // same addresses, other VLAN
		p.Vlan = (p.Vlan+1+uint16(rng.Intn(40)))%4094 + 1
	case 0: // shrink: drop or trim a range
		j := rng.Intn(len(p.Ranges))
		if p.Ranges[j][0] < p.Ranges[j][1] && rng.Intn(2) == 0 {
			p.Ranges[j][1]--
		} else if len(p.Ranges) > 1 {
			p.Ranges = append(p.Ranges[:j:j], p.Ranges[j+1:]...)
		} else if len(nt.Pools) > 1 {
			nt.Pools = append(nt.Pools[:i:i], nt.Pools[i+1:]...)
		}
	case 1: // grow: extend the last range upward if it stays inside the subnet and clear of others
		j := len(p.Ranges) - 1
		hi := p.Ranges[j][1] + 1
		sz := uint32(1) << (32 - uint(p.Subnet.Bits))
		top := (p.Subnet.Base & p.Subnet.Mask()) + sz - 1
		if hi < top && hi+1 != p.Gateway && hi != p.Gateway && !usedByOthers(nt, i, hi) && !usedByOthers(nt, i, hi+1) {
			p.Ranges[j][1] = hi
		}
	case 2: // change node subnets: take over another pool's list
		k := rng.Intn(len(nt.Pools))
		p.NodeSubnets = append([]Subnet(nil), nt.Pools[k].NodeSubnets...)
	case 3: // drop a whole pool
		if len(nt.Pools) > 1 {
			nt.Pools = append(nt.Pools[:i:i], nt.Pools[i+1:]...)
		}
	}
	return nt
}

func usedByOthers(t *Topo, self int, u uint32) bool {
	for i, p := range t.Pools {
		if i == self {
			continue
		}
		if p.Has(u) || p.Gateway == u {
			return true
		}
	}
	return false
}
