// Engine confmodel decides C20: floating-IP configuration and IP ranges decode, validate and round-trip.
//
// It generates configuration texts from a grammar (valid, and one mutation away from valid), feeds each text to the
// real decoder (json.Unmarshal into []*floatingip.FloatingIPPool, i.e. FloatingIPPool.UnmarshalJSON + fipCheck +
// nets.ParseIPRange / nets.IPNet) and compares what comes out with an independent integer-set model of the same text
// (model.go). Accepted pools are checked against the laws of the property; rejected texts are offered to the real reload
// path (VerifReloadConfigMap on a plugin in ConfigMap mode) which must change nothing; the enumeration law
// (ConfigurePool + ByPrefix("")) runs in watchdogged child processes.
package main

import (
	"encoding/json"
	"flag"
	"fmt"
	"os"
	"sort"
	"strings"
	"sync"

	"verif/harness/evid"
)

const nWorkers = 16 // fixed: the case -> worker mapping (and with it every reload sequence) is a function of the seed only

func main() {
	fl := evid.ParseFlags()
	if strings.HasPrefix(fl.Child, "enum,") {
		os.Exit(enumChild(fl))
	}
	_ = flag.CommandLine
	if fl.Prop == "" {
		fl.Prop = "C20"
	}
	run := evid.NewRun(fl.Prop, fl.Tier, fl.Seed, "exploration", "confmodel")
	run.Rule = "case i = grammar-generated configuration text from PRNG(seed,i): 1-3 pools, either valid (plain, single-address, " +
		"boundary addresses, extreme masks, routableSubnet, duplicate nodeSubnets, IPv4-mapped literals, shared subnet) or valid with " +
		"one mutation on one pool (unsorted, adjacent, overlapping, outside-subnet, first-gt-last, ipv6-literal, gateway-outside, " +
		"missing-field, bad-syntax); plus generated range strings and CIDR strings. Non-trivial = accepted configuration with a pool " +
		"of >= 2 ranges, or any mutation-class member, or an accepted range/CIDR string class; distinct by structural shape: " +
		"class/variant, verdict, and per pool (mask bucket, number of ranges, boundary flags, routable/dup/vlan flags, law defects) " +
		"- never by the raw text."
	run.Assume("the Go standard library (encoding/json generic decoding, net/netip IPv6 literal parsing) is correct; the model uses it, galaxy code is not used by the model")
	run.Assume("pod subnets are never 0.0.0.0/0 and the range string 0.0.0.0~255.255.255.255 is not generated (2^32 addresses do not fit the 32-bit counters; excluded by the property's quantifier)")
	run.Assume("a pool's subnet is what the text's `subnet` field says (doc/galaxy-ipam-config.md: 'the pod IP subnet')")
	run.Assume("enumeration hang verdict: a ConfigurePool+ByPrefix call on a pool of <= 4096 addresses that has allocated > 600000 heap objects without returning is spinning (logical work bound, not a time bound); 60 s without such work only makes the run inconclusive")
	run.Assume("JSON keys are generated in their documented spelling only; pools with several keys folding to one field are not judged")

	dir := os.Getenv("VERIF_BUILD_DIR")
	if dir != "" {
		dir, _ = os.MkdirTemp(dir, "confmodel-")
	} else {
		dir, _ = os.MkdirTemp("", "confmodel-")
	}
	defer os.RemoveAll(dir)

	rep := &reporter{run: run, perSig: map[string]int{}}
	nTexts := evid.Tiered(fl.Tier, 150000, 3000000)
	nVals := evid.Tiered(fl.Tier, 100000, 1000000)
	enumCap := evid.Tiered(fl.Tier, 40000, 400000)
	hangBudget := evid.Tiered(fl.Tier, 6, 40) // per shard
	minNontrivial := evid.Tiered(fl.Tier, 400, 1500)

	var replayCase map[string]interface{}
	if fl.Replay != "" {
		data, err := os.ReadFile(fl.Replay)
		if err != nil {
			fmt.Println("cannot read replay file:", err)
			os.Exit(evid.ExitBroken)
		}
		var rf struct {
			Violation struct {
				Witness map[string]interface{} `json:"witness"`
			} `json:"violation"`
		}
		if err := json.Unmarshal(data, &rf); err != nil || rf.Violation.Witness == nil {
			fmt.Println("replay file has no witness:", err)
			os.Exit(evid.ExitBroken)
		}
		replayCase = rf.Violation.Witness
		nTexts, nVals, minNontrivial = 0, 0, 0
	}

	workers := make([]*worker, nWorkers)
	var wg sync.WaitGroup
	var mu sync.Mutex
	for id := 0; id < nWorkers; id++ {
		w := &worker{id: id, rep: rep, c: map[string]int64{}, nt: map[string]struct{}{}, enumStride: evid.Tiered(fl.Tier, 1, 5)}
		workers[id] = w
		wg.Add(1)
		go func(w *worker) {
			defer wg.Done()
			sampleNow := false
			w.sample = func(s interface{}) {
				if sampleNow {
					run.Sample(s)
				}
			}
			needReload := replayCase == nil || w.id == 0
			if needReload {
				rl, err := newReloader(w.id)
				if err != nil {
					mu.Lock()
					run.Inconclusive("reload harness could not be built: " + err.Error())
					mu.Unlock()
				} else {
					w.rl = rl
					defer rl.close()
				}
			}
			if replayCase != nil {
				if w.id != 0 {
					return
				}
				text, _ := replayCase["text"].(string)
				class, _ := replayCase["class"].(string)
				switch replayCase["kind"] {
				case "range":
					w.evalRangeString("replay", text, class)
				case "cidr":
					w.evalCIDRString("replay", text, class)
				default:
					w.evalConfig("replay", 0, text, "replay", class, true)
				}
				return
			}
			for i := w.id; i < nTexts; i += nWorkers {
				rng := evid.NewRng(fl.Seed, "config", i)
				gc := genCaseFor(rng)
				isMut := false
				for _, m := range mutationClasses {
					if m == gc.class {
						isMut = true
					}
				}
				sampleNow = i%4999 == 0
				w.evalConfig(fmt.Sprintf("%d:%d", fl.Seed, i), i, gc.text, gc.class, gc.variant, isMut)
			}
			for i := w.id; i < nVals; i += nWorkers {
				rng := evid.NewRng(fl.Seed, "values", i)
				s, class := genRangeString(rng)
				w.evalRangeString(fmt.Sprintf("%d:r%d", fl.Seed, i), s, class)
				s, class = genCIDRString(rng)
				w.evalCIDRString(fmt.Sprintf("%d:c%d", fl.Seed, i), s, class)
			}
		}(w)
	}
	wg.Wait()

	var jobs []enumJob
	for _, w := range workers {
		for k, v := range w.c {
			run.Count(k, v)
		}
		for k := range w.nt {
			run.Nontrivial(k)
		}
		jobs = append(jobs, w.jobs...)
		if w.rl != nil && w.rl.broken != "" {
			run.Inconclusive("reload harness: " + w.rl.broken)
		}
	}
	run.Eval(int(run.Counter("texts") + run.Counter("range_strings") + run.Counter("cidr_strings")))
	sort.Slice(jobs, func(i, j int) bool {
		if jobs[i].Idx != jobs[j].Idx {
			return jobs[i].Idx < jobs[j].Idx
		}
		return jobs[i].Pool < jobs[j].Pool
	})
	run.Count("enumeration_candidates(accepted_pools_up_to_4096)", int64(len(jobs)))
	if len(jobs) > enumCap {
		// keep an evenly spread, seed-determined subset
		kept := make([]enumJob, 0, enumCap)
		for k := 0; k < enumCap; k++ {
			kept = append(kept, jobs[int(int64(k)*int64(len(jobs))/int64(enumCap))])
		}
		jobs = kept
	}
	runEnumeration(run, rep, fl, dir, jobs, 8, hangBudget)

	if replayCase == nil {
		// a run that did not see the situations the property is about is inconclusive
		for _, k := range []string{"accepted", "rejected", "reload_attempts_with_rejected_text", "remembered_configuration_probes",
			"pool_roundtrips", "insert_remove_sequences", "range_roundtrips", "cidr_roundtrips",
			"reload_positive_controls(valid_config_applied)"} {
			if run.Counter(k) == 0 {
				run.Inconclusive("counter " + k + " is zero")
			}
		}
		if run.Counter("enumerations_done")+run.Counter("enumeration_hangs") == 0 {
			run.Inconclusive("no enumeration was performed")
		}
		for _, cl := range append(append([]string{}, mutationClasses...), validClasses...) {
			if run.Counter("class:"+cl) == 0 {
				run.Inconclusive("class " + cl + " was never generated")
			}
		}
		for _, k := range []string{"boundary_pools_range_from_0.0.0.0", "boundary_pools_range_to_255.255.255.255",
			"boundary_pools_range_from_x.x.x.0", "boundary_pools_range_to_x.x.x.255"} {
			if run.Counter(k) == 0 {
				run.Inconclusive("counter " + k + " is zero")
			}
		}
	}
	os.Exit(run.Finish(minNontrivial))
}
