package main

// Independent model of the floating-IP configuration text. Nothing in this file calls galaxy code: the input JSON
// text is parsed with encoding/json into generic values and every address / CIDR / range string is interpreted by
// the parsers below into 128-bit integers (IPv4 addresses live in ::ffff:0:0/96, so that an IPv4-mapped IPv6
// literal denotes the same address as its dotted form, exactly as the Go standard library treats it).

import (
	"bytes"
	"encoding/json"
	"fmt"
	"net/netip"
	"sort"
	"strings"
)

type u128 struct{ hi, lo uint64 }

func (a u128) cmp(b u128) int {
	switch {
	case a.hi < b.hi:
		return -1
	case a.hi > b.hi:
		return 1
	case a.lo < b.lo:
		return -1
	case a.lo > b.lo:
		return 1
	}
	return 0
}
func (a u128) less(b u128) bool { return a.cmp(b) < 0 }
func (a u128) leq(b u128) bool  { return a.cmp(b) <= 0 }
func (a u128) isMax() bool      { return a.hi == ^uint64(0) && a.lo == ^uint64(0) }
func (a u128) isZero() bool     { return a.hi == 0 && a.lo == 0 }
func (a u128) add1() u128 {
	lo := a.lo + 1
	hi := a.hi
	if lo == 0 {
		hi++
	}
	return u128{hi, lo}
}
func (a u128) sub1() u128 {
	hi := a.hi
	if a.lo == 0 {
		hi--
	}
	return u128{hi, a.lo - 1}
}

// sub returns a-b (a >= b assumed).
func (a u128) sub(b u128) u128 {
	lo := a.lo - b.lo
	hi := a.hi - b.hi
	if a.lo < b.lo {
		hi--
	}
	return u128{hi, lo}
}
func (a u128) add(b u128) u128 {
	lo := a.lo + b.lo
	hi := a.hi + b.hi
	if lo < a.lo {
		hi++
	}
	return u128{hi, lo}
}

const v4prefix = uint64(0xffff) << 32

func fromV4(x uint32) u128   { return u128{0, v4prefix | uint64(x)} }
func (a u128) isV4() bool    { return a.hi == 0 && a.lo>>32 == 0xffff }
func (a u128) v4() uint32    { return uint32(a.lo) }
func (a u128) low32() uint32 { return uint32(a.lo) }
func (a u128) bytes() [16]byte {
	var b [16]byte
	for i := 0; i < 8; i++ {
		b[i] = byte(a.hi >> (56 - 8*uint(i)))
		b[8+i] = byte(a.lo >> (56 - 8*uint(i)))
	}
	return b
}
func fromBytes16(b []byte) u128 {
	var a u128
	for i := 0; i < 8; i++ {
		a.hi = a.hi<<8 | uint64(b[i])
		a.lo = a.lo<<8 | uint64(b[8+i])
	}
	return a
}
func (a u128) String() string {
	if a.isV4() {
		x := a.v4()
		return fmt.Sprintf("%d.%d.%d.%d", x>>24, (x>>16)&255, (x>>8)&255, x&255)
	}
	return netip.AddrFrom16(a.bytes()).String()
}

// parseV4 is a strict dotted-quad parser: four decimal fields 0..255, no leading zeros, nothing else.
func parseV4(s string) (uint32, bool) {
	var x uint32
	field := 0
	i := 0
	for field < 4 {
		if i >= len(s) {
			return 0, false
		}
		start := i
		v := 0
		for i < len(s) && s[i] >= '0' && s[i] <= '9' {
			v = v*10 + int(s[i]-'0')
			i++
			if i-start > 3 {
				return 0, false
			}
		}
		if i == start || v > 255 {
			return 0, false
		}
		if i-start > 1 && s[start] == '0' {
			return 0, false
		}
		x = x<<8 | uint32(v)
		field++
		if field < 4 {
			if i >= len(s) || s[i] != '.' {
				return 0, false
			}
			i++
		}
	}
	if i != len(s) {
		return 0, false
	}
	return x, true
}

// parseAddr interprets an address literal. IPv6 literals go through net/netip (standard library, not galaxy code);
// zones are not addresses of a pool.
func parseAddr(s string) (u128, bool) {
	if x, ok := parseV4(s); ok {
		return fromV4(x), true
	}
	if !strings.Contains(s, ":") || strings.Contains(s, "%") {
		return u128{}, false
	}
	a, err := netip.ParseAddr(s)
	if err != nil || !a.Is6() {
		return u128{}, false
	}
	b := a.As16()
	return fromBytes16(b[:]), true
}

// mNet is a CIDR: the address as written (host bits kept), the prefix length, the width of the family as written
// (32 for a dotted quad, 128 for an IPv6 literal, including IPv4-mapped ones) and the covered interval.
type mNet struct {
	addr   u128
	bits   int
	width  int
	lo, hi u128
}

func (n mNet) contains(a u128) bool { return n.lo.leq(a) && a.leq(n.hi) }
func (n mNet) String() string       { return fmt.Sprintf("%s/%d", n.lo, n.bits) }

// canonKey identifies the network (masked base, prefix length counted from the top of the 128-bit space).
func (n mNet) canonKey() string {
	return fmt.Sprintf("%x:%x/%d", n.lo.hi, n.lo.lo, n.bits+(128-n.width))
}

func maskRange(addr u128, bits, width int) (u128, u128) {
	abs := bits + (128 - width) // number of leading bits fixed
	var mhi, mlo uint64
	switch {
	case abs <= 0:
	case abs < 64:
		mhi = ^uint64(0) << uint(64-abs)
	case abs == 64:
		mhi = ^uint64(0)
	case abs < 128:
		mhi = ^uint64(0)
		mlo = ^uint64(0) << uint(128-abs)
	default:
		mhi, mlo = ^uint64(0), ^uint64(0)
	}
	lo := u128{addr.hi & mhi, addr.lo & mlo}
	hi := u128{addr.hi | ^mhi, addr.lo | ^mlo}
	return lo, hi
}

func parseCIDR(s string) (mNet, bool) {
	i := strings.IndexByte(s, '/')
	if i < 0 {
		return mNet{}, false
	}
	as, bs := s[:i], s[i+1:]
	addr, ok := parseAddr(as)
	if !ok {
		return mNet{}, false
	}
	width := 128
	if _, is4 := parseV4(as); is4 {
		width = 32
	}
	if len(bs) == 0 || len(bs) > 6 {
		return mNet{}, false
	}
	bits := 0
	for _, c := range []byte(bs) {
		if c < '0' || c > '9' {
			return mNet{}, false
		}
		bits = bits*10 + int(c-'0')
	}
	if bits > width {
		return mNet{}, false
	}
	n := mNet{addr: addr, bits: bits, width: width}
	n.lo, n.hi = maskRange(addr, bits, width)
	return n, true
}

type mRange struct{ lo, hi u128 }

func (r mRange) contains(a u128) bool { return r.lo.leq(a) && a.leq(r.hi) }
func (r mRange) count() u128          { return r.hi.sub(r.lo).add1() }
func (r mRange) String() string {
	if r.lo == r.hi {
		return r.lo.String()
	}
	return r.lo.String() + "~" + r.hi.String()
}

// parseRange interprets "a" or "a~b". reason names why the string is not a range.
func parseRange(s string) (mRange, string) {
	if i := strings.IndexByte(s, '~'); i >= 0 {
		a, ok1 := parseAddr(s[:i])
		b, ok2 := parseAddr(s[i+1:])
		if !ok1 || !ok2 {
			return mRange{}, "bad-address"
		}
		if a.isV4() != b.isV4() {
			return mRange{}, "mixed-family"
		}
		if b.less(a) {
			return mRange{}, "first-gt-last"
		}
		return mRange{a, b}, ""
	}
	a, ok := parseAddr(s)
	if !ok {
		return mRange{}, "bad-address"
	}
	return mRange{a, a}, ""
}

// mPool is the model of one pool object of the configuration text.
type mPool struct {
	isNull    bool
	invalid   string // non-empty: the text of this pool does not denote a pool (field: reason)
	ambiguous bool   // several keys fold to the same field; the model does not judge such a pool
	ranges    []mRange
	subnet    mNet
	gateway   u128
	nodeNets  []mNet // effective node subnets, masked, de-duplicated, order of first appearance
	routable  bool
	dupNode   bool
	vlan      uint16
}

type mConfig struct {
	invalid string // the text as a whole is not a configuration (not JSON / not an array)
	pools   []*mPool
	raws    []json.RawMessage
}

func foldGet(obj map[string]interface{}, name string, amb *bool) (interface{}, bool) {
	var val interface{}
	found := 0
	for k, v := range obj {
		if strings.EqualFold(k, name) {
			val = v
			found++
		}
	}
	if found > 1 {
		*amb = true
	}
	return val, found > 0
}

func parseConfigText(text []byte) *mConfig {
	mc := &mConfig{}
	dec := json.NewDecoder(bytes.NewReader(text))
	dec.UseNumber()
	var top interface{}
	if err := dec.Decode(&top); err != nil {
		mc.invalid = "not-json"
		return mc
	}
	if dec.More() || !json.Valid(text) {
		mc.invalid = "not-json"
		return mc
	}
	if top == nil {
		return mc
	}
	arr, ok := top.([]interface{})
	if !ok {
		mc.invalid = "not-an-array"
		return mc
	}
	_ = json.Unmarshal(text, &mc.raws)
	for _, e := range arr {
		mc.pools = append(mc.pools, parsePoolValue(e))
	}
	return mc
}

func parsePoolValue(e interface{}) *mPool {
	p := &mPool{}
	if e == nil {
		p.isNull = true
		return p
	}
	obj, ok := e.(map[string]interface{})
	if !ok {
		p.invalid = "pool: not-an-object"
		return p
	}
	bad := func(f, why string) {
		if p.invalid == "" {
			p.invalid = f + ": " + why
		}
	}
	var rawNode []mNet
	if v, ok := foldGet(obj, "nodeSubnets", &p.ambiguous); ok && v != nil {
		arr, isArr := v.([]interface{})
		if !isArr {
			bad("nodeSubnets", "not-an-array")
		}
		for _, x := range arr {
			s, isStr := x.(string)
			if x == nil {
				bad("nodeSubnets", "null-element")
				continue
			}
			if !isStr {
				bad("nodeSubnets", "not-a-string")
				continue
			}
			n, ok := parseCIDR(s)
			if !ok {
				bad("nodeSubnets", "bad-cidr")
				continue
			}
			rawNode = append(rawNode, n)
		}
	}
	var routable *mNet
	if v, ok := foldGet(obj, "routableSubnet", &p.ambiguous); ok && v != nil {
		s, isStr := v.(string)
		if !isStr {
			bad("routableSubnet", "not-a-string")
		} else if n, ok := parseCIDR(s); !ok {
			bad("routableSubnet", "bad-cidr")
		} else {
			routable = &n
		}
	}
	if routable != nil {
		p.routable = true
		p.nodeNets = []mNet{*routable}
	} else {
		seen := map[string]bool{}
		for _, n := range rawNode {
			k := n.canonKey()
			if seen[k] {
				p.dupNode = true
				continue
			}
			seen[k] = true
			p.nodeNets = append(p.nodeNets, n)
		}
	}
	if len(p.nodeNets) == 0 {
		bad("nodeSubnets", "empty")
	}
	if v, ok := foldGet(obj, "gateway", &p.ambiguous); !ok || v == nil {
		bad("gateway", "missing")
	} else if s, isStr := v.(string); !isStr {
		bad("gateway", "not-a-string")
	} else if s == "" {
		bad("gateway", "missing")
	} else if a, ok := parseAddr(s); !ok {
		bad("gateway", "bad-address")
	} else {
		p.gateway = a
	}
	if v, ok := foldGet(obj, "subnet", &p.ambiguous); !ok || v == nil {
		bad("subnet", "missing")
	} else if s, isStr := v.(string); !isStr {
		bad("subnet", "not-a-string")
	} else if n, ok := parseCIDR(s); !ok {
		bad("subnet", "bad-cidr")
	} else {
		p.subnet = n
	}
	if v, ok := foldGet(obj, "vlan", &p.ambiguous); ok && v != nil {
		num, isNum := v.(json.Number)
		if !isNum {
			bad("vlan", "not-a-number")
		} else {
			s := num.String()
			val, okv := 0, len(s) > 0 && len(s) <= 5
			for _, c := range []byte(s) {
				if c < '0' || c > '9' {
					okv = false
					break
				}
				val = val*10 + int(c-'0')
			}
			if !okv || val > 65535 {
				bad("vlan", "not-a-uint16")
			} else {
				p.vlan = uint16(val)
			}
		}
	}
	if v, ok := foldGet(obj, "ips", &p.ambiguous); ok && v != nil {
		arr, isArr := v.([]interface{})
		if !isArr {
			bad("ips", "not-an-array")
		}
		for _, x := range arr {
			s, isStr := x.(string)
			if x != nil && !isStr {
				bad("ips", "not-a-string")
				continue
			}
			r, why := parseRange(s) // a null element decodes to the empty string
			if why != "" {
				bad("ips", why)
				continue
			}
			p.ranges = append(p.ranges, r)
		}
	}
	return p
}

// canon returns the union of the ranges as a sorted list of disjoint, non-adjacent intervals: the canonical form of
// the set of distinct addresses.
func canon(rs []mRange) []mRange {
	if len(rs) == 0 {
		return nil
	}
	c := append([]mRange(nil), rs...)
	sort.Slice(c, func(i, j int) bool { return c[i].lo.less(c[j].lo) })
	out := []mRange{c[0]}
	for _, r := range c[1:] {
		last := &out[len(out)-1]
		if !last.hi.isMax() && last.hi.add1().less(r.lo) {
			out = append(out, r)
			continue
		}
		if last.hi.less(r.hi) {
			last.hi = r.hi
		}
	}
	return out
}

func countSet(c []mRange) u128 {
	var n u128
	for _, r := range c {
		n = n.add(r.count())
	}
	return n
}

func inSet(c []mRange, a u128) bool {
	i := sort.Search(len(c), func(i int) bool { return a.leq(c[i].hi) })
	return i < len(c) && c[i].lo.leq(a)
}

// orderDefects names what is wrong with the order of the ranges as written: "" when strictly increasing with a gap.
func orderDefects(rs []mRange) []string {
	var out []string
	seen := map[string]bool{}
	for i := 1; i < len(rs); i++ {
		prev, cur := rs[i-1], rs[i]
		var d string
		switch {
		case !prev.hi.isMax() && prev.hi.add1().less(cur.lo):
			continue
		case !prev.hi.isMax() && prev.hi.add1() == cur.lo:
			d = "mergeable"
		case prev.lo.leq(cur.lo):
			d = "overlapping"
		case cur.hi.less(prev.lo):
			d = "unsorted"
		default:
			d = "unsorted-overlapping"
		}
		if !seen[d] {
			seen[d] = true
			out = append(out, d)
		}
	}
	return out
}

// features names the shape of a pool for violation signatures.
func (p *mPool) features() string {
	var f []string
	v6 := !p.gateway.isV4() || p.subnet.width != 32
	endmax := false
	for _, r := range p.ranges {
		if !r.lo.isV4() || !r.hi.isV4() {
			v6 = true
		}
		if r.hi == fromV4(0xffffffff) {
			endmax = true
		}
	}
	if v6 {
		f = append(f, "ipv6")
	}
	if endmax {
		f = append(f, "range-ending-255.255.255.255")
	}
	if !p.subnet.contains(p.gateway) {
		f = append(f, "gateway-outside-subnet")
	}
	if len(f) == 0 {
		return "plain"
	}
	return strings.Join(f, "+")
}

func (p *mPool) endsAtMax() bool {
	for _, r := range p.ranges {
		if r.hi == fromV4(0xffffffff) {
			return true
		}
	}
	return false
}

func (p *mPool) allV4() bool {
	if !p.gateway.isV4() || p.subnet.width != 32 {
		return false
	}
	for _, r := range p.ranges {
		if !r.lo.isV4() || !r.hi.isV4() {
			return false
		}
	}
	return true
}

// lawDefects lists which of the stated laws the pool text breaks (empty: the text denotes a lawful pool).
func (p *mPool) lawDefects() []string {
	var out []string
	for _, r := range p.ranges {
		if !p.subnet.contains(r.lo) || !p.subnet.contains(r.hi) {
			out = append(out, "range-outside-subnet")
			break
		}
	}
	out = append(out, orderDefects(p.ranges)...)
	return out
}
