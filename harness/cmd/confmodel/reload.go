package main

// The "changes nothing" half of C20: a rejected configuration text offered through the real reload path
// (ConfigMap -> FloatingIPPlugin.updateConfigMap -> ensureIPAMConf) must leave the IPAM dump, the FloatingIP store and
// the remembered configuration as they were.

import (
	gocontext "context"
	"fmt"
	"net"
	"sort"
	"strings"

	corev1 "k8s.io/api/core/v1"
	metav1 "k8s.io/apimachinery/pkg/apis/meta/v1"
	"k8s.io/apimachinery/pkg/runtime"
	k8sfake "k8s.io/client-go/kubernetes/fake"
	"tkestack.io/galaxy/pkg/api/galaxy/constant"
	galfake "tkestack.io/galaxy/pkg/ipam/client/clientset/versioned/fake"
	ipamctx "tkestack.io/galaxy/pkg/ipam/context"
	"tkestack.io/galaxy/pkg/ipam/floatingip"
	"tkestack.io/galaxy/pkg/ipam/schedulerplugin"
)

const (
	cmName = "floatingip-config"
	cmNS   = "kube-system"
	cmKey  = "floatingips"
)

type reloader struct {
	plugin   *schedulerplugin.FloatingIPPlugin
	ipam     floatingip.IPAM
	kube     *k8sfake.Clientset
	gal      *galfake.Clientset
	stop     chan struct{}
	bases    []string
	cur      int
	snap     string
	attempts int
	every    int
	broken   string // non-empty: the harness could not establish its preconditions (run is inconclusive)
}

func baseText(k int) string {
	return fmt.Sprintf(`[{"nodeSubnets":["10.49.0.0/16"],"ips":["10.%[1]d.70.2~10.%[1]d.70.40","10.%[1]d.70.50~10.%[1]d.70.60"],`+
		`"subnet":"10.%[1]d.70.0/24","gateway":"10.%[1]d.70.1"},{"nodeSubnets":["10.50.0.0/24","10.49.0.0/16"],`+
		`"ips":["10.%[1]d.80.5","10.%[1]d.80.9~10.%[1]d.80.20"],"subnet":"10.%[1]d.80.0/24","gateway":"10.%[1]d.80.1","vlan":3}]`, k)
}

func newReloader(id int) (*reloader, error) {
	rl := &reloader{every: 400}
	for j := 0; j < 5; j++ {
		rl.bases = append(rl.bases, baseText(100+(id*5+j)%150))
	}
	cm := &corev1.ConfigMap{ObjectMeta: metav1.ObjectMeta{Name: cmName, Namespace: cmNS},
		Data: map[string]string{cmKey: rl.bases[0]}}
	ctx, stop := ipamctx.CreateTestIPAMContext([]runtime.Object{cm}, nil, nil)
	rl.stop = stop
	var ok1, ok2 bool
	rl.kube, ok1 = ctx.Client.(*k8sfake.Clientset)
	rl.gal, ok2 = ctx.GalaxyClient.(*galfake.Clientset)
	if !ok1 || !ok2 {
		return nil, fmt.Errorf("test context does not carry fake clientsets")
	}
	// Conf{} selects ConfigMap mode: validate() fills in floatingip-config / kube-system / floatingips
	plugin, err := schedulerplugin.NewFloatingIPPlugin(schedulerplugin.Conf{}, ctx)
	if err != nil {
		return nil, err
	}
	rl.plugin = plugin
	rl.ipam = plugin.GetIpam()
	ok, err := plugin.VerifReloadConfigMap()
	if err != nil || !ok {
		return nil, fmt.Errorf("initial load of a valid configuration failed: ok=%v err=%v", ok, err)
	}
	if err := rl.allocate(); err != nil {
		return nil, err
	}
	if got, want := rl.dumpIPs(), modelIPs(rl.bases[0]); got != want {
		return nil, fmt.Errorf("initial load: dump %s differs from configuration %s", got, want)
	}
	return rl, nil
}

func (rl *reloader) close() {
	if rl != nil && rl.stop != nil {
		close(rl.stop)
	}
}

func (rl *reloader) allocate() error {
	subnet := rl.ipam.NodeSubnet(net.ParseIP("10.49.0.9"))
	if subnet == nil {
		return fmt.Errorf("no node subnet for 10.49.0.9 after a valid load")
	}
	for i := 0; i < 4; i++ {
		key := fmt.Sprintf("dp_ns1_app_app-%d", i)
		if _, err := rl.ipam.AllocateInSubnet(key, subnet, floatingip.Attr{NodeName: "node1", Uid: fmt.Sprintf("uid-%d", i),
			Policy: constant.ReleasePolicyPodDelete}); err != nil {
			return fmt.Errorf("allocate: %v", err)
		}
	}
	return nil
}

func (rl *reloader) cmSet(text string) error {
	cm := &corev1.ConfigMap{ObjectMeta: metav1.ObjectMeta{Name: cmName, Namespace: cmNS}, Data: map[string]string{cmKey: text}}
	_, err := rl.kube.CoreV1().ConfigMaps(cmNS).Update(gocontext.TODO(), cm, metav1.UpdateOptions{})
	rl.kube.ClearActions()
	return err
}

// modelIPs expands a (small, IPv4) configuration text into the sorted list of its addresses, by the model.
func modelIPs(text string) string {
	mc := parseConfigText([]byte(text))
	var all []mRange
	for _, p := range mc.pools {
		all = append(all, p.ranges...)
	}
	var ss []string
	for _, r := range canon(all) {
		for x := r.lo; ; x = x.add1() {
			ss = append(ss, x.String())
			if x == r.hi {
				break
			}
		}
	}
	return strings.Join(ss, ",")
}

func (rl *reloader) dumpIPs() string {
	infos, _ := rl.ipam.ByPrefix("")
	var xs []u128
	for _, f := range infos {
		a, _ := ipTo128(f.FloatingIP.IP)
		xs = append(xs, a)
	}
	sort.Slice(xs, func(i, j int) bool { return xs[i].less(xs[j]) })
	ss := make([]string, len(xs))
	for i, x := range xs {
		ss[i] = x.String()
	}
	return strings.Join(ss, ",")
}

// snapshot renders everything observable: the IPAM dump (allocated and unallocated, with pool attributes), the store,
// and the node-subnet answers.
func (rl *reloader) snapshot() string {
	infos, _ := rl.ipam.ByPrefix("")
	lines := make([]string, 0, len(infos)+16)
	for _, f := range infos {
		ns := f.NodeSubnets.List()
		ipn := "<nil>"
		if f.IPInfo.IP != nil {
			ipn = f.IPInfo.IP.String()
		}
		lines = append(lines, fmt.Sprintf("mem %s key=%q policy=%d node=%q uid=%q net=%s gw=%s vlan=%d subnets=%v at=%d labels=%v",
			f.FloatingIP.IP, f.Key, f.Policy, f.NodeName, f.PodUid, ipn, f.IPInfo.Gateway, f.IPInfo.Vlan, ns,
			f.UpdatedAt.UnixNano(), f.Labels))
	}
	list, err := rl.gal.GalaxyV1alpha1().FloatingIPs().List(gocontext.TODO(), metav1.ListOptions{})
	if err != nil {
		lines = append(lines, "store error "+err.Error())
	} else {
		for _, it := range list.Items {
			lines = append(lines, fmt.Sprintf("store %s key=%q policy=%d attr=%q at=%d labels=%v", it.Name, it.Spec.Key, it.Spec.Policy,
				it.Spec.Attribute, it.Spec.UpdateTime.UnixNano(), it.Labels))
		}
	}
	sort.Strings(lines)
	for _, probe := range []string{"10.49.0.9", "10.50.0.7", "10.51.0.1"} {
		n := rl.ipam.NodeSubnet(net.ParseIP(probe))
		if n == nil {
			lines = append(lines, "nodesubnet "+probe+" none")
		} else {
			lines = append(lines, "nodesubnet "+probe+" "+n.String())
		}
	}
	return strings.Join(lines, "\n")
}

func firstDiff(a, b string) string {
	la, lb := strings.Split(a, "\n"), strings.Split(b, "\n")
	for i := 0; i < len(la) || i < len(lb); i++ {
		var x, y string
		if i < len(la) {
			x = la[i]
		}
		if i < len(lb) {
			y = lb[i]
		}
		if x != y {
			return fmt.Sprintf("line %d: before %q, after %q (lines %d -> %d)", i, x, y, len(la), len(lb))
		}
	}
	return "no difference"
}

func (rl *reloader) reload() (ok bool, err error, pan interface{}) {
	defer func() {
		if r := recover(); r != nil {
			pan = r
		}
	}()
	ok, err = rl.plugin.VerifReloadConfigMap()
	return
}

// attempt offers one rejected text to the reload path.
func (rl *reloader) attempt(w *worker, caseID, text string, wit map[string]interface{}) {
	if rl.broken != "" {
		return
	}
	if err := rl.cmSet(text); err != nil {
		rl.broken = "cannot update the ConfigMap: " + err.Error()
		return
	}
	if rl.snap == "" {
		rl.snap = rl.snapshot()
	}
	rl.gal.ClearActions()
	ok, err, pan := rl.reload()
	w.count("reload_attempts_with_rejected_text", 1)
	if pan != nil {
		w.rep.violate("reload-of-rejected-text-panics", fmt.Sprint(pan), wit, caseID)
		rl.snap = ""
	} else if err == nil || ok {
		w.rep.violate("reload-accepts-text-the-decoder-rejected", fmt.Sprintf("VerifReloadConfigMap returned ok=%v err=%v", ok, err), wit, caseID)
		rl.snap = ""
	}
	post := rl.snapshot()
	if rl.snap != "" && post != rl.snap {
		w.rep.violate("reload-of-rejected-text-changed-ipam-or-store", firstDiff(rl.snap, post), wit, caseID)
		rl.snap = ""
	} else if rl.snap != "" {
		w.count("reload_state_unchanged_checks", 1)
	}
	// remembered configuration: putting the previous text back must be recognised as "unchanged", i.e. ConfigurePool
	// (whose first step lists the store) must not run again
	if err := rl.cmSet(rl.bases[rl.cur]); err != nil {
		rl.broken = "cannot restore the ConfigMap: " + err.Error()
		return
	}
	rl.gal.ClearActions()
	ok2, err2, pan2 := rl.reload()
	acts := len(rl.gal.Actions())
	switch {
	case pan2 != nil || err2 != nil || !ok2:
		w.rep.violate("reload-of-previous-config-fails-after-rejected-text", fmt.Sprintf("ok=%v err=%v panic=%v", ok2, err2, pan2), wit, caseID)
		rl.snap = ""
	case acts != 0:
		w.rep.violate("reload-of-rejected-text-replaced-remembered-configuration",
			fmt.Sprintf("the previous text was configured again (%d store calls): it was no longer the remembered one", acts), wit, caseID)
		rl.snap = ""
	default:
		w.count("remembered_configuration_probes", 1)
	}
	rl.attempts++
	if rl.attempts%rl.every == 0 {
		rl.positiveControl(w)
	}
}

// positiveControl switches to another valid configuration: shows that the hook really reloads and varies the state the
// rejected texts are tried against.
func (rl *reloader) positiveControl(w *worker) {
	rl.cur = (rl.cur + 1) % len(rl.bases)
	if err := rl.cmSet(rl.bases[rl.cur]); err != nil {
		rl.broken = "cannot update the ConfigMap: " + err.Error()
		return
	}
	rl.gal.ClearActions()
	ok, err, pan := rl.reload()
	if pan != nil || err != nil || !ok || len(rl.gal.Actions()) == 0 {
		rl.broken = fmt.Sprintf("positive control: valid configuration not applied (ok=%v err=%v panic=%v)", ok, err, pan)
		return
	}
	if err := rl.allocate(); err != nil {
		rl.broken = "positive control: " + err.Error()
		return
	}
	if got, want := rl.dumpIPs(), modelIPs(rl.bases[rl.cur]); got != want {
		rl.broken = "positive control: dump differs from the valid configuration just loaded"
		return
	}
	w.count("reload_positive_controls(valid_config_applied)", 1)
	rl.snap = ""
}
