package main

// Enumeration law: the addresses listed by ConfigurePool + ByPrefix("") on an empty store equal the set the text
// denotes. Runs in child processes: a pool whose last range ends at 255.255.255.255 is suspected to make
// walkIPRanges spin forever (uint32 wrap), which cannot be interrupted in-process.

import (
	"bufio"
	"encoding/json"
	"fmt"
	"os"
	"os/exec"
	"path/filepath"
	"runtime"
	"sort"
	"strconv"
	"strings"
	"sync"
	"time"

	galfake "tkestack.io/galaxy/pkg/ipam/client/clientset/versioned/fake"
	"tkestack.io/galaxy/pkg/ipam/floatingip"
	"verif/harness/evid"
)

const (
	exitChildRestart = 3
	// A pool of <= 4096 addresses needs a few tens of heap objects per address to be configured and listed
	// (measured: < 25). A call that has allocated more than this many objects is not enumerating the pool any more.
	allocBound = 600000
)

func writeJobs(path string, jobs []enumJob) error {
	f, err := os.Create(path)
	if err != nil {
		return err
	}
	w := bufio.NewWriter(f)
	enc := json.NewEncoder(w)
	for _, j := range jobs {
		if err := enc.Encode(j); err != nil {
			return err
		}
	}
	if err := w.Flush(); err != nil {
		return err
	}
	return f.Close()
}

func readJobs(path string) ([]enumJob, error) {
	f, err := os.Open(path)
	if err != nil {
		return nil, err
	}
	defer f.Close()
	var jobs []enumJob
	sc := bufio.NewScanner(f)
	sc.Buffer(make([]byte, 1<<20), 1<<26)
	for sc.Scan() {
		var j enumJob
		if err := json.Unmarshal(sc.Bytes(), &j); err != nil {
			return nil, err
		}
		jobs = append(jobs, j)
	}
	return jobs, sc.Err()
}

type enumResult struct {
	sig, msg string
}

// enumerate runs the real code for one pool text and compares with the model.
func enumerate(job enumJob) (res []enumResult, n int) {
	defer func() {
		if r := recover(); r != nil {
			res = append(res, enumResult{"enumeration-panics", fmt.Sprint(r)})
		}
	}()
	mc := parseConfigText([]byte("[" + job.Text + "]"))
	var P floatingip.FloatingIPPool
	if err := json.Unmarshal([]byte(job.Text), &P); err != nil || len(mc.pools) != 1 || mc.pools[0].invalid != "" {
		return []enumResult{{"enumeration-job-not-decodable", fmt.Sprint(err)}}, 0
	}
	mp := mc.pools[0]
	feat := mp.features()
	cs := canon(mp.ranges)
	want := map[u128]bool{}
	for _, r := range cs {
		for x := r.lo; ; x = x.add1() {
			want[x] = true
			if x == r.hi {
				break
			}
		}
	}
	ipam := floatingip.NewCrdIPAM(galfake.NewSimpleClientset(), nil)
	if err := ipam.ConfigurePool([]*floatingip.FloatingIPPool{&P}); err != nil {
		return []enumResult{{"configure-accepted-pool-fails:" + feat, err.Error()}}, 0
	}
	infos, err := ipam.ByPrefix("")
	if err != nil {
		return []enumResult{{"list-after-configure-fails:" + feat, err.Error()}}, 0
	}
	got := map[u128]bool{}
	var extra, keyed []string
	for _, f := range infos {
		a, ok := ipTo128(f.FloatingIP.IP)
		if !ok {
			extra = append(extra, fmt.Sprint(f.FloatingIP.IP))
			continue
		}
		if got[a] {
			extra = append(extra, "dup "+a.String())
		}
		got[a] = true
		if !want[a] {
			extra = append(extra, a.String())
		}
		if f.Key != "" {
			keyed = append(keyed, a.String())
		}
	}
	var missing []string
	for a := range want {
		if !got[a] {
			missing = append(missing, a.String())
		}
	}
	sort.Strings(missing)
	sort.Strings(extra)
	if len(missing) > 0 || len(extra) > 0 {
		cut := func(s []string) []string {
			if len(s) > 5 {
				return append(s[:5:5], fmt.Sprintf("... %d more", len(s)-5))
			}
			return s
		}
		res = append(res, enumResult{"enumeration-differs-from-set:" + feat,
			fmt.Sprintf("listed %d addresses, set has %d; missing %v, not in the set %v", len(infos), len(want), cut(missing), cut(extra))})
	}
	if len(keyed) > 0 {
		res = append(res, enumResult{"enumeration-on-empty-store-lists-allocated:" + feat, fmt.Sprint(keyed)})
	}
	if uint64(P.Size()) != uint64(len(got)) && len(missing) == 0 && len(extra) == 0 {
		res = append(res, enumResult{"size-differs-from-enumeration:" + feat, fmt.Sprintf("Size()=%d, listed %d", P.Size(), len(got))})
	}
	return res, len(want)
}

// enumChild is the child process: spec "enum,<jobfile>,<start>,<partial>,<journal>,<skipEndMax>".
func enumChild(fl *evid.Flags) int {
	parts := strings.Split(fl.Child, ",")
	if len(parts) != 6 {
		fmt.Fprintln(os.Stderr, "bad child spec")
		return evid.ExitBroken
	}
	jobs, err := readJobs(parts[1])
	if err != nil {
		fmt.Fprintln(os.Stderr, "jobs:", err)
		return evid.ExitBroken
	}
	start, _ := strconv.Atoi(parts[2])
	skipEndMax := parts[5] == "1"
	run := evid.NewRun(fl.Prop, fl.Tier, fl.Seed, "exploration", "confmodel-child")
	journal, err := os.OpenFile(parts[4], os.O_CREATE|os.O_WRONLY|os.O_APPEND, 0644)
	if err != nil {
		fmt.Fprintln(os.Stderr, "journal:", err)
		return evid.ExitBroken
	}
	perSig := map[string]int{}
	report := func(job enumJob, sig, msg string) {
		perSig[sig]++
		run.Count("observed:"+sig, 1)
		if perSig[sig] <= witnessesPerSig {
			run.Violate(evid.Violation{Sig: sig, Msg: msg, Case: job.Case,
				Witness: map[string]interface{}{"kind": "pool-enumeration", "text": "[" + job.Text + "]", "pool": 0}})
		}
	}
	for n := start; n < len(jobs); n++ {
		job := jobs[n]
		if skipEndMax && job.EndMax {
			run.Count("enumerations_skipped_(hang_budget_for_ranges_ending_at_255.255.255.255_spent)", 1)
			continue
		}
		fmt.Fprintf(journal, "start %d\n", n) // journalled before the call
		type out struct {
			res []enumResult
			n   int
		}
		done := make(chan out, 1)
		var before runtime.MemStats
		runtime.ReadMemStats(&before)
		t0 := time.Now()
		go func() {
			r, k := enumerate(job)
			done <- out{r, k}
		}()
		var o out
		finished := false
		verdict := ""
		select {
		case o = <-done:
			finished = true
		case <-time.After(100 * time.Millisecond):
		}
		for !finished && verdict == "" {
			select {
			case o = <-done:
				finished = true
			case <-time.After(20 * time.Millisecond):
				var ms runtime.MemStats
				runtime.ReadMemStats(&ms)
				if ms.Mallocs-before.Mallocs > allocBound {
					verdict = fmt.Sprintf("the call had allocated %d objects (bound for a pool of <= 4096 addresses: %d) after %s "+
						"and had not returned", ms.Mallocs-before.Mallocs, allocBound, time.Since(t0).Round(time.Millisecond))
				} else if time.Since(t0) > 60*time.Second {
					verdict = "starved"
				}
			}
		}
		if !finished {
			if verdict == "starved" {
				run.Inconclusive(fmt.Sprintf("enumeration of %s did not return in 60s without doing work (machine starved?)", job.Text))
			} else {
				sig := "enumeration-hang:" + featuresOfText(job.Text)
				if job.EndMax {
					sig = "enumeration-hang-range-ending-255.255.255.255"
				}
				report(job, sig, "ConfigurePool+ByPrefix on an empty store: "+verdict)
				run.Count("enumeration_hangs", 1)
			}
			fmt.Fprintf(journal, "hang %d\n", n)
			_ = run.WritePartial(parts[3])
			return exitChildRestart
		}
		run.Eval(1)
		run.Count("enumerations_done", 1)
		run.Count("enumerated_addresses", int64(o.n))
		run.Max("max_enumerated_pool_size", int64(o.n))
		if job.EndMax {
			run.Count("enumerations_done_of_pools_ending_at_255.255.255.255", 1)
		}
		for _, r := range o.res {
			report(job, r.sig, r.msg)
		}
		fmt.Fprintf(journal, "done %d\n", n)
	}
	if err := run.WritePartial(parts[3]); err != nil {
		fmt.Fprintln(os.Stderr, "partial:", err)
		return evid.ExitBroken
	}
	return 0
}

func featuresOfText(poolText string) string {
	mc := parseConfigText([]byte("[" + poolText + "]"))
	if len(mc.pools) == 1 && mc.pools[0].invalid == "" {
		return mc.pools[0].features()
	}
	return "unknown"
}

// lastJournal returns the index of the last started job and whether it completed.
func lastJournal(path string) (int, string) {
	data, err := os.ReadFile(path)
	if err != nil {
		return -1, ""
	}
	lines := strings.Split(strings.TrimSpace(string(data)), "\n")
	last := lines[len(lines)-1]
	f := strings.Fields(last)
	if len(f) != 2 {
		return -1, ""
	}
	n, _ := strconv.Atoi(f[1])
	return n, f[0]
}

// runEnumeration drives the shards; every shard is a sequence of child processes.
func runEnumeration(run *evid.Run, rep *reporter, fl *evid.Flags, dir string, jobs []enumJob, shards, hangBudget int) {
	if len(jobs) == 0 {
		return
	}
	exe, err := os.Executable()
	if err != nil {
		run.Inconclusive("cannot find own executable: " + err.Error())
		return
	}
	per := make([][]enumJob, shards)
	for i, j := range jobs {
		per[i%shards] = append(per[i%shards], j)
	}
	var wg sync.WaitGroup
	for s := 0; s < shards; s++ {
		if len(per[s]) == 0 {
			continue
		}
		wg.Add(1)
		go func(s int) {
			defer wg.Done()
			jf := filepath.Join(dir, fmt.Sprintf("enum-%d.jobs", s))
			if err := writeJobs(jf, per[s]); err != nil {
				run.Inconclusive("cannot write job file: " + err.Error())
				return
			}
			start, hangs, spawn := 0, 0, 0
			for start < len(per[s]) {
				spawn++
				partial := filepath.Join(dir, fmt.Sprintf("enum-%d-%d.partial", s, spawn))
				journal := filepath.Join(dir, fmt.Sprintf("enum-%d-%d.journal", s, spawn))
				errf := filepath.Join(dir, fmt.Sprintf("enum-%d-%d.stderr", s, spawn))
				skip := "0"
				if hangs >= hangBudget {
					skip = "1"
				}
				spec := strings.Join([]string{"enum", jf, strconv.Itoa(start), partial, journal, skip}, ",")
				cmd := exec.Command(exe, "-prop", fl.Prop, "-tier", fl.Tier, "-seed", strconv.FormatInt(fl.Seed, 10), "-child", spec)
				ef, _ := os.Create(errf)
				cmd.Stderr = ef
				cmd.Stdout = ef
				if err := cmd.Start(); err != nil {
					run.Inconclusive("cannot start enumeration child: " + err.Error())
					return
				}
				waitCh := make(chan error, 1)
				go func() { waitCh <- cmd.Wait() }()
				limit := 120*time.Second + time.Duration(len(per[s])-start)*100*time.Millisecond
				var werr error
				timedOut := false
				select {
				case werr = <-waitCh:
				case <-time.After(limit):
					timedOut = true
					_ = cmd.Process.Kill()
					<-waitCh
				}
				if ef != nil {
					ef.Close()
				}
				if timedOut {
					n, _ := lastJournal(journal)
					run.Inconclusive(fmt.Sprintf("enumeration child (shard %d) exceeded its watchdog of %s at job %d", s, limit, n))
					return
				}
				code := 0
				if werr != nil {
					if ee, ok := werr.(*exec.ExitError); ok {
						code = ee.ExitCode()
					} else {
						code = -1
					}
				}
				switch code {
				case 0:
					if p, err := evid.ReadPartial(partial); err == nil {
						rep.filter(p)
						run.Merge(p)
					} else {
						run.Inconclusive("enumeration child left no result: " + err.Error())
					}
					start = len(per[s])
				case exitChildRestart:
					if p, err := evid.ReadPartial(partial); err == nil {
						rep.filter(p)
						run.Merge(p)
						hangs += int(p.Counters["enumeration_hangs"])
					}
					n, _ := lastJournal(journal)
					if n < start {
						run.Inconclusive("enumeration child journal unreadable")
						return
					}
					start = n + 1
				default:
					// the child died: the journal names the pool
					n, state := lastJournal(journal)
					if n < start || state != "start" {
						tail, _ := os.ReadFile(errf)
						if len(tail) > 600 {
							tail = tail[len(tail)-600:]
						}
						run.Inconclusive(fmt.Sprintf("enumeration child (shard %d) exited with code %d outside a call: %s", s, code, tail))
						return
					}
					tail, _ := os.ReadFile(errf)
					if i := strings.Index(string(tail), "goroutine "); i > 0 && len(tail) > i+1500 {
						tail = tail[:i+1500]
					}
					if len(tail) > 3000 {
						tail = tail[:3000]
					}
					job := per[s][n]
					run.Count("enumeration_child_crashes", 1)
					run.Violate(evid.Violation{Sig: "enumeration-kills-process:" + featuresOfText(job.Text),
						Msg:     fmt.Sprintf("child exited with code %d inside ConfigurePool/ByPrefix: %s", code, tail),
						Witness: map[string]interface{}{"kind": "pool-enumeration", "text": "[" + job.Text + "]", "pool": 0}, Case: job.Case})
					run.Count("enumeration_results_lost_with_crashed_child", int64(n-start))
					start = n + 1
				}
			}
		}(s)
	}
	wg.Wait()
}
