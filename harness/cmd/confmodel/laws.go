package main

// The monitors: every law of C20 evaluated on one configuration text against the real decoder
// (floatingip.FloatingIPPool.UnmarshalJSON / fipCheck / nets.*), with model.go as the oracle.

import (
	"encoding/json"
	"fmt"
	"math/rand"
	"net"
	"sort"
	"strings"
	"sync"

	"tkestack.io/galaxy/pkg/ipam/floatingip"
	"tkestack.io/galaxy/pkg/utils/nets"
	"verif/harness/evid"
)

// reporter caps the number of full witnesses per signature so that one systematic defect cannot crowd out others.
type reporter struct {
	run    *evid.Run
	mu     sync.Mutex
	perSig map[string]int
}

const witnessesPerSig = 2

func (r *reporter) violate(sig, msg string, witness interface{}, caseID string) {
	r.mu.Lock()
	r.perSig[sig]++
	n := r.perSig[sig]
	r.mu.Unlock()
	r.run.Count("observed:"+sig, 1)
	if n <= witnessesPerSig {
		r.run.Violate(evid.Violation{Sig: sig, Msg: msg, Witness: witness, Case: caseID})
	}
}

// filter drops witnesses of a child's partial result beyond the per-signature cap (the "observed:" counters keep the
// totals).
func (r *reporter) filter(p *evid.Partial) {
	r.mu.Lock()
	defer r.mu.Unlock()
	kept := p.Violations[:0]
	for _, v := range p.Violations {
		r.perSig[v.Sig]++
		if r.perSig[v.Sig] <= witnessesPerSig {
			kept = append(kept, v)
		}
	}
	p.Violations = kept
}

type enumJob struct {
	Case   string `json:"case"`
	Idx    int    `json:"idx"`
	Pool   int    `json:"pool"`
	Text   string `json:"text"` // the JSON text of the pool object
	EndMax bool   `json:"endmax"`
}

type worker struct {
	id         int
	rep        *reporter
	c          map[string]int64
	nt         map[string]struct{}
	jobs       []enumJob
	rl         *reloader
	sample     func(interface{})
	enumStride int
}

func (w *worker) count(name string, n int64) { w.c[name] += n }

func ipTo128(ip net.IP) (u128, bool) {
	switch len(ip) {
	case 4:
		return fromV4(uint32(ip[0])<<24 | uint32(ip[1])<<16 | uint32(ip[2])<<8 | uint32(ip[3])), true
	case 16:
		return fromBytes16(ip), true
	}
	return u128{}, false
}

// toIP renders a model address as a net.IP; IPv4 addresses alternate between the 4-byte and the 16-byte form.
func toIP(a u128, form16 bool) net.IP {
	if a.isV4() && !form16 {
		x := a.v4()
		return net.IP{byte(x >> 24), byte(x >> 16), byte(x >> 8), byte(x)}
	}
	b := a.bytes()
	return net.IP(b[:])
}

func realDecode(text []byte) (conf []*floatingip.FloatingIPPool, err error, pan interface{}) {
	defer func() {
		if r := recover(); r != nil {
			pan = r
		}
	}()
	err = json.Unmarshal(text, &conf)
	return
}

func sanitizeSig(s string) string {
	var b strings.Builder
	for _, c := range s {
		if (c >= 'a' && c <= 'z') || (c >= 'A' && c <= 'Z') || (c >= '0' && c <= '9') || c == '-' || c == '.' || c == '+' || c == ':' {
			b.WriteRune(c)
		} else if c == ' ' {
		} else {
			b.WriteByte('-')
		}
	}
	return b.String()
}

func bitsBucket(n mNet) string {
	pre := ""
	b := n.bits
	if n.width == 128 {
		pre = "6:"
		b = n.bits - 96
		if b < 0 {
			return pre + "wide"
		}
	}
	switch {
	case b <= 7:
		return pre + "/1-7"
	case b <= 15:
		return pre + "/8-15"
	case b <= 23:
		return pre + "/16-23"
	case b == 24:
		return pre + "/24"
	case b <= 30:
		return pre + "/25-30"
	}
	return fmt.Sprintf("%s/%d", pre, b)
}

type boundaryFlags struct{ zero, max, dot0, dot255 bool }

func (p *mPool) boundaries() boundaryFlags {
	var f boundaryFlags
	for _, r := range p.ranges {
		if !r.lo.isV4() || !r.hi.isV4() {
			continue
		}
		if r.lo.v4() == 0 {
			f.zero = true
		}
		if r.hi.v4() == 0xffffffff {
			f.max = true
		}
		if r.lo.v4()&255 == 0 {
			f.dot0 = true
		}
		if r.hi.v4()&255 == 255 {
			f.dot255 = true
		}
	}
	return f
}

func poolShape(p *mPool) string {
	if p.isNull {
		return "null"
	}
	if p.invalid != "" {
		return "inv(" + p.invalid + ")"
	}
	n := len(p.ranges)
	if n > 6 {
		n = 6
	}
	fl := ""
	b := p.boundaries()
	if b.zero {
		fl += "z"
	}
	if b.max {
		fl += "M"
	}
	if b.dot0 {
		fl += "0"
	}
	if b.dot255 {
		fl += "5"
	}
	single := n > 0
	for _, r := range p.ranges {
		if r.lo != r.hi {
			single = false
		}
	}
	if single {
		fl += "s"
	}
	if p.routable {
		fl += "R"
	}
	if p.dupNode {
		fl += "D"
	}
	if p.vlan != 0 {
		fl += "V"
	}
	if !p.subnet.contains(p.gateway) {
		fl += "g"
	}
	d := strings.Join(p.lawDefects(), "+")
	return fmt.Sprintf("%s r%d %s %s", bitsBucket(p.subnet), n, fl, d)
}

// evalConfig runs every law on one configuration text.
func (w *worker) evalConfig(caseID string, idx int, text, class, variant string, isMutation bool) {
	w.count("texts", 1)
	w.count("class:"+class, 1)
	mc := parseConfigText([]byte(text))
	conf, err, pan := realDecode([]byte(text))
	wit := map[string]interface{}{"kind": "config", "text": text, "class": class, "variant": variant}
	shapes := make([]string, 0, len(mc.pools))
	modelLawful := mc.invalid == ""
	ambiguous := false
	firstInvalid := mc.invalid
	for _, p := range mc.pools {
		shapes = append(shapes, poolShape(p))
		if p.isNull {
			continue
		}
		if p.ambiguous {
			ambiguous = true
		}
		if p.invalid != "" {
			modelLawful = false
			if firstInvalid == "" {
				firstInvalid = p.invalid
			}
		} else if len(p.lawDefects()) > 0 {
			modelLawful = false
		}
		b := p.boundaries()
		if b.zero {
			w.count("boundary_pools_range_from_0.0.0.0", 1)
		}
		if b.max {
			w.count("boundary_pools_range_to_255.255.255.255", 1)
		}
		if b.dot0 {
			w.count("boundary_pools_range_from_x.x.x.0", 1)
		}
		if b.dot255 {
			w.count("boundary_pools_range_to_x.x.x.255", 1)
		}
	}
	fp := func(verdict string) string {
		// the structurally richest pool represents the configuration (most law defects, then most ranges)
		best, bestScore := "", -1
		for i, p := range mc.pools {
			score := 0
			if !p.isNull && p.invalid == "" {
				score = 100*len(p.lawDefects()) + len(p.ranges)
			} else {
				score = 1000
			}
			if score > bestScore {
				best, bestScore = shapes[i], score
			}
		}
		return fmt.Sprintf("%s/%s|%s|pools=%d|%s", class, variant, verdict, len(mc.pools), best)
	}
	if pan != nil {
		w.count("decode_panics", 1)
		w.rep.violate("decode-panic:"+sanitizeSig(firstInvalid), fmt.Sprintf("decoding the configuration panicked instead of returning an error: %v", pan), wit, caseID)
		w.nt[fp("panic")] = struct{}{}
		return
	}
	if err != nil {
		w.count("rejected", 1)
		w.count("rejected:"+class, 1)
		if modelLawful && !ambiguous {
			// not a violation of C20 (the statement constrains what is accepted); shown in the evidence
			w.count("lawful_by_model_but_rejected", 1)
			w.count("lawful_by_model_but_rejected:"+class+"/"+variant, 1)
		}
		if w.rl != nil {
			w.rl.attempt(w, caseID, text, wit)
		}
		if isMutation {
			w.nt[fp("rej")] = struct{}{}
		}
		return
	}
	w.count("accepted", 1)
	w.count("accepted:"+class, 1)
	if mc.invalid != "" {
		w.rep.violate("accepted-text-that-is-"+mc.invalid, "the decoder accepted a text that is not a JSON array of pools", wit, caseID)
		return
	}
	if len(conf) != len(mc.pools) {
		w.rep.violate("accepted-pool-count-differs", fmt.Sprintf("decoded %d pools, text has %d", len(conf), len(mc.pools)), wit, caseID)
		return
	}
	maxRanges := 0
	var sets [][]mRange
	for i, P := range conf {
		mp := mc.pools[i]
		if P == nil || mp.isNull {
			w.count("accepted_null_pools", 1)
			if (P == nil) != mp.isNull {
				w.rep.violate("accepted-null-pool-mismatch", "nil pool does not correspond to a JSON null", wit, caseID)
			}
			continue
		}
		w.count("accepted_pools", 1)
		if mp.ambiguous {
			w.count("pools_not_judged_ambiguous_keys", 1)
			continue
		}
		if mp.invalid != "" {
			w.rep.violate("accepted-pool-with-invalid-field:"+sanitizeSig(mp.invalid),
				"the decoder accepted a pool whose text has a field that denotes nothing: "+mp.invalid, wit, caseID)
			continue
		}
		if len(mp.ranges) > maxRanges {
			maxRanges = len(mp.ranges)
		}
		sets = append(sets, canon(mp.ranges))
		pw := map[string]interface{}{"kind": "config", "text": text, "class": class, "variant": variant, "pool": i}
		w.checkPool(caseID, idx, i, P, mp, string(mc.raws[i]), pw)
	}
	// overlap between pools of one configuration: counted, not judged
	if len(sets) > 1 {
		over := false
		for a := 0; a < len(sets) && !over; a++ {
			for b := a + 1; b < len(sets) && !over; b++ {
				for _, r := range sets[a] {
					j := sort.Search(len(sets[b]), func(j int) bool { return r.lo.leq(sets[b][j].hi) })
					if j < len(sets[b]) && sets[b][j].lo.leq(r.hi) {
						over = true
						break
					}
				}
			}
		}
		if over {
			w.count("accepted_configs_with_overlap_between_pools(not judged)", 1)
		}
	}
	if maxRanges >= 2 || isMutation {
		w.nt[fp("acc")] = struct{}{}
	}
	if maxRanges >= 2 {
		w.count("accepted_configs_with_a_pool_of_2+_ranges", 1)
	}
	w.sample(map[string]interface{}{"text": text, "class": class, "variant": variant, "accepted": true, "pool_shapes": shapes})
}

func realRanges(P *floatingip.FloatingIPPool) ([]mRange, bool) {
	out := make([]mRange, len(P.IPRanges))
	for i, r := range P.IPRanges {
		a, ok1 := ipTo128(r.First)
		b, ok2 := ipTo128(r.Last)
		if !ok1 || !ok2 {
			return nil, false
		}
		out[i] = mRange{a, b}
	}
	return out, true
}

func sameRanges(a, b []mRange) bool {
	if len(a) != len(b) {
		return false
	}
	for i := range a {
		if a[i] != b[i] {
			return false
		}
	}
	return true
}

func rangesString(rs []mRange) string {
	ss := make([]string, len(rs))
	for i, r := range rs {
		ss[i] = r.String()
	}
	return "[" + strings.Join(ss, " ") + "]"
}

func (w *worker) checkPool(caseID string, idx, pi int, P *floatingip.FloatingIPPool, mp *mPool, poolText string,
	wit map[string]interface{}) {
	feat := mp.features()
	viol := func(law, msg string) {
		w.rep.violate(law+":"+feat, msg, wit, caseID)
	}
	rng := evid.NewRng(int64(idx), "pool-probe", pi)
	structural := true

	// A. the decoded object says what the text says
	rr, ok := realRanges(P)
	if !ok || !sameRanges(rr, mp.ranges) {
		structural = false
		viol("decoded-ranges-differ-from-text", fmt.Sprintf("decoded %s, text says %s", rangesString(rr), rangesString(mp.ranges)))
	}
	if g, ok := ipTo128(P.Gateway); !ok || g != mp.gateway {
		structural = false
		viol("decoded-gateway-differs-from-text", fmt.Sprintf("decoded %v, text says %s", P.Gateway, mp.gateway))
	}
	if ones, bits := P.Mask.Size(); ones != mp.subnet.bits || bits != mp.subnet.width {
		structural = false
		viol("decoded-mask-differs-from-text", fmt.Sprintf("decoded /%d of %d, text says /%d of %d", ones, bits, mp.subnet.bits, mp.subnet.width))
	}
	if P.Vlan != mp.vlan {
		viol("decoded-vlan-differs-from-text", fmt.Sprintf("decoded %d, text says %d", P.Vlan, mp.vlan))
	}
	nodeOK := len(P.NodeSubnets) == len(mp.nodeNets)
	if nodeOK {
		for i, n := range P.NodeSubnets {
			a, ok := ipTo128(n.IP)
			ones, bits := n.Mask.Size()
			if !ok || a != mp.nodeNets[i].lo || ones != mp.nodeNets[i].bits || bits != mp.nodeNets[i].width {
				nodeOK = false
			}
		}
	}
	if !nodeOK {
		viol("decoded-node-subnets-differ-from-text", fmt.Sprintf("decoded %v, text says %v", P.NodeSubnets, mp.nodeNets))
	}

	// B. ranges inside the pool's subnet; sorted, disjoint, not mergeable
	defects := mp.lawDefects()
	for _, d := range defects {
		viol("accepted-"+d, fmt.Sprintf("accepted pool: subnet %s gateway %s ranges %s", mp.subnet, mp.gateway, rangesString(mp.ranges)))
	}
	ipn := P.IPNet()
	for _, r := range P.IPRanges {
		if !ipn.Contains(r.First) || !ipn.Contains(r.Last) {
			viol("accepted-range-outside-IPNet()", fmt.Sprintf("range %s not inside IPNet() %s", r.String(), ipn.String()))
			break
		}
	}

	// C. Size() == number of distinct addresses
	cs := canon(mp.ranges)
	n := countSet(cs)
	if n.hi != 0 || n.lo != uint64(P.Size()) {
		viol("size-differs-from-distinct-count", fmt.Sprintf("Size()=%d, distinct addresses=%d (hi %d) in %s", P.Size(), n.lo, n.hi, rangesString(mp.ranges)))
	}
	w.count("size_checks", 1)

	// D. membership at every boundary +-1 and at random addresses
	var pts []u128
	for i, r := range mp.ranges {
		if i >= 8 && i != len(mp.ranges)-1 {
			continue
		}
		pts = append(pts, r.lo, r.hi)
		if !r.lo.isZero() {
			pts = append(pts, r.lo.sub1())
		}
		if !r.hi.isMax() {
			pts = append(pts, r.hi.add1())
		}
		if !r.lo.isV4() {
			// same low 32 bits, another 32-bit block
			pts = append(pts, u128{r.lo.hi, r.lo.lo ^ (1 << 32)}, u128{r.lo.hi ^ 1, r.lo.lo})
		}
	}
	span := mp.subnet.hi.sub(mp.subnet.lo)
	for k := 0; k < 3; k++ {
		var off u128
		if span.hi == 0 && span.lo != ^uint64(0) {
			off.lo = rng.Uint64() % (span.lo + 1)
		} else {
			off.lo = rng.Uint64()
		}
		pts = append(pts, mp.subnet.lo.add(off))
		pts = append(pts, fromV4(rng.Uint32()))
	}
	pts = append(pts, fromV4(0), fromV4(0xffffffff), mp.subnet.lo, mp.subnet.hi, mp.gateway)
	for k, x := range pts {
		want := inSet(cs, x)
		got := P.Contains(toIP(x, k%2 == 1))
		w.count("contains_probes", 1)
		if want != got {
			viol("contains-disagrees-with-set", fmt.Sprintf("Contains(%s)=%v but the set of %s says %v", x, got, rangesString(mp.ranges), want))
			break
		}
	}

	// E. Marshal then Unmarshal is the identity
	w.roundTrip(P, mp, viol)

	// F. InsertIP / RemoveIP keep the invariants and track the set
	if structural && len(defects) == 0 && mp.allV4() && mp.subnet.contains(mp.gateway) {
		w.insertRemove(rng, mp, cs, poolText, viol)
	} else {
		w.count("insert_remove_skipped_(unlawful_or_ipv6_or_gateway_outside)", 1)
	}

	// G. enumeration (child process)
	if n.hi == 0 && n.lo <= 4096 && idx%w.enumStride != 0 {
		w.count("enumeration_not_attempted_(thorough_tier_takes_every_5th_case)", 1)
	} else if n.hi == 0 && n.lo <= 4096 {
		w.jobs = append(w.jobs, enumJob{Case: caseID, Idx: idx, Pool: pi, Text: poolText, EndMax: mp.endsAtMax()})
	} else {
		w.count("enumeration_not_attempted_pool_larger_than_4096", 1)
	}
}

func (w *worker) roundTrip(P *floatingip.FloatingIPPool, mp *mPool, viol func(law, msg string)) {
	w.count("pool_roundtrips", 1)
	data, err := json.Marshal(P)
	if err != nil {
		viol("marshal-of-accepted-pool-fails", err.Error())
		return
	}
	var P2 floatingip.FloatingIPPool
	if err := json.Unmarshal(data, &P2); err != nil {
		viol("encoded-accepted-pool-is-rejected", fmt.Sprintf("%s: %v", data, err))
		return
	}
	diff := ""
	switch {
	case len(P2.IPRanges) != len(P.IPRanges):
		diff = "ranges"
	case !P2.Gateway.Equal(P.Gateway):
		diff = "gateway"
	case P2.Vlan != P.Vlan:
		diff = "vlan"
	case len(P2.NodeSubnets) != len(P.NodeSubnets):
		diff = "nodeSubnets"
	}
	if diff == "" {
		o1, b1 := P.Mask.Size()
		o2, b2 := P2.Mask.Size()
		if o1+(128-b1) != o2+(128-b2) { // an IPv4-mapped /116 and an IPv4 /20 are the same mask
			diff = "mask"
		}
		for i := range P.IPRanges {
			if !P.IPRanges[i].First.Equal(P2.IPRanges[i].First) || !P.IPRanges[i].Last.Equal(P2.IPRanges[i].Last) {
				diff = "ranges"
			}
		}
		for i := range P.NodeSubnets {
			if P.NodeSubnets[i].String() != P2.NodeSubnets[i].String() {
				diff = "nodeSubnets"
			}
		}
		if P.IPNet().String() != P2.IPNet().String() {
			diff = "subnet"
		}
	}
	if diff != "" {
		viol("roundtrip-changes-"+diff, fmt.Sprintf("decode(encode(pool)) differs in %s; encoded form %s", diff, data))
		return
	}
	// the encoded text, read by the model, denotes the same pool as the input text
	mc2 := parseConfigText([]byte("[" + string(data) + "]"))
	if mc2.invalid != "" || len(mc2.pools) != 1 || mc2.pools[0].invalid != "" {
		viol("encoded-pool-text-denotes-nothing", string(data))
		return
	}
	m2 := mc2.pools[0]
	switch {
	case !sameRanges(m2.ranges, mp.ranges):
		diff = "ranges"
	case m2.gateway != mp.gateway:
		diff = "gateway"
	case m2.vlan != mp.vlan:
		diff = "vlan"
	case m2.subnet.bits+(128-m2.subnet.width) != mp.subnet.bits+(128-mp.subnet.width):
		diff = "mask"
	case mp.subnet.contains(mp.gateway) && m2.subnet.lo != mp.subnet.lo:
		diff = "subnet"
	case len(m2.nodeNets) != len(mp.nodeNets):
		diff = "nodeSubnets"
	}
	if diff == "" {
		for i := range m2.nodeNets {
			if m2.nodeNets[i].canonKey() != mp.nodeNets[i].canonKey() {
				diff = "nodeSubnets"
			}
		}
	}
	if diff != "" {
		viol("encoded-text-denotes-different-"+diff, fmt.Sprintf("input pool vs encoded form %s", data))
	}
}

func modelInsert(cs []mRange, x u128) []mRange {
	return canon(append(append([]mRange(nil), cs...), mRange{x, x}))
}

func modelRemove(cs []mRange, x u128) []mRange {
	out := make([]mRange, 0, len(cs)+1)
	for _, r := range cs {
		if !r.contains(x) {
			out = append(out, r)
			continue
		}
		if r.lo.less(x) {
			out = append(out, mRange{r.lo, x.sub1()})
		}
		if x.less(r.hi) {
			out = append(out, mRange{x.add1(), r.hi})
		}
	}
	return out
}

func (w *worker) insertRemove(rng *rand.Rand, mp *mPool, cs []mRange, poolText string, viol func(law, msg string)) {
	var P floatingip.FloatingIPPool
	if err := json.Unmarshal([]byte(poolText), &P); err != nil {
		return
	}
	w.count("insert_remove_sequences", 1)
	set := append([]mRange(nil), cs...)
	var steps []string
	span := mp.subnet.hi.sub(mp.subnet.lo).lo
	for step := 0; step < 14; step++ {
		var x u128
		kind := rng.Intn(10)
		switch {
		case kind < 4 && len(set) > 0:
			r := set[rng.Intn(len(set))]
			switch rng.Intn(5) {
			case 0:
				x = r.lo
			case 1:
				x = r.hi
			case 2:
				x = r.lo
				if !x.isZero() {
					x = x.sub1()
				}
			case 3:
				x = r.hi
				if !x.isMax() {
					x = x.add1()
				}
			default:
				d := r.hi.sub(r.lo).lo
				x = r.lo.add(u128{0, uint64(rng.Int63n(int64(d) + 1))})
			}
		case kind < 7:
			x = mp.subnet.lo.add(u128{0, uint64(rng.Int63n(int64(span) + 1))})
		case kind == 7:
			x = []u128{mp.subnet.lo, mp.subnet.hi, mp.gateway}[rng.Intn(3)]
		case kind == 8:
			x = mp.subnet.lo
			if x != fromV4(0) && rng.Intn(2) == 0 {
				x = x.sub1()
			} else if mp.subnet.hi != fromV4(0xffffffff) {
				x = mp.subnet.hi.add1()
			}
		default:
			x = []u128{fromV4(0), fromV4(0xffffffff), fromV4(rng.Uint32())}[rng.Intn(3)]
		}
		ins := rng.Intn(2) == 0
		if len(set) == 0 {
			ins = true
		}
		ip := toIP(x, rng.Intn(2) == 0)
		var got, want bool
		if ins {
			want = mp.subnet.contains(x) && !inSet(set, x)
			got = P.InsertIP(ip)
			if want {
				set = modelInsert(set, x)
			}
			steps = append(steps, fmt.Sprintf("InsertIP(%s)=%v", x, got))
			w.count("insert_ops", 1)
		} else {
			want = mp.subnet.contains(x) && inSet(set, x)
			got = P.RemoveIP(ip)
			if want {
				set = modelRemove(set, x)
			}
			steps = append(steps, fmt.Sprintf("RemoveIP(%s)=%v", x, got))
			w.count("remove_ops", 1)
		}
		rr, ok := realRanges(&P)
		cnt := countSet(set)
		switch {
		case got != want:
			viol("insert-remove-wrong-result", fmt.Sprintf("steps %v: expected %v", steps, want))
			return
		case !ok || !sameRanges(rr, set):
			// the canonical interval list is the only sorted, disjoint, non-mergeable representation of the set
			viol("insert-remove-breaks-ranges", fmt.Sprintf("steps %v: ranges %s, expected %s", steps, rangesString(rr), rangesString(set)))
			return
		case cnt.lo != uint64(P.Size()):
			viol("insert-remove-size-differs", fmt.Sprintf("steps %v: Size()=%d expected %d", steps, P.Size(), cnt.lo))
			return
		}
	}
}

// ---- value laws: range strings and CIDR strings ----

func (w *worker) evalRangeString(caseID, s, class string) {
	w.count("range_strings", 1)
	wit := map[string]interface{}{"kind": "range", "text": s, "class": class}
	var r *nets.IPRange
	var pan interface{}
	func() {
		defer func() { pan = recover() }()
		r = nets.ParseIPRange(s)
	}()
	if pan != nil {
		w.rep.violate("range-string-panic", fmt.Sprint(pan), wit, caseID)
		return
	}
	var viaJSON nets.IPRange
	q, _ := json.Marshal(s)
	jerr := json.Unmarshal(q, &viaJSON)
	if (jerr == nil) != (r != nil) {
		w.rep.violate("range-string-json-and-parse-disagree", fmt.Sprintf("ParseIPRange accepted=%v, UnmarshalJSON err=%v", r != nil, jerr), wit, caseID)
		return
	}
	m, why := parseRange(s)
	if r == nil {
		w.count("range_strings_rejected", 1)
		if why == "" {
			w.count("range_strings_lawful_by_model_but_rejected:"+class, 1)
		}
		return
	}
	w.count("range_strings_accepted", 1)
	w.nt["range/"+class+"/acc"] = struct{}{}
	feat := "ipv4"
	if why == "" && !m.lo.isV4() {
		feat = "ipv6"
	}
	if why != "" {
		// The statement only asks accepted range strings to round-trip; whether e.g. "0.0.0.5~fd00::1005" should be a
		// range at all is not stated for stand-alone strings (inside a pool the subnet law rejects it). Counted.
		w.count("range_strings_accepted_that_denote_no_range_by_model:"+why, 1)
		enc, err := json.Marshal(*r)
		var back nets.IPRange
		if err == nil {
			err = json.Unmarshal(enc, &back)
		}
		if err != nil || !back.First.Equal(r.First) || !back.Last.Equal(r.Last) {
			w.rep.violate("range-roundtrip-fails:"+why, fmt.Sprintf("%s: %v", enc, err), wit, caseID)
		}
		return
	}
	a, ok1 := ipTo128(r.First)
	b, ok2 := ipTo128(r.Last)
	if !ok1 || !ok2 || a != m.lo || b != m.hi {
		w.rep.violate("range-string-decodes-to-other-range:"+feat, fmt.Sprintf("decoded %v~%v", r.First, r.Last), wit, caseID)
		return
	}
	// Size / Contains of a stand-alone range: judged for IPv4 (the building blocks of the pool laws); for IPv6 literals
	// the statement's size and membership clauses speak about pools only, so these are counted here and judged there.
	cnt := m.count()
	if cnt.hi != 0 || cnt.lo != uint64(r.Size()) {
		if feat == "ipv4" {
			w.rep.violate("range-size-differs-from-count:"+feat, fmt.Sprintf("Size()=%d, addresses=%d", r.Size(), cnt.lo), wit, caseID)
		} else {
			w.count("range_strings_ipv6_size_is_32bit_difference(counted)", 1)
		}
	}
	pts := []u128{m.lo, m.hi}
	if !m.lo.isZero() {
		pts = append(pts, m.lo.sub1())
	}
	if !m.hi.isMax() {
		pts = append(pts, m.hi.add1())
	}
	if !m.lo.isV4() {
		pts = append(pts, u128{m.lo.hi, m.lo.lo ^ (1 << 32)})
	}
	for k, x := range pts {
		if r.Contains(toIP(x, k%2 == 0)) != m.contains(x) {
			if feat == "ipv4" {
				w.rep.violate("range-contains-disagrees:"+feat, fmt.Sprintf("Contains(%s)=%v", x, !m.contains(x)), wit, caseID)
			} else {
				w.count("range_strings_ipv6_contains_ignores_upper_96_bits(counted)", 1)
			}
			break
		}
	}
	// encode, decode
	enc, err := json.Marshal(*r)
	if err != nil {
		w.rep.violate("range-marshal-fails", err.Error(), wit, caseID)
		return
	}
	var back nets.IPRange
	if err := json.Unmarshal(enc, &back); err != nil {
		w.rep.violate("encoded-range-is-rejected:"+feat, fmt.Sprintf("%s: %v", enc, err), wit, caseID)
		return
	}
	if !back.First.Equal(r.First) || !back.Last.Equal(r.Last) {
		w.rep.violate("range-roundtrip-changes-range:"+feat, fmt.Sprintf("%s decodes to %v~%v", enc, back.First, back.Last), wit, caseID)
		return
	}
	var encStr string
	_ = json.Unmarshal(enc, &encStr)
	if m2, why2 := parseRange(encStr); why2 != "" || m2 != m {
		w.rep.violate("encoded-range-text-denotes-other-range:"+feat, string(enc), wit, caseID)
	}
	w.count("range_roundtrips", 1)
}

func (w *worker) evalCIDRString(caseID, s, class string) {
	w.count("cidr_strings", 1)
	wit := map[string]interface{}{"kind": "cidr", "text": s, "class": class}
	q, _ := json.Marshal(s)
	var n nets.IPNet
	var err error
	var pan interface{}
	func() {
		defer func() { pan = recover() }()
		err = json.Unmarshal(q, &n)
	}()
	if pan != nil {
		w.rep.violate("cidr-string-panic", fmt.Sprint(pan), wit, caseID)
		return
	}
	m, ok := parseCIDR(s)
	if err != nil {
		w.count("cidr_strings_rejected", 1)
		if ok {
			w.count("cidr_strings_lawful_by_model_but_rejected:"+class, 1)
		}
		return
	}
	w.count("cidr_strings_accepted", 1)
	w.nt["cidr/"+class+"/acc"] = struct{}{}
	if !ok {
		w.rep.violate("cidr-string-accepted-but-denotes-nothing", "IPNet.UnmarshalJSON accepted it", wit, caseID)
		return
	}
	feat := "ipv4"
	if m.width == 128 {
		feat = "ipv6"
		if m.addr.isV4() {
			feat = "ipv4-mapped"
		}
	}
	a, okA := ipTo128(n.IP)
	ones, bits := net.IPMask(n.Mask).Size()
	if !okA || a != m.addr || ones != m.bits || bits != m.width {
		w.rep.violate("cidr-decodes-to-other-net:"+feat, fmt.Sprintf("decoded %v mask %d/%d", n.IP, ones, bits), wit, caseID)
		return
	}
	enc, err := json.Marshal(&n)
	if err != nil {
		w.rep.violate("cidr-marshal-fails", err.Error(), wit, caseID)
		return
	}
	var back nets.IPNet
	if err := json.Unmarshal(enc, &back); err != nil {
		w.rep.violate("encoded-cidr-is-rejected:"+feat, fmt.Sprintf("%s: %v", enc, err), wit, caseID)
		return
	}
	o2, b2 := net.IPMask(back.Mask).Size()
	if !back.IP.Equal(n.IP) || o2+(128-b2) != ones+(128-bits) { // ::ffff:a.b.c.d/116 comes back as a.b.c.d/20: same network
		w.rep.violate("cidr-roundtrip-changes-net:"+feat, fmt.Sprintf("%s decodes to %v /%d of %d", enc, back.IP, o2, b2), wit, caseID)
		return
	}
	w.count("cidr_roundtrips", 1)
}
