package main

// Grammar-based generator of floating-IP configuration texts: a valid configuration (1-3 pools), or a valid one with
// exactly one mutation applied to one pool. The class/variant labels are only used for evidence counters and
// fingerprints; every verdict is taken from the text alone (model.go) and the behaviour of the real code.

import (
	"fmt"
	"math/rand"
	"strconv"
	"strings"
)

type gRange struct {
	lo, hi uint32
	form   int // 0: "a~b" / "a" for single; 1: "a~a" for single; 2: IPv4-mapped IPv6 literals
}

type gPool struct {
	bits   int
	base   uint32
	last   uint32
	gw     uint32
	ranges []gRange
	raw    map[string]string // field -> raw JSON value
	order  []string
}

type genCase struct {
	text    string
	class   string
	variant string
	nPools  int
}

func ip4(x uint32) string {
	return strconv.Itoa(int(x>>24)) + "." + strconv.Itoa(int((x>>16)&255)) + "." + strconv.Itoa(int((x>>8)&255)) + "." +
		strconv.Itoa(int(x&255))
}

func q(s string) string { return `"` + s + `"` }

func maskOf(bits int) uint32 {
	if bits == 0 {
		return 0
	}
	return ^uint32(0) << uint(32-bits)
}

func pick(rng *rand.Rand, weights ...int) int {
	t := 0
	for _, w := range weights {
		t += w
	}
	x := rng.Intn(t)
	for i, w := range weights {
		if x < w {
			return i
		}
		x -= w
	}
	return len(weights) - 1
}

func (r gRange) str() string {
	switch {
	case r.form == 2:
		if r.lo == r.hi {
			return "::ffff:" + ip4(r.lo)
		}
		return "::ffff:" + ip4(r.lo) + "~::ffff:" + ip4(r.hi)
	case r.lo == r.hi && r.form == 0:
		return ip4(r.lo)
	}
	return ip4(r.lo) + "~" + ip4(r.hi)
}

type poolOpts struct {
	bits      int // -1: choose
	flavour   string
	minRanges int
	single    bool
}

func chooseBits(rng *rand.Rand) int {
	switch pick(rng, 35, 15, 25, 7, 8, 10) {
	case 0:
		return 24
	case 1:
		return 16 + rng.Intn(8)
	case 2:
		return 25 + rng.Intn(6)
	case 3:
		return 31 + rng.Intn(2)
	case 4:
		return 8 + rng.Intn(8)
	}
	return 1 + rng.Intn(7)
}

func genNodeSubnet(rng *rand.Rand) string {
	var bits int
	switch pick(rng, 25, 25, 10, 10, 8, 22) {
	case 0:
		bits = 16
	case 1:
		bits = 24
	case 2:
		bits = 26
	case 3:
		bits = 32
	case 4:
		bits = 0
	default:
		bits = rng.Intn(33)
	}
	a := rng.Uint32()
	if rng.Intn(10) < 7 {
		a &= maskOf(bits)
	}
	return ip4(a) + "/" + strconv.Itoa(bits)
}

// genValidPool builds a pool whose text is lawful: ranges inside the subnet, strictly increasing with gaps.
func genValidPool(rng *rand.Rand, o poolOpts) *gPool {
	p := &gPool{raw: map[string]string{}}
	p.bits = o.bits
	if p.bits < 0 {
		p.bits = chooseBits(rng)
	}
	m := maskOf(p.bits)
	switch o.flavour {
	case "zero":
		p.base = 0
	case "max":
		p.base = 0xffffffff & m
	default:
		p.base = rng.Uint32() & m
		if p.bits <= 8 && rng.Intn(3) == 0 { // wide subnets often sit at the edges of the address space
			if rng.Intn(2) == 0 {
				p.base = 0
			} else {
				p.base = 0xffffffff & m
			}
		}
	}
	p.last = p.base | ^m
	size := uint64(p.last-p.base) + 1
	// gateway
	switch {
	case size <= 2:
		p.gw = p.base + uint32(rng.Intn(int(size)))
	case rng.Intn(10) < 7:
		p.gw = p.base + 1
	default:
		p.gw = p.base + uint32(rng.Int63n(int64(size)))
	}
	// ranges
	k := []int{0, 1, 2, 3, 4, 5 + rng.Intn(4)}[pick(rng, 3, 27, 30, 20, 10, 10)]
	if k < o.minRanges {
		k = o.minRanges
	}
	cursor := uint64(p.base)
	if o.flavour != "dot0" && o.flavour != "zero" && size > 4 {
		off := uint64(2)
		if size/8 > 0 {
			off += uint64(rng.Int63n(int64(size / 8)))
		}
		cursor += off
	}
	end := uint64(p.last)
	for j := 0; j < k && cursor <= end; j++ {
		var ln uint64
		switch pick(rng, 30, 40, 25, 5) {
		case 0:
			ln = 1
		case 1:
			ln = 2 + uint64(rng.Intn(15))
		case 2:
			ln = 17 + uint64(rng.Intn(384))
		default:
			rem := end - cursor + 1
			ln = 1 + uint64(rng.Int63n(int64(rem/2+1)))
		}
		if o.single {
			ln = 1
		}
		lo := cursor
		hi := lo + ln - 1
		if hi > end {
			hi = end
		}
		form := 0
		if lo == hi && rng.Intn(10) < 3 {
			form = 1
		}
		p.ranges = append(p.ranges, gRange{uint32(lo), uint32(hi), form})
		var gap uint64
		switch pick(rng, 40, 40, 20) {
		case 0:
			gap = 0
		case 1:
			gap = 1 + uint64(rng.Intn(10))
		default:
			gap = uint64(rng.Intn(1000))
		}
		cursor = hi + 2 + gap
	}
	if o.flavour == "dot255" || o.flavour == "max" {
		if n := len(p.ranges); n > 0 {
			if o.single {
				if p.ranges[n-1].hi+1 < p.last || p.ranges[n-1].hi == p.last {
					if p.ranges[n-1].hi != p.last {
						p.ranges = append(p.ranges, gRange{p.last, p.last, 0})
					}
				} else {
					p.ranges[n-1] = gRange{p.last, p.last, 0}
				}
			} else {
				p.ranges[n-1].hi = p.last
			}
		} else {
			p.ranges = append(p.ranges, gRange{p.last, p.last, 0})
		}
	}
	if (o.flavour == "zero" || o.flavour == "dot0") && len(p.ranges) == 0 {
		p.ranges = append(p.ranges, gRange{p.base, p.base, 0})
	}
	// node subnets
	var ns []string
	for i, n := 0, 1+pick(rng, 60, 30, 10); i < n; i++ {
		ns = append(ns, q(genNodeSubnet(rng)))
	}
	p.raw["nodeSubnets"] = "[" + strings.Join(ns, ",") + "]"
	sub := p.base
	if rng.Intn(10) < 2 {
		sub = p.base | (rng.Uint32() &^ m) // host bits set in the subnet literal
	}
	p.raw["subnet"] = q(ip4(sub) + "/" + strconv.Itoa(p.bits))
	p.raw["gateway"] = q(ip4(p.gw))
	if rng.Intn(10) < 4 {
		p.raw["vlan"] = strconv.Itoa([]int{0, 1 + rng.Intn(4094), 65535}[pick(rng, 2, 7, 1)])
	}
	p.order = []string{"nodeSubnets", "ips", "subnet", "gateway", "vlan"}
	if rng.Intn(4) == 0 {
		rng.Shuffle(len(p.order), func(i, j int) { p.order[i], p.order[j] = p.order[j], p.order[i] })
	}
	p.renderIPs()
	return p
}

func (p *gPool) renderIPs() {
	ss := make([]string, len(p.ranges))
	for i, r := range p.ranges {
		ss[i] = q(r.str())
	}
	p.raw["ips"] = "[" + strings.Join(ss, ",") + "]"
}

func (p *gPool) setIPs(strs []string) {
	ss := make([]string, len(strs))
	for i, s := range strs {
		ss[i] = q(s)
	}
	p.raw["ips"] = "[" + strings.Join(ss, ",") + "]"
}

func (p *gPool) ipStrs() []string {
	ss := make([]string, len(p.ranges))
	for i, r := range p.ranges {
		ss[i] = r.str()
	}
	return ss
}

func (p *gPool) render() string {
	var parts []string
	for _, k := range p.order {
		if v, ok := p.raw[k]; ok {
			parts = append(parts, q(k)+":"+v)
		}
	}
	return "{" + strings.Join(parts, ",") + "}"
}

func (p *gPool) addField(k, v string) {
	p.raw[k] = v
	for _, o := range p.order {
		if o == k {
			return
		}
	}
	p.order = append(p.order, k)
}

var mutationClasses = []string{"unsorted", "adjacent", "overlapping", "outside-subnet", "first-gt-last", "ipv6-literal",
	"gateway-outside", "missing-field", "bad-syntax"}
var validClasses = []string{"valid", "single-address", "boundary", "mask-extreme", "routable", "dup-nodesubnets",
	"ipv4-mapped", "empty-ips", "shared-subnet"}

// genCaseFor builds case idx.
func genCaseFor(rng *rand.Rand) *genCase {
	gc := &genCase{}
	gc.nPools = 1 + pick(rng, 60, 30, 10)
	target := rng.Intn(gc.nPools)
	var texts []string
	for i := 0; i < gc.nPools; i++ {
		if i != target {
			texts = append(texts, genValidPool(rng, poolOpts{bits: -1}).render())
			continue
		}
		texts = append(texts, "")
	}
	var tp string
	whole := "" // set when the mutation replaces the whole text
	if rng.Intn(100) < 38 {
		gc.class = validClasses[pick(rng, 30, 10, 22, 10, 8, 8, 4, 3, 5)]
		tp, gc.variant = genValidClass(rng, gc.class, &texts, target)
	} else {
		for {
			gc.class = mutationClasses[pick(rng, 14, 12, 14, 14, 8, 10, 10, 9, 9)]
			var ok bool
			tp, gc.variant, whole, ok = genMutation(rng, gc.class)
			if ok {
				break
			}
		}
	}
	texts[target] = tp
	gc.nPools = len(texts)
	sep := ","
	if rng.Intn(8) == 0 {
		sep = ", "
	}
	gc.text = "[" + strings.Join(texts, sep) + "]"
	if whole != "" {
		gc.text = strings.Replace(whole, "$CONF", gc.text, 1)
	}
	return gc
}

func genValidClass(rng *rand.Rand, class string, texts *[]string, target int) (string, string) {
	switch class {
	case "single-address":
		p := genValidPool(rng, poolOpts{bits: -1, single: true, minRanges: 1})
		return p.render(), fmt.Sprintf("n%d", minInt(len(p.ranges), 4))
	case "boundary":
		fl := []string{"zero", "max", "dot0", "dot255"}[pick(rng, 20, 35, 20, 25)]
		o := poolOpts{bits: -1, flavour: fl, minRanges: 1, single: rng.Intn(4) == 0}
		if fl == "max" || fl == "zero" {
			// keep such pools small often enough that the enumeration law reaches them
			o.bits = []int{24, 28, 30, 16, 8, 1 + rng.Intn(7), 31, 32}[pick(rng, 30, 15, 10, 15, 10, 10, 5, 5)]
		}
		p := genValidPool(rng, o)
		return p.render(), fl
	case "mask-extreme":
		b := []int{1, 2, 3 + rng.Intn(5), 31, 32}[pick(rng, 15, 10, 25, 25, 25)]
		p := genValidPool(rng, poolOpts{bits: b})
		return p.render(), "slash" + strconv.Itoa(b)
	case "routable":
		p := genValidPool(rng, poolOpts{bits: -1})
		v := "only"
		if rng.Intn(3) == 0 {
			v = "with-nodesubnets"
		} else {
			delete(p.raw, "nodeSubnets")
		}
		p.addField("routableSubnet", q(genNodeSubnet(rng)))
		return p.render(), v
	case "dup-nodesubnets":
		p := genValidPool(rng, poolOpts{bits: -1})
		bits := 8 + rng.Intn(24)
		a := rng.Uint32()
		n1 := ip4(a&maskOf(bits)) + "/" + strconv.Itoa(bits)
		v := "literal"
		n2 := n1
		if rng.Intn(2) == 0 && bits < 32 {
			v = "hostbits"
			n2 = ip4((a&maskOf(bits))|(rng.Uint32()&^maskOf(bits))) + "/" + strconv.Itoa(bits)
		}
		list := []string{q(n1), q(n2)}
		if rng.Intn(2) == 0 {
			list = append(list, q(genNodeSubnet(rng)))
			rng.Shuffle(len(list), func(i, j int) { list[i], list[j] = list[j], list[i] })
		}
		p.raw["nodeSubnets"] = "[" + strings.Join(list, ",") + "]"
		return p.render(), v
	case "ipv4-mapped":
		p := genValidPool(rng, poolOpts{bits: -1, minRanges: 1})
		v := "range"
		switch rng.Intn(3) {
		case 0:
			i := rng.Intn(len(p.ranges))
			p.ranges[i].form = 2
			p.renderIPs()
		case 1:
			v = "gateway"
			p.raw["gateway"] = q("::ffff:" + ip4(p.gw))
		default:
			v = "all-ranges"
			for i := range p.ranges {
				p.ranges[i].form = 2
			}
			p.renderIPs()
		}
		return p.render(), v
	case "empty-ips":
		p := genValidPool(rng, poolOpts{bits: -1})
		p.ranges = nil
		p.renderIPs()
		return p.render(), "empty-list"
	case "shared-subnet":
		// a second pool on the same pod subnet: disjoint or overlapping ips (cross-pool overlap is not judged)
		p := genValidPool(rng, poolOpts{bits: 16 + rng.Intn(13), minRanges: 1})
		p2 := genValidPool(rng, poolOpts{bits: p.bits})
		v := "overlapping"
		p2.raw["subnet"], p2.raw["gateway"] = p.raw["subnet"], p.raw["gateway"]
		if rng.Intn(2) == 0 && p.ranges[len(p.ranges)-1].hi+3 < p.last && p.ranges[len(p.ranges)-1].hi+3 > p.base {
			v = "disjoint"
			lo := p.ranges[len(p.ranges)-1].hi + 2
			p2.ranges = []gRange{{lo, lo + uint32(rng.Intn(int(min64(uint64(p.last-lo), 20))+1)), 0}}
		} else {
			p2.ranges = append([]gRange(nil), p.ranges...)
			if len(p2.ranges) > 1 && rng.Intn(2) == 0 {
				p2.ranges = p2.ranges[1:]
			}
		}
		p2.renderIPs()
		*texts = append(*texts, p2.render())
		return p.render(), v
	}
	// plain valid
	p := genValidPool(rng, poolOpts{bits: -1})
	v := "plain"
	if rng.Intn(12) == 0 {
		v = "extra-field"
		p.addField("comment", q("x"))
	}
	return p.render(), v
}

func minInt(a, b int) int {
	if a < b {
		return a
	}
	return b
}

func min64(a, b uint64) uint64 {
	if a < b {
		return a
	}
	return b
}

// genMutation returns the mutated pool text, the variant label, an optional whole-text template and ok=false if
// the drawn pool cannot carry the mutation (the caller draws again).
func genMutation(rng *rand.Rand, class string) (string, string, string, bool) {
	switch class {
	case "unsorted":
		if rng.Intn(4) == 0 {
			// the range ending at 255.255.255.255 is not the last one
			p := genValidPool(rng, poolOpts{bits: []int{24, 28, 16, 8, 1 + rng.Intn(7)}[pick(rng, 40, 20, 20, 10, 10)],
				flavour: "max", minRanges: 2})
			n := len(p.ranges)
			if n < 2 || p.ranges[n-1].hi != 0xffffffff {
				return "", "", "", false
			}
			i := rng.Intn(n - 1)
			p.ranges[i], p.ranges[n-1] = p.ranges[n-1], p.ranges[i]
			p.renderIPs()
			return p.render(), "after-range-ending-max", "", true
		}
		p := genValidPool(rng, poolOpts{bits: -1, minRanges: 2})
		n := len(p.ranges)
		if n < 2 {
			return "", "", "", false
		}
		v := "swap-neighbours"
		switch rng.Intn(3) {
		case 0:
			i := rng.Intn(n - 1)
			p.ranges[i], p.ranges[i+1] = p.ranges[i+1], p.ranges[i]
		case 1:
			v = "swap-ends"
			p.ranges[0], p.ranges[n-1] = p.ranges[n-1], p.ranges[0]
		default:
			v = "reversed"
			for i, j := 0, n-1; i < j; i, j = i+1, j-1 {
				p.ranges[i], p.ranges[j] = p.ranges[j], p.ranges[i]
			}
		}
		p.renderIPs()
		return p.render(), v, "", true
	case "adjacent":
		p := genValidPool(rng, poolOpts{bits: -1, minRanges: 2})
		n := len(p.ranges)
		if n < 2 {
			return "", "", "", false
		}
		i := rng.Intn(n - 1)
		a, b := p.ranges[i], p.ranges[i+1]
		v := "extend-first"
		if rng.Intn(2) == 0 {
			p.ranges[i].hi = b.lo - 1
		} else {
			v = "extend-second"
			p.ranges[i+1].lo = a.hi + 1
		}
		p.renderIPs()
		return p.render(), v, "", true
	case "overlapping":
		if rng.Intn(6) == 0 {
			// overlap with a range that ends at 255.255.255.255
			p := genValidPool(rng, poolOpts{bits: []int{24, 28, 16, 8}[pick(rng, 40, 20, 25, 15)], flavour: "max", minRanges: 1})
			n := len(p.ranges)
			if n < 1 || p.ranges[n-1].hi != 0xffffffff {
				return "", "", "", false
			}
			a := p.ranges[n-1]
			v := "duplicate-of-range-ending-max"
			b := a
			if a.lo != a.hi && rng.Intn(2) == 0 {
				v = "inside-range-ending-max"
				b.lo = a.lo + 1 + uint32(rng.Int63n(int64(a.hi-a.lo)))
				if rng.Intn(2) == 0 {
					b.hi = b.lo
				}
			}
			p.ranges = append(p.ranges, b)
			p.renderIPs()
			return p.render(), v, "", true
		}
		p := genValidPool(rng, poolOpts{bits: -1, minRanges: 2})
		n := len(p.ranges)
		if n < 2 {
			return "", "", "", false
		}
		i := rng.Intn(n - 1)
		a, b := p.ranges[i], p.ranges[i+1]
		v := "by-one"
		switch rng.Intn(4) {
		case 0:
			p.ranges[i+1].lo = a.hi
		case 1:
			v = "duplicate"
			p.ranges[i+1] = a
		case 2:
			v = "contained"
			p.ranges[i].hi = b.hi
		default:
			v = "first-reaches-into-second"
			p.ranges[i].hi = b.lo
		}
		p.renderIPs()
		return p.render(), v, "", true
	case "outside-subnet":
		p := genValidPool(rng, poolOpts{bits: 8 + rng.Intn(23), minRanges: 1})
		n := len(p.ranges)
		if n == 0 {
			return "", "", "", false
		}
		ln := uint32(rng.Intn(6))
		switch rng.Intn(5) {
		case 0: // entirely beyond the broadcast address, appended so that the order stays lawful
			if uint64(p.last)+2+uint64(ln) > 0xffffffff || p.ranges[n-1].hi == p.last {
				return "", "", "", false
			}
			p.ranges = append(p.ranges, gRange{p.last + 1 + uint32(rng.Intn(2)), p.last + 2 + ln, 0})
			p.renderIPs()
			return p.render(), "beyond-broadcast", "", true
		case 1:
			if p.base < 3+ln || p.ranges[0].lo == p.base {
				return "", "", "", false
			}
			hi := p.base - 1 - uint32(rng.Intn(2))
			p.ranges = append([]gRange{{hi - ln, hi, 0}}, p.ranges...)
			p.renderIPs()
			return p.render(), "before-base", "", true
		case 2:
			if uint64(p.last)+1+uint64(ln) > 0xffffffff {
				return "", "", "", false
			}
			p.ranges[n-1].hi = p.last + 1 + ln
			p.renderIPs()
			return p.render(), "straddle-broadcast", "", true
		case 3:
			if p.base < 1+ln {
				return "", "", "", false
			}
			p.ranges[0].lo = p.base - 1 - ln
			p.renderIPs()
			return p.render(), "straddle-base", "", true
		default:
			// all ranges moved to another network of the same size
			shift := (1 + uint32(rng.Intn(5))) << uint(32-p.bits)
			if uint64(p.last)+uint64(shift) > 0xffffffff {
				return "", "", "", false
			}
			for i := range p.ranges {
				p.ranges[i].lo += shift
				p.ranges[i].hi += shift
			}
			p.renderIPs()
			return p.render(), "other-network", "", true
		}
	case "first-gt-last":
		p := genValidPool(rng, poolOpts{bits: -1, minRanges: 1})
		var cand []int
		for i, r := range p.ranges {
			if r.lo != r.hi {
				cand = append(cand, i)
			}
		}
		if len(cand) == 0 {
			return "", "", "", false
		}
		i := cand[rng.Intn(len(cand))]
		ss := p.ipStrs()
		ss[i] = ip4(p.ranges[i].hi) + "~" + ip4(p.ranges[i].lo)
		p.setIPs(ss)
		return p.render(), "swapped", "", true
	case "ipv6-literal":
		return genIPv6(rng)
	case "gateway-outside":
		p := genValidPool(rng, poolOpts{bits: 8 + rng.Intn(23), minRanges: 1})
		shift := (1 + uint32(rng.Intn(5))) << uint(32-p.bits)
		if uint64(p.last)+uint64(shift) > 0xffffffff || len(p.ranges) == 0 {
			return "", "", "", false
		}
		p.raw["gateway"] = q(ip4(p.gw + shift))
		v := "ranges-in-stated-subnet"
		if rng.Intn(2) == 0 {
			v = "ranges-in-gateway-network"
			for i := range p.ranges {
				p.ranges[i].lo += shift
				p.ranges[i].hi += shift
			}
			p.renderIPs()
		}
		return p.render(), v, "", true
	case "missing-field":
		p := genValidPool(rng, poolOpts{bits: -1})
		f := []string{"nodeSubnets", "ips", "subnet", "gateway"}[rng.Intn(4)]
		how := []string{"omit", "null", "empty"}[rng.Intn(3)]
		switch how {
		case "omit":
			delete(p.raw, f)
		case "null":
			p.raw[f] = "null"
		default:
			if f == "nodeSubnets" || f == "ips" {
				p.raw[f] = "[]"
			} else {
				p.raw[f] = `""`
			}
		}
		return p.render(), f + "-" + how, "", true
	case "bad-syntax":
		return genBadSyntax(rng)
	}
	return "", "", "", false
}

func hex4(rng *rand.Rand) string { return strconv.FormatUint(uint64(rng.Intn(0x10000)), 16) }

func genIPv6(rng *rand.Rand) (string, string, string, bool) {
	switch pick(rng, 20, 12, 28, 14, 14, 12) {
	case 0: // an IPv6 range among the ips of an IPv4 pool
		p := genValidPool(rng, poolOpts{bits: -1, minRanges: 1})
		ss := p.ipStrs()
		i := rng.Intn(len(ss) + 1)
		pre := "fd00:" + hex4(rng) + "::"
		lit := pre + "1"
		if rng.Intn(2) == 0 {
			lit = pre + "1~" + pre + strconv.FormatUint(uint64(2+rng.Intn(200)), 16)
		}
		ss = append(ss[:i], append([]string{lit}, ss[i:]...)...)
		p.setIPs(ss)
		return p.render(), "v6-range-in-v4-pool", "", true
	case 1:
		p := genValidPool(rng, poolOpts{bits: -1})
		p.raw["gateway"] = q("fd00:" + hex4(rng) + "::1")
		v := "v6-gateway-with-ranges"
		if rng.Intn(3) == 0 {
			v = "v6-gateway-no-ranges"
			p.ranges = nil
			p.renderIPs()
		}
		return p.render(), v, "", true
	case 2: // a pool that is IPv6 throughout; ranges inside one 32-bit block
		p := genValidPool(rng, poolOpts{bits: -1})
		bits := []int{64, 96, 112, 120, 127, 128, 48}[pick(rng, 25, 20, 20, 20, 5, 5, 5)]
		pre := "fd00:" + hex4(rng) + ":" + hex4(rng) + "::"
		p.raw["subnet"] = q(pre + "/" + strconv.Itoa(bits))
		p.raw["gateway"] = q(pre + "1")
		var ss []string
		cur := 2 + rng.Intn(5)
		maxv := 1<<uint(minInt(128-bits, 16)) - 1
		for j, k := 0, 1+rng.Intn(3); j < k; j++ {
			ln := rng.Intn(20)
			if cur+ln > maxv {
				break
			}
			if ln == 0 {
				ss = append(ss, pre+strconv.FormatUint(uint64(cur), 16))
			} else {
				ss = append(ss, pre+strconv.FormatUint(uint64(cur), 16)+"~"+pre+strconv.FormatUint(uint64(cur+ln), 16))
			}
			cur += ln + 2 + rng.Intn(5)
		}
		p.setIPs(ss)
		return p.render(), "v6-pool", "", true
	case 3: // an IPv6 pool with a range that crosses a 32-bit block boundary
		p := genValidPool(rng, poolOpts{bits: -1})
		pre := "fd00:" + hex4(rng) + "::"
		p.raw["subnet"] = q(pre + "/64")
		p.raw["gateway"] = q(pre + "1")
		v := "v6-range-across-32bit-blocks-low-ascending"
		r := pre + "1:0:3~" + pre + "2:0:" + strconv.FormatUint(uint64(5+rng.Intn(200)), 16)
		if rng.Intn(2) == 0 {
			v = "v6-range-across-32bit-blocks-low-descending"
			r = pre + "ffff:fff0~" + pre + "1:0:" + strconv.FormatUint(uint64(rng.Intn(16)), 16)
		}
		p.setIPs([]string{r})
		return p.render(), v, "", true
	case 4: // two IPv6 ranges that differ only above the low 32 bits
		p := genValidPool(rng, poolOpts{bits: -1})
		pre := "fd00:" + hex4(rng) + "::"
		p.raw["subnet"] = q(pre + "/64")
		p.raw["gateway"] = q(pre + "1")
		a, b := 2+rng.Intn(50), 60+rng.Intn(50)
		v := "v6-ranges-in-different-32bit-blocks-ascending"
		r1 := pre + "1:0:" + strconv.FormatUint(uint64(a), 16) + "~" + pre + "1:0:" + strconv.FormatUint(uint64(a+5), 16)
		r2 := pre + "2:0:" + strconv.FormatUint(uint64(b), 16) + "~" + pre + "2:0:" + strconv.FormatUint(uint64(b+5), 16)
		if rng.Intn(2) == 0 {
			v = "v6-ranges-in-different-32bit-blocks-same-low-bits"
			r2 = pre + "2:0:" + strconv.FormatUint(uint64(a), 16) + "~" + pre + "2:0:" + strconv.FormatUint(uint64(a+5), 16)
		}
		p.setIPs([]string{r1, r2})
		return p.render(), v, "", true
	default: // IPv4-mapped CIDR as pod subnet
		p := genValidPool(rng, poolOpts{bits: 16 + rng.Intn(15), minRanges: 1})
		p.raw["subnet"] = q("::ffff:" + ip4(p.base) + "/" + strconv.Itoa(96+p.bits))
		return p.render(), "v4-mapped-cidr-subnet", "", true
	}
}

func genBadSyntax(rng *rand.Rand) (string, string, string, bool) {
	p := genValidPool(rng, poolOpts{bits: -1, minRanges: 1})
	ss := p.ipStrs()
	i := rng.Intn(len(ss))
	first := ip4(p.ranges[i].lo)
	variants := []string{"octet-256", "three-octets", "leading-zero", "leading-space", "trailing-tilde", "lone-tilde",
		"double-tilde", "dash-separator", "cidr-as-range", "subnet-slash-33", "subnet-no-mask", "subnet-number",
		"ips-as-string", "ips-number-element", "ips-null-element", "vlan-string", "vlan-70000", "vlan-negative",
		"vlan-float", "gateway-number", "gateway-garbage", "nodesubnet-garbage", "nodesubnets-null-element",
		"truncated-json", "top-level-object", "null-pool", "pool-is-array", "trailing-garbage", "empty-text"}
	v := variants[rng.Intn(len(variants))]
	whole := ""
	switch v {
	case "octet-256":
		ss[i] = first[:strings.LastIndex(first, ".")] + ".256"
		p.setIPs(ss)
	case "three-octets":
		ss[i] = first[:strings.LastIndex(first, ".")]
		p.setIPs(ss)
	case "leading-zero":
		ss[i] = "0" + first
		p.setIPs(ss)
	case "leading-space":
		ss[i] = " " + ss[i]
		p.setIPs(ss)
	case "trailing-tilde":
		ss[i] = first + "~"
		p.setIPs(ss)
	case "lone-tilde":
		ss[i] = "~"
		p.setIPs(ss)
	case "double-tilde":
		ss[i] = first + "~" + first + "~" + ip4(p.ranges[i].hi)
		p.setIPs(ss)
	case "dash-separator":
		ss[i] = first + "-" + ip4(p.ranges[i].hi)
		p.setIPs(ss)
	case "cidr-as-range":
		ss[i] = first + "/30"
		p.setIPs(ss)
	case "subnet-slash-33":
		p.raw["subnet"] = q(ip4(p.base) + "/33")
	case "subnet-no-mask":
		p.raw["subnet"] = q(ip4(p.base))
	case "subnet-number":
		p.raw["subnet"] = "24"
	case "ips-as-string":
		p.raw["ips"] = q(ss[i])
	case "ips-number-element":
		p.raw["ips"] = "[" + strconv.Itoa(rng.Intn(1000)) + "]"
	case "ips-null-element":
		p.raw["ips"] = "[null]"
	case "vlan-string":
		p.addField("vlan", `"3"`)
	case "vlan-70000":
		p.addField("vlan", "70000")
	case "vlan-negative":
		p.addField("vlan", "-1")
	case "vlan-float":
		p.addField("vlan", "3.0")
	case "gateway-number":
		p.raw["gateway"] = "1"
	case "gateway-garbage":
		p.raw["gateway"] = q("gateway")
	case "nodesubnet-garbage":
		p.raw["nodeSubnets"] = `["10.0.0.0"]`
	case "nodesubnets-null-element":
		p.raw["nodeSubnets"] = `[null]`
	case "truncated-json":
		t := p.render()
		return t[:1+rng.Intn(len(t)-1)], v, "", true
	case "top-level-object":
		whole = `{"floatingips":$CONF}`
	case "null-pool":
		return "null", v, "", true
	case "pool-is-array":
		return "[" + p.render() + "]", v, "", true
	case "trailing-garbage":
		whole = "$CONF]"
	case "empty-text":
		whole = " "
	}
	return p.render(), v, whole, true
}

// ---- range strings and CIDR strings (value laws) ----

func genRangeString(rng *rand.Rand) (string, string) {
	a := rng.Uint32()
	switch pick(rng, 30, 12, 6, 16, 8, 8, 8, 12) {
	case 0:
		ln := []uint32{uint32(rng.Intn(300)), rng.Uint32() >> uint(rng.Intn(32))}[rng.Intn(2)]
		if uint64(a)+uint64(ln) > 0xffffffff {
			a = 0xffffffff - ln
		}
		if a == 0 && ln == 0xffffffff {
			ln--
		}
		return ip4(a) + "~" + ip4(a+ln), "v4-range"
	case 1:
		return ip4(a), "v4-single"
	case 2:
		return ip4(a) + "~" + ip4(a), "v4-single-tilde"
	case 3: // boundary addresses
		switch rng.Intn(6) {
		case 0:
			return "0.0.0.0~" + ip4(uint32(rng.Intn(300))), "v4-from-zero"
		case 1:
			return ip4(0xffffffff-uint32(rng.Intn(300))) + "~255.255.255.255", "v4-to-max"
		case 2:
			return "255.255.255.255", "v4-max-single"
		case 3:
			return "0.0.0.0", "v4-zero-single"
		case 4:
			b := a &^ 255
			return ip4(b) + "~" + ip4(b|255), "v4-dot0-to-dot255"
		default:
			return "0.0.0.1~255.255.255.255", "v4-almost-everything"
		}
	case 4:
		b := a + 1 + uint32(rng.Intn(1000))
		if b < a {
			a, b = 5, 9
		}
		return ip4(b) + "~" + ip4(a), "v4-first-gt-last"
	case 5:
		ln := uint32(rng.Intn(300))
		if uint64(a)+uint64(ln) > 0xffffffff {
			a = 0xffffffff - ln
		}
		return "::ffff:" + ip4(a) + "~" + ip4(a+ln), "v4-mapped-range"
	case 6:
		bad := []string{"", "~", "1.2.3", "1.2.3.4~", "~1.2.3.4", "1.2.3.256", "01.2.3.4", "1.2.3.4~1.2.3.5~1.2.3.6",
			"1.2.3.4-1.2.3.9", " 1.2.3.4", "1.2.3.4 ", "1.2.3.4/30", "a.b.c.d", "1.2.3.4~x", "fe80::1%eth0"}
		return bad[rng.Intn(len(bad))], "garbage"
	default:
		pre := "fd00:" + hex4(rng) + "::"
		switch rng.Intn(5) {
		case 0:
			x := rng.Intn(1000)
			return pre + strconv.FormatUint(uint64(x), 16) + "~" + pre + strconv.FormatUint(uint64(x+rng.Intn(500)), 16), "v6-range"
		case 1:
			return pre + strconv.FormatUint(uint64(rng.Intn(70000)), 16), "v6-single"
		case 2:
			return pre + "1:0:3~" + pre + "2:0:" + strconv.FormatUint(uint64(5+rng.Intn(200)), 16), "v6-across-32bit-blocks-low-ascending"
		case 3:
			return pre + "ffff:fff0~" + pre + "1:0:" + strconv.FormatUint(uint64(rng.Intn(16)), 16), "v6-across-32bit-blocks-low-descending"
		default:
			return ip4(uint32(rng.Intn(100))) + "~" + pre + strconv.FormatUint(uint64(0x1000+rng.Intn(1000)), 16), "mixed-family"
		}
	}
}

func genCIDRString(rng *rand.Rand) (string, string) {
	a := rng.Uint32()
	switch pick(rng, 35, 25, 10, 10, 8, 12) {
	case 0:
		b := rng.Intn(33)
		return ip4(a&maskOf(b)) + "/" + strconv.Itoa(b), "v4-masked"
	case 1:
		b := rng.Intn(33)
		return ip4(a) + "/" + strconv.Itoa(b), "v4-hostbits"
	case 2:
		switch rng.Intn(4) {
		case 0:
			return "0.0.0.0/0", "v4-slash0"
		case 1:
			return "255.255.255.255/32", "v4-max-slash32"
		case 2:
			return "255.255.255.255/" + strconv.Itoa(rng.Intn(33)), "v4-max-hostbits"
		default:
			return "0.0.0.0/" + strconv.Itoa(rng.Intn(33)), "v4-zero"
		}
	case 3:
		b := rng.Intn(129)
		return "fd00:" + hex4(rng) + "::" + hex4(rng) + "/" + strconv.Itoa(b), "v6"
	case 4:
		b := 96 + rng.Intn(33)
		return "::ffff:" + ip4(a) + "/" + strconv.Itoa(b), "v4-mapped"
	default:
		bad := []string{"", "/", "1.2.3.4", "1.2.3.4/", "1.2.3.4/33", "1.2.3.4/-1", "1.2.3/24", "1.2.3.4/24/1", "1.2.3.4/a",
			"01.2.3.4/24", " 1.2.3.4/24", "fd00::/129", "1.2.3.256/24"}
		return bad[rng.Intn(len(bad))], "garbage"
	}
}
