// Engine startsim: the process start of galaxy-ipam as pkg/ipam/server does it, over the REAL ipamcontext
// (NewIPAMContext + StartInformers: client-go informers over fake clientsets), with an API server whose list replies
// are slow for a PRNG-chosen set of resources. The other ipam engines build the IPAMContext themselves, so the
// start-up barrier (which caches are waited for before the plugin answers the scheduler) is executed only here.
//
// C07 monitor: a sized pool is filled to its size by a first process (filter + bind through the real plugin), the
// process "restarts" (new context, new plugin, same API truth), and the very first Filter the new process answers
// right after StartInformers + Init returned is for one more pod of a deployment using the pool (bound if offered). Afterwards the
// number of FloatingIP objects under the pool's key prefix must not exceed the pool size. Nothing is judged on
// wall-clock time: the observation point is "StartInformers has returned", whatever the list delays were.
package main

import (
	"context"
	"flag"
	"fmt"
	"io"
	"os"
	"strings"
	"sync"
	"time"

	appsv1 "k8s.io/api/apps/v1"
	corev1 "k8s.io/api/core/v1"
	metav1 "k8s.io/apimachinery/pkg/apis/meta/v1"
	"k8s.io/apimachinery/pkg/labels"
	"k8s.io/client-go/kubernetes"
	typedapps "k8s.io/client-go/kubernetes/typed/apps/v1"
	typedcore "k8s.io/client-go/kubernetes/typed/core/v1"
	"k8s.io/klog"
	"tkestack.io/galaxy/pkg/api/galaxy/constant"
	"tkestack.io/galaxy/pkg/api/k8s/eventhandler"
	"tkestack.io/galaxy/pkg/api/k8s/schedulerapi"
	galaxyv1alpha1 "tkestack.io/galaxy/pkg/ipam/apis/galaxy/v1alpha1"
	crdclient "tkestack.io/galaxy/pkg/ipam/client/clientset/versioned"
	typedgalaxy "tkestack.io/galaxy/pkg/ipam/client/clientset/versioned/typed/galaxy/v1alpha1"
	ipamcontext "tkestack.io/galaxy/pkg/ipam/context"
	"tkestack.io/galaxy/pkg/ipam/schedulerplugin"
	"verif/harness/evid"
	"verif/harness/world"
)

var mergeFlag = flag.Bool("merge", false, "fold the evidence an earlier engine of the same check wrote into this run")

// ---- slow API server: list replies of chosen resources are delayed (outside the fake clientset's lock) ----

type slow struct {
	d   time.Duration
	res map[string]bool
}

func (s *slow) wait(res string) {
	if s != nil && s.res[res] {
		time.Sleep(s.d)
	}
}

type slowGalaxy struct {
	crdclient.Interface
	s *slow
}

func (g *slowGalaxy) GalaxyV1alpha1() typedgalaxy.GalaxyV1alpha1Interface {
	return &slowGalaxyV1{g.Interface.GalaxyV1alpha1(), g.s}
}

type slowGalaxyV1 struct {
	typedgalaxy.GalaxyV1alpha1Interface
	s *slow
}

func (g *slowGalaxyV1) Pools(ns string) typedgalaxy.PoolInterface {
	return &slowPools{g.GalaxyV1alpha1Interface.Pools(ns), g.s}
}
func (g *slowGalaxyV1) FloatingIPs() typedgalaxy.FloatingIPInterface {
	return &slowFips{g.GalaxyV1alpha1Interface.FloatingIPs(), g.s}
}

type slowPools struct {
	typedgalaxy.PoolInterface
	s *slow
}

func (p *slowPools) List(ctx context.Context, o metav1.ListOptions) (*galaxyv1alpha1.PoolList, error) {
	p.s.wait("pools")
	return p.PoolInterface.List(ctx, o)
}

type slowFips struct {
	typedgalaxy.FloatingIPInterface
	s *slow
}

func (p *slowFips) List(ctx context.Context, o metav1.ListOptions) (*galaxyv1alpha1.FloatingIPList, error) {
	p.s.wait("floatingips")
	return p.FloatingIPInterface.List(ctx, o)
}

type slowKube struct {
	kubernetes.Interface
	s *slow
}

func (k *slowKube) CoreV1() typedcore.CoreV1Interface { return &slowCore{k.Interface.CoreV1(), k.s} }
func (k *slowKube) AppsV1() typedapps.AppsV1Interface { return &slowApps{k.Interface.AppsV1(), k.s} }

type slowCore struct {
	typedcore.CoreV1Interface
	s *slow
}

func (c *slowCore) Pods(ns string) typedcore.PodInterface {
	return &slowPods{c.CoreV1Interface.Pods(ns), c.s}
}

type slowPods struct {
	typedcore.PodInterface
	s *slow
}

func (p *slowPods) List(ctx context.Context, o metav1.ListOptions) (*corev1.PodList, error) {
	p.s.wait("pods")
	return p.PodInterface.List(ctx, o)
}

type slowApps struct {
	typedapps.AppsV1Interface
	s *slow
}

func (a *slowApps) Deployments(ns string) typedapps.DeploymentInterface {
	return &slowDps{a.AppsV1Interface.Deployments(ns), a.s}
}

type slowDps struct {
	typedapps.DeploymentInterface
	s *slow
}

func (p *slowDps) List(ctx context.Context, o metav1.ListOptions) (*appsv1.DeploymentList, error) {
	p.s.wait("deployments")
	return p.DeploymentInterface.List(ctx, o)
}

// ---- one process start, in the order of pkg/ipam/server: init() -> StartInformers -> plugin.Init ----

type proc struct {
	ctx    *ipamcontext.IPAMContext
	plugin *schedulerplugin.FloatingIPPlugin
	stop   chan struct{}
}

func startProcess(w *world.World, confText string, s *slow) (*proc, error) {
	pools, err := world.ParsePools(confText)
	if err != nil {
		return nil, err
	}
	var kc kubernetes.Interface = w.Kube
	var gc crdclient.Interface = w.Galaxy
	if s != nil {
		kc, gc = &slowKube{w.Kube, s}, &slowGalaxy{w.Galaxy, s}
	}
	p := &proc{stop: make(chan struct{})}
	p.ctx = ipamcontext.NewIPAMContext(kc, gc, w.Ext, w.Dyn)
	p.plugin, err = schedulerplugin.NewFloatingIPPlugin(schedulerplugin.Conf{FloatingIPs: pools, ResyncInterval: 1000}, p.ctx)
	if err != nil {
		return nil, err
	}
	p.ctx.PodInformer.Informer().AddEventHandler(eventhandler.NewPodEventHandler(p.plugin))
	p.ctx.StartInformers(p.stop)
	return p, nil
}

func poolCount(w *world.World, pool string) (int, []string) {
	l, _ := w.Galaxy.GalaxyV1alpha1().FloatingIPs().List(context.TODO(), metav1.ListOptions{})
	n := 0
	var keys []string
	for _, f := range l.Items {
		if strings.HasPrefix(f.Spec.Key, "pool__"+pool+"_") {
			n++
			keys = append(keys, f.Name+"="+f.Spec.Key)
		}
	}
	return n, keys
}

func waitPodInLister(p *proc, ns, name string) bool {
	for i := 0; i < 4000; i++ { // watchdog only (20 s): expiry makes the case inconclusive
		if _, err := p.ctx.PodLister.Pods(ns).Get(name); err == nil {
			return true
		}
		time.Sleep(5 * time.Millisecond)
	}
	return false
}

func runCase(run *evid.Run, idx int) {
	r := run.Rng("startsim", idx)
	w := world.NewWorld(false)
	nIPs := 4 + r.Intn(5)
	size := 1 + r.Intn(3)
	third := 20 + r.Intn(200)
	confText := fmt.Sprintf(`[{"nodeSubnets":["172.16.%d.0/24"],"ips":["10.49.%d.2~10.49.%d.%d"],"subnet":"10.49.%d.0/24","gateway":"10.49.%d.1"}]`,
		third, third, third, 1+nIPs, third, third)
	var nodes []corev1.Node
	for i := 0; i < 2+r.Intn(2); i++ {
		nodes = append(nodes, w.AddNode(fmt.Sprintf("n%d", i), fmt.Sprintf("172.16.%d.%d", third, 10+i)))
	}
	ns := "ns1"
	pool := []string{"web-pool", "p1", "shared.pool"}[r.Intn(3)]
	policy := []string{"immutable", "never"}[r.Intn(2)]
	w.SetPool(pool, size, false)
	nDp := 1 + r.Intn(2)
	for d := 0; d < nDp; d++ {
		rep := int32(size + 1 + r.Intn(3))
		_, _ = w.Kube.AppsV1().Deployments(ns).Create(context.TODO(), &appsv1.Deployment{ObjectMeta: metav1.ObjectMeta{Namespace: ns, Name: fmt.Sprintf("dp%d", d)},
			Spec: appsv1.DeploymentSpec{Replicas: &rep}}, metav1.CreateOptions{})
	}
	mkPod := func(i int) *corev1.Pod {
		dp := fmt.Sprintf("dp%d", i%nDp)
		ctl := true
		owner := &metav1.OwnerReference{APIVersion: "apps/v1", Kind: "ReplicaSet", Name: dp + "-5c9f8d7b6", UID: "rs-" + "uid", Controller: &ctl}
		p := world.NewPod(ns, fmt.Sprintf("%s-5c9f8d7b6-%c%c%03d", dp, 'a'+rune(r.Intn(26)), 'a'+rune(r.Intn(26)), i), w.NewUID(), owner,
			map[string]string{constant.IPPoolAnnotation: pool, constant.ReleasePolicyAnnotation: policy})
		_, _ = w.Kube.CoreV1().Pods(ns).Create(context.TODO(), p.DeepCopy(), metav1.CreateOptions{})
		return p
	}
	// first process: fill the pool to its size
	p1, err := startProcess(w, confText, nil)
	if err != nil {
		run.Inconclusive("first process does not start: " + err.Error())
		return
	}
	if err := p1.plugin.Init(); err != nil {
		close(p1.stop)
		run.Inconclusive("first process Init: " + err.Error())
		return
	}
	for i := 0; i < size; i++ {
		pod := mkPod(i)
		if !waitPodInLister(p1, ns, pod.Name) {
			close(p1.stop)
			run.Inconclusive("pod never reached the first process's informer cache (watchdog)")
			return
		}
		offered, _, err := p1.plugin.Filter(pod, nodes)
		if err != nil || len(offered) == 0 {
			close(p1.stop)
			run.Count("cases_skipped_fill_filter_refused", 1)
			return
		}
		if err := p1.plugin.Bind(&schedulerapi.ExtenderBindingArgs{PodName: pod.Name, PodNamespace: ns, PodUID: pod.UID, Node: offered[r.Intn(len(offered))].Name}); err != nil {
			close(p1.stop)
			run.Count("cases_skipped_fill_bind_failed", 1)
			return
		}
		run.Count("fill_binds", 1)
	}
	extra := mkPod(size)
	if !waitPodInLister(p1, ns, extra.Name) {
		close(p1.stop)
		run.Inconclusive("pod never reached the first process's informer cache (watchdog)")
		return
	}
	offered, _, _ := p1.plugin.Filter(extra, nodes)
	close(p1.stop)
	if n, _ := poolCount(w, pool); len(offered) != 0 || n != size {
		// the steady-state cap is the business of the other C07 engines; without it the restart says nothing
		run.Count("cases_skipped_steady_state_cap_not_seen", 1)
		return
	}
	run.Count("steady_state_refusals_at_size", 1)

	// second process over the same API truth, with a slow API server
	s := &slow{d: time.Duration(20+r.Intn(180)) * time.Millisecond, res: map[string]bool{}}
	var slowed []string
	for _, res := range []string{"pools", "floatingips", "pods", "deployments"} {
		if r.Intn(2) == 0 {
			s.res[res] = true
			slowed = append(slowed, res)
		}
	}
	if len(slowed) == 0 {
		s.res["pools"] = true
		slowed = []string{"pools"}
	}
	p2, err := startProcess(w, confText, s)
	if err != nil {
		run.Inconclusive("second process does not start: " + err.Error())
		return
	}
	defer close(p2.stop)
	// observation (not judged): what the caches hold at the moment StartInformers returns
	lag := []string{}
	if l, _ := p2.ctx.PoolLister.List(labels.Everything()); len(l) != 1 {
		lag = append(lag, "pools")
	}
	if l, _ := p2.ctx.PodLister.List(labels.Everything()); len(l) != size+1 {
		lag = append(lag, "pods")
	}
	if l, _ := p2.ctx.DeploymentLister.List(labels.Everything()); len(l) != nDp {
		lag = append(lag, "deployments")
	}
	for _, res := range lag {
		run.Count("caches_behind_when_startinformers_returned_"+res, 1)
	}
	if len(lag) == 0 {
		run.Count("caches_complete_when_startinformers_returned", 1)
	}
	if err := p2.plugin.Init(); err != nil {
		run.Inconclusive("second process Init: " + err.Error())
		return
	}
	offered2, _, ferr := p2.plugin.Filter(extra, nodes)
	run.Count("first_filters_after_startup", 1)
	for _, res := range slowed {
		run.Count("startups_with_slow_list_of_"+res, 1)
	}
	var berr error
	if len(offered2) == 0 {
		run.Count("first_filter_after_startup_refused_by_cap", 1)
	} else {
		// the scheduler binds the pod on a node the filter offered (with a sized pool the address is taken during
		// filter; without a visible Pool object it is taken here)
		berr = p2.plugin.Bind(&schedulerapi.ExtenderBindingArgs{PodName: extra.Name, PodNamespace: ns, PodUID: extra.UID, Node: offered2[r.Intn(len(offered2))].Name})
		run.Count("binds_after_first_filter_offered_nodes", 1)
	}
	n, keys := poolCount(w, pool)
	if n > size {
		run.Violate(evid.Violation{
			Sig: "sized-pool-grew-beyond-size:first-filter-after-startup",
			Msg: fmt.Sprintf("pool %q has size %d and was full before the restart; the first Filter answered after StartInformers+Init (slow lists: %v, %v) allocated one more: %d addresses under the pool prefix (offered %d nodes, filter err %v, bind err %v; caches behind at that point: %v)", pool, size, slowed, s.d, n, len(offered2), ferr, berr, lag),
			Witness: map[string]interface{}{"config": confText, "pool": pool, "size": size, "policy": policy, "deployments": nDp, "slow_lists": slowed, "delay": s.d.String(),
				"pool_objects_after": keys, "caches_behind_when_startinformers_returned": lag,
				"steps": "process 1: filter+bind <size> deployment pods of the pool, one more pod refused; process 2: NewIPAMContext, NewFloatingIPPlugin, AddEventHandler, StartInformers, Init, Filter(one more pod), Bind if a node was offered"},
			Case: fmt.Sprintf("%d:%d", run.Seed, idx),
		})
	}
	run.Eval(1)
	run.Nontrivial(fmt.Sprintf("size%d|ips%d|dp%d|%s|%s|%v", size, nIPs, nDp, policy, pool, slowed))
}

func main() {
	fl := evid.ParseFlags()
	fs := flag.NewFlagSet("klog", flag.ContinueOnError)
	klog.InitFlags(fs)
	_ = fs.Set("logtostderr", "false")
	_ = fs.Set("stderrthreshold", "FATAL")
	klog.SetOutput(io.Discard)
	if fl.Prop == "" {
		fl.Prop = "C07"
	}
	run := evid.NewRun(fl.Prop, fl.Tier, fl.Seed, "exploration", "startsim")
	run.Rule = "case (seed,idx) = one pool (4-8 addresses) with a Pool object of size 1-3, 1-2 deployments (replicas > size, policy immutable|never) using it; a first " +
		"process (real ipamcontext.NewIPAMContext + StartInformers + plugin) fills the pool to its size and refuses one more pod; a second process is started over the same " +
		"API truth in the order of pkg/ipam/server with list replies of a PRNG-chosen subset of {pools, floatingips, pods, deployments} delayed by 20-200 ms, and answers " +
		"Filter for the extra pod right after StartInformers + Init returned. Distinct = (size, addresses, deployments, policy, pool name, slowed resources)."
	run.Assume("API truth does not change while the second process starts; the delays only shape the start-up schedule, the verdict is the number of FloatingIP objects under the pool prefix after the first Filter")
	n := evid.Tiered(fl.Tier, 48, 600)
	if fl.Replay != "" {
		n = 48
	}
	var wg sync.WaitGroup
	sem := make(chan struct{}, 12)
	for i := 0; i < n; i++ {
		wg.Add(1)
		sem <- struct{}{}
		go func(i int) {
			defer wg.Done()
			defer func() { <-sem }()
			runCase(run, i)
		}(i)
	}
	wg.Wait()
	if run.Counter("first_filters_after_startup") < int64(n/2) {
		run.Inconclusive("fewer than half of the cases reached the first Filter after the restart")
	}
	if *mergeFlag {
		run.MergeEarlier("startsim")
	}
	os.Exit(run.Finish(n / 4))
}
