package main

import (
	"bytes"
	"context"
	"encoding/json"
	"fmt"
	"io"
	"math/rand"
	"net"
	"net/http"
	"net/http/httptest"
	"net/url"
	"sort"
	"strings"

	restful "github.com/emicklei/go-restful"
	corev1 "k8s.io/api/core/v1"
	metav1 "k8s.io/apimachinery/pkg/apis/meta/v1"
	"k8s.io/apimachinery/pkg/runtime"
	"k8s.io/apimachinery/pkg/types"
	"tkestack.io/galaxy/pkg/api/galaxy/constant"
	"tkestack.io/galaxy/pkg/ipam/api"
	"tkestack.io/galaxy/pkg/ipam/apis/galaxy/v1alpha1"
	ipamcontext "tkestack.io/galaxy/pkg/ipam/context"
	"tkestack.io/galaxy/pkg/ipam/floatingip"
	"tkestack.io/galaxy/pkg/ipam/schedulerplugin"
	"tkestack.io/galaxy/pkg/ipam/schedulerplugin/util"
	"verif/harness/evid"
)

// API-law monitor: a real FloatingIPPlugin (fake clientsets, real crdIpam, real pod lister) behind the real
// api.Controller mounted in a go-restful container as server.startAPIServer does, served by httptest.

// slot is the ground truth of one configured IP.
type slot struct {
	IP       string `json:"ip"`
	Key      string `json:"key"`
	Kind     string `json:"kind"`
	Presence string `json:"pod_presence,omitempty"` // absent | Running | Pending | Succeeded | Failed
	Reserved bool   `json:"reserved_label,omitempty"`
	Policy   uint16 `json:"policy"`
	Via      string `json:"via"` // specific | subnet | reserved-object | none
	// set for a pod whose owner kind is string-related to the kind of the pod in slot PartnerIP (same ns/app/pod/pool)
	Adv       *advKind `json:"adversarial_kind,omitempty"`
	OwnerKind string   `json:"owner_kind,omitempty"`
	PartnerIP string   `json:"partner_ip,omitempty"`
	partner   *slot
	g         *genPod
	ko        *util.KeyObj
}

type entry struct {
	IP         string `json:"ip"`
	Namespace  string `json:"namespace"`
	AppName    string `json:"appName"`
	PodName    string `json:"podName"`
	PoolName   string `json:"poolName"`
	Policy     uint16 `json:"policy"`
	AppType    string `json:"appType"`
	Status     string `json:"status"`
	Releasable bool   `json:"releasable"`
	raw        json.RawMessage
}

type listResp struct {
	Last             *bool             `json:"last"`
	TotalElements    *int              `json:"totalElements"`
	TotalPages       *int              `json:"totalPages"`
	First            *bool             `json:"first"`
	NumberOfElements *int              `json:"numberOfElements"`
	Size             *int              `json:"size"`
	Number           *int              `json:"number"`
	Content          []json.RawMessage `json:"content"`
	entries          []entry
}

type releaseResp struct {
	Code       int      `json:"code"`
	Message    string   `json:"message"`
	Unreleased []string `json:"unreleased"`
	Reasons    []string `json:"reasons"`
}

type apiCase struct {
	run      *evid.Run
	idx      int
	caseID   string
	r        *rand.Rand
	confJSON string
	allIPs   []string
	slots    map[string]*slot
	textPool bool
	ipam     floatingip.IPAM
	srv      *httptest.Server
	client   *http.Client
	stop     chan struct{}
	broken   string
}

func (c *apiCase) violate(sig, msg string, extra map[string]interface{}) {
	w := map[string]interface{}{"floatingip_config": json.RawMessage(c.confJSON), "case_index": c.idx}
	for k, v := range extra {
		w[k] = v
	}
	violate(c.run, evid.Violation{Sig: sig, Msg: msg, Witness: w, Case: c.caseID})
}

// observe counts an observation that is not a violation and keeps the first example per counter in the evidence
// under "observations".
func (c *apiCase) observe(counter string, example interface{}) {
	observeRun(c.run, counter, example)
}

// slotTable is the whole ground truth (part of witnesses where the whole state matters).
func (c *apiCase) slotTable() []*slot {
	var t []*slot
	for _, ip := range c.allIPs {
		t = append(t, c.slots[ip])
	}
	return t
}

// ---------------------------------------------------------------------------------------------------------------
// world construction

type poolConf struct {
	NodeSubnets []string `json:"nodeSubnets"`
	IPs         []string `json:"ips"`
	Subnet      string   `json:"subnet"`
	Gateway     string   `json:"gateway"`
	Vlan        uint16   `json:"vlan,omitempty"`
	ips         []string
	nodeSubnet  *net.IPNet
}

func genConf(r *rand.Rand) ([]*poolConf, string, []string) {
	np := 1 + r.Intn(3)
	b := 1 + r.Intn(200)
	var pools []*poolConf
	var all []string
	for j := 0; j < np; j++ {
		p := &poolConf{Subnet: fmt.Sprintf("10.%d.%d.0/24", b, j), Gateway: fmt.Sprintf("10.%d.%d.1", b, j),
			NodeSubnets: []string{fmt.Sprintf("172.%d.%d.0/24", 16+r.Intn(8), j)}, Vlan: uint16(r.Intn(3))}
		_, p.nodeSubnet, _ = net.ParseCIDR(p.NodeSubnets[0])
		start := 2 + r.Intn(8) // often crosses 9 -> 10 (string order != numeric order)
		nr := 1 + r.Intn(4)
		for k := 0; k < nr && start < 250; k++ {
			l := 1 + r.Intn(14)
			if r.Intn(4) == 0 && start < 96 {
				start = 96 + r.Intn(4) // crosses 99 -> 100
			}
			end := start + l - 1
			if end > 254 {
				end = 254
			}
			if start == end {
				p.IPs = append(p.IPs, fmt.Sprintf("10.%d.%d.%d", b, j, start))
			} else {
				p.IPs = append(p.IPs, fmt.Sprintf("10.%d.%d.%d~10.%d.%d.%d", b, j, start, b, j, end))
			}
			for x := start; x <= end; x++ {
				ip := fmt.Sprintf("10.%d.%d.%d", b, j, x)
				p.ips = append(p.ips, ip)
				all = append(all, ip)
			}
			start = end + 2 + r.Intn(30)
		}
		pools = append(pools, p)
	}
	data, _ := json.Marshal(map[string]interface{}{"floatingips": pools})
	return pools, string(data), all
}

var coreKinds = []string{"statefulset-pod", "statefulset-pod", "deployment-pod", "deployment-nodash-pod", "deploymentkind-pod",
	"tapp-pod", "customkind-pod", "barepod", "pooled-statefulset-pod", "pooled-deployment-pod", "pooled-barepod",
	"pooled-customkind-pod", "app-prefix", "pool-prefix", "reserved-freetext", "reserved-podkey", "reserved-poolkey",
	"free", "free",
	"statefulset-pod", "barepod", "app-prefix", "pool-prefix", "app-prefix", "pool-prefix",
	"advkind-pod", "advkind-pod", "advkind-pod", "tapp-pod", "advkind-pod"}

func ownerClassOfKind(kind string) string {
	k := strings.TrimPrefix(kind, "pooled-")
	switch k {
	case "statefulset-pod":
		return "statefulset"
	case "deployment-pod":
		return "replicaset-dash"
	case "deployment-nodash-pod":
		return "replicaset-nodash"
	case "deploymentkind-pod":
		return "deployment"
	case "tapp-pod":
		return "tapp"
	case "customkind-pod":
		return "custom-kind"
	case "barepod":
		return "none"
	}
	return ""
}

var reservedTexts = []string{"hello-xx", "reserved-for-db", "ops", "do not use", "vip", "lb-frontend"}

func newAPICase(run *evid.Run, idx int) *apiCase {
	c := &apiCase{run: run, idx: idx, caseID: fmt.Sprintf("%d:apicase:%d", run.Seed, idx), r: run.Rng("apicase", idx),
		slots: map[string]*slot{}}
	return c
}

// build creates the world. Returns false when the harness could not build it (run becomes inconclusive).
func (c *apiCase) build() bool {
	r := c.r
	pools, confJSON, all := genConf(r)
	c.confJSON, c.allIPs = confJSON, all
	c.textPool = c.idx%5 == 4
	ipPool := map[string]*poolConf{}
	for _, p := range pools {
		for _, ip := range p.ips {
			ipPool[ip] = p
		}
	}
	// roles: the first slots cycle through every kind, the rest are random
	order := r.Perm(len(all))
	podIDs := map[podID]bool{}
	var podObjs []runtime.Object
	var subnetSlots []*slot
	var specificSlots []*slot
	var reservedSlots []*slot
	sharedPods := []*slot{}
	prefixSlots := map[string][]*slot{}
	var advSlots []*slot
	for n, oi := range order {
		ip := all[oi]
		var kind string
		switch {
		case n < len(coreKinds):
			kind = coreKinds[n]
		case c.textPool && n < len(coreKinds)+3:
			kind = "textpool-pod"
		default:
			kind = coreKinds[r.Intn(len(coreKinds))]
			if r.Intn(3) == 0 {
				kind = "free"
			}
		}
		s := &slot{IP: ip, Kind: kind, Policy: uint16(r.Intn(3)), Via: "none"}
		c.slots[ip] = s
		if kind == "free" {
			continue
		}
		if kind == "advkind-pod" {
			advSlots = append(advSlots, s) // filled in once the built-in-kind pods exist
			continue
		}
		if kind == "reserved-freetext" {
			s.Key, s.Reserved, s.Via = reservedTexts[r.Intn(len(reservedTexts))], true, "reserved-object"
			reservedSlots = append(reservedSlots, s)
			continue
		}
		if kind == "reserved-poolkey" {
			// the form doc/galaxy-ipam-config.md "Reserve IP to prevent allocation" tells operators to create
			s.Key, s.Reserved, s.Via = "pool__reserved-for-node_", true, "reserved-object"
			if r.Intn(2) == 0 {
				s.Key = "pool__" + dnsLabel(r) + "_"
			}
			reservedSlots = append(reservedSlots, s)
			continue
		}
		// a second IP for an already generated pod (same key, two IPs)
		if len(sharedPods) > 0 && r.Intn(12) == 0 && strings.HasSuffix(kind, "-pod") {
			o := sharedPods[r.Intn(len(sharedPods))]
			s.Kind, s.Key, s.g, s.ko, s.Presence = o.Kind, o.Key, o.g, o.ko, o.Presence
			s.Via = "specific"
			specificSlots = append(specificSlots, s)
			continue
		}
		// several IPs legitimately share one prefix key: IPs held in reserve for a deployment are all keyed
		// dp_<ns>_<app>_, pre-allocated pool IPs are all keyed pool__<pool>_
		if ps := prefixSlots[kind]; len(ps) == 1 || (len(ps) > 1 && r.Intn(3) != 0) {
			o := ps[r.Intn(len(ps))]
			s.Key, s.ko = o.Key, o.ko
			if r.Intn(6) == 0 {
				s.Via = "subnet"
				subnetSlots = append(subnetSlots, s)
				c.slots[ip] = &slot{IP: ip, Kind: "free", Via: "none"}
			} else {
				s.Via = "specific"
				specificSlots = append(specificSlots, s)
			}
			prefixSlots[kind] = append(ps, s)
			continue
		}
		// everything else derives from a generated pod
		var g *genPod
		var ko *util.KeyObj
		for try := 0; ; try++ {
			switch kind {
			case "textpool-pod":
				g = genPodForced(r, clsPool, true, "", "")
				if g.PoolClass == "dns1123" {
					continue
				}
			case "app-prefix":
				g = genPodForced(r, clsDNS, false, "replicaset-dash", "none")
			case "pool-prefix":
				g = genPodForced(r, clsDNS, false, "", "dns")
			case "reserved-podkey":
				g = genPodForced(r, clsDNS, false, "statefulset", "none")
			default:
				pm := "none"
				if strings.HasPrefix(kind, "pooled-") {
					pm = "dns"
				}
				g = genPodForced(r, clsDNS, false, ownerClassOfKind(kind), pm)
			}
			if podIDs[podID{g.Pod.Namespace, g.Pod.Name}] {
				continue
			}
			var err error
			ko, err = util.FormatKey(g.Pod)
			if err != nil {
				if try > 50 {
					c.broken = "cannot generate a keyed pod for kind " + kind
					return false
				}
				continue
			}
			break
		}
		podIDs[podID{g.Pod.Namespace, g.Pod.Name}] = true
		s.g, s.ko = g, ko
		switch kind {
		case "app-prefix":
			s.Key = ko.PoolPrefix() // what unbindDpPod reserves an immutable deployment's IP under
			s.g = nil
			prefixSlots[kind] = append(prefixSlots[kind], s)
		case "pool-prefix":
			s.Key = ko.PoolPrefix()
			s.g = nil
			prefixSlots[kind] = append(prefixSlots[kind], s)
		case "textpool-pod":
			s.Kind = "textpool-" + g.PoolClass + "-pod"
			s.Key = ko.KeyInDB
		default:
			s.Key = ko.KeyInDB
		}
		if s.g != nil {
			// pod presence in the lister / apiserver
			switch x := r.Intn(20); {
			case x < 11:
				s.Presence = "absent"
			case x < 16:
				s.Presence = string(corev1.PodRunning)
			case x < 18:
				s.Presence = string(corev1.PodPending)
			case x < 19:
				s.Presence = string(corev1.PodSucceeded)
			default:
				s.Presence = string(corev1.PodFailed)
			}
			if kind == "reserved-podkey" {
				s.Presence = "absent"
			}
			if s.Presence != "absent" {
				pod := g.Pod.DeepCopy()
				pod.UID = types.UID(fmt.Sprintf("uid-%d-%d", c.idx, n))
				pod.Status.Phase = corev1.PodPhase(s.Presence)
				podObjs = append(podObjs, pod)
				g.Pod.UID = pod.UID
			}
			if kind != "reserved-podkey" {
				sharedPods = append(sharedPods, s)
			}
		}
		if kind == "reserved-podkey" {
			s.Reserved, s.Via = true, "reserved-object"
			reservedSlots = append(reservedSlots, s)
			continue
		}
		if r.Intn(6) == 0 {
			s.Via = "subnet"
			subnetSlots = append(subnetSlots, s)
			// the IP this slot was drawn for stays free; the IPAM picks one
			c.slots[ip] = &slot{IP: ip, Kind: "free", Via: "none"}
		} else {
			s.Via = "specific"
			specificSlots = append(specificSlots, s)
		}
	}

	// adversarial owner kinds: the same namespace / app / pod / pool names as a pod of a kind galaxy treats specially,
	// under a kind that has it as proper prefix / suffix / plural / case variant. Two pods of one (namespace, name)
	// cannot exist at once, so both are absent from the lister (the ips are what deleted workloads left behind).
	var partners []*slot
	usedPartner := map[*slot]int{}
	for _, ip := range all {
		if p := c.slots[ip]; p.g != nil && p.Presence == "absent" && !p.Reserved && !strings.HasPrefix(p.Kind, "textpool-") &&
			len(builtinsOfOwnerClass(p.g.OwnerClass)) > 0 {
			partners = append(partners, p)
		}
	}
	for _, s := range advSlots {
		s.Kind = "free"
		if len(partners) == 0 {
			continue
		}
		p := partners[r.Intn(len(partners))]
		if usedPartner[p] >= 2 {
			continue
		}
		bs := builtinsOfOwnerClass(p.g.OwnerClass)
		kinds := advKindsOf(bs[r.Intn(len(bs))])
		a := kinds[r.Intn(len(kinds))]
		// judged relations are the point; same-class aliases only now and then
		if kindClass(a.Kind) == kindClass(ownKind(p.g)) && r.Intn(3) != 0 {
			a = kinds[r.Intn(len(kinds))]
		}
		q := advSibling(r, p.g, p.ko.AppName, a)
		ko, err := util.FormatKey(q.Pod)
		if err != nil {
			continue
		}
		usedPartner[p]++
		s.Kind, s.Key, s.g, s.ko, s.Presence, s.Via = "advkind-pod", ko.KeyInDB, q, ko, "absent", "specific"
		s.Adv, s.partner, s.OwnerKind = &a, p, a.Kind
		p.OwnerKind = ownKind(p.g)
		specificSlots = append(specificSlots, s)
	}

	// real plugin on fake clientsets, as floatingip_plugin_test.go's newPlugin does
	var conf schedulerplugin.Conf
	if err := json.Unmarshal([]byte(confJSON), &conf); err != nil {
		c.broken = fmt.Sprintf("generated config rejected: %v: %s", err, confJSON)
		return false
	}
	ctx, stop := ipamcontext.CreateTestIPAMContext(podObjs, nil, nil)
	c.stop = stop
	plugin, err := schedulerplugin.NewFloatingIPPlugin(conf, ctx)
	if err != nil {
		c.broken = fmt.Sprintf("NewFloatingIPPlugin: %v", err)
		return false
	}
	// manually created reserved FloatingIP objects exist in the store before the pool is configured
	for _, s := range reservedSlots {
		fip := &v1alpha1.FloatingIP{
			TypeMeta:   metav1.TypeMeta{Kind: constant.ResourceKind, APIVersion: constant.ApiVersion},
			ObjectMeta: metav1.ObjectMeta{Name: s.IP, Labels: map[string]string{constant.ReserveFIPLabel: ""}},
			Spec:       v1alpha1.FloatingIPSpec{Key: s.Key, Policy: constant.ReleasePolicy(s.Policy)},
		}
		if _, err := ctx.GalaxyClient.GalaxyV1alpha1().FloatingIPs().Create(context.TODO(), fip, metav1.CreateOptions{}); err != nil {
			c.broken = fmt.Sprintf("create reserved FloatingIP: %v", err)
			return false
		}
	}
	if err := plugin.Init(); err != nil {
		c.broken = fmt.Sprintf("plugin.Init: %v", err)
		return false
	}
	c.ipam = plugin.GetIpam()
	attrOf := func(s *slot) floatingip.Attr {
		a := floatingip.Attr{Policy: constant.ReleasePolicy(s.Policy)}
		if s.g != nil && s.Presence != "absent" {
			a.Uid = string(s.g.Pod.UID)
			a.NodeName = "node-1"
		}
		return a
	}
	for _, s := range specificSlots {
		if err := c.ipam.AllocateSpecificIP(s.Key, net.ParseIP(s.IP), attrOf(s)); err != nil {
			c.broken = fmt.Sprintf("AllocateSpecificIP(%q,%s): %v", s.Key, s.IP, err)
			return false
		}
		c.run.Count("api_alloc_specific", 1)
	}
	for _, s := range subnetSlots {
		p := ipPool[s.IP]
		ip, err := c.ipam.AllocateInSubnet(s.Key, p.nodeSubnet, attrOf(s))
		if err != nil {
			if err == floatingip.ErrNoEnoughIP {
				c.run.Count("api_alloc_subnet_no_ip_left", 1)
				continue
			}
			c.broken = fmt.Sprintf("AllocateInSubnet(%q,%s): %v", s.Key, p.nodeSubnet, err)
			return false
		}
		s.IP = ip.String()
		if old := c.slots[s.IP]; old == nil || old.Kind != "free" {
			c.broken = fmt.Sprintf("AllocateInSubnet returned %s which the harness did not consider free", s.IP)
			return false
		}
		c.slots[s.IP] = s
		c.run.Count("api_alloc_subnet", 1)
	}
	for _, ip := range c.allIPs {
		if s := c.slots[ip]; s.partner != nil {
			s.PartnerIP = s.partner.IP
			if c.slots[s.partner.IP] != s.partner {
				s.Adv, s.partner = nil, nil // partner was a subnet slot that found no ip
			}
		}
	}
	// sanity: the IPAM holds exactly the ground truth
	d := c.dump()
	for _, ip := range c.allIPs {
		if d[ip] != c.slots[ip].Key {
			c.broken = fmt.Sprintf("population mismatch: ip %s has key %q, expected %q", ip, d[ip], c.slots[ip].Key)
			return false
		}
	}

	groups := map[string]map[string]int{}
	for _, ip := range c.allIPs {
		if s := c.slots[ip]; s.Key != "" && !s.Reserved {
			if groups[s.Kind] == nil {
				groups[s.Kind] = map[string]int{}
			}
			groups[s.Kind][s.Key]++
		}
	}
	for kind, m := range groups {
		for _, n := range m {
			if n >= 2 {
				c.run.Count("api_shared_key_groups_"+kind, 1)
				c.run.Max("max_api_ips_under_one_key", int64(n))
			}
		}
	}

	// mount exactly as server.startAPIServer does (own container instead of the process-global default one)
	ws := new(restful.WebService)
	ws.Path("/v1").Consumes(restful.MIME_JSON).Produces(restful.MIME_JSON)
	ctl := api.NewController(plugin.GetIpam(), ctx.PodLister, plugin.Release)
	ws.Route(ws.GET("/ip").To(ctl.ListIPs).
		Doc("List ips by keyword or params").
		Param(ws.QueryParameter("keyword", "keyword").DataType("string")).
		Param(ws.QueryParameter("poolName", "pool name").DataType("string")).
		Param(ws.QueryParameter("appName", "app name").DataType("string")).
		Param(ws.QueryParameter("podName", "pod name").DataType("string")).
		Param(ws.QueryParameter("namespace", "namespace").DataType("string")).
		Param(ws.QueryParameter("appType", "app type, deployment, statefulset or tapp, default statefulset").DataType("string")).
		Param(ws.QueryParameter("page", "page number, valid range [0,99999]").DataType("integer")).
		Param(ws.QueryParameter("size", "page size, valid range (0,9999]").DataType("integer").DefaultValue("10")).
		Param(ws.QueryParameter("sort", "sort by which field, supports ip/namespace/podname/policy asc/desc").
			DataType("string").DefaultValue("ip asc")).
		Writes(api.ListIPResp{}))
	ws.Route(ws.POST("/ip").To(ctl.ReleaseIPs).
		Doc("Release ips").
		Reads(api.ReleaseIPReq{}).
		Writes(api.ReleaseIPResp{}))
	container := restful.NewContainer()
	container.Add(ws)
	c.srv = httptest.NewServer(container)
	c.client = c.srv.Client()
	return true
}

func (c *apiCase) close() {
	if c.srv != nil {
		c.srv.Close()
	}
	if c.stop != nil {
		close(c.stop)
	}
}

func (c *apiCase) dump() map[string]string {
	d := map[string]string{}
	for _, ip := range c.allIPs {
		f, err := c.ipam.ByIP(net.ParseIP(ip))
		if err != nil {
			d[ip] = "<error " + err.Error() + ">"
			continue
		}
		d[ip] = f.Key
	}
	return d
}

type change struct {
	IP     string `json:"ip"`
	Before string `json:"key_before"`
	After  string `json:"key_after"`
}

func diff(before, after map[string]string) []change {
	var out []change
	for ip, b := range before {
		if a := after[ip]; a != b {
			out = append(out, change{ip, b, a})
		}
	}
	sort.Slice(out, func(i, j int) bool { return out[i].IP < out[j].IP })
	return out
}

// ---------------------------------------------------------------------------------------------------------------
// HTTP helpers

func (c *apiCase) get(q url.Values) (int, []byte, error) {
	req, _ := http.NewRequest("GET", c.srv.URL+"/v1/ip?"+q.Encode(), nil)
	req.Header.Set("Accept", "application/json")
	resp, err := c.client.Do(req)
	if err != nil {
		return 0, nil, err
	}
	defer resp.Body.Close()
	body, err := io.ReadAll(resp.Body)
	return resp.StatusCode, body, err
}

func (c *apiCase) list(q url.Values) (*listResp, int, string, error) {
	code, body, err := c.get(q)
	if err != nil {
		return nil, code, "", err
	}
	if code != 200 {
		return nil, code, string(body), nil
	}
	var lr listResp
	if err := json.Unmarshal(body, &lr); err != nil {
		return nil, code, string(body), fmt.Errorf("list response is not JSON: %v", err)
	}
	for _, raw := range lr.Content {
		var e entry
		if err := json.Unmarshal(raw, &e); err != nil {
			return nil, code, string(body), fmt.Errorf("list entry is not JSON: %v", err)
		}
		e.raw = raw
		lr.entries = append(lr.entries, e)
	}
	return &lr, code, string(body), nil
}

func (c *apiCase) post(raws ...json.RawMessage) (int, *releaseResp, string, error) {
	body, _ := json.Marshal(map[string]interface{}{"ips": raws})
	req, _ := http.NewRequest("POST", c.srv.URL+"/v1/ip", bytes.NewReader(body))
	req.Header.Set("Content-Type", "application/json")
	req.Header.Set("Accept", "application/json")
	resp, err := c.client.Do(req)
	if err != nil {
		return 0, nil, string(body), err
	}
	defer resp.Body.Close()
	rb, _ := io.ReadAll(resp.Body)
	var rr releaseResp
	_ = json.Unmarshal(rb, &rr)
	rr.Message = strings.TrimSpace(rr.Message)
	return resp.StatusCode, &rr, string(body), nil
}

func withField(raw json.RawMessage, field string, value interface{}) json.RawMessage {
	var m map[string]json.RawMessage
	_ = json.Unmarshal(raw, &m)
	if value == nil {
		delete(m, field)
	} else {
		v, _ := json.Marshal(value)
		m[field] = v
	}
	out, _ := json.Marshal(m)
	return out
}

// ---------------------------------------------------------------------------------------------------------------
// (a) paging

func ipToInt(s string) uint32 {
	ip := net.ParseIP(s).To4()
	if ip == nil {
		return 0
	}
	return uint32(ip[0])<<24 | uint32(ip[1])<<16 | uint32(ip[2])<<8 | uint32(ip[3])
}

// walk pages 0..last with the given size and sort ("" = parameter omitted) and check the exactly-once law.
func (c *apiCase) walk(size int, sortParam string, state map[string]string) {
	sortTag := strings.ReplaceAll(sortParam, " ", "-")
	if sortTag == "" {
		sortTag = "default"
	}
	ipSort := sortParam == "" || strings.HasPrefix(sortParam, "ip")
	c.run.Count("api_walks_sort_"+sortTag, 1)
	counts := map[string]int{}
	var seq []string
	total, pages := -1, -1
	var trace []string
	bad := func(sig, msg string) {
		if !ipSort {
			// the property is about the list sorted by IP; other sort keys are not unique and sort.Sort is not stable
			c.run.Count("api_info_nonip_sort_walk_anomaly_"+sortTag, 1)
			return
		}
		c.violate(sig, fmt.Sprintf("size=%d sort=%q: %s", size, sortParam, msg),
			map[string]interface{}{"size": size, "sort": sortParam, "pages": trace, "ipam": c.slotTable()})
	}
	for p := 0; ; p++ {
		q := url.Values{"page": {fmt.Sprint(p)}, "size": {fmt.Sprint(size)}}
		if sortParam != "" {
			q.Set("sort", sortParam)
		}
		lr, code, body, err := c.list(q)
		c.run.Count("api_pages_walked", 1)
		if err != nil || lr == nil {
			bad("paging-request-failed", fmt.Sprintf("page %d: HTTP %d err=%v body=%.200s", p, code, err, body))
			return
		}
		var ips []string
		for _, e := range lr.entries {
			ips = append(ips, e.IP)
		}
		trace = append(trace, fmt.Sprintf("page=%d -> totalElements=%v totalPages=%v first=%v last=%v number=%v size=%v n=%v ips=%v",
			p, deref(lr.TotalElements), deref(lr.TotalPages), derefB(lr.First), derefB(lr.Last), deref(lr.Number),
			deref(lr.Size), deref(lr.NumberOfElements), ips))
		if lr.TotalElements == nil || lr.TotalPages == nil || lr.First == nil || lr.Last == nil || lr.Size == nil ||
			lr.Number == nil || lr.NumberOfElements == nil {
			bad("paging-metadata-missing", fmt.Sprintf("page %d lacks paging fields: %.200s", p, body))
			return
		}
		if p == 0 {
			total, pages = *lr.TotalElements, *lr.TotalPages
			if pages > len(c.allIPs)+2 || total > len(c.allIPs) {
				bad("paging-metadata-inconsistent-total", fmt.Sprintf("totalElements=%d totalPages=%d for %d configured ips", total, pages, len(c.allIPs)))
				return
			}
			if pages != (total+size-1)/size {
				bad("paging-metadata-inconsistent-totalpages", fmt.Sprintf("totalPages=%d but totalElements=%d size=%d", pages, total, size))
			}
		}
		if p >= pages {
			// one page beyond the last: not part of the walk; only observed
			if len(lr.entries) != 0 {
				c.run.Count("api_info_page_beyond_last_nonempty", 1)
			}
			break
		}
		if *lr.TotalElements != total || *lr.TotalPages != pages {
			bad("paging-metadata-inconsistent-total", fmt.Sprintf("page %d reports totalElements=%d totalPages=%d, page 0 said %d/%d", p, *lr.TotalElements, *lr.TotalPages, total, pages))
		}
		if *lr.Size != size || *lr.Number != p || *lr.NumberOfElements != len(lr.entries) {
			bad("paging-metadata-inconsistent-number-size", fmt.Sprintf("page %d: size=%d number=%d numberOfElements=%d with %d entries", p, *lr.Size, *lr.Number, *lr.NumberOfElements, len(lr.entries)))
		}
		if *lr.First != (p == 0) || *lr.Last != (p == pages-1) {
			bad("paging-metadata-inconsistent-first-last", fmt.Sprintf("page %d of %d: first=%v last=%v", p, pages, *lr.First, *lr.Last))
		}
		want := size
		if p == pages-1 {
			want = total - size*(pages-1)
		}
		if len(lr.entries) != want {
			bad("paging-page-length", fmt.Sprintf("page %d of %d has %d entries, want %d", p, pages, len(lr.entries), want))
		}
		for _, e := range lr.entries {
			counts[e.IP]++
			seq = append(seq, e.IP)
		}
	}
	// exactly once
	var missing, twice, foreign []string
	for ip, key := range state {
		if key != "" && counts[ip] == 0 {
			missing = append(missing, ip)
		}
	}
	for ip, n := range counts {
		if n > 1 {
			twice = append(twice, ip)
		}
		if _, ok := state[ip]; !ok {
			foreign = append(foreign, ip)
		}
	}
	sort.Strings(missing)
	sort.Strings(twice)
	if len(missing) > 0 {
		bad("paging-allocated-ip-missing", fmt.Sprintf("allocated ips never shown: %v", missing))
	}
	if len(twice) > 0 {
		bad("paging-ip-listed-twice", fmt.Sprintf("ips shown more than once: %v", twice))
	}
	if len(foreign) > 0 {
		bad("paging-unknown-ip-listed", fmt.Sprintf("ips outside the configuration: %v", foreign))
	}
	if len(seq) != total {
		bad("paging-totalelements-mismatch", fmt.Sprintf("walk showed %d entries, totalElements=%d", len(seq), total))
	}
	if len(missing)+len(twice)+len(foreign) == 0 {
		c.run.Count("api_walks_exactly_once", 1)
	}
	// informational: is the sequence monotone in IP order (string or numeric; the property does not pick one)?
	if ipSort && len(seq) > 1 {
		strMono, numMono := true, true
		desc := strings.HasSuffix(sortParam, "desc")
		for i := 1; i < len(seq); i++ {
			a, b := seq[i-1], seq[i]
			if desc {
				a, b = b, a
			}
			if a > b {
				strMono = false
			}
			if ipToInt(a) > ipToInt(b) {
				numMono = false
			}
		}
		switch {
		case strMono && numMono:
			c.run.Count("api_info_ip_walk_order_string_and_numeric", 1)
		case strMono:
			c.run.Count("api_info_ip_walk_order_string_only", 1)
		case numMono:
			c.run.Count("api_info_ip_walk_order_numeric_only", 1)
		default:
			c.run.Count("api_info_ip_walk_order_not_monotone", 1)
		}
	}
}

func deref(p *int) interface{} {
	if p == nil {
		return nil
	}
	return *p
}
func derefB(p *bool) interface{} {
	if p == nil {
		return nil
	}
	return *p
}

var hostileNums = []string{"-1", "abc", "1e3", "99999999999999999999", "0x10", " 1", "+2", "1.5", "100000", "0", "-5",
	"10000", "9999999999", "٣", "", "9223372036854775807", "-9223372036854775808", "99999", "9999", "1;2", "null", "%00"}

func (c *apiCase) hostile(state map[string]string, baselineTotal int) {
	for k := 0; k < 12; k++ {
		page, size := hostileNums[c.r.Intn(len(hostileNums))], hostileNums[c.r.Intn(len(hostileNums))]
		q := url.Values{"page": {page}, "size": {size}}
		if c.r.Intn(3) == 0 {
			q.Set("sort", []string{"ip desc", "IP ASC", "bogus", "ip  asc", ""}[c.r.Intn(5)])
		}
		code, body, err := c.get(q)
		c.run.Count("api_hostile_requests", 1)
		w := map[string]interface{}{"page": page, "size": size, "sort": q.Get("sort"), "http": code, "body": trunc(string(body), 400)}
		if err != nil || code >= 500 {
			c.violate("paging-hostile-params-server-error", fmt.Sprintf("page=%q size=%q: HTTP %d err=%v", page, size, code, err), w)
			continue
		}
		if code != 200 {
			c.run.Count("api_hostile_rejected_4xx", 1)
			continue
		}
		var lr listResp
		if err := json.Unmarshal(body, &lr); err != nil {
			c.violate("paging-hostile-params-bad-json", fmt.Sprintf("page=%q size=%q: %v", page, size, err), w)
			continue
		}
		seen := map[string]bool{}
		for _, raw := range lr.Content {
			var e entry
			_ = json.Unmarshal(raw, &e)
			if _, ok := state[e.IP]; !ok || seen[e.IP] {
				c.violate("paging-hostile-params-bad-content", fmt.Sprintf("page=%q size=%q: ip %q unknown or repeated within the page", page, size, e.IP), w)
				break
			}
			seen[e.IP] = true
		}
		if lr.TotalElements == nil || *lr.TotalElements != baselineTotal {
			c.violate("paging-hostile-params-total", fmt.Sprintf("page=%q size=%q: totalElements=%v, plain listing said %d", page, size, deref(lr.TotalElements), baselineTotal), w)
		}
	}
}

func trunc(s string, n int) string {
	if len(s) > n {
		return s[:n] + "..."
	}
	return s
}

// ---------------------------------------------------------------------------------------------------------------
// key law (3) on the real IPAM: ByPrefix(PoolPrefix()/PoolAppPrefix()) returns only that app's / pool's keys

func (c *apiCase) realByPrefix() {
	done := map[string]bool{}
	for _, ip := range c.allIPs {
		s := c.slots[ip]
		if s.ko == nil {
			continue
		}
		for which, pre := range map[string]string{"pool": s.ko.PoolPrefix(), "poolapp": s.ko.PoolAppPrefix()} {
			if done[pre] {
				continue
			}
			done[pre] = true
			infos, err := c.ipam.ByPrefix(pre)
			if err != nil {
				continue
			}
			c.run.Count("api_real_byprefix_lookups", 1)
			for _, fi := range infos {
				o := c.slots[fi.IP.String()]
				if o == nil || o.ko == nil {
					if o != nil && o.Reserved {
						continue // hand-written reserved keys are free text
					}
					c.violate("real-byprefix-returned-unknown-ip", fmt.Sprintf("ByPrefix(%q) returned %s key %q", pre, fi.IP, fi.Key),
						map[string]interface{}{"prefix": pre})
					continue
				}
				same := o.ko.PoolName == s.ko.PoolName
				if s.ko.PoolName == "" || which == "poolapp" {
					same = same && o.ko.AppTypePrefix == s.ko.AppTypePrefix && o.ko.Namespace == s.ko.Namespace &&
						o.ko.AppName == s.ko.AppName
				}
				c.run.Count("api_real_byprefix_hits", 1)
				if !same {
					cls := "dns1123-inputs"
					if strings.HasPrefix(s.Kind, "textpool-") || strings.HasPrefix(o.Kind, "textpool-") {
						cls = "poolname-with-underscore"
					}
					c.violate("byprefix-captures-foreign-key-"+which+"-prefix-"+cls,
						fmt.Sprintf("real IPAM ByPrefix(%q) (prefix of key %q) also returns %s key %q", pre, s.Key, fi.IP, fi.Key),
						map[string]interface{}{"prefix": pre, "prefix_of": s, "captured": o})
				}
			}
		}
	}
}

// ---------------------------------------------------------------------------------------------------------------
// adversarial owner kinds in the API: decode, filter by appType, cross posts

func (c *apiCase) filterIPs(e entry) (map[string]bool, bool) {
	q := url.Values{"size": {"9999"}, "namespace": {e.Namespace}, "appName": {e.AppName}, "appType": {e.AppType}}
	if e.PoolName != "" {
		q.Set("poolName", e.PoolName)
	}
	lr, _, _, err := c.list(q)
	c.run.Count("api_kindpairs_filter_queries", 1)
	if err != nil || lr == nil {
		return nil, false
	}
	m := map[string]bool{}
	for _, x := range lr.entries {
		m[x.IP] = true
	}
	return m, true
}

// kindPairs checks every (special-kind pod, adversarial-kind sibling) pair of the population.
func (c *apiCase) kindPairs(lr *listResp, state map[string]string) map[string]string {
	byIP := map[string]entry{}
	for _, e := range lr.entries {
		byIP[e.IP] = e
	}
	for _, ip := range c.allIPs {
		sq := c.slots[ip]
		if sq.Adv == nil || sq.partner == nil {
			continue
		}
		sp := sq.partner
		eq, ok1 := byIP[sq.IP]
		ep, ok2 := byIP[sp.IP]
		if !ok1 || !ok2 || state[sq.IP] == "" || state[sp.IP] == "" {
			continue
		}
		tag := sq.Adv.tag()
		judged := kindClass(sq.Adv.Kind) != kindClass(ownKind(sp.g))
		c.run.Count("api_kindpairs_"+sq.Adv.Relation, 1)
		w := map[string]interface{}{"builtin_slot": sp, "adversarial_slot": sq, "builtin_listed": ep.raw, "adversarial_listed": eq.raw}
		if !judged {
			c.run.Count("api_kindpairs_same_class_observed", 1)
			if sq.Key == sp.Key {
				c.observe("obs_kind_alias_shares_key_"+tag, w)
			}
			continue
		}
		c.run.Count("api_kindpairs_judged", 1)
		ok := true
		// decode at the API: the listed app type is the owner's own class
		if !strings.EqualFold(eq.AppType, kindClass(sq.Adv.Kind)) {
			ok = false
			c.violate("list-apptype-decode-"+tag, fmt.Sprintf("ip %s of a pod owned by kind %q (key %q) is listed with appType %q",
				sq.IP, sq.Adv.Kind, sq.Key, eq.AppType), w)
		}
		if sq.Key == sp.Key {
			ok = false
			c.violate("key-collision-"+tag, fmt.Sprintf("ips %s (owner kind %s) and %s (owner kind %s) are held under one key %q",
				sp.IP, ownKind(sp.g), sq.IP, sq.Adv.Kind, sq.Key), w)
		}
		// filter by appType returns only that owner's ips
		for _, dir := range []struct {
			by    entry
			other *slot
			name  string
		}{{ep, sq, "builtin"}, {eq, sp, "adversarial"}} {
			if ips, got := c.filterIPs(dir.by); got && ips[dir.other.IP] {
				ok = false
				w2 := copyW(w)
				w2["filter"] = map[string]string{"appType": dir.by.AppType, "namespace": dir.by.Namespace, "appName": dir.by.AppName, "poolName": dir.by.PoolName}
				c.violate("filter-by-apptype-returns-other-owners-ip-"+tag, fmt.Sprintf(
					"GET /v1/ip?appType=%s&namespace=%s&appName=%s (the listed fields of the %s owner's ip) also returns %s of the other owner (key %q)",
					dir.by.AppType, dir.by.Namespace, dir.by.AppName, dir.name, dir.other.IP, dir.other.Key), w2)
			}
		}
		// one owner's listed fields with the other owner's ip never free anything
		for _, dir := range []struct {
			fields entry
			ip     string
		}{{ep, sq.IP}, {eq, sp.IP}} {
			code, rr, sent, err := c.post(withField(dir.fields.raw, "ip", dir.ip))
			c.run.Count("api_kindpairs_crossposts", 1)
			w2 := copyW(w)
			w2["posted"], w2["http"], w2["response"], w2["err"] = json.RawMessage(sent), code, rr, fmt.Sprint(err)
			after := c.dump()
			if d := diff(state, after); len(d) > 0 {
				ok = false
				w2["changes"] = d
				c.violate("crosspost-frees-other-owners-ip-"+tag, fmt.Sprintf(
					"the listed fields of ip %s posted with ip %s of the other owner changed the IPAM: %v", dir.fields.IP, dir.ip, d), w2)
			}
			state = after
		}
		if ok {
			c.run.Nontrivial("api-kindpair|" + tag)
		}
	}
	return state
}

// ---------------------------------------------------------------------------------------------------------------
// (b) (c) list -> release

func (c *apiCase) fullList() (*listResp, bool) {
	lr, code, body, err := c.list(url.Values{"size": {"9999"}})
	if err != nil || lr == nil {
		c.violate("list-request-failed", fmt.Sprintf("GET /v1/ip?size=9999: HTTP %d err=%v body=%s", code, err, trunc(body, 300)), nil)
		return nil, false
	}
	return lr, true
}

// checkListing compares listed fields with the ground truth (the API-level "key decodes back" law).
func (c *apiCase) checkListing(lr *listResp) {
	for _, e := range lr.entries {
		s := c.slots[e.IP]
		if s == nil {
			continue
		}
		c.run.Count("api_listed_"+s.Kind, 1)
		if s.g != nil && s.Presence != "absent" {
			c.run.Count("api_listed_pod_present", 1)
		}
		var bad []string
		switch {
		case s.Kind == "free":
			if e.PodName != "" || e.AppName != "" || e.PoolName != "" || e.Namespace != "" {
				bad = append(bad, "free ip listed with owner fields")
			}
		case s.Kind == "reserved-freetext", s.Kind == "reserved-poolkey":
		case s.Kind == "app-prefix":
			if e.AppName != s.ko.AppName || e.Namespace != s.ko.Namespace || e.PodName != "" || e.PoolName != "" {
				bad = append(bad, fmt.Sprintf("want app %q ns %q", s.ko.AppName, s.ko.Namespace))
			}
		case s.Kind == "pool-prefix":
			if e.PoolName != s.ko.PoolName || e.PodName != "" {
				bad = append(bad, fmt.Sprintf("want pool %q", s.ko.PoolName))
			}
		default:
			if e.PodName != s.ko.PodName || e.Namespace != s.ko.Namespace || e.AppName != s.ko.AppName || e.PoolName != s.ko.PoolName {
				bad = append(bad, fmt.Sprintf("want pod %q ns %q app %q pool %q", s.ko.PodName, s.ko.Namespace, s.ko.AppName, s.ko.PoolName))
			}
		}
		if len(bad) > 0 {
			c.violate("list-fields-mismatch-"+s.Kind, fmt.Sprintf("ip %s key %q listed as %s: %s", e.IP, s.Key, e.raw, strings.Join(bad, "; ")),
				map[string]interface{}{"slot": s, "listed": e.raw})
		}
		// informational: the releasable flag against "an ip is releasable if it isn't belong to any pod"
		want := !s.Reserved && s.Kind != "free" && (s.g == nil || s.Presence == "absent")
		if e.Releasable != want {
			c.run.Count("api_info_releasable_flag_unexpected_"+s.Kind, 1)
		}
	}
}

func live(s *slot) bool {
	return s != nil && s.g != nil && (s.Presence == string(corev1.PodRunning) || s.Presence == string(corev1.PodPending))
}

// afterPost compares the state after a POST with what it may have changed. allowed is the ip that may become free
// ("" = nothing may change). Returns whether allowed was freed.
func (c *apiCase) afterPost(before map[string]string, allowed string, sigOther string, w map[string]interface{}) (map[string]string, bool) {
	after := c.dump()
	freed := false
	for _, ch := range diff(before, after) {
		if live(c.slots[ch.IP]) && ch.After == "" {
			w2 := copyW(w)
			w2["change"] = ch
			w2["slot"] = c.slots[ch.IP]
			c.violate("release-freed-live-pod-ip-"+c.slots[ch.IP].Kind, fmt.Sprintf("POST freed %s of live pod (key %q)", ch.IP, ch.Before), w2)
		}
		if ch.IP == allowed && ch.After == "" {
			freed = true
			continue
		}
		w2 := copyW(w)
		w2["change"] = ch
		c.violate(sigOther, fmt.Sprintf("POST changed ip %s: key %q -> %q", ch.IP, ch.Before, ch.After), w2)
	}
	return after, freed
}

func copyW(w map[string]interface{}) map[string]interface{} {
	o := map[string]interface{}{}
	for k, v := range w {
		o[k] = v
	}
	return o
}

func (c *apiCase) crossPosts(lr *listResp, state map[string]string) map[string]string {
	if len(lr.entries) < 2 {
		return state
	}
	var rel []entry
	for _, e := range lr.entries {
		if e.Releasable {
			rel = append(rel, e)
		}
	}
	for k := 0; k < 24; k++ {
		var a entry
		if len(rel) > 0 && c.r.Intn(10) < 7 {
			a = rel[c.r.Intn(len(rel))]
		} else {
			a = lr.entries[c.r.Intn(len(lr.entries))]
		}
		b := lr.entries[c.r.Intn(len(lr.entries))]
		sa, sb := c.slots[a.IP], c.slots[b.IP]
		if sa == nil || sb == nil || a.IP == b.IP || sa.Key == sb.Key {
			continue
		}
		body := withField(a.raw, "ip", b.IP)
		code, rr, sent, err := c.post(body)
		c.run.Count("api_crossposts", 1)
		c.run.Count("api_crossposts_fields_of_"+sa.Kind, 1)
		w := map[string]interface{}{"posted": json.RawMessage(sent), "http": code, "response": rr, "err": fmt.Sprint(err),
			"fields_from": sa, "ip_from": sb}
		state, _ = c.afterPost(state, "", "crosspost-"+sa.Kind+"-fields-with-"+sb.Kind+"-ip-changed-state", w)
	}
	return state
}

func (c *apiCase) unreleasablePosts(lr *listResp, state map[string]string) map[string]string {
	for _, e := range lr.entries {
		if e.Releasable {
			continue
		}
		s := c.slots[e.IP]
		if s == nil {
			continue
		}
		if s.Kind == "free" && c.r.Intn(4) != 0 {
			continue // free ips are many and all alike
		}
		code, rr, sent, err := c.post(e.raw)
		c.run.Count("api_unreleasable_posted_"+s.Kind, 1)
		w := map[string]interface{}{"posted": json.RawMessage(sent), "http": code, "response": rr, "err": fmt.Sprint(err), "slot": s}
		after := c.dump()
		for _, ch := range diff(state, after) {
			w2 := copyW(w)
			w2["change"] = ch
			if ch.IP == e.IP {
				// C11 says listed entries CAN be released; it does not say a releasable:false entry must be refused.
				// Observation only (freeing a LIVE pod's ip is judged below).
				c.observe("obs_unreleasable_entry_released_"+s.Kind, map[string]interface{}{
					"what":   fmt.Sprintf("entry listed releasable:false (status %q) was released by posting it back: ip %s key %q", e.Status, e.IP, ch.Before),
					"detail": w2})
			} else {
				c.violate("release-unreleasable-entry-changed-other-ip-"+s.Kind, fmt.Sprintf("POST changed ip %s: %q -> %q", ch.IP, ch.Before, ch.After), w2)
			}
			if live(c.slots[ch.IP]) && ch.After == "" {
				c.violate("release-freed-live-pod-ip-"+c.slots[ch.IP].Kind, fmt.Sprintf("POST freed %s of live pod (key %q)", ch.IP, ch.Before), w2)
			}
		}
		if len(diff(state, after)) == 0 {
			c.run.Count("api_unreleasable_kept_"+s.Kind, 1)
		}
		state = after
	}
	return state
}

func (c *apiCase) releasablePosts(lr *listResp, state map[string]string) map[string]string {
	var rel []entry
	for _, e := range lr.entries {
		if e.Releasable {
			rel = append(rel, e)
		}
	}
	c.r.Shuffle(len(rel), func(i, j int) { rel[i], rel[j] = rel[j], rel[i] })
	stsSeen := 0
	for _, e := range rel {
		s := c.slots[e.IP]
		if s == nil {
			continue
		}
		variants := []string{"verbatim"}
		if e.AppType == "statefulset" {
			stsSeen++
			if stsSeen%2 == 1 {
				variants = []string{"apptype-omitted", "verbatim"} // second one only if the first did not release
			}
		}
		for _, v := range variants {
			body := e.raw
			if v == "apptype-omitted" {
				body = withField(e.raw, "appType", nil)
			}
			code, rr, sent, err := c.post(body)
			c.run.Count("api_release_posted_"+s.Kind+"_"+v, 1)
			w := map[string]interface{}{"posted": json.RawMessage(sent), "variant": v, "http": code, "response": rr,
				"err": fmt.Sprint(err), "key_in_ipam": s.Key, "slot": s}
			var freed bool
			state, freed = c.afterPost(state, e.IP, "release-changed-other-ip-"+s.Kind+"-"+v, w)
			if freed {
				c.run.Count("api_released_"+s.Kind+"_"+v, 1)
				c.run.Nontrivial("released|" + s.Kind + "|" + v)
				if code != 200 || len(rr.Unreleased) != 0 {
					c.violate("release-response-mismatch-"+s.Kind+"-"+v,
						fmt.Sprintf("ip %s was released but the response is HTTP %d unreleased=%v", e.IP, code, rr.Unreleased), w)
				}
				break
			}
			// listed releasable:true, posted back, still allocated
			sig := "release-listed-" + s.Kind + "-" + v + "-not-released"
			switch {
			case v == "apptype-omitted" && e.AppType == "statefulset":
				sig = "release-omitted-apptype-statefulset"
			case v == "verbatim" && e.AppType == "NULL" && s.g != nil && len(s.g.Pod.OwnerReferences) == 0:
				sig = "release-listed-barepod-NULL-apptype"
			}
			c.violate(sig, fmt.Sprintf("entry listed releasable:true for ip %s (key in IPAM %q) posted back (%s): HTTP %d %q unreleased=%v reasons=%v; ip still allocated",
				e.IP, s.Key, v, code, rr.Message, rr.Unreleased, rr.Reasons), w)
		}
	}
	return state
}

// ---------------------------------------------------------------------------------------------------------------
// batch laws: several listed entries in ONE POST

// batchable says whether the batch laws post this listed entry as "must be released". The free-text pool class with
// '_' is left out: it cannot be released even alone and has its own signature.
func (c *apiCase) batchable(e entry) bool {
	s := c.slots[e.IP]
	return s != nil && e.Releasable && !strings.HasPrefix(s.Kind, "textpool-poolname-with-underscore")
}

// checkBatch judges one POST that carried mustFree (listed releasable entries) and mustStay (ips posted that must not
// be freed and must be reported in `unreleased`). Everything else must be untouched.
// otherKeys are the allocation keys the fields of the other posted entries (foreign-owner entry) spell.
func (c *apiCase) checkBatch(tag string, state map[string]string, mustFree []entry, mustStay []string, otherKeys []string,
	code int, rr *releaseResp, sent string, err error) map[string]string {
	after := c.dump()
	keyCount := map[string]int{}
	for _, k := range otherKeys {
		keyCount[k]++
	}
	var postedSlots []*slot
	for _, e := range mustFree {
		keyCount[c.slots[e.IP].Key]++
		postedSlots = append(postedSlots, c.slots[e.IP])
	}
	sharedKinds := map[string]bool{}
	for _, e := range mustFree {
		if s := c.slots[e.IP]; keyCount[s.Key] >= 2 {
			sharedKinds[s.Kind] = true
		}
	}
	c.run.Count("api_batch_posts_"+tag, 1)
	c.run.Count("api_batch_entries_posted", int64(len(mustFree)+len(mustStay)))
	c.run.Max("max_api_batch_entries", int64(len(mustFree)+len(mustStay)))
	if len(sharedKinds) > 0 {
		c.run.Count("api_batch_posts_with_entries_sharing_key", 1)
		for k := range sharedKinds {
			c.run.Count("api_batch_shared_key_"+k, 1)
		}
	}
	reported := map[string]int{}
	for _, ip := range rr.Unreleased {
		reported[ip]++
	}
	w := map[string]interface{}{"batch": tag, "posted": json.RawMessage(sent), "http": code, "response": rr, "err": fmt.Sprint(err),
		"must_be_released": postedSlots, "must_stay_and_be_reported": mustStay}
	posted := map[string]bool{}
	allFreed := true
	for _, e := range mustFree {
		posted[e.IP] = true
		s := c.slots[e.IP]
		if after[e.IP] == "" {
			c.run.Count("api_batch_released_"+s.Kind, 1)
			continue
		}
		allFreed = false
		w2 := copyW(w)
		w2["not_released"] = s
		w2["reported_unreleased"] = reported[e.IP] > 0
		switch {
		case reported[e.IP] == 0 && keyCount[s.Key] >= 2:
			c.violate("batch-release-dropped-entry-sharing-key", fmt.Sprintf(
				"%d listed releasable entries posted in one request, %d of them share key %q: ip %s is neither released nor reported unreleased (HTTP %d unreleased=%v)",
				len(mustFree), keyCount[s.Key], s.Key, e.IP, code, rr.Unreleased), w2)
		case reported[e.IP] == 0:
			c.violate("batch-release-dropped-entry-"+s.Kind, fmt.Sprintf(
				"listed releasable entry for ip %s (key %q) posted in a batch of %d is neither released nor reported unreleased (HTTP %d)",
				e.IP, s.Key, len(mustFree)+len(mustStay), code), w2)
		default:
			c.violate("batch-release-entry-not-released-"+s.Kind, fmt.Sprintf(
				"listed releasable entry for ip %s (key %q) posted in a batch of %d was not released: HTTP %d unreleased=%v reasons=%v",
				e.IP, s.Key, len(mustFree)+len(mustStay), code, rr.Unreleased, rr.Reasons), w2)
		}
	}
	stay := map[string]bool{}
	for _, ip := range mustStay {
		stay[ip] = true
	}
	for _, ch := range diff(state, after) {
		if posted[ch.IP] && ch.After == "" {
			continue
		}
		w2 := copyW(w)
		w2["change"] = ch
		w2["slot"] = c.slots[ch.IP]
		if live(c.slots[ch.IP]) && ch.After == "" {
			c.violate("release-freed-live-pod-ip-"+c.slots[ch.IP].Kind, fmt.Sprintf("POST freed %s of live pod (key %q)", ch.IP, ch.Before), w2)
		}
		if stay[ch.IP] {
			c.violate("batch-mixed-changed-ip-that-must-stay-"+c.slots[ch.IP].Kind, fmt.Sprintf(
				"ip %s posted as non-releasable / with a foreign owner's fields changed: key %q -> %q", ch.IP, ch.Before, ch.After), w2)
		} else {
			c.violate("batch-release-changed-other-ip", fmt.Sprintf("ip %s was not posted but changed: key %q -> %q", ch.IP, ch.Before, ch.After), w2)
		}
	}
	// the response
	wantCode := 200
	if len(mustStay) > 0 {
		wantCode = 202
	}
	if allFreed {
		okReport := len(rr.Unreleased) == len(mustStay)
		for _, ip := range mustStay {
			if reported[ip] == 0 {
				okReport = false
			}
		}
		switch {
		case !okReport && len(mustStay) > 0:
			c.violate("batch-mixed-unreleased-report-mismatch", fmt.Sprintf(
				"mixed batch: unreleased=%v, expected exactly the non-releasable and foreign-owner ips %v (HTTP %d)", rr.Unreleased, mustStay, code), w)
		case !okReport || code != wantCode:
			c.violate("batch-release-status-mismatch", fmt.Sprintf(
				"all %d releasable entries of the batch were released, but the response is HTTP %d (want %d) unreleased=%v", len(mustFree), code, wantCode, rr.Unreleased), w)
		default:
			c.run.Count("api_batch_posts_ok_"+tag, 1)
			c.run.Nontrivial(fmt.Sprintf("batch|%s|n=%d|shared=%v", tag, len(mustFree)+len(mustStay), len(sharedKinds) > 0))
		}
	}
	return after
}

// pageBatch lists one page of the given size and posts ALL its releasable entries back verbatim in one request.
func (c *apiCase) pageBatch(size int, state map[string]string) map[string]string {
	q := url.Values{"size": {fmt.Sprint(size)}}
	lr, _, _, err := c.list(q)
	if err != nil || lr == nil || lr.TotalPages == nil {
		return state // judged by the paging law
	}
	if *lr.TotalPages > 1 {
		// prefer a page that has something to release
		for try := 0; try < 6; try++ {
			q.Set("page", fmt.Sprint(c.r.Intn(*lr.TotalPages)))
			l2, _, _, err := c.list(q)
			if err != nil || l2 == nil {
				return state
			}
			lr = l2
			n := 0
			for _, e := range lr.entries {
				if c.batchable(e) {
					n++
				}
			}
			if n >= 2 {
				break
			}
		}
	}
	var mustFree []entry
	var raws []json.RawMessage
	for _, e := range lr.entries {
		if c.batchable(e) {
			mustFree = append(mustFree, e)
			raws = append(raws, e.raw)
		}
	}
	tag := fmt.Sprintf("page-size-%d", size)
	if len(mustFree) == 0 {
		c.run.Count("api_batch_pages_without_releasable_"+tag, 1)
		return state
	}
	code, rr, sent, err := c.post(raws...)
	return c.checkBatch(tag, state, mustFree, nil, nil, code, rr, sent, err)
}

// mixedBatch posts, in one request, some releasable entries (a group sharing one key when there is one), some listed
// non-releasable entries (live pods, free ips) and one entry with a foreign owner's ip.
func (c *apiCase) mixedBatch(lr *listResp, state map[string]string) map[string]string {
	var rel, nonrelPod, nonrelFree []entry
	byKey := map[string][]entry{}
	for _, e := range lr.entries {
		s := c.slots[e.IP]
		if s == nil {
			continue
		}
		switch {
		case c.batchable(e):
			rel = append(rel, e)
			byKey[s.Key] = append(byKey[s.Key], e)
		case e.Releasable || s.Reserved:
			// text pool class / reserved objects: judged (observed) elsewhere
		case s.Kind == "free":
			nonrelFree = append(nonrelFree, e)
		case s.g != nil && s.Presence != "absent":
			nonrelPod = append(nonrelPod, e)
		}
	}
	if len(rel) < 2 {
		c.run.Count("api_mixed_batch_skipped_too_few_releasable", 1)
		return state
	}
	chosen := map[string]bool{}
	var mustFree []entry
	take := func(e entry) {
		if !chosen[e.IP] {
			chosen[e.IP] = true
			mustFree = append(mustFree, e)
		}
	}
	var groups []string
	for k, es := range byKey {
		if len(es) >= 2 {
			groups = append(groups, k)
		}
	}
	sort.Strings(groups)
	if len(groups) > 0 && c.r.Intn(4) != 0 {
		for _, e := range byKey[groups[c.r.Intn(len(groups))]] {
			take(e)
		}
	}
	for k := 1 + c.r.Intn(3); k > 0; k-- {
		take(rel[c.r.Intn(len(rel))])
	}
	var mustStay, otherKeys []string
	var raws []json.RawMessage
	for _, e := range mustFree {
		raws = append(raws, e.raw)
	}
	if len(nonrelPod) > 0 {
		e := nonrelPod[c.r.Intn(len(nonrelPod))]
		raws = append(raws, e.raw)
		mustStay = append(mustStay, e.IP)
	}
	if len(nonrelFree) > 0 {
		e := nonrelFree[c.r.Intn(len(nonrelFree))]
		raws = append(raws, e.raw)
		mustStay = append(mustStay, e.IP)
	}
	// a foreign-owner entry: the fields of a releasable entry that is not itself in the batch, with the ip of another
	// owner that is not otherwise posted
	var a *entry
	for _, i := range c.r.Perm(len(rel)) {
		if !chosen[rel[i].IP] {
			a = &rel[i]
			break
		}
	}
	if a != nil {
		for _, i := range c.r.Perm(len(lr.entries)) {
			b := lr.entries[i]
			sb := c.slots[b.IP]
			// state, not the build-time ground truth: earlier phases may have released b's ip already
			if sb == nil || state[b.IP] == "" || chosen[b.IP] || b.IP == a.IP || state[b.IP] == state[a.IP] {
				continue
			}
			dup := false
			for _, ip := range mustStay {
				dup = dup || ip == b.IP
			}
			if dup {
				continue
			}
			raws = append(raws, withField(a.raw, "ip", b.IP))
			mustStay = append(mustStay, b.IP)
			otherKeys = append(otherKeys, state[a.IP])
			c.run.Count("api_mixed_batch_foreign_entries", 1)
			break
		}
	}
	c.r.Shuffle(len(raws), func(i, j int) { raws[i], raws[j] = raws[j], raws[i] })
	code, rr, sent, err := c.post(raws...)
	return c.checkBatch("mixed", state, mustFree, mustStay, otherKeys, code, rr, sent, err)
}

// ---------------------------------------------------------------------------------------------------------------
// neighbour law: what happens to an entry must not depend on the other entries of the same POST

type nbItem struct {
	e    entry
	omit bool // appType field left out (documented default: statefulset)
}

func (it nbItem) body() json.RawMessage {
	if it.omit {
		return withField(it.e.raw, "appType", nil)
	}
	return it.e.raw
}

// neighbourBatches builds batches of 2-6 listed releasable entries of mixed owner kinds (distinct keys) in PRNG order;
// every statefulset entry independently omits appType with probability 1/2. A second batch forces the adjacency
// "entry with a non-statefulset appType, immediately followed by a statefulset entry without appType, immediately
// followed by an entry with appType". Each entry must fare exactly as when posted alone.
func (c *apiCase) neighbourBatches(state map[string]string) map[string]string {
	lr, ok := c.fullList()
	if !ok {
		return state
	}
	var sts, other, rest []entry
	seenKey := map[string]bool{}
	for _, i := range c.r.Perm(len(lr.entries)) {
		e := lr.entries[i]
		if !c.batchable(e) || state[e.IP] == "" || seenKey[state[e.IP]] {
			continue
		}
		seenKey[state[e.IP]] = true
		switch {
		case e.AppType == "statefulset":
			sts = append(sts, e)
		case e.AppType != "":
			other = append(other, e)
		default:
			rest = append(rest, e)
		}
	}
	pop := func(l *[]entry) (entry, bool) {
		if len(*l) == 0 {
			return entry{}, false
		}
		e := (*l)[0]
		*l = (*l)[1:]
		return e, true
	}
	popAny := func() (nbItem, bool) {
		// mixed owner kinds: draw from the three classes in PRNG order
		for _, k := range c.r.Perm(3) {
			l := []*[]entry{&sts, &other, &rest}[k]
			if e, ok := pop(l); ok {
				return nbItem{e: e, omit: e.AppType == "statefulset" && c.r.Intn(2) == 0}, true
			}
		}
		return nbItem{}, false
	}
	// reserve the forced adjacency first:  X(with non-statefulset appType) , S(statefulset, appType omitted) , Y(with appType)
	var triple []nbItem
	if len(sts) > 0 && len(other) > 0 {
		x, _ := pop(&other)
		sEntry, _ := pop(&sts)
		triple = []nbItem{{e: x}, {e: sEntry, omit: true}}
		if y, ok := pop(&other); ok && c.r.Intn(3) != 0 {
			triple = append(triple, nbItem{e: y})
		} else if y, ok := pop(&sts); ok {
			triple = append(triple, nbItem{e: y})
		}
	}
	// batch 1: PRNG order
	var items []nbItem
	for n := 2 + c.r.Intn(5); n > 0; n-- {
		if it, ok := popAny(); ok {
			items = append(items, it)
		}
	}
	if len(items) >= 2 {
		state = c.neighbourPost("prng-order", items, state)
	}
	// batch 2: the forced adjacency, surrounded by PRNG entries
	if len(triple) > 0 {
		var before, after []nbItem
		for n := c.r.Intn(4); n > 0 && len(triple)+len(before)+len(after) < 6; n-- {
			if it, ok := popAny(); ok {
				if c.r.Intn(2) == 0 {
					before = append(before, it)
				} else {
					after = append(after, it)
				}
			}
		}
		items = append(append(before, triple...), after...)
		c.run.Count("api_neighbour_batches_forced_adjacency", 1)
		state = c.neighbourPost("forced-adjacency", items, state)
	} else {
		c.run.Count("api_neighbour_forced_adjacency_impossible", 1)
	}
	return state
}

func (c *apiCase) neighbourPost(tag string, items []nbItem, state map[string]string) map[string]string {
	var raws []json.RawMessage
	var layout []string
	posted := map[string]bool{}
	adjacency := false
	for i, it := range items {
		raws = append(raws, it.body())
		posted[it.e.IP] = true
		d := c.slots[it.e.IP].Kind
		if it.omit {
			d += "(appType omitted)"
			c.run.Count("api_neighbour_entries_apptype_omitted_judged", 1)
		}
		layout = append(layout, d)
		if i > 0 {
			prev := items[i-1]
			if it.omit && !prev.omit && prev.e.AppType != "" && prev.e.AppType != "statefulset" {
				c.run.Count("api_neighbour_adjacency_nonsts_then_sts_omitted", 1)
				adjacency = true
			}
			if prev.omit && !it.omit && it.e.AppType != "" {
				c.run.Count("api_neighbour_adjacency_omitted_then_with_apptype", 1)
				adjacency = true
			}
		}
	}
	code, rr, sent, err := c.post(raws...)
	c.run.Count("api_neighbour_batches", 1)
	c.run.Count("api_neighbour_batches_"+tag, 1)
	after := c.dump()
	w := map[string]interface{}{"batch": "neighbour-" + tag, "layout": layout, "posted": json.RawMessage(sent), "http": code,
		"response": rr, "err": fmt.Sprint(err)}
	for _, ch := range diff(state, after) {
		if posted[ch.IP] && ch.After == "" {
			continue
		}
		w2 := copyW(w)
		w2["change"] = ch
		if live(c.slots[ch.IP]) && ch.After == "" {
			c.violate("release-freed-live-pod-ip-"+c.slots[ch.IP].Kind, fmt.Sprintf("POST freed %s of live pod (key %q)", ch.IP, ch.Before), w2)
		}
		c.violate("batch-release-changed-other-ip", fmt.Sprintf("ip %s changed: key %q -> %q", ch.IP, ch.Before, ch.After), w2)
	}
	state = after
	allFreed := true
	for i, it := range items {
		s := c.slots[it.e.IP]
		if state[it.e.IP] == "" {
			c.run.Count("api_neighbour_released_"+s.Kind, 1)
			continue
		}
		allFreed = false
		prevKind := "first"
		if i > 0 {
			prevKind = c.slots[items[i-1].e.IP].Kind
		}
		// the same entry, same form, alone
		code1, rr1, sent1, err1 := c.post(it.body())
		w2 := copyW(w)
		w2["position"] = i
		w2["entry"] = s
		w2["apptype_omitted"] = it.omit
		w2["alone"] = map[string]interface{}{"posted": json.RawMessage(sent1), "http": code1, "response": rr1, "err": fmt.Sprint(err1)}
		var freedAlone bool
		state, freedAlone = c.afterPost(state, it.e.IP, "release-changed-other-ip-"+s.Kind+"-alone-after-batch", w2)
		if freedAlone {
			c.violate("batch-entry-outcome-depends-on-neighbour-"+s.Kind+"-after-"+prevKind, fmt.Sprintf(
				"listed releasable entry for ip %s (key %q, appType omitted=%v) at position %d of a POST with %d entries %v was not released (HTTP %d unreleased=%v reasons=%v), the same entry posted alone was released (HTTP %d)",
				it.e.IP, s.Key, it.omit, i, len(items), layout, code, rr.Unreleased, rr.Reasons, code1), w2)
		} else {
			c.violate("batch-release-entry-not-released-"+s.Kind, fmt.Sprintf(
				"listed releasable entry for ip %s (key %q, appType omitted=%v) was released neither in a batch of %d nor alone: HTTP %d / %d",
				it.e.IP, s.Key, it.omit, len(items), code, code1), w2)
		}
	}
	if allFreed {
		if code != 200 || len(rr.Unreleased) != 0 {
			c.violate("batch-release-status-mismatch", fmt.Sprintf(
				"all %d entries of the batch were released, but the response is HTTP %d unreleased=%v", len(items), code, rr.Unreleased), w)
		} else {
			c.run.Count("api_neighbour_batches_ok", 1)
			if adjacency {
				c.run.Nontrivial(fmt.Sprintf("neighbour|%s|%s", tag, strings.Join(layout, ">")))
			}
		}
	}
	return state
}

// runAPICase runs one populated IPAM through all API laws.
func runAPICase(run *evid.Run, idx int) {
	c := newAPICase(run, idx)
	defer c.close()
	if !c.build() {
		run.Inconclusive(fmt.Sprintf("api case %d: harness could not build the world: %s", idx, c.broken))
		return
	}
	run.Eval(1)
	run.Count("api_ipams", 1)
	run.Max("max_api_ips_per_ipam", int64(len(c.allIPs)))
	state := c.dump()
	kinds := map[string]bool{}
	alloc := 0
	for _, ip := range c.allIPs {
		kinds[c.slots[ip].Kind] = true
		if state[ip] != "" {
			alloc++
		}
	}
	var ks []string
	for k := range kinds {
		ks = append(ks, k)
	}
	sort.Strings(ks)
	run.Nontrivial(fmt.Sprintf("api|n=%d|alloc=%d|%s", len(c.allIPs), alloc, strings.Join(ks, ",")))
	if idx < 2 {
		run.Sample(map[string]interface{}{"kind": "populated IPAM", "config": json.RawMessage(c.confJSON), "ipam": c.slotTable()})
	}

	l0, ok := c.fullList()
	if !ok {
		return
	}
	c.checkListing(l0)
	baselineTotal := -1
	if l0.TotalElements != nil {
		baselineTotal = *l0.TotalElements
	}
	// (a) paging
	for _, size := range []int{1, 2, 3, 7, 10, 9999} {
		for _, sp := range []string{"ip asc", "ip desc", ""} {
			c.walk(size, sp, state)
		}
	}
	c.walk([]int{2, 3, 7}[c.r.Intn(3)], []string{"namespace asc", "policy desc", "podname"}[c.r.Intn(3)], state) // informational
	c.hostile(state, baselineTotal)
	if d := diff(state, c.dump()); len(d) > 0 {
		c.violate("list-changed-state", fmt.Sprintf("GET requests changed the IPAM: %v", d), nil)
		state = c.dump()
	}
	c.realByPrefix()
	state = c.kindPairs(l0, state)
	// (c) another owner's ip / another owner's fields
	state = c.crossPosts(l0, state)
	// (b) releasable:false stays
	state = c.unreleasablePosts(l0, state)
	// batch laws: all releasable entries of one page in ONE request; a mixed batch; on odd cases "everything"
	state = c.neighbourBatches(state)
	state = c.pageBatch([]int{2, 3, 7, 10}[c.r.Intn(4)], state)
	lm, ok := c.fullList()
	if !ok {
		return
	}
	state = c.mixedBatch(lm, state)
	if idx%2 == 1 {
		state = c.pageBatch(9999, state)
	}
	// (b) releasable:true goes, one at a time, from a fresh listing (on odd cases only what the batches left)
	l1, ok := c.fullList()
	if !ok {
		return
	}
	state = c.releasablePosts(l1, state)
	_ = state
}
