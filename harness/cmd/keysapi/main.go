// Engine keysapi decides C11 "Allocation keys are unambiguous and the API releases what it lists".
//
// Monitor 1 (key laws): the real util.FormatKey / ParseKey / PoolPrefix / PoolAppPrefix over batches of generated pods:
// injectivity of KeyInDB on (namespace, name), ParseKey round trip, prefix laws.
// Monitor 2 (API laws): the real api.Controller over a real FloatingIPPlugin/crdIpam (fake clientsets), mounted in
// go-restful as server.startAPIServer does and served by httptest: paging exactly-once, list -> release agreement
// (one entry per request, all releasable entries of a page in one request, mixed batches), cross-owner posts never
// free anything.
package main

import (
	"encoding/json"
	"flag"
	"fmt"
	"os"
	"runtime"
	"strconv"
	"strings"
	"sync"

	klog "k8s.io/klog"
	"verif/harness/evid"
)

const batchSize = 5000

var (
	sigMu    sync.Mutex
	sigCount = map[string]int{}
)

// violate forwards at most 3 witnesses per signature (so that one frequent shape cannot crowd out the others) and
// counts all of them.
func violate(run *evid.Run, v evid.Violation) {
	sigMu.Lock()
	sigCount[v.Sig]++
	n := sigCount[v.Sig]
	sigMu.Unlock()
	run.Count("violations_sig_"+v.Sig, 1)
	if n <= 3 {
		run.Violate(v)
	}
}

func parallel(n, workers int, f func(i int)) {
	var wg sync.WaitGroup
	ch := make(chan int)
	for w := 0; w < workers; w++ {
		wg.Add(1)
		go func() {
			defer wg.Done()
			for i := range ch {
				f(i)
			}
		}()
	}
	for i := 0; i < n; i++ {
		ch <- i
	}
	close(ch)
	wg.Wait()
}

func main() {
	kfs := flag.NewFlagSet("klog", flag.ContinueOnError)
	klog.InitFlags(kfs)
	_ = kfs.Set("logtostderr", "true")
	fl := evid.ParseFlags()
	if fl.Prop == "" {
		fl.Prop = "C11"
	}
	var replayStream string
	replayIdx := -1
	if fl.Replay != "" {
		data, err := os.ReadFile(fl.Replay)
		if err != nil {
			fmt.Println("cannot read replay file:", err)
			os.Exit(evid.ExitBroken)
		}
		var rf struct {
			Seed      int64 `json:"seed"`
			Violation struct {
				Case string `json:"case"`
			} `json:"violation"`
		}
		if err := json.Unmarshal(data, &rf); err != nil {
			fmt.Println("bad replay file:", err)
			os.Exit(evid.ExitBroken)
		}
		parts := strings.Split(rf.Violation.Case, ":")
		if len(parts) != 3 {
			fmt.Println("replay file has no case id")
			os.Exit(evid.ExitBroken)
		}
		fl.Seed = rf.Seed
		replayStream = parts[1]
		replayIdx, _ = strconv.Atoi(parts[2])
	}
	run := evid.NewRun(fl.Prop, fl.Tier, fl.Seed, "exploration", "keysapi")
	run.Rule = "key laws: batches of 5000 generated pods with distinct (namespace,name): DNS-1123 label namespaces, DNS-1123 " +
		"subdomain pod/owner names (tiny reserved-word alphabets, 63-byte names, digits, hyphen runs, truncated generateName " +
		"names), owners none|StatefulSet|ReplicaSet with/without '-'|Deployment|TApp|random CamelCase kinds|two owners, pool " +
		"none|DNS-1123 subdomain, plus adversarial siblings with part boundaries moved around '-' and '.'; separately signed " +
		"classes: free-text pool annotation, owner kind with '_'; names outside DNS-1123 are only observed. A round-trip case " +
		"is distinct by (owner class, pool class, input class). API laws: one case = one generated floating-IP config " +
		"(1-3 pools, ranges crossing 9->10 and 99->100) populated through the real IPAM with every key kind (pods of every " +
		"owner class, pooled, app/pool prefix keys, reserved-labelled objects, free ips; pods present/absent in the lister); " +
		"distinct by (ip count, allocated count, key kinds present)."
	run.Assume("crdIpam.ByPrefix is a strings.HasPrefix filter over allocated keys (the batch-level prefix law uses HasPrefix over the batch; the API cases call the real ByPrefix)")
	run.Assume("fake clientsets (k8s.io/client-go fake, galaxy fake) stand in for the API server; the pod lister is a real informer lister over them")
	run.Assume("owner kinds admitted by an API server lower-case to a DNS-1035 label; free-text pool annotations are a separately signed class; kinds with '_' and names outside DNS-1123 are outside the quantifier (counted as outsideq_*, never a violation)")
	run.Assume("an entry listed releasable:false that is released when posted back is an observation (obs_unreleasable_entry_released_*), not a violation, unless it frees a live pod's ip")
	run.Assume("the go-restful container is a private one (restful.NewContainer) instead of the process-global DefaultContainer; routes are mounted with the same path, Consumes/Produces and handlers as startAPIServer")

	workers := runtime.NumCPU()
	if workers > 16 {
		workers = 16
	}
	if workers < 2 {
		workers = 2
	}
	nPods := evid.Tiered(fl.Tier, 120000, 500000)
	nBatches := (nPods + batchSize - 1) / batchSize
	if nBatches < 10 {
		nBatches = 10 // every input class has at least one batch
	}
	nCases := evid.Tiered(fl.Tier, 400, 2000)

	perBatch := batchSize
	if nPods < nBatches*batchSize {
		perBatch = nPods / nBatches
	}
	if replayIdx >= 0 {
		switch replayStream {
		case "keybatch":
			runKeyBatch(run, replayIdx, perBatch)
		case "apicase":
			runAPICase(run, replayIdx)
		default:
			fmt.Println("unknown replay stream", replayStream)
			os.Exit(evid.ExitBroken)
		}
		os.Exit(run.Finish(0))
	}

	var podsMu sync.Mutex
	pods := 0
	parallel(nBatches, workers, func(i int) {
		n := runKeyBatch(run, i, perBatch)
		podsMu.Lock()
		pods += n
		podsMu.Unlock()
	})
	run.Count("key_pods_total", int64(pods))
	run.Count("key_batches", int64(nBatches))

	apiWorkers := workers
	if apiWorkers > 8 {
		apiWorkers = 8
	}
	parallel(nCases, apiWorkers, func(i int) { runAPICase(run, i) })

	// floors: a run that did not see the situations the property is about is inconclusive
	need := []string{"key_owner_none", "key_owner_statefulset", "key_owner_replicaset-dash", "key_owner_replicaset-nodash",
		"key_owner_deployment", "key_owner_tapp", "key_owner_custom-kind", "key_owner_two-owners", "key_pool_dns1123",
		"key_pool_poolname-with-underscore", "key_prefix_lookups_multi_hit", "key_adversarial_siblings",
		"api_pages_walked", "api_walks_exactly_once", "api_crossposts", "api_hostile_requests",
		"api_listed_statefulset-pod", "api_listed_deployment-pod", "api_listed_tapp-pod", "api_listed_customkind-pod",
		"api_listed_barepod", "api_listed_pooled-statefulset-pod", "api_listed_app-prefix", "api_listed_pool-prefix",
		"api_listed_reserved-freetext", "api_listed_reserved-podkey", "api_listed_free", "api_listed_pod_present",
		"api_release_posted_statefulset-pod_verbatim", "api_release_posted_statefulset-pod_apptype-omitted",
		"api_release_posted_barepod_verbatim", "api_release_posted_deployment-pod_verbatim",
		"api_release_posted_app-prefix_verbatim", "api_release_posted_pool-prefix_verbatim",
		"api_unreleasable_posted_reserved-freetext", "api_unreleasable_posted_free",
		"api_shared_key_groups_app-prefix", "api_shared_key_groups_pool-prefix", "api_batch_posts_mixed",
		"api_batch_posts_page-size-9999", "api_batch_posts_with_entries_sharing_key", "api_batch_shared_key_app-prefix",
		"api_batch_shared_key_pool-prefix", "api_mixed_batch_foreign_entries",
		"api_neighbour_batches_forced_adjacency", "api_neighbour_adjacency_nonsts_then_sts_omitted",
		"api_neighbour_adjacency_omitted_then_with_apptype", "api_neighbour_entries_apptype_omitted_judged",
		"key_kindpairs_kind-with-builtin-prefix", "key_kindpairs_kind-with-builtin-suffix", "key_kindpairs_kind-plural-of",
		"key_kindpairs_kind-case-variant-of", "key_kindpairs_judged", "api_kindpairs_kind-with-builtin-prefix",
		"api_kindpairs_kind-with-builtin-suffix", "api_kindpairs_judged", "api_kindpairs_filter_queries",
		"api_kindpairs_crossposts"}
	for _, k := range need {
		if run.Counter(k) == 0 {
			run.Inconclusive("counter " + k + " is zero: the situation was never observed")
		}
	}
	if int(run.Counter("api_ipams")) < nCases {
		run.Inconclusive(fmt.Sprintf("only %d of %d API cases ran", run.Counter("api_ipams"), nCases))
	}
	os.Exit(run.Finish(20 + nCases/2))
}
