package main

import (
	"fmt"
	"sort"
	"strings"
	"sync"

	"tkestack.io/galaxy/pkg/ipam/schedulerplugin/util"
	"verif/harness/evid"
)

// Key-law monitor: runs the real util.FormatKey / ParseKey / PoolPrefix / PoolAppPrefix over batches of generated pods.

type podID struct{ NS, Name string }

var (
	obsMu   sync.Mutex
	obsSeen = map[string]bool{}
)

type keyRec struct {
	g  *genPod
	ko *util.KeyObj
}

type podWitness struct {
	Namespace  string            `json:"namespace"`
	Name       string            `json:"name"`
	Owners     []string          `json:"owners"` // Kind/Name
	Annotation map[string]string `json:"annotations,omitempty"`
	OwnerClass string            `json:"owner_class"`
	PoolClass  string            `json:"pool_class"`
}

func witnessOf(g *genPod) podWitness {
	w := podWitness{Namespace: g.Pod.Namespace, Name: g.Pod.Name, Annotation: g.Pod.Annotations,
		OwnerClass: g.OwnerClass, PoolClass: g.PoolClass, Owners: []string{}}
	for _, o := range g.Pod.OwnerReferences {
		w.Owners = append(w.Owners, o.Kind+"/"+o.Name)
	}
	return w
}

func batchClass(idx int) string {
	switch idx % 10 {
	case 7:
		return clsPool
	case 8:
		return clsKind
	case 9:
		return clsNames
	}
	return clsDNS
}

// outsideQuantifier: names outside DNS-1123 and owner kinds with '_' (a kind must lower-case to a DNS-1035 label) cannot
// exist in a cluster, so pods needing them are outside the property's quantifier.
func outsideQuantifier(class string) bool { return class == clsNames || class == clsKind }

// outsideQ records an observation on inputs outside the property's quantifier: counted, sampled, never a violation.
func outsideQ(run *evid.Run, what string, example interface{}) {
	run.Count("outsideq_"+what, 1)
	obsMu.Lock()
	first := !obsSeen["outsideq_"+what]
	obsSeen["outsideq_"+what] = true
	obsMu.Unlock()
	if first {
		run.Set("outside_quantifier_example_"+what, example)
	}
}

// ownKind is the kind class of the pod's own owner ("NULL" for pods without owner).
func ownKind(g *genPod) string {
	if len(g.Pod.OwnerReferences) == 0 {
		return "NULL"
	}
	return g.Pod.OwnerReferences[0].Kind
}

// observeRun counts an observation that is not a violation and keeps the first example per counter in the evidence
// under "observations".
func observeRun(run *evid.Run, counter string, example interface{}) {
	run.Count(counter, 1)
	obsMu.Lock()
	defer obsMu.Unlock()
	if observations[counter] == nil {
		observations[counter] = example
		cp := map[string]interface{}{}
		for k, v := range observations {
			cp[k] = v
		}
		run.Set("observations", cp)
	}
}

var observations = map[string]interface{}{}

// checkKindPair applies the key laws to a pod p of a kind galaxy treats specially and its sibling q: same namespace,
// app, pod and pool names, owner kind string-related to p's. Kinds of different classes (kindClass) must not share a
// key or an app prefix, and q's key must decode to q's own class. Kinds of one class (case variants, the documented
// plural alias) share a key by design: observed, not judged.
func checkKindPair(run *evid.Run, caseID string, p *genPod, koP *util.KeyObj, a advKind, q *genPod) {
	koQ, err := util.FormatKey(q.Pod)
	run.Eval(1)
	if err != nil {
		run.Count("key_kindpairs_formatkey_refused", 1)
		return
	}
	tag := a.tag()
	judged := kindClass(ownKind(p)) != kindClass(a.Kind)
	run.Count("key_kindpairs_"+a.Relation, 1)
	if judged {
		run.Count("key_kindpairs_judged", 1)
	} else {
		run.Count("key_kindpairs_same_class_observed", 1)
	}
	w := map[string]interface{}{"builtin_pod": witnessOf(p), "builtin_key": koP.KeyInDB, "adversarial_kind": a,
		"adversarial_pod": witnessOf(q), "adversarial_key": koQ.KeyInDB}
	ok := true
	if koQ.KeyInDB == koP.KeyInDB {
		if judged {
			ok = false
			violate(run, evid.Violation{Sig: "key-collision-" + tag, Msg: fmt.Sprintf(
				"owner %s/%s and owner %s/%s (same namespace %q, pod %q) share key %q", ownKind(p), koP.AppName, a.Kind,
				koQ.AppName, p.Pod.Namespace, p.Pod.Name, koP.KeyInDB), Witness: w, Case: caseID})
		} else {
			observeRun(run, "obs_kind_alias_shares_key_"+tag, w)
		}
	}
	parsed := util.ParseKey(koQ.KeyInDB)
	if d := util.GetAppType(parsed.AppTypePrefix); !strings.EqualFold(d, kindClass(a.Kind)) {
		ok = false
		w2 := map[string]interface{}{"decoded_app_type": d, "want_class": kindClass(a.Kind)}
		for k, v := range w {
			w2[k] = v
		}
		violate(run, evid.Violation{Sig: "apptype-decode-" + tag, Msg: fmt.Sprintf(
			"key %q of a pod owned by kind %q decodes to app type %q, the kind's class is %q", koQ.KeyInDB, a.Kind, d,
			kindClass(a.Kind)), Witness: w2, Case: caseID})
	}
	if judged {
		for name, pair := range map[string][2]string{"builtin-prefix-captures-adversarial-key": {koP.PoolAppPrefix(), koQ.KeyInDB},
			"adversarial-prefix-captures-builtin-key": {koQ.PoolAppPrefix(), koP.KeyInDB}} {
			if strings.HasPrefix(pair[1], pair[0]) {
				ok = false
				violate(run, evid.Violation{Sig: "prefix-containment-" + tag, Msg: fmt.Sprintf(
					"%s: app prefix %q is a prefix of the other owner's key %q", name, pair[0], pair[1]), Witness: w, Case: caseID})
			}
		}
	}
	if ok && judged {
		run.Nontrivial("kindpair|" + tag)
	}
}

// runKeyBatch generates and checks one batch of n pods. Returns the number of pods checked.
func runKeyBatch(run *evid.Run, idx, n int) int {
	cls := batchClass(idx)
	r := run.Rng("keybatch", idx)
	caseID := fmt.Sprintf("%d:keybatch:%d", run.Seed, idx)
	seen := map[podID]bool{}
	var recs []keyRec
	add := func(g *genPod) {
		id := podID{g.Pod.Namespace, g.Pod.Name}
		if seen[id] {
			run.Count("key_pods_duplicate_identity_skipped", 1)
			return
		}
		seen[id] = true
		ko, err := util.FormatKey(g.Pod)
		run.Eval(1)
		run.Count("key_pods_class_"+g.featureClass(), 1)
		if err != nil {
			// FormatKey refuses some pods ("unsupported app type"); that is allowed by the property.
			run.Count("key_formatkey_refused_"+g.OwnerClass, 1)
			return
		}
		run.Count("key_owner_"+g.OwnerClass, 1)
		run.Count("key_pool_"+g.PoolClass, 1)
		recs = append(recs, keyRec{g: g, ko: ko})
	}
	for len(seen) < n {
		special := cls != clsDNS && r.Intn(2) == 0
		g := genPodOf(r, cls, special)
		add(g)
		if cls == clsNames && r.Intn(8) == 0 {
			// outside the quantifier: '_' inside names moves the part boundaries (observed only, see outsideQ)
			a, b := underscorePair(r)
			add(a)
			add(b)
		}
		if bs := builtinsOfOwnerClass(g.OwnerClass); cls == clsDNS && len(bs) > 0 && r.Intn(3) == 0 {
			if ko, err := util.FormatKey(g.Pod); err == nil {
				kinds := advKindsOf(bs[r.Intn(len(bs))])
				for k := 0; k < 3; k++ {
					a := kinds[r.Intn(len(kinds))]
					checkKindPair(run, caseID, g, ko, a, advSibling(r, g, ko.AppName, a))
				}
			}
		}
		if r.Intn(6) == 0 {
			for _, a := range adversarial(r, g) {
				add(a)
				run.Count("key_adversarial_siblings", 1)
			}
		}
	}

	// (1) injectivity over the batch
	byKey := map[string]int{}
	for i := range recs {
		k := recs[i].ko.KeyInDB
		j, dup := byKey[k]
		if !dup {
			byKey[k] = i
			continue
		}
		a, b := recs[j].g, recs[i].g
		pc := pairClass(a, b)
		w := map[string]interface{}{"key": k, "pod1": witnessOf(a), "pod2": witnessOf(b)}
		if outsideQuantifier(pc) {
			outsideQ(run, "key_collisions", w)
			continue
		}
		violate(run, evid.Violation{Sig: "key-collision-" + pc,
			Msg:     fmt.Sprintf("distinct pods %s/%s and %s/%s share key %q", a.Pod.Namespace, a.Pod.Name, b.Pod.Namespace, b.Pod.Name, k),
			Witness: w, Case: caseID})
	}
	run.Count("key_distinct_keys", int64(len(byKey)))

	// (2) ParseKey round trip
	for i := range recs {
		g, ko := recs[i].g, recs[i].ko
		p := util.ParseKey(ko.KeyInDB)
		var bad []string
		if p.PodName != g.Pod.Name {
			bad = append(bad, fmt.Sprintf("podName %q != %q", p.PodName, g.Pod.Name))
		}
		if p.Namespace != g.Pod.Namespace {
			bad = append(bad, fmt.Sprintf("namespace %q != %q", p.Namespace, g.Pod.Namespace))
		}
		if p.PoolName != g.pool() {
			bad = append(bad, fmt.Sprintf("poolName %q != %q", p.PoolName, g.pool()))
		}
		if p.AppName != ko.AppName {
			bad = append(bad, fmt.Sprintf("appName %q != %q", p.AppName, ko.AppName))
		}
		if p.AppTypePrefix != ko.AppTypePrefix {
			bad = append(bad, fmt.Sprintf("appTypePrefix %q != %q", p.AppTypePrefix, ko.AppTypePrefix))
		}
		// the app the key was built from is the (first) owner; for ReplicaSets galaxy may strip the hash suffix
		if len(g.Pod.OwnerReferences) > 0 {
			on := g.Pod.OwnerReferences[0].Name
			ok := ko.AppName == on
			if !ok && g.Pod.OwnerReferences[0].Kind == "ReplicaSet" {
				if j := strings.LastIndex(on, "-"); j >= 0 && ko.AppName == on[:j] {
					ok = true
				}
			}
			if !ok {
				bad = append(bad, fmt.Sprintf("FormatKey appName %q is not owner %q", ko.AppName, on))
			}
		}
		if ko.PodName != g.Pod.Name || ko.Namespace != g.Pod.Namespace || ko.PoolName != g.pool() {
			bad = append(bad, fmt.Sprintf("FormatKey fields (%q,%q,%q) differ from pod", ko.Namespace, ko.PodName, ko.PoolName))
		}
		run.Count("key_roundtrips_checked", 1)
		if len(bad) == 0 {
			run.Nontrivial("rt|" + g.OwnerClass + "|" + g.PoolClass + "|" + g.featureClass())
			continue
		}
		fc := g.featureClass()
		w := map[string]interface{}{"pod": witnessOf(g), "key": ko.KeyInDB, "parsed": p, "mismatch": bad}
		if outsideQuantifier(fc) {
			outsideQ(run, "roundtrip_failures", w)
			continue
		}
		sig := "parsekey-roundtrip-" + fc
		if fc == clsDNS {
			sig += "-" + g.OwnerClass
			if g.PoolClass != "none" {
				sig += "-pooled"
			}
		}
		violate(run, evid.Violation{Sig: sig,
			Msg:     fmt.Sprintf("ParseKey(FormatKey(pod).KeyInDB) of %s/%s key %q: %s", g.Pod.Namespace, g.Pod.Name, ko.KeyInDB, strings.Join(bad, "; ")),
			Witness: w, Case: caseID})
	}

	// (3) prefix laws: each prefix is a prefix of its key; a ByPrefix(prefix) lookup (strings.HasPrefix over the
	// batch's keys, which is what crdIpam.ByPrefix does) returns only keys of the same pool / app.
	type ident struct{ kind, pool, typ, ns, app string }
	type pq struct {
		id   ident
		from int
	}
	prefixes := map[string]pq{}
	for i := range recs {
		g, ko := recs[i].g, recs[i].ko
		pp, pap := ko.PoolPrefix(), ko.PoolAppPrefix()
		fc := g.featureClass()
		for name, pre := range map[string]string{"PoolPrefix": pp, "PoolAppPrefix": pap} {
			run.Count("key_prefix_of_key_checked", 1)
			if !strings.HasPrefix(ko.KeyInDB, pre) {
				w := map[string]interface{}{"pod": witnessOf(g), "key": ko.KeyInDB, name: pre}
				if outsideQuantifier(fc) {
					outsideQ(run, "prefix_not_prefix", w)
					continue
				}
				violate(run, evid.Violation{Sig: "prefix-not-prefix-of-key-" + name + "-" + fc,
					Msg: fmt.Sprintf("%s() %q is not a prefix of key %q", name, pre, ko.KeyInDB), Witness: w, Case: caseID})
			}
		}
		var idp, idpa ident
		if ko.PoolName != "" {
			idp = ident{kind: "pool", pool: ko.PoolName}
			idpa = ident{kind: "poolapp", pool: ko.PoolName, typ: ko.AppTypePrefix, ns: ko.Namespace, app: ko.AppName}
		} else {
			idp = ident{kind: "app", typ: ko.AppTypePrefix, ns: ko.Namespace, app: ko.AppName}
			idpa = idp
		}
		for _, e := range []struct {
			pre string
			id  ident
		}{{pp, idp}, {pap, idpa}} {
			if old, ok := prefixes[e.pre]; ok {
				if old.id != e.id {
					a, b := recs[old.from].g, g
					pc := pairClass(a, b)
					w := map[string]interface{}{"prefix": e.pre, "pod1": witnessOf(a), "pod2": witnessOf(b)}
					if outsideQuantifier(pc) {
						outsideQ(run, "prefix_shared", w)
					} else {
						violate(run, evid.Violation{Sig: "prefix-shared-by-distinct-apps-" + pc,
							Msg:     fmt.Sprintf("prefix %q is produced for two different apps/pools", e.pre),
							Witness: w, Case: caseID})
					}
				}
				continue
			}
			prefixes[e.pre] = pq{id: e.id, from: i}
		}
	}
	order := make([]int, len(recs))
	for i := range order {
		order[i] = i
	}
	sort.Slice(order, func(a, b int) bool { return recs[order[a]].ko.KeyInDB < recs[order[b]].ko.KeyInDB })
	for pre, q := range prefixes {
		lo := sort.Search(len(order), func(i int) bool { return recs[order[i]].ko.KeyInDB >= pre })
		hits := 0
		for i := lo; i < len(order) && strings.HasPrefix(recs[order[i]].ko.KeyInDB, pre); i++ {
			hits++
			o := recs[order[i]]
			var same bool
			switch q.id.kind {
			case "pool":
				same = o.ko.PoolName == q.id.pool
			case "poolapp":
				same = o.ko.PoolName == q.id.pool && o.ko.AppTypePrefix == q.id.typ && o.ko.Namespace == q.id.ns &&
					o.ko.AppName == q.id.app
			default:
				same = o.ko.PoolName == "" && o.ko.AppTypePrefix == q.id.typ && o.ko.Namespace == q.id.ns &&
					o.ko.AppName == q.id.app
			}
			if same {
				continue
			}
			a, b := recs[q.from].g, o.g
			pc := pairClass(a, b)
			w := map[string]interface{}{"prefix": pre, "prefix_of": witnessOf(a), "captured_key": o.ko.KeyInDB,
				"captured_pod": witnessOf(b)}
			if outsideQuantifier(pc) {
				outsideQ(run, "prefix_captures", w)
				continue
			}
			violate(run, evid.Violation{Sig: "byprefix-captures-foreign-key-" + q.id.kind + "-prefix-" + pc,
				Msg: fmt.Sprintf("ByPrefix(%q) (the %s prefix of %s/%s) also returns key %q of %s/%s", pre, q.id.kind,
					a.Pod.Namespace, a.Pod.Name, o.ko.KeyInDB, b.Pod.Namespace, b.Pod.Name),
				Witness: w, Case: caseID})
		}
		run.Count("key_prefix_lookups", 1)
		run.Count("key_prefix_lookup_hits", int64(hits))
		if hits > 1 {
			run.Count("key_prefix_lookups_multi_hit", 1)
		}
	}
	// informational: distinct owner objects that galaxy folds into one app prefix (ReplicaSet "a-b" and "a-c", a bare
	// ReplicaSet "a" and Deployment "a"): allowed by the property as read here (app = what FormatKey calls the app).
	owners := map[string]map[string]bool{}
	for i := range recs {
		if len(recs[i].g.Pod.OwnerReferences) == 0 {
			continue
		}
		o := recs[i].g.Pod.OwnerReferences[0]
		pre := recs[i].ko.PoolAppPrefix()
		if owners[pre] == nil {
			owners[pre] = map[string]bool{}
		}
		owners[pre][o.Kind+"/"+o.Name] = true
	}
	for _, m := range owners {
		if len(m) > 1 {
			run.Count("key_info_app_prefix_shared_by_distinct_owner_objects", 1)
		}
	}
	if idx < 3 && len(recs) > 0 {
		run.Sample(map[string]interface{}{"kind": "key-law pod", "pod": witnessOf(recs[0].g), "key": recs[0].ko.KeyInDB})
	}
	return len(seen)
}
