package main

import (
	"math/rand"
	"strings"

	corev1 "k8s.io/api/core/v1"
	metav1 "k8s.io/apimachinery/pkg/apis/meta/v1"
	"k8s.io/apimachinery/pkg/util/validation"
	"tkestack.io/galaxy/pkg/api/galaxy/constant"
)

// Input classes. The property quantifies over "pods with DNS-1123 names/namespaces, any owner kind (including none),
// any pool name". Everything a Kubernetes API server admits for names, owner kinds (CRD kinds must lower-case to a
// DNS-1035 label) and a DNS-1123 pool name is the core class. Free-text pool annotations are inside the quantifier
// ("any pool name") but unusual, so they get their own signatures. Names with characters outside DNS-1123 and owner
// kinds containing '_' cannot exist in a cluster: OUTSIDE the quantifier, observed and counted, never a violation.
const (
	clsDNS   = "dns1123-inputs"
	clsPool  = "arbitrary-poolname"
	clsKind  = "underscore-ownerkind"
	clsNames = "names-outside-dns1123"
)

// genPod is one generated pod plus what the generator knows about it (the oracle's ground truth).
type genPod struct {
	Pod        *corev1.Pod
	OwnerClass string // none | statefulset | replicaset-dash | replicaset-nodash | deployment | tapp | custom-kind | two-owners
	PoolClass  string // none | dns1123 | poolname-with-underscore | poolname-other-text
	KindUnder  bool   // owner kind contains '_'
	NamesOut   bool   // some name is outside DNS-1123
}

func (g *genPod) pool() string { return constant.GetPool(g.Pod.Annotations) }

// featureClass is the most unusual input class the pod needs.
func (g *genPod) featureClass() string {
	switch {
	case g.NamesOut:
		return clsNames
	case g.KindUnder:
		return clsKind
	case g.PoolClass == "poolname-with-underscore" || g.PoolClass == "poolname-other-text":
		return g.PoolClass
	}
	return clsDNS
}

func classRank(c string) int {
	switch c {
	case clsNames:
		return 4
	case clsKind:
		return 3
	case "poolname-with-underscore":
		return 2
	case "poolname-other-text":
		return 1
	}
	return 0
}

// pairClass is the class a pair of pods needs (the more unusual one).
func pairClass(a, b *genPod) string {
	ca, cb := a.featureClass(), b.featureClass()
	if classRank(cb) > classRank(ca) {
		return cb
	}
	return ca
}

// tiny tokens: reserved words of the key scheme and very short strings, so that concatenations around '-' and '.'
// coincide often (near-collisions).
var tiny = []string{"a", "b", "0", "1", "dp", "sts", "pool", "null", "tapp", "x", "a-b", "b-0", "0-0", "pool--a",
	"a--b", "dp-a", "sts-0", "null-null", "statefulset", "deployment"}

const lowerAlnum = "abcdefghijklmnopqrstuvwxyz0123456789"
const rsHashAlphabet = "bcdfghjklmnpqrstvwxz2456789"

func randFrom(r *rand.Rand, alphabet string, n int) string {
	var b strings.Builder
	for i := 0; i < n; i++ {
		b.WriteByte(alphabet[r.Intn(len(alphabet))])
	}
	return b.String()
}

// dnsLabel generates a DNS-1123 label (1..63 chars).
func dnsLabel(r *rand.Rand) string {
	for {
		var s string
		switch r.Intn(12) {
		case 0, 1, 2, 3:
			n := 1 + r.Intn(3)
			parts := make([]string, n)
			for i := range parts {
				parts[i] = tiny[r.Intn(len(tiny))]
			}
			s = strings.Join(parts, "-")
		case 4, 5, 6:
			s = randFrom(r, lowerAlnum, 1+r.Intn(12))
		case 7:
			s = randFrom(r, "0123456789", 1+r.Intn(6))
		case 8:
			s = randFrom(r, lowerAlnum, 63)
		case 9:
			// many hyphens
			s = randFrom(r, "ab01", 1) + strings.Repeat("-", 1+r.Intn(5)) + randFrom(r, "ab01", 1+r.Intn(2))
		case 10:
			// leading digits
			s = randFrom(r, "0123456789", 1+r.Intn(3)) + "-" + randFrom(r, lowerAlnum, 1+r.Intn(5))
		default:
			s = randFrom(r, "ab", 1+r.Intn(2))
		}
		if len(validation.IsDNS1123Label(s)) == 0 {
			return s
		}
	}
}

// dnsSubdomain generates a DNS-1123 subdomain (dots allowed, <= 253).
func dnsSubdomain(r *rand.Rand) string {
	for {
		n := 1
		if r.Intn(3) == 0 {
			n = 2 + r.Intn(2)
		}
		parts := make([]string, n)
		for i := range parts {
			parts[i] = dnsLabel(r)
		}
		s := strings.Join(parts, ".")
		if len(validation.IsDNS1123Subdomain(s)) == 0 {
			return s
		}
	}
}

var knownKinds = []string{"TApp", "CloneSet", "GameStatefulSet", "DaemonSet", "Job", "StatefulSets", "Replicaset",
	"Pool", "NULL", "Null", "Dp", "Sts", "StatefulSetPlus", "ReplicationController", "Deployments", "Node"}
var kindWords = []string{"Game", "Set", "App", "Clone", "Stateful", "T", "Job", "Cron", "Ds", "X", "Pool", "Dp", "Sts"}

// camelKind generates a kind the API machinery admits: lower-cases to a DNS-1035 label.
func camelKind(r *rand.Rand) string {
	for {
		var s string
		if r.Intn(2) == 0 {
			s = knownKinds[r.Intn(len(knownKinds))]
		} else {
			n := 1 + r.Intn(3)
			for i := 0; i < n; i++ {
				s += kindWords[r.Intn(len(kindWords))]
			}
			if r.Intn(4) == 0 {
				s += randFrom(r, "0123456789", 1)
			}
		}
		if s == "StatefulSet" || s == "ReplicaSet" || s == "Deployment" {
			continue
		}
		if len(validation.IsDNS1035Label(strings.ToLower(s))) == 0 {
			return s
		}
	}
}

var underKinds = []string{"a_b", "My_Kind", "T_App", "_", "dp_", "_sts", "Stateful_Set", "pool_", "x__y"}

var textPools = []string{"a_b", "p_", "_p", "_", "__", "a b", " ", "池子", "p_dp_ns_app", "P", "a_sts_b", "pool__a",
	"a_", "a__b", "Pool A", "p\tq", "é", "a_b_c_d_e", "dp_", "x y_z"}

// textPool generates free annotation text.
func textPool(r *rand.Rand) string {
	if r.Intn(2) == 0 {
		return textPools[r.Intn(len(textPools))]
	}
	alpha := []string{"a", "b", "_", "_", " ", "-", ".", "P", "池", "é", "0", "dp", "sts", "pool"}
	n := 1 + r.Intn(5)
	var s string
	for i := 0; i < n; i++ {
		s += alpha[r.Intn(len(alpha))]
	}
	return s
}

func poolTextClass(p string) string {
	if strings.Contains(p, "_") {
		return "poolname-with-underscore"
	}
	return "poolname-other-text"
}

// outName generates a name outside DNS-1123 ('_' or upper case), which no API server admits.
func outName(r *rand.Rand) string {
	t := []string{"a", "b", "0", "dp", "sts", "null", "NULL", "x"}
	n := 2 + r.Intn(2)
	parts := make([]string, n)
	for i := range parts {
		parts[i] = t[r.Intn(len(t))]
	}
	return strings.Join(parts, "_")
}

// podNameFromGenerateName is what the apiserver's name generator does: base truncated to 58 + 5 random chars.
func podNameFromGenerateName(r *rand.Rand, base string) string {
	if len(base) > 58 {
		base = base[:58]
	}
	return base + randFrom(r, rsHashAlphabet, 5)
}

var ownerClasses = []string{"none", "statefulset", "replicaset-dash", "replicaset-nodash", "deployment", "tapp",
	"custom-kind", "two-owners"}

// genPodOf generates one pod of the given input class. special says whether this pod carries the class's unusual
// feature (half of the pods of a non-core batch are plain so that cross collisions are seen too).
func genPodOf(r *rand.Rand, cls string, special bool) *genPod {
	return genPodForced(r, cls, special, "", "")
}

// genPodForced is genPodOf with the owner class ("" = random) and pool mode ("" = random, "none", "dns") forced.
func genPodForced(r *rand.Rand, cls string, special bool, forceOwner, forcePool string) *genPod {
	g := &genPod{PoolClass: "none"}
	ns := dnsLabel(r)
	ownerClass := ownerClasses[r.Intn(len(ownerClasses))]
	if forceOwner != "" {
		ownerClass = forceOwner
	}
	g.OwnerClass = ownerClass
	var owners []metav1.OwnerReference
	var name string
	randomName := r.Intn(3) == 0
	switch ownerClass {
	case "none":
		name = dnsSubdomain(r)
	case "statefulset":
		app := dnsSubdomain(r)
		owners = []metav1.OwnerReference{{Kind: "StatefulSet", Name: app}}
		name = app + "-" + randFrom(r, "0123456789", 1+r.Intn(2))
	case "replicaset-dash":
		dep := dnsLabel(r)
		rs := dep + "-" + randFrom(r, rsHashAlphabet, 8+r.Intn(3))
		owners = []metav1.OwnerReference{{Kind: "ReplicaSet", Name: rs}}
		name = podNameFromGenerateName(r, rs+"-")
	case "replicaset-nodash":
		rs := randFrom(r, lowerAlnum, 1+r.Intn(10))
		if r.Intn(3) == 0 {
			rs = tiny[r.Intn(10)] // the dash-free ones
			rs = strings.ReplaceAll(rs, "-", "")
		}
		owners = []metav1.OwnerReference{{Kind: "ReplicaSet", Name: rs}}
		name = podNameFromGenerateName(r, rs+"-")
	case "deployment":
		app := dnsLabel(r)
		owners = []metav1.OwnerReference{{Kind: "Deployment", Name: app}}
		name = podNameFromGenerateName(r, app+"-")
	case "tapp":
		app := dnsSubdomain(r)
		owners = []metav1.OwnerReference{{Kind: "TApp", Name: app}}
		name = app + "-" + randFrom(r, "0123456789", 1+r.Intn(2))
	case "custom-kind":
		app := dnsSubdomain(r)
		owners = []metav1.OwnerReference{{Kind: camelKind(r), Name: app}}
		name = app + "-" + randFrom(r, "0123456789", 1+r.Intn(2))
	case "two-owners":
		kinds := []string{"StatefulSet", "ReplicaSet", "Deployment", "TApp", camelKind(r)}
		k1, k2 := kinds[r.Intn(len(kinds))], kinds[r.Intn(len(kinds))]
		owners = []metav1.OwnerReference{{Kind: k1, Name: dnsSubdomain(r)}, {Kind: k2, Name: dnsSubdomain(r)}}
		name = dnsSubdomain(r)
	}
	if randomName || len(validation.IsDNS1123Subdomain(name)) != 0 {
		name = dnsSubdomain(r)
	}
	var ann map[string]string
	poolRoll := r.Intn(5)
	if forcePool == "none" {
		poolRoll = 4
	} else if forcePool == "dns" {
		poolRoll = 0
	}
	switch poolRoll {
	case 0, 1:
		ann = map[string]string{constant.IPPoolAnnotation: dnsSubdomain(r)}
		g.PoolClass = "dns1123"
	case 2:
		if r.Intn(2) == 0 {
			ann = map[string]string{"unrelated": "x"}
		}
	}
	if special {
		switch cls {
		case clsPool:
			p := textPool(r)
			ann = map[string]string{constant.IPPoolAnnotation: p}
			g.PoolClass = poolTextClass(p)
			if len(validation.IsDNS1123Subdomain(p)) == 0 {
				g.PoolClass = "dns1123"
			}
		case clsKind:
			k := underKinds[r.Intn(len(underKinds))]
			if len(owners) == 0 {
				owners = []metav1.OwnerReference{{Kind: k, Name: dnsSubdomain(r)}}
				g.OwnerClass = "custom-kind"
			} else {
				owners[0].Kind = k
				if g.OwnerClass != "two-owners" {
					g.OwnerClass = "custom-kind"
				}
			}
			g.KindUnder = true
		case clsNames:
			g.NamesOut = true
			switch r.Intn(3) {
			case 0:
				ns = outName(r)
			case 1:
				name = outName(r)
			default:
				if len(owners) > 0 {
					owners[0].Name = outName(r)
				} else {
					ns = outName(r)
				}
			}
		}
	}
	g.Pod = &corev1.Pod{ObjectMeta: metav1.ObjectMeta{Name: name, Namespace: ns, Annotations: ann,
		OwnerReferences: owners}}
	return g
}

// adversarial derives near-collision siblings of a pod: the same characters with the part boundaries moved around
// '-' and '.', so that a key scheme that does not delimit its parts unambiguously maps them onto one key.
func adversarial(r *rand.Rand, g *genPod) []*genPod {
	var out []*genPod
	p := g.Pod
	if len(p.OwnerReferences) == 0 || g.NamesOut || g.KindUnder {
		return nil
	}
	mk := func(ns, app, name string) {
		if len(validation.IsDNS1123Label(ns)) != 0 || len(validation.IsDNS1123Subdomain(app)) != 0 ||
			len(validation.IsDNS1123Subdomain(name)) != 0 {
			return
		}
		q := p.DeepCopy()
		q.Namespace, q.Name = ns, name
		q.OwnerReferences[0].Name = app
		c := *g
		c.Pod = q
		out = append(out, &c)
	}
	ns, app, name := p.Namespace, p.OwnerReferences[0].Name, p.Name
	for _, sep := range []string{"-", "."} {
		mk(ns+sep+app, name, name)
		mk(ns, app+sep+name, name+sep+"0")
		mk(ns, app, app+sep+name)
		if i := strings.LastIndex(app, sep); i > 0 && i < len(app)-1 {
			mk(ns+"-"+app[:i], app[i+1:], name)
			mk(ns, app[:i], app[i+1:]+sep+name)
		}
		if i := strings.Index(name, sep); i > 0 && i < len(name)-1 {
			mk(ns, app+sep+name[:i], name[i+1:])
		}
	}
	if i := strings.LastIndex(ns, "-"); i > 0 && i < len(ns)-1 {
		mk(ns[:i], ns[i+1:]+"-"+app, name)
	}
	// the same pod in a pool named after key fragments
	for _, pool := range []string{"dp", "sts-" + ns, ns, app, "pool"} {
		if len(validation.IsDNS1123Subdomain(pool)) != 0 {
			continue
		}
		q := p.DeepCopy()
		q.Name = name + "-p"
		if len(validation.IsDNS1123Subdomain(q.Name)) != 0 {
			continue
		}
		q.Annotations = map[string]string{constant.IPPoolAnnotation: pool}
		c := *g
		c.Pod = q
		c.PoolClass = "dns1123"
		out = append(out, &c)
	}
	if len(out) > 6 {
		r.Shuffle(len(out), func(i, j int) { out[i], out[j] = out[j], out[i] })
		out = out[:6]
	}
	return out
}

// underscorePair builds two distinct pods whose names contain '_' (outside DNS-1123) such that the same characters
// fall on different sides of the key's '_' separators.
func underscorePair(r *rand.Rand) (*genPod, *genPod) {
	t1, t2, t3, name := dnsLabel(r), dnsLabel(r), dnsLabel(r), dnsSubdomain(r)
	mk := func(ns, app string) *genPod {
		return &genPod{OwnerClass: "statefulset", PoolClass: "none", NamesOut: true, Pod: &corev1.Pod{ObjectMeta: metav1.ObjectMeta{
			Namespace: ns, Name: name, OwnerReferences: []metav1.OwnerReference{{Kind: "StatefulSet", Name: app}}}}}
	}
	return mk(t1, t2+"_"+t3), mk(t1+"_"+t2, t3)
}

// ---------------------------------------------------------------------------------------------------------------
// adversarial owner kinds: string-related to the kinds galaxy treats specially (FormatKey: "StatefulSet",
// "ReplicaSet"; GetAppTypePrefix: statefulset, statefulsets, replicaset, deployment, NULL; TApp is the documented
// third app type). All of them lower-case to a DNS-1035 label, i.e. a CRD may carry them as its kind.

type advKind struct {
	Kind     string `json:"kind"`
	Relation string `json:"relation"` // kind-with-builtin-prefix | kind-with-builtin-suffix | kind-plural-of | kind-case-variant-of | kind-plural-case-variant-of
	Builtin  string `json:"builtin"`
}

func (a advKind) tag() string { return a.Relation + "-" + strings.ToLower(a.Builtin) }

var builtinKinds = []string{"StatefulSet", "ReplicaSet", "Deployment", "TApp", "NULL"}

func advKindsOf(b string) []advKind {
	var out []advKind
	add := func(k, rel string) {
		if k == b || len(validation.IsDNS1035Label(strings.ToLower(k))) != 0 {
			return
		}
		for _, o := range out {
			if o.Kind == k {
				return
			}
		}
		out = append(out, advKind{Kind: k, Relation: rel, Builtin: b})
	}
	for _, sfx := range []string{"Plus", "X", "2", "Set", "sPlus"} {
		add(b+sfx, "kind-with-builtin-prefix")
	}
	for _, pfx := range []string{"X", "Game", "My", "Advanced"} {
		add(pfx+b, "kind-with-builtin-suffix")
	}
	add(b+"s", "kind-plural-of")
	add(strings.ToLower(b), "kind-case-variant-of")
	add(strings.ToUpper(b), "kind-case-variant-of")
	add(b[:1]+strings.ToLower(b[1:]), "kind-case-variant-of")
	add(strings.ToLower(b)+"s", "kind-plural-case-variant-of")
	return out
}

// kindClass is the app type an owner kind stands for, as documented (doc/float-ip.md: the key is
// $kind_$namespace_$appName_$podName with the lower-cased kind; API doc: "deployment, statefulset or tapp"; the doc's
// own example queries appType=statefulsets; ReplicaSets are treated as their Deployment). Kinds of one class are one
// app type by design; kinds of different classes must never be confused.
func kindClass(kind string) string {
	l := strings.ToLower(kind)
	switch l {
	case "statefulset", "statefulsets":
		return "statefulset"
	case "replicaset", "deployment":
		return "deployment"
	}
	return l
}

// builtinsOfOwnerClass: which special kinds a generated pod's owner stands for.
func builtinsOfOwnerClass(oc string) []string {
	switch oc {
	case "statefulset":
		return []string{"StatefulSet"}
	case "replicaset-dash", "replicaset-nodash":
		return []string{"ReplicaSet", "Deployment"}
	case "deployment":
		return []string{"Deployment", "ReplicaSet"}
	case "tapp":
		return []string{"TApp"}
	case "none":
		return []string{"NULL"}
	}
	return nil
}

// advSibling: the same namespace, pod name, pool and app name (as the key spells it) under an adversarial owner kind.
func advSibling(r *rand.Rand, p *genPod, appName string, a advKind) *genPod {
	q := p.Pod.DeepCopy()
	if len(validation.IsDNS1123Subdomain(appName)) != 0 {
		appName = dnsLabel(r) // pods without owner have no app name a real owner could carry
	}
	q.OwnerReferences = []metav1.OwnerReference{{Kind: a.Kind, Name: appName}}
	c := *p
	c.Pod = q
	c.OwnerClass = "custom-kind"
	return &c
}
