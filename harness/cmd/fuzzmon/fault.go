package main

import (
	"errors"
	"fmt"
	"sync"

	apierrors "k8s.io/apimachinery/pkg/api/errors"
	"k8s.io/apimachinery/pkg/runtime"
	"k8s.io/apimachinery/pkg/runtime/schema"
	k8stesting "k8s.io/client-go/testing"
)

// faultSpec is a single API-server fault that is part of an input's environment: the nth matching request made while
// the call runs fails once. What is judged does not change: the call may return an error, it must not panic, it must
// return under the watchdog, and the lock probe on the same instance (run without fault) must pass afterwards.
type faultSpec struct {
	Verb     string `json:"verb"`     // create | update | delete | get
	Resource string `json:"resource"` // floatingips | pools | pods | configmaps
	Nth      int    `json:"nth"`      // 1-based
	Err      string `json:"error"`    // internal | already-exists | conflict | not-found | plain
}

type faultState struct {
	mu    sync.Mutex
	spec  *faultSpec
	count int
	hits  map[string]int64
	armed int64
}

func (f *faultState) arm(spec *faultSpec) {
	if spec == nil {
		return
	}
	f.mu.Lock()
	f.spec, f.count = spec, 0
	f.armed++
	f.mu.Unlock()
}

func (f *faultState) disarm() {
	f.mu.Lock()
	f.spec = nil
	f.mu.Unlock()
}

// take returns and clears the counters gathered so far.
func (f *faultState) take() (armed int64, hits map[string]int64) {
	f.mu.Lock()
	defer f.mu.Unlock()
	armed, hits = f.armed, f.hits
	f.armed, f.hits = 0, nil
	return
}

// reactor is prepended to the fake clientsets (kube and galaxy).
func (f *faultState) reactor(action k8stesting.Action) (bool, runtime.Object, error) {
	f.mu.Lock()
	defer f.mu.Unlock()
	s := f.spec
	if s == nil || action.GetVerb() != s.Verb || action.GetResource().Resource != s.Resource {
		return false, nil, nil
	}
	f.count++
	if f.count != s.Nth {
		return false, nil, nil
	}
	f.spec = nil // once
	if f.hits == nil {
		f.hits = map[string]int64{}
	}
	f.hits[s.Verb+"_"+s.Resource]++
	gr := schema.GroupResource{Resource: s.Resource}
	name := "injected"
	switch s.Err {
	case "already-exists":
		return true, nil, apierrors.NewAlreadyExists(gr, name)
	case "conflict":
		return true, nil, apierrors.NewConflict(gr, name, errors.New("injected conflict"))
	case "not-found":
		return true, nil, apierrors.NewNotFound(gr, name)
	case "plain":
		return true, nil, errors.New("injected: connection reset by peer")
	}
	return true, nil, apierrors.NewInternalError(fmt.Errorf("injected fault on %s %s", s.Verb, s.Resource))
}

// genFault draws a fault (or none). p is the probability of having one.
func genFault(g *G, p float64) *faultSpec {
	if !g.chance(p) {
		return nil
	}
	type vr struct{ v, r string }
	choices := []vr{{"create", "floatingips"}, {"create", "floatingips"}, {"create", "floatingips"}, {"update", "floatingips"},
		{"delete", "floatingips"}, {"delete", "floatingips"}, {"get", "floatingips"}, {"get", "pods"}, {"create", "pods"},
		{"get", "pools"}, {"create", "pools"}, {"update", "pools"}, {"delete", "pools"}, {"get", "configmaps"}}
	c := choices[g.intn(len(choices))]
	f := &faultSpec{Verb: c.v, Resource: c.r, Nth: 1 + g.intn(3)}
	if g.chance(0.5) {
		f.Nth = 1
	}
	switch c.v {
	case "create":
		f.Err = g.pick("internal", "already-exists", "plain")
	case "update":
		f.Err = g.pick("internal", "conflict", "not-found")
	case "delete", "get":
		f.Err = g.pick("internal", "not-found", "plain")
	}
	return f
}
