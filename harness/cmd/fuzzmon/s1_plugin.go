package main

import (
	gocontext "context"
	"fmt"
	"net"
	"strings"
	"time"

	corev1 "k8s.io/api/core/v1"
	metav1 "k8s.io/apimachinery/pkg/apis/meta/v1"
	"k8s.io/apimachinery/pkg/types"
	"tkestack.io/galaxy/pkg/api/galaxy/constant"
	"tkestack.io/galaxy/pkg/api/k8s/schedulerapi"
)

const outTrivial = "trivial" // returned without looking at the input (e.g. pod does not request a floating IP)

// podIn is a generated pod plus what to do with it.
type podIn struct {
	freeIP  string // sync-free-ip class: the annotated address is made free in the instance before the call
	pod     *corev1.Pod
	nodes   []corev1.Node
	node    string // bind target
	oldPod  *corev1.Pod
	staged  bool // create the pod in the API store / informer cache before the call
	keepPod bool
}

func showPod(p *corev1.Pod) map[string]interface{} {
	if p == nil {
		return nil
	}
	owners := []map[string]string{}
	for _, o := range p.OwnerReferences {
		owners = append(owners, map[string]string{"kind": o.Kind, "name": o.Name, "apiVersion": o.APIVersion})
	}
	ann := map[string]string{}
	for k, v := range p.Annotations {
		ann[k] = show(v)
	}
	m := map[string]interface{}{"name": show(p.Name), "namespace": show(p.Namespace), "uid": string(p.UID), "ownerReferences": owners,
		"annotations": ann, "phase": string(p.Status.Phase), "nodeName": p.Spec.NodeName}
	want := false
	for _, c := range p.Spec.Containers {
		if _, ok := c.Resources.Requests[corev1.ResourceName(constant.ResourceName)]; ok {
			want = true
		}
	}
	m["requests_eni_ip"] = want
	if len(p.Labels) > 0 {
		m["labels"] = p.Labels
	}
	if p.Status.PodIP != "" {
		m["podIP"] = p.Status.PodIP
	}
	return m
}

func showNodes(ns []corev1.Node) []map[string]interface{} {
	var out []map[string]interface{}
	for _, n := range ns {
		var addrs []string
		for _, a := range n.Status.Addresses {
			addrs = append(addrs, string(a.Type)+"="+show(a.Address))
		}
		out = append(out, map[string]interface{}{"name": show(n.Name), "addresses": addrs})
	}
	return out
}

// genArgs renders the k8s.v1.cni.galaxy.io/args annotation. ok=false: no annotation.
func genArgs(g *G) (text string, class string, tag string, ok bool) {
	validRanges := func(maxLists, maxRanges int) [][]string {
		nl := 1 + g.intn(maxLists)
		var lists [][]string
		for i := 0; i < nl; i++ {
			nr := 1 + g.intn(maxRanges)
			var l []string
			for j := 0; j < nr; j++ {
				l = append(l, g.ipRange())
			}
			lists = append(lists, l)
		}
		return lists
	}
	ipinfo := func() map[string]interface{} {
		ip := g.pick(interestingIPs...)
		return map[string]interface{}{"ip": ip + "/" + g.pick("24", "32", "0", "16"), "vlan": g.intn(4), "gateway": g.pick(interestingIPs...)}
	}
	k := g.intn(100)
	switch {
	case g.rare(5, 0.004):
		// the extreme value the property names: a requested range whose last address is 255.255.255.255
		r := g.endMaxRange()
		if g.chance(0.5) {
			return mustJSON(map[string]interface{}{"request_ip_range": [][]string{{r}}}), "range-ending-255.255.255.255", "range-ending-255.255.255.255", true
		}
		return mustJSON(map[string]interface{}{"request_ip_range": [][]string{{"10.49.27.216~10.49.27.218", r}}, "common": map[string]interface{}{}}),
			"range-ending-255.255.255.255", "range-ending-255.255.255.255", true
	case k < 10:
		return "", "args-none", "", false
	case k < 32:
		return mustJSON(map[string]interface{}{"request_ip_range": validRanges(3, 3)}), "args-ranges", "", true
	case k < 40:
		n := g.intn(3)
		infos := []interface{}{}
		for i := 0; i < n; i++ {
			infos = append(infos, ipinfo())
		}
		return mustJSON(map[string]interface{}{"common": map[string]interface{}{"ipinfos": infos}}), "args-ipinfos", "", true
	case k < 45:
		return g.pick(`{"request_ip_range":[]}`, `{"request_ip_range":[[]]}`, `{"request_ip_range":[[],[]]}`, `{"request_ip_range":null}`,
			`{"request_ip_range":[null]}`, `{"request_ip_range":[[],["10.49.27.216"]]}`, `{}`, `{"common":{}}`, `{"common":null}`,
			`{"common":{"ipinfos":null}}`, `{"common":{"ipinfos":[]}}`), "args-empty-lists", "", true
	case k < 50:
		return mustJSON(map[string]interface{}{"request_ip_range": [][]string{{g.ip6()}, {g.ip6() + "~" + g.ip6()}}}), "args-ipv6", "", true
	case k < 54:
		return mustJSON(map[string]interface{}{"request_ip_range": [][]string{{"0.0.0.0~" + u32ip(uint32(g.intn(12)))}, {"0.0.0.0"}}}),
			"args-touching-0.0.0.0", "", true
	case k < 59:
		return mustJSON(map[string]interface{}{"request_ip_range": [][]string{{g.ip4()}, {g.ip4(), g.ip4()}}}), "args-single-addresses", "", true
	case k < 63:
		// just below the top of the address space: the configured pool 255.255.255.240~255.255.255.254
		lo := 0xfffffff0 + uint32(g.intn(14))
		hi := lo + uint32(g.intn(int(0xfffffffe-lo)+1))
		return mustJSON(map[string]interface{}{"request_ip_range": [][]string{{u32ip(lo) + "~" + u32ip(hi)}}}), "args-top-of-space", "", true
	case k < 71:
		return mustJSON(g.jsonJunk(3)), "args-wrong-types", "", true
	case k < 76:
		base := mustJSON(map[string]interface{}{"request_ip_range": validRanges(2, 2), "common": map[string]interface{}{"ipinfos": []interface{}{ipinfo()}}})
		return base[:g.intn(len(base))], "args-truncated", "", true
	case k < 91:
		base := mustJSON(map[string]interface{}{"request_ip_range": validRanges(2, 2), "common": map[string]interface{}{"ipinfos": []interface{}{ipinfo()}}})
		return string(g.mutate([]byte(base))), "args-mutated", "", true
	case k < 95:
		return g.junk(), "args-junk", "", true
	default:
		return mustJSON(map[string]interface{}{"request_ip_range": validRanges(4, 3)}), "args-many-ranges", "", true
	}
}

var ownerKinds = []string{"StatefulSet", "ReplicaSet", "Deployment", "TApp", "Foo", "Bar", "DaemonSet", "Job", "", "statefulset", "ReplicaSet"}

func genOwners(g *G) []metav1.OwnerReference {
	n := 0
	switch k := g.intn(10); {
	case k < 1:
		n = 0
	case k < 8:
		n = 1
	case k < 9:
		n = 2
	default:
		n = 3
	}
	var out []metav1.OwnerReference
	for i := 0; i < n; i++ {
		kind := g.pick(ownerKinds...)
		if g.chance(0.08) {
			kind = g.junk()
		}
		name := g.pick("app", "web", "dp-xxx-5d4f8", "dp-xxx", "sts-xxx", "crd-xxx", "", "-", "a-", "noDash")
		if g.chance(0.1) {
			name = g.junk()
		}
		out = append(out, metav1.OwnerReference{Kind: kind, Name: name, APIVersion: g.pick("apps/v1", "v2", "", "test.org/v2")})
	}
	return out
}

// genPod builds a pod with hostile metadata. class/tag describe the args annotation.
func genPod(g *G, idx int) (pod *corev1.Pod, class, tag string) {
	name := g.pick("app-0", "web-1", "sts-xxx-0", "sts-xxx-12", "dp-xxx-5d4f8-abcde", "crd-xxx-0", "single", "app-99999999999", "app--1")
	if g.chance(0.12) {
		name = g.junk()
	}
	ns := g.pick(nsNames...)
	if g.chance(0.08) {
		ns = g.junk()
	}
	pod = &corev1.Pod{ObjectMeta: metav1.ObjectMeta{Name: name, Namespace: ns, UID: types.UID(fmt.Sprintf("uid-%d", idx)),
		Labels: map[string]string{"app": g.pick(appNames...)}}}
	if g.chance(0.05) {
		pod.UID = ""
	}
	pod.OwnerReferences = genOwners(g)
	ann := map[string]string{}
	text, class, tag, ok := genArgs(g)
	if ok {
		if !rangesOK(text) {
			text, class = `{"request_ip_range":[["10.49.27.216~10.49.27.218"]]}`, "args-ranges"
		}
		ann[constant.ExtendedCNIArgsAnnotation] = text
	}
	if g.chance(0.45) {
		ann[constant.ReleasePolicyAnnotation] = g.pick("immutable", "never", "", "Immutable", "NEVER", "always", g.junk())
	}
	if g.chance(0.25) {
		ann[constant.IPPoolAnnotation] = g.pick("pool1", "pool2", "", "p_1", "pool__x", g.junk())
	}
	if g.chance(0.1) {
		ann[g.junk()] = g.junk()
	}
	if len(ann) > 0 || g.chance(0.5) {
		pod.Annotations = ann
	}
	pod.Spec = eniPodSpec(!g.chance(0.06))
	pod.Status.Phase = corev1.PodPhase(g.pick("Pending", "Running", "Running", "Failed", "Succeeded", "", "Unknown"))
	if g.chance(0.3) {
		pod.Spec.NodeName = g.pick("n-27", "n-173", "n-01", "n-top", "n-bot", "n-noip", "ghost")
	}
	if g.chance(0.3) {
		pod.Status.PodIP = g.ip4()
	}
	return
}

func genNodes(g *G, base []corev1.Node) []corev1.Node {
	n := g.intn(6)
	var out []corev1.Node
	for i := 0; i < n; i++ {
		if g.chance(0.8) {
			out = append(out, base[g.intn(len(base))])
			continue
		}
		nd := corev1.Node{ObjectMeta: metav1.ObjectMeta{Name: g.pick("ghost", "", "n-27", g.junk())}}
		na := g.intn(3)
		for j := 0; j < na; j++ {
			nd.Status.Addresses = append(nd.Status.Addresses, corev1.NodeAddress{
				Type:    corev1.NodeAddressType(g.pick("InternalIP", "InternalIP", "ExternalIP", "Hostname", "")),
				Address: g.pick(g.ip4(), g.ip6(), g.junk(), "", "10.49.27.3/24", "999.1.1.1", " 10.49.27.3")})
		}
		out = append(out, nd)
	}
	return out
}

type surf1 struct {
	c *child
	e *ipamEnv
}

func (s *surf1) setup(c *child) error {
	s.c = c
	var err error
	s.e, err = newIPAMEnv(ipamEnvOpts{cloudProvider: (c.t.Start/batchSize)%2 == 1})
	return err
}

func (s *surf1) close() { s.e.close() }

func (s *surf1) timeout(in *Input) time.Duration { return 10 * time.Second }

func (s *surf1) gen(idx int) *Input {
	g := newG(s.c.t.Seed, 1, idx, s.c.t.Total)
	pod, class, tag := genPod(g, idx)
	d := &podIn{pod: pod, nodes: genNodes(g, s.e.nodes)}
	op := ""
	switch k := g.intn(100); {
	case k < 42:
		op = "Filter"
	case k < 52:
		op = "Bind"
	case k < 58:
		op = "Filter+Bind"
	case k < 72:
		op = "UpdatePod"
	case k < 78:
		op = "DeletePod"
	case k < 88:
		op = "VerifUnbind"
	case k < 94:
		op = "VerifResyncOnce"
	default:
		op = "VerifSyncPodIPs"
	}
	if tag != "" {
		// make sure the extreme value reaches the code that walks ranges
		op = g.pick("Filter", "Filter", "Bind")
		pod.Spec = eniPodSpec(true)
		pod.OwnerReferences = []metav1.OwnerReference{{Kind: "StatefulSet", Name: "sts-xxx"}}
		pod.Name, pod.Namespace = "sts-xxx-0", "ns1"
		pod.Annotations = map[string]string{constant.ExtendedCNIArgsAnnotation: pod.Annotations[constant.ExtendedCNIArgsAnnotation]}
		d.nodes = s.e.nodes[:3]
	}
	var fault *faultSpec
	if tag == "" && g.chance(0.02) {
		// a Running pod whose args annotation names a configured address that is free in memory: pod-ip sync allocates
		// that specific address (AllocateSpecificIP), i.e. writes a FloatingIP object; often that write fails once
		class = "sync-free-ip"
		op = g.pick("UpdatePod", "VerifSyncPodIPs")
		ip := g.pick("10.0.70.5", "10.0.70.9", "10.0.70.12", "10.0.70.18", "10.173.13.11", "10.49.27.217", "255.255.255.250", "0.0.0.5")
		d.freeIP = ip
		pod.Name, pod.Namespace = g.pick("sts-xxx-0", "sts-xxx-1", "web-1"), "ns1"
		pod.OwnerReferences = []metav1.OwnerReference{{Kind: "StatefulSet", Name: "sts-xxx"}}
		pod.Spec = eniPodSpec(true)
		pod.Spec.NodeName = "n-01"
		pod.Status.Phase = corev1.PodRunning
		pod.Annotations = map[string]string{constant.ExtendedCNIArgsAnnotation: fmt.Sprintf(
			`{"common":{"ipinfos":[{"ip":"%s/24","vlan":0,"gateway":"10.0.70.1"}]}}`, ip)}
		if g.chance(0.3) {
			pod.Annotations[constant.ReleasePolicyAnnotation] = g.pick("immutable", "never")
		}
		if g.chance(0.6) {
			fault = &faultSpec{Verb: "create", Resource: "floatingips", Nth: 1, Err: g.pick("internal", "already-exists", "plain")}
		}
	}
	if fault == nil && tag == "" {
		fault = genFault(g, 0.12)
	}
	d.node = g.pick("n-27", "n-173", "n-01", "n-top", "n-bot")
	if g.chance(0.1) {
		d.node = g.pick("n-noip", "n-junk", "n-out", "ghost", "", g.junk())
	}
	switch op {
	case "Bind", "Filter+Bind":
		d.staged = true
		pod.Spec.NodeName = ""
		if g.chance(0.07) {
			d.staged = false // binding a pod the lister does not know
		}
	case "UpdatePod":
		old := pod.DeepCopy()
		old.Status.Phase = corev1.PodPhase(g.pick("Pending", "Running", "Failed", ""))
		d.oldPod = old
	case "VerifSyncPodIPs", "VerifResyncOnce":
		d.staged = g.chance(0.8)
		d.keepPod = g.chance(0.3)
	}
	if class == "sync-free-ip" && op == "VerifSyncPodIPs" {
		d.staged, d.keepPod = true, false
	}
	show := map[string]interface{}{"pod": showPod(pod)}
	if d.freeIP != "" {
		show["address_free_in_memory_before_call"] = d.freeIP
	}
	switch op {
	case "Filter", "Filter+Bind":
		show["nodes"] = showNodes(d.nodes)
	}
	if strings.Contains(op, "Bind") {
		show["bind_node"] = d.node
		show["pod_in_lister"] = d.staged
	}
	if d.oldPod != nil {
		show["old_phase"] = string(d.oldPod.Status.Phase)
	}
	if op == "VerifSyncPodIPs" || op == "VerifResyncOnce" {
		show["pod_in_lister"] = d.staged
	}
	if fault != nil {
		show["api_fault"] = fault
	}
	return &Input{Class: class, Tag: tag, Op: op, Show: show, Fault: fault, data: d}
}

// stagePod puts the pod into the fake API store and waits for the plugin's lister to see it.
func stagePod(e *ipamEnv, pod *corev1.Pod) bool {
	if _, err := e.kube.CoreV1().Pods(pod.Namespace).Create(gocontext.TODO(), pod.DeepCopy(), metav1.CreateOptions{}); err != nil {
		return false
	}
	return waitFor(func() bool {
		p, err := e.ctx.PodLister.Pods(pod.Namespace).Get(pod.Name)
		return err == nil && p.UID == pod.UID
	})
}

func unstagePod(e *ipamEnv, pod *corev1.Pod) {
	_ = e.kube.CoreV1().Pods(pod.Namespace).Delete(gocontext.TODO(), pod.Name, metav1.DeleteOptions{})
	waitFor(func() bool {
		_, err := e.ctx.PodLister.Pods(pod.Namespace).Get(pod.Name)
		return err != nil
	})
}

func classifyErr(err error) (string, string) {
	if err == nil {
		return outResult, ""
	}
	msg := err.Error()
	if strings.Contains(msg, "unmarshal pod cni args") || strings.Contains(msg, "unsupported app type") {
		return outDecode, msg
	}
	return outError, msg
}

func wantsENI(pod *corev1.Pod) bool {
	for _, c := range pod.Spec.Containers {
		if _, ok := c.Resources.Requests[corev1.ResourceName(constant.ResourceName)]; ok {
			return true
		}
	}
	return false
}

func (s *surf1) call(in *Input) (string, string) {
	d := in.data.(*podIn)
	e := s.e
	pod := d.pod
	staged := false
	if d.staged {
		staged = stagePod(e, pod)
		if staged && !d.keepPod {
			defer unstagePod(e, pod)
		}
	}
	if d.freeIP != "" {
		// staging: the annotated address is free in memory (whoever held it from earlier inputs gives it back)
		ipam := e.plugin.GetIpam()
		if f, err := ipam.ByIP(net.ParseIP(d.freeIP)); err == nil && f.Key != "" {
			_, _, _ = ipam.ReleaseIPs(map[string]string{d.freeIP: f.Key})
		}
	}
	e.fault.arm(in.Fault)
	defer e.fault.disarm()
	trivial := !wantsENI(pod)
	fin := func(err error) (string, string) {
		o, m := classifyErr(err)
		if trivial && o == outResult {
			return outTrivial, m
		}
		return o, m
	}
	switch in.Op {
	case "Filter":
		ok, failed, err := e.plugin.Filter(pod, d.nodes)
		o, m := fin(err)
		return o, fmt.Sprintf("%s filtered=%d failed=%d", m, len(ok), len(failed))
	case "Bind":
		err := e.plugin.Bind(&schedulerapi.ExtenderBindingArgs{PodName: pod.Name, PodNamespace: pod.Namespace, PodUID: pod.UID, Node: d.node})
		_, _ = e.drainReleaseEvents()
		return classifyErr(err)
	case "Filter+Bind":
		ok, _, err := e.plugin.Filter(pod, d.nodes)
		if err != nil {
			return fin(err)
		}
		node := d.node
		if len(ok) > 0 {
			node = ok[0].Name
		}
		err = e.plugin.Bind(&schedulerapi.ExtenderBindingArgs{PodName: pod.Name, PodNamespace: pod.Namespace, PodUID: pod.UID, Node: node})
		_, _ = e.drainReleaseEvents()
		return classifyErr(err)
	case "UpdatePod":
		err := e.plugin.UpdatePod(d.oldPod, pod)
		n, uerr := e.drainReleaseEvents()
		if err == nil {
			err = uerr
		}
		o, m := fin(err)
		return o, fmt.Sprintf("%s release_events=%d", m, n)
	case "DeletePod":
		err := e.plugin.DeletePod(pod)
		n, uerr := e.drainReleaseEvents()
		if err == nil {
			err = uerr
		}
		o, m := fin(err)
		return o, fmt.Sprintf("%s release_events=%d", m, n)
	case "VerifUnbind":
		return classifyErr(e.plugin.VerifUnbind(pod))
	case "VerifResyncOnce":
		return classifyErr(e.plugin.VerifResyncOnce())
	case "VerifSyncPodIPs":
		e.plugin.VerifSyncPodIPs()
		return outResult, ""
	}
	return outEnv, "unknown op"
}

func (s *surf1) probe(in *Input, step func(string)) {
	s.e.fault.disarm()
	s.e.flushFaultCounters(s.c)
	d := in.data.(*podIn)
	s.e.probe(d.pod, step)
}
