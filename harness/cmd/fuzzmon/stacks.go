package main

import (
	"regexp"
	"runtime"
	"strings"
)

const (
	galaxyPrefix = "tkestack.io/galaxy/"
	dumpMarker   = "=== FUZZMON DUMP "
	dumpEnd      = "=== FUZZMON END OF DUMPS ==="
)

var closureRe = regexp.MustCompile(`\.func\d+(\.\d+)*$`)

// shortFunc renders "tkestack.io/galaxy/pkg/galaxy.(*Galaxy).resolveNetworks" as "galaxy.(*Galaxy).resolveNetworks".
func shortFunc(f string) string {
	if i := strings.LastIndex(f, "/"); i >= 0 {
		f = f[i+1:]
	}
	return f
}

func isRuntimeFrame(f string) bool {
	for _, p := range []string{"runtime.", "runtime/", "sync.", "sync/", "internal/", "syscall.", "time.", "panic", "reflect."} {
		if strings.HasPrefix(f, p) {
			return true
		}
	}
	return strings.HasPrefix(f, "k8s.io/apimachinery/pkg/util/runtime.")
}

// isHarnessFrame: code of this harness or of the fake clientsets (environment, not code under test).
func isHarnessFrame(f string) bool {
	if strings.HasPrefix(f, "main.") || strings.HasPrefix(f, "verif/harness/") {
		return true
	}
	if strings.HasPrefix(f, "k8s.io/client-go/testing.") || strings.Contains(f, "/fake.") || strings.Contains(f, "/fake/") {
		return true
	}
	// the fake watch channel of the object tracker (panics with "channel full" when an informer lags a burst)
	if strings.HasPrefix(f, "k8s.io/apimachinery/pkg/watch.(*RaceFreeFakeWatcher)") || strings.HasPrefix(f, "k8s.io/apimachinery/pkg/watch.(*FakeWatcher)") {
		return true
	}
	return false
}

// isGalaxyFrame: code under test, i.e. the galaxy module without its generated fake clientsets.
func isGalaxyFrame(f string) bool {
	return strings.HasPrefix(f, galaxyPrefix) && !strings.Contains(f, "/fake.") && !strings.Contains(f, "/fake/")
}

// goroutineBlock is one goroutine of a traceback.
type goroutineBlock struct {
	header string
	funcs  []string // top of stack first
	text   string
}

// parseGoroutines parses the text of a Go traceback (panic output or pprof goroutine profile, debug=2).
func parseGoroutines(text string) []goroutineBlock {
	var out []goroutineBlock
	var cur *goroutineBlock
	flush := func() {
		if cur != nil {
			out = append(out, *cur)
			cur = nil
		}
	}
	for _, line := range strings.Split(text, "\n") {
		if strings.HasPrefix(line, "goroutine ") && strings.HasSuffix(strings.TrimSpace(line), ":") {
			flush()
			cur = &goroutineBlock{header: line, text: line + "\n"}
			continue
		}
		if cur == nil {
			continue
		}
		if strings.TrimSpace(line) == "" {
			flush()
			continue
		}
		cur.text += line + "\n"
		if strings.HasPrefix(line, "\t") || strings.HasPrefix(line, "created by ") || strings.HasPrefix(line, "...") {
			continue
		}
		fn := line
		if i := strings.LastIndex(fn, "("); i > 0 {
			fn = fn[:i]
		}
		cur.funcs = append(cur.funcs, strings.TrimSpace(fn))
	}
	flush()
	return out
}

type dumpClass struct {
	verdict      string // wedged-in-galaxy | no-galaxy-frames | parked-in-harness | call-goroutine-not-found | no-dump
	dumps        int
	commonFrame  string   // innermost non-closure galaxy frame present in every dump
	galaxyFrames []string // galaxy frames of the call goroutine in the first dump, top first
	stack        string   // text of the call goroutine in the first dump
}

// classifyDumps reads the watchdog's goroutine dumps from the child's stderr.
func classifyDumps(stderr string) dumpClass {
	var sections []string
	rest := stderr
	for {
		i := strings.Index(rest, dumpMarker)
		if i < 0 {
			break
		}
		rest = rest[i+len(dumpMarker):]
		j := strings.Index(rest, dumpMarker)
		k := strings.Index(rest, dumpEnd)
		end := len(rest)
		if j >= 0 && j < end {
			end = j
		}
		if k >= 0 && k < end {
			end = k
		}
		sections = append(sections, rest[:end])
		rest = rest[end:]
	}
	if len(sections) == 0 {
		return dumpClass{verdict: "no-dump"}
	}
	cl := dumpClass{dumps: len(sections)}
	var perDump [][]string
	verdict := "wedged-in-galaxy"
	found := false
	for n, sec := range sections {
		var call *goroutineBlock
		blocks := parseGoroutines(sec)
		for i := range blocks {
			for _, f := range blocks[i].funcs {
				if strings.HasPrefix(f, "main.(*child).guarded") {
					call = &blocks[i]
				}
			}
			if call != nil {
				break
			}
		}
		if call == nil {
			continue
		}
		found = true
		var above []string
		for _, f := range call.funcs {
			if strings.HasPrefix(f, "main.(*child).guarded") {
				break
			}
			above = append(above, f)
		}
		var galaxy []string
		for _, f := range above {
			if isGalaxyFrame(f) {
				galaxy = append(galaxy, f)
			}
		}
		if n == 0 || cl.stack == "" {
			cl.stack = call.text
			cl.galaxyFrames = galaxy
		}
		if len(galaxy) == 0 {
			verdict = "no-galaxy-frames"
		} else {
			for _, f := range above {
				if isRuntimeFrame(f) {
					continue
				}
				if isHarnessFrame(f) && verdict == "wedged-in-galaxy" {
					verdict = "parked-in-harness"
				}
				break
			}
		}
		perDump = append(perDump, galaxy)
	}
	if !found {
		cl.verdict = "call-goroutine-not-found"
		return cl
	}
	cl.verdict = verdict
	if len(perDump) > 0 {
		for _, cand := range perDump[0] {
			if closureRe.MatchString(cand) {
				continue
			}
			all := true
			for _, other := range perDump[1:] {
				has := false
				for _, f := range other {
					if f == cand {
						has = true
						break
					}
				}
				if !has {
					all = false
					break
				}
			}
			if all {
				cl.commonFrame = cand
				break
			}
		}
	}
	return cl
}

type crashInfo struct {
	kind       string // panic | fatal | ""
	fatalClass string
	headline   string
	origin     string // first frame that is not runtime / panic plumbing
	topGalaxy  string
	stack      string
}

var slugRe = regexp.MustCompile(`[^a-z0-9]+`)

// parseCrash extracts the Go crash report (unrecovered panic or fatal error) from a dead child's stderr.
func parseCrash(stderr string) crashInfo {
	var ci crashInfo
	pi := strings.LastIndex(stderr, "\npanic: ")
	fi := strings.LastIndex(stderr, "\nfatal error: ")
	if strings.HasPrefix(stderr, "panic: ") && pi < 0 {
		pi = 0
	}
	if strings.HasPrefix(stderr, "fatal error: ") && fi < 0 {
		fi = 0
	}
	// a panic report may be followed by "[recovered]" re-panics; take the earliest of the final report
	start := -1
	if pi >= 0 {
		// first "panic: " line of the last contiguous report: walk back over repeated panic lines
		start = strings.Index(stderr, "\npanic: ")
		if strings.HasPrefix(stderr, "panic: ") {
			start = 0
		}
		ci.kind = "panic"
	}
	if fi >= 0 && (start < 0 || fi < start) {
		start = fi
		ci.kind = "fatal"
	}
	if start < 0 {
		return ci
	}
	report := strings.TrimLeft(stderr[start:], "\n")
	lines := strings.SplitN(report, "\n", 2)
	ci.headline = strings.TrimSpace(lines[0])
	if len(ci.headline) > 300 {
		ci.headline = ci.headline[:300]
	}
	if ci.kind == "fatal" {
		msg := strings.ToLower(strings.TrimPrefix(ci.headline, "fatal error: "))
		ci.fatalClass = strings.Trim(slugRe.ReplaceAllString(msg, "-"), "-")
		if len(ci.fatalClass) > 40 {
			ci.fatalClass = ci.fatalClass[:40]
		}
	}
	blocks := parseGoroutines(report)
	if len(blocks) == 0 {
		return ci
	}
	b := blocks[0]
	// prefer the goroutine marked running
	for _, x := range blocks {
		if strings.Contains(x.header, "[running]") {
			b = x
			break
		}
	}
	ci.stack = b.text
	for _, f := range b.funcs {
		if ci.origin == "" && !isRuntimeFrame(f) {
			ci.origin = f
		}
		if ci.topGalaxy == "" && isGalaxyFrame(f) {
			ci.topGalaxy = f
		}
	}
	return ci
}

// panicInfo describes a panic recovered at the surface boundary.
type panicInfo struct {
	value     string
	origin    string
	topGalaxy string
	stack     string
}

// capturePanic must be called from the deferred function that recovered r.
func capturePanic(r interface{}, stack []byte) *panicInfo {
	pi := &panicInfo{stack: string(stack)}
	pi.value = truncate(strings.ToValidUTF8(sprint(r), "?"), 500)
	pcs := make([]uintptr, 200)
	n := runtime.Callers(2, pcs)
	frames := runtime.CallersFrames(pcs[:n])
	passedPanic := false
	for {
		fr, more := frames.Next()
		fn := fr.Function
		if !passedPanic {
			if fn == "runtime.gopanic" {
				passedPanic = true
			}
		} else {
			if strings.HasPrefix(fn, "main.(*child).guarded") {
				break
			}
			if pi.origin == "" && !isRuntimeFrame(fn) {
				pi.origin = fn
			}
			if pi.topGalaxy == "" && isGalaxyFrame(fn) {
				pi.topGalaxy = fn
			}
		}
		if !more {
			break
		}
	}
	return pi
}
