package main

import (
	"encoding/json"
	"fmt"
	"os"
	"path/filepath"
	"runtime/debug"
	"runtime/pprof"
	"sort"
	"sync"
	"sync/atomic"
	"time"

	"k8s.io/apimachinery/pkg/watch"
	"verif/harness/evid"
)

// Input is one generated input. It is a pure function of (seed, surface, index, total).
type Input struct {
	Idx   int
	Class string      // generator class
	Tag   string      // optional: names the extreme value the class is about (used in hang signatures)
	Op    string      // entry point(s) driven
	Show  interface{} // JSON-able rendering: enough to re-create the input by hand
	Fault *faultSpec  // optional single API-server fault that is part of the input's environment (surfaces 1-4)
	data  interface{} // typed payload for call()
}

// outcome classes of a call
const (
	outResult = "result"       // returned a result
	outError  = "error"        // returned an error after the first decode
	outDecode = "decode_error" // rejected by the first decode
	outEnv    = "env_error"    // the harness could not stage the input (not counted as evaluated behaviour)
)

// surface is one fuzzed surface: an instance of the real code plus its generator.
type surface interface {
	setup(c *child) error
	gen(idx int) *Input
	call(in *Input) (outcome string, detail string)
	// probe runs the follow-up calls on the same instance; it names each step before taking it
	probe(in *Input, step func(string))
	timeout(in *Input) time.Duration
	close()
}

type journalLine struct {
	Idx   int         `json:"idx"`
	Phase string      `json:"phase"`
	Class string      `json:"class"`
	Tag   string      `json:"tag,omitempty"`
	Op    string      `json:"op"`
	Input interface{} `json:"input,omitempty"`
}

type hangInfo struct {
	Idx              int    `json:"idx"`
	Phase            string `json:"phase"`
	Step             string `json:"step"`
	Timeout          string `json:"timeout"`
	SecondaryBlocked bool   `json:"secondary_blocked"`
	SecondaryStep    string `json:"secondary_step"`
}

type child struct {
	dir     string
	t       task
	run     *evid.Run
	s       surface
	journal *os.File
	pid     int

	wdMu     sync.Mutex
	wdTimer  *time.Timer
	wdGen    int64
	curIn    *Input
	curPhase string
	curStep  atomic.Value // string

	viol    map[string][]evid.Violation
	obsSent map[string]bool
}

// observationPrefix marks entries of a child's partial that the parent files under "observations" instead of violations.
const observationPrefix = "observation:"

// undeliverableClass: generator classes outside C18's statement (pods, HTTP requests, valid NetworkPolicies, CNI requests,
// configuration text) whose objects a real API server cannot deliver (apps/v1 defaulting sets spec.replicas, apiextensions
// v1 validation requires a version). They are still generated; panics on them are observations.
var undeliverableClass = map[string]bool{"deployment-nil-replicas": true, "crd-no-versions": true}

func newSurface(n int) surface {
	switch n {
	case 1:
		return &surf1{}
	case 2:
		return &surf2{}
	case 3:
		return &surf3{}
	case 4:
		return &surf4{}
	case 5:
		return &surf5{}
	case 6:
		return &surf6{}
	}
	return nil
}

func childMain(dir string) int {
	// a runaway recursion should die quickly and cheaply, not after eating 1 GB
	debug.SetMaxStack(128 << 20)
	// the object trackers of the fake clientsets panic ("channel full") when a watcher lags more than this many events
	// behind; the API server has no such limit, so a burst of writes must not look like a crash
	watch.DefaultChanSize = 1 << 14
	os.Setenv("MY_NODE_NAME", "fznode")
	data, err := os.ReadFile(filepath.Join(dir, "task.json"))
	if err != nil {
		fmt.Fprintln(os.Stderr, "child: cannot read task:", err)
		return exitSetup
	}
	c := &child{dir: dir, pid: os.Getpid(), viol: map[string][]evid.Violation{}, obsSent: map[string]bool{}}
	if err := json.Unmarshal(data, &c.t); err != nil {
		fmt.Fprintln(os.Stderr, "child: bad task:", err)
		return exitSetup
	}
	c.curStep.Store("")
	c.run = evid.NewRun(c.t.Prop, c.t.Tier, c.t.Seed, "exploration", "fuzzmon")
	c.journal, err = os.OpenFile(filepath.Join(dir, "journal.jsonl"), os.O_CREATE|os.O_WRONLY|os.O_APPEND, 0644)
	if err != nil {
		fmt.Fprintln(os.Stderr, "child: cannot open journal:", err)
		return exitSetup
	}
	c.s = newSurface(c.t.Surface)
	if c.s == nil {
		fmt.Fprintln(os.Stderr, "child: unknown surface", c.t.Surface)
		return exitSetup
	}
	if err := c.setupGuarded(); err != nil {
		fmt.Fprintln(os.Stderr, "child: setup failed:", err)
		return exitSetup
	}
	sname := fmt.Sprintf("surface%d", c.t.Surface)
	trace := os.Getenv("FUZZMON_TRACE") != ""
	for idx := c.t.Start; idx < c.t.End; idx++ {
		in := c.s.gen(idx)
		in.Idx = idx
		c.writeJournal(in, "call")
		c.arm(in, "call", c.s.timeout(in))
		out, detail, pv := c.guardedCall(in)
		c.disarm()

		if trace {
			fmt.Fprintf(os.Stderr, "FUZZMON-TRACE %s idx=%d class=%s op=%s out=%s panic=%v detail=%s\n", sname, idx, in.Class, in.Op, out, pv != nil,
				truncate(detail, 300))
		}
		c.run.Eval(1)
		c.run.Count("inputs_"+sname, 1)
		c.run.Count("class_"+sname+"_"+in.Class, 1)
		c.run.Count("op_"+sname+"_"+in.Op, 1)
		if pv != nil {
			out = "panic"
			c.recordPanic(in, pv, "call")
		}
		c.run.Count("outcome_"+sname+"_"+out, 1)
		switch out {
		case outResult:
			c.run.Count("results_returned", 1)
		case outError, outDecode:
			c.run.Count("errors_returned", 1)
		}
		if out == outResult || out == outError || out == "panic" {
			c.run.Nontrivial(sname + "|" + in.Class + "|" + in.Op + "|" + out)
		}
		if idx == 0 {
			c.run.Sample(map[string]interface{}{"surface": sname, "class": in.Class, "op": in.Op, "input": in.Show,
				"outcome": out, "detail": truncate(detail, 300)})
		}

		// "does not keep a lock held": follow-up probe on the same instance, also after errors and panics
		c.writeJournal(in, "probe")
		c.arm(in, "probe", 10*time.Second)
		ppv := c.guardedProbe(in)
		c.disarm()
		c.run.Count("probes_run", 1)
		if pv != nil {
			c.run.Count("probes_run_after_panic", 1)
		}
		if out == outError || out == outDecode {
			c.run.Count("probes_run_after_error", 1)
		}
		if ppv != nil {
			c.recordPanic(in, ppv, "probe")
		}
		if (idx-c.t.Start)%20 == 19 {
			// checkpoint: a fatal error kills the process without warning; what was observed so far must survive it
			c.flushViolations()
			c.writePartial()
		}
	}
	c.s.close()
	if n := atomic.LoadInt64(&barrierTimeouts); n > 0 {
		c.run.Count("harness_barrier_timeouts", n)
	}
	c.flushViolations()
	if err := c.writePartial(); err != nil {
		fmt.Fprintln(os.Stderr, "child: cannot write partial:", err)
		return exitSetup
	}
	return 0
}

// writePartial replaces partial.json atomically.
func (c *child) writePartial() error {
	tmp := filepath.Join(c.dir, "partial.tmp")
	if err := c.run.WritePartial(tmp); err != nil {
		return err
	}
	return os.Rename(tmp, filepath.Join(c.dir, "partial.json"))
}

func (c *child) setupGuarded() (err error) {
	defer func() {
		if r := recover(); r != nil {
			err = fmt.Errorf("panic during setup: %v\n%s", r, debug.Stack())
		}
	}()
	done := make(chan error, 1)
	go func() {
		defer func() {
			if r := recover(); r != nil {
				done <- fmt.Errorf("panic during setup: %v\n%s", r, debug.Stack())
			}
		}()
		done <- c.s.setup(c)
	}()
	select {
	case err = <-done:
		return err
	case <-time.After(120 * time.Second):
		_ = pprof.Lookup("goroutine").WriteTo(os.Stderr, 2)
		return fmt.Errorf("setup did not finish in 120 s")
	}
}

func (c *child) writeJournal(in *Input, phase string) {
	jl := journalLine{Idx: in.Idx, Phase: phase, Class: in.Class, Tag: in.Tag, Op: in.Op}
	if phase == "call" {
		jl.Input = in.Show
	} else {
		jl.Input = in.Show
	}
	data, err := json.Marshal(jl)
	if err != nil {
		data, _ = json.Marshal(journalLine{Idx: in.Idx, Phase: phase, Class: in.Class, Op: in.Op, Input: fmt.Sprintf("%v", in.Show)})
	}
	data = append(data, '\n')
	_, _ = c.journal.Write(data) // one write(2): in the page cache before the call starts, survives the process
}

// guardedCall is the surface boundary for calls: panics are recovered here. Its name is what the parent looks for in
// goroutine dumps.
func (c *child) guardedCall(in *Input) (out, detail string, pv *panicInfo) {
	defer func() {
		if r := recover(); r != nil {
			pv = capturePanic(r, debug.Stack())
		}
	}()
	out, detail = c.s.call(in)
	return
}

// guardedProbe is the surface boundary for lock probes.
func (c *child) guardedProbe(in *Input) (pv *panicInfo) {
	defer func() {
		if r := recover(); r != nil {
			pv = capturePanic(r, debug.Stack())
		}
	}()
	c.s.probe(in, func(s string) { c.curStep.Store(s) })
	c.curStep.Store("")
	return
}

func sprint(v interface{}) string { return fmt.Sprintf("%v", v) }

func (c *child) recordPanic(in *Input, pv *panicInfo, phase string) {
	sname := fmt.Sprintf("surface%d", c.t.Surface)
	c.run.Count("panics", 1)
	c.run.Count("panics_recovered_at_surface_boundary", 1)
	if pv.topGalaxy == "" || isHarnessFrame(pv.origin) {
		// not a statement about galaxy: make the run inconclusive so that the machinery gets fixed
		c.run.Count("harness_panics", 1)
		c.run.Inconclusive(fmt.Sprintf("panic outside galaxy code at %s input %d (%s, origin %s): %s", sname, in.Idx, phase, pv.origin,
			truncate(pv.value, 200)))
		fmt.Fprintf(os.Stderr, "FUZZMON harness panic at %s input %d: %s\n%s\n", sname, in.Idx, pv.value, pv.stack)
		return
	}
	if undeliverableClass[in.Class] {
		// C18's statement does not cover these objects and a defaulting / validating API server never delivers them:
		// the panic is recorded as an observation, not as a violation
		c.run.Count("obs_panic_undeliverable_"+in.Class, 1)
		if !c.obsSent[in.Class] {
			c.obsSent[in.Class] = true
			c.run.Violate(evid.Violation{Sig: observationPrefix + in.Class, Case: fmt.Sprintf("%d:%s:%d", c.t.Seed, sname, in.Idx),
				Msg: fmt.Sprintf("%s of %s input %d (class %s) panicked in %s: %s", in.Op, sname, in.Idx, in.Class, pv.topGalaxy, pv.value),
				Witness: map[string]interface{}{"input": in.Show, "surface": c.t.Surface, "idx": in.Idx, "op": in.Op, "class": in.Class,
					"phase": phase, "panic": pv.value, "top_galaxy_frame": pv.topGalaxy, "stack": truncate(pv.stack, 3000)}})
		}
		return
	}
	sig := fmt.Sprintf("panic-%s-%s", sname, shortFunc(pv.topGalaxy))
	if phase == "probe" {
		sig = fmt.Sprintf("panic-%s-probe-%s", sname, shortFunc(pv.topGalaxy))
	}
	sig = sigSafe(sig)
	c.run.Count("sigcount:"+sig, 1)
	v := evid.Violation{Sig: sig, Case: fmt.Sprintf("%d:%s:%d", c.t.Seed, sname, in.Idx),
		Msg: fmt.Sprintf("%s of %s input %d (class %s) panicked in %s: %s", in.Op, sname, in.Idx, in.Class, pv.topGalaxy, pv.value),
		Witness: map[string]interface{}{"input": in.Show, "surface": c.t.Surface, "idx": in.Idx, "op": in.Op, "class": in.Class,
			"phase": phase, "panic": pv.value, "top_galaxy_frame": pv.topGalaxy, "origin_frame": pv.origin,
			"stack": truncate(pv.stack, 5000), "batch_start": c.t.Start}}
	l := append(c.viol[sig], v)
	sort.SliceStable(l, func(i, j int) bool { return witnessSize(l[i]) < witnessSize(l[j]) })
	if len(l) > 3 {
		l = l[:3]
	}
	c.viol[sig] = l
}

func (c *child) flushViolations() {
	for _, l := range c.viol {
		for _, v := range l {
			c.run.Violate(v)
		}
	}
	c.viol = map[string][]evid.Violation{}
}

// arm starts the watchdog for one call or probe.
func (c *child) arm(in *Input, phase string, d time.Duration) {
	c.wdMu.Lock()
	defer c.wdMu.Unlock()
	c.wdGen++
	gen := c.wdGen
	c.curIn, c.curPhase = in, phase
	c.wdTimer = time.AfterFunc(d, func() { c.expired(gen, d) })
}

func (c *child) disarm() {
	c.wdMu.Lock()
	defer c.wdMu.Unlock()
	c.wdGen++
	if c.wdTimer != nil {
		c.wdTimer.Stop()
		c.wdTimer = nil
	}
}

// expired runs on the timer goroutine: the guarded call or probe has not returned.
func (c *child) expired(gen int64, d time.Duration) {
	c.wdMu.Lock()
	if gen != c.wdGen {
		c.wdMu.Unlock()
		return
	}
	in, phase := c.curIn, c.curPhase
	c.wdMu.Unlock()
	step, _ := c.curStep.Load().(string)
	h := hangInfo{Idx: in.Idx, Phase: phase, Step: step, Timeout: d.String()}
	if phase == "call" {
		// is a lock of the instance held while the call spins? probe from another goroutine, bounded
		var secStep atomic.Value
		secStep.Store("")
		done := make(chan struct{})
		go func() {
			defer func() { _ = recover(); close(done) }()
			c.s.probe(in, func(s string) { secStep.Store(s) })
		}()
		select {
		case <-done:
		case <-time.After(2 * time.Second):
			h.SecondaryBlocked = true
			h.SecondaryStep, _ = secStep.Load().(string)
		}
	}
	const dumps = 5
	for k := 1; k <= dumps; k++ {
		fmt.Fprintf(os.Stderr, "\n%s%d/%d ===\n", dumpMarker, k, dumps)
		_ = pprof.Lookup("goroutine").WriteTo(os.Stderr, 2)
		time.Sleep(time.Duration(40+17*k) * time.Millisecond)
	}
	fmt.Fprintf(os.Stderr, "\n%s\n", dumpEnd)
	data, _ := json.Marshal(h)
	_ = os.WriteFile(filepath.Join(c.dir, "hang.json"), data, 0644)
	c.flushViolations()
	_ = c.writePartial()
	os.Exit(exitWatchdog)
}
