package main

import (
	gocontext "context"
	"fmt"
	"net"
	"net/url"
	"strings"
	"time"

	appsv1 "k8s.io/api/apps/v1"
	corev1 "k8s.io/api/core/v1"
	extv1 "k8s.io/apiextensions-apiserver/pkg/apis/apiextensions/v1"
	metav1 "k8s.io/apimachinery/pkg/apis/meta/v1"
	"k8s.io/apimachinery/pkg/apis/meta/v1/unstructured"
	"k8s.io/apimachinery/pkg/runtime"
	"k8s.io/apimachinery/pkg/runtime/schema"
	"tkestack.io/galaxy/pkg/api/galaxy/constant"
	"tkestack.io/galaxy/pkg/ipam/apis/galaxy/v1alpha1"
	"tkestack.io/galaxy/pkg/ipam/floatingip"
	"tkestack.io/galaxy/pkg/ipam/schedulerplugin/util"
)

// objIn is one watched object (or a small set of them) plus the pods used to exercise the code that reads it.
type objIn struct {
	kind     string // fip | fip-at-init | pool | deployment | statefulset | crd
	fips     []*v1alpha1.FloatingIP
	pool     *v1alpha1.Pool
	dp       *appsv1.Deployment
	sts      *appsv1.StatefulSet
	crd      *extv1.CustomResourceDefinition
	cr       *unstructured.Unstructured
	crGVR    schema.GroupVersionResource
	pod      *corev1.Pod
	policy   string
	postSize int
	// crd: ask for the replicas first (reaches crdCache.GetReplicas when the kind's GVR is already cached)
	replicasFirst bool
}

type surf3 struct {
	c      *child
	e      *ipamEnv
	reload int
}

func (s *surf3) setup(c *child) error {
	s.c = c
	var err error
	s.e, err = newIPAMEnv(ipamEnvOpts{configMapMode: true})
	if err != nil {
		return err
	}
	seedAllocations(s.e)
	return nil
}

func (s *surf3) close()                          { s.e.close() }
func (s *surf3) timeout(in *Input) time.Duration { return 10 * time.Second }

func genFIPObject(g *G) *v1alpha1.FloatingIP {
	name := g.pick(interestingIPs...)
	switch g.intn(10) {
	case 0:
		name = g.ip6()
	case 1:
		name = g.junk()
	case 2:
		name = g.pick("10.49.27.216/24", "10.49.27", "010.049.027.216", "10.49.27.216 ", "0", "4294967295", "255.255.255.255", "::ffff:10.49.27.216")
	case 3:
		name = u32ip(g.r.Uint32())
	}
	key := g.pick(seedKeys...)
	if g.chance(0.3) {
		key = g.junk()
	}
	f := &v1alpha1.FloatingIP{TypeMeta: metav1.TypeMeta{Kind: constant.ResourceKind, APIVersion: constant.ApiVersion},
		ObjectMeta: metav1.ObjectMeta{Name: name},
		Spec: v1alpha1.FloatingIPSpec{Key: key, Policy: constant.ReleasePolicy([]uint16{0, 1, 2, 3, 7, 65535}[g.intn(6)]),
			Attribute: g.pick("", `{"NodeName":"n-27","Uid":"uid-x"}`, `{"NodeName":"","Uid":""}`, `{"NodeName":1}`, `null`, `[]`, `{`, `"x"`,
				`{"NodeName":"`+strings.Repeat("n", 2000)+`"}`, g.junk())}}
	if g.chance(0.5) {
		f.Spec.UpdateTime = metav1.NewTime(time.Unix(int64(g.intn(2000000000)), 0))
	}
	switch g.intn(5) {
	case 0, 1:
		f.Labels = map[string]string{constant.ReserveFIPLabel: ""}
	case 2:
		f.Labels = map[string]string{constant.ReserveFIPLabel: g.junk(), g.pick("a", "app", "") + "x": g.junk()}
	case 3:
		f.Labels = map[string]string{}
	}
	return f
}

func showFIP(f *v1alpha1.FloatingIP) map[string]interface{} {
	return map[string]interface{}{"name": show(f.Name), "key": show(f.Spec.Key), "policy": uint16(f.Spec.Policy),
		"attribute": show(f.Spec.Attribute), "labels": f.Labels, "updateTime": f.Spec.UpdateTime.String()}
}

func ownedPod(g *G, idx int, kind, owner, name, ns, policy, pool string) *corev1.Pod {
	p := &corev1.Pod{ObjectMeta: metav1.ObjectMeta{Name: name, Namespace: ns, UID: "uid-o",
		OwnerReferences: []metav1.OwnerReference{{Kind: kind, Name: owner}}, Annotations: map[string]string{}}, Spec: eniPodSpec(true)}
	if policy != "" {
		p.Annotations[constant.ReleasePolicyAnnotation] = policy
	}
	if pool != "" {
		p.Annotations[constant.IPPoolAnnotation] = pool
	}
	return p
}

func (s *surf3) gen(idx int) *Input {
	g := newG(s.c.t.Seed, 3, idx, s.c.t.Total)
	d := &objIn{}
	show := map[string]interface{}{}
	class := ""
	ns := g.pick("ns1", "ns2")
	d.policy = g.pick("immutable", "immutable", "never", "")
	switch k := g.intn(100); {
	case k < 38:
		d.kind = "fip"
		d.fips = []*v1alpha1.FloatingIP{genFIPObject(g)}
		class = "fip-object"
		if _, ok := d.fips[0].Labels[constant.ReserveFIPLabel]; ok {
			class = "fip-object-reserved"
		}
		if net.ParseIP(d.fips[0].Name) == nil {
			class += "-non-ip-name"
		}
		show["floatingip"] = showFIP(d.fips[0])
	case k < 46:
		d.kind = "fip-at-init"
		n := 1 + g.intn(4)
		var l []interface{}
		seen := map[string]bool{}
		for i := 0; i < n; i++ {
			f := genFIPObject(g)
			if seen[f.Name] || f.Name == "" {
				continue
			}
			seen[f.Name] = true
			d.fips = append(d.fips, f)
			l = append(l, showFIP(f))
		}
		class = "fip-objects-in-store-at-init"
		show["floatingips"] = l
	case k < 60:
		d.kind = "pool"
		name := g.name([]string{"pool1", "pool2", "p-3"})
		d.pool = &v1alpha1.Pool{TypeMeta: metav1.TypeMeta{Kind: "Pool", APIVersion: constant.ApiVersion},
			ObjectMeta:    metav1.ObjectMeta{Name: name, Namespace: g.pick("kube-system", "kube-system", "kube-system", "ns1")},
			Size:          []int{0, 1, 2, 3, -1, -2147483648, 2147483647, 1 << 40, 40}[g.intn(9)],
			PreAllocateIP: g.chance(0.5)}
		d.postSize = []int{0, 1, 2, 5, -1, 1 << 31}[g.intn(6)]
		d.pod = ownedPod(g, idx, "ReplicaSet", "dp-xxx-5d4f8", "dp-xxx-5d4f8-abcde", ns, d.policy, name)
		class = "pool-object"
		show["pool"] = map[string]interface{}{"name": show_(name), "namespace": d.pool.Namespace, "size": d.pool.Size, "preAllocateIP": d.pool.PreAllocateIP}
		show["post_pool_size"] = d.postSize
	case k < 74:
		d.kind = "deployment"
		d.dp = &appsv1.Deployment{ObjectMeta: metav1.ObjectMeta{Name: "dp-xxx", Namespace: ns}}
		class = "deployment-replicas"
		switch g.intn(6) {
		case 0, 1:
			class = "deployment-nil-replicas"
		case 2:
			v := int32(0)
			d.dp.Spec.Replicas = &v
		case 3:
			v := int32(1 + g.intn(3))
			d.dp.Spec.Replicas = &v
		case 4:
			v := int32(-1)
			d.dp.Spec.Replicas = &v
		default:
			v := int32(2147483647)
			d.dp.Spec.Replicas = &v
		}
		d.pod = ownedPod(g, idx, "ReplicaSet", "dp-xxx-5d4f8", "dp-xxx-5d4f8-abcde", ns, d.policy, g.pick("", "", "pool1"))
		show["deployment"] = map[string]interface{}{"name": "dp-xxx", "namespace": ns, "spec.replicas": d.dp.Spec.Replicas}
	case k < 80:
		d.kind = "statefulset"
		d.sts = &appsv1.StatefulSet{ObjectMeta: metav1.ObjectMeta{Name: "sts-xxx", Namespace: ns}}
		class = "statefulset-nil-replicas"
		if g.chance(0.5) {
			v := int32([]int{0, 1, -1, 2147483647}[g.intn(4)])
			d.sts.Spec.Replicas = &v
			class = "statefulset-replicas"
		}
		d.pod = ownedPod(g, idx, "StatefulSet", "sts-xxx", g.pick("sts-xxx-0", "sts-xxx-5", "sts-xxx-x", "sts-xxx-99999999999999999999"), ns, d.policy, "")
		show["statefulset"] = map[string]interface{}{"name": "sts-xxx", "namespace": ns, "spec.replicas": d.sts.Spec.Replicas}
	default:
		d.kind = "crd"
		group := g.pick(crdGroups...)
		plural := g.pick(crdPlurals...)
		kind := g.pick("Foo", "Bar", "TApp", "")
		d.crd = &extv1.CustomResourceDefinition{ObjectMeta: metav1.ObjectMeta{Name: plural + "." + group},
			Spec: extv1.CustomResourceDefinitionSpec{Group: group, Scope: "Namespaced",
				Names: extv1.CustomResourceDefinitionNames{Kind: kind, Plural: plural, ListKind: kind + "List"}}}
		path := g.pick(".spec.replicas", ".spec.replicas", "spec.replicas", "", ".", "..", ".spec..replicas", ".status", ".spec", ".spec.replicas.x", g.junk())
		switch g.intn(6) {
		case 0:
			class = "crd-no-versions"
		case 1:
			class = "crd-version-without-subresources"
			d.crd.Spec.Versions = []extv1.CustomResourceDefinitionVersion{{Name: "v1alpha1"}}
		case 2:
			class = "crd-empty-subresources"
			d.crd.Spec.Versions = []extv1.CustomResourceDefinitionVersion{{Name: "v1alpha1", Subresources: &extv1.CustomResourceSubresources{}}}
		default:
			class = "crd-scale-subresource"
			d.crd.Spec.Versions = []extv1.CustomResourceDefinitionVersion{{Name: g.pick("v1alpha1", "v2", ""),
				Subresources: &extv1.CustomResourceSubresources{Scale: &extv1.CustomResourceSubresourceScale{SpecReplicasPath: path}}}}
		}
		d.crGVR = schema.GroupVersionResource{Group: group, Version: "v1alpha1", Resource: plural}
		shownCR := interface{}(nil)
		if g.chance(0.75) {
			repl := []interface{}{int64(2), int64(0), int64(-1), "2", 1.5, nil, map[string]interface{}{"x": int64(1)}, []interface{}{int64(1)},
				int64(1) << 40, true}[g.intn(10)]
			spec := map[string]interface{}{"replicas": repl}
			if g.chance(0.15) {
				spec = map[string]interface{}{}
			}
			obj := map[string]interface{}{"apiVersion": strings.TrimPrefix(group+"/v1alpha1", "/"), "kind": kind,
				"metadata": map[string]interface{}{"name": "crd-xxx", "namespace": ns}, "spec": spec}
			if g.chance(0.1) {
				obj["spec"] = g.pick("junk", "")
			}
			d.cr = &unstructured.Unstructured{Object: obj}
			shownCR = obj
		}
		d.pod = ownedPod(g, idx, kind, "crd-xxx", g.pick("crd-xxx-0", "crd-xxx-3", "crd-xxx-x"), ns, d.policy, "")
		d.replicasFirst = g.chance(0.5)
		show["crd"] = map[string]interface{}{"name": d.crd.Name, "group": group, "kind": kind, "plural": plural, "versions": d.crd.Spec.Versions}
		show["custom_resource"] = shownCR
	}
	if d.pod != nil {
		show["exercising_pod"] = showPod(d.pod)
	}
	if d.kind == "crd" {
		show["replicas_asked_first"] = d.replicasFirst
	}
	switch class {
	case "crd-no-versions":
		show["deliverability"] = "apiextensions.k8s.io/v1 validation requires at least one version: only a non-validating source (or the fake) delivers this object"
	case "deployment-nil-replicas":
		show["deliverability"] = "apps/v1 defaulting sets spec.replicas=1: only a non-defaulting source (or the fake) delivers this object"
	}
	in := &Input{Class: class, Op: "deliver-" + d.kind, Show: show, data: d}
	if f := genFault(g, 0.12); f != nil {
		in.Fault = f
		show["api_fault"] = f
	}
	return in
}

func show_(s string) string { return show(s) }

// reloadConfig makes the plugin re-run ConfigurePool over the current store (alternating equivalent texts).
func (s *surf3) reloadConfig() error {
	s.reload++
	text := baseFloatingIPs + strings.Repeat(" ", s.reload%7+1)
	cm := &corev1.ConfigMap{ObjectMeta: metav1.ObjectMeta{Name: "floatingip-config", Namespace: "kube-system"},
		Data: map[string]string{"floatingips": text}}
	if _, err := s.e.kube.CoreV1().ConfigMaps("kube-system").Update(gocontext.TODO(), cm, metav1.UpdateOptions{}); err != nil {
		return fmt.Errorf("env: %v", err)
	}
	_, err := s.e.plugin.VerifReloadConfigMap()
	return err
}

func (s *surf3) listIPs(q string) int {
	return s.e.serve(buildRequest(&httpIn{method: "GET", path: "/v1/ip", rawQuery: q})).Code
}

func firstErr(errs ...error) error {
	for _, e := range errs {
		if e != nil {
			return e
		}
	}
	return nil
}

func (s *surf3) call(in *Input) (string, string) {
	d := in.data.(*objIn)
	e := s.e
	ctx := gocontext.TODO()
	ipam := e.plugin.GetIpam()
	switch d.kind {
	case "fip":
		f := d.fips[0]
		if _, err := e.gcli.GalaxyV1alpha1().FloatingIPs().Create(ctx, f.DeepCopy(), metav1.CreateOptions{}); err != nil {
			// the address is already allocated by the instance itself: deliver the hostile object as an update would
			if _, err2 := e.gcli.GalaxyV1alpha1().FloatingIPs().Update(ctx, f.DeepCopy(), metav1.UpdateOptions{}); err2 != nil {
				return outEnv, err.Error()
			}
		}
		cleaned := false
		cleanup := func() {
			if !cleaned {
				cleaned = true
				e.fault.disarm()
				_ = e.gcli.GalaxyV1alpha1().FloatingIPs().Delete(ctx, f.Name, metav1.DeleteOptions{})
				e.fipBarrier()
			}
		}
		defer cleanup()
		e.fipBarrier()
		e.fault.arm(in.Fault)
		_, err1 := ipam.ByIP(net.ParseIP(f.Name))
		_, err2 := ipam.ByPrefix("")
		_, err3 := ipam.ByKeyword(f.Spec.Key)
		s.listIPs("keyword=" + url.QueryEscape(f.Spec.Key) + "&size=9999")
		err4 := e.plugin.VerifResyncOnce()
		err5 := s.reloadConfig()
		s.listIPs("size=9999&sort=policy")
		s.listIPs("keyword=" + url.QueryEscape(f.Spec.Key))
		err6 := e.plugin.VerifResyncOnce()
		e.plugin.VerifSyncPodIPs()
		cleanup()
		err7 := s.reloadConfig()
		e.fault.disarm()
		return classifyErr(firstErr(err1, err2, err3, err4, err5, err6, err7))
	case "fip-at-init":
		var objs []runtime.Object
		for _, f := range d.fips {
			objs = append(objs, f.DeepCopy())
		}
		e2, err := newIPAMEnv(ipamEnvOpts{fipObjs: objs, noInit: true})
		if err != nil {
			return outEnv, err.Error()
		}
		defer e2.close()
		e2.fault.arm(in.Fault)
		err1 := e2.plugin.Init()
		_, err2 := e2.plugin.GetIpam().ByPrefix("")
		e2.serve(buildRequest(&httpIn{method: "GET", path: "/v1/ip", rawQuery: "size=9999"}))
		err3 := e2.plugin.VerifResyncOnce()
		e2.plugin.VerifSyncPodIPs()
		e2.fault.disarm()
		e2.flushFaultCounters(s.c)
		e2.probe(nil, func(string) {})
		return classifyErr(firstErr(err1, err2, err3))
	case "pool":
		p := d.pool
		if _, err := e.gcli.GalaxyV1alpha1().Pools(p.Namespace).Create(ctx, p.DeepCopy(), metav1.CreateOptions{}); err != nil {
			return outEnv, err.Error()
		}
		defer func() {
			e.fault.disarm()
			_ = e.gcli.GalaxyV1alpha1().Pools(p.Namespace).Delete(ctx, p.Name, metav1.DeleteOptions{})
			waitFor(func() bool { _, err := e.ctx.PoolLister.Pools(p.Namespace).Get(p.Name); return err != nil })
			s.releasePrefix("pool__")
		}()
		waitFor(func() bool { _, err := e.ctx.PoolLister.Pools(p.Namespace).Get(p.Name); return err == nil })
		e.fault.arm(in.Fault)
		_, _, err1 := e.plugin.Filter(d.pod, e.nodes[:5])
		c1 := e.serve(buildRequest(&httpIn{method: "GET", path: "/v1/pool/" + p.Name})).Code
		body := fmt.Sprintf(`{"name":%q,"size":%d,"preAllocateIP":%v}`, p.Name, d.postSize, !p.PreAllocateIP)
		c2 := e.serve(buildRequest(&httpIn{method: "POST", path: "/v1/pool", contentType: "application/json", body: []byte(body)})).Code
		_, _, err2 := e.plugin.Filter(d.pod, e.nodes[:5])
		err3 := e.plugin.VerifUnbind(d.pod)
		err4 := e.plugin.VerifResyncOnce()
		c3 := e.serve(buildRequest(&httpIn{method: "DELETE", path: "/v1/pool/" + p.Name})).Code
		o, m := classifyErr(firstErr(err1, err2, err3, err4))
		return o, fmt.Sprintf("%s http=%d,%d,%d", m, c1, c2, c3)
	case "deployment":
		dp := d.dp
		if _, err := e.kube.AppsV1().Deployments(dp.Namespace).Create(ctx, dp.DeepCopy(), metav1.CreateOptions{}); err != nil {
			return outEnv, err.Error()
		}
		defer func() {
			e.fault.disarm()
			_ = e.kube.AppsV1().Deployments(dp.Namespace).Delete(ctx, dp.Name, metav1.DeleteOptions{})
			waitFor(func() bool {
				_, err := e.ctx.DeploymentLister.Deployments(dp.Namespace).Get(dp.Name)
				return err != nil
			})
			s.releasePrefix("dp_")
		}()
		waitFor(func() bool {
			_, err := e.ctx.DeploymentLister.Deployments(dp.Namespace).Get(dp.Name)
			return err == nil
		})
		// an address held by a pod of this deployment, so that unbind and resync have something to decide
		if ko, err := util.FormatKey(d.pod); err == nil && ko.PoolName == "" {
			_ = ipam.AllocateSpecificIP(ko.KeyInDB, net.ParseIP("10.0.70.15"), floatingip.Attr{Policy: constant.ConvertReleasePolicy(d.policy)})
		}
		e.fault.arm(in.Fault)
		_, _, err1 := e.plugin.Filter(d.pod, e.nodes[:5])
		err2 := e.plugin.VerifUnbind(d.pod)
		err3 := e.plugin.VerifResyncOnce()
		return classifyErr(firstErr(err1, err2, err3))
	case "statefulset":
		st := d.sts
		if _, err := e.kube.AppsV1().StatefulSets(st.Namespace).Create(ctx, st.DeepCopy(), metav1.CreateOptions{}); err != nil {
			return outEnv, err.Error()
		}
		defer func() {
			e.fault.disarm()
			_ = e.kube.AppsV1().StatefulSets(st.Namespace).Delete(ctx, st.Name, metav1.DeleteOptions{})
			waitFor(func() bool {
				_, err := e.ctx.StatefulSetLister.StatefulSets(st.Namespace).Get(st.Name)
				return err != nil
			})
			s.releasePrefix("sts_" + st.Namespace + "_sts-xxx_")
		}()
		waitFor(func() bool {
			_, err := e.ctx.StatefulSetLister.StatefulSets(st.Namespace).Get(st.Name)
			return err == nil
		})
		if ko, err := util.FormatKey(d.pod); err == nil {
			_ = ipam.AllocateSpecificIP(ko.KeyInDB, net.ParseIP("10.0.70.16"), floatingip.Attr{Policy: constant.ConvertReleasePolicy(d.policy)})
		}
		e.fault.arm(in.Fault)
		_, _, err1 := e.plugin.Filter(d.pod, e.nodes[:5])
		err2 := e.plugin.VerifUnbind(d.pod)
		err3 := e.plugin.VerifResyncOnce()
		return classifyErr(firstErr(err1, err2, err3))
	case "crd":
		crd := d.crd
		if _, err := e.ext.ApiextensionsV1().CustomResourceDefinitions().Create(ctx, crd.DeepCopy(), metav1.CreateOptions{}); err != nil {
			return outEnv, err.Error()
		}
		defer func() {
			e.fault.disarm()
			_ = e.ext.ApiextensionsV1().CustomResourceDefinitions().Delete(ctx, crd.Name, metav1.DeleteOptions{})
			waitFor(func() bool { _, err := e.ctx.ExtensionLister.Get(crd.Name); return err != nil })
			if d.cr != nil {
				_ = e.dyn.Resource(d.crGVR).Namespace(d.cr.GetNamespace()).Delete(ctx, d.cr.GetName(), metav1.DeleteOptions{})
			}
			s.releasePrefix(util.GetAppTypePrefix(crd.Spec.Names.Kind))
		}()
		waitFor(func() bool { _, err := e.ctx.ExtensionLister.Get(crd.Name); return err == nil })
		if d.cr != nil {
			if _, err := e.dyn.Resource(d.crGVR).Namespace(d.cr.GetNamespace()).Create(ctx, d.cr.DeepCopy(), metav1.CreateOptions{}); err != nil {
				return outEnv, "custom resource: " + err.Error()
			}
		}
		ko, kerr := util.FormatKey(d.pod)
		if kerr == nil {
			_ = ipam.AllocateSpecificIP(ko.KeyInDB, net.ParseIP("10.0.70.17"), floatingip.Attr{Policy: constant.ConvertReleasePolicy(d.policy)})
		}
		e.fault.arm(in.Fault)
		// a pod of a kind galaxy has not seen yet makes it walk every CRD in its lister
		if d.replicasFirst && kerr == nil {
			_, _, _ = e.plugin.VerifAppReplicas(ko)
		}
		other := ownedPod(nil, 0, "Job", "job-x", "job-x-0", d.pod.Namespace, "immutable", "")
		_, _, err0 := e.plugin.Filter(other, e.nodes[:3])
		_, _, err1 := e.plugin.Filter(d.pod, e.nodes[:5])
		var err2 error
		if kerr == nil {
			// logical barrier on the plugin's dynamic informer, then the value itself
			for i := 0; i < 40; i++ {
				exist, _, err := e.plugin.VerifAppReplicas(ko)
				err2 = err
				if exist || d.cr == nil || err != nil {
					break
				}
				time.Sleep(5 * time.Millisecond)
			}
		}
		err3 := e.plugin.VerifUnbind(d.pod)
		err4 := e.plugin.VerifResyncOnce()
		_ = err0
		return classifyErr(firstErr(err1, err2, err3, err4))
	}
	return outEnv, "unknown kind"
}

// releasePrefix gives addresses held under a key prefix back (harness housekeeping between inputs).
func (s *surf3) releasePrefix(prefix string) {
	ipam := s.e.plugin.GetIpam()
	fips, err := ipam.ByPrefix(prefix)
	if err != nil || prefix == "" {
		return
	}
	m := map[string]string{}
	for _, f := range fips {
		m[f.IP.String()] = f.Key
	}
	if len(m) > 0 {
		_, _, _ = ipam.ReleaseIPs(m)
	}
}

func (s *surf3) probe(in *Input, step func(string)) {
	s.e.fault.disarm()
	s.e.flushFaultCounters(s.c)
	d := in.data.(*objIn)
	s.e.probe(d.pod, step)
}
