package main

import (
	gocontext "context"
	"encoding/json"
	"fmt"
	"time"

	corev1 "k8s.io/api/core/v1"
	metav1 "k8s.io/apimachinery/pkg/apis/meta/v1"
	"tkestack.io/galaxy/pkg/ipam/schedulerplugin"
)

// cfgIn is one configuration text.
type cfgIn struct {
	text     string
	fullConf bool // decode into schedulerplugin.Conf instead of reloading the ConfigMap
	noKey    bool // ConfigMap without the floatingips key
	noCM     bool // ConfigMap absent
}

type surf4 struct {
	c *child
	e *ipamEnv
	n int
}

func (s *surf4) setup(c *child) error {
	s.c = c
	var err error
	s.e, err = newIPAMEnv(ipamEnvOpts{configMapMode: true})
	if err != nil {
		return err
	}
	seedAllocations(s.e)
	return nil
}

func (s *surf4) close()                          { s.e.close() }
func (s *surf4) timeout(in *Input) time.Duration { return 10 * time.Second }

// genPool builds one valid pool over 10.a.b.0/24 with sorted, disjoint, non-adjacent ranges.
func genPool(g *G, a, b int) map[string]interface{} {
	subnet := fmt.Sprintf("10.%d.%d", a, b)
	var ips []string
	cur := 2 + g.intn(20)
	n := 1 + g.intn(4)
	for i := 0; i < n && cur < 250; i++ {
		w := g.intn(6)
		if cur+w > 253 {
			w = 0
		}
		if w == 0 {
			ips = append(ips, fmt.Sprintf("%s.%d", subnet, cur))
		} else {
			ips = append(ips, fmt.Sprintf("%s.%d~%s.%d", subnet, cur, subnet, cur+w))
		}
		cur += w + 2 + g.intn(30)
	}
	p := map[string]interface{}{"ips": ips, "subnet": subnet + ".0/24", "gateway": subnet + ".1"}
	if g.chance(0.5) {
		p["vlan"] = g.intn(4095)
	}
	if g.chance(0.4) {
		p["routableSubnet"] = fmt.Sprintf("10.%d.%d.0/24", 100+a%50, b)
	} else {
		ns := []string{fmt.Sprintf("10.%d.%d.0/24", 100+a%50, b)}
		if g.chance(0.4) {
			ns = append(ns, fmt.Sprintf("10.%d.%d.7/26", 150+a%50, b))
		}
		if g.chance(0.1) {
			ns = append(ns, ns[0])
		}
		p["nodeSubnets"] = ns
	}
	return p
}

func genPools(g *G) []interface{} {
	n := 1 + g.intn(3)
	var pools []interface{}
	for i := 0; i < n; i++ {
		pools = append(pools, genPool(g, 1+g.intn(90), g.intn(250)))
	}
	return pools
}

// genConfigText renders the floatingips text: valid, one mutation away, or damaged.
func genConfigText(g *G) (text, class, tag string) {
	pools := genPools(g)
	p0 := pools[0].(map[string]interface{})
	k := g.intn(100)
	switch {
	case g.rare(3, 0.01):
		r := g.pick("255.255.255.250~255.255.255.255", "255.255.255.255", "255.255.255.2~255.255.255.255")
		return mustJSON([]interface{}{map[string]interface{}{"nodeSubnets": []string{"10.250.0.0/24"}, "ips": []string{r},
			"subnet": "255.255.255.0/24", "gateway": "255.255.255.1"}}), "range-ending-255.255.255.255", "range-ending-255.255.255.255"
	case k < 22:
		return mustJSON(pools), "cfg-valid", ""
	case k < 27:
		// keep the base configuration (plus a pool): allocated addresses stay inside
		var base []interface{}
		_ = json.Unmarshal([]byte(baseFloatingIPs), &base)
		return mustJSON(append(base, pools...)), "cfg-valid-superset-of-base", ""
	case k < 31:
		p0["ips"] = []string{"10.1.1.20~10.1.1.30", "10.1.1.5~10.1.1.9"}
		p0["subnet"], p0["gateway"] = "10.1.1.0/24", "10.1.1.1"
		return mustJSON(pools), "cfg-unsorted", ""
	case k < 35:
		p0["ips"] = [][]string{{"10.1.1.5~10.1.1.9", "10.1.1.10~10.1.1.12"}, {"10.1.1.5~10.1.1.9", "10.1.1.9~10.1.1.12"},
			{"10.1.1.5~10.1.1.9", "10.1.1.7"}, {"10.1.1.5", "10.1.1.5"}}[g.intn(4)]
		p0["subnet"], p0["gateway"] = "10.1.1.0/24", "10.1.1.1"
		return mustJSON(pools), "cfg-adjacent-or-overlapping", ""
	case k < 39:
		p0["ips"] = []string{g.pick("10.9.9.9", "10.1.2.1~10.1.2.3", "10.1.1.250~10.1.2.3", "0.0.0.0", "255.255.255.254")}
		p0["subnet"], p0["gateway"] = "10.1.1.0/24", "10.1.1.1"
		return mustJSON(pools), "cfg-outside-subnet", ""
	case k < 42:
		p0["ips"] = []string{"10.1.1.9~10.1.1.5"}
		p0["subnet"], p0["gateway"] = "10.1.1.0/24", "10.1.1.1"
		return mustJSON(pools), "cfg-first-greater-than-last", ""
	case k < 47:
		f := g.pick("ips", "subnet", "gateway", "nodeSubnets")
		switch f {
		case "ips":
			p0["ips"] = []string{g.ip6(), "::1~::5"}
		case "subnet":
			p0["subnet"] = "2001:db8::/64"
		case "gateway":
			p0["gateway"] = g.ip6()
		default:
			delete(p0, "routableSubnet")
			p0["nodeSubnets"] = []string{"2001:db8::/64", "::/0"}
		}
		return mustJSON(pools), "cfg-ipv6-" + f, ""
	case k < 53:
		bits := g.pick("0", "1", "8", "31", "32", "33", "-1", "")
		gw := g.pick("10.1.1.1", "0.0.0.1", "128.0.0.1")
		p0["subnet"] = "10.1.1.0/" + bits
		p0["gateway"] = gw
		p0["ips"] = []string{g.pick("10.1.1.5~10.1.1.9", "10.1.1.1", "0.0.0.0~0.0.0.9", "200.1.1.1~200.1.1.9")}
		return mustJSON(pools), "cfg-mask-" + bits, ""
	case k < 57:
		p0["gateway"] = g.pick("10.200.1.1", "0.0.0.0", "255.255.255.255", "", "x")
		return mustJSON(pools), "cfg-gateway-outside-or-bad", ""
	case k < 62:
		delete(p0, g.pick("ips", "subnet", "gateway", "nodeSubnets", "routableSubnet", "vlan"))
		if g.chance(0.3) {
			delete(p0, "nodeSubnets")
			delete(p0, "routableSubnet")
		}
		return mustJSON(pools), "cfg-missing-field", ""
	case k < 66:
		p0["subnet"], p0["gateway"] = "10.1.1.0/24", "10.1.1.1"
		p0["ips"] = [][]string{{"10.1.1.0"}, {"10.1.1.255"}, {"10.1.1.0~10.1.1.255"}, {"10.1.1.1"}, {}}[g.intn(5)]
		return mustJSON(pools), "cfg-boundary-addresses", ""
	case k < 69:
		return mustJSON([]interface{}{map[string]interface{}{"nodeSubnets": []string{"10.251.0.0/24"}, "ips": []string{g.pick("0.0.0.0~0.0.0.9", "0.0.0.0", "0.0.0.2~0.0.0.255")},
			"subnet": "0.0.0.0/24", "gateway": g.pick("0.0.0.1", "0.0.0.0")}}), "cfg-touching-0.0.0.0", ""
	case k < 72:
		return mustJSON([]interface{}{map[string]interface{}{"nodeSubnets": []string{"10.250.0.0/24"},
			"ips": []string{g.pick("255.255.255.240~255.255.255.254", "255.255.255.254", "255.255.255.0~255.255.255.254")}, "subnet": "255.255.255.0/24",
			"gateway": g.pick("255.255.255.1", "255.255.255.255")}}), "cfg-top-of-space", ""
	case k < 75:
		return mustJSON(append(pools, pools[0])), "cfg-duplicate-pool", ""
	case k < 78:
		return g.pick("[]", "null", "[null]", "[null,null]", "[{}]", "{}", "\"\"", "", "[[]]", "0"), "cfg-empty", ""
	case k < 90:
		return string(g.mutate([]byte(mustJSON(pools)))), "cfg-mutated", ""
	case k < 94:
		t := mustJSON(pools)
		return t[:g.intn(len(t))], "cfg-truncated", ""
	case k < 97:
		return mustJSON(g.jsonJunk(4)), "cfg-wrong-types", ""
	default:
		return g.junk(), "cfg-junk", ""
	}
}

func (s *surf4) gen(idx int) *Input {
	g := newG(s.c.t.Seed, 4, idx, s.c.t.Total)
	d := &cfgIn{}
	text, class, tag := genConfigText(g)
	if !rangesOK(text) {
		text, class, tag = mustJSON(genPools(g)), "cfg-valid", ""
	}
	op := "VerifReloadConfigMap"
	switch k := g.intn(100); {
	case tag != "":
	case k < 18:
		// the json configuration file of galaxy-ipam
		d.fullConf = true
		op = "json.Unmarshal(Conf)"
		conf := map[string]interface{}{"floatingips": json.RawMessage(text)}
		if !json.Valid([]byte(text)) {
			conf["floatingips"] = text
		}
		if g.chance(0.6) {
			conf["resyncInterval"] = []interface{}{0, 1, 5, -1, 4294967296, "1", 1.5, nil}[g.intn(8)]
		}
		if g.chance(0.4) {
			conf["configMapName"] = g.junk()
		}
		if g.chance(0.3) {
			conf["cloudProviderGrpcAddr"] = g.pick("", "127.0.0.1:1", g.junk())
		}
		if g.chance(0.2) {
			conf[g.pick("floatingipKey", "configMapNamespace", "x")] = g.jsonJunk(1)
		}
		text = mustJSON(conf)
		class = "conf-" + class
		if g.chance(0.25) {
			text = string(g.mutate([]byte(text)))
			class = "conf-mutated"
			if !rangesOK(text) {
				text, class = `{"floatingips":[]}`, "conf-cfg-empty"
			}
		}
	case k < 21:
		d.noKey = true
		class = "configmap-without-key"
	case k < 23:
		d.noCM = true
		class = "configmap-absent"
	}
	d.text = text
	in := &Input{Class: class, Tag: tag, Op: op, data: d, Show: map[string]interface{}{"text": show(text), "configmap_has_key": !d.noKey,
		"configmap_present": !d.noCM}}
	if f := genFault(g, 0.12); f != nil && tag == "" && !d.fullConf {
		in.Fault = f
		in.Show.(map[string]interface{})["api_fault"] = f
	}
	return in
}

func (s *surf4) call(in *Input) (string, string) {
	d := in.data.(*cfgIn)
	if d.fullConf {
		var conf schedulerplugin.Conf
		if err := json.Unmarshal([]byte(d.text), &conf); err != nil {
			return outDecode, err.Error()
		}
		// what the daemon does next with a decoded configuration
		n := 0
		for _, p := range conf.FloatingIPs {
			if p != nil {
				n += int(p.Size())
				_ = p.String()
			}
		}
		return outResult, fmt.Sprintf("pools=%d size=%d", len(conf.FloatingIPs), n)
	}
	ctx := gocontext.TODO()
	cms := s.e.kube.CoreV1().ConfigMaps("kube-system")
	s.n++
	cm := &corev1.ConfigMap{ObjectMeta: metav1.ObjectMeta{Name: "floatingip-config", Namespace: "kube-system"},
		Data: map[string]string{"floatingips": d.text}}
	if d.noKey {
		cm.Data = map[string]string{"other": d.text}
	}
	if d.noCM {
		_ = cms.Delete(ctx, cm.Name, metav1.DeleteOptions{})
		defer func() { _, _ = cms.Create(ctx, cm, metav1.CreateOptions{}) }()
	} else if _, err := cms.Update(ctx, cm, metav1.UpdateOptions{}); err != nil {
		if _, err2 := cms.Create(ctx, cm, metav1.CreateOptions{}); err2 != nil {
			return outEnv, err.Error()
		}
	}
	s.e.fault.arm(in.Fault)
	defer s.e.fault.disarm()
	updated, err := s.e.plugin.VerifReloadConfigMap()
	if err != nil {
		var probe []json.RawMessage
		if json.Unmarshal([]byte(d.text), &probe) != nil {
			return outDecode, err.Error()
		}
		return outError, err.Error()
	}
	// the reloaded configuration is used right away
	fips, _ := s.e.plugin.GetIpam().ByPrefix("")
	_ = s.e.plugin.VerifResyncOnce()
	return outResult, fmt.Sprintf("updated=%v addresses=%d", updated, len(fips))
}

func (s *surf4) probe(in *Input, step func(string)) {
	s.e.fault.disarm()
	s.e.flushFaultCounters(s.c)
	s.e.probe(nil, step)
}
