// Engine fuzzmon decides C18 "no request, watched object or configuration can crash or wedge a daemon" by
// generation-based fuzzing of the real galaxy code. The parent (this file) splits the input space of six surfaces
// into batches and runs each batch in a CHILD process (same binary, -child <dir>). A child journals every input
// before the call, recovers panics at the surface boundary, runs every call and every follow-up lock probe under a
// watchdog and exits with a distinctive code after dumping all goroutines when the watchdog expires. The parent names
// the input from the journal, classifies the dump (wedged in galaxy code / not), confirms hangs by re-running them
// alone, and continues the rest of the batch in a new child.
package main

import (
	"bufio"
	"encoding/json"
	"fmt"
	"os"
	"os/exec"
	"path/filepath"
	"sort"
	"strconv"
	"strings"
	"sync"
	"syscall"
	"time"

	"verif/harness/evid"
)

const (
	exitWatchdog = 97 // child: watchdog expired, goroutine dumps are on stderr
	exitSetup    = 96 // child: could not build its environment (harness problem)
	batchSize    = 500
)

// surfaceWeights: share of the inputs per surface (surface 1..6).
var surfaceWeights = [7]int{0, 30, 15, 10, 10, 20, 15}

// task is one child invocation.
type task struct {
	Surface   int    `json:"surface"`
	Start     int    `json:"start"`
	End       int    `json:"end"`
	Total     int    `json:"total"` // inputs of this surface in the whole run (generators cap rare expensive classes by it)
	Seed      int64  `json:"seed"`
	Tier      string `json:"tier"`
	Prop      string `json:"prop"`
	Purpose   string `json:"purpose"` // batch | confirm-single | confirm-prefix | rerun-alone | replay
	Exclusive bool   `json:"exclusive"`
	pending   *pendingVerdict
}

// pendingVerdict is a hang that still has to be confirmed or re-run alone.
type pendingVerdict struct {
	sig      string
	msg      string
	witness  map[string]interface{}
	caseID   string
	idx      int
	surface  int
	wedged   bool
	taskFrom int
}

type parent struct {
	run     *evid.Run
	fl      *evid.Flags
	exe     string
	workdir string

	mu          sync.Mutex
	cond        *sync.Cond
	queue       []*task
	outstanding int
	excl        sync.RWMutex
	seq         int

	grouped      map[string]map[string]int64 // counter prefix -> name -> count
	observations map[string]evid.Violation   // undeliverable class -> example
	viol         map[string][]evid.Violation // by signature
	violCount    map[string]int
	sigConfirmed map[string]bool
	sigWaiting   map[string][]*pendingVerdict // hangs waiting for the confirmation of their signature
	aloneInfo    map[string]string
	totals       [7]int
}

func main() {
	fl := evid.ParseFlags()
	if fl.Child != "" {
		os.Exit(childMain(fl.Child))
	}
	if fl.Prop == "" {
		fl.Prop = "C18"
	}
	run := evid.NewRun(fl.Prop, fl.Tier, fl.Seed, "exploration", "fuzzmon")
	run.Rule = "inputs are a pure function of (seed, surface, index): structure-aware generators per surface (typed objects, " +
		"JSON grammars, query strings, config grammars, directory populations) plus byte-level mutation of valid seeds; " +
		"requested/configured IP ranges are capped at 2^16 addresses. An input is non-trivial when the code under test " +
		"got past its first decode (returned a result or a non-decode error); distinct = (surface, generator class, " +
		"operation, outcome class)."
	run.Assume("client-go / galaxy fake clientsets and the strict iptables/ipset fakes stand in for the API server and the kernel")
	run.Assume("a call that normally costs < 10 ms and has not returned after 10 s (30 s for /cni ADD), whose goroutine is inside " +
		"galaxy frames in 5 consecutive goroutine dumps and which reproduces when re-run alone, does not terminate")
	run.Assume("CNI plugins are replaced by trivial shell scripts printing fixed results")
	exe, err := os.Executable()
	if err != nil {
		fmt.Println("cannot find own executable:", err)
		os.Exit(evid.ExitBroken)
	}
	p := &parent{run: run, fl: fl, exe: exe, viol: map[string][]evid.Violation{}, violCount: map[string]int{},
		sigConfirmed: map[string]bool{}, sigWaiting: map[string][]*pendingVerdict{}, aloneInfo: map[string]string{}}
	p.cond = sync.NewCond(&p.mu)
	p.grouped = map[string]map[string]int64{"class_": {}, "op_": {}, "sigcount:": {}}
	p.observations = map[string]evid.Violation{}
	base := os.Getenv("VERIF_BUILD_DIR")
	if base != "" {
		p.workdir = filepath.Join(base, fmt.Sprintf("fuzzmon.work.%d", os.Getpid()))
		if err := os.MkdirAll(p.workdir, 0755); err != nil {
			fmt.Println("cannot create work dir:", err)
			os.Exit(evid.ExitBroken)
		}
	} else {
		p.workdir, err = os.MkdirTemp("", "fuzzmon")
		if err != nil {
			fmt.Println("cannot create work dir:", err)
			os.Exit(evid.ExitBroken)
		}
	}
	defer os.RemoveAll(p.workdir)

	total := evid.Tiered(fl.Tier, 60000, 2000000)
	workers := evid.Tiered(fl.Tier, 10, 14)
	// development aids (never set by registered commands): a smaller input count, a subset of surfaces
	if v, err := strconv.Atoi(os.Getenv("FUZZMON_TOTAL")); err == nil && v > 0 {
		total = v
	}
	only := os.Getenv("FUZZMON_SURFACES")
	wsum := 0
	for _, w := range surfaceWeights {
		wsum += w
	}
	for s := 1; s <= 6; s++ {
		p.totals[s] = total * surfaceWeights[s] / wsum
		if only != "" && !strings.Contains(only, strconv.Itoa(s)) {
			p.totals[s] = 0
		}
	}
	if only != "" {
		run.Inconclusive("development run restricted to surfaces " + only)
	}
	if fl.Replay != "" {
		if !p.queueReplay(fl.Replay) {
			os.Exit(evid.ExitBroken)
		}
	} else {
		// interleave surfaces so that slow and fast batches mix
		for off := 0; ; off += batchSize {
			any := false
			for s := 1; s <= 6; s++ {
				if off < p.totals[s] {
					any = true
					end := off + batchSize
					if end > p.totals[s] {
						end = p.totals[s]
					}
					p.enqueue(&task{Surface: s, Start: off, End: end, Purpose: "batch"})
				}
			}
			if !any {
				break
			}
		}
	}
	var wg sync.WaitGroup
	for w := 0; w < workers; w++ {
		wg.Add(1)
		go func() {
			defer wg.Done()
			p.worker()
		}()
	}
	wg.Wait()
	code := p.finish()
	os.RemoveAll(p.workdir)
	os.Exit(code)
}

func (p *parent) enqueue(t *task) {
	t.Seed, t.Tier, t.Prop, t.Total = p.fl.Seed, p.fl.Tier, p.fl.Prop, p.totals[t.Surface]
	p.mu.Lock()
	p.queue = append(p.queue, t)
	p.outstanding++
	p.cond.Signal()
	p.mu.Unlock()
}

func (p *parent) worker() {
	for {
		p.mu.Lock()
		for len(p.queue) == 0 && p.outstanding > 0 {
			p.cond.Wait()
		}
		if len(p.queue) == 0 {
			p.mu.Unlock()
			p.cond.Broadcast()
			return
		}
		// exclusive tasks first: they resolve verdicts and are short
		pick := 0
		for i, t := range p.queue {
			if t.Exclusive {
				pick = i
				break
			}
		}
		t := p.queue[pick]
		p.queue = append(p.queue[:pick], p.queue[pick+1:]...)
		p.seq++
		id := p.seq
		p.mu.Unlock()

		if t.Exclusive {
			p.excl.Lock()
		} else {
			p.excl.RLock()
		}
		res := p.runChild(t, id)
		if t.Exclusive {
			p.excl.Unlock()
		} else {
			p.excl.RUnlock()
		}
		p.handle(t, res)

		p.mu.Lock()
		p.outstanding--
		if p.outstanding == 0 {
			p.cond.Broadcast()
		}
		p.mu.Unlock()
	}
}

// childResult is what the parent learns from one child.
type childResult struct {
	dir      string
	pid      int
	exit     int
	signaled bool
	timedOut bool
	partial  *evid.Partial
	last     *journalLine
	hang     *hangInfo
	stderr   string // tail of the child's stderr (bounded)
	wall     time.Duration
}

func (p *parent) runChild(t *task, id int) *childResult {
	dir := filepath.Join(p.workdir, fmt.Sprintf("c%05d", id))
	_ = os.MkdirAll(dir, 0755)
	data, _ := json.Marshal(t)
	_ = os.WriteFile(filepath.Join(dir, "task.json"), data, 0644)
	errf, _ := os.Create(filepath.Join(dir, "stderr.log"))
	cmd := exec.Command(p.exe, "-child", dir, "-prop", p.fl.Prop, "-tier", p.fl.Tier, "-seed", fmt.Sprint(p.fl.Seed))
	cmd.Stdout = errf
	cmd.Stderr = errf
	cmd.Env = append(os.Environ(), "MY_NODE_NAME=fznode", "GOTRACEBACK=all", "TMPDIR="+dir)
	cmd.SysProcAttr = &syscall.SysProcAttr{Setpgid: true}
	res := &childResult{dir: dir}
	start := time.Now()
	if err := cmd.Start(); err != nil {
		res.exit = exitSetup
		res.stderr = err.Error()
		return res
	}
	res.pid = cmd.Process.Pid
	// hard limit: every input may legitimately take a few seconds (5 s pod polling); a child that exceeds this is
	// killed and the run becomes inconclusive.
	limit := time.Duration(300+(t.End-t.Start)*2) * time.Second
	done := make(chan error, 1)
	go func() { done <- cmd.Wait() }()
	var err error
	select {
	case err = <-done:
	case <-time.After(limit):
		_ = syscall.Kill(-res.pid, syscall.SIGKILL)
		err = <-done
		res.timedOut = true
	}
	// plugins or helpers the child may have left behind
	_ = syscall.Kill(-res.pid, syscall.SIGKILL)
	errf.Close()
	res.wall = time.Since(start)
	if err != nil {
		if ee, ok := err.(*exec.ExitError); ok {
			if ws, ok := ee.Sys().(syscall.WaitStatus); ok && ws.Signaled() {
				res.signaled = true
				res.exit = 128 + int(ws.Signal())
			} else {
				res.exit = ee.ExitCode()
			}
		} else {
			res.exit = exitSetup
		}
	}
	if pt, err := evid.ReadPartial(filepath.Join(dir, "partial.json")); err == nil {
		res.partial = pt
	}
	res.last = lastJournalLine(filepath.Join(dir, "journal.jsonl"))
	if data, err := os.ReadFile(filepath.Join(dir, "hang.json")); err == nil {
		var h hangInfo
		if json.Unmarshal(data, &h) == nil {
			res.hang = &h
		}
	}
	if res.exit != 0 {
		res.stderr = readTail(filepath.Join(dir, "stderr.log"), 4<<20)
	}
	cleanCNIState(res.pid)
	_ = os.RemoveAll(dir)
	return res
}

// cleanCNIState removes the files a surface-5 child created under /var/lib/cni/galaxy (its container ids carry its pid).
func cleanCNIState(pid int) {
	if pid == 0 {
		return
	}
	for _, pat := range []string{"/var/lib/cni/galaxy/" + containerPrefix(pid) + "*", "/var/lib/cni/galaxy/port/" + containerPrefix(pid) + "*"} {
		if m, err := filepath.Glob(pat); err == nil {
			for _, f := range m {
				_ = os.Remove(f)
			}
		}
	}
}

func containerPrefix(pid int) string { return fmt.Sprintf("fz%dx", pid) }

func readTail(path string, max int64) string {
	f, err := os.Open(path)
	if err != nil {
		return ""
	}
	defer f.Close()
	st, err := f.Stat()
	if err != nil {
		return ""
	}
	off := int64(0)
	if st.Size() > max {
		off = st.Size() - max
	}
	buf := make([]byte, st.Size()-off)
	n, _ := f.ReadAt(buf, off)
	return string(buf[:n])
}

func lastJournalLine(path string) *journalLine {
	f, err := os.Open(path)
	if err != nil {
		return nil
	}
	defer f.Close()
	sc := bufio.NewScanner(f)
	sc.Buffer(make([]byte, 1<<20), 16<<20)
	var last string
	for sc.Scan() {
		if strings.TrimSpace(sc.Text()) != "" {
			last = sc.Text()
		}
	}
	if last == "" {
		return nil
	}
	var jl journalLine
	if err := json.Unmarshal([]byte(last), &jl); err != nil {
		return nil
	}
	return &jl
}

func (p *parent) caseID(surface, idx int) string {
	return fmt.Sprintf("%d:surface%d:%d", p.fl.Seed, surface, idx)
}

// handle digests one finished child.
func (p *parent) handle(t *task, r *childResult) {
	p.run.Count("children_spawned", 1)
	counting := t.Purpose == "batch" || t.Purpose == "replay"
	if counting && r.partial != nil {
		// violations are aggregated here (smallest witnesses per signature are kept), everything else is merged
		for _, v := range r.partial.Violations {
			if strings.HasPrefix(v.Sig, observationPrefix) {
				p.addObservation(strings.TrimPrefix(v.Sig, observationPrefix), v)
				continue
			}
			p.addViolation(v, false) // occurrences are counted by the child ("sigcount:" counters)
		}
		r.partial.Violations = nil
		// per-class / per-op / per-signature counts go to structured evidence keys, not to the flat counter list
		p.mu.Lock()
		for k, v := range r.partial.Counters {
			for prefix, m := range p.grouped {
				if strings.HasPrefix(k, prefix) {
					m[strings.TrimPrefix(k, prefix)] += v
					delete(r.partial.Counters, k)
					break
				}
			}
		}
		p.mu.Unlock()
		p.run.Merge(r.partial)
	}
	switch {
	case r.timedOut:
		p.run.Inconclusive(fmt.Sprintf("child for surface%d [%d,%d) exceeded the parent's hard limit and was killed (watchdog inside the child did not fire)",
			t.Surface, t.Start, t.End))
		p.resolveFailed(t, "child killed by the parent's hard limit")
	case r.exit == 0:
		p.resolvePassed(t)
	case r.exit == exitWatchdog:
		p.handleWatchdog(t, r)
	case r.exit == exitSetup:
		p.run.Inconclusive(fmt.Sprintf("child for surface%d [%d,%d) could not set up its environment: %s", t.Surface, t.Start, t.End,
			lastLines(r.stderr, 5)))
		p.resolveFailed(t, "child setup failed")
	default:
		p.handleCrash(t, r)
	}
}

func lastLines(s string, n int) string {
	lines := strings.Split(strings.TrimRight(s, "\n"), "\n")
	if len(lines) > n {
		lines = lines[len(lines)-n:]
	}
	return strings.Join(lines, " | ")
}

// continueBatch re-queues the rest of a batch after the child died at idx.
func (p *parent) continueBatch(t *task, idx int) {
	if t.Purpose != "batch" && t.Purpose != "replay" {
		return
	}
	if idx+1 < t.End {
		p.enqueue(&task{Surface: t.Surface, Start: idx + 1, End: t.End, Purpose: t.Purpose})
	}
}

func (p *parent) handleWatchdog(t *task, r *childResult) {
	p.run.Count("children_watchdog", 1)
	if r.last == nil || r.hang == nil {
		p.run.Inconclusive(fmt.Sprintf("watchdog fired in child for surface%d [%d,%d) but journal/hang record unreadable", t.Surface, t.Start, t.End))
		p.resolveFailed(t, "journal unreadable")
		return
	}
	idx := r.last.Idx
	cl := classifyDumps(r.stderr)
	in := r.last.Input
	var sig, msg string
	phase := r.hang.Phase
	if phase == "probe" {
		sig = fmt.Sprintf("lock-held-after-surface%d-%s-%s", t.Surface, r.last.Op, r.hang.Step)
		msg = fmt.Sprintf("after %s of input %d (class %s) returned, the follow-up probe step %q on the same instance did not return within %s",
			r.last.Op, idx, r.last.Class, r.hang.Step, r.hang.Timeout)
	} else {
		tag := r.last.Class
		if r.last.Tag != "" {
			tag = r.last.Tag
		}
		frame := cl.commonFrame
		if frame == "" {
			frame = "unknown"
		}
		sig = fmt.Sprintf("hang-%s-%s", shortFunc(frame), tag)
		msg = fmt.Sprintf("%s (surface%d input %d, class %s) did not return within %s; goroutine is in %s in all %d dumps; "+
			"a concurrent lock probe on the same instance blocked=%v (step %q)", r.last.Op, t.Surface, idx, r.last.Class, r.hang.Timeout,
			frame, cl.dumps, r.hang.SecondaryBlocked, r.hang.SecondaryStep)
	}
	sig = sigSafe(sig)
	witness := map[string]interface{}{"input": in, "surface": t.Surface, "idx": idx, "op": r.last.Op, "class": r.last.Class,
		"phase": phase, "probe_step": r.hang.Step, "watchdog": r.hang.Timeout, "classification": cl.verdict,
		"secondary_lock_probe_blocked": r.hang.SecondaryBlocked, "secondary_lock_probe_step": r.hang.SecondaryStep,
		"galaxy_frames": cl.galaxyFrames, "goroutine_dump": truncate(cl.stack, 6000), "batch_start": t.Start}
	pv := &pendingVerdict{sig: sig, msg: msg, witness: witness, caseID: p.caseID(t.Surface, idx), idx: idx, surface: t.Surface,
		wedged: cl.verdict == "wedged-in-galaxy", taskFrom: t.Start}

	switch t.Purpose {
	case "batch", "replay":
		p.continueBatch(t, idx)
		if phase == "probe" {
			p.run.Count("probes_blocked", 1)
		} else {
			p.run.Count("hangs", 1)
			p.run.Count(fmt.Sprintf("outcome_surface%d_hang", t.Surface), 1)
			// the child could not count the input it is stuck in
			p.run.Eval(1)
			p.run.Count(fmt.Sprintf("inputs_surface%d", t.Surface), 1)
			p.mu.Lock()
			p.grouped["class_"][fmt.Sprintf("surface%d_%s", t.Surface, r.last.Class)]++
			p.grouped["op_"][fmt.Sprintf("surface%d_%s", t.Surface, r.last.Op)]++
			p.mu.Unlock()
			p.run.Nontrivial(fmt.Sprintf("surface%d|%s|%s|hang", t.Surface, r.last.Class, r.last.Op))
		}
		p.mu.Lock()
		confirmed := p.sigConfirmed[sig]
		inFlight := false
		if pv.wedged && !confirmed {
			if _, inFlight = p.sigWaiting[sig]; inFlight {
				// the same shape is being confirmed right now: wait for that verdict instead of re-running again
				p.sigWaiting[sig] = append(p.sigWaiting[sig], pv)
			} else {
				p.sigWaiting[sig] = []*pendingVerdict{}
			}
		}
		p.mu.Unlock()
		if inFlight {
			return
		}
		if pv.wedged && confirmed {
			p.addViolation(evid.Violation{Sig: sig, Msg: msg, Witness: witness, Case: pv.caseID}, true)
			return
		}
		purpose := "confirm-single"
		if !pv.wedged {
			purpose = "rerun-alone"
			p.run.Count("hangs_not_in_galaxy_frames_rerun_alone", 1)
		}
		p.enqueue(&task{Surface: t.Surface, Start: idx, End: idx + 1, Purpose: purpose, Exclusive: true, pending: pv})
	case "confirm-single", "rerun-alone", "confirm-prefix":
		orig := t.pending
		p.run.Count("alone_reruns", 1)
		if idx == orig.idx && cl.verdict == "wedged-in-galaxy" {
			how := "reproduced when the single input was re-run alone on a fresh instance"
			if t.Purpose == "confirm-prefix" {
				how = fmt.Sprintf("state dependent: reproduced when inputs [%d,%d] were re-run alone, not with the single input", t.Start, idx)
			}
			if !orig.wedged {
				// first attempt was not in galaxy frames; the alone run is the deciding one
				orig.sig, orig.msg, orig.witness = sig, msg, witness
			}
			orig.witness["confirmation"] = how
			orig.witness["confirmation_dump"] = truncate(cl.stack, 3000)
			p.mu.Lock()
			p.sigConfirmed[orig.sig] = true
			p.aloneInfo[orig.sig] = how
			waiting := p.sigWaiting[orig.sig]
			delete(p.sigWaiting, orig.sig)
			p.mu.Unlock()
			p.addViolation(evid.Violation{Sig: orig.sig, Msg: orig.msg + " (" + how + ")", Witness: orig.witness, Case: orig.caseID}, true)
			for _, w := range waiting {
				w.witness["confirmation"] = "same signature confirmed by re-running " + orig.caseID + " alone"
				p.addViolation(evid.Violation{Sig: w.sig, Msg: w.msg, Witness: w.witness, Case: w.caseID}, true)
			}
			return
		}
		p.run.Inconclusive(fmt.Sprintf("watchdog fired for %s (%s) but the re-run alone stopped at input %d with classification %q",
			orig.caseID, orig.sig, idx, cl.verdict))
		p.dropWaiting(orig)
	}
}

// resolvePassed: a confirmation child ran to completion, i.e. the hang did not reproduce.
func (p *parent) resolvePassed(t *task) {
	if t.pending == nil {
		return
	}
	pv := t.pending
	p.run.Count("alone_reruns", 1)
	switch t.Purpose {
	case "confirm-single":
		if pv.taskFrom < pv.idx {
			p.enqueue(&task{Surface: pv.surface, Start: pv.taskFrom, End: pv.idx + 1, Purpose: "confirm-prefix", Exclusive: true,
				pending: pv})
			return
		}
		p.run.Inconclusive(fmt.Sprintf("hang %s at %s was classified as wedged in galaxy code but did not reproduce alone", pv.sig, pv.caseID))
		p.dropWaiting(pv)
	case "confirm-prefix":
		p.run.Inconclusive(fmt.Sprintf("hang %s at %s was classified as wedged in galaxy code but did not reproduce alone (single input and batch prefix)",
			pv.sig, pv.caseID))
		p.dropWaiting(pv)
	case "rerun-alone":
		// machine starved the first time; the input is decided by the alone run
		p.run.Count("hangs_cleared_by_rerun_alone", 1)
	}
}

func (p *parent) resolveFailed(t *task, why string) {
	if t.pending != nil {
		p.run.Inconclusive(fmt.Sprintf("could not confirm %s at %s: %s", t.pending.sig, t.pending.caseID, why))
		p.dropWaiting(t.pending)
	}
}

// dropWaiting: the confirmation of a signature failed; the hangs that waited for it stay undecided.
func (p *parent) dropWaiting(pv *pendingVerdict) {
	p.mu.Lock()
	n := len(p.sigWaiting[pv.sig])
	delete(p.sigWaiting, pv.sig)
	p.mu.Unlock()
	if n > 0 {
		p.run.Inconclusive(fmt.Sprintf("%d more hangs with signature %s stay undecided (confirmation failed)", n, pv.sig))
	}
}

func (p *parent) handleCrash(t *task, r *childResult) {
	p.run.Count("children_crashed", 1)
	if r.last == nil {
		p.run.Inconclusive(fmt.Sprintf("child for surface%d [%d,%d) died (exit %d) before journaling an input: %s", t.Surface, t.Start, t.End,
			r.exit, lastLines(r.stderr, 6)))
		p.resolveFailed(t, "child died before the first input")
		return
	}
	idx := r.last.Idx
	if t.Purpose == "batch" || t.Purpose == "replay" {
		p.continueBatch(t, idx)
		// the input the child died in was evaluated, the child could not count it
		p.run.Eval(1)
		p.run.Count(fmt.Sprintf("inputs_surface%d", t.Surface), 1)
		p.run.Nontrivial(fmt.Sprintf("surface%d|%s|%s|crash", t.Surface, r.last.Class, r.last.Op))
	}
	cr := parseCrash(r.stderr)
	if t.pending != nil {
		p.run.Inconclusive(fmt.Sprintf("confirmation of %s at %s crashed instead: %s", t.pending.sig, t.pending.caseID, cr.headline))
		p.dropWaiting(t.pending)
		return
	}
	if cr.kind == "" {
		p.run.Inconclusive(fmt.Sprintf("child for surface%d died at input %d with exit %d (signaled=%v) and no Go crash report: %s",
			t.Surface, idx, r.exit, r.signaled, lastLines(r.stderr, 6)))
		return
	}
	if cr.topGalaxy == "" || isHarnessFrame(cr.origin) {
		p.run.Inconclusive(fmt.Sprintf("child for surface%d crashed at input %d outside galaxy code (%s; origin %s): harness or fake problem",
			t.Surface, idx, cr.headline, cr.origin))
		return
	}
	if undeliverableClass[r.last.Class] {
		p.run.Count("obs_panic_undeliverable_"+r.last.Class, 1)
		p.addObservation(r.last.Class, evid.Violation{Case: p.caseID(t.Surface, idx), Msg: "child process died: " + cr.headline + " in " + cr.topGalaxy,
			Witness: map[string]interface{}{"input": r.last.Input, "surface": t.Surface, "idx": idx, "op": r.last.Op, "class": r.last.Class,
				"crash": cr.headline, "top_galaxy_frame": cr.topGalaxy, "stack": truncate(cr.stack, 3000)}})
		return
	}
	var sig string
	switch cr.kind {
	case "panic":
		sig = fmt.Sprintf("panic-surface%d-%s", t.Surface, shortFunc(cr.topGalaxy))
	default:
		sig = fmt.Sprintf("fatal-%s-surface%d-%s", cr.fatalClass, t.Surface, shortFunc(cr.topGalaxy))
	}
	sig = sigSafe(sig)
	p.run.Count("panics", 1)
	p.run.Count("panics_unrecoverable", 1)
	p.run.Count(fmt.Sprintf("outcome_surface%d_crash", t.Surface), 1)
	msg := fmt.Sprintf("child process died (%s) in %s during %s of surface%d input %d (class %s, journal phase %s); not recoverable at the surface boundary "+
		"(raised on another goroutine or fatal)", cr.headline, cr.topGalaxy, r.last.Op, t.Surface, idx, r.last.Class, r.last.Phase)
	p.addViolation(evid.Violation{Sig: sig, Msg: msg, Case: p.caseID(t.Surface, idx), Witness: map[string]interface{}{
		"input": r.last.Input, "surface": t.Surface, "idx": idx, "op": r.last.Op, "class": r.last.Class, "journal_phase": r.last.Phase,
		"crash": cr.headline, "origin_frame": cr.origin, "top_galaxy_frame": cr.topGalaxy, "stack": truncate(cr.stack, 6000),
		"batch_start": t.Start}}, true)
}

// sigSafe: signatures are single tokens (known_findings.txt is whitespace separated).
func sigSafe(s string) string {
	return strings.Join(strings.Fields(s), "_")
}

func truncate(s string, n int) string {
	if len(s) <= n {
		return s
	}
	return s[:n] + "\n...[truncated]"
}

func witnessSize(v evid.Violation) int {
	if m, ok := v.Witness.(map[string]interface{}); ok {
		if in, ok := m["input"]; ok {
			d, _ := json.Marshal(in)
			return len(d)
		}
	}
	d, _ := json.Marshal(v.Witness)
	return len(d)
}

// addObservation keeps the first (smallest) example per undeliverable class; it never reaches run.Violate.
func (p *parent) addObservation(class string, v evid.Violation) {
	p.mu.Lock()
	defer p.mu.Unlock()
	if old, ok := p.observations[class]; !ok || witnessSize(v) < witnessSize(old) {
		v.Sig = ""
		p.observations[class] = v
	}
}

// addViolation keeps the three smallest witnesses per signature.
func (p *parent) addViolation(v evid.Violation, count bool) {
	p.mu.Lock()
	defer p.mu.Unlock()
	if count {
		p.violCount[v.Sig]++
	}
	l := append(p.viol[v.Sig], v)
	sort.SliceStable(l, func(i, j int) bool { return witnessSize(l[i]) < witnessSize(l[j]) })
	if len(l) > 3 {
		l = l[:3]
	}
	p.viol[v.Sig] = l
}

func (p *parent) finish() int {
	p.mu.Lock()
	sigs := make([]string, 0, len(p.viol))
	for s := range p.viol {
		sigs = append(sigs, s)
	}
	sort.Strings(sigs)
	counts := map[string]int{}
	for _, s := range sigs {
		counts[s] = p.violCount[s]
		for _, v := range p.viol[s] {
			if m, ok := v.Witness.(map[string]interface{}); ok {
				m["occurrences_of_this_signature_in_run"] = int64(p.violCount[s]) + p.grouped["sigcount:"][s]
			}
			p.run.Violate(v)
		}
	}
	p.mu.Unlock()
	for s, n := range p.grouped["sigcount:"] {
		counts[s] += int(n)
	}
	if len(counts) > 0 {
		p.run.Set("violation_occurrences", counts)
	}
	if len(p.observations) > 0 {
		obs := map[string]interface{}{}
		for c, v := range p.observations {
			obs["panic_undeliverable_"+c] = map[string]interface{}{"case": v.Case, "observed": v.Msg, "example": v.Witness,
				"why_not_a_violation": "outside C18's statement and not deliverable by a defaulting/validating API server"}
		}
		p.run.Set("observations", obs)
	}
	p.run.Set("inputs_per_generator_class", p.grouped["class_"])
	p.run.Set("inputs_per_operation", p.grouped["op_"])
	p.run.Count("generator_classes_exercised", int64(len(p.grouped["class_"])))
	if len(p.aloneInfo) > 0 {
		p.run.Set("hang_confirmations", p.aloneInfo)
	}
	// the situations the property is about must have been exercised
	for s := 1; s <= 6; s++ {
		if p.fl.Replay == "" && p.run.Counter(fmt.Sprintf("inputs_surface%d", s)) == 0 {
			p.run.Inconclusive(fmt.Sprintf("surface%d evaluated no input", s))
		}
	}
	if p.fl.Replay == "" && p.totals[1] > 0 && p.run.Counter("faults_hit_create_floatingips") == 0 {
		p.run.Inconclusive("no injected fault hit a FloatingIP create (the failed-write paths of the IPAM were not exercised)")
	}
	if p.fl.Replay == "" && p.run.Counter("probes_run") == 0 {
		p.run.Inconclusive("no lock probe was run")
	}
	floor := evid.Tiered(p.fl.Tier, 60, 120)
	if p.fl.Replay != "" {
		floor = 0
	}
	return p.run.Finish(floor)
}

// queueReplay re-runs the batch prefix of a replay file's violation.
func (p *parent) queueReplay(path string) bool {
	data, err := os.ReadFile(path)
	if err != nil {
		fmt.Println("cannot read replay file:", err)
		return false
	}
	var rf struct {
		Seed      int64 `json:"seed"`
		Tier      string
		Violation struct {
			Witness struct {
				Surface    int `json:"surface"`
				Idx        int `json:"idx"`
				BatchStart int `json:"batch_start"`
			} `json:"witness"`
		} `json:"violation"`
	}
	if err := json.Unmarshal(data, &rf); err != nil || rf.Violation.Witness.Surface < 1 || rf.Violation.Witness.Surface > 6 {
		fmt.Println("replay file not understood:", err)
		return false
	}
	p.fl.Seed = rf.Seed
	p.run.Seed = rf.Seed
	if rf.Tier == "thorough" && p.fl.Tier != "thorough" {
		// totals (and with them the generator's class capping) depend on the tier
		p.fl.Tier = "thorough"
		total := 2000000
		wsum := 0
		for _, w := range surfaceWeights {
			wsum += w
		}
		for s := 1; s <= 6; s++ {
			p.totals[s] = total * surfaceWeights[s] / wsum
		}
	}
	w := rf.Violation.Witness
	// the single input first (most witnesses are state independent), then the batch prefix
	p.enqueue(&task{Surface: w.Surface, Start: w.Idx, End: w.Idx + 1, Purpose: "replay"})
	if w.BatchStart < w.Idx {
		p.enqueue(&task{Surface: w.Surface, Start: w.BatchStart, End: w.Idx + 1, Purpose: "replay"})
	}
	return true
}
