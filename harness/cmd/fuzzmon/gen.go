package main

import (
	"encoding/binary"
	"encoding/json"
	"fmt"
	"math/rand"
	"net"
	"strconv"
	"strings"
	"unicode/utf8"

	"verif/harness/evid"
)

// G wraps the PRNG of one input.
type G struct {
	r     *rand.Rand
	total int // inputs of this surface in the run: rare expensive classes are capped in absolute numbers
}

func newG(seed int64, surface, idx, total int) *G {
	return &G{r: evid.NewRng(seed, fmt.Sprintf("fuzzmon-surface%d", surface), idx), total: total}
}

func (g *G) intn(n int) int {
	if n <= 0 {
		return 0
	}
	return g.r.Intn(n)
}
func (g *G) chance(p float64) bool { return g.r.Float64() < p }
func (g *G) pick(ss ...string) string {
	return ss[g.intn(len(ss))]
}

// rare returns true with a probability such that about `want` inputs of the whole run (this surface) take the branch,
// but never more often than pmax. Used for classes that are known to cost a watchdog period or a 5 s poll.
func (g *G) rare(want float64, pmax float64) bool {
	p := pmax
	if g.total > 0 && want/float64(g.total) < p {
		p = want / float64(g.total)
	}
	return g.r.Float64() < p
}

var junkStrings = []string{"", " ", "_", "__", "a_b", "a_b_c_d", "a_b_c_d_e", "pool__", "pool__x", "pool__x_", "-", "-1", "a-", "a--1",
	"a-0", "a-00000000000000000000000000001", "a-99999999999999999999", "NULL", "null", "nil", "<nil>", "0", "%", "%zz", "%00", "..",
	"../..", "/", "\\", "\"", "'", "{}", "[]", "[null]", "null_", "\x00", "\xff\xfe", "‮", "日本語", "ﬁ", "a b", "a\tb", "a\nb", ",", ";",
	"=", "@", "a@b@c", "a/b/c", "~", "1~2", "$(id)", "`id`", "true", "1e309", "-0", "0x10", "९", "statefulset", "StatefulSet",
	"deployment", "ReplicaSet", "replicaset", "tapp", "dp_", "sts_", "sts_ns_app_app-0", "dp_ns_app_", "_ns_app_app-0"}

func (g *G) junk() string {
	switch g.intn(10) {
	case 0:
		return strings.Repeat(g.pick("a", "_", "-", "0", "%", "é"), 1+g.intn(300))
	case 1:
		b := make([]byte, g.intn(24))
		for i := range b {
			b[i] = byte(g.intn(256))
		}
		return string(b)
	case 2:
		return g.pick(junkStrings...) + g.pick(junkStrings...)
	default:
		return g.pick(junkStrings...)
	}
}

var (
	nsNames  = []string{"ns1", "ns2", "kube-system", "default"}
	appNames = []string{"app", "web", "db-main", "sts-xxx", "dp-xxx", "crd-xxx", "a"}
)

// name: mostly a sane name, sometimes junk.
func (g *G) name(sane []string) string {
	if g.chance(0.8) {
		return g.pick(sane...)
	}
	return g.junk()
}

func u32ip(v uint32) string {
	b := make(net.IP, 4)
	binary.BigEndian.PutUint32(b, v)
	return b.String()
}

func ipU32(ip net.IP) (uint32, bool) {
	if ip == nil {
		return 0, false
	}
	if v4 := ip.To4(); v4 != nil {
		return binary.BigEndian.Uint32(v4), true
	}
	if len(ip) == 16 {
		return binary.BigEndian.Uint32(ip[12:16]), true
	}
	return 0, false
}

// pool addresses of the base configuration (see baseConfig) and boundary addresses
var interestingIPs = []string{"10.49.27.205", "10.49.27.216", "10.49.27.217", "10.49.27.218", "10.173.13.2", "10.173.13.10",
	"10.173.13.13", "10.173.13.15", "10.0.70.2", "10.0.70.20", "255.255.255.240", "255.255.255.254", "0.0.0.2", "0.0.0.9",
	"0.0.0.0", "0.0.0.1", "10.49.27.0", "10.49.27.255", "10.49.27.1", "127.0.0.1", "224.0.0.1", "10.49.27.204", "10.49.27.219"}

func (g *G) ip4() string {
	switch g.intn(6) {
	case 0:
		return u32ip(g.r.Uint32())
	default:
		return g.pick(interestingIPs...)
	}
}

func (g *G) ip6() string {
	return g.pick("::", "::1", "fe80::1", "2001:db8::1", "::ffff:10.49.27.205", "::ffff:a31:1bcd", "2001:db8::ffff:fffe", "::10.49.27.216",
		"1::", "ffff:ffff:ffff:ffff:ffff:ffff:0:1")
}

const maxRangeWidth = 1 << 16

// ipRange renders one requested range: single address, a~b (width <= 2^16), touching 0.0.0.0, IPv6 literals, reversed,
// malformed. Ranges ending at 255.255.255.255 are only produced by endMaxRange.
func (g *G) ipRange() string {
	switch g.intn(14) {
	case 0:
		return g.ip4()
	case 1, 2, 3:
		// inside or around a configured pool
		base, _ := ipU32(net.ParseIP(g.pick(interestingIPs...)))
		lo := base - uint32(g.intn(4))
		if lo > base {
			lo = 0
		}
		hi := lo + uint32(g.intn(12))
		if hi < lo || hi == 0xffffffff {
			hi = lo
		}
		return u32ip(lo) + "~" + u32ip(hi)
	case 4:
		// wide but capped
		lo := g.r.Uint32()
		w := uint32(g.intn(maxRangeWidth))
		if lo > 0xffffffff-w-1 {
			lo = 0xffffffff - w - 1
		}
		return u32ip(lo) + "~" + u32ip(lo+w)
	case 5:
		// touching 0.0.0.0
		return "0.0.0.0~" + u32ip(uint32(g.intn(300)))
	case 6:
		return "0.0.0.0"
	case 7:
		// just below the top of the address space
		w := uint32(1 + g.intn(20))
		return u32ip(0xfffffffe-w) + "~255.255.255.254"
	case 8:
		return g.ip6()
	case 9:
		// IPv6 literals: galaxy orders them by their last 4 bytes
		a, b := g.ip6(), g.ip6()
		return a + "~" + b
	case 10:
		// reversed
		return "10.49.27.218~10.49.27.216"
	case 11:
		return g.pick("10.49.27.216~", "~10.49.27.216", "~", "10.49.27.216~10.49.27.217~10.49.27.218", "10.49.27.216-10.49.27.218",
			"10.49.27.216/30", "10.49.27", "10.49.27.256", " 10.49.27.216", "10.49.27.216 ~ 10.49.27.218", "1.2.3.4~abc")
	case 12:
		return g.ip4() + "~" + g.ip6()
	default:
		return g.junk()
	}
}

// endMaxRange renders a range whose last address is 255.255.255.255 (width <= 2^16).
func (g *G) endMaxRange() string {
	switch g.intn(5) {
	case 0:
		return "255.255.255.255"
	case 1:
		return "255.255.255.250~255.255.255.255"
	case 2:
		return u32ip(0xffffffff-uint32(g.intn(maxRangeWidth))) + "~255.255.255.255"
	case 3:
		return "::ffff:255.255.255.250~::ffff:255.255.255.255"
	default:
		return "255.255.255.255~255.255.255.255"
	}
}

// rangesOK is the harness-side guard that keeps requested/configured ranges at <= 2^16 addresses, so that a slow but
// finite walk is never mistaken for a hang. It looks at every "a~b" in the text (raw and JSON-decoded).
func rangesOK(text string) bool {
	if !rangeScan(text) {
		return false
	}
	if strings.Contains(text, "\\u") || strings.Contains(text, "\\U") {
		var v interface{}
		if json.Unmarshal([]byte(text), &v) == nil {
			ok := true
			walkStrings(v, func(s string) {
				if !rangeScan(s) {
					ok = false
				}
			})
			return ok
		}
	}
	return true
}

func walkStrings(v interface{}, f func(string)) {
	switch x := v.(type) {
	case string:
		f(x)
		if strings.ContainsAny(x, "{[") {
			var inner interface{}
			if json.Unmarshal([]byte(x), &inner) == nil {
				walkStrings(inner, f)
			}
		}
	case []interface{}:
		for _, e := range x {
			walkStrings(e, f)
		}
	case map[string]interface{}:
		for k, e := range x {
			f(k)
			walkStrings(e, f)
		}
	}
}

func isIPChar(c byte) bool {
	return (c >= '0' && c <= '9') || (c >= 'a' && c <= 'f') || (c >= 'A' && c <= 'F') || c == ':' || c == '.'
}

func rangeScan(s string) bool {
	for i := 0; i < len(s); i++ {
		if s[i] != '~' {
			continue
		}
		l := i
		for l > 0 && isIPChar(s[l-1]) {
			l--
		}
		r := i + 1
		for r < len(s) && isIPChar(s[r]) {
			r++
		}
		a, okA := ipU32(net.ParseIP(s[l:i]))
		b, okB := ipU32(net.ParseIP(s[i+1 : r]))
		if okA && okB && a <= b && b-a >= maxRangeWidth {
			return false
		}
	}
	return true
}

// endsAtMax reports whether the text contains an address or range whose last address is 255.255.255.255.
func endsAtMax(s string) bool {
	return strings.Contains(s, "255.255.255.255") || strings.Contains(strings.ToLower(s), "ffff:ffff\"") ||
		strings.Contains(strings.ToLower(s), "ffff:ffff]")
}

var mutTokens = []string{"null", "true", "false", "0", "-1", "1e999", "4294967295", "4294967296", "18446744073709551616", "\"\"", "[]", "{}",
	"[null]", "{\"a\":null}", "[[[[[[[[[[]]]]]]]]]]", "\\u0000", "\\", "\"", ",", ":", "~", "255.255.255.254", "0.0.0.0", "::", "\x00",
	"\xff", "%00", "é"}

// mutate applies 1..4 byte-level mutations.
func (g *G) mutate(b []byte) []byte {
	out := append([]byte(nil), b...)
	n := 1 + g.intn(4)
	for k := 0; k < n; k++ {
		if len(out) == 0 {
			out = []byte(g.pick(mutTokens...))
			continue
		}
		pos := g.intn(len(out))
		switch g.intn(9) {
		case 0: // bit flip
			out[pos] ^= 1 << uint(g.intn(8))
		case 1: // random byte
			out[pos] = byte(g.intn(256))
		case 2: // delete a span
			end := pos + 1 + g.intn(8)
			if end > len(out) {
				end = len(out)
			}
			out = append(out[:pos], out[end:]...)
		case 3: // truncate
			out = out[:pos]
		case 4: // insert token
			tok := []byte(g.pick(mutTokens...))
			out = append(out[:pos], append(tok, out[pos:]...)...)
		case 5: // duplicate a span
			end := pos + 1 + g.intn(16)
			if end > len(out) {
				end = len(out)
			}
			span := append([]byte(nil), out[pos:end]...)
			out = append(out[:end], append(span, out[end:]...)...)
		case 6: // swap structural char
			const st = "{}[]\",:"
			out[pos] = st[g.intn(len(st))]
		case 7: // replace a digit run by an extreme number
			if out[pos] >= '0' && out[pos] <= '9' {
				end := pos
				for end < len(out) && out[end] >= '0' && out[end] <= '9' {
					end++
				}
				tok := []byte(g.pick("0", "255", "256", "65535", "65536", "2147483648", "4294967295", "99999999999999999999"))
				out = append(out[:pos], append(tok, out[end:]...)...)
			} else {
				out[pos] = byte('0' + g.intn(10))
			}
		case 8: // nest
			out = append([]byte("["), append(out, ']')...)
		}
	}
	if len(out) > 64<<10 {
		out = out[:64<<10]
	}
	return out
}

// jsonJunk builds a nested junk JSON value.
func (g *G) jsonJunk(depth int) interface{} {
	k := g.intn(9)
	if depth <= 0 && k >= 6 {
		k = g.intn(6)
	}
	switch k {
	case 0:
		return nil
	case 1:
		return g.chance(0.5)
	case 2:
		return []interface{}{0, -1, 1.5, 4294967296.0, 1e300}[g.intn(5)]
	case 3:
		return g.junk()
	case 4:
		return g.ipRange()
	case 5:
		return map[string]interface{}{}
	case 6:
		n := g.intn(4)
		l := make([]interface{}, n)
		for i := range l {
			l[i] = g.jsonJunk(depth - 1)
		}
		return l
	case 7:
		n := g.intn(4)
		m := map[string]interface{}{}
		for i := 0; i < n; i++ {
			m[g.pick("name", "ip", "ips", "common", "ipinfos", "request_ip_range", "gateway", "vlan", "namespace", "interface", "x", "")] = g.jsonJunk(depth - 1)
		}
		return m
	default:
		return []interface{}{nil}
	}
}

func mustJSON(v interface{}) string {
	d, err := json.Marshal(v)
	if err != nil {
		return fmt.Sprintf("%q", fmt.Sprint(v))
	}
	return string(d)
}

// show bounds what is journaled for one string.
func show(s string) string {
	if !utf8.ValidString(s) {
		s = "go-quoted:" + strconv.Quote(s)
	}
	if len(s) > 4096 {
		return s[:4096] + fmt.Sprintf("...[%d bytes]", len(s))
	}
	return s
}
