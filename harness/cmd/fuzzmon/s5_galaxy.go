package main

import (
	"bytes"
	gocontext "context"
	"encoding/json"
	"fmt"
	"io"
	"net/http"
	"net/http/httptest"
	"net/url"
	"os"
	"path/filepath"
	"regexp"
	"strings"
	"time"

	corev1 "k8s.io/api/core/v1"
	networkv1 "k8s.io/api/networking/v1"
	metav1 "k8s.io/apimachinery/pkg/apis/meta/v1"
	k8sfake "k8s.io/client-go/kubernetes/fake"
	"tkestack.io/galaxy/pkg/api/cniutil"
	galaxyapi "tkestack.io/galaxy/pkg/api/galaxy"
	"tkestack.io/galaxy/pkg/api/galaxy/constant"
	"tkestack.io/galaxy/pkg/api/k8s"
	"tkestack.io/galaxy/pkg/galaxy"
	"tkestack.io/galaxy/pkg/galaxy/options"
	"tkestack.io/galaxy/pkg/network/portmapping"
	"verif/harness/fakes"
)

// fake CNI plugins: trivial shell scripts printing fixed results (DEL prints nothing).
var cniScripts = map[string]string{
	"fzcni-ok":    `{"cniVersion":"0.2.0","ip4":{"ip":"10.1.2.3/24","gateway":"10.1.2.1","routes":[{"dst":"0.0.0.0/0"}]},"dns":{}}`,
	"fzcni-cur":   `{"cniVersion":"0.3.1","interfaces":[{"name":"eth0","sandbox":"/x"}],"ips":[{"version":"4","interface":0,"address":"10.1.2.4/24","gateway":"10.1.2.1"}],"dns":{}}`,
	"fzcni-noip4": `{"cniVersion":"0.2.0","ip6":{"ip":"fd00::2/64"},"dns":{}}`,
	"fzcni-v6in4": `{"cniVersion":"0.2.0","ip4":{"ip":"fd00::2/64"},"dns":{}}`,
	"fzcni-junk":  `this is not json`,
	"fzcni-empty": ``,
}

const failScript = "#!/bin/sh\nif [ \"$CNI_COMMAND\" = \"DEL\" ]; then exit 0; fi\necho '{\"cniVersion\":\"0.2.0\",\"code\":100,\"msg\":\"boom\"}'\nexit 1\n"

var galaxyNetworkConf = `[
 {"name":"net-ok","type":"fzcni-ok","cniVersion":"0.2.0"},
 {"name":"net-cur","type":"fzcni-cur","cniVersion":"0.3.1"},
 {"name":"net-noip4","type":"fzcni-noip4","cniVersion":"0.2.0"},
 {"name":"net-v6in4","type":"fzcni-v6in4","cniVersion":"0.2.0"},
 {"name":"net-junk","type":"fzcni-junk","cniVersion":"0.2.0"},
 {"name":"net-empty","type":"fzcni-empty","cniVersion":"0.2.0"},
 {"name":"net-fail","type":"fzcni-fail","cniVersion":"0.2.0"},
 {"name":"net-nobin","type":"fzcni-missing","cniVersion":"0.2.0"},
 {"name":"net-badver","type":"fzcni-ok","cniVersion":"9.9.9"},
 {"type":"fzcni-ok"}
]`

var knownNetworks = []string{"net-ok", "net-ok", "net-cur", "net-noip4", "net-v6in4", "net-junk", "net-empty", "net-fail", "net-nobin", "net-badver",
	"fzcni-ok", "dir-ok", "dir-list", "dir-sub", "dir-notype", "nosuch"}

type surf5 struct {
	c       *child
	dir     string
	binDir  string
	confDir string
	kube    *k8sfake.Clientset
	pmh     *portmapping.PortMappingHandler
	pe      *policyEnv
	g       *galaxy.Galaxy
	h       http.Handler
	idRe    *regexp.Regexp
}

// cniIn is one input of the galaxy daemon surface.
type cniIn struct {
	kind       string // cni | parse-networks | parse-cni-args | cni-request | get-network-config | galaxy-conf
	pod        *corev1.Pod
	podPresent bool
	method     string
	body       []byte
	delBody    []byte
	text       string
	files      map[string]string // relative path -> content ("" + trailing "/" = directory, "->x" = symlink to x)
	netName    string
	isAdd      bool
}

func (s *surf5) setup(c *child) error {
	s.c = c
	s.dir = filepath.Join(c.dir, "s5")
	s.binDir = filepath.Join(s.dir, "bin")
	s.confDir = filepath.Join(s.dir, "net.d")
	if err := os.MkdirAll(s.binDir, 0755); err != nil {
		return err
	}
	if err := os.MkdirAll(filepath.Join(s.confDir, "sub"), 0755); err != nil {
		return err
	}
	for name, out := range cniScripts {
		script := fmt.Sprintf("#!/bin/sh\nif [ \"$CNI_COMMAND\" = \"DEL\" ]; then exit 0; fi\ncat <<'EOF'\n%s\nEOF\n", out)
		if err := os.WriteFile(filepath.Join(s.binDir, name), []byte(script), 0755); err != nil {
			return err
		}
	}
	if err := os.WriteFile(filepath.Join(s.binDir, "fzcni-fail"), []byte(failScript), 0755); err != nil {
		return err
	}
	confs := map[string]string{
		"10-ok.conf":         `{"name":"dir-ok","type":"fzcni-ok","cniVersion":"0.2.0","kubeconfig":"/x"}`,
		"20-list.conflist":   `{"name":"dir-list","cniVersion":"0.2.0","plugins":[{"type":"fzcni-ok"}]}`,
		"30-junk.conf":       `{not json`,
		"40-notype.json":     `{"name":"dir-notype"}`,
		"50-empty.conf":      ``,
		"60-nolist.conflist": `{"name":"x"}`,
		"sub/10-sub.conf":    `{"name":"dir-sub","type":"fzcni-cur","cniVersion":"0.3.1"}`,
	}
	for n, t := range confs {
		if err := os.WriteFile(filepath.Join(s.confDir, n), []byte(t), 0644); err != nil {
			return err
		}
	}
	s.idRe = regexp.MustCompile("^" + containerPrefix(c.pid) + "[0-9a-z]+$")
	s.kube = k8sfake.NewSimpleClientset()
	s.pmh = portmapping.New("")
	s.pmh.Interface = fakes.NewIPTables(nil)
	batch := c.t.Start / batchSize
	if batch%2 == 1 {
		s.pe = newPolicyEnv()
		// a policy that selects the generated pods (app=web in ns1) and one that lists ingress rules
		np := &networkv1.NetworkPolicy{ObjectMeta: metav1.ObjectMeta{Name: "resident", Namespace: "ns1"},
			Spec: networkv1.NetworkPolicySpec{PodSelector: metav1.LabelSelector{MatchLabels: map[string]string{"app": "web"}},
				PolicyTypes: []networkv1.PolicyType{networkv1.PolicyTypeIngress},
				Ingress: []networkv1.NetworkPolicyIngressRule{{From: []networkv1.NetworkPolicyPeer{{PodSelector: &metav1.LabelSelector{
					MatchLabels: map[string]string{"app": "db"}}}}}}}}
		_ = s.pe.polIdx.Add(np)
		_ = s.pe.pm.AddPolicy(np)
	}
	var conf galaxy.JsonConf
	if err := json.Unmarshal([]byte(galaxyNetworkConf), &conf.NetworkConf); err != nil {
		return err
	}
	conf.DefaultNetworks = [][]string{{"net-ok"}, {"net-ok", "net-cur"}, {"net-cur"}, {"dir-ok"}}[batch%4]
	if batch%3 == 2 {
		conf.ENIIPNetwork = "net-cur"
	}
	g, err := s.newGalaxy(conf)
	if err != nil {
		return err
	}
	s.g, s.h = g, g.VerifHandler()
	return nil
}

func (s *surf5) newGalaxy(conf galaxy.JsonConf) (*galaxy.Galaxy, error) {
	opts := options.NewServerRunOptions()
	opts.CNIPaths = []string{s.binDir}
	opts.NetworkConfDir = s.confDir
	if s.pe != nil {
		return galaxy.VerifNew(conf, opts, s.kube, s.pmh, s.pe.pm)
	}
	return galaxy.VerifNew(conf, opts, s.kube, s.pmh, nil)
}

func (s *surf5) close() {
	cleanCNIState(s.c.pid)
}

func (s *surf5) timeout(in *Input) time.Duration {
	if d := in.data.(*cniIn); d.isAdd {
		return 30 * time.Second // the code legitimately polls the API server 5 s for a missing pod
	}
	return 10 * time.Second
}

// genNetworksAnnotation renders k8s.v1.cni.cncf.io/networks in comma or JSON form.
func genNetworksAnnotation(g *G) (string, string, bool) {
	elem := func() map[string]interface{} {
		m := map[string]interface{}{"name": g.pick(knownNetworks...)}
		if g.chance(0.3) {
			m["interface"] = g.pick("eth1", "net1", "", "eth0", g.junk())
		}
		if g.chance(0.2) {
			m["namespace"] = g.pick("ns1", "", g.junk())
		}
		if g.chance(0.1) {
			m["ips"] = g.ip4()
		}
		return m
	}
	switch k := g.intn(100); {
	case k < 18:
		return "", "networks-absent", false
	case k < 36:
		n := 1 + g.intn(3)
		var parts []string
		for i := 0; i < n; i++ {
			p := g.pick(knownNetworks...)
			if g.chance(0.3) {
				p = g.pick("ns1", "kube-system") + "/" + p
			}
			if g.chance(0.3) {
				p += "@" + g.pick("eth1", "net1", "eth0")
			}
			parts = append(parts, p)
		}
		return strings.Join(parts, g.pick(",", ", ", " , ")), "networks-comma", true
	case k < 44:
		return g.pick("a/b/c", "net-ok@a@b", "Net-OK", "net_ok", "-net", "net-ok,", ",", " ", "net-ok;net-cur", "/", "@", "net-ok@", "/net-ok", g.junk()),
			"networks-comma-junk", true
	case k < 62:
		n := 1 + g.intn(3)
		var l []interface{}
		for i := 0; i < n; i++ {
			l = append(l, elem())
		}
		return mustJSON(l), "networks-json", true
	case k < 72:
		return g.pick(`[null]`, `[null,{"name":"net-ok"}]`, `[{"name":"net-ok"},null]`, `[]`, `null`, `[{}]`, `{}`, `{"name":"net-ok"}`, `"net-ok"`,
			`["net-ok"]`, `[[]]`, `[{"name":null}]`, `[{"name":1}]`, `[{"name":"net-ok","interface":null}]`, `[1]`, `[true]`, `[""]`), "networks-json-corner", true
	case k < 82:
		return mustJSON([]interface{}{g.jsonJunk(3), elem()}), "networks-json-nested-junk", true
	case k < 94:
		return string(g.mutate([]byte(mustJSON([]interface{}{elem(), elem()})))), "networks-json-mutated", true
	default:
		return mustJSON(g.jsonJunk(3)), "networks-json-wrong-types", true
	}
}

func genGalaxyArgsAnnotation(g *G) (string, bool) {
	switch k := g.intn(100); {
	case k < 45:
		return "", false
	case k < 65:
		return `{"common":{"ipinfos":[{"ip":"10.49.27.205/24","vlan":2,"gateway":"10.49.27.1"}]}}`, true
	case k < 75:
		return g.pick(`{}`, `{"common":null}`, `{"common":{}}`, `{"common":{"a":null}}`, `{"common":{"ipinfos":null,"x":{"y":[1,2]}}}`, `null`, `[]`,
			`{"common":[]}`, `{"common":"x"}`, `{"common":{"":""}}`, `{"common":{"a=b;c":"d;e=f"}}`), true
	case k < 85:
		return mustJSON(map[string]interface{}{"common": g.jsonJunk(3)}), true
	case k < 95:
		return string(g.mutate([]byte(`{"request_ip_range":[["10.49.27.216~10.49.27.218"]],"common":{"ipinfos":[{"ip":"10.49.27.205/24","vlan":2,"gateway":"10.49.27.1"}]}}`))), true
	default:
		return g.junk(), true
	}
}

func (s *surf5) genPod(g *G, idx int) (*corev1.Pod, string) {
	name := g.pick("web-1", "web-2", "db-1", "api-1")
	if g.chance(0.08) {
		name = g.pick("a b", "x;y", "k=v", "", "..", strings.Repeat("n", 300), g.junk())
	}
	ns := g.pick("ns1", "ns1", "ns2")
	if g.chance(0.05) {
		ns = g.junk()
	}
	pod := &corev1.Pod{ObjectMeta: metav1.ObjectMeta{Name: name, Namespace: ns, UID: "uid-5", Labels: map[string]string{"app": g.pick("web", "db", "api")}},
		Spec: eniPodSpec(g.chance(0.3))}
	ann := map[string]string{}
	nets, class, ok := genNetworksAnnotation(g)
	if ok {
		ann[constant.MultusCNIAnnotation] = nets
	}
	if a, ok := genGalaxyArgsAnnotation(g); ok {
		if !rangesOK(a) {
			a = `{}`
		}
		ann[constant.ExtendedCNIArgsAnnotation] = a
	}
	if g.chance(0.25) {
		ann[k8s.PortMappingPortsAnnotation] = g.pick("", "[]", "junk", `[{"hostPort":1}]`)
	}
	if len(ann) > 0 || g.chance(0.5) {
		pod.Annotations = ann
	}
	np := g.intn(3)
	if g.chance(0.5) {
		np = 0
	}
	for i := 0; i < np; i++ {
		hp := int32(0)
		if g.chance(0.5) {
			hp = int32(20000 + g.intn(30000))
		}
		if g.chance(0.05) {
			hp = []int32{-1, 65535, 65536, 1 << 30}[g.intn(4)]
		}
		pod.Spec.Containers[0].Ports = append(pod.Spec.Containers[0].Ports, corev1.ContainerPort{HostPort: hp,
			ContainerPort: []int32{80, 53, 0, -1, 65536}[g.intn(5)], Protocol: corev1.Protocol(g.pick("TCP", "UDP", "", "SCTP", "tcp", "junk")),
			HostIP: g.pick("", "", "10.0.0.1", "junk")})
	}
	if g.chance(0.05) {
		pod.Spec.HostNetwork = true
	}
	return pod, class
}

func (s *surf5) cniBody(g *G, cmd, containerID string, pod *corev1.Pod, variant int) []byte {
	args := fmt.Sprintf("IgnoreUnknown=1;K8S_POD_NAMESPACE=%s;K8S_POD_NAME=%s;K8S_POD_INFRA_CONTAINER_ID=%s", pod.Namespace, pod.Name, containerID)
	env := map[string]interface{}{"CNI_COMMAND": cmd, "CNI_CONTAINERID": containerID, "CNI_NETNS": "/proc/1/ns/net", "CNI_IFNAME": "eth0",
		"CNI_PATH": s.binDir, "CNI_ARGS": args}
	config := []byte(`{"cniVersion":"0.2.0","name":"galaxy","type":"galaxy-sdn"}`)
	switch variant {
	case 1: // drop one key
		delete(env, g.pick("CNI_COMMAND", "CNI_CONTAINERID", "CNI_NETNS", "CNI_IFNAME", "CNI_PATH", "CNI_ARGS"))
	case 2: // odd values
		k := g.pick("CNI_COMMAND", "CNI_NETNS", "CNI_IFNAME", "CNI_ARGS", "CNI_PATH")
		switch k {
		case "CNI_COMMAND":
			env[k] = g.pick("add", "VERSION", "CHECK", "", "ADD ", g.junk())
		case "CNI_PATH":
			env[k] = g.pick("", "/nonexistent-fz", "/nonexistent-fz:"+s.binDir, ":::")
		case "CNI_ARGS":
			env[k] = g.pick("", ";", "=", "K8S_POD_NAME", "K8S_POD_NAME=web-1", "K8S_POD_NAMESPACE=ns1", "K8S_POD_NAMESPACE=ns1;K8S_POD_NAME=",
				"K8S_POD_NAMESPACE=;K8S_POD_NAME=web-1", args+";"+g.junk(), strings.Repeat("a=b;", 500), " K8S_POD_NAMESPACE = ns1 ; K8S_POD_NAME = web-1 ")
		default:
			env[k] = g.junk()
		}
	case 3:
		config = []byte(g.pick("", "{", "null", "[]", g.junk()))
	case 4: // wrong types in env
		env[g.pick("CNI_COMMAND", "CNI_ARGS", "X")] = g.jsonJunk(1)
	}
	body, _ := json.Marshal(map[string]interface{}{"env": env, "config": config})
	return body
}

// safeBody is the harness-side guard for mutated bodies: whatever decodes must name a container id of this process and
// CNI paths the harness owns (the daemon turns both into file names and executed binaries).
func (s *surf5) safeBody(body []byte) bool {
	var cr galaxyapi.CNIRequest
	if err := json.Unmarshal(body, &cr); err != nil {
		return true // the daemon's own first decode rejects it as well
	}
	if id, ok := cr.Env[cniutil.CNI_CONTAINERID]; ok && !s.idRe.MatchString(id) {
		return false
	}
	if p, ok := cr.Env[cniutil.CNI_PATH]; ok {
		for _, el := range strings.Split(p, ":") {
			if el != "" && el != s.binDir && el != "/nonexistent-fz" {
				return false
			}
		}
	}
	return true
}

// requestTarget tells which pod a /cni body names (same decode as the daemon: CNIRequest JSON, then k=v;k=v arguments).
func requestTarget(body []byte) (ns, name string, isAdd, ok bool) {
	var cr galaxyapi.CNIRequest
	if err := json.Unmarshal(body, &cr); err != nil {
		return "", "", false, false
	}
	m := map[string]string{}
	for _, kv := range strings.Split(cr.Env[cniutil.CNI_ARGS], ";") {
		part := strings.SplitN(kv, "=", 2)
		if len(part) == 2 {
			m[strings.TrimSpace(part[0])] = strings.TrimSpace(part[1])
		}
	}
	return m[k8s.K8S_POD_NAMESPACE], m[k8s.K8S_POD_NAME], cr.Env[cniutil.CNI_COMMAND] == cniutil.COMMAND_ADD, true
}

func (s *surf5) gen(idx int) *Input {
	g := newG(s.c.t.Seed, 5, idx, s.c.t.Total)
	d := &cniIn{method: "POST"}
	show := map[string]interface{}{}
	class, op := "", ""
	id := fmt.Sprintf("%s%d", containerPrefix(s.c.pid), idx)
	k := g.intn(100)
	switch {
	case k < 72:
		d.kind = "cni"
		pod, nclass := s.genPod(g, idx)
		d.pod, d.podPresent, d.isAdd = pod, true, true
		op = "cni ADD+DEL"
		class = nclass
		variant := 0
		switch {
		case k >= 68:
			op, d.isAdd = "cni DEL", false
			class = "del-unknown-container"
			d.body = s.cniBody(g, "DEL", id, pod, 0)
		case k >= 52:
			variant = 1 + g.intn(4)
			class = []string{"", "body-missing-env-key", "body-odd-env-value", "body-odd-config", "body-wrong-types"}[variant]
			d.body = s.cniBody(g, "ADD", id, pod, variant)
		case k >= 44:
			class = "body-mutated"
			d.body = g.mutate(s.cniBody(g, "ADD", id, pod, 0))
		case k >= 42:
			class = "body-junk"
			d.body = []byte(g.pick("", "null", "{}", `{"env":null}`, `{"env":{}}`, `[]`, `{"env":{"CNI_COMMAND":"ADD"}}`, g.junk()))
		default:
			d.body = s.cniBody(g, "ADD", id, pod, 0)
		}
		if !s.safeBody(d.body) {
			class = "body-valid"
			d.body = s.cniBody(g, "ADD", id, pod, 0)
		}
		// keep pods present: the staged pod follows whatever pod the request names (a missing pod costs a 5 s poll,
		// which is legitimate but is only paid for a handful of inputs per run)
		if ns, name, isAdd, ok := requestTarget(d.body); ok && isAdd {
			if name == "" {
				if g.rare(2, 0.001) {
					d.podPresent = false
					class = "add-pod-name-empty"
				} else {
					class = "body-valid"
					d.body = s.cniBody(g, "ADD", id, pod, 0)
					ns, name, _, _ = requestTarget(d.body)
				}
			}
			if name != "" {
				pod.Namespace, pod.Name = ns, name
			}
		}
		if d.isAdd && d.podPresent && g.rare(3, 0.002) {
			d.podPresent = false
			class = "add-pod-absent-from-api"
		}
		if d.isAdd {
			d.delBody = s.cniBody(g, "DEL", id, pod, 0)
		}
		if g.chance(0.05) {
			d.method = "GET"
		}
		show["pod"] = showPod(pod)
		if len(pod.Spec.Containers[0].Ports) > 0 {
			show["ports"] = pod.Spec.Containers[0].Ports
		}
		show["pod_present"] = d.podPresent
		show["method"] = d.method
		show["body"] = show_(string(d.body))
	case k < 79:
		d.kind, op = "parse-networks", "k8s.ParsePodNetworkAnnotation"
		d.text, class, _ = genNetworksAnnotation(g)
		show["text"] = show_(d.text)
	case k < 84:
		d.kind, op, class = "parse-cni-args", "cniutil.ParseCNIArgs", "cni-args"
		d.text = g.pick("", ";", "=", "a=b", "a=b;c=d", "a", "a=b=c", ";;;=;=", " a = b ; c = d ", strings.Repeat("k=v;", 1000), g.junk())
		if g.chance(0.3) {
			d.text = string(g.mutate([]byte("IgnoreUnknown=1;K8S_POD_NAMESPACE=ns1;K8S_POD_NAME=web-1;K8S_POD_INFRA_CONTAINER_ID=abc")))
		}
		show["text"] = show_(d.text)
	case k < 89:
		d.kind, op, class = "cni-request", "galaxyapi.CniRequestToPodRequest", "cni-request-bytes"
		pod, _ := s.genPod(g, idx)
		d.body = s.cniBody(g, g.pick("ADD", "DEL"), id, pod, g.intn(5))
		if g.chance(0.5) {
			d.body = g.mutate(d.body)
			class = "cni-request-bytes-mutated"
		}
		show["body"] = show_(string(d.body))
	case k < 95:
		d.kind, op, class = "get-network-config", "cniutil.GetNetworkConfig", "hostile-conf-dir"
		d.netName = g.pick("a", "b", "", "nosuch", g.junk())
		d.files = map[string]string{}
		n := g.intn(6)
		for i := 0; i < n; i++ {
			name := g.pick("10-a", "20-b", "x", ".hidden", "z z", "é") + g.pick(".conf", ".json", ".conflist", ".conf.bak", "", ".CONF")
			if g.chance(0.3) {
				name = g.pick("sub", "sub2", "d.conf") + "/" + name
			}
			content := g.pick(`{"name":"a","type":"fzcni-ok"}`, `{"name":"a"}`, `{"name":"b","plugins":[{"type":"fzcni-ok"}]}`, `{"name":"b","plugins":[]}`,
				`{"name":"b","plugins":null}`, `{"plugins":[{"type":"x"}]}`, `{"name":1,"type":2}`, `null`, ``, `[]`, `{"name":"a","type":"x","cniVersion":5}`,
				`{"name":"b","cniVersion":"0.2.0","plugins":[null]}`, `{"name":"b","plugins":[{}]}`, `{"name":"b","plugins":"x"}`, "->.", "->nosuch",
				string(g.mutate([]byte(`{"name":"a","type":"fzcni-ok","cniVersion":"0.2.0"}`))), strings.Repeat("[", 5000), g.junk())
			d.files[name] = content
		}
		if g.chance(0.1) {
			d.files["d.conf/"] = ""
		}
		show["network"] = show_(d.netName)
		fs := map[string]string{}
		for n, c := range d.files {
			fs[show_(n)] = show_(c)
		}
		show["files"] = fs
	default:
		d.kind, op = "galaxy-conf", "galaxy.VerifNew+cni ADD+DEL"
		conf := map[string]interface{}{}
		var ncs []interface{}
		for i := 0; i < g.intn(4); i++ {
			nc := map[string]interface{}{"type": "fzcni-ok", "name": g.pick("net-ok", "n2", "n3")}
			switch g.intn(6) {
			case 0:
				delete(nc, "type")
			case 1:
				nc["type"] = g.jsonJunk(1)
			case 2:
				nc["name"] = g.jsonJunk(1)
			case 3:
				delete(nc, "name")
			}
			ncs = append(ncs, nc)
		}
		if g.chance(0.1) {
			ncs = append(ncs, nil)
		}
		conf["NetworkConf"] = ncs
		conf["DefaultNetworks"] = []interface{}{g.pick("net-ok", "n2", "nosuch", "")}
		if g.chance(0.2) {
			conf["DefaultNetworks"] = g.jsonJunk(2)
		}
		if g.chance(0.3) {
			conf["ENIIPNetwork"] = g.pick("net-ok", "nosuch", "")
		}
		d.text = mustJSON(conf)
		class = "galaxy-json-conf"
		if g.chance(0.3) {
			d.text = string(g.mutate([]byte(d.text)))
			class = "galaxy-json-conf-mutated"
		}
		pod, _ := s.genPod(g, idx)
		delete(pod.Annotations, constant.MultusCNIAnnotation)
		pod.Name, pod.Namespace = "web-1", "ns1"
		d.pod, d.podPresent, d.isAdd = pod, true, true
		d.body = s.cniBody(g, "ADD", id, pod, 0)
		d.delBody = s.cniBody(g, "DEL", id, pod, 0)
		show["json_conf"] = show_(d.text)
		show["pod"] = showPod(pod)
	}
	return &Input{Class: class, Op: op, Show: show, data: d}
}

func (s *surf5) post(h http.Handler, method string, body []byte) *httptest.ResponseRecorder {
	req := &http.Request{Method: method, URL: &url.URL{Path: "/cni"}, Proto: "HTTP/1.1", ProtoMajor: 1, ProtoMinor: 1, Header: http.Header{},
		Host: "galaxy", RequestURI: "/cni", Body: io.NopCloser(bytes.NewReader(body)), ContentLength: int64(len(body))}
	rec := httptest.NewRecorder()
	h.ServeHTTP(rec, req)
	return rec
}

func cniOutcome(code int) string {
	switch {
	case code == 200:
		return outResult
	case code == 400 || code == 404 || code == 405:
		return outDecode
	}
	return outError
}

func (s *surf5) stagePod(pod *corev1.Pod) func() {
	ctx := gocontext.TODO()
	if _, err := s.kube.CoreV1().Pods(pod.Namespace).Create(ctx, pod.DeepCopy(), metav1.CreateOptions{}); err != nil {
		s.c.run.Count("harness_pod_staging_failed", 1)
		return func() {}
	}
	return func() { _ = s.kube.CoreV1().Pods(pod.Namespace).Delete(ctx, pod.Name, metav1.DeleteOptions{}) }
}

func (s *surf5) call(in *Input) (string, string) {
	d := in.data.(*cniIn)
	switch d.kind {
	case "cni":
		if d.podPresent {
			defer s.stagePod(d.pod)()
		}
		rec := s.post(s.h, d.method, d.body)
		out := cniOutcome(rec.Code)
		detail := fmt.Sprintf("%d %s", rec.Code, truncate(rec.Body.String(), 200))
		if d.delBody != nil {
			r2 := s.post(s.h, "POST", d.delBody)
			detail += fmt.Sprintf(" | DEL %d %s", r2.Code, truncate(r2.Body.String(), 100))
		}
		return out, detail
	case "parse-networks":
		nets, err := k8s.ParsePodNetworkAnnotation(d.text)
		if err != nil {
			return outDecode, err.Error()
		}
		// what resolveNetworks does with the elements
		for _, n := range nets {
			if n != nil {
				_ = n.Name
			}
		}
		return outResult, fmt.Sprintf("%d networks", len(nets))
	case "parse-cni-args":
		m, err := cniutil.ParseCNIArgs(d.text)
		if err != nil {
			return outDecode, err.Error()
		}
		return outResult, fmt.Sprintf("%d args", len(m))
	case "cni-request":
		req, err := galaxyapi.CniRequestToPodRequest(d.body)
		if err != nil {
			return outDecode, err.Error()
		}
		return outResult, req.String()
	case "get-network-config":
		dir := filepath.Join(s.dir, fmt.Sprintf("gn%d", in.Idx))
		defer os.RemoveAll(dir)
		_ = os.MkdirAll(dir, 0755)
		for name, content := range d.files {
			p := filepath.Join(dir, name)
			if strings.HasSuffix(name, "/") {
				_ = os.MkdirAll(p, 0755)
				continue
			}
			_ = os.MkdirAll(filepath.Dir(p), 0755)
			if strings.HasPrefix(content, "->") {
				_ = os.Symlink(strings.TrimPrefix(content, "->"), p)
				continue
			}
			_ = os.WriteFile(p, []byte(content), 0644)
		}
		data, err := cniutil.GetNetworkConfig(d.netName, dir)
		if err != nil {
			return outError, err.Error()
		}
		return outResult, truncate(string(data), 100)
	case "galaxy-conf":
		var conf galaxy.JsonConf
		if err := json.Unmarshal([]byte(d.text), &conf); err != nil {
			return outDecode, err.Error()
		}
		g, err := s.newGalaxy(conf)
		if err != nil {
			return outError, err.Error()
		}
		defer s.stagePod(d.pod)()
		h := g.VerifHandler()
		rec := s.post(h, "POST", d.body)
		r2 := s.post(h, "POST", d.delBody)
		return cniOutcome(rec.Code), fmt.Sprintf("%d %s | DEL %d", rec.Code, truncate(rec.Body.String(), 200), r2.Code)
	}
	return outEnv, "unknown kind"
}

func (s *surf5) probe(in *Input, step func(string)) {
	step("portmapping-handler-lock(CloseHostports)")
	s.pmh.CloseHostports("fzprobe_ns1")
	step("cni-DEL-of-an-unknown-container-through-the-same-handler")
	probePod := &corev1.Pod{ObjectMeta: metav1.ObjectMeta{Name: "fzprobe", Namespace: "ns1"}}
	s.post(s.h, "POST", s.cniBody(nil, "DEL", containerPrefix(s.c.pid)+"probe", probePod, 0))
	step("VerifCleanIPtables")
	_ = s.g.VerifCleanIPtables(containerPrefix(s.c.pid) + "probe")
	if s.pe != nil {
		s.pe.probe(step)
	}
}
