package main

import (
	gocontext "context"
	"encoding/json"
	"fmt"
	"net"
	"net/http"
	"net/http/httptest"
	"sync/atomic"
	"time"

	"github.com/emicklei/go-restful"
	corev1 "k8s.io/api/core/v1"
	extfake "k8s.io/apiextensions-apiserver/pkg/client/clientset/clientset/fake"
	apierrors "k8s.io/apimachinery/pkg/api/errors"
	"k8s.io/apimachinery/pkg/api/resource"
	metav1 "k8s.io/apimachinery/pkg/apis/meta/v1"
	"k8s.io/apimachinery/pkg/runtime"
	"k8s.io/apimachinery/pkg/runtime/schema"
	dynfake "k8s.io/client-go/dynamic/fake"
	k8sfake "k8s.io/client-go/kubernetes/fake"
	k8stesting "k8s.io/client-go/testing"
	"tkestack.io/galaxy/pkg/api/galaxy/constant"
	"tkestack.io/galaxy/pkg/ipam/api"
	"tkestack.io/galaxy/pkg/ipam/apis/galaxy/v1alpha1"
	galaxyfake "tkestack.io/galaxy/pkg/ipam/client/clientset/versioned/fake"
	"tkestack.io/galaxy/pkg/ipam/cloudprovider/rpc"
	ipamcontext "tkestack.io/galaxy/pkg/ipam/context"
	"tkestack.io/galaxy/pkg/ipam/floatingip"
	"tkestack.io/galaxy/pkg/ipam/schedulerplugin"
	"tkestack.io/galaxy/pkg/ipam/schedulerplugin/util"
)

// baseFloatingIPs is the small configuration every galaxy-ipam instance starts from: three ordinary pools, one pool just
// below the top of the address space, one just above 0.0.0.0, and a one-address pool that only the harness uses as an
// informer barrier.
const baseFloatingIPs = `[{"routableSubnet":"10.49.27.0/24","ips":["10.49.27.205","10.49.27.216~10.49.27.218"],"subnet":"10.49.27.0/24","gateway":"10.49.27.1","vlan":2},` +
	`{"routableSubnet":"10.173.13.0/24","ips":["10.173.13.2","10.173.13.10~10.173.13.13","10.173.13.15"],"subnet":"10.173.13.0/24","gateway":"10.173.13.1","vlan":2},` +
	`{"nodeSubnets":["10.0.1.2/24","10.0.2.2/24"],"ips":["10.0.70.2~10.0.70.20"],"subnet":"10.0.70.0/24","gateway":"10.0.70.1"},` +
	`{"nodeSubnets":["10.250.0.0/24"],"ips":["255.255.255.240~255.255.255.254"],"subnet":"255.255.255.0/24","gateway":"255.255.255.1"},` +
	`{"nodeSubnets":["10.251.0.0/24"],"ips":["0.0.0.2~0.0.0.9"],"subnet":"0.0.0.0/24","gateway":"0.0.0.1"},` +
	`{"nodeSubnets":["10.252.0.0/24"],"ips":["10.252.9.9"],"subnet":"10.252.9.0/24","gateway":"10.252.9.1"}]`

const sentinelIP = "10.252.9.9"

// GVRs the dynamic fake client must be able to LIST (galaxy always asks for version v1alpha1).
var crdGroups = []string{"test.org", "apps.example.com", ""}
var crdPlurals = []string{"foos", "bars", "tapps", ""}

type okCloudProvider struct{}

func (okCloudProvider) AssignIP(in *rpc.AssignIPRequest) (*rpc.AssignIPReply, error) {
	return &rpc.AssignIPReply{Success: true}, nil
}
func (okCloudProvider) UnAssignIP(in *rpc.UnAssignIPRequest) (*rpc.UnAssignIPReply, error) {
	return &rpc.UnAssignIPReply{Success: true}, nil
}

// ipamEnv is one galaxy-ipam instance over fake clients.
type ipamEnv struct {
	ctx       *ipamcontext.IPAMContext
	stop      chan struct{}
	kube      *k8sfake.Clientset
	gcli      *galaxyfake.Clientset
	ext       *extfake.Clientset
	dyn       *dynfake.FakeDynamicClient
	plugin    *schedulerplugin.FloatingIPPlugin
	container *restful.Container
	nodes     []corev1.Node
	barrierN  int
	fault     faultState
}

func mkNode(name, addr string, hasAddr bool) corev1.Node {
	n := corev1.Node{ObjectMeta: metav1.ObjectMeta{Name: name}}
	if hasAddr {
		n.Status.Addresses = []corev1.NodeAddress{{Type: corev1.NodeHostName, Address: name},
			{Type: corev1.NodeInternalIP, Address: addr}}
	}
	return n
}

func baseNodes() []corev1.Node {
	return []corev1.Node{
		mkNode("n-27", "10.49.27.3", true), mkNode("n-173", "10.173.13.4", true), mkNode("n-01", "10.0.1.5", true),
		mkNode("n-top", "10.250.0.5", true), mkNode("n-bot", "10.251.0.5", true), mkNode("n-noip", "", false),
		mkNode("n-junk", "garbage", true), mkNode("n-out", "10.99.99.9", true), mkNode("n-v6", "fe80::1", true),
		mkNode("n-empty", "", true),
	}
}

type ipamEnvOpts struct {
	configMapMode bool             // empty conf.FloatingIPs; configuration comes from the floatingip-config ConfigMap
	floatingIPs   string           // JSON text of the floatingips list (base config when empty)
	kubeObjs      []runtime.Object // extra core/apps objects
	fipObjs       []runtime.Object // FloatingIP / Pool objects present in the store before Init
	crdObjs       []runtime.Object
	cloudProvider bool
	noInit        bool
}

// newIPAMEnv builds the plugin the way pkg/ipam/schedulerplugin/floatingip_plugin_test.go does (fake clients, started
// informers, NewFloatingIPPlugin + Init), with two differences that keep the environment honest: the dynamic fake knows
// the list kinds of the custom resources the generators use, and pods/binding is served by a reactor that behaves like
// the API server (the stock tracker would replace the Pod by the Binding object).
func newIPAMEnv(o ipamEnvOpts) (*ipamEnv, error) {
	e := &ipamEnv{nodes: baseNodes()}
	fips := o.floatingIPs
	if fips == "" {
		fips = baseFloatingIPs
	}
	objs := []runtime.Object{}
	for i := range e.nodes {
		objs = append(objs, &e.nodes[i])
	}
	objs = append(objs, o.kubeObjs...)
	if o.configMapMode {
		objs = append(objs, &corev1.ConfigMap{ObjectMeta: metav1.ObjectMeta{Name: "floatingip-config", Namespace: "kube-system"},
			Data: map[string]string{"floatingips": fips}})
	}
	e.kube = k8sfake.NewSimpleClientset(objs...)
	e.kube.PrependReactor("create", "pods", e.bindingReactor)
	e.kube.PrependReactor("*", "*", e.fault.reactor)
	e.gcli = galaxyfake.NewSimpleClientset(o.fipObjs...)
	e.gcli.PrependReactor("*", "*", e.fault.reactor)
	e.ext = extfake.NewSimpleClientset(o.crdObjs...)
	listKinds := map[schema.GroupVersionResource]string{}
	for _, g := range crdGroups {
		for _, p := range crdPlurals {
			listKinds[schema.GroupVersionResource{Group: g, Version: "v1alpha1", Resource: p}] = "FzList"
		}
	}
	e.dyn = dynfake.NewSimpleDynamicClientWithCustomListKinds(runtime.NewScheme(), listKinds)
	e.ctx = ipamcontext.NewIPAMContext(e.kube, e.gcli, e.ext, e.dyn)
	e.stop = make(chan struct{})

	var conf schedulerplugin.Conf
	if !o.configMapMode {
		if err := json.Unmarshal([]byte(`{"floatingips":`+fips+`}`), &conf); err != nil {
			return nil, fmt.Errorf("base config does not decode: %v", err)
		}
	}
	var err error
	e.plugin, err = schedulerplugin.NewFloatingIPPlugin(conf, e.ctx)
	if err != nil {
		return nil, err
	}
	// same order as server.Start: the plugin registers its FloatingIP reservation handler first, then the informers
	// start (context.CreateTestIPAMContext starts them before, which leaves the FloatingIP informer unstarted)
	e.ctx.StartInformers(e.stop)
	if o.cloudProvider {
		e.plugin.VerifSetCloudProvider(okCloudProvider{})
	}
	if !o.noInit {
		if err := e.plugin.Init(); err != nil {
			return nil, fmt.Errorf("plugin init: %v", err)
		}
	}
	e.mountAPI()
	return e, nil
}

func (e *ipamEnv) close() {
	if e.stop != nil {
		close(e.stop)
		e.stop = nil
	}
}

// bindingReactor serves pods/binding like the API server: NotFound for a missing pod, otherwise it sets the node name and
// merges the binding's annotations into the pod.
func (e *ipamEnv) bindingReactor(action k8stesting.Action) (bool, runtime.Object, error) {
	ca, ok := action.(k8stesting.CreateAction)
	if !ok || action.GetSubresource() != "binding" {
		return false, nil, nil
	}
	b, ok := ca.GetObject().(*corev1.Binding)
	if !ok {
		return false, nil, nil
	}
	gvr := schema.GroupVersionResource{Version: "v1", Resource: "pods"}
	obj, err := e.kube.Tracker().Get(gvr, action.GetNamespace(), b.Name)
	if err != nil {
		return true, nil, err
	}
	pod, ok := obj.(*corev1.Pod)
	if !ok {
		return true, nil, apierrors.NewInternalError(fmt.Errorf("not a pod"))
	}
	pod = pod.DeepCopy()
	if pod.Spec.NodeName != "" {
		return true, nil, apierrors.NewConflict(schema.GroupResource{Resource: "pods/binding"}, b.Name,
			fmt.Errorf("pod %s is already assigned to node %q", b.Name, pod.Spec.NodeName))
	}
	pod.Spec.NodeName = b.Target.Name
	if pod.Annotations == nil {
		pod.Annotations = map[string]string{}
	}
	for k, v := range b.Annotations {
		pod.Annotations[k] = v
	}
	if err := e.kube.Tracker().Update(gvr, pod, action.GetNamespace()); err != nil {
		return true, nil, err
	}
	return true, b, nil
}

// mountAPI mounts api.Controller and api.PoolController exactly as server.startAPIServer does, on a private container.
func (e *ipamEnv) mountAPI() {
	ws := new(restful.WebService)
	ws.Path("/v1").Consumes(restful.MIME_JSON).Produces(restful.MIME_JSON)
	c := api.NewController(e.plugin.GetIpam(), e.ctx.PodLister, e.plugin.Release)
	ws.Route(ws.GET("/ip").To(c.ListIPs).
		Param(ws.QueryParameter("keyword", "keyword").DataType("string")).
		Param(ws.QueryParameter("poolName", "pool name").DataType("string")).
		Param(ws.QueryParameter("appName", "app name").DataType("string")).
		Param(ws.QueryParameter("podName", "pod name").DataType("string")).
		Param(ws.QueryParameter("namespace", "namespace").DataType("string")).
		Param(ws.QueryParameter("appType", "app type").DataType("string")).
		Param(ws.QueryParameter("page", "page number").DataType("integer")).
		Param(ws.QueryParameter("size", "page size").DataType("integer").DefaultValue("10")).
		Param(ws.QueryParameter("sort", "sort").DataType("string").DefaultValue("ip asc")).
		Writes(api.ListIPResp{}))
	ws.Route(ws.POST("/ip").To(c.ReleaseIPs).Reads(api.ReleaseIPReq{}).Writes(api.ReleaseIPResp{}))
	pc := api.PoolController{PoolLister: e.ctx.PoolLister, Client: e.ctx.GalaxyClient, LockPoolFunc: e.plugin.LockDpPool,
		IPAM: e.plugin.GetIpam()}
	ws.Route(ws.GET("/pool/{name}").To(pc.Get).Param(ws.PathParameter("name", "pool name").DataType("string").Required(true)).
		Writes(api.GetPoolResp{}))
	ws.Route(ws.POST("/pool").To(pc.CreateOrUpdate).Reads(api.Pool{}).Writes(api.UpdatePoolResp{}))
	ws.Route(ws.DELETE("/pool/{name}").To(pc.Delete).Param(ws.PathParameter("name", "pool name").DataType("string").Required(true)))
	e.container = restful.NewContainer()
	e.container.Add(ws)
}

var barrierTimeouts int64

// waitFor is a harness barrier (informer caches are asynchronous); it never decides anything.
func waitFor(cond func() bool) bool {
	deadline := time.Now().Add(3 * time.Second)
	for i := 0; ; i++ {
		if cond() {
			return true
		}
		if time.Now().After(deadline) {
			atomic.AddInt64(&barrierTimeouts, 1)
			return false
		}
		if i < 50 {
			time.Sleep(100 * time.Microsecond)
		} else {
			time.Sleep(2 * time.Millisecond)
		}
	}
}

// fipBarrier waits until the reservation handler of the IPAM has handled every FloatingIP event delivered so far: a
// reserved sentinel object is created and deleted and its effect on the IPAM is awaited (events are handled in order).
func (e *ipamEnv) fipBarrier() bool {
	ipam := e.plugin.GetIpam()
	ip := net.ParseIP(sentinelIP)
	e.barrierN++
	key := fmt.Sprintf("fzbarrier-%d", e.barrierN)
	obj := &v1alpha1.FloatingIP{TypeMeta: metav1.TypeMeta{Kind: constant.ResourceKind, APIVersion: constant.ApiVersion},
		ObjectMeta: metav1.ObjectMeta{Name: sentinelIP, Labels: map[string]string{constant.ReserveFIPLabel: ""}},
		Spec:       v1alpha1.FloatingIPSpec{Key: key}}
	if _, err := e.gcli.GalaxyV1alpha1().FloatingIPs().Create(gocontext.TODO(), obj, metav1.CreateOptions{}); err != nil {
		_ = e.gcli.GalaxyV1alpha1().FloatingIPs().Delete(gocontext.TODO(), sentinelIP, metav1.DeleteOptions{})
		return false
	}
	ok := waitFor(func() bool { f, _ := ipam.ByIP(ip); return f.Key == key })
	_ = e.gcli.GalaxyV1alpha1().FloatingIPs().Delete(gocontext.TODO(), sentinelIP, metav1.DeleteOptions{})
	ok2 := waitFor(func() bool { f, _ := ipam.ByIP(ip); return f.Key != key })
	return ok && ok2
}

func eniPodSpec(want bool) corev1.PodSpec {
	spec := corev1.PodSpec{Containers: []corev1.Container{{Name: "c"}}}
	if want {
		spec.Containers[0].Resources.Requests = corev1.ResourceList{corev1.ResourceName(constant.ResourceName): *resource.NewQuantity(1, resource.DecimalSI)}
	}
	return spec
}

// probe is the follow-up on the same instance: it must return under the watchdog whatever the previous call did.
func (e *ipamEnv) probe(pod *corev1.Pod, step func(string)) {
	name, ns := "fzprobe-0", "ns1"
	var ann map[string]string
	var owners []metav1.OwnerReference
	if pod != nil {
		name, ns, ann, owners = pod.Name, pod.Namespace, pod.Annotations, pod.OwnerReferences
	}
	step("pod-lock+node-subnet-lock(Filter-for-the-same-pod-name)")
	probePod := &corev1.Pod{ObjectMeta: metav1.ObjectMeta{Name: name, Namespace: ns,
		OwnerReferences: []metav1.OwnerReference{{Kind: "StatefulSet", Name: "fzprobe"}}}, Spec: eniPodSpec(true)}
	_, _, _ = e.plugin.Filter(probePod, e.nodes[:3])
	step("ipam-cache-rlock(ByPrefix)")
	ipam := e.plugin.GetIpam()
	_, _ = ipam.ByPrefix("")
	step("ipam-cache-lock(allocate+release-of-a-scratch-key)")
	subnets, _ := ipam.NodeSubnetsByIPRanges(nil)
	for _, s := range subnets.List() {
		if _, ipnet, err := net.ParseCIDR(s); err == nil && s != "10.252.0.0/24" {
			if ip, err := ipam.AllocateInSubnet("fzprobe_scratch", ipnet, floatingip.Attr{}); err == nil {
				_ = ipam.Release("fzprobe_scratch", ip)
			}
			break
		}
	}
	_, _, _ = ipam.ReleaseIPs(map[string]string{"0.0.0.0": "fzprobe_scratch"})
	step("dp-pool-lock(LockDpPool-of-the-pod-pool-prefix)")
	prefix := "dp_ns1_app_"
	if pod != nil {
		k := &corev1.Pod{ObjectMeta: metav1.ObjectMeta{Name: name, Namespace: ns, Annotations: ann, OwnerReferences: owners}}
		if ko, err := util.FormatKey(k); err == nil && ko != nil {
			prefix = ko.PoolPrefix()
		}
	}
	e.plugin.LockDpPool(prefix)()
}

// flushFaultCounters moves the fault counters of the instance into the run.
func (e *ipamEnv) flushFaultCounters(c *child) {
	armed, hits := e.fault.take()
	if armed > 0 {
		c.run.Count("faults_armed", armed)
	}
	for k, n := range hits {
		c.run.Count("faults_hit_"+k, n)
		c.run.Count("faults_hit", n)
	}
}

// drainReleaseEvents hands queued release events to unbind, as the plugin's loop goroutines do.
func (e *ipamEnv) drainReleaseEvents() (n int, firstErr error) {
	for i := 0; i < 64; i++ {
		pod, ok := e.plugin.VerifTakeReleaseEvent()
		if !ok {
			return
		}
		n++
		if err := e.plugin.VerifUnbind(pod); err != nil && firstErr == nil {
			firstErr = err
		}
	}
	return
}

// serve sends one request through the mounted API.
func (e *ipamEnv) serve(req *http.Request) *httptest.ResponseRecorder {
	rec := httptest.NewRecorder()
	e.container.ServeHTTP(rec, req)
	return rec
}
