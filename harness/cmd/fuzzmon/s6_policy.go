package main

import (
	"fmt"
	"time"

	corev1 "k8s.io/api/core/v1"
	networkv1 "k8s.io/api/networking/v1"
	metav1 "k8s.io/apimachinery/pkg/apis/meta/v1"
	"k8s.io/apimachinery/pkg/util/intstr"
	k8sfake "k8s.io/client-go/kubernetes/fake"
	"k8s.io/client-go/tools/cache"
	"tkestack.io/galaxy/pkg/policy"
	"verif/harness/fakes"
)

// policyEnv is one PolicyManager over the strict kernel fakes and harness-owned indexers.
type policyEnv struct {
	ipset  *fakes.IPSet
	ipt    *fakes.IPTables
	podIdx cache.Indexer
	nsIdx  cache.Indexer
	polIdx cache.Indexer
	pm     *policy.PolicyManager
	pods   []*corev1.Pod
	kube   *k8sfake.Clientset
}

func mkPod(name, ns, ip, node string, labels map[string]string) *corev1.Pod {
	return &corev1.Pod{ObjectMeta: metav1.ObjectMeta{Name: name, Namespace: ns, Labels: labels},
		Spec: corev1.PodSpec{NodeName: node}, Status: corev1.PodStatus{PodIP: ip, Phase: corev1.PodRunning}}
}

func newPolicyEnv() *policyEnv {
	e := &policyEnv{}
	e.ipset = fakes.NewIPSet()
	e.ipt = fakes.NewIPTables(e.ipset)
	mk := func() cache.Indexer {
		return cache.NewIndexer(cache.MetaNamespaceKeyFunc, cache.Indexers{cache.NamespaceIndex: cache.MetaNamespaceIndexFunc})
	}
	e.podIdx, e.nsIdx, e.polIdx = mk(), mk(), mk()
	e.pods = []*corev1.Pod{
		mkPod("web-1", "ns1", "10.1.1.11", "fznode", map[string]string{"app": "web"}),
		mkPod("web-2", "ns1", "10.1.1.12", "other", map[string]string{"app": "web", "tier": "front"}),
		mkPod("db-1", "ns1", "10.1.1.13", "fznode", map[string]string{"app": "db", "tier": "back"}),
		mkPod("noip", "ns1", "", "fznode", map[string]string{"app": "web"}),
		mkPod("api-1", "ns2", "10.1.2.11", "fznode", map[string]string{"app": "api"}),
		mkPod("web-x", "ns2", "10.1.2.12", "fznode", map[string]string{"app": "web"}),
		mkPod("v6", "ns3", "fd00::5", "fznode", nil),
	}
	var objs []interface{}
	for _, p := range e.pods {
		_ = e.podIdx.Add(p)
		objs = append(objs, p)
	}
	for n, l := range map[string]map[string]string{"ns1": {"team": "a"}, "ns2": {"team": "b"}, "ns3": nil} {
		_ = e.nsIdx.Add(&corev1.Namespace{ObjectMeta: metav1.ObjectMeta{Name: n, Labels: l}})
	}
	e.kube = k8sfake.NewSimpleClientset()
	e.pm = policy.VerifNew(e.kube, e.ipset, e.ipt, "fznode", e.podIdx, e.nsIdx, e.polIdx)
	return e
}

func (e *policyEnv) probe(step func(string)) {
	step("policy-manager-lock(SyncPodChains-of-a-resident-pod)")
	_ = e.pm.SyncPodChains(e.pods[0])
	step("policy-manager-lock(Lock/Unlock)")
	e.pm.Lock()
	e.pm.Unlock() //nolint
	step("fake-kernel-lock(iptables-dump)")
	_ = e.ipt.Dump("filter")
}

// ---- typed generator of valid NetworkPolicies ----

var lblKeys = []string{"app", "tier", "team", "example.com/x", "a-b_c.d"}
var lblVals = []string{"web", "db", "api", "back", "front", "a", "b", ""}

// genSelector returns nil, an empty selector, matchLabels or matchExpressions (all valid).
func genSelector(g *G, allowNil bool) *metav1.LabelSelector {
	k := g.intn(6)
	if k == 0 && allowNil {
		return nil
	}
	switch k {
	case 0, 1:
		return &metav1.LabelSelector{}
	case 2, 3:
		m := map[string]string{}
		for i := 0; i < 1+g.intn(2); i++ {
			m[g.pick(lblKeys...)] = g.pick(lblVals...)
		}
		return &metav1.LabelSelector{MatchLabels: m}
	case 4:
		return &metav1.LabelSelector{MatchLabels: map[string]string{}, MatchExpressions: []metav1.LabelSelectorRequirement{}}
	default:
		var reqs []metav1.LabelSelectorRequirement
		for i := 0; i < 1+g.intn(2); i++ {
			op := metav1.LabelSelectorOperator(g.pick("In", "NotIn", "Exists", "DoesNotExist"))
			r := metav1.LabelSelectorRequirement{Key: g.pick(lblKeys...), Operator: op}
			if op == metav1.LabelSelectorOpIn || op == metav1.LabelSelectorOpNotIn {
				for j := 0; j < 1+g.intn(3); j++ {
					r.Values = append(r.Values, g.pick(lblVals...))
				}
			}
			reqs = append(reqs, r)
		}
		return &metav1.LabelSelector{MatchExpressions: reqs}
	}
}

func genIPBlock(g *G) *networkv1.IPBlock {
	switch g.intn(8) {
	case 0:
		return &networkv1.IPBlock{CIDR: "10.1.1.0/24"}
	case 1:
		return &networkv1.IPBlock{CIDR: "10.1.1.0/24", Except: []string{"10.1.1.8/30"}}
	case 2:
		return &networkv1.IPBlock{CIDR: "0.0.0.0/0"}
	case 3:
		return &networkv1.IPBlock{CIDR: "0.0.0.0/0", Except: []string{"10.0.0.0/8", "192.168.0.0/16", "172.16.0.0/12"}}
	case 4:
		return &networkv1.IPBlock{CIDR: "10.1.1.11/32"}
	case 5:
		return &networkv1.IPBlock{CIDR: "fd00::/8", Except: []string{"fd00:1::/32"}}
	case 6:
		return &networkv1.IPBlock{CIDR: "10.1.1.13/31", Except: []string{"10.1.1.13/32"}}
	default:
		return &networkv1.IPBlock{CIDR: "255.255.255.255/32"}
	}
}

// genPeers: nil, empty, or 1..3 valid peers (ipBlock alone, or pod/namespace selectors).
func genPeers(g *G) []networkv1.NetworkPolicyPeer {
	switch g.intn(8) {
	case 0:
		return nil
	case 1:
		return []networkv1.NetworkPolicyPeer{}
	}
	var peers []networkv1.NetworkPolicyPeer
	for i := 0; i < 1+g.intn(3); i++ {
		switch g.intn(5) {
		case 0:
			peers = append(peers, networkv1.NetworkPolicyPeer{IPBlock: genIPBlock(g)})
		case 1:
			peers = append(peers, networkv1.NetworkPolicyPeer{NamespaceSelector: genSelector(g, false)})
		case 2:
			peers = append(peers, networkv1.NetworkPolicyPeer{PodSelector: genSelector(g, false), NamespaceSelector: genSelector(g, false)})
		default:
			peers = append(peers, networkv1.NetworkPolicyPeer{PodSelector: genSelector(g, false)})
		}
	}
	return peers
}

func genPorts(g *G) []networkv1.NetworkPolicyPort {
	tcp, udp, sctp := corev1.ProtocolTCP, corev1.ProtocolUDP, corev1.ProtocolSCTP
	p80, p53, named := intstr.FromInt(80), intstr.FromInt(53), intstr.FromString("http")
	p1, p65535 := intstr.FromInt(1), intstr.FromInt(65535)
	end := int32(8080)
	switch g.intn(9) {
	case 0:
		return nil
	case 1:
		return []networkv1.NetworkPolicyPort{}
	case 2:
		return []networkv1.NetworkPolicyPort{{}}
	case 3:
		return []networkv1.NetworkPolicyPort{{Protocol: &tcp, Port: &p80}}
	case 4:
		return []networkv1.NetworkPolicyPort{{Protocol: &udp, Port: &p53}, {Protocol: &tcp, Port: &named}}
	case 5:
		return []networkv1.NetworkPolicyPort{{Protocol: &sctp, Port: &p80}}
	case 6:
		return []networkv1.NetworkPolicyPort{{Protocol: &tcp, Port: &p80, EndPort: &end}}
	case 7:
		return []networkv1.NetworkPolicyPort{{Port: &p1}, {Port: &p65535}, {Protocol: &udp}}
	default:
		return []networkv1.NetworkPolicyPort{{Protocol: &tcp}}
	}
}

var policyTypeChoices = [][]networkv1.PolicyType{nil, {networkv1.PolicyTypeIngress}, {networkv1.PolicyTypeEgress},
	{networkv1.PolicyTypeIngress, networkv1.PolicyTypeEgress}, {networkv1.PolicyTypeEgress, networkv1.PolicyTypeIngress}}
var policyTypeNames = []string{"types-unset", "types-ingress", "types-egress", "types-ingress+egress", "types-egress+ingress"}
var ruleShapeNames = []string{"absent", "empty-list", "one-empty-rule", "rules-with-peers", "rules-ports-only",
	"ports-only-or-empty-rule-before-selector-rule", "selector-rule-before-ports-only-or-empty-rule", "ipblock-rules-mixed-with-selector-rules"}

const nRuleShapes = 8

// matchingPeer returns a selector peer that selects resident pods which have a PodIP (app=web/db/api, everything, or
// their namespaces), so that pod events reach the per-rule ipsets of the policy.
func matchingPeer(g *G) networkv1.NetworkPolicyPeer {
	switch g.intn(6) {
	case 0:
		return networkv1.NetworkPolicyPeer{PodSelector: &metav1.LabelSelector{}}
	case 1:
		return networkv1.NetworkPolicyPeer{NamespaceSelector: &metav1.LabelSelector{}}
	case 2:
		return networkv1.NetworkPolicyPeer{NamespaceSelector: &metav1.LabelSelector{MatchLabels: map[string]string{"team": g.pick("a", "b")}}}
	case 3:
		return networkv1.NetworkPolicyPeer{PodSelector: &metav1.LabelSelector{MatchExpressions: []metav1.LabelSelectorRequirement{{
			Key: "app", Operator: metav1.LabelSelectorOpIn, Values: []string{"web", "db", "api"}}}}}
	default:
		return networkv1.NetworkPolicyPeer{PodSelector: &metav1.LabelSelector{MatchLabels: map[string]string{"app": g.pick("web", "db", "api")}}}
	}
}

// orderedRules builds the multi-rule shapes: the position of a rule in spec.ingress / spec.egress matters to code that
// keeps per-rule state.
func orderedRules(g *G, k int) []networkv1.NetworkPolicyIngressRule {
	sel := func() networkv1.NetworkPolicyIngressRule {
		r := networkv1.NetworkPolicyIngressRule{From: []networkv1.NetworkPolicyPeer{matchingPeer(g)}, Ports: genPorts(g)}
		if g.chance(0.3) {
			r.From = append(r.From, matchingPeer(g))
		}
		return r
	}
	hollow := func() networkv1.NetworkPolicyIngressRule {
		switch g.intn(3) {
		case 0:
			return networkv1.NetworkPolicyIngressRule{}
		case 1:
			return networkv1.NetworkPolicyIngressRule{Ports: genPorts(g), From: []networkv1.NetworkPolicyPeer{}}
		default:
			return networkv1.NetworkPolicyIngressRule{Ports: genPorts(g)}
		}
	}
	ipb := func() networkv1.NetworkPolicyIngressRule {
		r := networkv1.NetworkPolicyIngressRule{From: []networkv1.NetworkPolicyPeer{{IPBlock: genIPBlock(g)}}, Ports: genPorts(g)}
		if g.chance(0.3) {
			r.From = append(r.From, networkv1.NetworkPolicyPeer{IPBlock: genIPBlock(g)})
		}
		return r
	}
	var rs []networkv1.NetworkPolicyIngressRule
	switch k {
	case 5:
		for i := 0; i < 1+g.intn(2); i++ {
			rs = append(rs, hollow())
		}
		rs = append(rs, sel())
		if g.chance(0.4) {
			rs = append(rs, sel())
		}
	case 6:
		rs = append(rs, sel())
		rs = append(rs, hollow())
		if g.chance(0.5) {
			rs = append(rs, sel())
		}
	default:
		n := 2 + g.intn(3)
		for i := 0; i < n; i++ {
			switch g.intn(3) {
			case 0:
				rs = append(rs, sel())
			case 1:
				rs = append(rs, ipb())
			default:
				rs = append(rs, networkv1.NetworkPolicyIngressRule{From: []networkv1.NetworkPolicyPeer{{IPBlock: genIPBlock(g)}, matchingPeer(g)}})
			}
		}
		rs[g.intn(len(rs))] = sel()
		rs[g.intn(len(rs))] = ipb()
	}
	return rs
}

// genPolicy enumerates policyTypes x ingress shape x egress shape systematically (shape = idx mod 320) and fills the
// rest randomly. Every policy it returns passes API-server validation.
func genPolicy(g *G, idx int) (*networkv1.NetworkPolicy, string) {
	shape := idx % (5 * nRuleShapes * nRuleShapes)
	ti, ii, ei := shape%5, (shape/5)%nRuleShapes, shape/(5*nRuleShapes)
	np := &networkv1.NetworkPolicy{ObjectMeta: metav1.ObjectMeta{Name: fmt.Sprintf("np-%d", idx%7), Namespace: g.pick("ns1", "ns1", "ns2", "ns3", "ns-without-pods")}}
	np.Spec.PodSelector = *genSelector(g, false)
	np.Spec.PolicyTypes = policyTypeChoices[ti]
	mkIngress := func(k int) []networkv1.NetworkPolicyIngressRule {
		switch k {
		case 0:
			return nil
		case 1:
			return []networkv1.NetworkPolicyIngressRule{}
		case 2:
			return []networkv1.NetworkPolicyIngressRule{{}}
		case 3:
			var rs []networkv1.NetworkPolicyIngressRule
			for i := 0; i < 1+g.intn(3); i++ {
				peers := genPeers(g)
				if len(peers) == 0 {
					peers = []networkv1.NetworkPolicyPeer{{PodSelector: genSelector(g, false)}}
				}
				rs = append(rs, networkv1.NetworkPolicyIngressRule{From: peers, Ports: genPorts(g)})
			}
			return rs
		case 4:
			return []networkv1.NetworkPolicyIngressRule{{Ports: genPorts(g), From: genPeers(g)[:0]}}
		default:
			return orderedRules(g, k)
		}
	}
	mkEgress := func(k int) []networkv1.NetworkPolicyEgressRule {
		in := mkIngress(k)
		if in == nil {
			return nil
		}
		out := make([]networkv1.NetworkPolicyEgressRule, 0, len(in))
		for _, r := range in {
			out = append(out, networkv1.NetworkPolicyEgressRule{To: r.From, Ports: r.Ports})
		}
		return out
	}
	np.Spec.Ingress = mkIngress(ii)
	np.Spec.Egress = mkEgress(ei)
	class := fmt.Sprintf("%s/ingress-%s/egress-%s", policyTypeNames[ti], ruleShapeNames[ii], ruleShapeNames[ei])
	return np, class
}

type polIn struct {
	np    *networkv1.NetworkPolicy
	np2   *networkv1.NetworkPolicy
	focus string
}

type surf6 struct {
	c *child
	e *policyEnv
}

func (s *surf6) setup(c *child) error {
	s.c = c
	s.e = newPolicyEnv()
	// one or two well-formed resident policies, so that chains and sets exist before the generated policy arrives
	if (c.t.Start/batchSize)%2 == 1 {
		tcp := corev1.ProtocolTCP
		p80 := intstr.FromInt(80)
		res := &networkv1.NetworkPolicy{ObjectMeta: metav1.ObjectMeta{Name: "resident", Namespace: "ns1"},
			Spec: networkv1.NetworkPolicySpec{PodSelector: metav1.LabelSelector{MatchLabels: map[string]string{"app": "web"}},
				PolicyTypes: []networkv1.PolicyType{networkv1.PolicyTypeIngress},
				Ingress: []networkv1.NetworkPolicyIngressRule{{From: []networkv1.NetworkPolicyPeer{{PodSelector: &metav1.LabelSelector{
					MatchLabels: map[string]string{"app": "db"}}}}, Ports: []networkv1.NetworkPolicyPort{{Protocol: &tcp, Port: &p80}}}}}}
		_ = s.e.polIdx.Add(res)
		_ = s.e.pm.AddPolicy(res)
	}
	return nil
}

func (s *surf6) close()                          {}
func (s *surf6) timeout(in *Input) time.Duration { return 10 * time.Second }

func (s *surf6) gen(idx int) *Input {
	g := newG(s.c.t.Seed, 6, idx, s.c.t.Total)
	np, class := genPolicy(g, idx)
	d := &polIn{np: np, focus: g.pick("AddPolicy", "SyncPodChains", "SyncPodIPInIPSet", "SyncPodIPInIPSet", "UpdatePod", "DeletePod", "UpdatePolicy", "VerifFullSync",
		"DeletePolicy")}
	np2, _ := genPolicy(g, g.intn(5*nRuleShapes*nRuleShapes))
	np2.Name, np2.Namespace = np.Name, np.Namespace
	d.np2 = np2
	show := map[string]interface{}{"policy": np}
	if d.focus == "UpdatePolicy" {
		show["updated_to"] = np2
	}
	return &Input{Class: class, Op: d.focus, Show: show, data: d}
}

func (s *surf6) call(in *Input) (string, string) {
	d := in.data.(*polIn)
	e := s.e
	_ = e.polIdx.Add(d.np)
	cur := d.np
	defer func() {
		// the policy leaves again whatever happened, so that one hostile policy does not shadow the next
		_ = e.polIdx.Delete(cur)
		_ = e.pm.DeletePolicy(cur)
	}()
	if err := e.pm.AddPolicy(d.np); err != nil {
		return outError, err.Error()
	}
	var firstErr error
	note := func(err error) {
		if err != nil && firstErr == nil {
			firstErr = err
		}
	}
	switch d.focus {
	case "SyncPodChains":
		for _, p := range e.pods {
			note(e.pm.SyncPodChains(p))
		}
	case "SyncPodIPInIPSet":
		for _, p := range e.pods {
			e.pm.SyncPodIPInIPSet(p, true)
		}
		for _, p := range e.pods {
			e.pm.SyncPodIPInIPSet(p, false)
		}
	case "UpdatePod":
		// pod update events for every resident pod (those with a PodIP reach the per-rule ipsets)
		for _, p := range e.pods {
			note(e.pm.UpdatePod(p, p))
		}
	case "DeletePod":
		for _, p := range e.pods {
			note(e.pm.DeletePod(p))
		}
		for _, p := range e.pods {
			note(e.pm.UpdatePod(p, p))
		}
	case "UpdatePolicy":
		_ = e.polIdx.Update(d.np2)
		cur = d.np2
		note(e.pm.UpdatePolicy(d.np, d.np2))
		for _, p := range e.pods[:3] {
			e.pm.SyncPodIPInIPSet(p, true)
		}
	case "VerifFullSync":
		e.pm.VerifFullSync()
		e.pm.VerifFullSync()
	case "DeletePolicy":
		_ = e.polIdx.Delete(d.np)
		note(e.pm.DeletePolicy(d.np))
		e.pm.VerifFullSync()
	}
	if firstErr != nil {
		return outError, firstErr.Error()
	}
	return outResult, fmt.Sprintf("kernel rejects so far: %d", len(e.ipt.Rejects())+len(e.ipset.Rejects()))
}

func (s *surf6) probe(in *Input, step func(string)) { s.e.probe(step) }
