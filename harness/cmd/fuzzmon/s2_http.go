package main

import (
	"bytes"
	"encoding/json"
	"fmt"
	"io"
	"net"
	"net/http"
	"net/url"
	"strings"
	"time"

	corev1 "k8s.io/api/core/v1"
	metav1 "k8s.io/apimachinery/pkg/apis/meta/v1"
	"tkestack.io/galaxy/pkg/api/galaxy/constant"
	"tkestack.io/galaxy/pkg/ipam/api"
	"tkestack.io/galaxy/pkg/ipam/floatingip"
)

// httpIn is one request against the galaxy-ipam API.
type httpIn struct {
	method, path, rawQuery, contentType string
	body                                []byte
	cleanupPools                        bool
}

type surf2 struct {
	c *child
	e *ipamEnv
}

var seedKeys = []string{"sts_ns1_sts-xxx_sts-xxx-0", "sts_ns1_sts-xxx_sts-xxx-1", "dp_ns1_dp-xxx_dp-xxx-5d4f8-abcde", "dp_ns1_dp-xxx_",
	"pool__pool1_", "pool__pool1_dp_ns1_dp-xxx_dp-xxx-5d4f8-zzzzz", "NULL_ns1_NULL_single", "tapp_ns2_app_app-3", "a_b", "garbage",
	"sts__app_app-0", "____", "pool__", "pool__x"}

// seedAllocations gives the instance some allocated addresses with ordinary and odd keys.
func seedAllocations(e *ipamEnv) {
	ipam := e.plugin.GetIpam()
	ips := []string{"10.49.27.205", "10.49.27.216", "10.173.13.2", "10.173.13.10", "10.173.13.11", "10.0.70.2", "10.0.70.3", "10.0.70.4",
		"255.255.255.240", "0.0.0.2", "10.0.70.5", "10.0.70.6", "10.0.70.7", "10.0.70.8"}
	for i, ip := range ips {
		_ = ipam.AllocateSpecificIP(seedKeys[i%len(seedKeys)], net.ParseIP(ip), floatingip.Attr{Policy: constant.ReleasePolicy(i % 3),
			NodeName: []string{"", "n-27"}[i%2], Uid: []string{"", "uid-x"}[(i/2)%2]})
	}
}

func (s *surf2) setup(c *child) error {
	s.c = c
	var err error
	s.e, err = newIPAMEnv(ipamEnvOpts{cloudProvider: (c.t.Start/batchSize)%2 == 1})
	if err != nil {
		return err
	}
	seedAllocations(s.e)
	return nil
}

func (s *surf2) close() { s.e.close() }

func (s *surf2) timeout(in *Input) time.Duration { return 10 * time.Second }

func genQueryValue(g *G, param string) string {
	switch param {
	case "page", "size":
		return g.pick("0", "1", "2", "10", "-1", "99999", "100000", "9999", "10000", "2147483648", "9223372036854775808", "1e3", "0x10", " 1",
			"", "abc", "1.5", "-0", "+1", "१")
	case "sort":
		return g.pick("ip", "ip asc", "ip desc", "namespace asc", "namespace desc", "podname", "podname asc", "podname desc", "policy",
			"policy asc", "policy desc", "IP DESC", "ip  asc", "", "updateTime", ";drop", g.junk())
	case "appType":
		return g.pick("deployment", "statefulset", "statefulsets", "tapp", "TApp", "", "replicaset", "NULL", "null", g.junk())
	case "namespace":
		return g.name(nsNames)
	case "appName":
		return g.name([]string{"sts-xxx", "dp-xxx", "app", "NULL"})
	case "podName":
		return g.name([]string{"sts-xxx-0", "dp-xxx-5d4f8-abcde", "single", "app-3"})
	case "poolName":
		return g.name([]string{"pool1", "pool2", "x"})
	case "keyword":
		return g.pick("", "sts", "_", "ns1", "pool__", "dp_ns1", "10.", g.junk())
	}
	return g.junk()
}

func genReleaseEntry(g *G) map[string]interface{} {
	m := map[string]interface{}{"ip": g.pick(g.ip4(), g.ip4(), g.ip6(), g.junk(), "")}
	if g.chance(0.7) {
		m["appType"] = genQueryValue(g, "appType")
	}
	if g.chance(0.8) {
		m["namespace"] = g.name(nsNames)
	}
	if g.chance(0.8) {
		m["appName"] = g.name([]string{"sts-xxx", "dp-xxx", "app", "NULL"})
	}
	if g.chance(0.8) {
		m["podName"] = g.name([]string{"sts-xxx-0", "sts-xxx-1", "dp-xxx-5d4f8-abcde", "single", "app-3"})
	}
	if g.chance(0.3) {
		m["poolName"] = g.name([]string{"pool1", "x"})
	}
	if g.chance(0.2) {
		m["policy"] = []interface{}{0, 1, 2, 3, 65535, 65536, -1, "1"}[g.intn(8)]
	}
	if g.chance(0.1) {
		m["updateTime"] = g.pick("2019-04-22T09:13:06Z", "", "yesterday", "0001-01-01T00:00:00Z")
	}
	return m
}

func (s *surf2) gen(idx int) *Input {
	g := newG(s.c.t.Seed, 2, idx, s.c.t.Total)
	d := &httpIn{method: "GET", contentType: "application/json"}
	class := ""
	switch k := g.intn(100); {
	case k < 35:
		// GET /v1/ip with any subset of the parameters
		d.path = "/v1/ip"
		params := []string{"keyword", "poolName", "appName", "podName", "namespace", "appType", "page", "size", "sort"}
		var parts []string
		for _, p := range params {
			if g.chance(0.4) {
				v := genQueryValue(g, p)
				if g.chance(0.9) {
					v = url.QueryEscape(v)
				}
				parts = append(parts, p+"="+v)
				if g.chance(0.05) {
					parts = append(parts, p+"="+url.QueryEscape(genQueryValue(g, p)))
				}
			}
		}
		d.rawQuery = strings.Join(parts, "&")
		class = "get-ip-params"
		if g.chance(0.1) {
			d.rawQuery = string(g.mutate([]byte(d.rawQuery)))
			class = "get-ip-mutated-query"
		}
		if g.chance(0.05) {
			d.rawQuery = g.pick("%", "%zz", "&&&", "=", "a=%ff%fe", "page=1;size=2", strings.Repeat("size=1&", 200), g.junk())
			class = "get-ip-junk-query"
		}
	case k < 60:
		d.method, d.path = "POST", "/v1/ip"
		n := g.intn(4)
		ips := []interface{}{}
		for i := 0; i < n; i++ {
			ips = append(ips, genReleaseEntry(g))
		}
		body := mustJSON(map[string]interface{}{"ips": ips})
		class = "post-ip-valid"
		switch m := g.intn(10); {
		case m < 5:
		case m < 7:
			body = string(g.mutate([]byte(body)))
			class = "post-ip-mutated"
		case m < 8:
			body = mustJSON(g.jsonJunk(3))
			class = "post-ip-wrong-types"
		case m < 9:
			body = body[:g.intn(len(body)+1)]
			class = "post-ip-truncated"
		default:
			body = g.pick("", "null", `{"ips":null}`, `{"ips":[null]}`, `{"ips":[{}]}`, `{"ips":[{"ip":null}]}`, `[]`, g.junk())
			class = "post-ip-corner"
		}
		d.body = []byte(body)
	case k < 80:
		d.method, d.path = "POST", "/v1/pool"
		size := []interface{}{0, 1, 2, 3, 5, -1, 40, 2147483647, 4294967296, 9.5, "3", nil}[g.intn(12)]
		pre := g.chance(0.4)
		body := mustJSON(map[string]interface{}{"name": g.name([]string{"pool1", "pool2", "x", "p-3"}), "size": size, "preAllocateIP": pre})
		class = "post-pool-valid"
		d.cleanupPools = true
		switch m := g.intn(10); {
		case m < 6:
		case m < 8:
			body = string(g.mutate([]byte(body)))
			class = "post-pool-mutated"
		case m < 9:
			body = mustJSON(g.jsonJunk(2))
			class = "post-pool-wrong-types"
		default:
			body = g.pick("", "null", `{}`, `{"name":null}`, `{"name":"","size":1}`, `{"name":"x","size":null,"preAllocateIP":"yes"}`,
				`{"name":"pool1","size":1e400,"preAllocateIP":true}`, g.junk())
			class = "post-pool-corner"
		}
		d.body = []byte(body)
	case k < 95:
		d.method = g.pick("GET", "DELETE")
		name := g.name([]string{"pool1", "pool2", "x", "p-3", "nosuch"})
		d.path = "/v1/pool/" + name
		class = strings.ToLower(d.method) + "-pool-name"
		if g.chance(0.1) {
			d.path = g.pick("/v1/pool/", "/v1/pool", "/v1/pool//", "/v1/pool/a/b", "/v1/pool/%2e%2e", "/v1/pool/"+strings.Repeat("a", 5000))
			class = strings.ToLower(d.method) + "-pool-odd-path"
		}
		if g.chance(0.3) {
			d.rawQuery = g.pick("name=other", "x", "%zz")
		}
	default:
		d.method = g.pick("PUT", "PATCH", "HEAD", "OPTIONS", "DELETE", "POST", "GET", "", "get")
		d.path = g.pick("/v1/ip", "/v1/pool", "/v1", "/", "/v1/ip/1", "/v2/ip", "/v1/pool/x/y", "/v1/filter")
		d.body = []byte(g.pick("", "{}", g.junk()))
		class = "other-method-or-path"
	}
	if d.method == "POST" {
		d.contentType = g.pick("application/json", "application/json", "application/json", "application/json; charset=utf-8", "", "text/plain",
			"application/xml", "APPLICATION/JSON", g.junk())
	}
	in := &Input{Class: class, Op: d.method + " " + routeOf(d.path), data: d,
		Show: map[string]interface{}{"method": d.method, "path": show(d.path), "query": show(d.rawQuery), "content_type": d.contentType,
			"body": show(string(d.body))}}
	if f := genFault(g, 0.12); f != nil {
		in.Fault = f
		in.Show.(map[string]interface{})["api_fault"] = f
	}
	return in
}

func routeOf(path string) string {
	switch {
	case path == "/v1/ip":
		return "/v1/ip"
	case path == "/v1/pool":
		return "/v1/pool"
	case strings.HasPrefix(path, "/v1/pool/"):
		return "/v1/pool/{name}"
	}
	return "other"
}

func buildRequest(d *httpIn) *http.Request {
	req := &http.Request{Method: d.method, URL: &url.URL{Path: d.path, RawQuery: d.rawQuery}, Proto: "HTTP/1.1", ProtoMajor: 1, ProtoMinor: 1,
		Header: http.Header{}, Host: "galaxy-ipam", RequestURI: d.path, RemoteAddr: "127.0.0.1:1"}
	if d.contentType != "" {
		req.Header.Set("Content-Type", d.contentType)
	}
	req.Header.Set("Accept", "application/json")
	req.Body = io.NopCloser(bytes.NewReader(d.body))
	req.ContentLength = int64(len(d.body))
	return req
}

// httpOutcome maps a response to an outcome class. A 400 is a decode error only when the body really does not decode
// into the request type; 404/405/406/415 from the router never reached a handler.
func httpOutcome(d *httpIn, code int, respBody string) string {
	switch {
	case code >= 200 && code < 300:
		return outResult
	case code == 405 || code == 406 || code == 415:
		return outDecode
	case code == 404:
		if strings.Contains(respBody, "pool") {
			return outError // the handler looked the pool up
		}
		return outDecode
	case code == 400 && d.method == "POST":
		var probe interface{}
		switch routeOf(d.path) {
		case "/v1/ip":
			probe = &api.ReleaseIPReq{}
		case "/v1/pool":
			probe = &api.Pool{}
		}
		if probe != nil && json.Unmarshal(d.body, probe) != nil {
			return outDecode
		}
		return outError
	}
	return outError
}

func (s *surf2) call(in *Input) (string, string) {
	d := in.data.(*httpIn)
	s.e.fault.arm(in.Fault)
	rec := s.e.serve(buildRequest(d))
	s.e.fault.disarm()
	body := rec.Body.String()
	out := httpOutcome(d, rec.Code, body)
	if d.cleanupPools && rec.Code < 300 {
		// give pre-allocated pool addresses back so that the instance keeps free addresses for later inputs
		ipam := s.e.plugin.GetIpam()
		if fips, err := ipam.ByPrefix("pool__"); err == nil && len(fips) > 6 {
			m := map[string]string{}
			for _, f := range fips {
				if f.PodUid == "" && strings.HasSuffix(f.Key, "_") {
					m[f.IP.String()] = f.Key
				}
			}
			_, _, _ = ipam.ReleaseIPs(m)
		}
	}
	return out, fmt.Sprintf("%d %s", rec.Code, truncate(body, 200))
}

func (s *surf2) probe(in *Input, step func(string)) {
	s.e.fault.disarm()
	s.e.flushFaultCounters(s.c)
	step("ipam-cache-rlock(http-GET-/v1/ip)")
	s.e.serve(buildRequest(&httpIn{method: "GET", path: "/v1/ip", rawQuery: "size=1"}))
	// probe the locks the request named: the pod lock of the first release entry, the pool lock of the pool
	d := in.data.(*httpIn)
	var pod *corev1.Pod
	switch routeOf(d.path) {
	case "/v1/ip":
		var r api.ReleaseIPReq
		if json.Unmarshal(d.body, &r) == nil && len(r.IPs) > 0 {
			pod = &corev1.Pod{ObjectMeta: metav1.ObjectMeta{Name: r.IPs[0].PodName, Namespace: r.IPs[0].Namespace}}
		}
	case "/v1/pool":
		var pl api.Pool
		if json.Unmarshal(d.body, &pl) == nil && pl.Name != "" {
			pod = &corev1.Pod{ObjectMeta: metav1.ObjectMeta{Name: "fzprobe-0", Namespace: "ns1",
				Annotations: map[string]string{constant.IPPoolAnnotation: pl.Name}}}
		}
	}
	s.e.probe(pod, step)
}
