package main

import (
	"crypto/sha1"
	"encoding/hex"
	"fmt"
	"regexp"
	"sort"
	"strconv"
	"strings"

	"verif/harness/fakes"
)

// C16: what the installed rules do to a new connection (packet walker) versus what the NetworkPolicy API says
// (reference evaluator), for every flow of a generated cluster.

type flowWitness struct {
	Stage       string   `json:"judged,omitempty"` // transition mode: where in the manager's history the rules were judged
	Direction   string   `json:"direction"`        // ingress: verdict for Dst (pod on this node); egress: for Src; forward: both
	Src         string   `json:"src"`
	Dst         string   `json:"dst"`
	Proto       string   `json:"proto"`
	Port        int      `json:"port"`
	RefIsolated bool     `json:"ref_isolated"`
	RefAllowed  bool     `json:"ref_allowed"`
	RefAdmits   []string `json:"ref_admitting_rules,omitempty"`
	Walker      string   `json:"walker_verdict"`
	Path        []string `json:"walker_path,omitempty"`
	Explanation string   `json:"explanation,omitempty"`
}

type violation struct {
	Sig   string      `json:"sig"`
	Msg   string      `json:"msg"`
	Flow  interface{} `json:"observation,omitempty"`
	Count int         `json:"-"`
}

type c16Result struct {
	counters     map[string]int64
	viols        map[string]*violation
	nontrivial   bool
	shapes       []string
	inconclusive string
	iptDump      string
	setDump      string
	stageDumps   map[string][2]string  // transition mode: stage -> filter dump, ipset dump
	obs          map[string]*violation // observations that are not violations (state right after the handlers)
}

func (r *c16Result) addViol(sig, msg string, obs interface{}) {
	if v, ok := r.viols[sig]; ok {
		v.Count++
		return
	}
	r.viols[sig] = &violation{Sig: sig, Msg: msg, Flow: obs, Count: 1}
}

func shapeHash(desc string) string {
	h := sha1.Sum([]byte(desc))
	return hex.EncodeToString(h[:])[:8]
}

func epName(e Endpoint) string {
	if e.Pod != nil {
		loc := "off-node"
		if e.Pod.onNode() {
			loc = "on-node"
		}
		return fmt.Sprintf("%s (pod %s/%s %s labels=%v)", ipStr(e.IP), e.Pod.NS, e.Pod.Name, loc, e.Pod.Labels)
	}
	return ipStr(e.IP) + " (external)"
}

// externalAddrs: every ipBlock / except boundary +-1, plus two unrelated addresses.
func externalAddrs(c *Cluster, podIPs map[uint32]*Pod) []uint32 {
	seen := map[uint32]bool{}
	var out []uint32
	add := func(v uint32) {
		if v == 0 || v == ^uint32(0) || seen[v] || podIPs[v] != nil {
			return
		}
		seen[v] = true
		out = append(out, v)
	}
	addCIDR := func(s string) {
		base, bits, ok := cidr4(s)
		if !ok {
			return
		}
		first := base & maskOf(bits)
		last := first | ^maskOf(bits)
		if first > 0 {
			add(first - 1)
		}
		add(first)
		add(last)
		if last < ^uint32(0) {
			add(last + 1)
		}
	}
	for _, p := range c.Policies {
		for _, rules := range [][]Rule{p.Ingress, p.Egress} {
			for _, r := range rules {
				for _, peer := range r.Peers {
					if peer.CIDR != "" {
						addCIDR(peer.CIDR)
						for _, e := range peer.Except {
							addCIDR(e)
						}
					}
				}
			}
		}
	}
	v1, _ := ip4("203.0.113.7")
	v2, _ := ip4("8.8.8.8")
	add(v1)
	add(v2)
	sort.Slice(out, func(i, j int) bool { return out[i] < out[j] })
	const max = 32
	if len(out) > max { // deterministic thinning
		var thin []uint32
		for i := 0; i < max; i++ {
			thin = append(thin, out[i*len(out)/max])
		}
		out = thin
	}
	return out
}

func policyPorts(c *Cluster) []int {
	seen := map[int]bool{unlistedPort: true}
	for _, p := range c.Policies {
		for _, rules := range [][]Rule{p.Ingress, p.Egress} {
			for _, r := range rules {
				for _, pt := range r.Ports {
					seen[pt.Port] = true
				}
			}
		}
	}
	var out []int
	for p := range seen {
		out = append(out, p)
	}
	sort.Ints(out)
	return out
}

var peerSetRe = regexp.MustCompile(`^GLX-(sip|snet|dip|dnet)-(\d+)-`)

// ruleOrigin maps an ACCEPT rule of a policy chain back to (policy, direction, rule index) through the comment
// and the set names galaxy gives (used only to *explain* a mismatch, never to decide one).
func ruleOrigin(c *Cluster, h hit) (pol *Policy, dir string, idx int, ok bool) {
	if !strings.HasPrefix(h.Chain, "GLX-PLCY-") {
		return nil, "", 0, false
	}
	t := h.Rule.Tokens
	for i := 0; i+1 < len(t); i++ {
		if t[i] == "--comment" {
			parts := strings.SplitN(t[i+1], "_", 2)
			if len(parts) == 2 {
				pol = c.policy(parts[1], parts[0])
			}
		}
	}
	for _, s := range h.Rule.MatchSets() {
		if m := peerSetRe.FindStringSubmatch(s); m != nil {
			dir = dirIngress
			if strings.HasPrefix(m[1], "d") {
				dir = dirEgress
			}
			idx, _ = strconv.Atoi(m[2])
			return pol, dir, idx, pol != nil
		}
	}
	return pol, "", 0, false
}

func relation(local *Pod, remote Endpoint) string {
	switch {
	case remote.Pod == nil:
		return "external"
	case remote.Pod.NS == local.NS:
		return "pod-same-ns"
	default:
		return "pod-other-ns"
	}
}

func peerKind(p *Peer) string {
	switch {
	case p.CIDR != "" && len(p.Except) > 0:
		return "ipblock+except"
	case p.CIDR != "":
		return "ipblock"
	case p.Pod != nil && p.NS != nil:
		return "pod+ns"
	case p.Pod != nil:
		return "pod"
	case p.NS != nil:
		return "ns"
	}
	return "empty"
}

func ruleShape(r *Rule) string {
	var ks []string
	for i := range r.Peers {
		ks = append(ks, peerKind(&r.Peers[i]))
	}
	sort.Strings(ks)
	ks = uniq(ks)
	ports := "noports"
	if len(r.Ports) > 0 {
		ports = "ports"
	}
	return "[" + strings.Join(ks, ",") + "]/" + ports
}

func uniq(s []string) []string {
	var out []string
	for i, x := range s {
		if i == 0 || x != s[i-1] {
			out = append(out, x)
		}
	}
	return out
}

// mergedNetLookup emulates what galaxy builds for the ipBlock peers of one rule (one hash:net set per rule, entries
// of all ipBlock peers merged, later add of the same element overwrites the nomatch flag on a fresh sync; a /0
// element is refused by hash:net) and looks the address up the way the kernel does.
func mergedNetLookup(r *Rule, ip uint32) bool {
	type ent struct {
		base    uint32
		bits    int
		nomatch bool
	}
	m := map[string]*ent{}
	var order []string
	put := func(cidr string, nomatch bool) {
		base, bits, ok := cidr4(cidr)
		if !ok || bits == 0 {
			return
		}
		key := fmt.Sprintf("%d/%d", base&maskOf(bits), bits)
		if _, ok := m[key]; !ok {
			order = append(order, key)
		}
		m[key] = &ent{base: base, bits: bits, nomatch: nomatch}
	}
	for i := range r.Peers {
		if r.Peers[i].CIDR == "" {
			continue
		}
		put(r.Peers[i].CIDR, false)
		for _, e := range r.Peers[i].Except {
			put(e, true)
		}
	}
	best := -1
	res := false
	for _, k := range order {
		e := m[k]
		if inCIDR(ip, e.base, e.bits) && e.bits > best {
			best, res = e.bits, !e.nomatch
		}
	}
	return res
}

const (
	sigEmptyFrom     = "c16-empty-from-allows-all"
	sigEmptyTo       = "c16-empty-to-allows-all"
	sigCrossNS       = "c16-podselector-peer-crosses-namespace"
	sigIgnoresNS     = "c16-nsselector+podselector-peer-ignores-ns"
	sigEgAdmitsIn    = "c16-shared-pod-chain-egress-rule-admits-ingress"
	sigInAdmitsEg    = "c16-shared-pod-chain-ingress-rule-admits-egress"
	sigZeroCIDR      = "c16-ipblock-cidr-0-refused-by-hash-net"
	sigSiblingExcept = "c16-ipblock-except-of-sibling-peer-excludes-address"
	sigShortCircuit  = "c16-same-node-egress-accept-skips-ingress-chain"
)

// explainUnder: the reference allows, the rules drop. Every admitting rule must be accounted for, because a
// single correctly compiled admitting rule would have produced an ACCEPT.
func explainUnder(c *Cluster, dir string, local *Pod, remote Endpoint, admits []admit) (sigs []string, text string) {
	classes := map[string]bool{}
	var unexplained []string
	for _, a := range admits {
		r := &a.Pol.rules(dir)[a.Rule]
		if len(r.Peers) == 0 {
			if dir == dirIngress {
				classes[sigEmptyFrom] = true
			} else {
				classes[sigEmptyTo] = true
			}
			continue
		}
		for pi := range r.Peers {
			peer := &r.Peers[pi]
			if !c.peerMatches(peer, a.Pol.NS, remote) {
				continue
			}
			if peer.CIDR != "" {
				if _, bits, _ := cidr4(peer.CIDR); bits == 0 {
					classes[sigZeroCIDR] = true
					continue
				}
				if !mergedNetLookup(r, remote.IP) {
					classes[sigSiblingExcept] = true
					continue
				}
			}
			unexplained = append(unexplained, "peer="+peerKind(peer))
		}
	}
	if len(unexplained) > 0 {
		sort.Strings(unexplained)
		unexplained = uniq(unexplained)
		desc := fmt.Sprintf("under-allow dir=%s remote=%s %s", dir, relation(local, remote), strings.Join(unexplained, ";"))
		return []string{"unclassified-" + shapeHash(desc)}, desc
	}
	for s := range classes {
		sigs = append(sigs, s)
	}
	sort.Strings(sigs)
	return sigs, "every admitting rule has a shape galaxy does not compile to a matching ACCEPT rule"
}

// explainOver: the reference denies (pod isolated, nothing admits), the rules do not drop.
func explainOver(c *Cluster, rs *ruleset, dir string, local *Pod, remote Endpoint, proto string, port int,
	w *walkResult, pkt Packet, skip map[string]bool) (sigs []string, text string) {
	if w.Verdict == "FALLTHROUGH" {
		// which link of FORWARD -> GLX-<DIR> -> pod chain -> DROP is missing?
		base := "GLX-INGRESS"
		if dir == dirEgress {
			base = "GLX-EGRESS"
		}
		link := "pod-chain-has-no-terminal-drop"
		if _, ok := rs.chains[base]; !ok {
			link = "base-chain-missing"
		} else {
			jump := false
			for _, r := range rs.chains["FORWARD"] {
				if r.Target() == base {
					jump = true
				}
			}
			hook := false
			for _, r := range rs.chains[base] {
				if strings.HasPrefix(r.Target(), "GLX-POD-") {
					for i := 0; i+1 < len(r.Tokens); i++ {
						if (r.Tokens[i] == "-d" || r.Tokens[i] == "-s") && r.Tokens[i+1] == local.IP+"/32" {
							hook = true
						}
					}
				}
			}
			if !jump {
				link = "forward-jump-missing"
			} else if !hook {
				link = "pod-hook-missing"
			}
		}
		return []string{"c16-isolated-pod-falls-through-" + dir + "-" + link},
			"pod is isolated for " + dir + " but the packet reaches no DROP: " + link
	}
	ex := walk(rs, "FORWARD", skip, pkt, true)
	classes := map[string]bool{}
	var notes []string
	for _, h := range ex.Accepts {
		pol, rdir, idx, ok := ruleOrigin(c, h)
		if !ok {
			desc := fmt.Sprintf("over-allow dir=%s remote=%s accept-rule-of-unknown-origin chainprefix=%s", dir,
				relation(local, remote), chainPrefix(h.Chain))
			classes["unclassified-"+shapeHash(desc)] = true
			notes = append(notes, desc)
			continue
		}
		if rdir != dir {
			if dir == dirIngress {
				classes[sigEgAdmitsIn] = true
			} else {
				classes[sigInAdmitsEg] = true
			}
			notes = append(notes, fmt.Sprintf("%s rule %s[%d] of %s/%s matched a packet of the other direction", rdir, rdir,
				idx, pol.NS, pol.Name))
			continue
		}
		rules := pol.rules(dir)
		if idx >= len(rules) {
			desc := fmt.Sprintf("over-allow dir=%s accept-rule-index-out-of-policy", dir)
			classes["unclassified-"+shapeHash(desc)] = true
			continue
		}
		r := &rules[idx]
		found := false
		if remote.Pod != nil {
			for pi := range r.Peers {
				peer := &r.Peers[pi]
				if peer.Pod == nil || !peer.Pod.matches(remote.Pod.Labels) {
					continue
				}
				if peer.NS == nil && remote.Pod.NS != pol.NS {
					classes[sigCrossNS] = true
					found = true
				}
				if peer.NS != nil {
					ns := c.ns(remote.Pod.NS)
					if ns == nil || !peer.NS.matches(ns.Labels) {
						classes[sigIgnoresNS] = true
						found = true
					}
				}
			}
		}
		if !found {
			sel := "selecting"
			if !pol.selects(local) || !pol.hasType(dir) {
				sel = "non-selecting"
			}
			portOK := "ports-admit"
			if !portsMatch(r.Ports, proto, port) {
				portOK = "ports-do-not-admit"
			}
			desc := fmt.Sprintf("over-allow dir=%s remote=%s same-direction policy=%s %s", dir,
				relation(local, remote), sel, portOK)
			classes["unclassified-"+shapeHash(desc)] = true
			notes = append(notes, desc)
		} else {
			notes = append(notes, fmt.Sprintf("%s[%d] of %s/%s: peer selector resolved in the wrong namespaces", dir, idx,
				pol.NS, pol.Name))
		}
	}
	if len(ex.Accepts) == 0 {
		desc := fmt.Sprintf("over-allow dir=%s verdict=%s without accept rule", dir, w.Verdict)
		classes["unclassified-"+shapeHash(desc)] = true
		notes = append(notes, desc)
	}
	for s := range classes {
		sigs = append(sigs, s)
	}
	sort.Strings(sigs)
	return sigs, strings.Join(notes, "; ")
}

func chainPrefix(n string) string {
	parts := strings.Split(n, "-")
	if len(parts) >= 2 {
		return parts[0] + "-" + parts[1]
	}
	return n
}

// shapesOf lists which of the interesting shapes are really present in the cluster (semantically, not by name).
func shapesOf(c *Cluster) []string {
	set := map[string]bool{}
	selectsOnNode := func(p *Policy) bool {
		for i := range c.Pods {
			if c.Pods[i].onNode() && c.Pods[i].IP != "" && p.selects(&c.Pods[i]) {
				return true
			}
		}
		return false
	}
	onlyIn, onlyEg := map[string]bool{}, map[string]bool{}
	for i := range c.Policies {
		p := &c.Policies[i]
		live := selectsOnNode(p)
		if len(p.Types) == 0 {
			set["policytypes-defaulted"] = true
		} else {
			set["policytypes-explicit"] = true
		}
		if len(p.Types) == 1 && p.Types[0] == "Egress" && len(p.Ingress) > 0 {
			set["egress-only-lists-ingress"] = true
		}
		for _, dir := range []string{dirIngress, dirEgress} {
			if !p.hasType(dir) || !live {
				continue
			}
			rules := p.rules(dir)
			if len(rules) == 0 {
				set["default-deny"] = true
			}
			for ri := range rules {
				r := &rules[ri]
				if len(r.Peers) == 0 {
					if dir == dirIngress {
						set["empty-from"] = true
					} else {
						set["empty-to"] = true
					}
					if len(r.Ports) > 0 {
						set["ports-only"] = true
					}
				}
				nblocks := 0
				for pi := range r.Peers {
					peer := &r.Peers[pi]
					switch {
					case peer.CIDR != "":
						nblocks++
						if len(peer.Except) > 0 {
							set["ipblock-except"] = true
						}
						if _, bits, _ := cidr4(peer.CIDR); bits == 0 {
							set["ipblock-zero"] = true
						}
					case peer.Pod != nil && peer.NS != nil:
						set["pod+ns-peer"] = true
						for k := range c.Pods {
							q := &c.Pods[k]
							ns := c.ns(q.NS)
							if q.IP != "" && peer.Pod.matches(q.Labels) && ns != nil && !peer.NS.matches(ns.Labels) {
								set["pod+ns-peer-with-pod-outside-ns-selector"] = true
							}
						}
					case peer.Pod != nil:
						for k := range c.Pods {
							q := &c.Pods[k]
							if q.IP != "" && q.NS != p.NS && peer.Pod.matches(q.Labels) {
								set["podsel-peer-other-ns"] = true
							}
						}
					case peer.NS != nil:
						set["ns-peer"] = true
					}
				}
				if nblocks > 1 {
					for pi := range r.Peers {
						for _, e := range r.Peers[pi].Except {
							eb, ebits, _ := cidr4(e)
							for pj := range r.Peers {
								if pj == pi || r.Peers[pj].CIDR == "" {
									continue
								}
								ob, obits, _ := cidr4(r.Peers[pj].CIDR)
								if obits >= ebits && inCIDR(ob, eb, ebits) {
									set["ipblock-sibling-except"] = true
								}
							}
						}
					}
				}
			}
		}
		if live {
			in, eg := p.hasType(dirIngress), p.hasType(dirEgress)
			for k := range c.Pods {
				q := &c.Pods[k]
				if !q.onNode() || q.IP == "" || !p.selects(q) {
					continue
				}
				key := q.NS + "/" + q.Name
				if in && !eg {
					onlyIn[key] = true
				}
				if eg && !in {
					onlyEg[key] = true
				}
			}
		}
	}
	for k := range onlyIn {
		if onlyEg[k] {
			set["ingress-only+egress-only"] = true
		}
	}
	for k := range c.Pods {
		q := &c.Pods[k]
		if q.onNode() && q.IP != "" && len(c.isolating(q, dirIngress)) == 0 && len(c.isolating(q, dirEgress)) == 0 {
			set["unselected-on-node-pod"] = true
		}
	}
	var out []string
	for s := range set {
		out = append(out, s)
	}
	sort.Strings(out)
	return out
}

func admitNames(dir string, as []admit) []string {
	var out []string
	for _, a := range as {
		out = append(out, fmt.Sprintf("%s/%s %s[%d] %s", a.Pol.NS, a.Pol.Name, dir, a.Rule, ruleShape(&a.Pol.rules(dir)[a.Rule])))
	}
	return out
}

var (
	skipForIngress = map[string]bool{"GLX-EGRESS": true}
	skipForEgress  = map[string]bool{"GLX-INGRESS": true}
)

// evalC16 syncs a fresh manager on empty fakes for the cluster and compares all flows.
func evalC16(c *Cluster) *c16Result {
	res := &c16Result{counters: map[string]int64{}, viols: map[string]*violation{}}
	w := newWorld()
	w.load(c)
	e := newEnv(w)
	if pi := e.fullSync(); pi != nil {
		res.addViol("c16-full-sync-panic-in-"+pi.Func, "full sync panicked: "+pi.Value, pi)
		return res
	}
	for _, rj := range e.takeRejects() {
		res.counters["rejects_"+rj.Kind]++
	}
	rs := snapshot(e.ipt, e.sets)
	res.iptDump, res.setDump = e.ipt.Dump("filter"), e.sets.Dump()
	res.shapes = shapesOf(c)
	judgeFlows(c, rs, nil, "", false, false, res)
	return res
}

// judgeFlows compares walker and reference for every flow of cluster c over the rules in rs. fresh (optional) is what
// a fresh manager installs for the same cluster: a mismatch the fresh rules do not have is explained by state left
// over from the manager's history (stage names where in the history the rules were judged) instead of by the policy
// shapes.
func judgeFlows(c *Cluster, rs, fresh *ruleset, stage string, rejectedBatch, observeOnly bool, res *c16Result) {
	podIPs := map[uint32]*Pod{}
	var eps []Endpoint
	for i := range c.Pods {
		p := &c.Pods[i]
		if v, ok := ip4(p.IP); ok && podIPs[v] == nil {
			podIPs[v] = p
			eps = append(eps, Endpoint{IP: v, Pod: p})
		}
	}
	for _, v := range externalAddrs(c, podIPs) {
		eps = append(eps, Endpoint{IP: v})
	}
	ports := policyPorts(c)
	sawAllow, sawDeny := false, false

	check := func(dir string, local *Pod, src, dst, remote Endpoint, proto string, port int) (refAllow bool, wr *walkResult, agree bool) {
		isolated, allowed, admits := c.refVerdict(dir, local, remote, strings.ToUpper(proto), port)
		pkt := Packet{Src: src.IP, Dst: dst.IP, Proto: proto, DPort: port}
		skip := skipForIngress
		if dir == dirEgress {
			skip = skipForEgress
		}
		wr = walk(rs, "FORWARD", skip, pkt, false)
		if wr.Verdict == "UNSUPPORTED" {
			res.inconclusive = "walker: " + wr.Unsupported
			return allowed, wr, true
		}
		wAllow := wr.Verdict != "DROP"
		res.counters["flows_compared"]++
		res.counters[fmt.Sprintf("matrix_%s_ref-%s_walker-%s", dir, ad(allowed), ad(wAllow))]++
		if isolated {
			res.counters["checks_on_isolated_pod"]++
			if allowed {
				sawAllow = true
			} else {
				sawDeny = true
			}
		} else {
			res.counters["checks_on_unisolated_pod"]++
		}
		res.counters["walker_"+strings.ToLower(wr.Verdict)]++
		if allowed == wAllow {
			return allowed, wr, true
		}
		var sigs []string
		var text string
		staleState := false
		exRS, exWR := rs, wr
		if fresh != nil {
			fwr := walk(fresh, "FORWARD", skip, pkt, false)
			staleState = fwr.Verdict != "UNSUPPORTED" && (fwr.Verdict != "DROP") == allowed
			if !staleState {
				// a fresh manager's rules give the same wrong answer: the mismatch is explained by the policy shapes, on the
				// fresh rules (the history may add further, here invisible, reasons for the same answer)
				res.counters["mismatches_a_fresh_manager_has_too"]++
				if fwr.Verdict != wr.Verdict {
					res.counters["mismatches_a_fresh_manager_has_too_by_another_path"]++
				}
				exRS, exWR = fresh, fwr
			}
		}
		if staleState {
			res.counters["mismatches_a_fresh_manager_does_not_have"]++
			sigs, text = explainStale(rs, fresh, skip, pkt, allowed, dir, local.Name+"_"+local.NS)
			for i := range sigs {
				class := strings.TrimPrefix(sigs[i], "c16-")
				sigs[i] += stage
				if rejectedBatch && batchConsequence(sigs[i]) {
					// the sync before this judgement had its policy batch rejected (-X of a referenced stale policy chain):
					// chains it should have written are missing or outdated
					sigs[i] += "-with-rejected-policy-batch"
				}
				// the signature names class and stage; whether the defect admits or drops the flow is counted here and
				// stays in message and witness
				res.counters[fmt.Sprintf("transition_mismatch:%s:%s:%s", class, strings.TrimPrefix(strings.TrimPrefix(sigs[i],
					"c16-"+class), "-"), map[bool]string{true: "drops", false: "admits"}[allowed])]++
			}
		} else if allowed {
			sigs, text = explainUnder(c, dir, local, remote, admits)
		} else {
			sigs, text = explainOver(c, exRS, dir, local, remote, strings.ToUpper(proto), port, exWR, pkt, skip)
		}
		fw := flowWitness{Stage: strings.TrimPrefix(stage, "-"), Direction: dir, Src: epName(src), Dst: epName(dst), Proto: proto, Port: port,
			RefIsolated: isolated, RefAllowed: allowed, RefAdmits: admitNames(dir, admits), Walker: wr.Verdict,
			Path: wr.Path, Explanation: text}
		for _, s := range sigs {
			msg := fmt.Sprintf("%s %s->%s %s/%d: API semantics say %s, installed rules say %s (%s)", dir,
				ipStr(src.IP), ipStr(dst.IP), proto, port, ad(allowed), wr.Verdict, text)
			if staleState && observeOnly {
				// the handlers are a fast path; the property speaks about the state a full sync establishes. What is only
				// wrong between the handlers and the next full sync is recorded, not reported.
				class := strings.TrimSuffix(strings.TrimPrefix(s, "c16-"), stage)
				res.counters["after_events_only_mismatch:"+class+":"+map[bool]string{true: "drops", false: "admits"}[allowed]]++
				if res.obs == nil {
					res.obs = map[string]*violation{}
				}
				if o, ok := res.obs[s]; ok {
					o.Count++
				} else {
					res.obs[s] = &violation{Sig: s, Msg: msg, Flow: fw, Count: 1}
				}
				continue
			}
			res.addViol(s, msg, fw)
		}
		return allowed, wr, false
	}

	for _, src := range eps {
		for _, dst := range eps {
			if src.IP == dst.IP {
				continue
			}
			srcOn := src.Pod != nil && src.Pod.onNode()
			dstOn := dst.Pod != nil && dst.Pod.onNode()
			if !srcOn && !dstOn {
				continue
			}
			for _, port := range ports {
				for _, proto := range []string{"tcp", "udp"} {
					var inAllow, egAllow = true, true
					var inAgree, egAgree = true, true
					var egW *walkResult
					if dstOn {
						inAllow, _, inAgree = check(dirIngress, dst.Pod, src, dst, src, proto, port)
					}
					if srcOn {
						egAllow, egW, egAgree = check(dirEgress, src.Pod, src, dst, dst, proto, port)
					}
					if res.inconclusive != "" {
						return
					}
					if srcOn && dstOn {
						// the one packet crosses FORWARD once: the connection is allowed iff both ends allow it
						pkt := Packet{Src: src.IP, Dst: dst.IP, Proto: proto, DPort: port}
						wr := walk(rs, "FORWARD", nil, pkt, false)
						refAllow := inAllow && egAllow
						wAllow := wr.Verdict != "DROP"
						res.counters["same_node_flows_compared"]++
						res.counters[fmt.Sprintf("matrix_forward_ref-%s_walker-%s", ad(refAllow), ad(wAllow))]++
						if egAllow && !inAllow {
							res.counters["same_node_egress-allow_ingress-deny"]++
						}
						if refAllow != wAllow && inAgree && egAgree {
							sig := ""
							text := ""
							if wAllow && egAllow && !inAllow && egW != nil && egW.Verdict == "ACCEPT" {
								sig = sigShortCircuit
								text = "FORWARD jumps to GLX-EGRESS first; the ACCEPT in the source pod's chain is terminal, " +
									"so GLX-INGRESS (which drops this packet for the destination pod) is never evaluated"
							} else {
								text = fmt.Sprintf("forward-combination ref=%s walker=%s eg=%v in=%v", ad(refAllow), wr.Verdict,
									egAllow, inAllow)
								sig = "unclassified-" + shapeHash(text)
							}
							res.addViol(sig, fmt.Sprintf("forward %s->%s %s/%d: API semantics say %s, installed rules say %s (%s)",
								ipStr(src.IP), ipStr(dst.IP), proto, port, ad(refAllow), wr.Verdict, text),
								flowWitness{Direction: "forward (both pods on this node)", Src: epName(src), Dst: epName(dst),
									Proto: proto, Port: port, RefIsolated: true, RefAllowed: refAllow, Walker: wr.Verdict,
									Path: wr.Path, Explanation: text})
						}
					}
				}
			}
		}
	}
	if sawAllow && sawDeny {
		res.nontrivial = true
	}
}

func ad(b bool) string {
	if b {
		return "allow"
	}
	return "deny"
}

// ---- witness minimisation ----

// reductions enumerates one-step reductions of a cluster.
func reductions(c *Cluster) []*Cluster {
	var out []*Cluster
	with := func(f func(n *Cluster)) {
		n := c.clone()
		f(n)
		out = append(out, n)
	}
	for i := range c.Policies {
		i := i
		with(func(n *Cluster) { n.Policies = append(n.Policies[:i], n.Policies[i+1:]...) })
	}
	for i := range c.Namespaces {
		i := i
		if len(c.Namespaces) > 1 {
			with(func(n *Cluster) {
				name := n.Namespaces[i].Name
				n.Namespaces = append(n.Namespaces[:i], n.Namespaces[i+1:]...)
				var pods []Pod
				for _, p := range n.Pods {
					if p.NS != name {
						pods = append(pods, p)
					}
				}
				n.Pods = pods
				var pols []Policy
				for _, p := range n.Policies {
					if p.NS != name {
						pols = append(pols, p)
					}
				}
				n.Policies = pols
			})
		}
	}
	for i := range c.Pods {
		i := i
		with(func(n *Cluster) { n.Pods = append(n.Pods[:i], n.Pods[i+1:]...) })
	}
	for i := range c.Policies {
		i := i
		for _, dir := range []string{dirIngress, dirEgress} {
			dir := dir
			rules := c.Policies[i].rules(dir)
			setRules := func(n *Cluster, r []Rule) {
				if dir == dirIngress {
					n.Policies[i].Ingress = r
				} else {
					n.Policies[i].Egress = r
				}
			}
			for ri := range rules {
				ri := ri
				with(func(n *Cluster) {
					r := n.Policies[i].rules(dir)
					setRules(n, append(r[:ri], r[ri+1:]...))
				})
				for pi := range rules[ri].Peers {
					pi := pi
					if len(rules[ri].Peers) > 1 { // dropping the last peer would turn the rule into "all peers"
						with(func(n *Cluster) {
							r := n.Policies[i].rules(dir)
							r[ri].Peers = append(r[ri].Peers[:pi], r[ri].Peers[pi+1:]...)
						})
					}
					for ei := range rules[ri].Peers[pi].Except {
						ei := ei
						with(func(n *Cluster) {
							p := &n.Policies[i].rules(dir)[ri].Peers[pi]
							p.Except = append(p.Except[:ei], p.Except[ei+1:]...)
						})
					}
				}
				if len(rules[ri].Ports) > 0 {
					with(func(n *Cluster) { n.Policies[i].rules(dir)[ri].Ports = nil })
				}
			}
		}
		if len(c.Policies[i].PodSel.MatchLabels) > 0 || len(c.Policies[i].PodSel.Exprs) > 0 {
			with(func(n *Cluster) { n.Policies[i].PodSel = Sel{} })
		}
	}
	for i := range c.Pods {
		i := i
		for k := range c.Pods[i].Labels {
			k := k
			with(func(n *Cluster) { delete(n.Pods[i].Labels, k) })
		}
	}
	for i := range c.Namespaces {
		i := i
		for k := range c.Namespaces[i].Labels {
			k := k
			with(func(n *Cluster) { delete(n.Namespaces[i].Labels, k) })
		}
	}
	return out
}

// shrinkC16 greedily reduces the cluster while the signature keeps being reported. budget bounds evaluations.
func shrinkC16(c *Cluster, sig string, budget int) (*Cluster, int) {
	cur := c
	evals := 0
	for progress := true; progress && evals < budget; {
		progress = false
		for _, cand := range reductions(cur) {
			if evals >= budget {
				break
			}
			evals++
			r := evalC16(cand)
			if _, ok := r.viols[sig]; ok {
				cur = cand
				progress = true
				break
			}
		}
	}
	return cur, evals
}

// c16Witness renders the final witness of a signature for a (shrunk) cluster.
func c16Witness(c *Cluster, sig string) (interface{}, string, bool) {
	r := evalC16(c)
	v, ok := r.viols[sig]
	if !ok {
		return nil, "", false
	}
	return map[string]interface{}{"cluster": c, "host": hostName, "observation": v.Flow,
		"iptables_filter_after_full_sync": strings.Split(r.iptDump, "\n"),
		"ipsets_after_full_sync":          strings.Split(r.setDump, "\n"),
		"replay":                          "polsim -prop C16 -replay <this file>",
	}, v.Msg, true
}

var _ = fakes.NoChainErr
