package main

import (
	"flag"
	"fmt"
	"regexp"
	"runtime/debug"
	"strings"

	"k8s.io/client-go/kubernetes"
	kubefake "k8s.io/client-go/kubernetes/fake"
	"k8s.io/client-go/tools/cache"
	"tkestack.io/galaxy/pkg/api/k8s"
	"tkestack.io/galaxy/pkg/policy"
	"tkestack.io/galaxy/pkg/utils/ipset"
	utiliptables "tkestack.io/galaxy/pkg/utils/iptables"
	"verif/harness/fakes"
)

// world holds the informer caches the manager reads (written by the harness "like an informer would").
type world struct {
	pods, nss, pols cache.Indexer
}

func newIndexer() cache.Indexer {
	return cache.NewIndexer(cache.MetaNamespaceKeyFunc, cache.Indexers{cache.NamespaceIndex: cache.MetaNamespaceIndexFunc})
}

func newWorld() *world {
	return &world{pods: newIndexer(), nss: newIndexer(), pols: newIndexer()}
}

// load replaces the caches' content with the cluster (no events are delivered).
func (w *world) load(c *Cluster) {
	var pods, nss, pols []interface{}
	if c != nil {
		for i := range c.Pods {
			pods = append(pods, c.Pods[i].toAPI())
		}
		for i := range c.Namespaces {
			nss = append(nss, c.Namespaces[i].toAPI())
		}
		for i := range c.Policies {
			pols = append(pols, c.Policies[i].toAPI())
		}
	}
	_ = w.pods.Replace(pods, "")
	_ = w.nss.Replace(nss, "")
	_ = w.pols.Replace(pols, "")
}

var sharedClient kubernetes.Interface = kubefake.NewSimpleClientset()

// env is one "kernel" (strict fakes) plus a manager instance over it.
type env struct {
	sets *fakes.IPSet
	ipt  *fakes.IPTables
	pm   *policy.PolicyManager
	w    *world

	// operation counting / single fault injection (the hooks run under the fakes' shared lock)
	ipsetCalls, iptCalls int
	failKind             string // "" | ipset | iptables
	failAt               int
	failedOp             string // the operation that was made to fail, once

	// execMode: "" - the manager gets the Interface-level fakes; "ipset" / "iptables" - it gets galaxy's exec-backed
	// runner (ipset.New / iptables.New) over a fake exec that interprets the command lines against the same stores
	execMode string
	x        *fakes.Exec
	// hostOverride: the daemon was started with --hostname-override=Node-A; the node name is then whatever
	// k8s.GetHostname() makes of it, exactly as in policy.New
	hostOverride bool
}

// The errors an exec-backed handle returns when the tool itself fails (nothing reaches the kernel).
const (
	ipsetToolError    = "exit status 1 (ipset v7.17: Kernel error received: Cannot allocate memory)"
	iptablesToolError = "exit status 4 (Another app is currently holding the xtables lock. Perhaps you want to use the -w option?)"
)

func newEnv(w *world) *env { return newEnvFull(w, "", false) }

func newEnvMode(w *world, execMode string) *env { return newEnvFull(w, execMode, false) }

// overrideValue is what an operator passes as --hostname-override on a node kubelet registers as hostName (kubelet
// lower-cases its override; pods carry the lower-case name in spec.nodeName).
const overrideValue = "Node-A"

// enter puts the process-global daemon configuration (the --hostname-override flag k8s.GetHostname reads) into the
// state this env's manager runs under. Cases run one after the other inside a process and every galaxy entry point
// returns only after its goroutines have finished, so nothing reads the flag while it is written.
func (e *env) enter() {
	v := ""
	if e.hostOverride {
		v = overrideValue
	}
	_ = flag.Set("hostname-override", v)
}

func newEnvFull(w *world, execMode string, hostOverride bool) *env {
	e := &env{sets: fakes.NewIPSet(), w: w, execMode: execMode, hostOverride: hostOverride}
	e.ipt = fakes.NewIPTables(e.sets)
	e.x = fakes.NewExec(e.sets, e.ipt)
	e.sets.FailHook = func(op string) error {
		e.ipsetCalls++
		if e.failKind == "ipset" && e.failedOp == "" && e.ipsetCalls == e.failAt {
			e.failedOp = "ipset " + op
			return fmt.Errorf("%s", ipsetToolError)
		}
		return nil
	}
	e.ipt.FailHook = func(op string) error {
		e.iptCalls++
		if e.failKind == "iptables" && e.failedOp == "" && e.iptCalls == e.failAt {
			e.failedOp = "iptables " + op
			return fmt.Errorf("%s", iptablesToolError)
		}
		return nil
	}
	e.restart()
	return e
}

// arm makes the k-th operation of the kind fail once, counted from now; arm("", 0) only resets the counters.
func (e *env) arm(kind string, k int) {
	e.ipsetCalls, e.iptCalls, e.failKind, e.failAt, e.failedOp = 0, 0, kind, k, ""
}

// restart replaces the manager by a new instance over the same kernel state (a daemon restart).
func (e *env) restart() {
	var sets ipset.Interface = e.sets
	var ipt utiliptables.Interface = e.ipt
	switch e.execMode {
	case "ipset":
		sets = ipset.New(e.x)
	case "iptables":
		ipt = utiliptables.New(e.x, utiliptables.ProtocolIpv4)
	}
	e.enter()
	e.pm = policy.VerifNew(sharedClient, sets, ipt, k8s.GetHostname(), e.w.pods, e.w.nss, e.w.pols)
}

// execReport adds the interpreter's counters; it returns the first command line the interpreter did not understand.
func (e *env) execReport(counters map[string]int64) string {
	if e.execMode == "" {
		return ""
	}
	counters["cases_in_exec_mode:"+e.execMode]++
	for v, n := range e.x.Verbs() {
		counters["exec_commands:"+v] += int64(n)
	}
	if u := e.x.Unknown(); len(u) > 0 {
		return u[0]
	}
	return ""
}

// panicInfo describes a recovered panic of the code under test.
type panicInfo struct {
	Value string `json:"value"`
	Func  string `json:"func"` // innermost tkestack.io/galaxy function on the stack
	Stack string `json:"stack"`
}

var galaxyFrame = regexp.MustCompile(`tkestack\.io/galaxy/[^\s(]+(\([^)]*\))?\.([A-Za-z0-9_]+)\(`)

// guarded runs f and recovers a panic raised on this goroutine (the surface boundary of the entry point).
func guarded(f func()) (pi *panicInfo) {
	defer func() {
		if r := recover(); r != nil {
			st := string(debug.Stack())
			pi = &panicInfo{Value: fmt.Sprint(r), Stack: trimStack(st)}
			for _, line := range strings.Split(st, "\n") {
				if strings.Contains(line, "tkestack.io/galaxy/") && !strings.HasPrefix(line, "\t") {
					if m := galaxyFrame.FindStringSubmatch(line); m != nil {
						pi.Func = m[2]
						break
					}
				}
			}
		}
	}()
	f()
	return nil
}

func trimStack(st string) string {
	lines := strings.Split(st, "\n")
	var keep []string
	for i := 0; i < len(lines); i++ {
		if strings.Contains(lines[i], "tkestack.io/galaxy/") {
			keep = append(keep, strings.TrimSpace(lines[i]))
		}
		if len(keep) >= 8 {
			break
		}
	}
	return strings.Join(keep, " | ")
}

func (e *env) fullSync() *panicInfo {
	e.enter()
	return guarded(func() { e.pm.VerifFullSync() })
}

// rejects drains both reject logs.
func (e *env) takeRejects() []fakes.Reject {
	out := append(e.ipt.Rejects(), e.sets.Rejects()...)
	e.ipt.ResetRejects()
	e.sets.ResetRejects()
	return out
}
