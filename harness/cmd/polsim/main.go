// polsim drives the real pkg/policy PolicyManager over strict iptables/ipset fakes and harness-owned informer
// caches. -prop C15: convergence / idempotence / foreign state / rejected batches of the full sync.
// -prop C16: packet walker over the installed rules versus a reference evaluator of NetworkPolicy semantics.
//
// The parent process only generates nothing and runs no galaxy code: cases run in child processes (same binary,
// -child <spec>), which journal the case index before running it; witnesses are minimised in child processes too.
package main

import (
	"encoding/json"
	"flag"
	"fmt"
	"io"
	"os"
	"os/exec"
	"path/filepath"
	"runtime"
	"sort"
	"strings"
	"sync"

	"k8s.io/klog"
	"verif/harness/evid"
)

type childSpec struct {
	Kind    string          `json:"kind"` // cases | shrink
	Prop    string          `json:"prop"`
	Tier    string          `json:"tier"`
	Seed    int64           `json:"seed"`
	From    int             `json:"from"`
	To      int             `json:"to"`
	Skip    []int           `json:"skip,omitempty"`
	Dir     string          `json:"dir"`
	Name    string          `json:"name"`
	Sig     string          `json:"sig,omitempty"`
	Input   json.RawMessage `json:"input,omitempty"`
	Budget  int             `json:"budget,omitempty"`
	CaseTag string          `json:"case,omitempty"`
}

// childViol is the best (smallest) witness a child has for one signature.
type childViol struct {
	Sig   string          `json:"sig"`
	Msg   string          `json:"msg"`
	Count int             `json:"count"`
	Size  int             `json:"size"`
	Case  string          `json:"case"`
	Input json.RawMessage `json:"input"`
	// Observe: recorded, not reported (C16 state right after the event handlers, repaired by the next full sync)
	Observe bool `json:"observe,omitempty"`
}

func quietKlog() {
	fs := flag.NewFlagSet("klog", flag.ContinueOnError)
	klog.InitFlags(fs)
	_ = fs.Set("logtostderr", "false")
	_ = fs.Set("alsologtostderr", "false")
	_ = fs.Set("stderrthreshold", "FATAL")
	klog.SetOutput(io.Discard)
}

// opts: the design's bounds; in the thorough tier every other case may be larger.
func opts(tier string, idx int) genOpts {
	if tier == "thorough" && idx%2 == 1 {
		return genOpts{maxNS: 6, maxPods: 16, maxPol: 8}
	}
	return genOpts{maxNS: 4, maxPods: 10, maxPol: 5}
}

// caseCount: ten times the design's quick bounds (150 pairs / 200 clusters) and far beyond its thorough 5 000, because a
// case costs about a millisecond.
func caseCount(prop, tier string) int {
	if prop == "C15" {
		return evid.Tiered(tier, 24000, 400000)
	}
	return evid.Tiered(tier, 30000, 400000)
}

var c16Quota = []string{"empty-from", "empty-to", "ports-only", "pod+ns-peer", "pod+ns-peer-with-pod-outside-ns-selector",
	"podsel-peer-other-ns", "ingress-only+egress-only", "egress-only-lists-ingress", "ipblock-except", "ipblock-zero",
	"ipblock-sibling-except", "ns-peer", "default-deny",
	"unselected-on-node-pod", "policytypes-defaulted", "policytypes-explicit"}

func main() {
	_ = os.Setenv("MY_NODE_NAME", hostName)
	fl := evid.ParseFlags()
	quietKlog()
	if fl.Prop != "C15" && fl.Prop != "C16" {
		fmt.Println("polsim: -prop must be C15 or C16")
		os.Exit(evid.ExitBroken)
	}
	if fl.Child != "" {
		os.Exit(childMain(fl.Child))
	}
	if fl.Replay != "" {
		os.Exit(replayMain(fl))
	}
	os.Exit(parentMain(fl))
}

// ---- child ----

func childMain(specPath string) int {
	data, err := os.ReadFile(specPath)
	if err != nil {
		fmt.Fprintln(os.Stderr, "child: ", err)
		return evid.ExitBroken
	}
	var sp childSpec
	if err := json.Unmarshal(data, &sp); err != nil {
		fmt.Fprintln(os.Stderr, "child: ", err)
		return evid.ExitBroken
	}
	if sp.Kind == "shrink" {
		return childShrink(&sp)
	}
	return childCases(&sp)
}

func journal(f *os.File, s string) {
	_, _ = f.WriteString(s + "\n")
	_ = f.Sync()
}

func childCases(sp *childSpec) int {
	run := evid.NewRun(sp.Prop, sp.Tier, sp.Seed, "exploration", "polsim")
	jf, err := os.OpenFile(filepath.Join(sp.Dir, sp.Name+".journal"), os.O_CREATE|os.O_WRONLY|os.O_APPEND, 0644)
	if err != nil {
		return evid.ExitBroken
	}
	defer jf.Close()
	best := map[string]*childViol{}
	bestObs := map[string]*childViol{}
	note := func(sig, msg string, count int, input interface{}, size int, idx int) {
		run.Count("viol:"+sig, int64(count))
		if b, ok := best[sig]; ok {
			b.Count += count
			if size >= b.Size {
				return
			}
			raw, _ := json.Marshal(input)
			b.Size, b.Msg, b.Input, b.Case = size, msg, raw, fmt.Sprintf("%d:%d", sp.Seed, idx)
			return
		}
		raw, _ := json.Marshal(input)
		best[sig] = &childViol{Sig: sig, Msg: msg, Count: count, Size: size, Input: raw, Case: fmt.Sprintf("%d:%d", sp.Seed, idx)}
	}
	skip := map[int]bool{}
	for _, s := range sp.Skip {
		skip[s] = true
	}
	for idx := sp.From; idx < sp.To; idx++ {
		if skip[idx] {
			continue
		}
		o := opts(sp.Tier, idx)
		journal(jf, fmt.Sprintf("case %d", idx))
		if sp.Prop == "C16" && idx%2 == 1 {
			// second mode: a manager with a history (state A synced, cluster changes to B)
			rng := evid.NewRng(sp.Seed, "c16t", idx)
			tc := genC16Trans(rng, idx, o)
			r := evalC16T(tc)
			run.Eval(1)
			run.Count("transition_cases", 1)
			for k, v := range r.counters {
				run.Count(k, v)
			}
			if r.inconclusive != "" {
				run.Inconclusive(fmt.Sprintf("case %d: %s", idx, r.inconclusive))
			}
			if r.nontrivial {
				data, _ := json.Marshal(tc)
				run.Nontrivial(shapeHash(string(data)) + shapeHash("x"+string(data)))
				run.Count("nontrivial_transition_cases", 1)
			}
			if len(r.viols) == 0 {
				run.Count("transition_cases_without_mismatch", 1)
			}
			for sig, v := range r.viols {
				note(sig, v.Msg, v.Count, tc, tc.size(), idx)
			}
			for sig, v := range r.obs {
				if b, ok := bestObs[sig]; ok {
					b.Count += v.Count
					if tc.size() >= b.Size {
						continue
					}
				}
				raw, _ := json.Marshal(map[string]interface{}{"transition": tc, "events_delivered": diffToEvents(tc.A, tc.B, tc.EventSeed),
					"observation": v.Flow})
				n := v.Count
				if b, ok := bestObs[sig]; ok {
					n = b.Count
				}
				bestObs[sig] = &childViol{Sig: sig, Msg: v.Msg, Count: n, Size: tc.size(), Input: raw,
					Case: fmt.Sprintf("%d:%d", sp.Seed, idx), Observe: true}
			}
			if idx < 40 && idx%13 == 1 {
				run.Sample(map[string]interface{}{"case": idx, "transition": tc, "mismatch_signatures": keysOf(r.viols)})
			}
		} else if sp.Prop == "C16" {
			rng := evid.NewRng(sp.Seed, "c16", idx)
			focus := idx % len(focusNames)
			bare := (idx/len(focusNames))%3 == 0
			c := genFocusCluster(rng, o, focus, bare)
			r := evalC16(c)
			run.Eval(1)
			run.Count("clusters", 1)
			run.Count("focus:"+focusNames[focus], 1)
			for k, v := range r.counters {
				run.Count(k, v)
			}
			for _, s := range r.shapes {
				run.Count("shape:"+s, 1)
			}
			run.Max("max_flows_in_one_cluster", r.counters["flows_compared"])
			if r.inconclusive != "" {
				run.Inconclusive(fmt.Sprintf("case %d: %s", idx, r.inconclusive))
			}
			if r.nontrivial {
				data, _ := json.Marshal(c)
				run.Nontrivial(shapeHash(string(data)) + shapeHash("x"+string(data)))
				run.Count("nontrivial_clusters", 1)
			}
			if len(r.viols) == 0 {
				run.Count("clusters_without_mismatch", 1)
			}
			for sig, v := range r.viols {
				note(sig, v.Msg, v.Count, c, c.size(), idx)
			}
			if idx < 2*len(focusNames) && idx%5 == 1 {
				run.Sample(map[string]interface{}{"case": idx, "focus": focusNames[focus], "cluster": c,
					"flows_compared": r.counters["flows_compared"], "shapes": r.shapes, "mismatch_signatures": keysOf(r.viols)})
			}
		} else {
			rng := evid.NewRng(sp.Seed, "c15", idx)
			cs := genC15Case(rng, idx, o)
			r := evalC15(cs)
			run.Eval(1)
			run.Count("cases", 1)
			run.Count("mode:"+cs.Mode, 1)
			for k, v := range r.counters {
				run.Count(k, v)
			}
			if r.inconclusive != "" {
				run.Inconclusive(fmt.Sprintf("case %d: %s", idx, r.inconclusive))
			}
			if r.nontrivial {
				data, _ := json.Marshal(cs)
				run.Nontrivial(shapeHash(string(data)) + shapeHash("x"+string(data)))
				run.Count("cases_with_nonempty_divergent_prior_state", 1)
			}
			if len(r.viols) == 0 {
				run.Count("cases_without_violation", 1)
			}
			for sig, v := range r.viols {
				note(sig, v.Msg, v.Count, cs, cs.size(), idx)
			}
			// fault stage on a subset of the cases: one tool failure in the judged sync or in one event handler
			every := 8
			if sp.Tier == "thorough" {
				every = 64
			}
			if idx%every == 0 {
				frng := evid.NewRng(sp.Seed, "c15fault", idx)
				for ki, kind := range []string{"ipset", "iptables"} {
					target, callID, evIdx := "sync", "sync", 0
					if len(cs.Events) > 0 && frng.Intn(2) == 0 {
						evIdx = frng.Intn(len(cs.Events))
						target, callID = "event", fmt.Sprintf("event:%d", evIdx)
					}
					nOps := r.callOps[callID][ki]
					if nOps == 0 {
						run.Count("fault_target_without_"+kind+"_operations", 1)
						continue
					}
					ks := []int{1 + frng.Intn(nOps)}
					if sp.Tier == "thorough" {
						ks = ks[:0]
						for k := 1; k <= nOps; k++ {
							ks = append(ks, k)
						}
					}
					for _, k := range ks {
						fs := &faultSpec{Kind: kind, Target: target, Event: evIdx, K: k}
						fr := evalC15Fault(cs, fs, r)
						run.Count("fault_runs", 1)
						for c, v := range fr.counters {
							run.Count(c, v)
						}
						if len(fr.viols) > 0 {
							fc := cs.clone()
							fc.Fault = fs
							for sig, v := range fr.viols {
								if strings.HasPrefix(sig, "c15-panic-") {
									note(sig, v.Msg, v.Count, fc, fc.size(), idx) // a panic under a tool failure is a violation
									continue
								}
								// C15 quantifies over cluster states and event sequences, not over tool failures: what the fault
								// stage finds is recorded (counter + smallest sample), not reported
								run.Count("fault_stage:"+sig, int64(v.Count))
								if b, ok := bestObs[sig]; ok && fc.size() >= b.Size {
									b.Count += v.Count
									continue
								}
								n := v.Count
								if b, ok := bestObs[sig]; ok {
									n += b.Count
								}
								raw, _ := json.Marshal(map[string]interface{}{"case": fc, "observation": v.Flow})
								bestObs[sig] = &childViol{Sig: sig, Msg: v.Msg, Count: n, Size: fc.size(), Input: raw,
									Case: fmt.Sprintf("%d:%d", sp.Seed, idx), Observe: true}
							}
						}
					}
				}
			}
			if idx < 2*len(c15Modes) && idx%3 == 1 {
				run.Sample(map[string]interface{}{"case": idx, "input": cs, "violation_signatures": keysOf(r.viols)})
			}
		}
	}
	journal(jf, "done")
	var list []*childViol
	for _, b := range best {
		list = append(list, b)
	}
	for _, b := range bestObs {
		list = append(list, b)
	}
	sort.Slice(list, func(i, j int) bool { return list[i].Sig < list[j].Sig })
	vd, _ := json.Marshal(list)
	if err := os.WriteFile(filepath.Join(sp.Dir, sp.Name+".viols.json"), vd, 0644); err != nil {
		return evid.ExitBroken
	}
	if err := run.WritePartial(filepath.Join(sp.Dir, sp.Name+".partial.json")); err != nil {
		return evid.ExitBroken
	}
	return 0
}

func keysOf(m map[string]*violation) []string {
	var ks []string
	for k := range m {
		ks = append(ks, k)
	}
	sort.Strings(ks)
	return ks
}

type shrinkOut struct {
	Sig     string      `json:"sig"`
	Msg     string      `json:"msg"`
	Evals   int         `json:"evals"`
	Size    int         `json:"size"`
	Witness interface{} `json:"witness"`
	OK      bool        `json:"ok"`
}

func childShrink(sp *childSpec) int {
	out := shrinkOut{Sig: sp.Sig}
	if sp.Prop == "C16" {
		var tc C16Trans
		if json.Unmarshal(sp.Input, &tc) == nil && tc.A != nil && tc.B != nil {
			small, n := shrinkC16T(&tc, sp.Sig, sp.Budget)
			out.Evals, out.Size = n, small.size()
			out.Witness, out.Msg, out.OK = c16TWitness(small, sp.Sig)
		} else {
			var c Cluster
			if err := json.Unmarshal(sp.Input, &c); err != nil {
				return evid.ExitBroken
			}
			small, n := shrinkC16(&c, sp.Sig, sp.Budget)
			out.Evals, out.Size = n, small.size()
			out.Witness, out.Msg, out.OK = c16Witness(small, sp.Sig)
		}
	} else {
		var cs C15Case
		if err := json.Unmarshal(sp.Input, &cs); err != nil {
			return evid.ExitBroken
		}
		small, n := shrinkC15(&cs, sp.Sig, sp.Budget)
		out.Evals, out.Size = n, small.size()
		out.Witness, out.Msg, out.OK = c15Witness(small, sp.Sig)
	}
	data, _ := json.Marshal(out)
	if err := os.WriteFile(filepath.Join(sp.Dir, sp.Name+".shrunk.json"), data, 0644); err != nil {
		return evid.ExitBroken
	}
	return 0
}

// ---- parent ----

func scratchDir() (string, func()) {
	if bd := os.Getenv("VERIF_BUILD_DIR"); bd != "" {
		d := filepath.Join(bd, "polsim.work")
		_ = os.MkdirAll(d, 0755)
		return d, func() {}
	}
	d, err := os.MkdirTemp("", "polsim")
	if err != nil {
		fmt.Println("polsim: cannot create scratch dir:", err)
		os.Exit(evid.ExitBroken)
	}
	return d, func() { _ = os.RemoveAll(d) }
}

func runChild(sp *childSpec) error {
	self, err := os.Executable()
	if err != nil {
		return err
	}
	data, _ := json.Marshal(sp)
	specPath := filepath.Join(sp.Dir, sp.Name+".spec.json")
	if err := os.WriteFile(specPath, data, 0644); err != nil {
		return err
	}
	errf, err := os.Create(filepath.Join(sp.Dir, sp.Name+".stderr"))
	if err != nil {
		return err
	}
	defer errf.Close()
	cmd := exec.Command(self, "-prop", sp.Prop, "-tier", sp.Tier, "-seed", fmt.Sprint(sp.Seed), "-child", specPath)
	cmd.Stderr = errf
	cmd.Stdout = errf
	cmd.Env = append(os.Environ(), "MY_NODE_NAME="+hostName)
	return cmd.Run()
}

func lastJournal(dir, name string) string {
	data, _ := os.ReadFile(filepath.Join(dir, name+".journal"))
	lines := strings.Split(strings.TrimSpace(string(data)), "\n")
	return lines[len(lines)-1]
}

func tailFile(path string, n int) string {
	data, _ := os.ReadFile(path)
	lines := strings.Split(strings.TrimSpace(string(data)), "\n")
	if len(lines) > n {
		lines = lines[:n] // a Go crash prints the reason first
	}
	return strings.Join(lines, "\n")
}

type bestViol struct {
	childViol
	total int
}

func parentMain(fl *evid.Flags) int {
	run := evid.NewRun(fl.Prop, fl.Tier, fl.Seed, "exploration", "polsim")
	dir, cleanup := scratchDir()
	defer cleanup()
	n := caseCount(fl.Prop, fl.Tier)
	if fl.Prop == "C15" {
		run.Rule = "case = (before cluster, transition, after cluster): transition is one of " + strings.Join(c15Modes, " | ") +
			"; clusters <= 4 namespaces, <= 10 pods, <= 5 policies drawn from small label pools so that selectors hit; " +
			"foreign chains/rules/sets planted in 70% of the cases. Non-trivial and distinct: the GLX state right before the " +
			"checked full sync is non-empty and differs from what a fresh manager builds for the after-cluster (fingerprint = " +
			"hash of the whole case input)."
		run.Assume("the strict fakes model iptables 1.8.9 / ipset 7 accept-reject behaviour for the commands galaxy issues")
		run.Assume("convergence oracle is differential: a fresh manager synced once on empty tables defines the target; what that " +
			"target means is C16's subject")
		run.Assume("order of ACCEPT rules in a policy chain, of hooks in GLX-INGRESS/EGRESS and of the policy jumps between the " +
			"conntrack rule and the DROP of a pod chain is not part of the property")
	} else {
		run.Rule = "cluster i has focus shape focusNames[i mod " + fmt.Sprint(len(focusNames)) + "] (" + strings.Join(focusNames, ", ") +
			") as a small core, every third round bare, else with random namespaces/pods/policies around it (<= 4 ns, <= 10 " +
			"pods, <= 5 policies); flows = ordered pairs of {pods with IP} + {every ipBlock/except boundary +-1, 2 unrelated " +
			"addresses} with at least one end a pod on this node x {every port named by a policy, 9999} x {tcp, udp}. " +
			"Non-trivial and distinct: reference verdicts for isolated pods contain both allow and deny (fingerprint = hash of " +
			"the cluster). Even case indices: rules of a fresh manager after one full sync. Odd case indices: a manager with a " +
			"history - cluster A synced, then 1-3 mutations (" + strings.Join(c16Mutations, ", ") + ") give cluster B, which " +
			"reaches the manager either as informer events, all delivered (judged right after the handlers when the transition " +
			"is exactly one mutation - half of the cases -, only observed there otherwise, and judged again after a full " +
			"resync), or as a plain cache change followed by a full resync; same flows, judged against B. A mismatch that " +
			"a fresh manager's rules for B do not have is attributed to the part of the installed state (hook, pod chain, policy " +
			"chain, set) whose replacement by the fresh manager's repairs the verdict."
		run.Assume("the strict fakes hold exactly what galaxy installed; hash:net lookup = most specific element decides, nomatch " +
			"element means no match; hash:net refuses a /0 element")
		run.Assume("a new connection's first packet has conntrack state NEW; pod-to-pod and pod-to-external traffic crosses the " +
			"filter FORWARD chain once on this node")
		run.Assume("reference evaluator implements networking.k8s.io/v1 as documented; ipBlock matches by address, also pod addresses")
	}

	// shards
	par := runtime.NumCPU()
	if par > 16 {
		par = 16
	}
	shardSize := (n + 4*par - 1) / (4 * par)
	if shardSize < 5 {
		shardSize = 5
	}
	type shard struct {
		from, to int
		skip     []int
		tries    int
	}
	var shards []*shard
	for f := 0; f < n; f += shardSize {
		t := f + shardSize
		if t > n {
			t = n
		}
		shards = append(shards, &shard{from: f, to: t})
	}
	best := map[string]*bestViol{}
	observed := map[string]*bestViol{}
	var mu sync.Mutex
	sem := make(chan struct{}, par)
	var wg sync.WaitGroup
	var runShard func(i int, sh *shard)
	runShard = func(i int, sh *shard) {
		defer wg.Done()
		sem <- struct{}{}
		name := fmt.Sprintf("shard%d.%d", i, sh.tries)
		sp := &childSpec{Kind: "cases", Prop: fl.Prop, Tier: fl.Tier, Seed: fl.Seed, From: sh.from, To: sh.to, Skip: sh.skip,
			Dir: dir, Name: name}
		err := runChild(sp)
		<-sem
		part, perr := evid.ReadPartial(filepath.Join(dir, name+".partial.json"))
		if err != nil || perr != nil {
			last := lastJournal(dir, name)
			var idx int
			if _, e := fmt.Sscanf(last, "case %d", &idx); e == nil && sh.tries < 4 {
				head := tailFile(filepath.Join(dir, name+".stderr"), 25)
				fn := "unknown"
				if m := galaxyFrame.FindStringSubmatch(head); m != nil {
					fn = m[2]
				}
				run.Violate(evid.Violation{Sig: strings.ToLower(fl.Prop) + "-process-died-in-" + fn,
					Msg:     fmt.Sprintf("child process died (%v) while running case %d", err, idx),
					Witness: map[string]interface{}{"case_index": idx, "stderr_head": strings.Split(head, "\n")},
					Case:    fmt.Sprintf("%d:%d", fl.Seed, idx)})
				sh.skip = append(sh.skip, idx)
				sh.tries++
				wg.Add(1)
				go runShard(i, sh)
				return
			}
			run.Inconclusive(fmt.Sprintf("shard %d (%d..%d) failed: %v / %v; journal: %s", i, sh.from, sh.to, err, perr, last))
			return
		}
		var list []*childViol
		vd, _ := os.ReadFile(filepath.Join(dir, name+".viols.json"))
		_ = json.Unmarshal(vd, &list)
		mu.Lock()
		for _, v := range list {
			if v.Observe {
				if o, ok := observed[v.Sig]; !ok {
					observed[v.Sig] = &bestViol{childViol: *v, total: v.Count}
				} else {
					o.total += v.Count
					if v.Size < o.Size {
						t := o.total
						*o = bestViol{childViol: *v, total: t}
					}
				}
				continue
			}
			b, ok := best[v.Sig]
			if !ok {
				best[v.Sig] = &bestViol{childViol: *v, total: v.Count}
				continue
			}
			b.total += v.Count
			if v.Size < b.Size {
				t := b.total
				*b = bestViol{childViol: *v, total: t}
			}
		}
		mu.Unlock()
		run.Merge(part)
	}
	for i, sh := range shards {
		wg.Add(1)
		go runShard(i, sh)
	}
	wg.Wait()

	// minimise one witness per signature (child processes), then report
	var sigs []string
	for s := range best {
		sigs = append(sigs, s)
	}
	sort.Strings(sigs)
	shrunk := make([]*shrinkOut, len(sigs))
	for i, s := range sigs {
		wg.Add(1)
		go func(i int, s string) {
			defer wg.Done()
			sem <- struct{}{}
			defer func() { <-sem }()
			name := fmt.Sprintf("shrink%d", i)
			sp := &childSpec{Kind: "shrink", Prop: fl.Prop, Tier: fl.Tier, Seed: fl.Seed, Dir: dir, Name: name, Sig: s,
				Input: best[s].Input, Budget: evid.Tiered(fl.Tier, 400, 1500)}
			if err := runChild(sp); err != nil {
				return
			}
			data, err := os.ReadFile(filepath.Join(dir, name+".shrunk.json"))
			if err != nil {
				return
			}
			var so shrinkOut
			if json.Unmarshal(data, &so) == nil && so.OK {
				shrunk[i] = &so
			}
		}(i, s)
	}
	wg.Wait()
	for i, s := range sigs {
		b := best[s]
		v := evid.Violation{Sig: s, Case: b.Case}
		if so := shrunk[i]; so != nil {
			v.Msg = fmt.Sprintf("%s [seen %d times in %d cases; witness minimised from case %s in %d evaluations]", so.Msg, b.total,
				n, b.Case, so.Evals)
			v.Witness = so.Witness
			run.Max("max_shrink_evaluations", int64(so.Evals))
		} else {
			var in interface{}
			_ = json.Unmarshal(b.Input, &in)
			v.Msg = fmt.Sprintf("%s [seen %d times in %d cases; witness NOT minimised]", b.Msg, b.total, n)
			v.Witness = map[string]interface{}{"input": in}
			run.Count("witness_minimisation_failed", 1)
		}
		run.Violate(v)
	}
	run.Set("signatures_seen", sigs)
	if len(observed) > 0 {
		obsOut := map[string]interface{}{}
		for s, o := range observed {
			var in interface{}
			_ = json.Unmarshal(o.Input, &in)
			obsOut[s] = map[string]interface{}{"flows": o.total, "smallest_case": o.Case, "what": o.Msg, "witness": in}
		}
		if fl.Prop == "C15" {
			run.Set("fault_stage_observations_not_violations", obsOut)
		} else {
			run.Set("after_events_only_observations_not_violations", obsOut)
		}
	}

	// floors: a run that did not see the situations the property is about is inconclusive
	if fl.Prop == "C16" {
		for _, q := range c16Quota {
			if run.Counter("shape:"+q) == 0 {
				run.Inconclusive("quota shape never exercised: " + q)
			}
		}
		if run.Counter("flows_compared") < int64(n)*50 {
			run.Inconclusive(fmt.Sprintf("only %d flows compared", run.Counter("flows_compared")))
		}
		if run.Counter("same_node_egress-allow_ingress-deny") == 0 {
			run.Inconclusive("no same-node flow with egress allowed and ingress denied was observed")
		}
		for _, mu := range c16Mutations {
			if run.Counter("mutation:"+mu) == 0 {
				run.Inconclusive("transition mode: mutation never applied: " + mu)
			}
			if run.Counter("single_mutation_events:"+mu) == 0 {
				run.Inconclusive("transition mode: mutation never delivered alone as its event: " + mu)
			}
		}
		for _, c := range []string{"cases_with_upper_case_hostname_override", "cases_in_exec_mode:ipset", "cases_in_exec_mode:iptables",
			"single_mutation_pod-add_first_event_has_ip", "transitions_via_events", "transitions_via_resync", "flows_compared-after-events",
			"flows_compared-after-events+resync", "flows_compared-after-resync"} {
			if run.Counter(c) == 0 {
				run.Inconclusive("transition mode: never observed: " + c)
			}
		}
		if run.Counter("checks_on_isolated_pod") == 0 || run.Counter("checks_on_unisolated_pod") == 0 {
			run.Inconclusive("isolated / unisolated pods not both observed")
		}
		return run.Finish(n / 4)
	}
	for _, m := range c15Modes {
		if run.Counter("mode:"+m) == 0 {
			run.Inconclusive("mode never exercised: " + m)
		}
	}
	for _, c := range []string{"cases_with_upper_case_hostname_override", "cases_in_exec_mode:ipset", "cases_in_exec_mode:iptables",
		"exec_commands:ipset list <set>",
		"exec_commands:iptables-restore", "faults_injected_ipset", "faults_injected_iptables", "fault_in_sync", "fault_in_event",
		"full_syncs", "foreign_objects_compared", "restarts", "perturbations_applied",
		"planted_stale_policy-chain", "events_policy-update", "events_pod-update", "events_pod-delete", "events_policy-delete"} {
		if run.Counter(c) == 0 {
			run.Inconclusive("never observed: " + c)
		}
	}
	return run.Finish(n / 3)
}

// ---- replay ----

func replayMain(fl *evid.Flags) int {
	data, err := os.ReadFile(fl.Replay)
	if err != nil {
		fmt.Println("polsim: ", err)
		return evid.ExitBroken
	}
	var file struct {
		Violation struct {
			Sig     string `json:"sig"`
			Witness struct {
				Cluster    *Cluster  `json:"cluster"`
				Case       *C15Case  `json:"case"`
				Transition *C16Trans `json:"transition"`
			} `json:"witness"`
		} `json:"violation"`
	}
	if err := json.Unmarshal(data, &file); err != nil {
		fmt.Println("polsim: ", err)
		return evid.ExitBroken
	}
	var viols map[string]*violation
	switch {
	case fl.Prop == "C16" && file.Violation.Witness.Transition != nil:
		viols = evalC16T(file.Violation.Witness.Transition).viols
	case fl.Prop == "C16" && file.Violation.Witness.Cluster != nil:
		viols = evalC16(file.Violation.Witness.Cluster).viols
	case fl.Prop == "C15" && file.Violation.Witness.Case != nil:
		viols = evalC15(file.Violation.Witness.Case).viols
	default:
		fmt.Println("polsim: replay file has no witness input for", fl.Prop)
		return evid.ExitBroken
	}
	for _, s := range keysOf(viols) {
		fmt.Printf("replay: sig=%s: %s\n", s, viols[s].Msg)
	}
	if _, ok := viols[file.Violation.Sig]; ok {
		fmt.Printf("VIOLATION property=%s replay=%s\n", fl.Prop, fl.Replay)
		return evid.ExitViolation
	}
	fmt.Printf("replay: signature %s not re-observed\n", file.Violation.Sig)
	return evid.ExitHeld
}
