package main

import (
	"encoding/json"
	"fmt"
	"math/rand"
	"regexp"
	"sort"
	"strings"

	"tkestack.io/galaxy/pkg/utils/ipset"
	utiliptables "tkestack.io/galaxy/pkg/utils/iptables"
	"verif/harness/fakes"
)

// C15: a full sync converges from any prior galaxy state, is idempotent, leaves foreign state alone and never
// submits a batch referencing a missing chain/set.

// Event is one informer event; the harness first mutates the caches, then calls the handler.
type Event struct {
	Kind   string  `json:"kind"` // policy-add|policy-update|policy-delete|pod-add|pod-update|pod-delete|ns-relabel|sync-pod-chains|sync-pod-ipset
	Policy *Policy `json:"policy,omitempty"`
	Pod    *Pod    `json:"pod,omitempty"`
	NS     *NS     `json:"namespace,omitempty"`
	// WithIP (pod-add): the pod's first event already carries its address (informer re-list after a broken watch, or the
	// daemon started after the pod); it is followed by one status-only update whose old and new objects differ in
	// resourceVersion only. Otherwise: Add without address, then Update with the address.
	WithIP bool `json:"first_event_has_ip,omitempty"`
}

// C15Case is the complete, replayable input of one case.
type C15Case struct {
	Mode        string   `json:"mode"`
	Before      *Cluster `json:"before"`                // synced first (prior state)
	After       *Cluster `json:"after,omitempty"`       // caches replaced by this without events (modes other than events)
	Events      []Event  `json:"events,omitempty"`      // delivered one by one after the prior sync
	CacheAhead  int      `json:"cache_ahead,omitempty"` // the informer store is this many events ahead of the handlers
	Restart     bool     `json:"restart"`               // the checked sync is done by a new manager instance over the old kernel state
	PriorSyncs  int      `json:"prior_syncs"`
	Stale       []string `json:"stale_plants,omitempty"` // set | policy-chain | pod-chain
	Perturb     int      `json:"perturbations,omitempty"`
	PerturbSeed int64    `json:"perturb_seed,omitempty"`
	Foreign     bool     `json:"foreign_state"`
	// Fault: additionally re-run the case with one tool failure and judge the reject log, panics and convergence
	Fault *faultSpec `json:"fault,omitempty"`
	// Exec: "" | ipset | iptables - the manager under test uses galaxy's exec-backed runner for that tool
	Exec string `json:"exec_mode,omitempty"`
	// HostOverride: the manager under test runs with --hostname-override=Node-A (pods carry node-a)
	HostOverride bool `json:"hostname_override_upper_case,omitempty"`
}

// faultSpec: the K-th ipset / iptables operation of one entry-point call fails once (the tool fails, nothing reaches
// the kernel).
type faultSpec struct {
	Kind   string `json:"kind"`   // ipset | iptables
	Target string `json:"target"` // sync (the judged full sync) | event
	Event  int    `json:"event,omitempty"`
	K      int    `json:"k"`
}

func (cs *C15Case) clone() *C15Case {
	data, _ := json.Marshal(cs)
	var out C15Case
	_ = json.Unmarshal(data, &out)
	return &out
}

// size orders witnesses: smaller is better; histories made of galaxy's own operations only are preferred over
// ones with planted leftovers or perturbations.
func (cs *C15Case) size() int {
	data, _ := json.Marshal(cs)
	n := len(data)
	if len(cs.Stale) > 0 || cs.Perturb > 0 {
		n += 1 << 20
	}
	return n
}

// ---- generation ----

var c15Modes = []string{"resync-independent", "resync-mutated", "resync-mutated-policies-persist", "events",
	"planted-stale", "perturbed", "events+restart", "resync-mutated-policies-persist+restart", "events-cache-ahead", "resync-pod-recreated-without-ip"}

func genEvents(rng *rand.Rand, start *Cluster, o genOpts, n int) []Event {
	m := start.clone()
	al := &ipAlloc{nextOn: 60, nextOff: 60}
	var evs []Event
	for len(evs) < n {
		switch k := rng.Intn(16); {
		case k < 2:
			if len(m.Policies) >= o.maxPol {
				continue
			}
			p := genPolicy(rng, m, fmt.Sprintf("ne%d", len(evs)))
			m.Policies = append(m.Policies, p)
			evs = append(evs, Event{Kind: "policy-add", Policy: &p})
		case k < 5:
			if len(m.Policies) == 0 {
				continue
			}
			i := rng.Intn(len(m.Policies))
			p := genPolicy(rng, m, m.Policies[i].Name)
			p.NS = m.Policies[i].NS
			if rng.Intn(4) == 0 {
				// only an address block changes sides (except <-> plain)
				if q := (&Cluster{Policies: []Policy{m.Policies[i]}}).clone().Policies[0]; flipIPBlock(rng, &q) {
					p = q
				}
			}
			m.Policies[i] = p
			evs = append(evs, Event{Kind: "policy-update", Policy: &p})
		case k < 7:
			if len(m.Policies) == 0 {
				continue
			}
			i := rng.Intn(len(m.Policies))
			p := m.Policies[i]
			m.Policies = append(m.Policies[:i], m.Policies[i+1:]...)
			evs = append(evs, Event{Kind: "policy-delete", Policy: &p})
		case k < 9:
			if len(m.Pods) >= o.maxPods {
				continue
			}
			p := genPod(rng, m, al, fmt.Sprintf("pe%d", len(evs)))
			m.Pods = append(m.Pods, p)
			evs = append(evs, Event{Kind: "pod-add", Pod: &p, WithIP: rng.Intn(2) == 0})
		case k < 12:
			if len(m.Pods) == 0 {
				continue
			}
			i := rng.Intn(len(m.Pods))
			p := m.Pods[i]
			if rng.Float64() < 0.8 {
				p.Labels = genLabels(rng, podLabelSpace, 0.9)
			} else {
				p.IP = al.next(rng, p.onNode())
			}
			m.Pods[i] = p
			evs = append(evs, Event{Kind: "pod-update", Pod: &p})
		case k < 14:
			if len(m.Pods) == 0 {
				continue
			}
			i := rng.Intn(len(m.Pods))
			p := m.Pods[i]
			m.Pods = append(m.Pods[:i], m.Pods[i+1:]...)
			evs = append(evs, Event{Kind: "pod-delete", Pod: &p})
		case k < 15:
			i := rng.Intn(len(m.Namespaces))
			n := m.Namespaces[i]
			n.Labels = genLabels(rng, nsLabelSpace, 0.8)
			m.Namespaces[i] = n
			evs = append(evs, Event{Kind: "ns-relabel", NS: &n})
		default:
			if len(m.Pods) == 0 {
				continue
			}
			p := m.Pods[rng.Intn(len(m.Pods))]
			kind := "sync-pod-chains"
			if rng.Intn(2) == 0 {
				kind = "sync-pod-ipset"
			}
			evs = append(evs, Event{Kind: kind, Pod: &p})
		}
	}
	return evs
}

func genC15Case(rng *rand.Rand, idx int, o genOpts) *C15Case {
	cs := genC15CaseInner(rng, idx, o)
	// every 4th case drives the exec-backed ipset runner, every other 4th the exec-backed iptables runner. The mode index
	// is idx mod 10, so all (mode, exec) combinations occur.
	switch (idx / len(c15Modes)) % 4 {
	case 1:
		cs.Exec = "ipset"
	case 3:
		cs.Exec = "iptables"
	}
	cs.HostOverride = (idx/(4*len(c15Modes)))%8 == 1
	return cs
}

func genC15CaseInner(rng *rand.Rand, idx int, o genOpts) *C15Case {
	cs := &C15Case{Mode: c15Modes[idx%len(c15Modes)], PriorSyncs: 1 + rng.Intn(2), Foreign: rng.Float64() < 0.7}
	// the C16 focus shapes double as policy-shape diversity here
	focus := rng.Intn(len(focusNames))
	cs.Before = genFocusCluster(rng, o, focus, rng.Float64() < 0.2)
	switch cs.Mode {
	case "resync-independent":
		cs.After = genFocusCluster(rng, o, rng.Intn(len(focusNames)), false)
		cs.Restart = rng.Intn(2) == 0
	case "resync-mutated":
		cs.After = mutateCluster(rng, cs.Before, o, false)
		cs.Restart = rng.Intn(2) == 0
	case "resync-mutated-policies-persist":
		cs.After = mutateCluster(rng, cs.Before, o, true)
	case "resync-mutated-policies-persist+restart":
		cs.After = mutateCluster(rng, cs.Before, o, true)
		cs.Restart = true
	case "events":
		cs.Events = genEvents(rng, cs.Before, o, 1+rng.Intn(15))
	case "resync-pod-recreated-without-ip":
		// a pod with chain and hook was deleted and re-created under the same name while its events were missed; the new
		// incarnation is on this node, has no address yet and (half of the cases) other labels, so that the label-based
		// policy that selected the old one no longer selects it. The policy persists: no policy chain becomes stale.
		b := cs.Before
		if len(b.Namespaces) == 0 {
			b.Namespaces = []NS{{Name: "ns0"}}
		}
		ns := b.Namespaces[rng.Intn(len(b.Namespaces))].Name
		b.Pods = append(b.Pods, Pod{Name: "rc", NS: ns, Labels: lbl("app", "a", "role", "r"), IP: "10.244.1.200", Node: hostName})
		b.Policies = append(b.Policies, Policy{Name: "rcsel", NS: ns, PodSel: selOf("role", "r"),
			Types: pick(rng, nil, []string{"Ingress"}, []string{"Egress"}, []string{"Ingress", "Egress"}), Ingress: genRules(rng, 1)})
		cs.After = b.clone()
		if rng.Intn(3) == 0 {
			cs.After = mutateCluster(rng, b, o, true)
		}
		if p := cs.After.pod(ns, "rc"); p != nil {
			p.IP = ""
			if rng.Intn(2) == 0 {
				p.Labels = genLabels(rng, podLabelSpace, 0.9) // never carries role=r
			}
		} else {
			cs.After.Pods = append(cs.After.Pods, Pod{Name: "rc", NS: ns, Labels: genLabels(rng, podLabelSpace, 0.9), Node: hostName})
		}
		if pol := cs.After.policy(ns, "rcsel"); pol != nil {
			pol.PodSel = selOf("role", "r") // mutateCluster may have regenerated it
		}
		cs.Restart = rng.Intn(2) == 0
	case "events-cache-ahead":
		cs.Events = genEvents(rng, cs.Before, o, 2+rng.Intn(14))
		cs.CacheAhead = 1 + rng.Intn(3)
	case "events+restart":
		cs.Events = genEvents(rng, cs.Before, o, 1+rng.Intn(15))
		cs.Restart = true
		if rng.Intn(2) == 0 {
			cs.Perturb, cs.PerturbSeed = 1+rng.Intn(3), rng.Int63()
		}
	case "planted-stale":
		cs.After = cs.Before.clone()
		if rng.Intn(2) == 0 {
			cs.After = mutateCluster(rng, cs.Before, o, true)
		}
		switch rng.Intn(4) {
		case 0:
			cs.Stale = []string{"set"}
		case 1:
			cs.Stale = []string{"policy-chain"}
		case 2:
			cs.Stale = []string{"set", "policy-chain"}
		default:
			cs.Stale = []string{"policy-chain", "pod-chain"}
		}
		cs.Restart = rng.Intn(2) == 0
	case "perturbed":
		cs.After = cs.Before.clone()
		cs.Perturb, cs.PerturbSeed = 1+rng.Intn(5), rng.Int63()
		cs.Restart = rng.Intn(2) == 0
	}
	return cs
}

// ---- planting ----

const foreignFilter = `*filter
:DOCKER-USER - [0:0]
:KUBE-FORWARD - [0:0]
:X-GLX-PLCY-NOTOURS - [0:0]
-A INPUT -s 198.51.100.7/32 -j DROP
-A FORWARD -j DOCKER-USER
-A FORWARD -m comment --comment "kube forwarding rules" -j KUBE-FORWARD
-A OUTPUT -d 198.51.100.9/32 -p tcp -m multiport --dports 25 -j REJECT
-A DOCKER-USER -j RETURN
-A KUBE-FORWARD -m set --match-set KUBE-SET src -j ACCEPT
-A KUBE-FORWARD -m conntrack --ctstate RELATED,ESTABLISHED -j ACCEPT
-A X-GLX-PLCY-NOTOURS -s 10.244.1.10/32 -j ACCEPT
COMMIT
*nat
:KUBE-SERVICES - [0:0]
-A PREROUTING -j KUBE-SERVICES
-A POSTROUTING -s 10.244.0.0/16 -j MASQUERADE
COMMIT
`

func plantForeign(e *env) error {
	for _, s := range []struct {
		name string
		typ  ipset.Type
		mem  []string
	}{{"KUBE-SET", ipset.HashIP, []string{"10.96.0.1", "10.244.1.10"}},
		{"other-net", ipset.HashNet, []string{"192.0.2.0/24", "192.0.2.128/25 nomatch"}},
		{"glx-lowercase", ipset.HashIP, []string{"10.244.1.11"}}} {
		set := &ipset.IPSet{Name: s.name, SetType: s.typ}
		if err := e.sets.CreateSet(set, false); err != nil {
			return err
		}
		for _, m := range s.mem {
			if err := e.sets.AddEntry(m, set, false); err != nil {
				return err
			}
		}
	}
	return e.ipt.Plant(foreignFilter)
}

const (
	staleHash      = "STALEAAAAAAAAAAA"
	stalePolChain  = "GLX-PLCY-" + staleHash
	stalePodChain  = "GLX-POD-" + staleHash
	staleGhostName = "ghost_ns0"
)

func mustSet(e *env, name string, typ ipset.Type, members ...string) error {
	set := &ipset.IPSet{Name: name, SetType: typ}
	if err := e.sets.CreateSet(set, true); err != nil {
		return err
	}
	for _, m := range members {
		if err := e.sets.AddEntry(m, set, true); err != nil {
			return err
		}
	}
	return nil
}

// plantStale plants GLX-named leftovers of objects that no longer exist: the state galaxy itself leaves behind when
// it misses the deletion of a policy / pod (it was down, or the sync that should have removed them failed).
func plantStale(e *env, what []string) error {
	has := func(s string) bool { return contains(what, s) }
	if has("set") {
		if err := mustSet(e, "GLX-ip-STALESETAAAAAAAA", ipset.HashIP, "10.244.1.200"); err != nil {
			return err
		}
		if err := mustSet(e, "GLX-snet-0-STALESETAAAAAAAA", ipset.HashNet, "10.77.0.0/16", "10.77.1.0/24 nomatch"); err != nil {
			return err
		}
	}
	if has("policy-chain") || has("pod-chain") {
		if err := mustSet(e, "GLX-ip-"+staleHash, ipset.HashIP, "10.244.1.250"); err != nil {
			return err
		}
		if err := mustSet(e, "GLX-sip-0-"+staleHash, ipset.HashIP, "10.244.2.250"); err != nil {
			return err
		}
		script := "*filter\n:" + stalePolChain + " - [0:0]\n-A " + stalePolChain + " -m comment --comment gone_ns0 -p all " +
			"-m set --match-set GLX-sip-0-" + staleHash + " src -m set --match-set GLX-ip-" + staleHash + " dst -j ACCEPT\nCOMMIT\n"
		if err := e.ipt.Plant(script); err != nil {
			return err
		}
	}
	if has("pod-chain") {
		for _, c := range []string{"GLX-INGRESS", "GLX-EGRESS"} {
			if _, err := e.ipt.EnsureChain(utiliptables.TableFilter, utiliptables.Chain(c)); err != nil {
				return err
			}
			if _, err := e.ipt.EnsureRule(utiliptables.Prepend, utiliptables.TableFilter, utiliptables.ChainForward, "-j", c); err != nil {
				return err
			}
		}
		script := "*filter\n:" + stalePodChain + " - [0:0]\n" +
			"-A " + stalePodChain + " -m comment --comment " + staleGhostName + " -m conntrack --ctstate RELATED,ESTABLISHED -j ACCEPT\n" +
			"-A " + stalePodChain + " -m comment --comment " + staleGhostName + " -j " + stalePolChain + "\n" +
			"-A " + stalePodChain + " -m comment --comment " + staleGhostName + " -j DROP\n" +
			"-A GLX-INGRESS -d 10.244.1.250 -m comment --comment " + staleGhostName + " -j " + stalePodChain + "\nCOMMIT\n"
		if err := e.ipt.Plant(script); err != nil {
			return err
		}
	}
	return nil
}

// perturb damages existing GLX state the way interrupted or superseded galaxy operations leave it: stale or
// missing set members, an outdated policy chain body, a missing hook, missing FORWARD jumps, an emptied pod chain.
func perturb(e *env, n int, seed int64) []string {
	rng := rand.New(rand.NewSource(seed))
	var log []string
	for i := 0; i < n; i++ {
		sets := e.sets.Sets()
		var setNames []string
		for s := range sets {
			if strings.HasPrefix(s, "GLX-") {
				setNames = append(setNames, s)
			}
		}
		sort.Strings(setNames)
		chains := e.ipt.Chains("filter")
		var plc, pod []string
		for c := range chains {
			if strings.HasPrefix(c, "GLX-PLCY-") {
				plc = append(plc, c)
			} else if strings.HasPrefix(c, "GLX-POD-") {
				pod = append(pod, c)
			}
		}
		sort.Strings(plc)
		sort.Strings(pod)
		switch rng.Intn(8) {
		case 0:
			if len(setNames) == 0 {
				continue
			}
			s := setNames[rng.Intn(len(setNames))]
			set := &ipset.IPSet{Name: s, SetType: sets[s].Type}
			entry := fmt.Sprintf("10.99.0.%d", 1+rng.Intn(200))
			if sets[s].Type == ipset.HashNet {
				entry = fmt.Sprintf("10.99.%d.0/24", rng.Intn(200))
				if rng.Intn(2) == 0 {
					entry += " nomatch"
				}
			}
			_ = e.sets.AddEntry(entry, set, true)
			log = append(log, "add "+entry+" to "+s)
		case 1, 7:
			if len(setNames) == 0 {
				continue
			}
			s := setNames[rng.Intn(len(setNames))]
			var mem []string
			for m := range sets[s].Members {
				mem = append(mem, m)
			}
			if len(mem) == 0 {
				continue
			}
			sort.Strings(mem)
			m := mem[rng.Intn(len(mem))]
			_ = e.sets.DelEntry(m, s)
			log = append(log, "del "+m+" from "+s)
		case 2:
			if len(plc) == 0 || len(setNames) == 0 {
				continue
			}
			c := plc[rng.Intn(len(plc))]
			s := setNames[rng.Intn(len(setNames))]
			_, _ = e.ipt.EnsureRule(utiliptables.Append, utiliptables.TableFilter, utiliptables.Chain(c), "-m", "comment",
				"--comment", "outdated", "-p", "tcp", "-m", "set", "--match-set", s, "src", "-j", "ACCEPT")
			log = append(log, "append outdated rule to "+c)
		case 3:
			if len(plc) == 0 {
				continue
			}
			c := plc[rng.Intn(len(plc))]
			_ = e.ipt.FlushChain(utiliptables.TableFilter, utiliptables.Chain(c))
			log = append(log, "flush "+c)
		case 4:
			base := []string{"GLX-INGRESS", "GLX-EGRESS"}[rng.Intn(2)]
			rules := append([]fakes.Rule(nil), chains[base]...)
			if len(rules) == 0 {
				continue
			}
			// the order of the hooks depends on goroutine scheduling in syncPods: pick by content, so that a replay of the
			// case perturbs the same hook
			sort.Slice(rules, func(i, j int) bool { return rules[i].String() < rules[j].String() })
			r := rules[rng.Intn(len(rules))]
			_ = e.ipt.DeleteRule(utiliptables.TableFilter, utiliptables.Chain(base), r.Tokens...)
			log = append(log, "delete hook "+r.String()+" from "+base)
		case 5:
			base := []string{"GLX-INGRESS", "GLX-EGRESS"}[rng.Intn(2)]
			if _, ok := chains[base]; !ok {
				continue
			}
			_ = e.ipt.DeleteRule(utiliptables.TableFilter, utiliptables.ChainForward, "-j", base)
			log = append(log, "delete FORWARD jump to "+base)
		case 6:
			if len(pod) == 0 {
				continue
			}
			c := pod[rng.Intn(len(pod))]
			_ = e.ipt.FlushChain(utiliptables.TableFilter, utiliptables.Chain(c))
			log = append(log, "flush "+c)
		}
	}
	return log
}

// ---- observation: galaxy-owned state and foreign state ----

type glxState struct {
	Sets     map[string]fakes.SetInfo
	Policy   map[string][]string // chain -> sorted rules
	Pod      map[string][]string // chain -> first, sorted middle, last
	PodOwner map[string]string   // chain -> comment (name_ns)
	HooksIn  []string            // sorted
	HooksEg  []string
	hookRule map[string]fakes.Rule
}

var commentOf = func(r fakes.Rule) string {
	for i := 0; i+1 < len(r.Tokens); i++ {
		if r.Tokens[i] == "--comment" {
			return r.Tokens[i+1]
		}
	}
	return ""
}

func canonPodChain(rules []fakes.Rule) []string {
	var s []string
	for _, r := range rules {
		s = append(s, r.String())
	}
	if len(s) > 2 {
		sort.Strings(s[1 : len(s)-1])
	}
	return s
}

func observeGLX(e *env) *glxState {
	st := &glxState{Sets: map[string]fakes.SetInfo{}, Policy: map[string][]string{}, Pod: map[string][]string{},
		PodOwner: map[string]string{}, hookRule: map[string]fakes.Rule{}}
	for n, s := range e.sets.Sets() {
		if strings.HasPrefix(n, "GLX-") {
			st.Sets[n] = s
		}
	}
	for n, rules := range e.ipt.Chains("filter") {
		switch {
		case strings.HasPrefix(n, "GLX-PLCY-"):
			s := []string{}
			for _, r := range rules {
				s = append(s, r.String())
			}
			sort.Strings(s)
			st.Policy[n] = s
		case strings.HasPrefix(n, "GLX-POD-"):
			st.Pod[n] = canonPodChain(rules)
			for _, r := range rules {
				if c := commentOf(r); c != "" {
					st.PodOwner[n] = c
				}
			}
		case n == "GLX-INGRESS" || n == "GLX-EGRESS":
			for _, r := range rules {
				if n == "GLX-INGRESS" {
					st.HooksIn = append(st.HooksIn, r.String())
				} else {
					st.HooksEg = append(st.HooksEg, r.String())
				}
				st.hookRule[n+" "+r.String()] = r
			}
		}
	}
	sort.Strings(st.HooksIn)
	sort.Strings(st.HooksEg)
	return st
}

type diffItem struct {
	Cat    string `json:"category"`
	Detail string `json:"detail"`
}

func eqStrings(a, b []string) bool {
	if len(a) != len(b) {
		return false
	}
	for i := range a {
		if a[i] != b[i] {
			return false
		}
	}
	return true
}

func multisetDiff(a, b []string) (onlyA, onlyB []string) {
	cnt := map[string]int{}
	for _, x := range a {
		cnt[x]++
	}
	for _, x := range b {
		cnt[x]--
	}
	var keys []string
	for k := range cnt {
		keys = append(keys, k)
	}
	sort.Strings(keys)
	for _, k := range keys {
		for i := 0; i < cnt[k]; i++ {
			onlyA = append(onlyA, k)
		}
		for i := 0; i < -cnt[k]; i++ {
			onlyB = append(onlyB, k)
		}
	}
	return
}

// diffGLX compares the state under test with the state a fresh manager produces for the same cluster.
func diffGLX(got, want *glxState, cur *Cluster) []diffItem {
	var out []diffItem
	add := func(cat, detail string) { out = append(out, diffItem{cat, detail}) }
	ownerAlive := func(comment string) bool {
		parts := strings.SplitN(comment, "_", 2)
		if len(parts) != 2 {
			return false
		}
		p := cur.pod(parts[1], parts[0])
		return p != nil && p.onNode()
	}
	ownerSelected := func(comment string) bool {
		parts := strings.SplitN(comment, "_", 2)
		if len(parts) != 2 {
			return false
		}
		p := cur.pod(parts[1], parts[0])
		return p != nil && (len(cur.isolating(p, dirIngress)) > 0 || len(cur.isolating(p, dirEgress)) > 0)
	}
	names := func(m interface{}) []string {
		var ks []string
		switch mm := m.(type) {
		case map[string]fakes.SetInfo:
			for k := range mm {
				ks = append(ks, k)
			}
		case map[string][]string:
			for k := range mm {
				ks = append(ks, k)
			}
		}
		sort.Strings(ks)
		return ks
	}
	for _, n := range names(got.Sets) {
		g := got.Sets[n]
		w, ok := want.Sets[n]
		if !ok {
			add("extra-set", n)
			continue
		}
		if g.Type != w.Type {
			add("set-type-differs", n)
			continue
		}
		var ms []string
		for m := range g.Members {
			ms = append(ms, m)
		}
		for m := range w.Members {
			if _, ok := g.Members[m]; !ok {
				ms = append(ms, m)
			}
		}
		sort.Strings(ms)
		for _, m := range ms {
			go_, gok := g.Members[m]
			wo, wok := w.Members[m]
			switch {
			case gok && !wok:
				add("set-has-stale-member", n+" "+m)
			case !gok && wok:
				add("set-lacks-member", n+" "+m)
			case go_ != wo:
				add("set-member-nomatch-flag-differs", n+" "+m)
			}
		}
	}
	for _, n := range names(want.Sets) {
		if _, ok := got.Sets[n]; !ok {
			add("missing-set", n)
		}
	}
	for _, n := range names(got.Policy) {
		w, ok := want.Policy[n]
		if !ok {
			add("extra-policy-chain", n)
		} else if !eqStrings(got.Policy[n], w) {
			a, b := multisetDiff(got.Policy[n], w)
			add("policy-chain-rules-differ", fmt.Sprintf("%s: unexpected %v, lacking %v", n, a, b))
		}
	}
	for _, n := range names(want.Policy) {
		if _, ok := got.Policy[n]; !ok {
			add("missing-policy-chain", n)
		}
	}
	extraPod := map[string]bool{}
	for _, n := range names(got.Pod) {
		w, ok := want.Pod[n]
		if !ok {
			extraPod[n] = true
			if ownerAlive(got.PodOwner[n]) && !ownerSelected(got.PodOwner[n]) {
				// the pod exists on this node and no policy selects it: its chain has to go whatever its address is
				add("extra-pod-chain-of-unselected-current-pod", n+" ("+got.PodOwner[n]+")")
			} else if ownerAlive(got.PodOwner[n]) {
				add("extra-pod-chain-of-current-pod", n+" ("+got.PodOwner[n]+")")
			} else {
				add("extra-pod-chain-of-vanished-pod", n+" ("+got.PodOwner[n]+")")
			}
		} else if !eqStrings(got.Pod[n], w) {
			add("pod-chain-rules-differ", fmt.Sprintf("%s: have %v, want %v", n, got.Pod[n], w))
		}
	}
	missingPod := map[string]bool{}
	for _, n := range names(want.Pod) {
		if _, ok := got.Pod[n]; !ok {
			missingPod[n] = true
			add("missing-pod-chain", n+" ("+want.PodOwner[n]+")")
		}
	}
	for _, side := range []struct {
		name      string
		got, want []string
		g, w      *glxState
	}{{"GLX-INGRESS", got.HooksIn, want.HooksIn, got, want}, {"GLX-EGRESS", got.HooksEg, want.HooksEg, got, want}} {
		extra, lacking := multisetDiff(side.got, side.want)
		for _, h := range extra {
			r := got.hookRule[side.name+" "+h]
			if extraPod[r.Target()] {
				continue // reported with its chain
			}
			if ownerAlive(commentOf(r)) {
				add("extra-hook-of-current-pod", side.name+": "+h)
			} else {
				add("extra-hook-of-vanished-pod", side.name+": "+h)
			}
		}
		for _, h := range lacking {
			r := want.hookRule[side.name+" "+h]
			if missingPod[r.Target()] {
				continue
			}
			add("missing-hook", side.name+": "+h)
		}
	}
	return out
}

// canonFilter renders the filter table with the order-insensitive middle of pod chains sorted.
func canonFilter(e *env) string {
	chains := e.ipt.Chains("filter")
	var names []string
	for n := range chains {
		names = append(names, n)
	}
	sort.Strings(names)
	var b strings.Builder
	for _, n := range names {
		b.WriteString(":" + n + " " + e.ipt.Policy("filter", n) + "\n")
		var lines []string
		if strings.HasPrefix(n, "GLX-POD-") {
			lines = canonPodChain(chains[n])
		} else {
			for _, r := range chains[n] {
				lines = append(lines, r.String())
			}
		}
		for _, l := range lines {
			b.WriteString("-A " + n + " " + l + "\n")
		}
	}
	return b.String()
}

// foreignState renders everything galaxy does not own.
func foreignState(e *env) map[string]string {
	out := map[string]string{"nat": e.ipt.Dump("nat"), "mangle": e.ipt.Dump("mangle")}
	chains := e.ipt.Chains("filter")
	var names []string
	for n := range chains {
		names = append(names, n)
	}
	sort.Strings(names)
	for _, n := range names {
		if strings.HasPrefix(n, "GLX-") {
			continue
		}
		var b strings.Builder
		builtin := n == "INPUT" || n == "FORWARD" || n == "OUTPUT"
		if builtin {
			b.WriteString("policy " + e.ipt.Policy("filter", n) + "\n")
		}
		for _, r := range chains[n] {
			if builtin && strings.HasPrefix(r.Target(), "GLX-") {
				continue // galaxy's own jumps in built-in chains
			}
			b.WriteString(r.String() + "\n")
		}
		out["filter:"+n] = b.String()
	}
	for n, s := range e.sets.Sets() {
		if strings.HasPrefix(n, "GLX-") {
			continue
		}
		var ms []string
		for m, o := range s.Members {
			ms = append(ms, m+" "+o)
		}
		sort.Strings(ms)
		out["set:"+n] = string(s.Type) + "\n" + strings.Join(ms, "\n")
	}
	return out
}

// ---- reject classification ----

var (
	xLine      = regexp.MustCompile(`-X (GLX-[A-Z]+)-([A-Z0-9]+)`)
	targetLine = regexp.MustCompile("Couldn't load target `(GLX-[A-Z]+)-")
	chainLine  = regexp.MustCompile(`\(chain (GLX-[A-Z]+)`)
)

const (
	sigStaleX          = "c15-stale-policy-chain-X-while-referenced"
	sigPodBatchMissing = "c15-pod-chain-batch-jumps-to-missing-policy-chain"
	sigSetInUse        = "c15-stale-set-destroy-while-referenced"
)

func filterLines(ctx *rejCtx) []string {
	if ctx == nil {
		return nil
	}
	return strings.Split(ctx.dump, "\n")
}

type rejCtx struct {
	pre  *glxState // GLX state right before the sync (who references what)
	cur  *Cluster
	raw  map[string][]fakes.Rule
	dump string
}

// rejectBase returns the phase-independent signature of a rejected command, or "" if it is a tolerated best-effort
// rejection (exists / not-member) or of a kind the property does not speak about (other).
func rejectBase(rj fakes.Reject, ctx *rejCtx) string {
	switch rj.Kind {
	case "exists", "not-member", "other":
		return ""
	case "chain-in-use":
		if rj.Op == "restore" {
			if m := xLine.FindStringSubmatch(rj.Reason); m != nil {
				if m[1] == "GLX-PLCY" {
					// who still jumps to it?
					stale, live := 0, 0
					if ctx != nil && ctx.raw != nil {
						for cn, rules := range ctx.raw {
							for _, r := range rules {
								if r.Target() == m[1]+"-"+m[2] {
									owner := ctx.pre.PodOwner[cn]
									parts := strings.SplitN(owner, "_", 2)
									var p *Pod
									if len(parts) == 2 {
										p = ctx.cur.pod(parts[1], parts[0])
									}
									if p != nil && p.onNode() {
										live++
									} else {
										stale++
									}
								}
							}
						}
					}
					if stale > 0 && live == 0 {
						return sigStaleX + "-by-chain-of-vanished-pod"
					}
					return sigStaleX
				}
				return "c15-restore-X-" + m[1] + "-while-in-use"
			}
			return "c15-restore-chain-in-use-" + "unclassified-" + shapeHash(stripNames(rj.Reason))
		}
		return "c15-delete-chain-" + chainPrefix(rj.Data) + "-while-referenced"
	case "missing-chain":
		if m := targetLine.FindStringSubmatch(rj.Reason); m != nil {
			if rj.Op == "restore" && m[1] == "GLX-PLCY" {
				return sigPodBatchMissing
			}
			return "c15-" + opName(rj.Op) + "-jumps-to-missing-" + m[1]
		}
		if m := chainLine.FindStringSubmatch(rj.Reason); m != nil {
			return "c15-" + opName(rj.Op) + "-appends-to-missing-" + m[1]
		}
		return "c15-" + opName(rj.Op) + "-on-missing-chain-" + chainPrefix(strings.Fields(rj.Data + " ?")[0])
	case "missing-set":
		if rj.Op == "restore" {
			return "c15-batch-references-missing-set"
		}
		return "c15-" + opName(rj.Op) + "-on-missing-set"
	case "set-in-use":
		return sigSetInUse
	}
	return "unclassified-" + shapeHash(rj.Kind+" "+rj.Op+" "+stripNames(rj.Reason))
}

func opName(op string) string {
	op = strings.ReplaceAll(op, " ", "-")
	switch op {
	case "-A", "-I":
		return "ensure-rule"
	case "-D":
		return "delete-rule"
	case "-X":
		return "delete-chain"
	}
	return op
}

var hashLike = regexp.MustCompile(`[A-Z2-7]{16}|\d+`)

func stripNames(s string) string { return hashLike.ReplaceAllString(s, "#") }

// ---- the case ----

type c15Result struct {
	counters     map[string]int64
	viols        map[string]*violation
	nontrivial   bool
	inconclusive string
	// per entry-point call ("sync", "event:<i>"): operations issued and signatures of rejected commands, fault-free
	callOps     map[string][2]int
	callBases   map[string]map[string]bool
	syncsNeeded int // full syncs until the state equals the fresh manager's, 0: not within maxSyncs
}

func (r *c15Result) addViol(sig, msg string, obs interface{}) {
	if v, ok := r.viols[sig]; ok {
		v.Count++
		return
	}
	r.viols[sig] = &violation{Sig: sig, Msg: msg, Flow: obs, Count: 1}
}

// stageEvent mutates model + caches like the informer's store update and returns the handler call(s) the informer
// would make for it (possibly later: a shared informer updates its store before its listeners run).
func stageEvent(e *env, m *Cluster, ev Event) (string, func() *panicInfo) {
	nopf := func() *panicInfo { return nil }
	switch ev.Kind {
	case "policy-add", "policy-update":
		if ev.Policy == nil {
			return "none", nopf
		}
		np := ev.Policy.toAPI()
		if old := m.policy(ev.Policy.NS, ev.Policy.Name); old != nil {
			oldAPI := old.toAPI()
			*old = *ev.Policy
			_ = e.w.pols.Update(np)
			return "UpdatePolicy", func() *panicInfo { return guarded(func() { _ = e.pm.UpdatePolicy(oldAPI, np) }) }
		}
		m.Policies = append(m.Policies, *ev.Policy)
		_ = e.w.pols.Add(np)
		return "AddPolicy", func() *panicInfo { return guarded(func() { _ = e.pm.AddPolicy(np) }) }
	case "policy-delete":
		if ev.Policy == nil {
			return "none", nopf
		}
		for i := range m.Policies {
			if m.Policies[i].NS == ev.Policy.NS && m.Policies[i].Name == ev.Policy.Name {
				old := m.Policies[i].toAPI()
				m.Policies = append(m.Policies[:i], m.Policies[i+1:]...)
				_ = e.w.pols.Delete(old)
				return "DeletePolicy", func() *panicInfo { return guarded(func() { _ = e.pm.DeletePolicy(old) }) }
			}
		}
	case "pod-add", "pod-update":
		if ev.Pod == nil || m.ns(ev.Pod.NS) == nil {
			return "none", nopf
		}
		if old := m.pod(ev.Pod.NS, ev.Pod.Name); old != nil {
			oldAPI := old.toAPI()
			*old = *ev.Pod
			newAPI := ev.Pod.toAPI()
			_ = e.w.pods.Update(newAPI)
			return "UpdatePod", func() *panicInfo { return guarded(func() { _ = e.pm.UpdatePod(oldAPI, newAPI) }) }
		}
		if ev.WithIP && ev.Pod.IP != "" {
			m.Pods = append(m.Pods, *ev.Pod)
			first, second := ev.Pod.toAPI(), ev.Pod.toAPI()
			first.ResourceVersion, second.ResourceVersion = "1", "2"
			_ = e.w.pods.Add(first)
			_ = e.w.pods.Update(second)
			return "UpdatePod", func() *panicInfo {
				if pi := guarded(func() { _ = e.pm.AddPod(first) }); pi != nil {
					return pi
				}
				return guarded(func() { _ = e.pm.UpdatePod(first, second) })
			}
		}
		// a pod appears without an address first, then gets one
		m.Pods = append(m.Pods, *ev.Pod)
		pending := *ev.Pod
		pending.IP = ""
		pendingAPI := pending.toAPI()
		newAPI := ev.Pod.toAPI()
		_ = e.w.pods.Add(pendingAPI)
		if ev.Pod.IP != "" {
			_ = e.w.pods.Update(newAPI)
		}
		return "UpdatePod", func() *panicInfo {
			if pi := guarded(func() { _ = e.pm.AddPod(pendingAPI) }); pi != nil {
				return pi
			}
			if ev.Pod.IP != "" {
				return guarded(func() { _ = e.pm.UpdatePod(pendingAPI, newAPI) })
			}
			return nil
		}
	case "pod-delete":
		if ev.Pod == nil {
			return "none", nopf
		}
		for i := range m.Pods {
			if m.Pods[i].NS == ev.Pod.NS && m.Pods[i].Name == ev.Pod.Name {
				old := m.Pods[i].toAPI()
				m.Pods = append(m.Pods[:i], m.Pods[i+1:]...)
				_ = e.w.pods.Delete(old)
				return "DeletePod", func() *panicInfo { return guarded(func() { _ = e.pm.DeletePod(old) }) }
			}
		}
	case "ns-relabel":
		if ev.NS == nil {
			return "none", nopf
		}
		if n := m.ns(ev.NS.Name); n != nil {
			n.Labels = copyLabels(ev.NS.Labels)
			_ = e.w.nss.Update(n.toAPI()) // galaxy has no namespace handler
		}
	case "sync-pod-chains", "sync-pod-ipset":
		if ev.Pod == nil {
			return "none", nopf
		}
		p := m.pod(ev.Pod.NS, ev.Pod.Name)
		if p == nil {
			return "none", nopf
		}
		api := p.toAPI()
		if ev.Kind == "sync-pod-chains" {
			if !p.onNode() {
				return "none", nopf
			}
			return "SyncPodChains", func() *panicInfo { return guarded(func() { _ = e.pm.SyncPodChains(api) }) }
		}
		if p.IP == "" {
			return "none", nopf
		}
		return "SyncPodIPInIPSet", func() *panicInfo { return guarded(func() { e.pm.SyncPodIPInIPSet(api, true) }) }
	}
	return "none", nopf
}

// panicSig names a recovered panic by the innermost galaxy function and, where the policy set explains it, by the
// policy shape. ever: every policy the manager may hold in memory during the case.
func panicSig(pi *panicInfo, ever []Policy) string {
	shape := ""
	switch pi.Func {
	case "syncIngressInIPSet":
		for i := range ever {
			if !ever[i].hasType(dirIngress) && len(ever[i].Ingress) > 0 {
				shape = "-egress-only-policy-lists-ingress-rules"
			}
		}
	case "syncEgressInIPSet":
		for i := range ever {
			if !ever[i].hasType(dirEgress) && len(ever[i].Egress) > 0 {
				shape = "-ingress-only-policy-lists-egress-rules"
			}
		}
	}
	return "c15-panic-in-" + pi.Func + shape
}

func historySuffix(cs *C15Case) string {
	switch {
	case cs.After != nil || len(cs.Stale) > 0 || cs.Perturb > 0:
		return ""
	case cs.CacheAhead > 0:
		return "-after-cache-ahead-events"
	default:
		return "-after-delivered-events"
	}
}

// secondSyncVerb renames a difference category (second state vs first state) into what the second sync did.
func secondSyncVerb(cat string) string {
	switch {
	case cat == "set-has-stale-member":
		return "adds-set-member"
	case cat == "set-lacks-member":
		return "removes-set-member"
	case cat == "set-member-nomatch-flag-differs":
		return "flips-nomatch-flag"
	case strings.HasPrefix(cat, "extra-"):
		return "adds-" + strings.TrimPrefix(cat, "extra-")
	case strings.HasPrefix(cat, "missing-"):
		return "removes-" + strings.TrimPrefix(cat, "missing-")
	}
	return "changes-" + cat
}

func catsOf(items []diffItem) []string {
	var cs []string
	for _, it := range items {
		cs = append(cs, it.Cat)
	}
	sort.Strings(cs)
	return uniq(cs)
}

func firstN(items []diffItem, n int) []diffItem {
	if len(items) > n {
		return items[:n]
	}
	return items
}

func rejectLines(rjs []fakes.Reject) []string {
	var out []string
	for _, r := range rjs {
		d := r.Data
		if len(d) > 600 {
			d = d[:600] + "..."
		}
		out = append(out, fmt.Sprintf("[%s] %s: %s | %s", r.Kind, r.Op, r.Reason, d))
	}
	return out
}

const maxSyncs = 4

// evalC15 runs one case with all four monitors.
// evalC15 runs the case fault-free with all monitors and, if the case names a fault, once more with that fault.
func evalC15(cs *C15Case) *c15Result {
	res := evalC15Base(cs)
	if cs.Fault != nil {
		fr := evalC15Fault(cs, cs.Fault, res)
		for k, v := range fr.counters {
			res.counters[k] += v
		}
		for sig, v := range fr.viols {
			res.viols[sig] = v
		}
	}
	return res
}

func basesOf(rjs []fakes.Reject, ctx *rejCtx) map[string]bool {
	m := map[string]bool{}
	for _, rj := range rjs {
		if b := rejectBase(rj, ctx); b != "" {
			m[b] = true
		}
	}
	return m
}

func evalC15Base(cs *C15Case) *c15Result {
	res := &c15Result{counters: map[string]int64{}, viols: map[string]*violation{}, callOps: map[string][2]int{},
		callBases: map[string]map[string]bool{}}
	w := newWorld()
	e := newEnvFull(w, cs.Exec, cs.HostOverride)
	if cs.Foreign {
		if err := plantForeign(e); err != nil {
			res.addViol("polsim-harness-plant-foreign-failed", err.Error(), nil)
			return res
		}
	}
	foreign0 := foreignState(e)
	e.takeRejects()

	model := cs.Before.clone()
	if model == nil {
		model = &Cluster{}
	}
	w.load(model)
	ever := append([]Policy(nil), model.Policies...)
	for _, ev := range cs.Events {
		if ev.Policy != nil {
			ever = append(ever, *ev.Policy)
		}
	}
	if cs.After != nil {
		ever = append(ever, cs.After.Policies...)
	}

	// hist names how the state the checked full sync starts from came about. "" : the caches changed without (all)
	// events reaching the handlers, or leftovers were planted / state was perturbed - the situations the listed
	// full-sync findings are about. Otherwise every change was delivered to its handler, so whatever the full sync
	// still finds wrong was left behind by the handlers themselves.
	hist := historySuffix(cs)

	// judgeRejects classifies the rejected commands of one entry-point call. It returns true when the policy batch of
	// that call was rejected because of `-X` of a still referenced stale policy chain: what else goes wrong in the same
	// call (pod-chain batches jumping to policy chains that batch would have created, stale sets that stay referenced)
	// is downstream of that rejection and only counted.
	judgeRejects := func(rjs []fakes.Reject, phase, suffix string, ctx *rejCtx) (staleX bool) {
		for _, rj := range rjs {
			if strings.HasPrefix(rejectBase(rj, ctx), sigStaleX) {
				staleX = true
			}
		}
		for _, rj := range rjs {
			res.counters["rejects_"+rj.Kind]++
			base := rejectBase(rj, ctx)
			if base == "" {
				continue
			}
			if staleX && (base == sigPodBatchMissing || base == sigSetInUse) {
				res.counters["downstream_of_rejected_policy_batch:"+strings.TrimPrefix(base, "c15-")]++
				continue
			}
			res.addViol(base+suffix, fmt.Sprintf("%s: rejected command [%s] %s: %s", phase, rj.Kind, rj.Op, rj.Reason),
				map[string]interface{}{"phase": phase, "rejected": rejectLines([]fakes.Reject{rj}),
					"filter_before_the_call": filterLines(ctx)})
		}
		return staleX
	}
	ctxNow := func() *rejCtx {
		return &rejCtx{pre: observeGLX(e), cur: model.clone(), raw: e.ipt.Chains("filter"),
			dump: e.ipt.Dump("filter")}
	}

	// prior state: full sync(s) of the before cluster
	for i := 0; i < cs.PriorSyncs; i++ {
		ctx := ctxNow()
		if pi := e.fullSync(); pi != nil {
			res.addViol(panicSig(pi, ever), "full sync panicked: "+pi.Value, pi)
		}
		judgeRejects(e.takeRejects(), "initial-sync", "-in-initial-sync", ctx)
		res.counters["full_syncs"]++
	}
	// events: the caches run CacheAhead events ahead of the handlers (0: handler i sees exactly the state after event i)
	for i := 0; i < len(cs.Events); {
		j := i + 1 + cs.CacheAhead
		if j > len(cs.Events) {
			j = len(cs.Events)
		}
		var deliver []func() *panicInfo
		var handler []string
		for k := i; k < j; k++ {
			h, d := stageEvent(e, model, cs.Events[k])
			handler, deliver = append(handler, h), append(deliver, d)
		}
		for k := i; k < j; k++ {
			ev := cs.Events[k]
			ctx := ctxNow()
			e.arm("", 0)
			e.enter()
			pi := deliver[k-i]()
			callID := fmt.Sprintf("event:%d", k)
			res.callOps[callID] = [2]int{e.ipsetCalls, e.iptCalls}
			res.counters["events_"+ev.Kind]++
			if ev.Kind == "pod-add" && ev.WithIP {
				res.counters["events_pod-add_first_event_has_ip"]++
			}
			if j-i > 1 {
				res.counters["events_delivered_with_cache_ahead"]++
			}
			if pi != nil {
				res.addViol(panicSig(pi, ever), fmt.Sprintf("event %d (%s) panicked: %s", k, ev.Kind, pi.Value),
					map[string]interface{}{"event_index": k, "panic": pi})
				res.counters["event_panics"]++
			}
			suffix := "-in-" + handler[k-i] + "-handler"
			if cs.CacheAhead > 0 {
				suffix += "-cache-ahead"
			}
			evRej := e.takeRejects()
			res.callBases[callID] = basesOf(evRej, ctx)
			judgeRejects(evRej, "event-"+ev.Kind+" ("+handler[k-i]+")", suffix, ctx)
		}
		i = j
	}
	if cs.After != nil {
		model = cs.After.clone()
		w.load(model)
	}
	if len(cs.Stale) > 0 {
		if err := plantStale(e, cs.Stale); err != nil {
			res.addViol("polsim-harness-plant-stale-failed", err.Error(), nil)
			return res
		}
		for _, s := range cs.Stale {
			res.counters["planted_stale_"+s]++
		}
	}
	var perturbLog []string
	if cs.Perturb > 0 {
		perturbLog = perturb(e, cs.Perturb, cs.PerturbSeed)
		res.counters["perturbations_applied"] += int64(len(perturbLog))
	}
	if cs.Restart {
		e.restart()
		res.counters["restarts"]++
	}
	e.takeRejects()

	// the oracle: a fresh manager on empty fakes, same cluster
	fw := newWorld()
	fw.load(model)
	fe := newEnv(fw)
	if pi := fe.fullSync(); pi != nil {
		res.addViol(panicSig(pi, ever), "full sync of a fresh manager panicked: "+pi.Value, pi)
		return res
	}
	for _, rj := range fe.takeRejects() {
		if base := rejectBase(rj, nil); base != "" {
			res.addViol(base+"-on-empty-tables", "fresh manager on empty tables: rejected command "+rj.Reason,
				map[string]interface{}{"rejected": rejectLines([]fakes.Reject{rj})})
		}
	}
	want := observeGLX(fe)

	pre := observeGLX(e)
	preItems := diffGLX(pre, want, model)
	if len(preItems) > 0 {
		res.nontrivial = true
		for _, c := range catsOf(preItems) {
			res.counters["prior_state_"+c]++
		}
	}
	preDump := e.ipt.Dump("filter")
	preSets := e.sets.Dump()

	// (1)+(4): the checked sync
	ctx := ctxNow()
	e.arm("", 0)
	if pi := e.fullSync(); pi != nil {
		res.addViol(panicSig(pi, ever), "full sync panicked: "+pi.Value, pi)
	}
	res.callOps["sync"] = [2]int{e.ipsetCalls, e.iptCalls}
	res.counters["full_syncs"]++
	rej1 := e.takeRejects()
	res.callBases["sync"] = basesOf(rej1, ctx)
	staleX1 := judgeRejects(rej1, "full-sync", hist, ctx)
	got1 := observeGLX(e)
	items1 := diffGLX(got1, want, model)
	dump1 := [4]string{e.ipt.Dump("filter"), e.ipt.Dump("nat"), e.ipt.Dump("mangle"), e.sets.Dump()}
	canon1 := canonFilter(e)
	obs := func(items []diffItem) map[string]interface{} {
		return map[string]interface{}{"differences_to_fresh_manager": firstN(items, 12), "rejected_in_checked_sync": rejectLines(rej1),
			"filter_before_checked_sync": strings.Split(preDump, "\n"), "ipsets_before_checked_sync": strings.Split(preSets, "\n"),
			"filter_after_checked_sync": strings.Split(dump1[0], "\n"), "perturbations": perturbLog}
	}
	if len(items1) == 0 {
		res.syncsNeeded = 1
		res.counters["converged_after_1_sync"]++
	} else if staleX1 {
		res.counters["nonconverged_after_rejected_policy_batch"]++
		res.addViol("c15-nonconverged-after-rejected-policy-batch"+hist, fmt.Sprintf("after one full sync the GLX state differs from a fresh manager's in %v "+
			"(the policy batch of this sync was rejected because of -X of a referenced stale policy chain)", catsOf(items1)), obs(items1))
	} else {
		for _, c := range catsOf(items1) {
			var sel []diffItem
			for _, it := range items1 {
				if it.Cat == c {
					sel = append(sel, it)
				}
			}
			res.addViol("c15-nonconverged-"+c+hist, fmt.Sprintf("after one full sync: %s: %s", c, sel[0].Detail), obs(sel))
		}
	}

	// (2): a second sync changes nothing and no command fails
	ctx2 := ctxNow()
	if pi := e.fullSync(); pi != nil {
		res.addViol(panicSig(pi, ever), "second full sync panicked: "+pi.Value, pi)
	}
	res.counters["full_syncs"]++
	rej2 := e.takeRejects()
	staleXLast := judgeRejects(rej2, "second-sync", hist, ctx2)
	got2 := observeGLX(e)
	dump2 := [4]string{e.ipt.Dump("filter"), e.ipt.Dump("nat"), e.ipt.Dump("mangle"), e.sets.Dump()}
	if dump1 != dump2 {
		delta := diffGLX(got2, got1, model)
		canon2 := canonFilter(e)
		if canon1 == canon2 && dump1[1] == dump2[1] && dump1[2] == dump2[2] && dump1[3] == dump2[3] {
			// only the order of the jumps between conntrack-ACCEPT and DROP inside pod chains moved (the policy list
			// comes out of a map): same rules, same meaning
			res.counters["second_sync_only_reordered_pod_chain_jumps"]++
		} else if staleX1 {
			// the first sync's policy batch was rejected: the second sync finishes (part of) its work
			res.counters["downstream_of_rejected_policy_batch:second-sync-changes-state"]++
		} else {
			cats := catsOf(delta)
			if len(cats) == 0 {
				cats = []string{"non-GLX-or-hook-order"}
			}
			for _, c := range cats {
				res.addViol("c15-second-sync-"+secondSyncVerb(c)+hist, fmt.Sprintf("second sync changed state: %v", firstN(delta, 3)),
					map[string]interface{}{"changed_by_second_sync": firstN(delta, 12), "filter_after_first": strings.Split(dump1[0], "\n"),
						"filter_after_second": strings.Split(dump2[0], "\n"), "ipsets_after_first": strings.Split(dump1[3], "\n"),
						"ipsets_after_second": strings.Split(dump2[3], "\n")})
			}
		}
	} else {
		res.counters["second_sync_byte_identical"]++
	}

	// how many syncs does it take?
	if len(items1) > 0 {
		items := diffGLX(got2, want, model)
		n := 2
		for len(items) > 0 && n < maxSyncs {
			c := ctxNow()
			e.fullSync()
			staleXLast = false
			for _, rj := range e.takeRejects() {
				if strings.HasPrefix(rejectBase(rj, c), sigStaleX) {
					staleXLast = true
				}
			}
			res.counters["full_syncs"]++
			n++
			items = diffGLX(observeGLX(e), want, model)
		}
		if len(items) == 0 {
			res.syncsNeeded = n
			res.counters[fmt.Sprintf("converged_after_%d_syncs", n)]++
		} else {
			res.counters[fmt.Sprintf("not_converged_after_%d_syncs", maxSyncs)]++
			for _, c := range catsOf(items) {
				res.counters[fmt.Sprintf("still_after_%d_syncs:%s", maxSyncs, c)]++
			}
			if staleXLast {
				res.addViol("c15-never-converges-policy-batch-rejected-in-every-sync"+hist,
					fmt.Sprintf("sync %d still has its policy batch rejected (-X of a referenced stale policy chain); remaining differences %v",
						maxSyncs, catsOf(items)),
					map[string]interface{}{"differences_to_fresh_manager": firstN(items, 12),
						"filter_before_first_checked_sync": strings.Split(preDump, "\n"),
						"filter_now":                       strings.Split(e.ipt.Dump("filter"), "\n")})
			}
		}
	}

	// (3): foreign state untouched
	foreign1 := foreignState(e)
	var keys []string
	for k := range foreign0 {
		keys = append(keys, k)
	}
	for k := range foreign1 {
		if _, ok := foreign0[k]; !ok {
			keys = append(keys, k)
		}
	}
	sort.Strings(keys)
	for _, k := range keys {
		res.counters["foreign_objects_compared"]++
		if foreign0[k] != foreign1[k] {
			kind := strings.SplitN(k, ":", 2)[0]
			res.addViol("c15-foreign-"+kind+"-modified", fmt.Sprintf("foreign %s changed", k),
				map[string]interface{}{"object": k, "before": foreign0[k], "after": foreign1[k]})
		}
	}
	if u := e.execReport(res.counters); u != "" {
		res.inconclusive = "exec interpreter met an unknown command: " + u
	}
	if cs.HostOverride {
		res.counters["cases_with_upper_case_hostname_override"]++
	}
	return res
}

// evalC15Fault replays the case with one tool failure: the K-th ipset / iptables operation of the targeted call (the
// judged full sync, or one event handler) fails once. Judged: (a) commands the kernel rejects in that call which the
// fault-free run of the same call does not have (a batch referencing a missing chain/set, a -X / destroy of something
// still in use); (b) no panic; (c) once the fault is gone full syncs converge to the fresh manager's state if they do
// so without the fault.
func evalC15Fault(cs *C15Case, f *faultSpec, base *c15Result) *c15Result {
	res := &c15Result{counters: map[string]int64{}, viols: map[string]*violation{}}
	under := "-under-" + f.Kind + "-op-fault"
	w := newWorld()
	e := newEnvFull(w, cs.Exec, cs.HostOverride)
	if cs.Foreign {
		if plantForeign(e) != nil {
			return res
		}
	}
	model := cs.Before.clone()
	if model == nil {
		model = &Cluster{}
	}
	w.load(model)
	ever := append([]Policy(nil), model.Policies...)
	for _, ev := range cs.Events {
		if ev.Policy != nil {
			ever = append(ever, *ev.Policy)
		}
	}
	if cs.After != nil {
		ever = append(ever, cs.After.Policies...)
	}
	ctxNow := func() *rejCtx {
		return &rejCtx{pre: observeGLX(e), cur: model.clone(), raw: e.ipt.Chains("filter"), dump: e.ipt.Dump("filter")}
	}
	// judge the faulted call
	hit := false
	failedOp := ""
	judge := func(callID, phaseSuffix, what string, ctx *rejCtx, pi *panicInfo) {
		if e.failedOp == "" {
			res.counters["fault_not_reached"]++
			e.takeRejects()
			return
		}
		hit = true
		failedOp = e.failedOp
		res.counters["faults_injected_"+f.Kind]++
		res.counters["fault_in_"+strings.SplitN(callID, ":", 2)[0]]++
		res.counters["failed_op:"+e.failedOp]++
		obs := map[string]interface{}{"failed_operation": e.failedOp, "call": what, "filter_before_the_call": filterLines(ctx)}
		if pi != nil {
			obs["panic"] = pi
			res.addViol(panicSig(pi, ever)+phaseSuffix+under, fmt.Sprintf("%s panicked after %s failed: %s", what, e.failedOp, pi.Value), obs)
		}
		rjs := e.takeRejects()
		for _, rj := range rjs {
			b := rejectBase(rj, ctx)
			if b == "" {
				continue
			}
			res.counters["rejects_in_faulted_call_"+rj.Kind]++
			if base.callBases[callID][b] {
				continue // the same call has this rejection without the fault
			}
			if strings.HasPrefix(b, sigStaleX) {
				// which of several stale policy chains the rejected batch names first depends on galaxy's map iteration
				// order, and with it the variant of the signature: the family counts as one
				same := false
				for bb := range base.callBases[callID] {
					if strings.HasPrefix(bb, sigStaleX) {
						same = true
					}
				}
				if same {
					continue
				}
			}
			if rj.Op != "restore" && (rj.Kind == "chain-in-use" || rj.Kind == "set-in-use") {
				// a single best-effort "-X chain" / "ipset destroy" that the kernel refuses because an earlier step of the same
				// clean-up failed loses nothing and references nothing that does not exist; a refused restore batch is
				// different: all its rules are lost
				res.counters["fault_refused_single_cleanup_command:"+strings.TrimPrefix(b, "c15-")]++
				continue
			}
			o := map[string]interface{}{}
			for k, v := range obs {
				o[k] = v
			}
			o["rejected"] = rejectLines([]fakes.Reject{rj})
			res.addViol(b+phaseSuffix+under, fmt.Sprintf("%s: after %s failed once (tool error, nothing reached the kernel) galaxy went on "+
				"and submitted a command the kernel rejects [%s] %s: %s", what, e.failedOp, rj.Kind, rj.Op, rj.Reason), o)
		}
	}
	for i := 0; i < cs.PriorSyncs; i++ {
		e.fullSync()
	}
	for i := 0; i < len(cs.Events); {
		j := i + 1 + cs.CacheAhead
		if j > len(cs.Events) {
			j = len(cs.Events)
		}
		var deliver []func() *panicInfo
		var handler []string
		for k := i; k < j; k++ {
			h, d := stageEvent(e, model, cs.Events[k])
			handler, deliver = append(handler, h), append(deliver, d)
		}
		for k := i; k < j; k++ {
			if f.Target == "event" && f.Event == k {
				ctx := ctxNow()
				e.takeRejects()
				e.arm(f.Kind, f.K)
				e.enter()
				pi := deliver[k-i]()
				judge(fmt.Sprintf("event:%d", k), "-in-event-handler", fmt.Sprintf("event %d (%s, %s handler)", k, cs.Events[k].Kind, handler[k-i]), ctx, pi)
				e.arm("", 0)
			} else {
				e.enter()
				deliver[k-i]()
			}
		}
		i = j
	}
	if cs.After != nil {
		model = cs.After.clone()
		w.load(model)
	}
	if len(cs.Stale) > 0 {
		if plantStale(e, cs.Stale) != nil {
			return res
		}
	}
	if cs.Perturb > 0 {
		perturb(e, cs.Perturb, cs.PerturbSeed)
	}
	if cs.Restart {
		e.restart()
	}
	fw := newWorld()
	fw.load(model)
	fe := newEnv(fw)
	if fe.fullSync() != nil {
		return res
	}
	want := observeGLX(fe)
	e.takeRejects()
	// the judged sync
	ctx := ctxNow()
	if f.Target == "sync" {
		e.arm(f.Kind, f.K)
	}
	pi := e.fullSync()
	if f.Target == "sync" {
		judge("sync", "", "full sync", ctx, pi)
		e.arm("", 0)
	}
	e.takeRejects()
	if !hit {
		return res
	}
	// (c) convergence once the fault is gone
	n := 1
	items := diffGLX(observeGLX(e), want, model)
	for len(items) > 0 && n < 1+maxSyncs {
		e.fullSync()
		e.takeRejects()
		n++
		items = diffGLX(observeGLX(e), want, model)
	}
	switch {
	case base.syncsNeeded == 0:
		res.counters["fault_case_does_not_converge_without_fault_either"]++
	case len(items) == 0:
		res.counters[fmt.Sprintf("fault_extra_syncs_to_converge:%+d", n-base.syncsNeeded)]++
	default:
		res.addViol("c15-never-converges-after-single-failure"+under, fmt.Sprintf("without the fault the case converges after %d full "+
			"sync(s); with %s failing once in %s it still differs from a fresh manager after %d further fault-free full syncs: %v",
			base.syncsNeeded, failedOp, f.Target, maxSyncs, firstN(items, 3)),
			map[string]interface{}{"failed_operation": failedOp, "differences_to_fresh_manager": firstN(items, 12), "filter_now": strings.Split(e.ipt.Dump("filter"), "\n")})
	}
	return res
}

// c15Reductions enumerates one-step reductions of a case.
func c15Reductions(cs *C15Case) []*C15Case {
	var out []*C15Case
	with := func(f func(n *C15Case)) {
		n := cs.clone()
		f(n)
		out = append(out, n)
	}
	if len(cs.Events) > 2 {
		for i := 1; i < len(cs.Events); i++ {
			i := i
			with(func(n *C15Case) { n.Events = n.Events[i:] }) // drop a prefix
		}
		for i := 0; i+1 < len(cs.Events); i++ {
			i := i
			with(func(n *C15Case) { n.Events = append(n.Events[:i], n.Events[i+2:]...) }) // drop a pair
		}
	}
	for i := range cs.Events {
		i := i
		with(func(n *C15Case) { n.Events = append(n.Events[:i], n.Events[i+1:]...) })
	}
	if cs.Restart {
		with(func(n *C15Case) { n.Restart = false })
	}
	if cs.CacheAhead > 0 {
		with(func(n *C15Case) { n.CacheAhead-- })
	}
	if cs.Exec != "" {
		with(func(n *C15Case) { n.Exec = "" })
	}
	if cs.HostOverride {
		with(func(n *C15Case) { n.HostOverride = false })
	}
	if cs.Foreign {
		with(func(n *C15Case) { n.Foreign = false })
	}
	if cs.PriorSyncs > 1 {
		with(func(n *C15Case) { n.PriorSyncs = 1 })
	}
	if cs.Perturb > 0 {
		with(func(n *C15Case) { n.Perturb-- })
	}
	for i := range cs.Stale {
		i := i
		with(func(n *C15Case) { n.Stale = append(n.Stale[:i], n.Stale[i+1:]...) })
	}
	if cs.Before != nil {
		for _, r := range reductions(cs.Before) {
			r := r
			with(func(n *C15Case) { n.Before = r })
		}
	}
	if cs.After != nil {
		for _, r := range reductions(cs.After) {
			r := r
			with(func(n *C15Case) { n.After = r })
		}
	}
	return out
}

func shrinkC15(cs *C15Case, sig string, budget int) (*C15Case, int) {
	cur := cs
	evals := 0
	for progress := true; progress && evals < budget; {
		progress = false
		for _, cand := range c15Reductions(cur) {
			if evals >= budget {
				break
			}
			evals++
			if _, ok := evalC15(cand).viols[sig]; ok {
				cur = cand
				progress = true
				break
			}
		}
	}
	return cur, evals
}

func c15Witness(cs *C15Case, sig string) (interface{}, string, bool) {
	r := evalC15(cs)
	v, ok := r.viols[sig]
	if !ok {
		return nil, "", false
	}
	return map[string]interface{}{"case": cs, "host": hostName, "observation": v.Flow,
		"replay": "polsim -prop C15 -replay <this file>"}, v.Msg, true
}
