package main

import (
	"fmt"
	"sort"
	"strconv"
	"strings"

	"tkestack.io/galaxy/pkg/utils/ipset"
	"verif/harness/fakes"
)

// Packet walker over the strict fakes' structured state (filter table). It decides what the installed rules do to
// the first packet of a NEW connection. It knows nothing about NetworkPolicy.

type netEntry struct {
	base    uint32
	bits    int
	nomatch bool
}

type parsedSet struct {
	typ  ipset.Type
	ips  map[uint32]bool
	nets []netEntry // most specific first
}

type ruleset struct {
	chains map[string][]fakes.Rule
	sets   map[string]*parsedSet
	policy map[string]string // built-in chain policies
}

func snapshot(ipt *fakes.IPTables, sets *fakes.IPSet) *ruleset {
	rs := &ruleset{chains: ipt.Chains("filter"), sets: map[string]*parsedSet{}, policy: map[string]string{}}
	for _, b := range []string{"INPUT", "FORWARD", "OUTPUT"} {
		rs.policy[b] = ipt.Policy("filter", b)
	}
	for name, info := range sets.Sets() {
		ps := &parsedSet{typ: info.Type, ips: map[uint32]bool{}}
		for elem, opt := range info.Members {
			switch info.Type {
			case ipset.HashIP:
				if v, ok := ip4(elem); ok {
					ps.ips[v] = true
				}
			case ipset.HashNet:
				if b, bits, ok := cidr4(elem); ok {
					ps.nets = append(ps.nets, netEntry{base: b, bits: bits, nomatch: opt == "nomatch"})
				}
			}
		}
		// the kernel looks up from the most specific prefix to the least specific one; the first element found
		// decides, and a nomatch element decides "no match"
		sort.Slice(ps.nets, func(i, j int) bool { return ps.nets[i].bits > ps.nets[j].bits })
		rs.sets[name] = ps
	}
	return rs
}

func (s *parsedSet) has(ip uint32) (bool, error) {
	switch s.typ {
	case ipset.HashIP:
		return s.ips[ip], nil
	case ipset.HashNet:
		for _, n := range s.nets {
			if inCIDR(ip, n.base, n.bits) {
				return !n.nomatch, nil
			}
		}
		return false, nil
	}
	return false, fmt.Errorf("set type %s not modelled", s.typ)
}

// Packet is the first packet of a new connection.
type Packet struct {
	Src, Dst uint32
	Proto    string // tcp | udp
	DPort    int
}

// hit names an ACCEPT rule that matched.
type hit struct {
	Chain string
	Index int
	Rule  fakes.Rule
}

type walkResult struct {
	Verdict     string // ACCEPT | DROP | FALLTHROUGH
	Path        []string
	Accepts     []hit  // exhaustive mode: every ACCEPT rule that matches up to the first DROP
	Unsupported string // non-empty: the walker met something it does not model
}

type walkCtx struct {
	rs         *ruleset
	pkt        Packet
	skip       map[string]bool // jumps to these chains are ignored (direction-specific walks)
	exhaustive bool
	res        *walkResult
	depth      int
}

// matchRule evaluates the matches of a rule and returns its target.
func (w *walkCtx) matchRule(r fakes.Rule) (matched bool, target string) {
	t := r.Tokens
	matched = true
	for i := 0; i < len(t); i++ {
		neg := false
		if t[i] == "!" {
			neg = true
			i++
			if i >= len(t) {
				w.res.Unsupported = "dangling !"
				return false, ""
			}
		}
		need := func(n int) bool {
			if i+n >= len(t) {
				w.res.Unsupported = "truncated option " + t[i]
				return false
			}
			return true
		}
		var ok bool
		switch t[i] {
		case "-s", "-d":
			if !need(1) {
				return false, ""
			}
			base, bits, good := cidr4(t[i+1])
			if !good {
				w.res.Unsupported = "address " + t[i+1]
				return false, ""
			}
			addr := w.pkt.Src
			if t[i] == "-d" {
				addr = w.pkt.Dst
			}
			ok = inCIDR(addr, base, bits)
			i++
		case "-p":
			if !need(1) {
				return false, ""
			}
			ok = t[i+1] == "all" || strings.EqualFold(t[i+1], w.pkt.Proto)
			i++
		case "-m":
			if !need(1) {
				return false, ""
			}
			switch t[i+1] {
			case "comment", "set", "multiport", "conntrack", "tcp", "udp", "state":
			default:
				w.res.Unsupported = "match module " + t[i+1]
				return false, ""
			}
			i++
			continue
		case "--comment":
			if !need(1) {
				return false, ""
			}
			i++
			continue
		case "--match-set":
			if !need(2) {
				return false, ""
			}
			set, okSet := w.rs.sets[t[i+1]]
			if !okSet {
				w.res.Unsupported = "rule references missing set " + t[i+1]
				return false, ""
			}
			var addr uint32
			switch t[i+2] {
			case "src":
				addr = w.pkt.Src
			case "dst":
				addr = w.pkt.Dst
			default:
				w.res.Unsupported = "set flags " + t[i+2]
				return false, ""
			}
			has, err := set.has(addr)
			if err != nil {
				w.res.Unsupported = err.Error()
				return false, ""
			}
			ok = has
			i += 2
		case "--dports", "--dport":
			if !need(1) {
				return false, ""
			}
			ok = false
			for _, part := range strings.Split(t[i+1], ",") {
				lo, hi := part, part
				if j := strings.Index(part, ":"); j >= 0 {
					lo, hi = part[:j], part[j+1:]
				}
				l, e1 := strconv.Atoi(lo)
				h, e2 := strconv.Atoi(hi)
				if e1 != nil || e2 != nil {
					w.res.Unsupported = "port " + part
					return false, ""
				}
				if w.pkt.DPort >= l && w.pkt.DPort <= h {
					ok = true
				}
			}
			i++
		case "--ctstate", "--state":
			if !need(1) {
				return false, ""
			}
			ok = false
			for _, st := range strings.Split(t[i+1], ",") {
				if st == "NEW" { // the packet opens a new connection
					ok = true
				}
			}
			i++
		case "-j", "-g":
			if !need(1) {
				return false, ""
			}
			target = t[i+1]
			i++
			continue
		default:
			w.res.Unsupported = "token " + t[i]
			return false, ""
		}
		if neg {
			ok = !ok
		}
		if !ok {
			matched = false
		}
	}
	return matched, target
}

// walkChain returns "ACCEPT", "DROP" or "" (chain ended / RETURN).
func (w *walkCtx) walkChain(name string) string {
	w.depth++
	defer func() { w.depth-- }()
	if w.depth > 16 {
		w.res.Unsupported = "chain nesting too deep (loop?)"
		return ""
	}
	rules, ok := w.rs.chains[name]
	if !ok {
		w.res.Unsupported = "jump to missing chain " + name
		return ""
	}
	for idx, r := range rules {
		m, target := w.matchRule(r)
		if w.res.Unsupported != "" {
			return ""
		}
		if !m || target == "" {
			continue
		}
		switch target {
		case "ACCEPT":
			w.res.Path = append(w.res.Path, fmt.Sprintf("%s[%d] ACCEPT: %s", name, idx, r.String()))
			w.res.Accepts = append(w.res.Accepts, hit{Chain: name, Index: idx, Rule: r})
			if !w.exhaustive {
				return "ACCEPT"
			}
		case "DROP", "REJECT":
			w.res.Path = append(w.res.Path, fmt.Sprintf("%s[%d] %s", name, idx, target))
			return "DROP"
		case "RETURN":
			return ""
		default:
			if _, isChain := w.rs.chains[target]; !isChain {
				w.res.Unsupported = "target " + target
				return ""
			}
			if w.skip[target] {
				continue
			}
			w.res.Path = append(w.res.Path, fmt.Sprintf("%s[%d] -> %s", name, idx, target))
			if v := w.walkChain(target); v != "" {
				return v
			}
			if w.res.Unsupported != "" {
				return ""
			}
		}
	}
	return ""
}

// walk runs the packet through a built-in chain of the filter table.
func walk(rs *ruleset, builtin string, skip map[string]bool, pkt Packet, exhaustive bool) *walkResult {
	res := &walkResult{}
	w := &walkCtx{rs: rs, pkt: pkt, skip: skip, exhaustive: exhaustive, res: res}
	v := w.walkChain(builtin)
	switch {
	case res.Unsupported != "":
		res.Verdict = "UNSUPPORTED"
	case v == "DROP":
		res.Verdict = "DROP"
	case v == "ACCEPT" || (exhaustive && len(res.Accepts) > 0):
		res.Verdict = "ACCEPT"
	default:
		if rs.policy[builtin] == "DROP" {
			res.Verdict = "DROP"
		} else {
			res.Verdict = "FALLTHROUGH"
		}
	}
	return res
}
