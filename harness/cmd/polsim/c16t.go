package main

import (
	"encoding/json"
	"fmt"
	"math/rand"
	"sort"
	"strings"

	"tkestack.io/galaxy/pkg/utils/ipset"
	"verif/harness/fakes"
)

// C16, second mode: the rules of a manager with a history. Cluster state A is synced, the cluster changes to B
// (either every change is delivered to the event handlers, or the caches change and a full resync follows), and the
// installed rules are judged against the API semantics of B.

// C16Trans is the complete, replayable input of one transition case.
type C16Trans struct {
	A         *Cluster `json:"a"`
	B         *Cluster `json:"b"`
	Via       string   `json:"via"` // events | resync
	EventSeed int64    `json:"event_seed"`
	Ops       []string `json:"mutations,omitempty"` // how B was derived from A (informational)
	Exec      string   `json:"exec_mode,omitempty"` // "" | ipset | iptables: exec-backed runner for that tool
	// HostOverride: the manager under test runs with --hostname-override=Node-A (pods carry node-a)
	HostOverride bool `json:"hostname_override_upper_case,omitempty"`
}

func (t *C16Trans) clone() *C16Trans {
	data, _ := json.Marshal(t)
	var out C16Trans
	_ = json.Unmarshal(data, &out)
	return &out
}

func (t *C16Trans) size() int {
	data, _ := json.Marshal(t)
	return len(data)
}

var c16Mutations = []string{"narrow-peer", "widen-peer", "relabel-pod", "unlabel-pod", "remove-pod", "replace-pod-reusing-ip",
	"change-pod-ip", "add-pod", "add-policy", "remove-policy", "regenerate-policy", "narrow-policy-podselector",
	"widen-policy-podselector", "relabel-namespace"}

// matchesNothing is a selector no generated pod matches.
func matchesNothing() Sel { return Sel{MatchLabels: map[string]string{"app": "z"}} }

// mutateForC16 applies 1-3 mutations, the first one chosen by quota.
func mutateForC16(rng *rand.Rand, a *Cluster, o genOpts, first int, single bool) (*Cluster, []string) {
	b := a.clone()
	al := &ipAlloc{nextOn: 80, nextOff: 80}
	var ops []string
	n := 1 + rng.Intn(3)
	if single {
		n = 1
	}
	for i := 0; i < n; i++ {
		op := c16Mutations[rng.Intn(len(c16Mutations))]
		if i == 0 {
			op = c16Mutations[first%len(c16Mutations)]
		}
		done := false
		switch op {
		case "narrow-peer", "widen-peer":
			type ref struct {
				p, r, k int
				dir     string
			}
			var refs []ref
			for pi := range b.Policies {
				for _, dir := range []string{dirIngress, dirEgress} {
					rules := b.Policies[pi].rules(dir)
					for ri := range rules {
						for ki := range rules[ri].Peers {
							if rules[ri].Peers[ki].Pod != nil || rules[ri].Peers[ki].NS != nil {
								refs = append(refs, ref{pi, ri, ki, dir})
							}
						}
					}
				}
			}
			if len(refs) > 0 {
				x := refs[rng.Intn(len(refs))]
				peer := &b.Policies[x.p].rules(x.dir)[x.r].Peers[x.k]
				if op == "narrow-peer" {
					s := matchesNothing()
					if peer.Pod != nil {
						peer.Pod = &s
					} else {
						s = Sel{MatchLabels: map[string]string{"team": "none"}}
						peer.NS = &s
					}
				} else {
					if peer.Pod != nil {
						peer.Pod = &Sel{}
					} else {
						peer.NS = &Sel{}
					}
				}
				done = true
			}
		case "relabel-pod", "unlabel-pod", "change-pod-ip", "remove-pod", "replace-pod-reusing-ip":
			if len(b.Pods) == 0 {
				break
			}
			pi := rng.Intn(len(b.Pods))
			p := &b.Pods[pi]
			switch op {
			case "relabel-pod":
				p.Labels = genLabels(rng, podLabelSpace, 0.9)
			case "unlabel-pod":
				p.Labels = map[string]string{"app": "z"}
			case "change-pod-ip":
				p.IP = al.next(rng, p.onNode())
			case "remove-pod":
				b.Pods = append(b.Pods[:pi], b.Pods[pi+1:]...)
			case "replace-pod-reusing-ip":
				old := *p
				b.Pods = append(b.Pods[:pi], b.Pods[pi+1:]...)
				if old.IP != "" {
					np := Pod{Name: fmt.Sprintf("r%d", i), NS: b.Namespaces[rng.Intn(len(b.Namespaces))].Name,
						Labels: genLabels(rng, podLabelSpace, 0.9), IP: old.IP, Node: old.Node}
					b.Pods = append(b.Pods, np)
				}
			}
			done = true
		case "add-pod":
			b.Pods = append(b.Pods, genPod(rng, b, al, fmt.Sprintf("n%d", i)))
			done = true
		case "add-policy":
			b.Policies = append(b.Policies, genPolicy(rng, b, fmt.Sprintf("nn%d", i)))
			done = true
		case "remove-policy", "regenerate-policy", "narrow-policy-podselector", "widen-policy-podselector":
			if len(b.Policies) == 0 {
				break
			}
			pi := rng.Intn(len(b.Policies))
			switch op {
			case "remove-policy":
				b.Policies = append(b.Policies[:pi], b.Policies[pi+1:]...)
			case "regenerate-policy":
				np := genPolicy(rng, b, b.Policies[pi].Name)
				np.NS = b.Policies[pi].NS
				b.Policies[pi] = np
			case "narrow-policy-podselector":
				b.Policies[pi].PodSel = matchesNothing()
			case "widen-policy-podselector":
				b.Policies[pi].PodSel = Sel{}
			}
			done = true
		case "relabel-namespace":
			ni := rng.Intn(len(b.Namespaces))
			b.Namespaces[ni].Labels = genLabels(rng, nsLabelSpace, 0.8)
			done = true
		}
		if done {
			ops = append(ops, op)
		}
	}
	return b, ops
}

func sameJSON(a, b interface{}) bool {
	x, _ := json.Marshal(a)
	y, _ := json.Marshal(b)
	return string(x) == string(y)
}

// diffToEvents turns A -> B into the informer events: pod events in the order delete, update, add (a reused address
// is free before it is taken again), policy events interleaved at random.
func diffToEvents(a, b *Cluster, seed int64) []Event {
	rng := rand.New(rand.NewSource(seed))
	var podEv, polEv []Event
	for i := range b.Namespaces {
		if old := a.ns(b.Namespaces[i].Name); old != nil && !sameJSON(old.Labels, b.Namespaces[i].Labels) {
			n := b.Namespaces[i]
			podEv = append(podEv, Event{Kind: "ns-relabel", NS: &n})
		}
	}
	for i := range a.Pods {
		if b.pod(a.Pods[i].NS, a.Pods[i].Name) == nil {
			p := a.Pods[i]
			podEv = append(podEv, Event{Kind: "pod-delete", Pod: &p})
		}
	}
	for i := range b.Pods {
		if old := a.pod(b.Pods[i].NS, b.Pods[i].Name); old != nil && !sameJSON(old, &b.Pods[i]) {
			p := b.Pods[i]
			podEv = append(podEv, Event{Kind: "pod-update", Pod: &p})
		}
	}
	for i := range b.Pods {
		if a.pod(b.Pods[i].NS, b.Pods[i].Name) == nil {
			p := b.Pods[i]
			podEv = append(podEv, Event{Kind: "pod-add", Pod: &p, WithIP: rng.Intn(2) == 0})
		}
	}
	for i := range a.Policies {
		if b.policy(a.Policies[i].NS, a.Policies[i].Name) == nil {
			p := a.Policies[i]
			polEv = append(polEv, Event{Kind: "policy-delete", Policy: &p})
		}
	}
	for i := range b.Policies {
		old := a.policy(b.Policies[i].NS, b.Policies[i].Name)
		p := b.Policies[i]
		if old == nil {
			polEv = append(polEv, Event{Kind: "policy-add", Policy: &p})
		} else if !sameJSON(old, &p) {
			polEv = append(polEv, Event{Kind: "policy-update", Policy: &p})
		}
	}
	rng.Shuffle(len(polEv), func(i, j int) { polEv[i], polEv[j] = polEv[j], polEv[i] })
	var out []Event
	for len(podEv) > 0 || len(polEv) > 0 {
		if len(polEv) == 0 || (len(podEv) > 0 && rng.Intn(2) == 0) {
			out, podEv = append(out, podEv[0]), podEv[1:]
		} else {
			out, polEv = append(out, polEv[0]), polEv[1:]
		}
	}
	return out
}

func genC16Trans(rng *rand.Rand, idx int, o genOpts) *C16Trans {
	k := idx / 2 // idx parity selects the mode in the caller
	t := &C16Trans{A: genFocusCluster(rng, o, rng.Intn(len(focusNames)), rng.Float64() < 0.15), EventSeed: rng.Int63()}
	t.Via = "events"
	if k%2 == 1 {
		t.Via = "resync"
	}
	// every other pair of transition cases consists of exactly one mutation
	t.B, t.Ops = mutateForC16(rng, t.A, o, k/4, (k/2)%2 == 0)
	switch (k / (4 * len(c16Mutations))) % 4 { // independent of via, single/multi and the first mutation
	case 1:
		t.Exec = "ipset"
	case 3:
		t.Exec = "iptables"
	}
	t.HostOverride = (k/(16*len(c16Mutations)))%8 == 1
	return t
}

// ---- explanation of a mismatch that a fresh manager's rules do not have ----

func (rs *ruleset) copy() *ruleset {
	n := &ruleset{chains: map[string][]fakes.Rule{}, sets: map[string]*parsedSet{}, policy: rs.policy}
	for k, v := range rs.chains {
		n.chains[k] = v
	}
	for k, v := range rs.sets {
		n.sets[k] = v
	}
	return n
}

// pull completes a hybrid ruleset: chains and sets referenced but absent are taken from f.
func (rs *ruleset) pull(f *ruleset) {
	for changed := true; changed; {
		changed = false
		for _, rules := range rs.chains {
			for _, r := range rules {
				if t := r.Target(); t != "" {
					if _, ok := rs.chains[t]; !ok {
						if fc, ok := f.chains[t]; ok {
							rs.chains[t] = fc
							changed = true
						}
					}
				}
				for _, s := range r.MatchSets() {
					if _, ok := rs.sets[s]; !ok {
						if fs, ok := f.sets[s]; ok {
							rs.sets[s] = fs
							changed = true
						}
					}
				}
			}
		}
	}
}

func hooksFor(rs *ruleset, base, flag string, ip uint32) []fakes.Rule {
	var out []fakes.Rule
	for _, r := range rs.chains[base] {
		for i := 0; i+1 < len(r.Tokens); i++ {
			if r.Tokens[i] == flag && r.Tokens[i+1] == ipStr(ip)+"/32" {
				out = append(out, r)
			}
		}
	}
	return out
}

func setKind(name string) string {
	switch {
	case strings.HasPrefix(name, "GLX-ip-"):
		return "selected-pods-set"
	case strings.HasPrefix(name, "GLX-sip-"), strings.HasPrefix(name, "GLX-dip-"):
		return "peer-ip-set"
	case strings.HasPrefix(name, "GLX-snet-"), strings.HasPrefix(name, "GLX-dnet-"):
		return "peer-net-set"
	}
	return "set"
}

// explainStale finds which part of the installed state, replaced by what a fresh manager installs, makes the verdict
// right: hooks, pod chains, policy chains or a set.
func batchConsequence(sig string) bool {
	for _, k := range []string{"missing-pod-hook", "missing-jump-from-built-in-chain", "stale-pod-hook-of-same-pod", "stale-pod-chain-body", "stale-policy-chain-body",
		"stale-chains-"} {
		if strings.Contains(sig, k) {
			return true
		}
	}
	return false
}

func explainStale(t, f *ruleset, skip map[string]bool, pkt Packet, want bool, dir, localOwner string) ([]string, string) {
	effect := "drops"
	if !want {
		effect = "admits"
	}
	base, flag, local := "GLX-INGRESS", "-d", pkt.Dst
	if dir == dirEgress {
		base, flag, local = "GLX-EGRESS", "-s", pkt.Src
	}
	// components of the installed state that can be replaced by what a fresh manager installs
	apply := func(h *ruleset, comp string) {
		switch comp {
		case "base-jumps":
			for _, b := range []string{"FORWARD", "INPUT", "OUTPUT"} {
				h.chains[b] = f.chains[b]
			}
		case "hooks":
			h.chains["GLX-INGRESS"], h.chains["GLX-EGRESS"] = f.chains["GLX-INGRESS"], f.chains["GLX-EGRESS"]
		case "pod-chains", "policy-chains":
			prefix := "GLX-POD-"
			if comp == "policy-chains" {
				prefix = "GLX-PLCY-"
			}
			for n, c := range f.chains {
				if strings.HasPrefix(n, prefix) {
					h.chains[n] = c
				}
			}
		default: // "set:<name>"
			n := strings.TrimPrefix(comp, "set:")
			h.sets[n] = f.sets[n]
		}
	}
	repairs := func(comps []string) bool {
		h := t.copy()
		for _, c := range comps {
			apply(h, c)
		}
		h.pull(f)
		r := walk(h, "FORWARD", skip, pkt, false)
		return r.Verdict != "UNSUPPORTED" && (r.Verdict != "DROP") == want
	}
	// signature of one component
	name := func(comp string) (string, string) {
		switch comp {
		case "base-jumps":
			return "c16-missing-jump-from-built-in-chain", "FORWARD/INPUT/OUTPUT do not jump to GLX-INGRESS/GLX-EGRESS as a fresh manager makes them"
		case "hooks":
			th, fh := hooksFor(t, base, flag, local), hooksFor(f, base, flag, local)
			inF, inT := map[string]bool{}, map[string]bool{}
			for _, r := range fh {
				inF[r.String()] = true
			}
			var stale []fakes.Rule
			for _, r := range th {
				inT[r.String()] = true
				if !inF[r.String()] {
					stale = append(stale, r)
				}
			}
			missing := 0
			for _, r := range fh {
				if !inT[r.String()] {
					missing++
				}
			}
			switch {
			case len(stale) > 0:
				owner := "same-pod"
				if commentOf(stale[0]) != localOwner {
					owner = "former-ip-owner"
				}
				return "c16-stale-pod-hook-of-" + owner,
					fmt.Sprintf("%s still holds %q for %s, which a fresh manager does not install", base, stale[0].String(), ipStr(local))
			case missing > 0:
				return "c16-missing-pod-hook", base + " lacks the hook of " + ipStr(local)
			}
			return "c16-pod-hook-order", "same hooks, other order"
		case "pod-chains":
			return "c16-stale-pod-chain-body", "the pod chain's rules are not those a fresh manager writes"
		case "policy-chains":
			if want {
				return "c16-stale-policy-chain-body", "a policy chain lacks rules a fresh manager writes"
			}
			return "c16-stale-policy-chain-body", "a policy chain holds rules a fresh manager does not write"
		}
		n := strings.TrimPrefix(comp, "set:")
		ts, fs := t.sets[n], f.sets[n]
		what, detail := "stale", ""
		if ts == nil {
			what = "missing"
		} else {
			for _, addr := range []uint32{pkt.Src, pkt.Dst} {
				th, _ := ts.has(addr)
				fh, _ := fs.has(addr)
				if th == fh {
					continue
				}
				detail = ipStr(addr)
				if ts.typ != ipset.HashNet {
					if fh {
						what = "missing"
					}
					continue
				}
				// element level: which element covering the address does one side have and the other not?
				flipped, missing, stale := false, false, false
				for _, fe := range fs.nets {
					if !inCIDR(addr, fe.base, fe.bits) {
						continue
					}
					found := false
					for _, te := range ts.nets {
						if te.base == fe.base && te.bits == fe.bits {
							found = true
							if te.nomatch != fe.nomatch {
								flipped = true
							}
						}
					}
					if !found {
						missing = true
					}
				}
				for _, te := range ts.nets {
					if !inCIDR(addr, te.base, te.bits) {
						continue
					}
					found := false
					for _, fe := range fs.nets {
						if te.base == fe.base && te.bits == fe.bits {
							found = true
						}
					}
					if !found {
						stale = true
					}
				}
				switch {
				case flipped:
					what = "nomatch-flipped"
				case missing && !stale:
					what = "missing"
				case stale:
					what = "stale"
				}
			}
		}
		sig := fmt.Sprintf("c16-%s-member-of-%s", what, setKind(n))
		return sig, fmt.Sprintf("set %s: %s member %s compared with a fresh manager's set", n, what, detail)
	}
	var setNames []string
	for n := range f.sets {
		setNames = append(setNames, "set:"+n)
	}
	sort.Strings(setNames)
	// one component alone
	// the jumps from the built-in chains come last: removing them (when a fresh manager has none) "repairs" every
	// drop caused by something stale below them
	for _, comp := range append(append([]string{"hooks", "pod-chains", "policy-chains"}, setNames...), "base-jumps") {
		if repairs([]string{comp}) {
			s, txt := name(comp)
			return []string{s}, txt
		}
	}
	// several components: reduce the full replacement to a set in which every component is necessary and report each
	// under its own signature (a combination is nothing new if each of its necessary parts is a known shape)
	all := append(append([]string{}, setNames...), "policy-chains", "pod-chains", "hooks", "base-jumps")
	if !repairs(all) {
		desc := "stale-state " + effect + " " + dir + " not repaired by replacing all galaxy chains and sets"
		return []string{"unclassified-" + shapeHash(desc)}, desc
	}
	need := all
	for _, comp := range all {
		var without []string
		for _, c := range need {
			if c != comp {
				without = append(without, c)
			}
		}
		if repairs(without) {
			need = without
		}
	}
	var sigs, texts []string
	for _, comp := range need {
		s, txt := name(comp)
		sigs = append(sigs, s)
		texts = append(texts, txt)
	}
	sort.Strings(sigs)
	return uniq(sigs), "the verdict is repaired only by replacing together: " + strings.Join(texts, "; ")
}

// ---- the case ----

func evalC16T(tc *C16Trans) *c16Result {
	res := &c16Result{counters: map[string]int64{}, viols: map[string]*violation{}, stageDumps: map[string][2]string{}}
	w := newWorld()
	model := tc.A.clone()
	w.load(model)
	e := newEnvFull(w, tc.Exec, tc.HostOverride)
	if pi := e.fullSync(); pi != nil {
		res.addViol("c16-full-sync-panic-in-"+pi.Func, "full sync panicked: "+pi.Value, pi)
		return res
	}
	e.takeRejects()
	res.counters["transitions_via_"+tc.Via]++
	for _, op := range tc.Ops {
		res.counters["mutation:"+op]++
	}
	staleXRejected := func() bool {
		hit := false
		for _, rj := range e.takeRejects() {
			res.counters["rejects_"+rj.Kind]++
			if rj.Kind == "chain-in-use" && rj.Op == "restore" && strings.Contains(rj.Reason, "-X GLX-PLCY-") {
				hit = true
			}
		}
		return hit
	}
	judge := func(stage string, rejectedBatch bool) {
		fw := newWorld()
		fw.load(model)
		fe := newEnv(fw)
		if pi := fe.fullSync(); pi != nil {
			res.addViol("c16-full-sync-panic-in-"+pi.Func, "full sync of a fresh manager panicked: "+pi.Value, pi)
			return
		}
		rs, frs := snapshot(e.ipt, e.sets), snapshot(fe.ipt, fe.sets)
		res.stageDumps[stage] = [2]string{e.ipt.Dump("filter"), e.sets.Dump()}
		before := res.counters["flows_compared"]
		judgeFlows(model, rs, frs, stage, rejectedBatch, stage == "-after-events", res)
		res.counters["flows_compared"+stage] += res.counters["flows_compared"] - before
	}
	if tc.Via == "events" {
		for i, ev := range diffToEvents(tc.A, tc.B, tc.EventSeed) {
			hname, deliver := stageEvent(e, model, ev)
			res.counters["t_events_"+ev.Kind]++
			if ev.Kind == "pod-add" && ev.WithIP && ev.Pod != nil && ev.Pod.IP != "" {
				res.counters["t_events_pod-add_first_event_has_ip"]++
				if len(tc.Ops) == 1 {
					res.counters["single_mutation_pod-add_first_event_has_ip"]++
				}
			}
			e.enter()
			if pi := deliver(); pi != nil {
				res.addViol("c16-panic-in-"+pi.Func+"-in-"+hname+"-handler", fmt.Sprintf("event %d (%s) panicked: %s", i, ev.Kind, pi.Value), pi)
			}
		}
		// exactly one mutation, delivered: the state right after its handler(s) is what galaxy has installed for B and
		// is judged; after several mutations the intermediate state is only observed
		stage := "-after-events"
		if len(tc.Ops) == 1 {
			stage = "-after-" + tc.Ops[0] + "-event"
			res.counters["single_mutation_events:"+tc.Ops[0]]++
		}
		judge(stage, staleXRejected())
		if res.inconclusive != "" {
			return res
		}
		if pi := e.fullSync(); pi != nil {
			res.addViol("c16-full-sync-panic-in-"+pi.Func, "full sync panicked: "+pi.Value, pi)
			return res
		}
		judge("-after-events+resync", staleXRejected())
	} else {
		model = tc.B.clone()
		w.load(model)
		if pi := e.fullSync(); pi != nil {
			res.addViol("c16-full-sync-panic-in-"+pi.Func, "full sync panicked: "+pi.Value, pi)
			return res
		}
		judge("-after-resync", staleXRejected())
	}
	for _, rj := range e.takeRejects() {
		res.counters["rejects_"+rj.Kind]++
	}
	if u := e.execReport(res.counters); u != "" {
		res.inconclusive = "exec interpreter met an unknown command: " + u
	}
	if tc.HostOverride {
		res.counters["cases_with_upper_case_hostname_override"]++
	}
	return res
}

func c16TReductions(tc *C16Trans) []*C16Trans {
	var out []*C16Trans
	for _, r := range reductions(tc.B) {
		n := tc.clone()
		n.B = r
		out = append(out, n)
	}
	for _, r := range reductions(tc.A) {
		n := tc.clone()
		n.A = r
		out = append(out, n)
	}
	return out
}

func shrinkC16T(tc *C16Trans, sig string, budget int) (*C16Trans, int) {
	cur := tc
	evals := 0
	for progress := true; progress && evals < budget; {
		progress = false
		for _, cand := range c16TReductions(cur) {
			if evals >= budget {
				break
			}
			evals++
			if _, ok := evalC16T(cand).viols[sig]; ok {
				cur = cand
				progress = true
				break
			}
		}
	}
	return cur, evals
}

func c16TWitness(tc *C16Trans, sig string) (interface{}, string, bool) {
	r := evalC16T(tc)
	v, ok := r.viols[sig]
	if !ok {
		return nil, "", false
	}
	w := map[string]interface{}{"transition": tc, "host": hostName, "observation": v.Flow,
		"replay": "polsim -prop C16 -replay <this file>"}
	if tc.Via == "events" {
		w["events_delivered"] = diffToEvents(tc.A, tc.B, tc.EventSeed)
	}
	for stage, d := range r.stageDumps {
		if strings.HasSuffix(sig, stage) {
			w["iptables_filter"+stage] = strings.Split(d[0], "\n")
			w["ipsets"+stage] = strings.Split(d[1], "\n")
		}
	}
	return w, v.Msg, true
}
