package main

import (
	"encoding/json"
	"fmt"
	"math/rand"
	"net"
	"sort"
	"strings"

	corev1 "k8s.io/api/core/v1"
	networkv1 "k8s.io/api/networking/v1"
	metav1 "k8s.io/apimachinery/pkg/apis/meta/v1"
	"k8s.io/apimachinery/pkg/util/intstr"
)

// The cluster model. It is the single source of truth of a case: the k8s objects handed to galaxy and the
// reference evaluator's input are both derived from it, and it is what a witness contains.

const (
	hostName  = "node-a" // the node the manager under test runs on
	otherNode = "node-b"
)

type Expr struct {
	Key    string   `json:"key"`
	Op     string   `json:"op"` // In | NotIn | Exists | DoesNotExist
	Values []string `json:"values,omitempty"`
}

// Sel is a label selector; the zero value selects everything.
type Sel struct {
	MatchLabels map[string]string `json:"matchLabels,omitempty"`
	Exprs       []Expr            `json:"matchExpressions,omitempty"`
}

type Peer struct {
	Pod    *Sel     `json:"podSelector,omitempty"`
	NS     *Sel     `json:"namespaceSelector,omitempty"`
	CIDR   string   `json:"cidr,omitempty"`
	Except []string `json:"except,omitempty"`
}

type Port struct {
	Proto string `json:"protocol,omitempty"` // "" (defaults to TCP) | TCP | UDP
	Port  int    `json:"port"`
}

type Rule struct {
	Peers []Peer `json:"peers,omitempty"` // from (ingress) / to (egress)
	Ports []Port `json:"ports,omitempty"`
}

type Policy struct {
	Name    string   `json:"name"`
	NS      string   `json:"ns"`
	PodSel  Sel      `json:"podSelector"`
	Types   []string `json:"policyTypes,omitempty"` // nil: defaulted by the API rules
	Ingress []Rule   `json:"ingress,omitempty"`
	Egress  []Rule   `json:"egress,omitempty"`
}

type Pod struct {
	Name   string            `json:"name"`
	NS     string            `json:"ns"`
	Labels map[string]string `json:"labels,omitempty"`
	IP     string            `json:"ip,omitempty"`
	Node   string            `json:"node"`
}

type NS struct {
	Name   string            `json:"name"`
	Labels map[string]string `json:"labels,omitempty"`
}

type Cluster struct {
	Namespaces []NS     `json:"namespaces"`
	Pods       []Pod    `json:"pods"`
	Policies   []Policy `json:"policies"`
}

func (c *Cluster) clone() *Cluster {
	if c == nil {
		return nil
	}
	data, _ := json.Marshal(c)
	var out Cluster
	_ = json.Unmarshal(data, &out)
	return &out
}

func (c *Cluster) size() int {
	if c == nil {
		return 0
	}
	data, _ := json.Marshal(c)
	return len(data)
}

func (c *Cluster) ns(name string) *NS {
	for i := range c.Namespaces {
		if c.Namespaces[i].Name == name {
			return &c.Namespaces[i]
		}
	}
	return nil
}

func (c *Cluster) pod(ns, name string) *Pod {
	for i := range c.Pods {
		if c.Pods[i].NS == ns && c.Pods[i].Name == name {
			return &c.Pods[i]
		}
	}
	return nil
}

func (c *Cluster) policy(ns, name string) *Policy {
	for i := range c.Policies {
		if c.Policies[i].NS == ns && c.Policies[i].Name == name {
			return &c.Policies[i]
		}
	}
	return nil
}

func (p *Pod) onNode() bool { return p.Node == hostName }

// ---- conversion to API objects ----

func (s *Sel) toAPI() *metav1.LabelSelector {
	if s == nil {
		return nil
	}
	ls := &metav1.LabelSelector{}
	if len(s.MatchLabels) > 0 {
		ls.MatchLabels = map[string]string{}
		for k, v := range s.MatchLabels {
			ls.MatchLabels[k] = v
		}
	}
	for _, e := range s.Exprs {
		ls.MatchExpressions = append(ls.MatchExpressions, metav1.LabelSelectorRequirement{Key: e.Key,
			Operator: metav1.LabelSelectorOperator(e.Op), Values: append([]string(nil), e.Values...)})
	}
	return ls
}

func portsToAPI(ps []Port) []networkv1.NetworkPolicyPort {
	var out []networkv1.NetworkPolicyPort
	for _, p := range ps {
		npp := networkv1.NetworkPolicyPort{}
		if p.Proto != "" {
			pr := corev1.Protocol(p.Proto)
			npp.Protocol = &pr
		}
		v := intstr.FromInt(p.Port)
		npp.Port = &v
		out = append(out, npp)
	}
	return out
}

func peersToAPI(ps []Peer) []networkv1.NetworkPolicyPeer {
	var out []networkv1.NetworkPolicyPeer
	for _, p := range ps {
		np := networkv1.NetworkPolicyPeer{PodSelector: p.Pod.toAPI(), NamespaceSelector: p.NS.toAPI()}
		if p.CIDR != "" {
			np.IPBlock = &networkv1.IPBlock{CIDR: p.CIDR, Except: append([]string(nil), p.Except...)}
		}
		out = append(out, np)
	}
	return out
}

func (p *Policy) toAPI() *networkv1.NetworkPolicy {
	np := &networkv1.NetworkPolicy{ObjectMeta: metav1.ObjectMeta{Name: p.Name, Namespace: p.NS}}
	np.Spec.PodSelector = *p.PodSel.toAPI()
	for _, t := range p.Types {
		np.Spec.PolicyTypes = append(np.Spec.PolicyTypes, networkv1.PolicyType(t))
	}
	for _, r := range p.Ingress {
		np.Spec.Ingress = append(np.Spec.Ingress, networkv1.NetworkPolicyIngressRule{Ports: portsToAPI(r.Ports),
			From: peersToAPI(r.Peers)})
	}
	for _, r := range p.Egress {
		np.Spec.Egress = append(np.Spec.Egress, networkv1.NetworkPolicyEgressRule{Ports: portsToAPI(r.Ports),
			To: peersToAPI(r.Peers)})
	}
	return np
}

func copyLabels(m map[string]string) map[string]string {
	if len(m) == 0 {
		return nil
	}
	out := map[string]string{}
	for k, v := range m {
		out[k] = v
	}
	return out
}

func (p *Pod) toAPI() *corev1.Pod {
	return &corev1.Pod{ObjectMeta: metav1.ObjectMeta{Name: p.Name, Namespace: p.NS, Labels: copyLabels(p.Labels)},
		Spec:   corev1.PodSpec{NodeName: p.Node},
		Status: corev1.PodStatus{PodIP: p.IP, Phase: corev1.PodRunning}}
}

func (n *NS) toAPI() *corev1.Namespace {
	return &corev1.Namespace{ObjectMeta: metav1.ObjectMeta{Name: n.Name, Labels: copyLabels(n.Labels)}}
}

// ---- IPv4 helpers ----

func ip4(s string) (uint32, bool) {
	ip := net.ParseIP(s)
	if ip == nil || ip.To4() == nil {
		return 0, false
	}
	b := ip.To4()
	return uint32(b[0])<<24 | uint32(b[1])<<16 | uint32(b[2])<<8 | uint32(b[3]), true
}

func ipStr(v uint32) string {
	return fmt.Sprintf("%d.%d.%d.%d", byte(v>>24), byte(v>>16), byte(v>>8), byte(v))
}

// cidr4 parses a CIDR (host bits are masked off, as the API server's net.ParseCIDR based validation does).
func cidr4(s string) (base uint32, bits int, ok bool) {
	if !strings.Contains(s, "/") {
		v, ok := ip4(s)
		return v, 32, ok
	}
	_, n, err := net.ParseCIDR(s)
	if err != nil || n.IP.To4() == nil {
		return 0, 0, false
	}
	ones, _ := n.Mask.Size()
	b := n.IP.To4()
	return uint32(b[0])<<24 | uint32(b[1])<<16 | uint32(b[2])<<8 | uint32(b[3]), ones, true
}

func maskOf(bits int) uint32 {
	if bits <= 0 {
		return 0
	}
	return ^uint32(0) << (32 - uint(bits))
}

func inCIDR(ip uint32, base uint32, bits int) bool { return ip&maskOf(bits) == base&maskOf(bits) }

// ---- generator ----

var (
	podLabelSpace = map[string][]string{"app": {"a", "b", "c"}, "tier": {"x", "y"}}
	nsLabelSpace  = map[string][]string{"team": {"t1", "t2"}, "env": {"p", "d"}}
	portPool      = []int{80, 443, 53, 8080}
	cidrPool      = []string{"10.244.1.0/24", "10.244.0.0/16", "10.244.2.8/29", "192.168.0.0/16", "172.16.0.0/12",
		"10.244.1.16/28", "10.244.2.0/24", "203.0.113.0/24"}
)

const unlistedPort = 9999

type genOpts struct {
	maxNS, maxPods, maxPol int
}

func sortedKeys(m map[string][]string) []string {
	var ks []string
	for k := range m {
		ks = append(ks, k)
	}
	sort.Strings(ks)
	return ks
}

func genLabels(rng *rand.Rand, space map[string][]string, p float64) map[string]string {
	out := map[string]string{}
	for _, k := range sortedKeys(space) {
		if rng.Float64() < p {
			vs := space[k]
			out[k] = vs[rng.Intn(len(vs))]
		}
		p *= 0.6
	}
	if len(out) == 0 {
		return nil
	}
	return out
}

func genSel(rng *rand.Rand, space map[string][]string) Sel {
	keys := sortedKeys(space)
	r := rng.Float64()
	switch {
	case r < 0.2:
		return Sel{}
	case r < 0.8:
		k := keys[rng.Intn(len(keys))]
		s := Sel{MatchLabels: map[string]string{k: space[k][rng.Intn(len(space[k]))]}}
		if rng.Float64() < 0.15 {
			k2 := keys[rng.Intn(len(keys))]
			s.MatchLabels[k2] = space[k2][rng.Intn(len(space[k2]))]
		}
		return s
	default:
		k := keys[rng.Intn(len(keys))]
		vs := space[k]
		switch rng.Intn(4) {
		case 0:
			n := 1 + rng.Intn(2)
			perm := rng.Perm(len(vs))
			var vals []string
			for i := 0; i < n && i < len(vs); i++ {
				vals = append(vals, vs[perm[i]])
			}
			sort.Strings(vals)
			return Sel{Exprs: []Expr{{Key: k, Op: "In", Values: vals}}}
		case 1:
			return Sel{Exprs: []Expr{{Key: k, Op: "NotIn", Values: []string{vs[rng.Intn(len(vs))]}}}}
		case 2:
			return Sel{Exprs: []Expr{{Key: k, Op: "Exists"}}}
		default:
			return Sel{Exprs: []Expr{{Key: k, Op: "DoesNotExist"}}}
		}
	}
}

func genPorts(rng *rand.Rand) []Port {
	if rng.Float64() < 0.5 {
		return nil
	}
	n := 1 + rng.Intn(2)
	var out []Port
	for i := 0; i < n; i++ {
		out = append(out, Port{Proto: []string{"", "TCP", "UDP"}[rng.Intn(3)], Port: portPool[rng.Intn(len(portPool))]})
	}
	return out
}

func genIPBlock(rng *rand.Rand, zeroOK bool) Peer {
	c := cidrPool[rng.Intn(len(cidrPool))]
	if zeroOK && rng.Float64() < 0.08 {
		c = "0.0.0.0/0"
	}
	p := Peer{CIDR: c}
	base, bits, _ := cidr4(c)
	n := 0
	if r := rng.Float64(); r < 0.35 {
		n = 1
	} else if r < 0.5 {
		n = 2
	}
	for i := 0; i < n && bits < 32; i++ {
		var ebase uint32
		var eb int
		if bits == 0 {
			// keep exceptions of 0.0.0.0/0 inside the pod ranges so that they are observable
			ebase, _, _ = cidr4([]string{"10.244.1.0/24", "10.244.2.0/24"}[rng.Intn(2)])
			eb = 24 + rng.Intn(5)
			ebase |= uint32(rng.Intn(1<<uint(eb-24))) << (32 - uint(eb))
		} else {
			eb = bits + 1 + rng.Intn(minInt(8, 32-bits)) // (bits, 32]
			sub := uint32(rng.Intn(1 << uint(eb-bits)))
			ebase = (base & maskOf(bits)) | sub<<(32-uint(eb))
		}
		if rng.Float64() < 0.1 && eb < 32 {
			ebase |= 1 // host bits set: legal for the API, has to be masked
		}
		p.Except = append(p.Except, fmt.Sprintf("%s/%d", ipStr(ebase), eb))
	}
	return p
}

func minInt(a, b int) int {
	if a < b {
		return a
	}
	return b
}

func genPeer(rng *rand.Rand) Peer {
	switch r := rng.Float64(); {
	case r < 0.3:
		s := genSel(rng, podLabelSpace)
		return Peer{Pod: &s}
	case r < 0.5:
		s := genSel(rng, nsLabelSpace)
		return Peer{NS: &s}
	case r < 0.7:
		s, n := genSel(rng, podLabelSpace), genSel(rng, nsLabelSpace)
		return Peer{Pod: &s, NS: &n}
	default:
		return genIPBlock(rng, true)
	}
}

func genRule(rng *rand.Rand) Rule {
	r := Rule{Ports: genPorts(rng)}
	if rng.Float64() < 0.15 {
		return r // empty from/to
	}
	n := 1 + rng.Intn(3)
	for i := 0; i < n; i++ {
		r.Peers = append(r.Peers, genPeer(rng))
	}
	return r
}

func genRules(rng *rand.Rand, max int) []Rule {
	n := rng.Intn(max + 1)
	var out []Rule
	for i := 0; i < n; i++ {
		out = append(out, genRule(rng))
	}
	return out
}

func genPolicy(rng *rand.Rand, c *Cluster, name string) Policy {
	p := Policy{Name: name, NS: c.Namespaces[rng.Intn(len(c.Namespaces))].Name}
	if rng.Float64() >= 0.25 {
		p.PodSel = genSel(rng, podLabelSpace)
	}
	switch r := rng.Float64(); {
	case r < 0.4: // defaulted policyTypes
		p.Ingress = genRules(rng, 2)
		if rng.Float64() < 0.4 {
			p.Egress = genRules(rng, 2)
		}
	case r < 0.6:
		p.Types = []string{"Ingress"}
		p.Ingress = genRules(rng, 2)
		if rng.Float64() < 0.1 {
			p.Egress = genRules(rng, 2) // listed but not in force
		}
	case r < 0.8:
		p.Types = []string{"Egress"}
		p.Egress = genRules(rng, 2)
		if rng.Float64() < 0.15 {
			p.Ingress = genRules(rng, 2) // listed but not in force
		}
	default:
		p.Types = []string{"Ingress", "Egress"}
		p.Ingress = genRules(rng, 2)
		p.Egress = genRules(rng, 2)
	}
	return p
}

// ipAlloc hands out pod IPs: on-node pods in 10.244.1.0/24, others in 10.244.2.0/24.
type ipAlloc struct{ nextOn, nextOff int }

func (a *ipAlloc) next(rng *rand.Rand, on bool) string {
	if on {
		a.nextOn += 1 + rng.Intn(3)
		return fmt.Sprintf("10.244.1.%d", 9+a.nextOn)
	}
	a.nextOff += 1 + rng.Intn(3)
	return fmt.Sprintf("10.244.2.%d", 5+a.nextOff)
}

func genPod(rng *rand.Rand, c *Cluster, al *ipAlloc, name string) Pod {
	p := Pod{Name: name, NS: c.Namespaces[rng.Intn(len(c.Namespaces))].Name, Labels: genLabels(rng, podLabelSpace, 0.9)}
	on := rng.Float64() < 0.6
	p.Node = otherNode
	if on {
		p.Node = hostName
	}
	if rng.Float64() >= 0.07 {
		p.IP = al.next(rng, on)
	}
	return p
}

func genNamespaces(rng *rand.Rand, n int) []NS {
	var out []NS
	for i := 0; i < n; i++ {
		out = append(out, NS{Name: fmt.Sprintf("ns%d", i), Labels: genLabels(rng, nsLabelSpace, 0.8)})
	}
	return out
}

// genRandomCluster draws a cluster within the bounds.
func genRandomCluster(rng *rand.Rand, o genOpts) *Cluster {
	c := &Cluster{Namespaces: genNamespaces(rng, 1+rng.Intn(o.maxNS))}
	al := &ipAlloc{}
	np := 2 + rng.Intn(o.maxPods-1)
	for i := 0; i < np; i++ {
		c.Pods = append(c.Pods, genPod(rng, c, al, fmt.Sprintf("p%d", i)))
	}
	n := 1 + rng.Intn(o.maxPol)
	for i := 0; i < n; i++ {
		c.Policies = append(c.Policies, genPolicy(rng, c, fmt.Sprintf("np%d", i)))
	}
	return c
}

// ---- focus shapes: small cores that certainly contain a shape the property text makes interesting ----

var focusNames = []string{"random", "empty-from", "empty-to", "ports-only", "pod+ns-peer", "podsel-peer-other-ns",
	"ingress-only+egress-only", "egress-only-lists-ingress", "ipblock-except", "ipblock-zero", "ipblock-sibling-except",
	"same-node-egress-allow-ingress-deny", "default-deny", "random-large"}

func mkPod(name, ns string, labels map[string]string, ip, node string) Pod {
	return Pod{Name: name, NS: ns, Labels: labels, IP: ip, Node: node}
}

func lbl(kv ...string) map[string]string {
	m := map[string]string{}
	for i := 0; i+1 < len(kv); i += 2 {
		m[kv[i]] = kv[i+1]
	}
	return m
}

func selOf(kv ...string) Sel   { return Sel{MatchLabels: lbl(kv...)} }
func pselOf(kv ...string) *Sel { s := selOf(kv...); return &s }

// genFocusCluster builds the core of a focus shape and, unless bare, random surroundings.
func genFocusCluster(rng *rand.Rand, o genOpts, focus int, bare bool) *Cluster {
	name := focusNames[focus%len(focusNames)]
	if name == "random" {
		return genRandomCluster(rng, o)
	}
	if name == "random-large" {
		return genRandomCluster(rng, genOpts{maxNS: o.maxNS, maxPods: o.maxPods, maxPol: o.maxPol})
	}
	c := &Cluster{Namespaces: []NS{{Name: "ns0", Labels: lbl("team", "t1")}, {Name: "ns1", Labels: lbl("team", "t2")}}}
	// core pods: a (on node, ns0, app=a), b (on node, ns0, app=b), c (off node, ns0, app=b), d (on node, ns1, app=b),
	// e (off node, ns1, app=a)
	c.Pods = []Pod{
		mkPod("a", "ns0", lbl("app", "a"), "10.244.1.10", hostName),
		mkPod("b", "ns0", lbl("app", "b"), "10.244.1.11", hostName),
		mkPod("c", "ns0", lbl("app", "b"), "10.244.2.10", otherNode),
		mkPod("d", "ns1", lbl("app", "b"), "10.244.1.12", hostName),
		mkPod("e", "ns1", lbl("app", "a"), "10.244.2.11", otherNode),
	}
	ports := genPorts(rng)
	switch name {
	case "empty-from":
		c.Policies = []Policy{{Name: "core", NS: "ns0", PodSel: selOf("app", "a"), Types: pick(rng, nil, []string{"Ingress"}),
			Ingress: []Rule{{}}}}
	case "empty-to":
		c.Policies = []Policy{{Name: "core", NS: "ns0", PodSel: selOf("app", "a"), Types: []string{"Egress"},
			Egress: []Rule{{}}}}
	case "ports-only":
		pp := []Port{{Proto: []string{"", "TCP", "UDP"}[rng.Intn(3)], Port: portPool[rng.Intn(len(portPool))]}}
		if rng.Intn(2) == 0 {
			c.Policies = []Policy{{Name: "core", NS: "ns0", PodSel: selOf("app", "a"), Ingress: []Rule{{Ports: pp}}}}
		} else {
			c.Policies = []Policy{{Name: "core", NS: "ns0", PodSel: selOf("app", "a"), Types: []string{"Egress"},
				Egress: []Rule{{Ports: pp}}}}
		}
	case "pod+ns-peer":
		// peer: pods app=b in namespaces team=t1; d (ns1, team=t2, app=b) matches the pod part only
		peer := Peer{Pod: pselOf("app", "b"), NS: pselOf("team", "t1")}
		if rng.Intn(2) == 0 {
			c.Policies = []Policy{{Name: "core", NS: "ns0", PodSel: selOf("app", "a"),
				Ingress: []Rule{{Peers: []Peer{peer}, Ports: ports}}}}
		} else {
			c.Policies = []Policy{{Name: "core", NS: "ns0", PodSel: selOf("app", "a"), Types: []string{"Egress"},
				Egress: []Rule{{Peers: []Peer{peer}, Ports: ports}}}}
		}
	case "podsel-peer-other-ns":
		peer := Peer{Pod: pselOf("app", "b")}
		if rng.Intn(2) == 0 {
			c.Policies = []Policy{{Name: "core", NS: "ns0", PodSel: selOf("app", "a"),
				Ingress: []Rule{{Peers: []Peer{peer}, Ports: ports}}}}
		} else {
			c.Policies = []Policy{{Name: "core", NS: "ns0", PodSel: selOf("app", "a"), Types: []string{"Egress"},
				Egress: []Rule{{Peers: []Peer{peer}, Ports: ports}}}}
		}
	case "ingress-only+egress-only":
		// b is selected by an ingress-only policy (deny all ingress) and, with a, by an egress-only policy whose
		// egress peers include b.
		c.Policies = []Policy{
			{Name: "in", NS: "ns0", PodSel: selOf("app", "b"), Types: []string{"Ingress"}},
			{Name: "eg", NS: "ns0", PodSel: Sel{}, Types: []string{"Egress"},
				Egress: []Rule{{Peers: []Peer{{Pod: &Sel{}}}, Ports: ports}}}}
	case "egress-only-lists-ingress":
		c.Policies = []Policy{{Name: "core", NS: "ns0", PodSel: selOf("app", "a"), Types: []string{"Egress"},
			Egress:  []Rule{{Peers: []Peer{{Pod: pselOf("app", "b")}}}},
			Ingress: []Rule{{Peers: []Peer{{Pod: pselOf("app", "b")}}, Ports: ports}}}}
	case "ipblock-except":
		blk := Peer{CIDR: "10.244.0.0/16", Except: []string{"10.244.2.8/29"}}
		if rng.Intn(2) == 0 {
			blk = genIPBlock(rng, false)
			if len(blk.Except) == 0 {
				blk = Peer{CIDR: "10.244.1.0/24", Except: []string{"10.244.1.11/32", "10.244.1.12/31"}}
			}
		}
		if rng.Intn(2) == 0 {
			c.Policies = []Policy{{Name: "core", NS: "ns0", PodSel: selOf("app", "a"),
				Ingress: []Rule{{Peers: []Peer{blk}, Ports: ports}}}}
		} else {
			c.Policies = []Policy{{Name: "core", NS: "ns0", PodSel: selOf("app", "a"), Types: []string{"Egress"},
				Egress: []Rule{{Peers: []Peer{blk}, Ports: ports}}}}
		}
	case "ipblock-zero":
		blk := Peer{CIDR: "0.0.0.0/0"}
		if rng.Intn(2) == 0 {
			blk.Except = []string{"10.244.2.0/24"}
		}
		if rng.Intn(2) == 0 {
			c.Policies = []Policy{{Name: "core", NS: "ns0", PodSel: selOf("app", "a"), Types: []string{"Egress"},
				Egress: []Rule{{Peers: []Peer{blk}, Ports: ports}}}}
		} else {
			c.Policies = []Policy{{Name: "core", NS: "ns0", PodSel: selOf("app", "a"),
				Ingress: []Rule{{Peers: []Peer{blk}, Ports: ports}}}}
		}
	case "ipblock-sibling-except":
		// two ipBlock peers of one rule; the second block is (inside) the first one's exception
		second := "10.244.2.0/24"
		if rng.Intn(2) == 0 {
			second = "10.244.2.8/29"
		}
		peers := []Peer{{CIDR: "10.244.0.0/16", Except: []string{"10.244.2.0/24"}}, {CIDR: second}}
		if rng.Intn(2) == 0 {
			peers[0], peers[1] = peers[1], peers[0]
		}
		c.Policies = []Policy{{Name: "core", NS: "ns0", PodSel: selOf("app", "a"),
			Ingress: []Rule{{Peers: peers, Ports: ports}}}}
	case "same-node-egress-allow-ingress-deny":
		// a may talk to every pod of ns0; b accepts nothing. Both on this node.
		c.Policies = []Policy{
			{Name: "eg", NS: "ns0", PodSel: selOf("app", "a"), Types: []string{"Egress"},
				Egress: []Rule{{Peers: []Peer{{Pod: &Sel{}}}}}},
			{Name: "in", NS: "ns0", PodSel: selOf("app", "b"), Types: []string{"Ingress"}}}
	case "default-deny":
		c.Policies = []Policy{{Name: "core", NS: "ns0", PodSel: Sel{}, Types: pick(rng, nil, []string{"Ingress"},
			[]string{"Ingress", "Egress"}, []string{"Egress"})}}
	}
	if bare {
		return c
	}
	// random surroundings inside the bounds
	for len(c.Namespaces) < o.maxNS && rng.Float64() < 0.4 {
		c.Namespaces = append(c.Namespaces, NS{Name: fmt.Sprintf("ns%d", len(c.Namespaces)),
			Labels: genLabels(rng, nsLabelSpace, 0.8)})
	}
	al := &ipAlloc{nextOn: 20, nextOff: 20}
	for i := 0; len(c.Pods) < o.maxPods && rng.Float64() < 0.6; i++ {
		c.Pods = append(c.Pods, genPod(rng, c, al, fmt.Sprintf("p%d", i)))
	}
	for i := 0; len(c.Policies) < o.maxPol && rng.Float64() < 0.5; i++ {
		c.Policies = append(c.Policies, genPolicy(rng, c, fmt.Sprintf("np%d", i)))
	}
	return c
}

func pick(rng *rand.Rand, opts ...[]string) []string { return opts[rng.Intn(len(opts))] }

// flipIPBlock rewrites one ipBlock peer of the policy so that an address block changes sides: "C except X" becomes
// "X", and a plain "X" becomes "<wider block> except X" - the element X stays in the compiled hash:net set and only
// its nomatch flag has to change.
func flipIPBlock(rng *rand.Rand, p *Policy) bool {
	var peers []*Peer
	for _, rules := range [][]Rule{p.Ingress, p.Egress} {
		for ri := range rules {
			for pi := range rules[ri].Peers {
				if rules[ri].Peers[pi].CIDR != "" {
					peers = append(peers, &rules[ri].Peers[pi])
				}
			}
		}
	}
	if len(peers) == 0 {
		return false
	}
	peer := peers[rng.Intn(len(peers))]
	if len(peer.Except) > 0 {
		peer.CIDR, peer.Except = peer.Except[rng.Intn(len(peer.Except))], nil
		return true
	}
	base, bits, ok := cidr4(peer.CIDR)
	if !ok || bits < 9 {
		return false
	}
	wide := bits - 1 - rng.Intn(minInt(8, bits-8))
	peer.Except = []string{fmt.Sprintf("%s/%d", ipStr(base&maskOf(bits)), bits)}
	peer.CIDR = fmt.Sprintf("%s/%d", ipStr(base&maskOf(wide)), wide)
	return true
}

// mutateCluster derives an "after" state from a "before" state. keepPolicies: policy names persist (their specs may
// change), so no policy chain becomes stale.
func mutateCluster(rng *rand.Rand, b *Cluster, o genOpts, keepPolicies bool) *Cluster {
	c := b.clone()
	al := &ipAlloc{nextOn: 40, nextOff: 40}
	// namespaces: relabel
	for i := range c.Namespaces {
		if rng.Float64() < 0.3 {
			c.Namespaces[i].Labels = genLabels(rng, nsLabelSpace, 0.8)
		}
	}
	// pods: delete, relabel, re-IP, add
	var pods []Pod
	for _, p := range c.Pods {
		r := rng.Float64()
		switch {
		case r < 0.2:
			continue
		case r < 0.45:
			p.Labels = genLabels(rng, podLabelSpace, 0.9)
		case r < 0.52:
			p.IP = al.next(rng, p.onNode())
		}
		pods = append(pods, p)
	}
	c.Pods = pods
	for i := 0; len(c.Pods) < o.maxPods && rng.Float64() < 0.5; i++ {
		c.Pods = append(c.Pods, genPod(rng, c, al, fmt.Sprintf("q%d", i)))
	}
	// policies
	var pols []Policy
	for _, p := range c.Policies {
		r := rng.Float64()
		switch {
		case r < 0.25 && !keepPolicies:
			continue
		case r < 0.6:
			np := genPolicy(rng, c, p.Name)
			np.NS = p.NS
			p = np
		case r < 0.8:
			flipIPBlock(rng, &p)
		}
		pols = append(pols, p)
	}
	c.Policies = pols
	for i := 0; len(c.Policies) < o.maxPol && rng.Float64() < 0.4; i++ {
		c.Policies = append(c.Policies, genPolicy(rng, c, fmt.Sprintf("nq%d", i)))
	}
	return c
}
