package main

// Reference evaluator of the NetworkPolicy API semantics, written from the API documentation
// (networking.k8s.io/v1 NetworkPolicySpec / NetworkPolicyPeer / NetworkPolicyPort), independent of galaxy and of
// apimachinery's selector code.
//
//  * a pod is isolated for a direction iff some policy of its namespace selects it and has that policy type
//    (policyTypes unset: Ingress always, Egress iff the policy has egress rules);
//  * traffic of an isolated pod in that direction is allowed iff some such policy has a rule of that direction
//    whose peers match the remote end (no peers: everything) and whose ports match (no ports: everything);
//  * peer: ipBlock (cidr minus except, by address) | podSelector (pods of the policy's namespace) |
//    namespaceSelector (all pods of matching namespaces) | both (pods matching in matching namespaces);
//  * port: protocol defaults to TCP; numeric port equality.

const (
	dirIngress = "ingress"
	dirEgress  = "egress"
)

func (s *Sel) matches(labels map[string]string) bool {
	if s == nil {
		return false
	}
	for k, v := range s.MatchLabels {
		if got, ok := labels[k]; !ok || got != v {
			return false
		}
	}
	for _, e := range s.Exprs {
		got, has := labels[e.Key]
		switch e.Op {
		case "In":
			if !has || !contains(e.Values, got) {
				return false
			}
		case "NotIn":
			if has && contains(e.Values, got) {
				return false
			}
		case "Exists":
			if !has {
				return false
			}
		case "DoesNotExist":
			if has {
				return false
			}
		default:
			return false
		}
	}
	return true
}

func contains(l []string, s string) bool {
	for _, x := range l {
		if x == s {
			return true
		}
	}
	return false
}

// Endpoint is one end of a flow: an address, and the pod owning it if any.
type Endpoint struct {
	IP  uint32
	Pod *Pod
}

func (p *Policy) hasType(dir string) bool {
	if len(p.Types) == 0 {
		if dir == dirIngress {
			return true
		}
		return len(p.Egress) > 0
	}
	want := "Ingress"
	if dir == dirEgress {
		want = "Egress"
	}
	return contains(p.Types, want)
}

func (p *Policy) rules(dir string) []Rule {
	if dir == dirIngress {
		return p.Ingress
	}
	return p.Egress
}

func (p *Policy) selects(pod *Pod) bool {
	return p.NS == pod.NS && p.PodSel.matches(pod.Labels)
}

// isolating returns the policies that isolate the pod for the direction.
func (c *Cluster) isolating(pod *Pod, dir string) []*Policy {
	var out []*Policy
	for i := range c.Policies {
		p := &c.Policies[i]
		if p.selects(pod) && p.hasType(dir) {
			out = append(out, p)
		}
	}
	return out
}

// peerMatches: does this peer of a policy in namespace polNS admit the remote end?
func (c *Cluster) peerMatches(peer *Peer, polNS string, remote Endpoint) bool {
	if peer.CIDR != "" {
		base, bits, ok := cidr4(peer.CIDR)
		if !ok || !inCIDR(remote.IP, base, bits) {
			return false
		}
		for _, e := range peer.Except {
			eb, ebits, ok := cidr4(e)
			if ok && inCIDR(remote.IP, eb, ebits) {
				return false
			}
		}
		return true
	}
	if remote.Pod == nil {
		return false
	}
	switch {
	case peer.Pod != nil && peer.NS != nil:
		ns := c.ns(remote.Pod.NS)
		return ns != nil && peer.NS.matches(ns.Labels) && peer.Pod.matches(remote.Pod.Labels)
	case peer.Pod != nil:
		return remote.Pod.NS == polNS && peer.Pod.matches(remote.Pod.Labels)
	case peer.NS != nil:
		ns := c.ns(remote.Pod.NS)
		return ns != nil && peer.NS.matches(ns.Labels)
	}
	return false
}

func portsMatch(ports []Port, proto string, port int) bool {
	if len(ports) == 0 {
		return true
	}
	for _, p := range ports {
		pp := p.Proto
		if pp == "" {
			pp = "TCP"
		}
		if pp == proto && p.Port == port {
			return true
		}
	}
	return false
}

// admit names one rule that admits a flow.
type admit struct {
	Pol  *Policy
	Rule int
}

// refVerdict evaluates one direction for the local pod. proto is "TCP" or "UDP".
func (c *Cluster) refVerdict(dir string, local *Pod, remote Endpoint, proto string, port int) (isolated, allowed bool,
	admits []admit) {
	pols := c.isolating(local, dir)
	if len(pols) == 0 {
		return false, true, nil
	}
	for _, p := range pols {
		rules := p.rules(dir)
		for ri := range rules {
			r := &rules[ri]
			if !portsMatch(r.Ports, proto, port) {
				continue
			}
			ok := len(r.Peers) == 0
			for pi := range r.Peers {
				if c.peerMatches(&r.Peers[pi], p.NS, remote) {
					ok = true
					break
				}
			}
			if ok {
				admits = append(admits, admit{Pol: p, Rule: ri})
			}
		}
	}
	return true, len(admits) > 0, admits
}
