package main

// C13 composition monitor: real galaxy-ipam (FloatingIPPlugin over fake clients) allocates and binds; the binding
// annotation it wrote is put on the pod the real Galaxy daemon sees; the daemon execs the recording plugin; the
// logged CNI_ARGS are decoded with the plugins' own decoder (cni/ipam.Allocate). Oracle: (ip, prefix length,
// gateway, vlan) element by element equal what the FloatingIP objects in the fake galaxy clientset (truth) plus the
// INPUT pool configuration (the generator's structures, not galaxy's parse of them) say, in request order.

import (
	gocontext "context"
	"encoding/binary"
	"encoding/json"
	"fmt"
	"math/rand"
	"net"
	"sort"
	"strings"
	"sync"

	"github.com/containernetworking/cni/pkg/skel"
	t020 "github.com/containernetworking/cni/pkg/types/020"
	corev1 "k8s.io/api/core/v1"
	"k8s.io/apimachinery/pkg/api/resource"
	metav1 "k8s.io/apimachinery/pkg/apis/meta/v1"
	"k8s.io/apimachinery/pkg/runtime"
	k8stypes "k8s.io/apimachinery/pkg/types"
	"k8s.io/client-go/kubernetes/fake"
	clienttesting "k8s.io/client-go/testing"
	cniipam "tkestack.io/galaxy/cni/ipam"
	"tkestack.io/galaxy/pkg/api/k8s/schedulerapi"
	ipamcontext "tkestack.io/galaxy/pkg/ipam/context"
	"tkestack.io/galaxy/pkg/ipam/schedulerplugin"
	"verif/harness/evid"
)

type ipRange struct{ First, Last uint32 }

// poolDef is one generated pool (the INPUT truth for mask / gateway / vlan).
type poolDef struct {
	NodeSubnets []string  `json:"node_subnets"`
	Subnet      string    `json:"subnet"`
	Prefix      int       `json:"prefix"`
	Gateway     string    `json:"gateway"`
	Vlan        int       `json:"vlan"`
	Ranges      []ipRange `json:"-"`
	RangeText   []string  `json:"ips"`
	Legacy      bool      `json:"legacy_routable_subnet_form"`
	base        uint32
	size        uint32
}

func u32ip(u uint32) string {
	b := make(net.IP, 4)
	binary.BigEndian.PutUint32(b, u)
	return b.String()
}

func ipu32(s string) uint32 {
	ip := net.ParseIP(s).To4()
	if ip == nil {
		return 0
	}
	return binary.BigEndian.Uint32(ip)
}

func (p *poolDef) contains(u uint32) bool {
	for _, r := range p.Ranges {
		if u >= r.First && u <= r.Last {
			return true
		}
	}
	return false
}

func (p *poolDef) text() string {
	var sb strings.Builder
	sb.WriteString("{")
	if p.Legacy {
		fmt.Fprintf(&sb, `"routableSubnet":%q,`, p.NodeSubnets[0])
	} else {
		b, _ := json.Marshal(p.NodeSubnets)
		fmt.Fprintf(&sb, `"nodeSubnets":%s,`, b)
	}
	b, _ := json.Marshal(p.RangeText)
	fmt.Fprintf(&sb, `"ips":%s,"subnet":%q,"gateway":%q`, b, p.Subnet, p.Gateway)
	if p.Vlan != 0 || len(p.Subnet)%2 == 0 {
		fmt.Fprintf(&sb, `,"vlan":%d`, p.Vlan)
	}
	sb.WriteString("}")
	return sb.String()
}

type c13Node struct {
	Name   string
	IP     string
	Subnet string
}

type c13Pod struct {
	Name      string      `json:"name"`
	NS        string      `json:"ns"`
	Node      string      `json:"node"`
	Kind      string      `json:"kind"` // bare | statefulset
	K         int         `json:"k"`
	Requests  [][]ipRange `json:"-"`
	ReqText   string      `json:"request_annotation,omitempty"` // the whole k8s.v1.cni.galaxy.io/args value the pod is created with
	Stale     []expIP     `json:"stale_ipinfos_in_annotation,omitempty"`
	NetAnn    string      `json:"networks_annotation,omitempty"`
	nodeSub   string
	nNetworks int
}

type c13World struct {
	Pools    []*poolDef `json:"pools"`
	ConfText string     `json:"ipam_config_text"`
	Nodes    []c13Node  `json:"nodes"`
	Pods     []*c13Pod  `json:"-"`
}

var edgeVlans = []int{0, 0, 1, 2, 4094, 4093, 100, 1000}

func genWorld(rng *rand.Rand, nPods int) *c13World {
	w := &c13World{}
	nSub := 1 + rng.Intn(3)
	var subs []string
	for s := 0; s < nSub; s++ {
		sub := fmt.Sprintf("10.%d.%d.0/24", 50+s, rng.Intn(200))
		subs = append(subs, sub)
		for i := 0; i < 2; i++ {
			ip := strings.TrimSuffix(sub, "0/24") + fmt.Sprint(5+i)
			w.Nodes = append(w.Nodes, c13Node{Name: fmt.Sprintf("node-%d-%d", s, i), IP: ip, Subnet: sub})
		}
	}
	nPools := 3 + rng.Intn(4)
	for p := 0; p < nPools; p++ {
		prefix := 16 + rng.Intn(15) // /16../30
		size := uint32(1) << uint(32-prefix)
		region := uint32(172)<<24 | uint32(16+p)<<16
		blocks := uint32(1<<16) / size
		base := region + uint32(rng.Intn(int(blocks)))*size
		pd := &poolDef{Prefix: prefix, base: base, size: size, Subnet: fmt.Sprintf("%s/%d", u32ip(base), prefix)}
		if rng.Intn(3) == 0 {
			pd.Vlan = edgeVlans[rng.Intn(len(edgeVlans))]
		} else {
			pd.Vlan = rng.Intn(4095)
		}
		// gateway: first host, last host, or somewhere inside
		var gwOff uint32
		switch rng.Intn(3) {
		case 0:
			gwOff = 1
		case 1:
			gwOff = size - 2
		default:
			gwOff = 1 + uint32(rng.Intn(int(size-2)))
		}
		if size == 4 && gwOff == 0 {
			gwOff = 1
		}
		pd.Gateway = u32ip(base + gwOff)
		// ranges: ascending, separated by a gap >= 2 addresses, never containing the gateway
		nr := 1 + rng.Intn(3)
		cur := base
		if size > 4 && rng.Intn(2) == 0 {
			cur = base + 1 + uint32(rng.Intn(int(minU32(size/2, 200))))
		}
		end := base + size - 1
		for r := 0; r < nr && cur <= end; r++ {
			first := cur
			length := uint32(1 + rng.Intn(64))
			last := first + length - 1
			if last > end {
				last = end
			}
			gw := base + gwOff
			if gw >= first && gw <= last {
				if gw == first {
					first++
				} else {
					last = gw - 1
				}
			}
			if first <= last {
				pd.Ranges = append(pd.Ranges, ipRange{first, last})
				if first == last {
					pd.RangeText = append(pd.RangeText, u32ip(first))
				} else {
					pd.RangeText = append(pd.RangeText, u32ip(first)+"~"+u32ip(last))
				}
			}
			cur = last + 2 + uint32(rng.Intn(6))
			if gw == last+1 {
				cur = gw + 2
			}
		}
		if len(pd.Ranges) == 0 {
			// tiny subnet whose only candidate was the gateway: use the address after it
			a := base + gwOff + 1
			if a > end {
				a = base
			}
			pd.Ranges = []ipRange{{a, a}}
			pd.RangeText = []string{u32ip(a)}
		}
		// node subnets
		perm := rng.Perm(len(subs))
		ns := 1 + rng.Intn(len(subs))
		for i := 0; i < ns; i++ {
			pd.NodeSubnets = append(pd.NodeSubnets, subs[perm[i]])
		}
		sort.Strings(pd.NodeSubnets)
		pd.Legacy = ns == 1 && rng.Intn(3) == 0
		w.Pools = append(w.Pools, pd)
	}
	var texts []string
	for _, p := range w.Pools {
		texts = append(texts, p.text())
	}
	w.ConfText = `{"floatingips":[` + strings.Join(texts, ",") + `]}`

	// pods: ranged pods first (their ranges are pairwise disjoint over the whole world), un-ranged pods last
	planned := map[uint32]bool{}
	freeIn := func(p *poolDef) []uint32 {
		var out []uint32
		for _, r := range p.Ranges {
			for u := r.First; u <= r.Last; u++ {
				if !planned[u] {
					out = append(out, u)
				}
				if u == ^uint32(0) {
					break
				}
			}
		}
		return out
	}
	nUnranged := nPods / 5
	nRanged := nPods - nUnranged
	for i := 0; i < 4*nPods && len(w.Pods) < nPods; i++ {
		node := w.Nodes[rng.Intn(len(w.Nodes))]
		pod := &c13Pod{NS: []string{"default", "ns1"}[rng.Intn(2)], Node: node.Name, nodeSub: node.Subnet, Kind: "bare"}
		if rng.Intn(3) == 0 {
			pod.Kind = "statefulset"
			pod.Name = fmt.Sprintf("sts%d-%d", i, rng.Intn(3))
		} else {
			pod.Name = fmt.Sprintf("p%d", i)
		}
		var eligible []*poolDef
		for _, p := range w.Pools {
			for _, s := range p.NodeSubnets {
				if s == node.Subnet {
					eligible = append(eligible, p)
					break
				}
			}
		}
		if len(eligible) == 0 {
			continue
		}
		if len(w.Pods) >= nRanged || i >= 3*nPods {
			pod.K = 1
			w.addStale(rng, pod, "")
			w.Pods = append(w.Pods, pod)
			continue
		}
		k := 1 + rng.Intn(4)
		for j := 0; j < k; j++ {
			p := eligible[rng.Intn(len(eligible))]
			free := freeIn(p)
			if len(free) == 0 {
				continue
			}
			// one or two ranges of free, consecutive addresses
			var rl []ipRange
			nr := 1 + rng.Intn(2)
			for r := 0; r < nr; r++ {
				free = freeIn(p)
				if len(free) == 0 {
					break
				}
				start := free[rng.Intn(len(free))]
				last := start
				maxLen := uint32(rng.Intn(3))
				for last-start < maxLen && p.contains(last+1) && !planned[last+1] {
					last++
				}
				for u := start; u <= last; u++ {
					planned[u] = true
				}
				rl = append(rl, ipRange{start, last})
			}
			if len(rl) > 0 {
				pod.Requests = append(pod.Requests, rl)
			}
		}
		if len(pod.Requests) == 0 {
			continue
		}
		pod.K = len(pod.Requests)
		var outer []string
		for _, rl := range pod.Requests {
			var inner []string
			for _, r := range rl {
				if r.First == r.Last {
					inner = append(inner, fmt.Sprintf("%q", u32ip(r.First)))
				} else {
					inner = append(inner, fmt.Sprintf("%q", u32ip(r.First)+"~"+u32ip(r.Last)))
				}
			}
			outer = append(outer, "["+strings.Join(inner, ",")+"]")
		}
		rangeText := `"request_ip_range":[` + strings.Join(outer, ",") + `]`
		pod.ReqText = `{` + rangeText + `}`
		w.addStale(rng, pod, rangeText)
		w.Pods = append(w.Pods, pod)
	}
	return w
}

// addStale gives about a quarter of the pods an args annotation that already carries common.ipinfos, as a pod
// re-created from an exported manifest / a backup / a controller cloning annotations would: 1-3 entries with
// addresses inside and outside the configured pools and arbitrary masks, gateways and vlans. None of them is
// something IPAM allocated to this pod, so none of them may reach a plugin.
func (w *c13World) addStale(rng *rand.Rand, pod *c13Pod, rangeText string) {
	if rng.Intn(4) != 0 {
		return
	}
	n := 1 + rng.Intn(3)
	var items []string
	for i := 0; i < n; i++ {
		var e expIP
		switch rng.Intn(3) {
		case 0: // inside a configured pool, with that pool's own parameters (looks perfectly plausible)
			p := w.Pools[rng.Intn(len(w.Pools))]
			r := p.Ranges[rng.Intn(len(p.Ranges))]
			e = expIP{IP: u32ip(r.First + uint32(rng.Intn(int(r.Last-r.First+1)))), Prefix: p.Prefix, Gateway: p.Gateway, Vlan: p.Vlan}
		case 1: // inside a configured pool, other mask / gateway / vlan
			p := w.Pools[rng.Intn(len(w.Pools))]
			r := p.Ranges[rng.Intn(len(p.Ranges))]
			e = expIP{IP: u32ip(r.First), Prefix: 8 + rng.Intn(24), Gateway: u32ip(p.base + uint32(rng.Intn(int(p.size)))),
				Vlan: rng.Intn(4095)}
		default: // outside every pool
			e = expIP{IP: fmt.Sprintf("192.168.%d.%d", rng.Intn(256), 2+rng.Intn(250)), Prefix: 24, Vlan: edgeVlans[rng.Intn(len(edgeVlans))]}
			e.Gateway = e.IP[:strings.LastIndex(e.IP, ".")] + ".1"
		}
		pod.Stale = append(pod.Stale, e)
		items = append(items, fmt.Sprintf(`{"ip":"%s/%d","vlan":%d,"gateway":%q}`, e.IP, e.Prefix, e.Vlan, e.Gateway))
	}
	common := `"common":{"ipinfos":[` + strings.Join(items, ",") + `]}`
	switch {
	case rangeText == "":
		pod.ReqText = `{` + common + `}`
	case rng.Intn(2) == 0:
		pod.ReqText = `{` + rangeText + `,` + common + `}`
	default:
		pod.ReqText = `{` + common + `,` + rangeText + `}`
	}
}

func minU32(a, b uint32) uint32 {
	if a < b {
		return a
	}
	return b
}

func (p *c13Pod) ipamObject() *corev1.Pod {
	q := resource.NewQuantity(1, resource.DecimalSI)
	pod := &corev1.Pod{
		ObjectMeta: metav1.ObjectMeta{Name: p.Name, Namespace: p.NS, UID: k8stypes.UID("uid-" + p.NS + "-" + p.Name),
			Annotations: map[string]string{}},
		Spec: corev1.PodSpec{Containers: []corev1.Container{{Name: "c", Image: "i", Resources: corev1.ResourceRequirements{
			Requests: corev1.ResourceList{corev1.ResourceName(eniResource): *q}}}}},
	}
	if p.ReqText != "" {
		pod.Annotations[extArgsAnnotation] = p.ReqText
	}
	if p.NetAnn != "" {
		pod.Annotations[networksAnnotation] = p.NetAnn
	}
	if p.Kind == "statefulset" {
		app := p.Name[:strings.LastIndex(p.Name, "-")]
		pod.Labels = map[string]string{"app": app}
		pod.OwnerReferences = []metav1.OwnerReference{{Kind: "StatefulSet", Name: app}}
	}
	return pod
}

type expIP struct {
	IP      string `json:"ip"`
	Prefix  int    `json:"prefix"`
	Gateway string `json:"gateway"`
	Vlan    int    `json:"vlan"`
}

func c13Main(fl *evid.Flags) int {
	run := evid.NewRun("C13", fl.Tier, fl.Seed, "exploration", "cnisim")
	run.Rule = "generated IPAM worlds (3-6 pools, masks /16-/30, gateway first/last/inside, VLAN 0-4094 with edge values, " +
		"nodeSubnets and legacy routableSubnet forms); pods request k=1-4 IPs via request_ip_range (pairwise disjoint range " +
		"lists, possibly spanning pools with different mask/vlan/gateway) or one IP without ranges; about a quarter of the pods are created with an args annotation that already carries 1-3 stale common.ipinfos entries (inside/outside the pools, other masks/gateways/vlans), with and without request_ip_range; real Filter+Bind; binding " +
		"annotation captured from the pods/binding create action; real Galaxy ADD; CNI_ARGS of every invoked plugin decoded " +
		"with cni/ipam.Allocate. Non-trivial = a pod whose allocation reached at least one plugin; distinct = (mask, vlan, k)."
	run.Assume("FloatingIP objects in the fake galaxy clientset are the persisted truth of what galaxy-ipam allocated")
	run.Assume("the API server merges a Binding's annotations into the pod (the harness does that merge)")
	run.Assume("mask/gateway/vlan truth comes from the generator's pool structures from which the config text was rendered")
	total := evid.Tiered(fl.Tier, 2400, 150000)
	perWorld := evid.Tiered(fl.Tier, 30, 40)
	nWorlds := (total + perWorld - 1) / perWorld
	workers := evid.Tiered(fl.Tier, 8, 12)

	base := setupEnv(run, "c13")
	if base == nil {
		return run.Finish(1)
	}
	defer base.cleanup()

	var wg sync.WaitGroup
	jobs := make(chan int, nWorlds)
	for i := 0; i < nWorlds; i++ {
		jobs <- i
	}
	close(jobs)
	for wk := 0; wk < workers; wk++ {
		wg.Add(1)
		go func(wk int) {
			defer wg.Done()
			env, err := newEnvAt(fmt.Sprintf("%s/w%d", base.dir, wk), fmt.Sprintf("%sw%d-", base.cidPrefix, wk), base.pluginBin)
			if err != nil {
				run.Inconclusive("worker env: " + err.Error())
				return
			}
			defer cleanPrefix(env.cidPrefix)
			for widx := range jobs {
				c13World1(run, env, widx, perWorld)
			}
		}(wk)
	}
	wg.Wait()

	if run.Counter("pods_checked_at_plugin") == 0 {
		run.Inconclusive("no pod reached a plugin")
	}
	if b, f := run.Counter("pods_bound"), run.Counter("pods_bind_or_filter_failed"); f > b/5 {
		run.Inconclusive(fmt.Sprintf("%d of %d generated pods could not be bound: the generator is off", f, b+f))
	}
	for _, name := range []string{"pods_k1", "pods_k2", "pods_k3", "pods_k4", "pods_unranged", "pods_spanning_pools",
		"vlan_zero_checked", "vlan_max_checked", "mask_30_checked", "mask_16_checked", "plugins_decoded_secondary_network",
		"pods_with_stale_ipinfos_ranged_checked", "pods_with_stale_ipinfos_unranged_checked"} {
		if run.Counter(name) == 0 {
			run.Inconclusive("counter " + name + " is zero: the situation it stands for was never observed")
		}
	}
	return run.Finish(evid.Tiered(fl.Tier, 60, 800))
}

func c13World1(run *evid.Run, env *runEnv, widx, nPods int) {
	rng := run.Rng("c13-world", widx)
	w := genWorld(rng, nPods)
	caseBase := fmt.Sprintf("%d:world:%d", run.Seed, widx)

	// --- galaxy side: a vlan-ish default network, a second network, sometimes an ENI network
	gcfg := genStaticConf(rng, confOpts{nNets: 3, distinctTypes: true})
	gcfg.Default = []string{gcfg.Nets[0].Name}
	if rng.Intn(2) == 0 {
		gcfg.ENI = gcfg.Nets[1].Name
	} else {
		gcfg.ENI = ""
	}
	{
		var m map[string]interface{}
		_ = json.Unmarshal([]byte(gcfg.JSONText), &m)
		m["DefaultNetworks"], m["ENIIPNetwork"] = gcfg.Default, gcfg.ENI
		b, _ := json.Marshal(m)
		gcfg.JSONText = string(b)
	}
	for i, p := range w.Pods {
		switch rng.Intn(4) {
		case 0:
			p.NetAnn = gcfg.Nets[2].Name + "," + gcfg.Nets[0].Name
			p.nNetworks = 2
		case 1:
			p.NetAnn = fmt.Sprintf(`[{"name":%q},{"name":%q,"interface":"net1"}]`, gcfg.Nets[1].Name, gcfg.Nets[2].Name)
			p.nNetworks = 2
		default:
			p.nNetworks = 1
		}
		_ = i
	}
	d, err := newDaemon(env, gcfg, fmt.Sprintf("c13-%d", widx))
	if err != nil {
		run.Inconclusive("daemon: " + err.Error())
		return
	}
	defer d.close()
	rd := &logReader{path: env.logPath, off: fileSize(env.logPath)}

	// --- ipam side
	var conf schedulerplugin.Conf
	if err := json.Unmarshal([]byte(w.ConfText), &conf); err != nil {
		run.Count("worlds_config_rejected", 1)
		run.Sample(map[string]interface{}{"rejected_config": w.ConfText, "err": err.Error()})
		return
	}
	var objs []runtime.Object
	var nodes []corev1.Node
	for _, n := range w.Nodes {
		node := corev1.Node{ObjectMeta: metav1.ObjectMeta{Name: n.Name},
			Status: corev1.NodeStatus{Addresses: []corev1.NodeAddress{{Type: corev1.NodeInternalIP, Address: n.IP}}}}
		nodes = append(nodes, node)
		nc := node
		objs = append(objs, &nc)
	}
	podObjs := map[string]*corev1.Pod{}
	for _, p := range w.Pods {
		o := p.ipamObject()
		podObjs[p.NS+"/"+p.Name] = o
		objs = append(objs, o)
	}
	ctx, stop := ipamcontext.CreateTestIPAMContext(objs, nil, nil)
	defer close(stop)
	var bmu sync.Mutex
	bindings := map[string]map[string]string{}
	ctx.Client.(*fake.Clientset).PrependReactor("create", "pods", func(a clienttesting.Action) (bool, runtime.Object, error) {
		if a.GetSubresource() != "binding" {
			return false, nil, nil
		}
		b, ok := a.(clienttesting.CreateAction).GetObject().(*corev1.Binding)
		if !ok {
			return false, nil, nil
		}
		ann := map[string]string{}
		for k, v := range b.Annotations {
			ann[k] = v
		}
		bmu.Lock()
		bindings[b.Namespace+"/"+b.Name] = ann
		bmu.Unlock()
		return true, b, nil
	})
	plugin, err := schedulerplugin.NewFloatingIPPlugin(conf, ctx)
	if err != nil {
		run.Inconclusive("NewFloatingIPPlugin: " + err.Error())
		return
	}
	if err := plugin.Init(); err != nil {
		run.Count("worlds_config_rejected", 1)
		run.Sample(map[string]interface{}{"rejected_config": w.ConfText, "err": err.Error()})
		return
	}
	run.Count("worlds", 1)
	known := map[string]bool{}
	listFIPs := func() (map[string]string, error) {
		l, err := ctx.GalaxyClient.GalaxyV1alpha1().FloatingIPs().List(gocontext.TODO(), metav1.ListOptions{})
		if err != nil {
			return nil, err
		}
		out := map[string]string{}
		for _, it := range l.Items {
			out[it.Name] = it.Spec.Key
		}
		return out, nil
	}
	poolOf := func(u uint32) *poolDef {
		for _, p := range w.Pools {
			if p.contains(u) {
				return p
			}
		}
		return nil
	}

	for pi, p := range w.Pods {
		caseID := fmt.Sprintf("%s:pod:%d", caseBase, pi)
		run.Eval(1)
		obj := podObjs[p.NS+"/"+p.Name]
		var node corev1.Node
		for _, n := range nodes {
			if n.Name == p.Node {
				node = n
			}
		}
		filtered, failed, err := plugin.Filter(obj, nodes)
		okNode := false
		for _, n := range filtered {
			if n.Name == p.Node {
				okNode = true
			}
		}
		if err != nil || !okNode {
			run.Count("pods_bind_or_filter_failed", 1)
			run.Count("unbound_reason_filter_"+reasonClass(fmt.Sprint(err)+" "+failed[p.Node], len(p.Requests) == 0), 1)
			run.Sample(map[string]interface{}{"filter_failed": p, "err": fmt.Sprint(err), "failed_nodes": failed, "config": w.ConfText})
			continue
		}
		_ = node
		if err := plugin.Bind(&schedulerapi.ExtenderBindingArgs{PodName: p.Name, PodNamespace: p.NS, PodUID: obj.UID,
			Node: p.Node}); err != nil {
			run.Count("pods_bind_or_filter_failed", 1)
			run.Count("unbound_reason_bind_"+reasonClass(err.Error(), len(p.Requests) == 0), 1)
			run.Sample(map[string]interface{}{"bind_failed": p, "err": err.Error(), "config": w.ConfText})
			continue
		}
		bmu.Lock()
		ann := bindings[p.NS+"/"+p.Name]
		bmu.Unlock()
		if ann == nil {
			run.Inconclusive("Bind returned nil but no pods/binding create action was seen")
			return
		}
		run.Count("pods_bound", 1)
		// --- truth: FloatingIP objects created for this pod
		now, err := listFIPs()
		if err != nil {
			run.Inconclusive("list FloatingIPs: " + err.Error())
			return
		}
		var fresh []uint32
		for name, key := range now {
			if !known[name] {
				known[name] = true
				if !strings.Contains(key, p.Name) {
					run.Inconclusive(fmt.Sprintf("new FloatingIP %s has key %q, not this pod's (%s)", name, key, p.Name))
					return
				}
				fresh = append(fresh, ipu32(name))
			}
		}
		var want []expIP
		mk := func(u uint32) bool {
			pd := poolOf(u)
			if pd == nil {
				return false
			}
			want = append(want, expIP{IP: u32ip(u), Prefix: pd.Prefix, Gateway: pd.Gateway, Vlan: pd.Vlan})
			return true
		}
		truthOK := true
		if len(p.Requests) == 0 {
			if len(fresh) != 1 || !mk(fresh[0]) {
				truthOK = false
			}
		} else {
			for _, rl := range p.Requests {
				found := 0
				for _, u := range fresh {
					for _, r := range rl {
						if u >= r.First && u <= r.Last {
							found++
							if !mk(u) {
								truthOK = false
							}
						}
					}
				}
				if found != 1 {
					truthOK = false
				}
			}
			if len(fresh) != len(p.Requests) {
				truthOK = false
			}
		}
		if !truthOK {
			// what IPAM persisted does not fit what was requested: that is C08's subject, not C13's; do not judge
			run.Count("pods_truth_unusable", 1)
			run.Sample(map[string]interface{}{"truth_unusable": p, "fresh": fresh, "config": w.ConfText})
			continue
		}
		// --- galaxy side
		gp := obj.DeepCopy()
		for k, v := range ann {
			gp.Annotations[k] = v
		}
		gp.Spec.NodeName = p.Node
		if err := d.addPod(gp); err != nil {
			run.Inconclusive("galaxy pod: " + err.Error())
			return
		}
		n := atomicNext()
		cid := fmt.Sprintf("%s%d", env.cidPrefix, n)
		req := cniRequest{Command: "ADD", ContainerID: cid, IfName: "eth0", NetNS: "/var/run/netns/" + cid, PodNS: p.NS, PodName: p.Name}
		status, body, err := d.send(&req)
		if err != nil {
			run.Inconclusive("http: " + err.Error())
			return
		}
		recs, err := rd.next()
		if err != nil {
			run.Inconclusive("plugin log: " + err.Error())
			return
		}
		wit := func(extra map[string]interface{}) map[string]interface{} {
			m := map[string]interface{}{"ipam_config_text": w.ConfText, "pod": p, "node": p.Node, "binding_annotation": ann,
				"floatingip_objects_created": u32s(fresh), "expected_at_plugin": want, "galaxy_config": gcfg.JSONText,
				"http_status": status, "http_body": body}
			for k, v := range extra {
				m[k] = v
			}
			return m
		}
		if status != 200 || len(recs) == 0 {
			c13Violate(run, evid.Violation{Sig: "bound-pod-add-fails-or-reaches-no-plugin", Case: caseID,
				Msg:     fmt.Sprintf("ADD for bound pod %s/%s: status %d, %d plugin invocations", p.NS, p.Name, status, len(recs)),
				Witness: wit(nil)})
		}
		nAdd := 0
		for _, rec := range recs {
			if rec.Command != "ADD" {
				continue
			}
			nAdd++
			vlans, results, derr := cniipam.Allocate("", &skel.CmdArgs{Args: rec.Args})
			if derr != nil {
				c13Violate(run, evid.Violation{Sig: "plugin-decoder-rejects-daemon-args", Case: caseID,
					Msg:     fmt.Sprintf("cni/ipam.Allocate cannot decode CNI_ARGS %q: %v", rec.Args, derr),
					Witness: wit(map[string]interface{}{"cni_args": rec.Args, "plugin": rec.Type})})
				continue
			}
			var got []expIP
			for i := range results {
				r, ok := results[i].(*t020.Result)
				if !ok || r.IP4 == nil {
					got = append(got, expIP{IP: fmt.Sprintf("<non-020 result %T>", results[i])})
					continue
				}
				ones, _ := r.IP4.IP.Mask.Size()
				got = append(got, expIP{IP: r.IP4.IP.IP.String(), Prefix: ones, Gateway: r.IP4.Gateway.String(), Vlan: int(vlans[i])})
			}
			sig := ""
			switch {
			case len(got) != len(want):
				sig = "plugin-sees-different-number-of-ips-than-allocated"
			default:
				for i := range want {
					if got[i] == want[i] {
						continue
					}
					switch {
					case got[i].IP != want[i].IP && sameIPSet(got, want):
						sig = "plugin-sees-allocated-ips-in-different-order-than-requested"
					case got[i].IP != want[i].IP:
						sig = "plugin-sees-ip-that-was-not-allocated"
					case got[i].Prefix != want[i].Prefix:
						sig = "plugin-sees-wrong-prefix-length"
					case got[i].Gateway != want[i].Gateway:
						sig = "plugin-sees-wrong-gateway"
					default:
						sig = "plugin-sees-wrong-vlan"
					}
					break
				}
			}
			if sig != "" {
				c13Violate(run, evid.Violation{Sig: sig, Case: caseID,
					Msg: fmt.Sprintf("pod %s/%s plugin %s decoded %v from CNI_ARGS, truth (FloatingIP objects + input pool config) is %v",
						p.NS, p.Name, rec.Type, got, want),
					Witness: wit(map[string]interface{}{"cni_args": rec.Args, "plugin": rec.Type, "decoded_at_plugin": got})})
			}
			run.Count("plugins_decoded", 1)
			if nAdd > 1 {
				run.Count("plugins_decoded_secondary_network", 1)
			}
		}
		if nAdd > 0 {
			run.Count("pods_checked_at_plugin", 1)
			run.Count(fmt.Sprintf("pods_k%d", len(want)), 1)
			if len(p.Requests) == 0 {
				run.Count("pods_unranged", 1)
			}
			if len(p.Stale) > 0 {
				run.Count("pods_with_stale_ipinfos_in_annotation_checked", 1)
				if len(p.Requests) == 0 {
					run.Count("pods_with_stale_ipinfos_unranged_checked", 1)
				} else {
					run.Count("pods_with_stale_ipinfos_ranged_checked", 1)
				}
			}
			pools := map[string]bool{}
			for _, e := range want {
				run.Nontrivial(fmt.Sprintf("mask=%d|vlan=%d|k=%d", e.Prefix, e.Vlan, len(want)))
				pools[fmt.Sprintf("%d/%s/%d", e.Prefix, e.Gateway, e.Vlan)] = true
				run.Count("ips_checked", 1)
				switch e.Vlan {
				case 0:
					run.Count("vlan_zero_checked", 1)
				case 4094:
					run.Count("vlan_max_checked", 1)
				}
				switch e.Prefix {
				case 30:
					run.Count("mask_30_checked", 1)
				case 16:
					run.Count("mask_16_checked", 1)
				}
			}
			if len(pools) > 1 {
				run.Count("pods_spanning_pools", 1)
			}
			if pi < 2 && widx < 3 {
				run.Sample(map[string]interface{}{"pod": p, "binding_annotation": ann[extArgsAnnotation], "expected_at_plugin": want,
					"plugins": len(recs)})
			}
		}
		// tear down the galaxy side (the IPs stay allocated: later pods must not get them)
		req.Command = "DEL"
		if _, _, err := d.send(&req); err != nil {
			run.Inconclusive("http: " + err.Error())
			return
		}
		if _, err := rd.next(); err != nil {
			run.Inconclusive("plugin log: " + err.Error())
			return
		}
		env.removeState(cid)
		d.delPod(p.NS, p.Name)
	}
}

func atomicNext() int64 {
	cidMu.Lock()
	defer cidMu.Unlock()
	cidSeq++
	return cidSeq
}

var (
	cidMu  sync.Mutex
	cidSeq int64
)

func u32s(v []uint32) []string {
	var out []string
	for _, u := range v {
		out = append(out, u32ip(u))
	}
	sort.Strings(out)
	return out
}

func sameIPSet(a, b []expIP) bool {
	if len(a) != len(b) {
		return false
	}
	m := map[string]int{}
	for _, x := range a {
		m[x.IP]++
	}
	for _, x := range b {
		m[x.IP]--
	}
	for _, v := range m {
		if v != 0 {
			return false
		}
	}
	return true
}

func c13Violate(run *evid.Run, v evid.Violation) {
	run.Count("viol_"+v.Sig, 1)
	violateCapped(run, v, 8)
}

// reasonClass condenses an IPAM refusal into a counter name.
func reasonClass(msg string, unranged bool) string {
	kind := "ranged"
	if unranged {
		kind = "unranged"
	}
	switch {
	case strings.Contains(msg, "NoFIPLeft"), strings.Contains(msg, "no enough"), strings.Contains(msg, "not enough"),
		strings.Contains(msg, "no available"):
		return kind + "_no_ip_left"
	default:
		var b strings.Builder
		for _, c := range msg {
			if b.Len() >= 48 {
				break
			}
			if (c >= 'a' && c <= 'z') || (c >= 'A' && c <= 'Z') || (c >= '0' && c <= '9') {
				b.WriteRune(c)
			} else {
				b.WriteByte('_')
			}
		}
		return kind + "_" + b.String()
	}
}
