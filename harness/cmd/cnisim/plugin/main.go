// Command plugin is the recording fake CNI plugin of engine cnisim. One binary, hard-linked under every network
// *type* name into a per-run CNI_PATH directory <run>/bin; its state lives in the sibling directory <run>/state:
//
//	state/lock            flock()ed for the whole invocation body; holds the per-run sequence counter
//	state/log.jsonl       one JSON line per invocation (O_APPEND, written while holding the lock)
//	state/plan/<cid>.json {"<type>|<CNI_COMMAND>": n}  => fail the next n such invocations for that container
//
// On success (ADD) it prints a CNI result in the version family selected by the config's cniVersion (0.3.x/0.4.x =>
// "current" format, anything else => 0.2.0 format) with an IPv4 that is unique to (container, type) and a
// dns.domain marker "inv-<seq>.<containerID>" that is unique to the invocation. On a planned failure it prints a
// CNI error JSON and exits 1. It is stdlib-only so that it can be built stand-alone.
package main

import (
	"encoding/json"
	"fmt"
	"io/ioutil"
	"os"
	"path/filepath"
	"strconv"
	"strings"
	"syscall"
)

type record struct {
	Seq         int64  `json:"seq"`
	Type        string `json:"type"`
	Command     string `json:"command"`
	ContainerID string `json:"container_id"`
	IfName      string `json:"ifname"`
	NetNS       string `json:"netns"`
	Args        string `json:"args"`
	Path        string `json:"path"`
	Stdin       string `json:"stdin"`
	Failed      bool   `json:"failed"`
	IP          string `json:"ip,omitempty"`
}

func die(code int, msg string) {
	out, _ := json.Marshal(map[string]interface{}{"cniVersion": "0.2.0", "code": code, "msg": msg})
	os.Stdout.Write(out)
	os.Exit(1)
}

func trailingNumber(s string) int {
	i := len(s)
	for i > 0 && s[i-1] >= '0' && s[i-1] <= '9' {
		i--
	}
	n, _ := strconv.Atoi(s[i:])
	return n
}

func main() {
	typ := filepath.Base(os.Args[0])
	stateDir := filepath.Join(filepath.Dir(filepath.Dir(os.Args[0])), "state")
	stdin, _ := ioutil.ReadAll(os.Stdin)
	cmd := os.Getenv("CNI_COMMAND")
	if cmd == "VERSION" {
		fmt.Print(`{"cniVersion":"0.4.0","supportedVersions":["0.1.0","0.2.0","0.3.0","0.3.1","0.4.0"]}`)
		return
	}
	rec := record{Type: typ, Command: cmd, ContainerID: os.Getenv("CNI_CONTAINERID"), IfName: os.Getenv("CNI_IFNAME"),
		NetNS: os.Getenv("CNI_NETNS"), Args: os.Getenv("CNI_ARGS"), Path: os.Getenv("CNI_PATH"), Stdin: string(stdin)}

	lock, err := os.OpenFile(filepath.Join(stateDir, "lock"), os.O_RDWR|os.O_CREATE, 0644)
	if err != nil {
		die(100, "fake plugin: cannot open lock: "+err.Error())
	}
	if err := syscall.Flock(int(lock.Fd()), syscall.LOCK_EX); err != nil {
		die(100, "fake plugin: flock: "+err.Error())
	}
	// sequence number
	buf := make([]byte, 32)
	n, _ := lock.ReadAt(buf, 0)
	seq, _ := strconv.ParseInt(strings.TrimSpace(string(buf[:n])), 10, 64)
	seq++
	rec.Seq = seq
	if _, err := lock.WriteAt([]byte(fmt.Sprintf("%-20d\n", seq)), 0); err != nil {
		die(100, "fake plugin: write seq: "+err.Error())
	}
	// failure plan
	planPath := filepath.Join(stateDir, "plan", rec.ContainerID+".json")
	if data, err := ioutil.ReadFile(planPath); err == nil {
		plan := map[string]int{}
		if json.Unmarshal(data, &plan) == nil {
			key := typ + "|" + cmd
			if plan[key] > 0 {
				plan[key]--
				rec.Failed = true
				out, _ := json.Marshal(plan)
				if err := ioutil.WriteFile(planPath, out, 0644); err != nil {
					die(100, "fake plugin: write plan: "+err.Error())
				}
			}
		}
	}
	var conf struct {
		CNIVersion string `json:"cniVersion"`
	}
	_ = json.Unmarshal(stdin, &conf)
	cn := trailingNumber(rec.ContainerID)
	tn := trailingNumber(typ)
	ip := fmt.Sprintf("10.%d.%d.%d", (cn>>8)&0xff, cn&0xff, 10+tn%240)
	gw := fmt.Sprintf("10.%d.%d.1", (cn>>8)&0xff, cn&0xff)
	if !rec.Failed && cmd == "ADD" {
		rec.IP = ip
	}
	line, _ := json.Marshal(rec)
	line = append(line, '\n')
	lf, err := os.OpenFile(filepath.Join(stateDir, "log.jsonl"), os.O_WRONLY|os.O_APPEND|os.O_CREATE, 0644)
	if err != nil {
		die(100, "fake plugin: open log: "+err.Error())
	}
	if _, err := lf.Write(line); err != nil {
		die(100, "fake plugin: write log: "+err.Error())
	}
	lf.Close()
	_ = syscall.Flock(int(lock.Fd()), syscall.LOCK_UN)
	lock.Close()

	if rec.Failed {
		die(11, fmt.Sprintf("planned failure seq=%d type=%s cmd=%s container=%s", seq, typ, cmd, rec.ContainerID))
	}
	if cmd != "ADD" {
		return
	}
	marker := fmt.Sprintf("inv-%d.%s", seq, rec.ContainerID)
	var res map[string]interface{}
	if strings.HasPrefix(conf.CNIVersion, "0.3.") || strings.HasPrefix(conf.CNIVersion, "0.4.") {
		res = map[string]interface{}{
			"cniVersion": conf.CNIVersion,
			"interfaces": []map[string]interface{}{{"name": rec.IfName, "sandbox": rec.NetNS}},
			"ips": []map[string]interface{}{{"version": "4", "interface": 0, "address": ip + "/24",
				"gateway": gw}},
			"routes": []map[string]interface{}{{"dst": "0.0.0.0/0"}},
			"dns":    map[string]interface{}{"domain": marker},
		}
	} else {
		v := conf.CNIVersion
		if v == "" {
			v = "0.1.0"
		}
		res = map[string]interface{}{
			"cniVersion": v,
			"ip4": map[string]interface{}{"ip": ip + "/24", "gateway": gw,
				"routes": []map[string]interface{}{{"dst": "0.0.0.0/0"}}},
			"dns": map[string]interface{}{"domain": marker},
		}
	}
	out, _ := json.Marshal(res)
	os.Stdout.Write(out)
}
