package main

// C12 monitors and workloads: sequence monitor (model vs plugin log), status monitor, isolation monitor.

import (
	"encoding/json"
	"fmt"
	"math/rand"
	"os"
	"strings"
	"sync"
	"sync/atomic"

	"tkestack.io/galaxy/pkg/api/k8s"
	"verif/harness/evid"
)

// ctr is one container under test, with its model state.
type ctr struct {
	cid     string
	pod     *podModel
	netns   string
	state   *ctrState
	steps   []stepRec
	podLive bool
}

// stepRec is one request in a witness.
type stepRec struct {
	Request   cniRequest     `json:"request"`
	Plan      map[string]int `json:"failure_plan,omitempty"`
	Expected  []expInv       `json:"expected_invocations"`
	ExpectOK  bool           `json:"expected_success"`
	Status    int            `json:"http_status"`
	Body      string         `json:"http_body,omitempty"`
	Observed  []obsInv       `json:"observed_invocations"`
	StateFile []string       `json:"state_file_after"`
}

type obsInv struct {
	Seq    int64  `json:"seq"`
	Cmd    string `json:"cmd"`
	Type   string `json:"type"`
	IfName string `json:"ifname"`
	Failed bool   `json:"failed"`
	Args   string `json:"args"`
	Stdin  string `json:"stdin"`
}

// checker drives one daemon and evaluates every request.
type checker struct {
	run        *evid.Run
	env        *runEnv
	d          *daemon
	rd         *logReader // sequential mode only
	concurrent bool
	phase      string
	histMu     sync.Mutex
	hist       []string // compact daemon-level history (what earlier requests did), for isolation witnesses
	journal    func(v interface{})
}

var cidCounter int64

var (
	sigMu   sync.Mutex
	sigSeen = map[string]int{}
)

// violateCapped forwards at most limit witnesses per signature (all occurrences are counted by the callers).
func violateCapped(run *evid.Run, v evid.Violation, limit int) {
	sigMu.Lock()
	sigSeen[v.Sig]++
	n := sigSeen[v.Sig]
	sigMu.Unlock()
	if n <= limit {
		run.Violate(v)
	}
}

func (k *checker) newCtr(p *podModel) *ctr {
	n := atomic.AddInt64(&cidCounter, 1)
	cid := fmt.Sprintf("%s%d", k.env.cidPrefix, n)
	return &ctr{cid: cid, pod: p, netns: "/var/run/netns/" + cid}
}

func (k *checker) addHist(s string) {
	k.histMu.Lock()
	k.hist = append(k.hist, s)
	if len(k.hist) > 400 {
		k.hist = k.hist[len(k.hist)-400:]
	}
	k.histMu.Unlock()
}

func (k *checker) histCopy() []string {
	k.histMu.Lock()
	defer k.histMu.Unlock()
	return append([]string{}, k.hist...)
}

type witness struct {
	Phase       string      `json:"phase"`
	Config      *staticConf `json:"daemon_config"`
	Pod         *podModel   `json:"pod"`
	ContainerID string      `json:"container_id"`
	Steps       []stepRec   `json:"steps_of_this_container"`
	Failing     string      `json:"failing_observation"`
	Earlier     []string    `json:"earlier_requests_on_this_daemon"`
}

func (k *checker) violate(c *ctr, sig, msg, caseID string) {
	w := witness{Phase: k.phase, Config: k.d.cfg, Pod: c.pod, ContainerID: c.cid, Steps: c.steps, Failing: msg,
		Earlier: k.histCopy()}
	k.run.Count("viol_"+sig, 1)
	// a root cause like S4 fires on hundreds of requests; forward only the first few witnesses per signature so that the
	// evidence file's cap on full witnesses cannot crowd out a different signature seen later
	violateCapped(k.run, evid.Violation{Sig: sig, Msg: msg, Witness: w, Case: caseID}, 4)
}

func copyPlan(p map[string]int) map[string]int {
	o := map[string]int{}
	for k, v := range p {
		o[k] = v
	}
	return o
}

// do issues one request for container c and runs all monitors on it. Returns false if the harness itself failed.
func (k *checker) do(c *ctr, cmd, ifname string, plan map[string]int, caseID string) bool {
	run := k.run
	req := cniRequest{Command: cmd, ContainerID: c.cid, IfName: ifname, NetNS: c.netns, PodNS: c.pod.NS, PodName: c.pod.Name}
	// ---- model
	var exp []expInv
	var expOK bool
	var newState *ctrState
	stateKind := "none"
	if c.state != nil {
		stateKind = c.state.Kind
	}
	unknownAt := -1
	mplan := copyPlan(plan)
	if cmd == "ADD" {
		var list []netEntry
		list, unknownAt = resolve(c.pod, k.d.cfg, ifname)
		if unknownAt >= 0 {
			exp, expOK, newState = nil, false, c.state
		} else {
			exp, expOK, newState = simAdd(list, mplan)
		}
	} else {
		exp, expOK, newState = simDel(c.state, mplan)
	}
	// ---- real code
	if err := k.env.setPlan(c.cid, plan); err != nil {
		run.Inconclusive("cannot write plan: " + err.Error())
		return false
	}
	if k.journal != nil {
		k.journal(map[string]interface{}{"case": caseID, "request": req, "plan": plan, "pod": c.pod})
	}
	status, body, err := k.d.send(&req)
	if err != nil {
		run.Inconclusive("http request failed: " + err.Error())
		return false
	}
	var got []invRec
	if k.concurrent {
		got, err = k.rd.nextFor(c.cid)
	} else {
		got, err = k.rd.next()
	}
	if err != nil {
		run.Inconclusive("plugin log unreadable: " + err.Error())
		return false
	}
	step := stepRec{Request: req, Plan: plan, Expected: exp, ExpectOK: expOK, Status: status, StateFile: stateFile(c.cid)}
	if status != 200 {
		step.Body = body
	}
	for _, g := range got {
		step.Observed = append(step.Observed, obsInv{Seq: g.Seq, Cmd: g.Command, Type: g.Type, IfName: g.IfName,
			Failed: g.Failed, Args: g.Args, Stdin: g.Stdin})
	}
	c.steps = append(c.steps, step)
	defer func() {
		c.state = newState
		k.addHist(fmt.Sprintf("%s %s pod=%s/%s nets=%s status=%d invoked=%s", cmd, c.cid, c.pod.NS, c.pod.Name,
			c.pod.NetAnnotation, status, seqString(got)))
	}()

	run.Eval(1)
	run.Count("requests_"+strings.ToLower(cmd), 1)
	run.Count("plugin_invocations", int64(len(got)))
	if k.concurrent {
		run.Count("concurrent_requests", 1)
	}

	// ---- foreign invocations (sequential mode: nothing else is in flight)
	for _, g := range got {
		if g.ContainerID != c.cid {
			k.violate(c, "plugin-invoked-for-container-without-request-in-flight",
				fmt.Sprintf("%s for %s: plugin %s got %s for container %s", cmd, c.cid, g.Type, g.Command, g.ContainerID), caseID)
			return true
		}
	}

	// ---- sequence monitor
	seqOK := true
	if unknownAt >= 0 {
		run.Count("add_unknown_network", 1)
		// the property does not say how far galaxy may get before noticing; accept nothing invoked, or a paired
		// ADD 0..k-1 / DEL k-1..0 over the networks before the unknown one.
		if len(got) != 0 {
			list, _ := resolve(c.pod, k.d.cfg, ifname)
			alt := []expInv{}
			for i := range list {
				alt = append(alt, expInv{Cmd: "ADD", Type: list[i].Type, IfName: list[i].IfName})
			}
			for i := len(list) - 1; i >= 0; i-- {
				alt = append(alt, expInv{Cmd: "DEL", Type: list[i].Type, IfName: list[i].IfName})
			}
			if !sameSeq(alt, got) {
				k.violate(c, "add-with-unknown-network-leaves-unpaired-invocations",
					fmt.Sprintf("ADD %s names unknown network at index %d; observed %s", c.cid, unknownAt, seqString(got)), caseID)
			}
		}
		if status == 200 {
			k.violate(c, "add-succeeds-with-unknown-network", fmt.Sprintf("ADD %s status 200 although network #%d is not configured",
				c.cid, unknownAt), caseID)
		}
		return true
	}
	if !sameSeq(exp, got) {
		seqOK = false
		sig := k.classifySeq(cmd, stateKind, exp, got)
		k.violate(c, sig, fmt.Sprintf("%s %s (state before: %s): expected %s, observed %s", cmd, c.cid, stateKind,
			expString(exp), seqString(got)), caseID)
	} else {
		for i := range exp {
			if exp[i].Fails != got[i].Failed {
				run.Inconclusive(fmt.Sprintf("failure plan diverged between model and plugin at %s %s #%d", cmd, c.cid, i))
				return false
			}
		}
	}
	// ---- status monitor
	if expOK && status != 200 && cmd == "ADD" && len(c.pod.Ports) > 0 && strings.Contains(body, "cannot open hostport") {
		// another process took the probed-free port meanwhile: environment, not behaviour (networks stay established)
		run.Count("concurrent_add_hostport_taken_by_other_process", 1)
	} else if expOK && status != 200 {
		k.violate(c, strings.ToLower(cmd)+"-fails-without-plugin-failure",
			fmt.Sprintf("%s %s: no plugin failed but HTTP status %d: %s", cmd, c.cid, status, body), caseID)
	} else if !expOK && status == 200 {
		k.violate(c, strings.ToLower(cmd)+"-succeeds-despite-plugin-failure",
			fmt.Sprintf("%s %s: a plugin failed but HTTP status 200", cmd, c.cid), caseID)
	}
	// ---- evidence of the situations the property is about
	k.countShapes(c, cmd, stateKind, exp, expOK, got, seqOK)
	// ---- isolation monitor
	if seqOK {
		k.isolation(c, &req, cmd, exp, got, caseID)
	}
	return true
}

func (k *checker) countShapes(c *ctr, cmd, stateKind string, exp []expInv, expOK bool, got []invRec, seqOK bool) {
	run := k.run
	if !seqOK {
		return
	}
	nAdd, nDel, nFail := 0, 0, 0
	for _, e := range exp {
		if e.Cmd == "ADD" {
			nAdd++
			if e.Index > 0 {
				if e.entry.IfName == fmt.Sprintf("eth%d", e.Index) {
					run.Count("ifname_default_ethN_checked", 1)
				} else {
					run.Count("ifname_from_annotation_checked", 1)
				}
			} else {
				run.Count("ifname_kubelet_checked", 1)
			}
		} else {
			nDel++
		}
		if e.Fails {
			nFail++
			run.Count("injected_"+strings.ToLower(e.Cmd)+"_failures_hit", 1)
		}
	}
	if cmd == "ADD" {
		run.Count("add_form_"+c.pod.Form, 1)
		if c.pod.Form == "none" {
			if c.pod.WantENI && k.d.cfg.ENI != "" {
				run.Count("add_eni_network_selected", 1)
			} else {
				run.Count("add_default_networks_selected", 1)
			}
		}
		run.Max("max_networks_per_pod", int64(nAdd+0))
		if !expOK {
			run.Count("add_rollbacks_observed", 1)
			if nDel > 1 {
				run.Count("add_rollbacks_multi_del", 1)
			}
		} else if nAdd > 1 {
			run.Count("add_multi_network_ok", 1)
		}
	} else {
		switch stateKind {
		case "none":
			run.Count("del_without_state_noop_observed", 1)
		case "add":
			if nDel > 1 {
				run.Count("del_reverse_multi_observed", 1)
			}
		case "failed-dels":
			run.Count("del_retry_of_failed_observed", 1)
			if nDel > 1 {
				run.Count("del_retry_multi_observed", 1)
			}
		}
	}
}

func sameSeq(exp []expInv, got []invRec) bool {
	if len(exp) != len(got) {
		return false
	}
	for i := range exp {
		if exp[i].Cmd != got[i].Command || exp[i].Type != got[i].Type || exp[i].IfName != got[i].IfName {
			return false
		}
	}
	return true
}

func (k *checker) classifySeq(cmd, stateKind string, exp []expInv, got []invRec) string {
	// is it only interface names?
	if len(exp) == len(got) {
		only := true
		first := -1
		for i := range exp {
			if exp[i].Cmd != got[i].Command || exp[i].Type != got[i].Type {
				only = false
				break
			}
			if exp[i].IfName != got[i].IfName && first < 0 {
				first = i
			}
		}
		if only && first >= 0 {
			if exp[first].Index == 0 {
				return strings.ToLower(cmd) + "-first-network-not-on-kubelet-ifname"
			}
			return strings.ToLower(cmd) + "-secondary-network-ifname-mismatch"
		}
	}
	if cmd == "ADD" {
		nAdd := 0
		for _, e := range exp {
			if e.Cmd == "ADD" {
				nAdd++
			}
		}
		// does the ADD prefix agree?
		prefixOK := len(got) >= nAdd
		for i := 0; prefixOK && i < nAdd; i++ {
			if got[i].Command != "ADD" || got[i].Type != exp[i].Type {
				prefixOK = false
			}
		}
		if !prefixOK {
			return "add-invokes-wrong-plugin-set-or-order"
		}
		if len(exp) == nAdd {
			return "add-invokes-extra-plugins-after-success"
		}
		return "add-rollback-del-sequence-mismatch"
	}
	switch stateKind {
	case "none":
		return "del-without-state-invokes-plugins"
	case "failed-dels":
		if len(got) == 0 {
			return "del-retry-skips-previously-failed-dels"
		}
		if sameMultiset(exp, got) {
			return "del-retry-not-in-reverse-order"
		}
		return "del-retry-set-mismatch-after-failed-dels"
	default:
		if sameMultiset(exp, got) {
			return "del-not-in-reverse-add-order"
		}
		return "del-plugin-set-mismatch"
	}
}

func sameMultiset(exp []expInv, got []invRec) bool {
	if len(exp) != len(got) {
		return false
	}
	m := map[string]int{}
	for _, e := range exp {
		m[e.Cmd+"|"+e.Type+"|"+e.IfName]++
	}
	for _, g := range got {
		m[g.Command+"|"+g.Type+"|"+g.IfName]--
	}
	for _, v := range m {
		if v != 0 {
			return false
		}
	}
	return true
}

func expString(exp []expInv) string {
	var s []string
	for _, e := range exp {
		f := ""
		if e.Fails {
			f = "!"
		}
		s = append(s, fmt.Sprintf("%s:%s@%s%s", e.Cmd, e.Type, e.IfName, f))
	}
	return "[" + strings.Join(s, " ") + "]"
}

func seqString(got []invRec) string {
	var s []string
	for _, g := range got {
		f := ""
		if g.Failed {
			f = "!"
		}
		s = append(s, fmt.Sprintf("%s:%s@%s%s", g.Command, g.Type, g.IfName, f))
	}
	return "[" + strings.Join(s, " ") + "]"
}

// isolation: what each plugin received is recomputed from (pod, static config, this request) alone.
func (k *checker) isolation(c *ctr, req *cniRequest, cmd string, exp []expInv, got []invRec, caseID string) {
	run := k.run
	conc := ""
	if k.concurrent {
		conc = "-concurrent"
	}
	for i, g := range got {
		e := exp[i]
		run.Count("isolation_checks", 1)
		if g.NetNS != req.NetNS || g.ContainerID != req.ContainerID || g.Path != k.d.expectedPath() {
			k.violate(c, "plugin-env-differs-from-request"+conc, fmt.Sprintf("%s %s #%d %s: netns=%q path=%q, want netns=%q path=%q",
				cmd, c.cid, i, g.Type, g.NetNS, g.Path, req.NetNS, k.d.expectedPath()), caseID)
		}
		if !argsMatch(g.Args, req.baseArgs(), e.Groups, e.nGroup) {
			k.violate(c, "cni-args-not-derived-from-pod-alone"+conc, fmt.Sprintf("%s %s #%d %s: CNI_ARGS=%q, want base %q + groups %v (sizes %v)",
				cmd, c.cid, i, g.Type, g.Args, req.baseArgs(), e.Groups, e.nGroup), caseID)
		} else if len(e.Groups) > 0 {
			run.Count("cni_args_with_extended_args_checked", 1)
		}
		var m map[string]interface{}
		if err := json.Unmarshal([]byte(g.Stdin), &m); err != nil {
			k.violate(c, "plugin-stdin-not-json"+conc, fmt.Sprintf("%s %s #%d %s: stdin %q: %v", cmd, c.cid, i, g.Type, g.Stdin, err), caseID)
			continue
		}
		prev, hasPrev := m["prevResult"]
		delete(m, "prevResult")
		if canonJSON(m) != canonJSON(e.entry.Net.Conf) {
			k.violate(c, "plugin-stdin-differs-from-static-config"+conc, fmt.Sprintf("%s %s #%d %s (%s): stdin %s, static config %s",
				cmd, c.cid, i, g.Type, e.entry.Net.Source, canonJSON(m), canonJSON(e.entry.Net.Conf)), caseID)
		} else {
			run.Count("stdin_conf_checked_"+strings.Split(e.entry.Net.Source, ".")[0], 1)
		}
		// prevResult: only the result produced in THIS request by the previous delegate is legitimate (ADD);
		// a DEL may carry nothing or this container's own result.
		wantMarker := ""
		if cmd == "ADD" && e.Cmd == "ADD" && i > 0 {
			wantMarker = fmt.Sprintf("inv-%d.%s", got[i-1].Seq, c.cid)
		}
		if !hasPrev {
			if wantMarker != "" {
				run.Count("prevresult_absent_on_secondary_add", 1)
			}
			continue
		}
		marker := markerOf(prev)
		if wantMarker != "" && marker == wantMarker {
			run.Count("prevresult_from_this_request_checked", 1)
			continue
		}
		owner := marker
		if j := strings.Index(marker, "."); j >= 0 {
			owner = marker[j+1:]
		}
		shared := "shared-netconf"
		if !e.entry.Net.shared() {
			shared = "file-netconf"
		}
		var sig string
		switch {
		case owner != c.cid && e.Cmd == "ADD" && k.concurrent:
			sig = "prevresult-crossed-between-concurrent-requests-via-" + shared
		case owner != c.cid && e.Cmd == "ADD":
			sig = "prevresult-leaks-across-requests-via-" + shared
		case owner != c.cid:
			sig = "foreign-prevresult-in-del-stdin-via-" + shared + conc
		case e.Cmd == "ADD":
			sig = "stale-own-prevresult-in-add-stdin-via-" + shared + conc
		default:
			// DEL carrying this container's own earlier result: depends on this pod only; allowed.
			run.Count("del_with_own_prevresult", 1)
			continue
		}
		k.violate(c, sig, fmt.Sprintf("%s %s: plugin %s (network %s, index %d, %s of this request) received prevResult %q on stdin; "+
			"legitimate would be %s", cmd, c.cid, g.Type, e.Net, e.Index, e.Cmd, marker, orNone(wantMarker)), caseID)
	}
}

func orNone(s string) string {
	if s == "" {
		return "none"
	}
	return s
}

func markerOf(prev interface{}) string {
	m, ok := prev.(map[string]interface{})
	if !ok {
		return fmt.Sprintf("<non-object prevResult %v>", prev)
	}
	dns, _ := m["dns"].(map[string]interface{})
	d, _ := dns["domain"].(string)
	if d == "" {
		return fmt.Sprintf("<prevResult without marker %s>", canonJSON(prev))
	}
	return d
}

// ---------------------------------------------------------------------------------------------------------------
// workloads

func (k *checker) ensurePod(c *ctr) bool {
	if c.podLive {
		return true
	}
	if err := k.d.addPod(c.pod.object()); err != nil {
		k.run.Inconclusive("cannot add pod to fake client: " + err.Error())
		return false
	}
	c.podLive = true
	return true
}

// drain issues clean DELs until the model says the state is gone, then one more (must be a no-op); removes files.
func (k *checker) drain(c *ctr, caseID string) {
	for i := 0; i < 2 && c.state != nil; i++ {
		if !k.do(c, "DEL", "eth0", nil, caseID+":drain") {
			break
		}
	}
	k.env.removeState(c.cid)
	if c.podLive {
		k.d.delPod(c.pod.NS, c.pod.Name)
		c.podLive = false
	}
}

func typesOf(list []netEntry) []string {
	var t []string
	for _, e := range list {
		t = append(t, e.Type)
	}
	return t
}

// phaseSequentialIsolation: A=[n1,n2] then B=[n2] (and friends) over the same daemon.
func phaseSequentialIsolation(run *evid.Run, env *runEnv, variants int) {
	for v := 0; v < variants; v++ {
		rng := run.Rng("c12-seqiso", v)
		o := confOpts{nNets: 2 + rng.Intn(3), distinctTypes: true}
		switch v % 3 {
		case 0:
			o.sharedOnly = true
		case 1:
			o.filesOnly = true
		}
		cfg := genStaticConf(rng, o)
		d, err := newDaemon(env, cfg, fmt.Sprintf("iso%d", v))
		if err != nil {
			run.Inconclusive("daemon: " + err.Error())
			return
		}
		k := &checker{run: run, env: env, d: d, rd: &logReader{path: env.logPath}, phase: "sequential-isolation"}
		k.rd.off = fileSize(env.logPath)
		n1, n2 := cfg.Nets[0].Name, cfg.Nets[1].Name
		caseID := fmt.Sprintf("%d:seqiso:%d", run.Seed, v)
		form := []string{"comma", "json"}[v%2]
		mk := func(idx int, sel ...string) *ctr {
			p := genPod(rng, cfg, 1000*v+idx, podOpts{maxN: 4, forceForm: form, forceSel: sel})
			return k.newCtr(p)
		}
		a := mk(1, n1, n2)
		b := mk(2, n2)
		cc := mk(3, n2, n1)
		e := mk(4, n1)
		all := []*ctr{a, b, cc, e}
		okAll := true
		for _, c := range all {
			if !k.ensurePod(c) || !k.do(c, "ADD", "eth0", nil, caseID) {
				okAll = false
				break
			}
		}
		if okAll {
			run.Nontrivial(fmt.Sprintf("seqiso|%s|%s|%s", cfg.Nets[0].Source, cfg.Nets[1].Source, form))
			run.Count("sequential_isolation_scenarios", 1)
			if cfg.Nets[1].shared() {
				run.Count("sequential_isolation_scenarios_shared_second_network", 1)
			}
		}
		// a second round over the same containers' networks by fresh containers, then DEL everything
		f := mk(5, n1, n2)
		if k.ensurePod(f) {
			k.do(f, "ADD", "eth0", nil, caseID)
		}
		for _, c := range append(all, f) {
			k.drain(c, caseID)
		}
		run.Sample(map[string]interface{}{"phase": k.phase, "A": a.pod.NetAnnotation, "B": b.pod.NetAnnotation,
			"sources": []string{cfg.Nets[0].Source, cfg.Nets[1].Source}})
		d.close()
	}
}

func fileSize(p string) int64 {
	st, err := os.Stat(p)
	if err != nil {
		return 0
	}
	return st.Size()
}

// phaseEnumeration: all 2^N ADD failure patterns (with every rollback-DEL failure pattern over the plugins that get
// rolled back) and all DEL failure patterns over two consecutive DELs, N <= 3.
func phaseEnumeration(run *evid.Run, env *runEnv, variants int) {
	for v := 0; v < variants; v++ {
		rng := run.Rng("c12-enum", v)
		o := confOpts{nNets: 3 + rng.Intn(2), distinctTypes: true}
		if v%2 == 1 {
			o.filesOnly = true // no shared maps: keeps the sequence monitor's evidence independent of S4
		}
		cfg := genStaticConf(rng, o)
		d, err := newDaemon(env, cfg, fmt.Sprintf("enum%d", v))
		if err != nil {
			run.Inconclusive("daemon: " + err.Error())
			return
		}
		k := &checker{run: run, env: env, d: d, rd: &logReader{path: env.logPath}, phase: "fault-enumeration"}
		k.rd.off = fileSize(env.logPath)
		podIdx := 0
		for n := 1; n <= 3; n++ {
			perm := rng.Perm(len(cfg.Nets))
			var sel []string
			for i := 0; i < n; i++ {
				sel = append(sel, cfg.Nets[perm[i]].Name)
			}
			mk := func() (*ctr, []netEntry) {
				podIdx++
				form := []string{"comma", "json"}[podIdx%2]
				p := genPod(rng, cfg, 100000*v+podIdx, podOpts{maxN: 3, forceForm: form, forceSel: sel})
				c := k.newCtr(p)
				list, _ := resolve(p, cfg, "eth0")
				return c, list
			}
			// ADD patterns
			for addMask := 0; addMask < 1<<uint(n); addMask++ {
				firstFail := -1
				for i := 0; i < n; i++ {
					if addMask&(1<<uint(i)) != 0 {
						firstFail = i
						break
					}
				}
				rbMax := 1
				if firstFail >= 0 {
					rbMax = 1 << uint(firstFail+1)
				}
				for rbMask := 0; rbMask < rbMax; rbMask++ {
					c, list := mk()
					caseID := fmt.Sprintf("%d:enum:%d:N%d:add%b:rb%b", run.Seed, v, n, addMask, rbMask)
					plan := map[string]int{}
					for i := 0; i < n; i++ {
						if addMask&(1<<uint(i)) != 0 {
							plan[list[i].Type+"|ADD"] = 1
						}
						if rbMask&(1<<uint(i)) != 0 {
							plan[list[i].Type+"|DEL"] = 1
						}
					}
					if !k.ensurePod(c) {
						return
					}
					if k.do(c, "ADD", "eth0", plan, caseID) {
						run.Nontrivial(fmt.Sprintf("enum-add|N=%d|add=%b|rb=%b", n, addMask, rbMask))
						run.Count("enum_add_patterns", 1)
					}
					k.do(c, "DEL", "eth0", nil, caseID)
					k.do(c, "DEL", "eth0", nil, caseID)
					k.drain(c, caseID)
				}
			}
			// DEL patterns over two consecutive DELs
			for m1 := 0; m1 < 1<<uint(n); m1++ {
				for m2 := m1; ; m2 = (m2 - 1) & m1 {
					c, list := mk()
					caseID := fmt.Sprintf("%d:enum:%d:N%d:del%b:del%b", run.Seed, v, n, m1, m2)
					if !k.ensurePod(c) {
						return
					}
					p1, p2 := map[string]int{}, map[string]int{}
					for i := 0; i < n; i++ {
						if m1&(1<<uint(i)) != 0 {
							p1[list[i].Type+"|DEL"] = 1
						}
						if m2&(1<<uint(i)) != 0 {
							p2[list[i].Type+"|DEL"] = 1
						}
					}
					if k.do(c, "ADD", "eth0", nil, caseID) {
						if podIdx%3 == 0 { // kubelet may DEL after the pod object is gone
							k.d.delPod(c.pod.NS, c.pod.Name)
							c.podLive = false
						}
						if k.do(c, "DEL", "eth0", p1, caseID) && k.do(c, "DEL", "eth0", p2, caseID) {
							run.Nontrivial(fmt.Sprintf("enum-del|N=%d|del1=%b|del2=%b", n, m1, m2))
							run.Count("enum_del_patterns", 1)
						}
						k.do(c, "DEL", "eth0", nil, caseID)
						k.do(c, "DEL", "eth0", nil, caseID)
					}
					k.drain(c, caseID)
					if m2 == 0 {
						break
					}
				}
			}
		}
		d.close()
	}
}

// randomPlan: each (type, command) of the pod's networks fails with probability ~1/4, once or twice.
func randomPlan(rng *rand.Rand, types []string, heavy bool) map[string]int {
	plan := map[string]int{}
	den := 5
	if heavy {
		den = 3
	}
	for _, t := range types {
		for _, cmd := range []string{"ADD", "DEL"} {
			if rng.Intn(den) == 0 {
				plan[t+"|"+cmd] = 1 + rng.Intn(2)
			}
		}
	}
	return plan
}

// randomOps drives one container through a random ADD/DEL sequence.
func (k *checker) randomOps(rng *rand.Rand, c *ctr, caseID string) {
	ifname := "eth0"
	if rng.Intn(5) == 0 {
		ifname = []string{"ens3", "eth9", "net0"}[rng.Intn(3)]
	}
	list, _ := resolve(c.pod, k.d.cfg, ifname)
	types := typesOf(list)
	nOps := 2 + rng.Intn(4)
	shape := []string{}
	for i := 0; i < nOps; i++ {
		cmd := "DEL"
		if i == 0 || (c.state == nil && rng.Intn(4) != 0) || (c.state != nil && rng.Intn(5) == 0) {
			cmd = "ADD"
		}
		var plan map[string]int
		if rng.Intn(3) != 0 {
			plan = randomPlan(rng, types, i%2 == 0)
		}
		if cmd == "ADD" {
			if !k.ensurePod(c) {
				return
			}
		} else if c.podLive && rng.Intn(4) == 0 {
			k.d.delPod(c.pod.NS, c.pod.Name)
			c.podLive = false
		}
		if !k.do(c, cmd, ifname, plan, caseID) {
			return
		}
		last := c.steps[len(c.steps)-1]
		shape = append(shape, fmt.Sprintf("%s%d/%d", cmd[:1], len(last.Observed), last.Status/100))
	}
	k.run.Nontrivial(fmt.Sprintf("rand|%s|n=%d|eni=%v|%s", c.pod.Form, len(list), c.pod.WantENI, strings.Join(shape, ",")))
	k.drain(c, caseID)
}

// phaseRandom: random configs, pods (all annotation forms, ENI, defaults), op sequences and failure plans.
func phaseRandom(run *evid.Run, env *runEnv, variants, podsPer int) {
	for v := 0; v < variants; v++ {
		rng := run.Rng("c12-rand", v)
		cfg := genStaticConf(rng, confOpts{nNets: 1 + rng.Intn(4), distinctTypes: rng.Intn(2) == 0})
		d, err := newDaemon(env, cfg, fmt.Sprintf("rand%d", v))
		if err != nil {
			run.Inconclusive("daemon: " + err.Error())
			return
		}
		k := &checker{run: run, env: env, d: d, rd: &logReader{path: env.logPath}, phase: "random-exploration"}
		k.rd.off = fileSize(env.logPath)
		for p := 0; p < podsPer; p++ {
			prng := run.Rng("c12-rand-pod", v*100000+p)
			po := podOpts{maxN: 4, allowUnknown: true, allowRepeat: true}
			if p < 2 { // every daemon config sees an un-annotated pod with and without the ENI resource
				po.forceForm, po.forceENI = "none", 1+p
			}
			pod := genPod(prng, cfg, 1000000+v*10000+p, po)
			c := k.newCtr(pod)
			k.randomOps(prng, c, fmt.Sprintf("%d:rand:%d:%d", run.Seed, v, p))
			if p == 0 {
				run.Sample(map[string]interface{}{"phase": k.phase, "pod": pod, "default_networks": cfg.Default,
					"eni_network": cfg.ENI, "steps": len(c.steps)})
			}
		}
		d.close()
	}
}

// coldBursts: the first requests a freshly started daemon serves, all at once. Each burst builds a new daemon whose
// networks all live in conf-dir files (nothing of them is in JsonConf.NetworkConf), releases G goroutines from one
// barrier, and each of them runs ADD + DEL for one pod over the real /cni handler. Whatever the daemon does on the
// first resolution of a network (load, parse, remember) happens here under concurrency; the same sequence / status /
// isolation monitors judge the requests and the race detector watches (C19 runs this binary race-built).
func coldBursts(run *evid.Run, env *runEnv, shard, goroutines int, journal func(v interface{})) {
	bursts := 4
	for b := 0; b < bursts; b++ {
		rng := run.Rng("c12-cold-cfg", shard*100+b)
		cfg := genStaticConf(rng, confOpts{nNets: 6, distinctTypes: true, filesOnly: true})
		pw := newPolWorld()
		d, err := newDaemonPM(env, cfg, fmt.Sprintf("cold%d-%d", shard, b), pw.mk)
		if err != nil {
			run.Inconclusive("daemon (cold burst): " + err.Error())
			return
		}
		journal(map[string]interface{}{"cold_burst": b, "config": cfg})
		pw.pm.VerifFullSync()
		start := make(chan struct{})
		var wg sync.WaitGroup
		for g := 0; g < goroutines; g++ {
			wg.Add(1)
			go func(g int) {
				defer wg.Done()
				k := &checker{run: run, env: env, d: d, rd: &logReader{path: env.logPath}, concurrent: true,
					phase: "concurrent-cold-start", journal: journal}
				idx := ((shard*100+b)*1000 + g) + 7000000
				prng := run.Rng("c12-cold-pod", idx)
				pod := genPod(prng, cfg, idx, podOpts{maxN: 4, forceForm: []string{"comma", "json"}[g%2]})
				pod.NodeName = pw.host
				c := k.newCtr(pod)
				caseID := fmt.Sprintf("%d:cold:%d:%d:%d", run.Seed, shard, b, g)
				if !k.ensurePod(c) {
					return
				}
				<-start
				if !k.do(c, "ADD", "eth0", nil, caseID) {
					return
				}
				run.Count("cold_start_concurrent_adds", 1)
				if !k.do(c, "DEL", "eth0", nil, caseID) {
					return
				}
				k.drain(c, caseID)
			}(g)
		}
		close(start)
		wg.Wait()
		run.Count("cold_start_bursts", 1)
		d.close()
	}
}

// runConcurrent is the body of a child process: G goroutines over one daemon whose networks (mostly) live in the
// shared JsonConf.NetworkConf maps. The daemon of this phase has a real PolicyManager and its port mapping handler
// shares the policy manager's (fake) iptables; about 40% of the pods carry host ports; a further goroutine delivers
// policy / pod events and full syncs meanwhile (see concpm.go). The sequence / status / isolation monitors are the
// same as in the sequential phases.
func runConcurrent(run *evid.Run, env *runEnv, shard, goroutines, rounds int, journal func(v interface{})) {
	coldBursts(run, env, shard, goroutines, journal)
	rng := run.Rng("c12-conc-cfg", shard)
	cfg := genStaticConf(rng, confOpts{nNets: 3 + rng.Intn(2), distinctTypes: true, sharedOnly: shard%4 != 3})
	pw := newPolWorld()
	d, err := newDaemonPM(env, cfg, fmt.Sprintf("conc%d", shard), pw.mk)
	if err != nil {
		run.Inconclusive("daemon: " + err.Error())
		return
	}
	defer d.close()
	journal(map[string]interface{}{"config": cfg})
	pw.pm.VerifFullSync() // what the daemon does at start
	stop, loopDone := make(chan struct{}), make(chan struct{})
	go pw.eventLoop(run, stop, loopDone)
	ledger := &portLedger{}
	var fpMu sync.Mutex
	var fingerprints []string
	var wg sync.WaitGroup
	for g := 0; g < goroutines; g++ {
		wg.Add(1)
		go func(g int) {
			defer wg.Done()
			k := &checker{run: run, env: env, d: d, rd: &logReader{path: env.logPath}, concurrent: true,
				phase: "concurrent", journal: journal}
			do := func(c *ctr, cmd string, plan map[string]int, caseID string) bool {
				atomic.AddInt64(&pw.inflight, 1)
				defer atomic.AddInt64(&pw.inflight, -1)
				return k.do(c, cmd, "eth0", plan, caseID)
			}
			for r := 0; r < rounds; r++ {
				idx := (shard*1000+g)*10000 + r
				prng := run.Rng("c12-conc-pod", idx)
				pod := genPod(prng, cfg, idx, podOpts{maxN: 4, forceForm: []string{"comma", "json"}[r%2]})
				pod.NodeName = pw.host
				pod.Labels = map[string]string{"app": []string{"web", "db"}[prng.Intn(2)], "role": []string{"client", "server"}[prng.Intn(2)]}
				addPorts(run, prng, pod, shard)
				c := k.newCtr(pod)
				caseID := fmt.Sprintf("%d:conc:%d:%d:%d", run.Seed, shard, g, r)
				list, _ := resolve(pod, cfg, "eth0")
				if !k.ensurePod(c) {
					return
				}
				pw.podAdded(pod.object(), fmt.Sprintf("10.%d.%d.%d", 100+shard%100, g, 10+r%240))
				var plan map[string]int
				if prng.Intn(3) == 0 {
					plan = randomPlan(prng, typesOf(list), false)
				}
				if !do(c, "ADD", plan, caseID) {
					return
				}
				var opened []k8s.Port
				if last := c.steps[len(c.steps)-1]; last.Status == 200 {
					run.Count("concurrent_adds_through_policy_sync", 1)
					if policySelects(pod.NS, pod.Labels) {
						run.Count("concurrent_adds_of_policy_selected_pods", 1)
					}
					if len(pod.Ports) > 0 {
						opened = savedPorts(c.cid)
						run.Count("concurrent_adds_with_ports", 1)
						run.Count("hostport_sockets_opened", int64(len(opened)))
						if pod.PortMapAnn {
							run.Count("concurrent_adds_with_random_hostport", 1)
						}
					}
				}
				if prng.Intn(3) == 0 {
					plan = randomPlan(prng, typesOf(list), false)
				} else {
					plan = nil
				}
				if !do(c, "DEL", plan, caseID) {
					return
				}
				atomic.AddInt64(&pw.inflight, 1)
				k.drain(c, caseID)
				atomic.AddInt64(&pw.inflight, -1)
				pw.podGone(pod.NS, pod.Name)
				if c.state == nil {
					for _, op := range opened {
						ledger.add(closedPort{Key: fmt.Sprintf("%s:%d", strings.ToLower(op.Protocol), op.HostPort), Cid: c.cid,
							Pod: pod.NS + "/" + pod.Name, Case: caseID})
					}
					if len(opened) > 0 {
						run.Count("concurrent_dels_through_port_cleanup", 1)
					}
				}
				fpMu.Lock()
				fingerprints = append(fingerprints, fmt.Sprintf("conc|g=%d|n=%d|ports=%d|policy=%v", goroutines, len(list), len(pod.Ports),
					policySelects(pod.NS, pod.Labels)))
				fpMu.Unlock()
			}
		}(g)
	}
	wg.Wait()
	close(stop)
	<-loopDone
	// every pod is gone: none of the host-port sockets of torn-down pods may still be held by this process
	if bound, err := ownBoundPortsStable(nil); err != nil {
		run.Count("socket_leftover_check_skipped", 1)
	} else {
		run.Count("socket_leftover_checks", int64(len(ledger.closed)))
		for _, cp := range ledger.closed {
			if bound[cp.Key] {
				run.Count("viol_hostport-socket-still-open-after-del", 1)
				violateCapped(run, evid.Violation{Sig: "hostport-socket-still-open-after-del",
					Msg: fmt.Sprintf("pod %s (container %s): host port %s is still bound by the daemon process after its DEL succeeded "+
						"and all pods are gone", cp.Pod, cp.Cid, cp.Key),
					Witness: map[string]interface{}{"daemon_config": cfg, "closed_port": cp}, Case: cp.Case}, 4)
			}
		}
	}
	// the concurrent phase only counts as non-trivial if it reached the port-mapping and policy paths
	if run.Counter("concurrent_adds_with_ports") > 0 && run.Counter("hostport_sockets_opened") > 0 &&
		run.Counter("policy_syncs_overlapped_with_cni_requests") > 0 && run.Counter("concurrent_adds_of_policy_selected_pods") > 0 {
		for _, fp := range fingerprints {
			run.Nontrivial(fp)
		}
	} else {
		run.Count("concurrent_shards_without_portmapping_or_policy_paths", 1)
	}
}

// phaseConflist: a network that exists only as a .conflist file in the conf dir (GetNetworkConfig explicitly
// returns such files). The property leaves open whether galaxy must be able to run a plugin *list*; what it does
// not leave open is that a repeated DEL succeeds without invoking anything when no plugin DEL failed before.
func phaseConflist(run *evid.Run, env *runEnv) {
	rng := run.Rng("c12-conflist", 0)
	cfg := genStaticConf(rng, confOpts{nNets: 2, distinctTypes: true})
	tA, tB := allTypes[rng.Intn(4)], allTypes[4+rng.Intn(4)]
	cfg.Files["30-list-net.conflist"] = fmt.Sprintf(`{"cniVersion":"0.3.1","name":"list-net","plugins":[{"type":%q,"x":1},{"type":%q}]}`, tA, tB)
	d, err := newDaemon(env, cfg, "conflist")
	if err != nil {
		run.Inconclusive("daemon: " + err.Error())
		return
	}
	defer d.close()
	for _, t := range []string{tA, tB} {
		if err := env.linkType(t); err != nil {
			run.Inconclusive("link: " + err.Error())
			return
		}
	}
	rd := &logReader{path: env.logPath, off: fileSize(env.logPath)}
	for variant, sel := range [][]string{{"list-net"}, {cfg.Nets[0].Name, "list-net"}} {
		pod := genPod(rng, cfg, 7000+variant, podOpts{maxN: 2, forceForm: "comma", forceSel: sel})
		pod.ExtKV, pod.ExtAnnotation = nil, ""
		if err := d.addPod(pod.object()); err != nil {
			run.Inconclusive("pod: " + err.Error())
			return
		}
		cid := fmt.Sprintf("%s%d", env.cidPrefix, atomic.AddInt64(&cidCounter, 1))
		req := cniRequest{Command: "ADD", ContainerID: cid, IfName: "eth0", NetNS: "/var/run/netns/" + cid, PodNS: pod.NS, PodName: pod.Name}
		type obs struct {
			Cmd     string   `json:"cmd"`
			Status  int      `json:"http_status"`
			Body    string   `json:"http_body"`
			Invoked string   `json:"invoked"`
			State   []string `json:"state_file_after"`
		}
		var steps []obs
		anyPluginDelFailed := false
		send := func(cmd string) (int, []invRec, bool) {
			req.Command = cmd
			st, body, err := d.send(&req)
			if err != nil {
				run.Inconclusive("http: " + err.Error())
				return 0, nil, false
			}
			recs, err := rd.next()
			if err != nil {
				run.Inconclusive("log: " + err.Error())
				return 0, nil, false
			}
			for _, r := range recs {
				if r.Failed {
					anyPluginDelFailed = true
				}
			}
			steps = append(steps, obs{cmd, st, body, seqString(recs), stateFile(cid)})
			run.Eval(1)
			return st, recs, true
		}
		st, recs, ok := send("ADD")
		if !ok {
			return
		}
		run.Count("conflist_network_add_requests", 1)
		if st == 200 {
			run.Count("conflist_network_add_succeeded", 1)
		} else if len(recs) == len(sel)-1+0 || len(recs) == 2*(len(sel)-1) {
			run.Count("conflist_network_add_rejected_without_running_its_plugins", 1)
		}
		lastStatus := 0
		for i := 0; i < 3; i++ {
			s, r, ok := send("DEL")
			if !ok {
				return
			}
			lastStatus = s
			if s == 200 && len(r) == 0 {
				break
			}
		}
		if lastStatus != 200 && !anyPluginDelFailed {
			// Observation, not a violation: C12 says a DEL retries exactly the delegates whose DEL failed before;
			// it does not promise that a delegate whose DEL keeps failing (here: a .conflist network that has no
			// top-level type and therefore can never be delegated) eventually succeeds.
			run.Count("obs_repeated_del_never_succeeds_after_add_of_conflist_network", 1)
			run.Set("observation_conflist_network", fmt.Sprintf("pod selects %v where list-net is defined by a .conflist file: ADD "+
				"status %d; three consecutive DELs all fail although no plugin was ever invoked for it (state file keeps the "+
				"un-runnable entry)", sel, st))
		}
		run.Nontrivial(fmt.Sprintf("conflist|sel=%d", len(sel)))
		env.removeState(cid)
		d.delPod(pod.NS, pod.Name)
	}
}
