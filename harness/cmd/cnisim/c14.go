package main

// C14, daemon level ("cnisim" is the second engine of ./check C14, after pmsim which drives the PortMappingHandler
// directly). What is driven here is everything ABOVE the handler in pkg/galaxy/server.go: requestFunc's
// setupPortMapping / cleanupPortMapping around real CNI ADD/DEL requests, the port-state files, the start-up pass
// setupIPtables after a daemon restart, and the garbage collector's cleanIPtables callback - sequential histories,
// deterministic from the seed, with one injected iptables failure enumerated over the operations of a step.
//
// Observation: the strict fake's NAT dump, the sockets of this process (/proc/net/* joined with /proc/self/fd), the
// harness's own files under /var/lib/cni/galaxy/port, the fake's reject log.

import (
	"context"
	"encoding/json"
	"fmt"
	"io"
	"io/ioutil"
	"math/rand"
	"net"
	"os"
	"os/exec"
	"path/filepath"
	"sort"
	"strings"
	"sync"
	"time"

	corev1 "k8s.io/api/core/v1"
	metav1 "k8s.io/apimachinery/pkg/apis/meta/v1"
	"k8s.io/client-go/kubernetes/fake"
	"tkestack.io/galaxy/pkg/api/k8s"
	"verif/harness/evid"
	"verif/harness/fakes"
	"verif/harness/hostports"
)

type hpStep struct {
	Kind string `json:"kind"` // hold | add | add-taken | del | redel | restart | gc | late-del
	Pod  int    `json:"pod"`
}

type hpHistory struct {
	Index     int         `json:"index"`
	Pods      []*podModel `json:"pods"`
	Steps     []hpStep    `json:"steps"`
	HeldPort  int32       `json:"harness_held_port,omitempty"`
	HeldProto string      `json:"harness_held_proto,omitempty"`
	Foreign   string      `json:"foreign_nat_script"`
}

func (h *hpHistory) shape() string {
	var s []string
	for _, st := range h.Steps {
		k := st.Kind
		if st.Pod >= 0 && (k == "add" || k == "add-taken") {
			p := h.Pods[st.Pod]
			k += fmt.Sprintf("%d", len(p.Ports))
			if p.PortMapAnn {
				k += "r"
			}
		}
		s = append(s, k)
	}
	return strings.Join(s, ",")
}

type hpFault struct {
	Step    int    `json:"step"`
	K       int    `json:"kth_iptables_op_of_step"`
	Retry   bool   `json:"retryable_flavour"`
	HitOp   string `json:"op_hit,omitempty"`
	OpsSeen int    `json:"ops_seen_in_step"`
}

const foreignNat = `*nat
:DOCKER - [0:0]
:KUBE-SERVICES - [0:0]
:KUBE-SVC-VERIFAAAAAAAAAAA - [0:0]
:CUSTOM-NAT-%[1]d - [0:0]
-A PREROUTING -m addrtype --dst-type LOCAL -j DOCKER
-A PREROUTING -m comment --comment "kubernetes service portals" -j KUBE-SERVICES
-A OUTPUT ! -d 127.0.0.0/8 -m addrtype --dst-type LOCAL -j DOCKER
-A POSTROUTING -s 172.17.0.0/16 ! -o docker0 -j MASQUERADE
-A DOCKER -i docker0 -j RETURN
-A DOCKER ! -i docker0 -p tcp -m tcp --dport %[2]d -j DNAT --to-destination 172.17.0.2:80
-A KUBE-SERVICES -d 10.96.0.1/32 -p tcp -m comment --comment "default/kubernetes:https cluster IP" -m tcp --dport 443 -j KUBE-SVC-VERIFAAAAAAAAAAA
-A KUBE-SVC-VERIFAAAAAAAAAAA -p tcp -m tcp -j DNAT --to-destination 10.0.0.%[3]d:6443
-A CUSTOM-NAT-%[1]d -p udp -m udp --dport %[4]d -j DNAT --to-destination 192.168.9.9:53
COMMIT
`

func genHistory(rng *rand.Rand, alloc *hostports.Allocator, idx int) *hpHistory {
	h := &hpHistory{Index: idx}
	h.Foreign = fmt.Sprintf(foreignNat, rng.Intn(100), 1000+rng.Intn(60000), 2+rng.Intn(250), 1000+rng.Intn(60000))
	protos := []string{"TCP", "UDP"}
	hostIPs := []string{"", "", "", "10.1.2.3", "192.168.0.5"}
	mkPod := func(class int) *podModel {
		i := len(h.Pods)
		p := &podModel{NS: []string{"default", "ns1", "kube-system"}[rng.Intn(3)], Name: fmt.Sprintf("hp%d-%d", idx, i), Form: "none"}
		fixed := func(n int) {
			for j := 0; j < n; j++ {
				if hp := alloc.Take(); hp != 0 {
					p.Ports = append(p.Ports, podPort{HostPort: hp, ContainerPort: int32(9000 + rng.Intn(500)), Proto: protos[rng.Intn(2)],
						HostIP: hostIPs[rng.Intn(len(hostIPs))]})
				}
			}
		}
		random := func(n int) {
			p.PortMapAnn = true
			for j := 0; j < n; j++ {
				p.Ports = append(p.Ports, podPort{HostPort: 0, ContainerPort: int32(8000 + rng.Intn(500)), Proto: protos[rng.Intn(2)],
					HostIP: hostIPs[rng.Intn(len(hostIPs))]})
			}
		}
		switch class {
		case 1:
			fixed(1 + rng.Intn(3))
		case 2:
			random(1 + rng.Intn(2))
		case 3:
			fixed(1 + rng.Intn(2))
			random(1 + rng.Intn(2))
		}
		h.Pods = append(h.Pods, p)
		return p
	}
	add := func(kind string, pod *podModel) {
		for i, p := range h.Pods {
			if p == pod {
				h.Steps = append(h.Steps, hpStep{Kind: kind, Pod: i})
			}
		}
	}
	a, b := mkPod(1+rng.Intn(3)), mkPod(1+rng.Intn(3))
	c := mkPod([]int{0, 1, 2, 3}[rng.Intn(4)])
	holdFirst := rng.Intn(2) == 0
	if holdFirst {
		h.HeldPort, h.HeldProto = alloc.Take(), protos[rng.Intn(2)]
		h.Steps = append(h.Steps, hpStep{Kind: "hold", Pod: -1})
	}
	add("add", a)
	add("add", b)
	// a pod whose fixed port is taken: its own free port comes first, so that something is open when the clash is hit
	if rng.Intn(3) != 0 {
		t := mkPod(0)
		if hp := alloc.Take(); hp != 0 {
			t.Ports = append(t.Ports, podPort{HostPort: hp, ContainerPort: 7001, Proto: protos[rng.Intn(2)]})
		}
		if rng.Intn(3) == 0 {
			t.PortMapAnn = true
			t.Ports = append(t.Ports, podPort{HostPort: 0, ContainerPort: 7003, Proto: protos[rng.Intn(2)]})
		}
		var victim *podPort
		for _, cand := range []*podModel{a, b} {
			for j := range cand.Ports {
				if cand.Ports[j].HostPort > 0 && victim == nil {
					victim = &cand.Ports[j]
				}
			}
		}
		switch {
		case holdFirst && h.HeldPort != 0 && (victim == nil || rng.Intn(2) == 0):
			t.Ports = append(t.Ports, podPort{HostPort: h.HeldPort, ContainerPort: 7002, Proto: h.HeldProto})
			add("add-taken", t)
		case victim != nil:
			t.Ports = append(t.Ports, podPort{HostPort: victim.HostPort, ContainerPort: 7002, Proto: victim.Proto})
			add("add-taken", t)
		}
	}
	add("add", c)
	first, second := a, b
	if rng.Intn(2) == 0 {
		first, second = b, a
	}
	if rng.Intn(2) == 0 {
		add("del", c)
		add("redel", c)
		c = nil
	}
	// a container whose DEL never comes: the garbage collector cleans up - sometimes only after the daemon restarted
	gcTarget := second
	if c != nil && rng.Intn(2) == 0 {
		gcTarget, c = c, nil
	} else {
		second = nil
	}
	if rng.Intn(4) == 0 {
		add("abandon", gcTarget)
	}
	h.Steps = append(h.Steps, hpStep{Kind: "restart", Pod: -1})
	add("del", first)
	if rng.Intn(2) == 0 {
		add("redel", first)
	}
	d := mkPod(1 + rng.Intn(3))
	add("add", d)
	add("gc", gcTarget)
	if rng.Intn(2) == 0 {
		add("late-del", gcTarget)
	}
	if rng.Intn(3) == 0 {
		h.Steps = append(h.Steps, hpStep{Kind: "restart", Pod: -1})
	}
	for _, p := range []*podModel{second, c, d} {
		if p != nil {
			add("del", p)
		}
	}
	return h
}

// hpCtr is the model of one container: what must exist for it right now.
type hpCtr struct {
	pod      *podModel
	cid      string
	added    bool
	inKube   bool
	rules    bool
	file     bool
	sock     int // 0 closed, 1 open, 2 unspecified (garbage-collected without a DEL: galaxy keeps the socket)
	reopened bool
	lost     map[string]bool // kernel-chosen ports another process grabbed while the daemon was down
	ports    []k8s.Port
	podIP    string
}

const (
	sockClosed = 0
	sockOpen   = 1
	sockAny    = 2
)

type hpTrace struct {
	Step   int    `json:"step"`
	Action string `json:"action"`
	Result string `json:"result"`
	Ops    string `json:"iptables_ops,omitempty"`
}

type hpWorld struct {
	run        *evid.Run
	env        *runEnv
	cfg        *staticConf
	h          *hpHistory
	ipt        *fakes.IPTables
	kube       *fake.Clientset
	d          *daemon
	gen        int
	host       string
	ctrs       []*hpCtr
	held       map[string]io.Closer
	plantedNat []string
	plantedFlt []string
	baseline   map[string]bool
	fault      *hpFault
	counting   bool
	stepOps    int
	opLog      []string
	opsPerStep []int
	trace      []hpTrace
	violated   bool
	caseID     string
	curStep    int
	srvKey     string
}

// foreignLines is the part of a dump galaxy does not own (same definition as pmsim's foreignView).
func foreignLines(dump string) []string {
	var out []string
	for _, l := range strings.Split(dump, "\n") {
		if l == "" {
			continue
		}
		fs := strings.Fields(l)
		var ch string
		if strings.HasPrefix(l, ":") {
			ch = fs[0][1:]
		} else if strings.HasPrefix(l, "-A ") && len(fs) > 1 {
			ch = fs[1]
		}
		if ch == "KUBE-HOSTPORTS" || ch == "KUBE-MARK-MASQ" || strings.HasPrefix(ch, "KUBE-HP-") {
			continue
		}
		if strings.HasPrefix(l, "-A PREROUTING ") || strings.HasPrefix(l, "-A OUTPUT ") {
			if strings.Contains(l, "kube hostport portals") && strings.HasSuffix(l, "-j KUBE-HOSTPORTS") {
				continue
			}
		}
		if strings.HasPrefix(l, ":FORWARD ") {
			l = ":FORWARD <policy> [0:0]"
		}
		out = append(out, l)
	}
	return out
}

func (w *hpWorld) violate(sig, msg string, extra map[string]interface{}) {
	w.violated = true
	w.run.Count("viol_"+sig, 1)
	var model []map[string]interface{}
	for _, c := range w.ctrs {
		model = append(model, map[string]interface{}{"pod": c.pod.Name, "container": c.cid, "rules": c.rules, "file": c.file,
			"sock": []string{"closed", "open", "unspecified"}[c.sock], "socket_keys": c.socketKeys(), "lost_at_restart": keysOf(c.lost),
			"reopened_by_restart": c.reopened})
	}
	wit := map[string]interface{}{"history": w.h, "fault": w.fault, "executed": w.trace, "failing_observation": msg, "model": model,
		"harness_http_listener": w.srvKey,
		"nat_dump":              w.ipt.Dump("nat"), "galaxy_config": w.cfg.JSONText}
	for k, v := range extra {
		wit[k] = v
	}
	violateCapped(w.run, evid.Violation{Sig: sig, Msg: msg, Witness: wit, Case: w.caseID}, 3)
}

func (w *hpWorld) hook(op string) error {
	if !w.counting {
		return nil
	}
	w.stepOps++
	w.opLog = append(w.opLog, op)
	if w.fault != nil && w.fault.Step == w.curStep && w.fault.HitOp == "" && w.stepOps == w.fault.K {
		w.fault.HitOp = op
		if w.fault.Retry {
			return fmt.Errorf("exit status 4: Another app is currently holding the xtables lock: Resource temporarily unavailable (injected)")
		}
		return fmt.Errorf("exit status 4: iptables: injected failure of %s", op)
	}
	return nil
}

func newHPWorld(run *evid.Run, env *runEnv, cfg *staticConf, h *hpHistory, fault *hpFault, caseID string) (*hpWorld, error) {
	w := &hpWorld{run: run, env: env, cfg: cfg, h: h, fault: fault, caseID: caseID, held: map[string]io.Closer{},
		host: k8s.GetHostname(), kube: fake.NewSimpleClientset(), ipt: fakes.NewIPTables(nil)}
	if err := w.ipt.Plant(h.Foreign); err != nil {
		return nil, fmt.Errorf("foreign script rejected by the fake: %v", err)
	}
	w.ipt.FailHook = w.hook
	for _, p := range h.Pods {
		w.ctrs = append(w.ctrs, &hpCtr{pod: p})
	}
	if err := w.startDaemon(false); err != nil {
		return nil, err
	}
	w.ipt.ResetRejects()
	w.plantedNat = foreignLines(w.ipt.Dump("nat"))
	w.plantedFlt = foreignLines(w.ipt.Dump("filter"))
	b, err := ownBoundPortsStable(nil)
	if err != nil {
		return nil, err
	}
	w.baseline = b
	return w, nil
}

// startDaemon builds a Galaxy over the surviving kube objects and kernel state. restart=false is the very first start
// (no pods yet): the same two calls setupIPtables makes, without its periodic goroutine; restart=true runs the real
// start-up pass g.VerifSetupIPtables().
func (w *hpWorld) startDaemon(restart bool) error {
	w.gen++
	d, err := buildDaemon(w.env, w.cfg, fmt.Sprintf("hp%d-%d", w.h.Index, w.gen), nil, &overWorld{kube: w.kube, ipt: w.ipt})
	if err != nil {
		return err
	}
	w.d = d
	if ta, ok := d.srv.Listener.Addr().(*net.TCPAddr); ok {
		w.srvKey = fmt.Sprintf("tcp:%d", ta.Port) // the harness's own HTTP listener in front of the daemon
	}
	if !restart {
		if err := d.pmh.SetupPortMappingForAllPods(nil); err != nil {
			return err
		}
		return d.pmh.EnsureBasicRule()
	}
	return d.g.VerifSetupIPtables()
}

func (w *hpWorld) fullNames(c *hpCtr) []string {
	return []string{k8s.GetPodFullName(c.pod.Name, c.pod.NS), k8s.GetPodFullName(c.pod.NS, c.pod.Name)}
}

// killDaemon: the process dies, the kernel closes its sockets.
func (w *hpWorld) killDaemon() {
	for _, c := range w.ctrs {
		for _, n := range w.fullNames(c) {
			w.d.pmh.CloseHostports(n)
		}
	}
	w.d.close()
}

func (w *hpWorld) teardown() {
	w.killDaemon()
	for _, c := range w.held {
		c.Close()
	}
	for _, c := range w.ctrs {
		if c.cid != "" {
			w.env.removeState(c.cid)
		}
	}
}

func (w *hpWorld) send(cmd string, c *hpCtr) (int, string) {
	req := cniRequest{Command: cmd, ContainerID: c.cid, IfName: "eth0", NetNS: "/var/run/netns/" + c.cid, PodNS: c.pod.NS, PodName: c.pod.Name}
	st, body, err := w.d.send(&req)
	if err != nil {
		w.run.Inconclusive("http: " + err.Error())
		return 0, ""
	}
	return st, body
}

func resultIP(body string) string {
	var r struct {
		IP4 struct {
			IP string `json:"ip"`
		} `json:"ip4"`
		IPs []struct {
			Address string `json:"address"`
		} `json:"ips"`
	}
	_ = json.Unmarshal([]byte(body), &r)
	s := r.IP4.IP
	if s == "" && len(r.IPs) > 0 {
		s = r.IPs[0].Address
	}
	if i := strings.Index(s, "/"); i >= 0 {
		s = s[:i]
	}
	return s
}

func (w *hpWorld) kubeAdd(c *hpCtr) {
	o := c.pod.object()
	o.Spec.NodeName = w.host
	_ = w.kube.Tracker().Add(o)
	c.inKube = true
}

func (w *hpWorld) kubeDel(c *hpCtr) {
	if c.inKube {
		_ = w.kube.Tracker().Delete(corev1PodsGVR, c.pod.NS, c.pod.Name)
		c.inKube = false
	}
}

func (w *hpWorld) kubeSetIP(c *hpCtr) {
	p, err := w.kube.CoreV1().Pods(c.pod.NS).Get(context.TODO(), c.pod.Name, metav1.GetOptions{})
	if err != nil {
		return
	}
	p.Status.PodIP = c.podIP
	_, _ = w.kube.CoreV1().Pods(c.pod.NS).Update(context.TODO(), p, metav1.UpdateOptions{})
}

func (w *hpWorld) note(action, result string) {
	w.trace = append(w.trace, hpTrace{Step: w.curStep, Action: action, Result: result, Ops: strings.Join(w.opLog, " ")})
}

// primary runs f as the primary action of the current step: its iptables operations are counted and are the ones a
// fault can hit.
func (w *hpWorld) primary(f func()) {
	w.stepOps, w.opLog, w.counting = 0, nil, true
	f()
	w.counting = false
	for len(w.opsPerStep) <= w.curStep {
		w.opsPerStep = append(w.opsPerStep, 0)
	}
	w.opsPerStep[w.curStep] = w.stepOps
	if w.fault != nil && w.fault.Step == w.curStep {
		w.fault.OpsSeen = w.stepOps
	}
}

func (w *hpWorld) faultedHere() bool {
	return w.fault != nil && w.fault.Step == w.curStep && w.fault.HitOp != ""
}

// wantedPorts: what parsePorts makes of the pod (fixed ports, and hostPort 0 when the annotation is present).
func wantedPorts(p *podModel) []podPort {
	var out []podPort
	for _, pp := range p.Ports {
		if pp.HostPort > 0 || p.PortMapAnn {
			out = append(out, pp)
		}
	}
	return out
}

// followUps is what a real node does after a failed request: the kubelet's DEL, a repeated DEL, and one pass of the
// garbage collector for the container - all fault-free.
func (w *hpWorld) followUps(c *hpCtr, origin string, dels int) {
	w.opLog = nil
	for i := 0; i < dels; i++ {
		st, body := w.send("DEL", c)
		w.note("follow-up DEL "+c.cid, fmt.Sprintf("%d %s", st, strings.TrimSpace(body)))
		w.run.Count("followup_dels", 1)
		if st != 200 && st != 0 {
			sig := "daemon-" + origin + "-followup-del-fails"
			if strings.Contains(body, "Couldn't load target") {
				sig = "daemon-" + origin + "-clean-fails-forever-jump-target-chain-gone"
			}
			w.violate(sig, fmt.Sprintf("fault-free DEL #%d for %s after %s returns %d: %s",
				i+1, c.cid, origin, st, strings.TrimSpace(body)), nil)
			return
		}
	}
	err := w.d.g.VerifCleanIPtables(c.cid)
	w.note("follow-up gc clean "+c.cid, fmt.Sprint(err))
	w.run.Count("followup_gc_cleans", 1)
	c.rules, c.file, c.sock = false, false, sockClosed
	w.kubeDel(c)
}

var corev1PodsGVR = corev1.SchemeGroupVersion.WithResource("pods")

func (w *hpWorld) step(i int) {
	w.curStep = i
	st := w.h.Steps[i]
	var c *hpCtr
	if st.Pod >= 0 {
		c = w.ctrs[st.Pod]
	}
	w.run.Eval(1)
	kind := st.Kind
	switch st.Kind {
	case "hold":
		var cl io.Closer
		var err error
		if w.h.HeldProto == "TCP" {
			cl, err = net.Listen("tcp", fmt.Sprintf(":%d", w.h.HeldPort))
		} else {
			cl, err = net.ListenUDP("udp", &net.UDPAddr{Port: int(w.h.HeldPort)})
		}
		if err != nil {
			w.run.Count("harness_hold_failed", 1)
			return
		}
		w.held[fmt.Sprintf("%s:%d", strings.ToLower(w.h.HeldProto), w.h.HeldPort)] = cl
		w.note("harness binds "+w.h.HeldProto+fmt.Sprint(w.h.HeldPort), "ok")
	case "add", "add-taken":
		c.cid = fmt.Sprintf("%s%d", w.env.cidPrefix, atomicNext())
		c.added = true
		w.kubeAdd(c)
		var status int
		var body string
		w.primary(func() { status, body = w.send("ADD", c) })
		w.note("ADD "+c.cid+" "+c.pod.Name, fmt.Sprintf("%d %s", status, strings.TrimSpace(body)))
		if status == 0 {
			return
		}
		want := wantedPorts(c.pod)
		// is one of its fixed ports really held right now (by a live pod of the history or by the harness)?
		clash := false
		for _, pp := range c.pod.Ports {
			k := fmt.Sprintf("%s:%d", strings.ToLower(pp.Proto), pp.HostPort)
			if _, ok := w.held[k]; ok && pp.HostPort > 0 {
				clash = true
			}
			for _, x := range w.ctrs {
				if x != c && x.sock != sockClosed && pp.HostPort > 0 {
					for _, sk := range x.socketKeys() {
						if sk == k {
							clash = true
						}
					}
				}
			}
		}
		if status == 200 {
			if clash {
				// the clash may have vanished only if its holder is gone, which the generator never does
				w.violate("daemon-add-succeeds-on-taken-hostport", fmt.Sprintf("ADD %s succeeded although one of its host ports is held by %s",
					c.cid, "another pod / another process"), nil)
				return
			}
			w.run.Count("steps_add_ok", 1)
			if len(want) > 0 {
				w.run.Count("steps_add_ok_with_ports", 1)
			}
			c.podIP = resultIP(body)
			c.ports = savedPorts(c.cid)
			w.kubeSetIP(c)
			c.rules, c.file, c.sock = len(want) > 0, len(want) > 0, sockClosed
			if len(want) > 0 {
				c.sock = sockOpen
			}
			if len(c.ports) != len(want) {
				w.violate("daemon-add-port-file-differs-from-pod-ports", fmt.Sprintf("ADD %s: pod asks for %d mapped ports, port file has %d: %v",
					c.cid, len(want), len(c.ports), c.ports), nil)
				return
			}
			for j, pp := range want {
				sp := c.ports[j]
				if (pp.HostPort > 0 && sp.HostPort != pp.HostPort) || sp.HostPort <= 0 || sp.ContainerPort != pp.ContainerPort ||
					!strings.EqualFold(sp.Protocol, pp.Proto) || sp.HostIP != pp.HostIP || sp.PodIP != c.podIP {
					w.violate("daemon-add-port-file-differs-from-pod-ports", fmt.Sprintf("ADD %s: port %d of the pod is %+v (pod ip %s), port file says %+v",
						c.cid, j, pp, c.podIP, sp), nil)
					return
				}
				if pp.HostPort == 0 {
					w.run.Count("random_hostports_handed_out", 1)
				}
			}
		} else {
			kind = "failed-add"
			if clash {
				kind = "add-taken"
				w.run.Count("steps_add_taken_refused", 1)
			} else if w.faultedHere() {
				w.run.Count("steps_add_failed_by_fault", 1)
			} else if k := busyPortKey(body); k != "" && !w.ownsPort(k) {
				// the bind failed on a port that no socket of this process holds: some other process on the node took it
				// after the probe. Environment; the pod is a failed ADD that must leave nothing behind.
				kind = "add-taken"
				w.run.Count("add_failed_port_taken_by_other_process", 1)
			} else {
				w.violate("daemon-add-fails-without-cause", fmt.Sprintf("ADD %s: no fault injected, no port clash, status %d: %s", c.cid, status, body), nil)
				return
			}
			w.followUps(c, kind, 2)
		}
	case "del", "late-del":
		if rand.New(rand.NewSource(int64(i)+int64(w.h.Index))).Intn(2) == 0 {
			w.kubeDel(c) // the pod object may already be gone when the kubelet tears the sandbox down
		}
		var status int
		var body string
		w.primary(func() { status, body = w.send("DEL", c) })
		w.note("DEL "+c.cid+" "+c.pod.Name, fmt.Sprintf("%d %s", status, strings.TrimSpace(body)))
		if status == 0 {
			return
		}
		w.kubeDel(c)
		if status == 200 {
			w.run.Count("steps_del_ok", 1)
			if c.reopened {
				w.run.Count("steps_del_ok_after_restart", 1)
			}
			c.rules, c.file, c.sock = false, false, sockClosed
		} else if w.faultedHere() {
			kind = "faulted-" + st.Kind
			w.run.Count("steps_del_failed_by_fault", 1)
			w.followUps(c, kind, 1)
		} else {
			w.violate("daemon-"+st.Kind+"-fails-without-cause", fmt.Sprintf("DEL %s: no fault injected, status %d: %s", c.cid, status, body), nil)
			return
		}
	case "redel":
		var status int
		var body string
		w.primary(func() { status, body = w.send("DEL", c) })
		w.note("repeated DEL "+c.cid, fmt.Sprintf("%d %s", status, strings.TrimSpace(body)))
		w.run.Count("steps_redel", 1)
		if status != 200 && status != 0 {
			w.violate("daemon-redel-fails", fmt.Sprintf("repeated DEL %s returns %d: %s", c.cid, status, body), nil)
			return
		}
	case "abandon":
		// the container dies and its pod object is deleted, but no DEL reaches galaxy (yet)
		w.kubeDel(c)
		w.note("pod "+c.pod.Name+" deleted, container dead, no DEL", "")
		w.run.Count("steps_abandon", 1)
	case "gc":
		w.kubeDel(c)
		var err error
		w.primary(func() { err = w.d.g.VerifCleanIPtables(c.cid) })
		w.note("gc clean "+c.cid+" "+c.pod.Name, fmt.Sprint(err))
		w.run.Count("steps_gc", 1)
		if err != nil {
			if !w.faultedHere() {
				sig := "daemon-gc-clean-fails-without-cause"
				if strings.Contains(err.Error(), "Couldn't load target") {
					sig = "daemon-gc-clean-fails-forever-jump-target-chain-gone"
				}
				w.violate(sig, fmt.Sprintf("cleanIPtables(%s) with no fault injected: %v", c.cid, err), nil)
				return
			}
			kind = "faulted-gc"
			err = w.d.g.VerifCleanIPtables(c.cid) // the collector's next round
			w.note("gc clean again "+c.cid, fmt.Sprint(err))
			if err != nil {
				w.violate("daemon-faulted-gc-next-round-fails", fmt.Sprintf("cleanIPtables(%s), fault-free second round: %v", c.cid, err), nil)
				return
			}
		}
		c.rules, c.file = false, false
		if c.sock == sockOpen {
			c.sock = sockAny
		}
	case "restart":
		w.killDaemon()
		var err error
		w.primary(func() { err = w.startDaemon(true) })
		w.note("daemon restart + setupIPtables", fmt.Sprint(err))
		w.run.Count("restarts", 1)
		if err != nil {
			if !w.faultedHere() {
				w.violate("daemon-restart-setup-fails-without-cause", fmt.Sprintf("setupIPtables after restart: %v", err), nil)
				return
			}
			kind = "faulted-restart"
			// the real daemon exits on this error and is started again
			w.killDaemon()
			if err = w.startDaemon(true); err != nil {
				w.violate("daemon-faulted-restart-second-start-fails", fmt.Sprintf("setupIPtables, fault-free second start: %v", err), nil)
				return
			}
			w.run.Count("restarts", 1)
		}
		for _, x := range w.ctrs {
			switch {
			case x.added && x.inKube && x.rules:
				x.sock, x.reopened, x.lost = sockOpen, true, nil
				w.run.Count("pods_resynced_by_restart", 1)
			case x.added && !x.inKube:
				// dead container not yet collected: the full sync drops its chains, nobody reopens its ports
				x.rules = false
				if x.sock != sockClosed {
					x.sock = sockClosed
				}
			}
		}
	}
	if !w.violated {
		w.check(kind, c)
	}
}

type hpMapping struct {
	key   string
	owner string // pod name from the rule comment
}

// observedMappings extracts (proto, hostport, hostIP, podIP:containerPort) per KUBE-HOSTPORTS jump, plus orphans.
func observedMappings(chains map[string][]fakes.Rule) []hpMapping {
	tok := func(r fakes.Rule, name string) string {
		for i := 0; i+1 < len(r.Tokens); i++ {
			if r.Tokens[i] == name {
				return r.Tokens[i+1]
			}
		}
		return ""
	}
	owner := func(r fakes.Rule) string {
		c := strings.Trim(tok(r, "--comment"), `"`)
		if i := strings.Index(c, " "); i >= 0 {
			c = c[:i]
		}
		return c
	}
	var out []hpMapping
	referenced := map[string]bool{}
	for _, r := range chains["KUBE-HOSTPORTS"] {
		tg := r.Target()
		referenced[tg] = true
		m := hpMapping{owner: owner(r)}
		dnat, masq := "<no DNAT rule>", ""
		for _, cr := range chains[tg] {
			switch cr.Target() {
			case "DNAT":
				dnat = tok(cr, "--to-destination")
				if p := tok(cr, "-p"); p != tok(r, "-p") {
					dnat += "(proto " + p + ")"
				}
			case "KUBE-MARK-MASQ":
				masq = strings.TrimSuffix(tok(cr, "-s"), "/32")
			}
		}
		m.key = fmt.Sprintf("%s|%s|%s|%s", tok(r, "-p"), tok(r, "--dport"), strings.TrimSuffix(tok(r, "-d"), "/32"), dnat)
		if !strings.HasPrefix(dnat, masq+":") {
			m.key += "|masq-src=" + masq
		}
		if n := len(chains[tg]); n != 2 {
			m.key += fmt.Sprintf("|chain-has-%d-rules", n)
		}
		out = append(out, m)
	}
	for name, rules := range chains {
		if strings.HasPrefix(name, "KUBE-HP-") && !referenced[name] {
			m := hpMapping{key: "orphan-chain|" + name}
			if len(rules) > 0 {
				m.owner = owner(rules[0])
			}
			out = append(out, m)
		}
	}
	return out
}

func (c *hpCtr) expectedMappings() []string {
	var out []string
	for _, p := range c.ports {
		out = append(out, fmt.Sprintf("%s|%d|%s|%s:%d", strings.ToLower(p.Protocol), p.HostPort, p.HostIP, c.podIP, p.ContainerPort))
	}
	return out
}

func (c *hpCtr) socketKeys() []string {
	var out []string
	for _, p := range c.ports {
		if k := fmt.Sprintf("%s:%d", strings.ToLower(p.Protocol), p.HostPort); !c.lost[k] {
			out = append(out, k)
		}
	}
	if len(c.ports) == 0 { // failed ADD: only the fixed ports are known
		for _, p := range c.pod.Ports {
			if p.HostPort > 0 {
				out = append(out, fmt.Sprintf("%s:%d", strings.ToLower(p.Proto), p.HostPort))
			}
		}
	}
	return out
}

// check evaluates every oracle after a whole step (including its follow-ups).
func (w *hpWorld) check(kind string, actor *hpCtr) {
	run := w.run
	run.Count("checks", 1)
	// 1. batches the kernel would refuse
	if rj := w.ipt.Rejects(); len(rj) > 0 {
		w.ipt.ResetRejects()
		run.Count("fake_rejects", int64(len(rj)))
		for _, r := range rj {
			// a refused single check/delete of a KUBE-HOSTPORTS jump whose target chain does not exist: the jump cannot
			// exist either, nothing is lost and no batch is refused (galaxy tolerates exactly this since f28808b)
			if r.Op == "-D" && r.Kind == "missing-chain" && strings.HasPrefix(r.Data, "KUBE-HOSTPORTS ") &&
				strings.Contains(r.Reason, "Couldn't load target `KUBE-HP-") {
				run.Count("benign_refused_delete_of_jump_to_missing_chain", 1)
				continue
			}
			switch r.Kind {
			case "missing-chain", "chain-in-use", "exists":
				w.violate("daemon-"+kind+"-batch-rejected-"+r.Kind, fmt.Sprintf("iptables refused a command galaxy issued during step %q: %s %s: %s",
					kind, r.Op, r.Data, r.Reason), map[string]interface{}{"rejected": rj})
				return
			}
		}
	}
	// 2. foreign part byte-identical
	fn, ff := foreignLines(w.ipt.Dump("nat")), foreignLines(w.ipt.Dump("filter"))
	run.Count("foreign_lines_compared", int64(len(fn)+len(ff)))
	if strings.Join(fn, "\n") != strings.Join(w.plantedNat, "\n") || strings.Join(ff, "\n") != strings.Join(w.plantedFlt, "\n") {
		w.violate("daemon-"+kind+"-foreign-rules-changed", "foreign chains/rules differ from the planted ones", map[string]interface{}{
			"planted_nat": w.plantedNat, "now_nat": fn, "planted_filter": w.plantedFlt, "now_filter": ff})
		return
	}
	actorName := ""
	if actor != nil {
		actorName = actor.pod.Name
	}
	// 3. mappings
	want := map[string]string{} // key -> pod name
	for _, c := range w.ctrs {
		if c.rules {
			for _, k := range c.expectedMappings() {
				want[k] = c.pod.Name
			}
		}
	}
	got := observedMappings(w.ipt.Chains("nat"))
	run.Count("mappings_compared", int64(len(want)))
	seen := map[string]int{}
	for _, m := range got {
		seen[m.key]++
		if _, ok := want[m.key]; ok && seen[m.key] == 1 {
			continue
		}
		sig := "daemon-" + kind + "-left-rules"
		if m.owner != actorName {
			sig = "daemon-other-pod-rules-changed-" + kind
		}
		w.violate(sig, fmt.Sprintf("after step %q (actor %s): mapping/chain %q (comment pod %q) is in the NAT table but belongs to no live pod",
			kind, actorName, m.key, m.owner), map[string]interface{}{"expected_mappings": want})
		return
	}
	for k, owner := range want {
		if seen[k] == 0 {
			sig := "daemon-" + kind + "-rules-missing"
			if owner != actorName && !strings.Contains(kind, "restart") {
				sig = "daemon-other-pod-rules-changed-" + kind
			}
			w.violate(sig, fmt.Sprintf("after step %q (actor %s): mapping %q of live pod %s is not in the NAT table", kind, actorName, k, owner),
				map[string]interface{}{"expected_mappings": want, "observed": got})
			return
		}
	}
	// 4. sockets of this process
	bound, err := ownBoundPortsStable(func() { run.Count("proc_net_snapshots_reread", 1) })
	if err != nil {
		run.Inconclusive("cannot read /proc: " + err.Error())
		return
	}
	run.Count("socket_probes", 1)
	// the harness's own HTTP listener (kernel-chosen port, possibly one a pod held before the restart) and whatever
	// this process held before the world started are not galaxy's
	delete(bound, w.srvKey)
	for k := range w.baseline {
		delete(bound, k)
	}
	expect, anyState := map[string]*hpCtr{}, map[string]bool{}
	for k := range w.held {
		expect[k] = nil
	}
	distinct := map[string]string{}
	for _, c := range w.ctrs {
		for _, k := range c.socketKeys() {
			switch c.sock {
			case sockOpen:
				if other, dup := distinct[k]; dup {
					w.violate("daemon-hostport-handed-out-twice", fmt.Sprintf("host port %s is recorded for live pods %s and %s", k, other, c.pod.Name), nil)
					return
				}
				distinct[k] = c.pod.Name
				expect[k] = c
			case sockAny:
				anyState[k] = true
				if bound[k] {
					run.Count("observed_gc_cleaned_container_socket_still_bound", 1)
				}
			}
		}
	}
	for k := range bound {
		if anyState[k] {
			continue
		}
		if _, ok := expect[k]; ok {
			continue
		}
		var owner *hpCtr
		for _, c := range w.ctrs {
			for _, sk := range c.socketKeys() {
				if sk == k {
					owner = c
				}
			}
		}
		sig := "daemon-" + kind + "-left-socket-open"
		who := "no known pod (a port the kernel chose)"
		if owner != nil {
			who = owner.pod.Name
			if owner != actor {
				sig = "daemon-other-pod-socket-left-open-" + kind
			}
			if owner.reopened {
				sig += "-after-restart"
			}
		}
		w.violate(sig, fmt.Sprintf("after step %q (actor %s): this process still holds %s, which belongs to %s and must be closed",
			kind, actorName, k, who), map[string]interface{}{"bound_now": keysOf(bound)})
		return
	}
	for k, c := range expect {
		if c != nil && c.lost[k] {
			continue
		}
		if !bound[k] {
			if c != nil && strings.Contains(kind, "restart") && !c.hasRandom() && c.noneBound(bound) && c.anyHeldByOther() {
				// same for a fixed port that another process bound while the daemon was down (it still holds it)
				run.Count("restart_pod_not_rebound_fixed_port_held_by_other_process", 1)
				if c.lost == nil {
					c.lost = map[string]bool{}
				}
				for _, sk := range c.socketKeys() {
					c.lost[sk] = true
				}
				continue
			}
			if c != nil && strings.Contains(kind, "restart") && c.hasRandom() && c.noneBound(bound) {
				// "port maybe taken by other process during restart, but we can do nothing about that" (server.go):
				// a kernel-chosen port was released when the old daemon died; anything on the node (an outgoing
				// connection, another pod's random port) may have got it meanwhile, and OpenHostports re-opens a pod's
				// ports all-or-nothing. Environment, not behaviour - but only for pods that have such a port, and
				// only if the pod was left entirely unbound.
				run.Count("restart_pod_not_rebound_kernel_chosen_port_lost", 1)
				if heldByOther(k) {
					run.Count("restart_lost_port_still_held_by_other_at_probe", 1)
				}
				if c.lost == nil {
					c.lost = map[string]bool{}
				}
				for _, sk := range c.socketKeys() {
					c.lost[sk] = true
				}
				continue
			}
			sig := "daemon-" + kind + "-hostport-not-bound"
			who := "the harness"
			if c != nil {
				who = c.pod.Name
				if c != actor && !strings.Contains(kind, "restart") {
					sig = "daemon-other-pod-socket-closed-" + kind
				}
			}
			w.violate(sig, fmt.Sprintf("after step %q (actor %s): %s of %s is not bound by this process", kind, actorName, k, who),
				map[string]interface{}{"bound_now": keysOf(bound)})
			return
		}
	}
	// 5. port-state files of our own containers
	files := map[string]bool{}
	if m, err := filepath.Glob(filepath.Join(galaxyStateDir, "port", w.env.cidPrefix+"*")); err == nil {
		for _, f := range m {
			files[filepath.Base(f)] = true
		}
	}
	for _, c := range w.ctrs {
		if c.cid == "" {
			continue
		}
		switch {
		case files[c.cid] && !c.file:
			sig := "daemon-" + kind + "-left-port-file"
			if c != actor {
				sig = "daemon-other-pod-port-file-changed-" + kind
			}
			data, _ := ioutil.ReadFile(filepath.Join(galaxyStateDir, "port", c.cid))
			w.violate(sig, fmt.Sprintf("after step %q (actor %s): port file of %s (%s) still exists: %s", kind, actorName, c.cid, c.pod.Name, data), nil)
			return
		case !files[c.cid] && c.file:
			sig := "daemon-" + kind + "-port-file-missing"
			if c != actor {
				sig = "daemon-other-pod-port-file-changed-" + kind
			}
			w.violate(sig, fmt.Sprintf("after step %q (actor %s): port file of live container %s (%s) is gone", kind, actorName, c.cid, c.pod.Name), nil)
			return
		}
	}
}

// busyPortKey extracts "proto:port" from galaxy's "cannot open hostport N ...: listen proto :N: bind: address already in use".
func busyPortKey(body string) string {
	if !strings.Contains(body, "address already in use") {
		return ""
	}
	i := strings.Index(body, ": listen ")
	if i < 0 {
		return ""
	}
	var proto string
	var port int
	if _, err := fmt.Sscanf(body[i+len(": listen "):], "%s :%d:", &proto, &port); err != nil {
		return ""
	}
	return fmt.Sprintf("%s:%d", proto, port)
}

// ownsPort: does a socket of this process hold the port (then galaxy itself is the holder: not environment)?
func (w *hpWorld) ownsPort(key string) bool {
	b, err := ownBoundPortsStable(nil)
	if err != nil {
		return true
	}
	return b[key]
}

// hasRandom: does the pod have a port the kernel chose (hostPort 0 + annotation)?
func (c *hpCtr) hasRandom() bool {
	for _, pp := range c.pod.Ports {
		if pp.HostPort == 0 && c.pod.PortMapAnn {
			return true
		}
	}
	return false
}

func (c *hpCtr) anyHeldByOther() bool {
	for _, sk := range c.socketKeys() {
		if heldByOther(sk) {
			return true
		}
	}
	return false
}

func (c *hpCtr) noneBound(bound map[string]bool) bool {
	for _, sk := range c.socketKeys() {
		if bound[sk] {
			return false
		}
	}
	return true
}

// heldByOther: the port cannot be bound right now (and we know this process does not hold it).
func heldByOther(key string) bool {
	parts := strings.SplitN(key, ":", 2)
	var port int
	fmt.Sscanf(parts[1], "%d", &port)
	if parts[0] == "tcp" {
		l, err := net.Listen("tcp", fmt.Sprintf(":%d", port))
		if err != nil {
			return true
		}
		l.Close()
		return false
	}
	u, err := net.ListenUDP("udp", &net.UDPAddr{Port: port})
	if err != nil {
		return true
	}
	u.Close()
	return false
}

func keysOf(m map[string]bool) []string {
	var out []string
	for k := range m {
		out = append(out, k)
	}
	sort.Strings(out)
	return out
}

// runHistory executes one history (optionally with one fault) in a fresh world. It returns the iptables operation
// count of every step (fault-free runs) and whether a violation was recorded.
func runHistory(run *evid.Run, env *runEnv, cfg *staticConf, h *hpHistory, fault *hpFault, caseID string) ([]int, bool) {
	w, err := newHPWorld(run, env, cfg, h, fault, caseID)
	if err != nil {
		run.Inconclusive("world: " + err.Error())
		return nil, true
	}
	defer w.teardown()
	for i := range h.Steps {
		w.step(i)
		if w.violated {
			return w.opsPerStep, true
		}
	}
	// a pod the history expected to be refused (its port clash vanished because an earlier faulted ADD never came up)
	// may still be live: tear it down like the others
	hh := *h
	hh.Steps = append([]hpStep{}, h.Steps...)
	for i, c := range w.ctrs {
		if c.rules || c.file || c.sock == sockOpen {
			hh.Steps = append(hh.Steps, hpStep{Kind: "del", Pod: i})
		}
	}
	w.h = &hh
	for i := len(h.Steps); i < len(hh.Steps); i++ {
		w.step(i)
		if w.violated {
			return w.opsPerStep, true
		}
	}
	// everything has been torn down: nothing of any pod may be left
	w.curStep = len(hh.Steps)
	for _, c := range w.ctrs {
		if c.rules || c.file || c.sock == sockOpen {
			run.Inconclusive(fmt.Sprintf("history %d ends with a live pod: generator bug", h.Index))
			return w.opsPerStep, true
		}
	}
	w.check("final", nil)
	run.Count("histories_completed", 1)
	if fault != nil {
		if fault.HitOp != "" {
			run.Count("faults_hit", 1)
			run.Count("faults_hit_op_"+fault.HitOp, 1)
		} else {
			run.Count("faults_not_reached", 1)
		}
	}
	return w.opsPerStep, w.violated
}

func posClass(k, n int) string {
	switch {
	case k == 1:
		return "first"
	case k == n:
		return "last"
	}
	return "middle"
}

// c14Batch runs histories [from,to) with their fault variants (body of a child process).
func c14Batch(run *evid.Run, env *runEnv, tier string, from, to, portBase int) {
	rng0 := run.Rng("c14-cfg", 0)
	cfg := genStaticConf(rng0, confOpts{nNets: 1, distinctTypes: true})
	cfg.Default, cfg.ENI = []string{cfg.Nets[0].Name}, ""
	{
		var m map[string]interface{}
		_ = json.Unmarshal([]byte(cfg.JSONText), &m)
		m["DefaultNetworks"], m["ENIIPNetwork"] = cfg.Default, ""
		b, _ := json.Marshal(m)
		cfg.JSONText = string(b)
	}
	alloc := hostports.New()
	_ = portBase
	for hi := from; hi < to; hi++ {
		rng := run.Rng("c14-history", hi)
		h := genHistory(rng, alloc, hi)
		shape := h.shape()
		caseID := fmt.Sprintf("%d:hp:%d", run.Seed, hi)
		ops, bad := runHistory(run, env, cfg, h, nil, caseID)
		if ops != nil {
			run.Nontrivial("hp|" + shape + "|nofault")
		}
		if hi < 2 {
			run.Sample(map[string]interface{}{"history": h, "iptables_ops_per_step": ops})
		}
		if bad {
			continue // sockets may have leaked: variants of this history would only echo it
		}
		// fault enumeration
		var cand []int
		for i, n := range ops {
			if n > 0 && i < len(h.Steps) && h.Steps[i].Kind != "hold" {
				cand = append(cand, i)
			}
		}
		if tier != "thorough" {
			// one step of each class (add, del, gc, restart), chosen at random
			rng.Shuffle(len(cand), func(i, j int) { cand[i], cand[j] = cand[j], cand[i] })
			var pick []int
			seenClass := map[string]bool{}
			for _, si := range cand {
				cl := strings.TrimPrefix(strings.TrimSuffix(h.Steps[si].Kind, "-taken"), "late-")
				if !seenClass[cl] {
					seenClass[cl] = true
					pick = append(pick, si)
				}
			}
			cand = pick
		}
		for _, si := range cand {
			n := ops[si]
			var ks []int
			if tier == "thorough" || n <= 2 {
				for k := 1; k <= n; k++ {
					ks = append(ks, k)
				}
			} else {
				ks = []int{1, n}
				if n > 2 && rng.Intn(2) == 0 {
					ks = append(ks, 2+rng.Intn(n-2))
				}
			}
			for _, k := range ks {
				f := &hpFault{Step: si, K: k, Retry: rng.Intn(8) == 0}
				run.Count("faults_injected", 1)
				runHistory(run, env, cfg, h, f, fmt.Sprintf("%s:step%d:k%d", caseID, si, k))
				if f.HitOp != "" {
					run.Nontrivial(fmt.Sprintf("hp|%s|fault=%s:%s:%s", shape, h.Steps[si].Kind, posClass(k, n), f.HitOp))
					run.Count("faults_hit_in_"+h.Steps[si].Kind, 1)
				}
			}
		}
	}
}

// ---------------------------------------------------------------------------------------------------------------
// parent / child plumbing

type c14Spec struct {
	Mode      string `json:"mode"`
	From      int    `json:"from"`
	To        int    `json:"to"`
	Dir       string `json:"dir"`
	PluginBin string `json:"plugin_bin"`
	CidPrefix string `json:"cid_prefix"`
	PortBase  int    `json:"port_base"`
}

func c14Child(fl *evid.Flags) int {
	var spec c14Spec
	if err := json.Unmarshal([]byte(fl.Child), &spec); err != nil {
		fmt.Fprintf(os.Stderr, "bad child spec: %v\n", err)
		return evid.ExitBroken
	}
	run := evid.NewRun("C14", fl.Tier, fl.Seed, "exploration", "cnisim")
	env, err := newEnvAt(spec.Dir, spec.CidPrefix, spec.PluginBin)
	if err != nil {
		fmt.Fprintf(os.Stderr, "child env: %v\n", err)
		return evid.ExitBroken
	}
	c14Batch(run, env, fl.Tier, spec.From, spec.To, spec.PortBase)
	cleanPrefix(spec.CidPrefix)
	if err := run.WritePartial(filepath.Join(spec.Dir, "partial.json")); err != nil {
		return evid.ExitBroken
	}
	return 0
}

func c14Main(fl *evid.Flags, merge bool) int {
	run := evid.NewRun("C14", fl.Tier, fl.Seed, "exploration", "cnisim")
	run.Rule = "daemon-level host-port histories over a real Galaxy (requestFunc/setupPortMapping/cleanupPortMapping, port-state files, " +
		"setupIPtables after a restart, the collector's cleanIPtables) with the strict iptables fake, real sockets and the recording CNI " +
		"plugin: pods with 1-4 ports (fixed probed-free and/or kernel-chosen via the portmapping annotation, TCP/UDP, hostIP), pods " +
		"without ports, planted foreign NAT rules; steps ADD, DEL, repeated DEL, ADD on a taken port (other pod / harness socket), " +
		"restart, DEL after restart, gc clean, late DEL; then for sampled (thorough: all) steps every k: the k-th iptables operation " +
		"of that step fails once, followed by the kubelet's DEL, a repeated DEL and one gc clean. Non-trivial = an executed history; " +
		"distinct = (history shape, faulted step kind, fault position class, operation hit)."
	run.Assume("strict iptables fake = kernel model (harness/fakes/iptables.go); sockets observed through /proc/net/* joined with /proc/self/fd")
	run.Assume("a daemon restart is modelled by closing the old handler's sockets (the kernel would), a new PortMappingHandler and Galaxy over the same fake and kube objects, then setupIPtables")
	run.Assume("a container cleaned by the collector without any DEL may keep its socket (galaxy has no hook to close it): observed and counted, not judged")
	if merge {
		run.MergeEarlier("cnisim")
	}
	env := setupEnv(run, "c14")
	if env == nil {
		return run.Finish(1)
	}
	defer env.cleanup()
	nHist := evid.Tiered(fl.Tier, 24, 480)
	nChild := evid.Tiered(fl.Tier, 6, 16)
	per := (nHist + nChild - 1) / nChild
	var wg sync.WaitGroup
	for ci := 0; ci < nChild; ci++ {
		wg.Add(1)
		go func(ci int) {
			defer wg.Done()
			to := (ci + 1) * per
			if to > nHist {
				to = nHist
			}
			spec := c14Spec{Mode: "c14", From: ci * per, To: to, Dir: filepath.Join(env.dir, fmt.Sprintf("hp%d", ci)),
				PluginBin: env.pluginBin, CidPrefix: fmt.Sprintf("%sh%d-", env.cidPrefix, ci), PortBase: 10000 + (ci%24)*400}
			c14RunChild(run, fl, spec)
		}(ci)
	}
	wg.Wait()
	for _, name := range []string{"steps_add_ok_with_ports", "steps_add_taken_refused", "steps_add_failed_by_fault", "steps_del_ok",
		"steps_del_ok_after_restart", "steps_del_failed_by_fault", "steps_redel", "steps_gc", "restarts", "pods_resynced_by_restart",
		"random_hostports_handed_out", "faults_hit", "socket_probes", "mappings_compared", "foreign_lines_compared", "histories_completed"} {
		if run.Counter(name) == 0 {
			run.Inconclusive("counter " + name + " is zero: the situation it stands for was never observed")
		}
	}
	if env, adds := run.Counter("add_failed_port_taken_by_other_process"), run.Counter("steps_add_ok"); env*20 > adds+env {
		run.Inconclusive(fmt.Sprintf("%d of %d ADDs lost their host port to another process: too much interference on this node", env, adds+env))
	}
	return run.Finish(evid.Tiered(fl.Tier, 40, 400))
}

func c14RunChild(run *evid.Run, fl *evid.Flags, spec c14Spec) {
	if err := os.MkdirAll(spec.Dir, 0755); err != nil {
		run.Inconclusive("child dir: " + err.Error())
		return
	}
	specJSON, _ := json.Marshal(spec)
	stderrPath := filepath.Join(spec.Dir, "stderr.log")
	ef, err := os.Create(stderrPath)
	if err != nil {
		run.Inconclusive("child stderr: " + err.Error())
		return
	}
	cmd := exec.Command(os.Args[0], "-prop", "C14", "-tier", fl.Tier, "-seed", fmt.Sprint(fl.Seed), "-child", string(specJSON))
	cmd.Stderr, cmd.Stdout = ef, ef
	if err := cmd.Start(); err != nil {
		run.Inconclusive("child start: " + err.Error())
		return
	}
	done := make(chan error, 1)
	go func() { done <- cmd.Wait() }()
	var werr error
	select {
	case werr = <-done:
	case <-time.After(60 * time.Minute):
		_ = cmd.Process.Kill()
		<-done
		run.Inconclusive(fmt.Sprintf("C14 child %d-%d: watchdog expired", spec.From, spec.To))
	}
	ef.Close()
	cleanPrefix(spec.CidPrefix)
	p, perr := evid.ReadPartial(filepath.Join(spec.Dir, "partial.json"))
	if perr != nil || werr != nil {
		head, fatal := scanFatal(stderrPath)
		run.Inconclusive(fmt.Sprintf("C14 child %d-%d failed (wait %v, partial %v) %s %s", spec.From, spec.To, werr, perr, fatal,
			strings.Join(head, " | ")))
		return
	}
	run.Merge(p)
}
