// Command cnisim is the engine for C12 (CNI multi-network ADD/DEL ordering, pairing, rollback, isolation) and C13
// (the plugin sees exactly the IPs galaxy-ipam allocated). It runs a real Galaxy daemon (galaxy.VerifNew: real
// checkNetworkConf, resolveNetworks, cniutil.CmdAdd/CmdDel, real exec of delegates) against a recording fake CNI
// plugin binary and compares what the plugins were asked to do with an independent reference model.
package main

import (
	"bufio"
	"encoding/json"
	"flag"
	"fmt"
	"io/ioutil"
	"os"
	"os/exec"
	"path/filepath"
	"strings"
	"sync"
	"time"

	"verif/harness/evid"
)

type childSpec struct {
	Shard      int    `json:"shard"`
	Goroutines int    `json:"goroutines"`
	Rounds     int    `json:"rounds"`
	Dir        string `json:"dir"`
	PluginBin  string `json:"plugin_bin"`
	CidPrefix  string `json:"cid_prefix"`
}

var mergeFlag = flag.Bool("merge", false, "fold the evidence an earlier engine of the same check wrote into this run (C14)")

func main() {
	fl := evid.ParseFlags()
	_ = flag.CommandLine
	if fl.Replay != "" {
		// a replay file names seed and tier; every case is a function of (seed, tier), so re-running them replays it
		if data, err := ioutil.ReadFile(fl.Replay); err == nil {
			var rp struct {
				Property string `json:"property"`
				Tier     string `json:"tier"`
				Seed     int64  `json:"seed"`
			}
			if json.Unmarshal(data, &rp) == nil && rp.Property != "" {
				fl.Prop, fl.Tier, fl.Seed = rp.Property, rp.Tier, rp.Seed
			}
		}
	}
	switch fl.Prop {
	case "C12":
		if fl.Child != "" {
			os.Exit(c12Child(fl))
		}
		os.Exit(c12Main(fl))
	case "C13":
		os.Exit(c13Main(fl))
	case "C14":
		if fl.Child != "" {
			os.Exit(c14Child(fl))
		}
		os.Exit(c14Main(fl, *mergeFlag))
	default:
		fmt.Printf("cnisim: unknown property %q (want C12, C13 or C14)\n", fl.Prop)
		os.Exit(evid.ExitBroken)
	}
}

func setupEnv(run *evid.Run, tag string) *runEnv {
	prefix := fmt.Sprintf("vf%d-%d-", os.Getpid(), run.Seed)
	env, err := newEnv(tag, prefix, "")
	if err != nil {
		run.Inconclusive("cannot create run dir: " + err.Error())
		return nil
	}
	if err := env.buildPlugin(); err != nil {
		run.Inconclusive(err.Error())
		env.cleanup()
		return nil
	}
	return env
}

func c12Main(fl *evid.Flags) int {
	run := evid.NewRun("C12", fl.Tier, fl.Seed, "fault_enumeration", "cnisim")
	run.Rule = "real Galaxy (VerifNew) + recording fake plugin binary. Cases: (1) sequential isolation scenarios A=[n1,n2];B=[n2];" +
		"C=[n2,n1] over one daemon; (2) enumeration for N<=3 of all 2^N ADD failure masks x every rollback-DEL failure mask, " +
		"and all DEL failure masks over two consecutive DELs (second a submask of the first); (3) random configs (JsonConf maps, " +
		".conf/.json/subdir files), pods (comma/JSON/no annotation, ENI, defaults, repeated networks, unknown networks), random " +
		"ADD/DEL sequences with random failure plans; (4) the same concurrently from 8-32 goroutines in child processes, against a " +
		"daemon with a real PolicyManager (policies selecting some pods, a goroutine delivering policy/pod events and full syncs " +
		"meanwhile) and ~40% of the pods carrying host ports (hostPort 0 + portmapping annotation, or probed-free fixed ports; TCP/UDP). " +
		"A case is non-trivial when its request was issued and evaluated; distinct = distinct (N, masks) / (form, N, op-shape)."
	run.Assume("the fake plugin binary reports what it received faithfully (log written under flock, one line per invocation)")
	run.Assume("fake kube client stands in for the API server; pods exist before ADD (getPod's 5 s retry is not exercised)")
	run.Assume("accumulation of extended args in CNI_ARGS across delegates of one request is inside the contract: it depends only on the pod and the static config")
	env := setupEnv(run, "c12")
	if env == nil {
		return run.Finish(1)
	}
	defer env.cleanup()

	thorough := fl.Tier == "thorough"
	start := time.Now()
	phaseSequentialIsolation(run, env, evid.Tiered(fl.Tier, 18, 60))
	tIso := time.Since(start)
	phaseEnumeration(run, env, evid.Tiered(fl.Tier, 2, 12))
	tEnum := time.Since(start)
	phaseRandom(run, env, evid.Tiered(fl.Tier, 24, 200), evid.Tiered(fl.Tier, 8, 15))
	phaseConflist(run, env)
	tRand := time.Since(start)
	shards, gor, rounds := 2, 12, 6
	if thorough {
		shards, gor, rounds = 24, 32, 40
	}
	c12ConcurrentChildren(run, env, fl, shards, gor, rounds)
	run.Set("phase_wall_s", map[string]float64{"isolation": tIso.Seconds(), "enumeration": (tEnum - tIso).Seconds(),
		"random": (tRand - tEnum).Seconds(), "concurrent": (time.Since(start) - tRand).Seconds()})

	for _, name := range []string{"enum_add_patterns", "enum_del_patterns", "add_rollbacks_observed", "add_rollbacks_multi_del",
		"del_retry_of_failed_observed", "del_retry_multi_observed", "del_without_state_noop_observed", "del_reverse_multi_observed",
		"isolation_checks", "sequential_isolation_scenarios_shared_second_network", "add_default_networks_selected",
		"add_eni_network_selected", "add_form_comma", "add_form_json", "ifname_from_annotation_checked",
		"ifname_default_ethN_checked", "cni_args_with_extended_args_checked", "injected_add_failures_hit",
		"injected_del_failures_hit"} {
		if run.Counter(name) == 0 {
			run.Inconclusive("counter " + name + " is zero: the situation it stands for was never observed")
		}
	}
	if run.Counter("concurrent_requests") == 0 && run.Counter("concurrent_child_fatal") == 0 {
		run.Inconclusive("concurrent phase observed nothing")
	}
	if run.Counter("concurrent_requests") > 0 {
		for _, name := range []string{"concurrent_adds_with_ports", "hostport_sockets_opened", "concurrent_dels_through_port_cleanup",
			"policy_syncs_overlapped_with_cni_requests", "concurrent_adds_of_policy_selected_pods"} {
			if run.Counter(name) == 0 {
				run.Inconclusive("concurrent phase: counter " + name + " is zero, the port-mapping / policy paths were not reached")
			}
		}
	}
	return run.Finish(evid.Tiered(fl.Tier, 100, 400))
}

func c12ConcurrentChildren(run *evid.Run, env *runEnv, fl *evid.Flags, shards, goroutines, rounds int) {
	par := 1
	if fl.Tier == "thorough" {
		par = 4
	}
	sem := make(chan struct{}, par)
	var wg sync.WaitGroup
	for s := 0; s < shards; s++ {
		wg.Add(1)
		sem <- struct{}{}
		go func(s int) {
			defer wg.Done()
			defer func() { <-sem }()
			g := goroutines
			if s%3 == 1 {
				g = 8
			}
			runOneChild(run, env, fl, childSpec{Shard: s, Goroutines: g, Rounds: rounds,
				Dir: filepath.Join(env.dir, fmt.Sprintf("child%d", s)), PluginBin: env.pluginBin,
				CidPrefix: fmt.Sprintf("%sc%d-", env.cidPrefix, s)})
		}(s)
	}
	wg.Wait()
}

func runOneChild(run *evid.Run, env *runEnv, fl *evid.Flags, spec childSpec) {
	if err := os.MkdirAll(spec.Dir, 0755); err != nil {
		run.Inconclusive("child dir: " + err.Error())
		return
	}
	specJSON, _ := json.Marshal(spec)
	stderrPath := filepath.Join(spec.Dir, "stderr.log")
	stderrFile, err := os.Create(stderrPath)
	if err != nil {
		run.Inconclusive("child stderr: " + err.Error())
		return
	}
	cmd := exec.Command(os.Args[0], "-prop", "C12", "-tier", fl.Tier, "-seed", fmt.Sprint(fl.Seed), "-child", string(specJSON))
	cmd.Stderr = stderrFile
	cmd.Stdout = stderrFile
	done := make(chan error, 1)
	if err := cmd.Start(); err != nil {
		run.Inconclusive("child start: " + err.Error())
		return
	}
	go func() { done <- cmd.Wait() }()
	var werr error
	select {
	case werr = <-done:
	case <-time.After(20 * time.Minute):
		_ = cmd.Process.Kill()
		<-done
		stderrFile.Close()
		run.Inconclusive(fmt.Sprintf("concurrent child %d: watchdog expired", spec.Shard))
		cleanPrefix(spec.CidPrefix)
		return
	}
	stderrFile.Close()
	defer cleanPrefix(spec.CidPrefix)
	run.Count("concurrent_children", 1)
	partial, perr := evid.ReadPartial(filepath.Join(spec.Dir, "partial.json"))
	if perr == nil && (werr == nil || exitCode(werr) == 66) {
		// exit code 66 = the race detector (when race-built for C19) reported something; the reports are in its log files
		if werr != nil {
			run.Count("concurrent_children_exit_66_race_reports", 1)
		}
		run.Merge(partial)
		return
	}
	// the child died: find out why
	head, fatal := scanFatal(stderrPath)
	journal := tailLines(filepath.Join(spec.Dir, "journal.jsonl"), spec.Goroutines+4)
	if fatal != "" {
		run.Count("concurrent_child_fatal", 1)
		sig := "fatal-concurrent-map-access-on-shared-netconf"
		if !strings.Contains(fatal, "concurrent map") {
			sig = "daemon-process-dies-under-concurrent-cni-requests"
		}
		run.Violate(evid.Violation{Sig: sig,
			Msg: fmt.Sprintf("daemon process died under %d concurrent CNI requests over shared network configs: %s",
				spec.Goroutines, fatal),
			Witness: map[string]interface{}{"child_spec": spec, "fatal": fatal, "trace_head": head,
				"last_journalled_inputs": journal},
			Case: fmt.Sprintf("%d:conc:%d", fl.Seed, spec.Shard)})
		return
	}
	run.Inconclusive(fmt.Sprintf("concurrent child %d failed without a recognisable fatal error (wait: %v, partial: %v): %s",
		spec.Shard, werr, perr, strings.Join(head, " | ")))
}

func exitCode(err error) int {
	if ee, ok := err.(*exec.ExitError); ok {
		return ee.ExitCode()
	}
	return -1
}

func cleanPrefix(prefix string) {
	for _, d := range []string{galaxyStateDir, filepath.Join(galaxyStateDir, "port")} {
		if m, err := filepath.Glob(filepath.Join(d, prefix+"*")); err == nil {
			for _, f := range m {
				_ = os.Remove(f)
			}
		}
	}
}

// scanFatal returns the first lines of a Go fatal error / panic trace found in the file.
func scanFatal(path string) (head []string, fatal string) {
	f, err := os.Open(path)
	if err != nil {
		return nil, ""
	}
	defer f.Close()
	sc := bufio.NewScanner(f)
	sc.Buffer(make([]byte, 1<<20), 1<<20)
	for sc.Scan() {
		line := sc.Text()
		if fatal == "" && (strings.HasPrefix(line, "fatal error:") || strings.HasPrefix(line, "panic:")) {
			fatal = line
		}
		if fatal != "" {
			head = append(head, line)
			if len(head) >= 60 {
				break
			}
		}
	}
	if fatal == "" {
		head = tailLines(path, 10)
	}
	return head, fatal
}

func tailLines(path string, n int) []string {
	data, err := ioutil.ReadFile(path)
	if err != nil {
		return nil
	}
	lines := strings.Split(strings.TrimRight(string(data), "\n"), "\n")
	if len(lines) > n {
		lines = lines[len(lines)-n:]
	}
	for i := range lines {
		if len(lines[i]) > 1500 {
			lines[i] = lines[i][:1500] + "..."
		}
	}
	return lines
}

func c12Child(fl *evid.Flags) int {
	var spec childSpec
	if err := json.Unmarshal([]byte(fl.Child), &spec); err != nil {
		fmt.Fprintf(os.Stderr, "bad child spec: %v\n", err)
		return evid.ExitBroken
	}
	run := evid.NewRun("C12", fl.Tier, fl.Seed, "fault_enumeration", "cnisim")
	env, err := newEnvAt(spec.Dir, spec.CidPrefix, spec.PluginBin)
	if err != nil {
		fmt.Fprintf(os.Stderr, "child env: %v\n", err)
		return evid.ExitBroken
	}
	jf, err := os.OpenFile(filepath.Join(spec.Dir, "journal.jsonl"), os.O_WRONLY|os.O_CREATE|os.O_APPEND, 0644)
	if err != nil {
		fmt.Fprintf(os.Stderr, "child journal: %v\n", err)
		return evid.ExitBroken
	}
	var jmu sync.Mutex
	journal := func(v interface{}) {
		b, _ := json.Marshal(v)
		jmu.Lock()
		jf.Write(append(b, '\n'))
		jmu.Unlock()
	}
	runConcurrent(run, env, spec.Shard, spec.Goroutines, spec.Rounds, journal)
	jf.Close()
	cleanPrefix(spec.CidPrefix)
	if err := run.WritePartial(filepath.Join(spec.Dir, "partial.json")); err != nil {
		fmt.Fprintf(os.Stderr, "child partial: %v\n", err)
		return evid.ExitBroken
	}
	return 0
}
