package main

import (
	"bytes"
	_ "embed"
	"encoding/json"
	"fmt"
	"io"
	"io/ioutil"
	"net/http"
	"net/http/httptest"
	"os"
	"os/exec"
	"path/filepath"
	"strings"
	"sync"

	corev1 "k8s.io/api/core/v1"
	"k8s.io/client-go/kubernetes"
	"k8s.io/client-go/kubernetes/fake"
	"tkestack.io/galaxy/pkg/galaxy"
	"tkestack.io/galaxy/pkg/galaxy/options"
	"tkestack.io/galaxy/pkg/network/portmapping"
	"tkestack.io/galaxy/pkg/policy"
	utiliptables "tkestack.io/galaxy/pkg/utils/iptables"
	"verif/harness/fakes"
)

//go:embed plugin/main.go
var pluginSource []byte

// galaxyStateDir is cniutil's (unexported) state directory.
const galaxyStateDir = "/var/lib/cni/galaxy"

// runEnv is the per-run (or per-child) file system environment of the fake plugin.
type runEnv struct {
	dir       string
	binDir    string
	stateDir  string
	planDir   string
	logPath   string
	pluginBin string
	cidPrefix string
	ownDir    bool
	linked    map[string]bool
	mu        sync.Mutex
}

// newEnv creates <base>/<tag>/{bin,state,state/plan}. base is $VERIF_BUILD_DIR or a fresh temp dir.
func newEnv(tag, cidPrefix, pluginBin string) (*runEnv, error) {
	base := os.Getenv("VERIF_BUILD_DIR")
	if base == "" {
		d, err := os.MkdirTemp("", "cnisim")
		if err != nil {
			return nil, err
		}
		e, err := newEnvAt(d, cidPrefix, pluginBin)
		if e != nil {
			e.ownDir = true
		}
		return e, err
	}
	return newEnvAt(filepath.Join(base, fmt.Sprintf("%s.%d", tag, os.Getpid())), cidPrefix, pluginBin)
}

// newEnvAt creates the environment in the given directory.
func newEnvAt(dir, cidPrefix, pluginBin string) (*runEnv, error) {
	e := &runEnv{dir: dir, cidPrefix: cidPrefix, pluginBin: pluginBin, linked: map[string]bool{}}
	e.binDir = filepath.Join(e.dir, "bin")
	e.stateDir = filepath.Join(e.dir, "state")
	e.planDir = filepath.Join(e.stateDir, "plan")
	e.logPath = filepath.Join(e.stateDir, "log.jsonl")
	for _, d := range []string{e.binDir, e.planDir} {
		if err := os.MkdirAll(d, 0755); err != nil {
			return nil, err
		}
	}
	if err := ioutil.WriteFile(e.logPath, nil, 0644); err != nil {
		return nil, err
	}
	return e, nil
}

// buildPlugin builds the embedded fake plugin as a stand-alone module (stdlib only) into the env dir.
func (e *runEnv) buildPlugin() error {
	if e.pluginBin != "" {
		return nil
	}
	src := filepath.Join(e.dir, "pluginsrc")
	if err := os.MkdirAll(src, 0755); err != nil {
		return err
	}
	if err := ioutil.WriteFile(filepath.Join(src, "main.go"), pluginSource, 0644); err != nil {
		return err
	}
	if err := ioutil.WriteFile(filepath.Join(src, "go.mod"), []byte("module vfcniplugin\n\ngo 1.18\n"), 0644); err != nil {
		return err
	}
	out := filepath.Join(e.dir, "vfcniplugin")
	cmd := exec.Command("go", "build", "-o", out, ".")
	cmd.Dir = src
	cmd.Env = append(os.Environ(), "GOFLAGS=-mod=mod", "GOPROXY=off", "GOSUMDB=off", "GOTOOLCHAIN=local", "CGO_ENABLED=0")
	if b, err := cmd.CombinedOutput(); err != nil {
		return fmt.Errorf("building fake plugin: %v: %s", err, string(b))
	}
	e.pluginBin = out
	return nil
}

// linkType makes the plugin available under the given network type name.
func (e *runEnv) linkType(typ string) error {
	e.mu.Lock()
	defer e.mu.Unlock()
	if e.linked[typ] {
		return nil
	}
	dst := filepath.Join(e.binDir, typ)
	if err := os.Link(e.pluginBin, dst); err != nil {
		in, err2 := os.Open(e.pluginBin)
		if err2 != nil {
			return err2
		}
		defer in.Close()
		out, err2 := os.OpenFile(dst, os.O_WRONLY|os.O_CREATE|os.O_TRUNC, 0755)
		if err2 != nil {
			return err2
		}
		if _, err2 := io.Copy(out, in); err2 != nil {
			out.Close()
			return err2
		}
		if err2 := out.Close(); err2 != nil {
			return err2
		}
	}
	e.linked[typ] = true
	return nil
}

// setPlan writes the failure plan of one container (nil/empty removes it).
func (e *runEnv) setPlan(cid string, plan map[string]int) error {
	p := filepath.Join(e.planDir, cid+".json")
	if len(plan) == 0 {
		_ = os.Remove(p)
		return nil
	}
	data, _ := json.Marshal(plan)
	return ioutil.WriteFile(p, data, 0644)
}

// removeState removes galaxy's state file of one of our containers.
func (e *runEnv) removeState(cid string) {
	if strings.HasPrefix(cid, e.cidPrefix) {
		_ = os.Remove(filepath.Join(galaxyStateDir, cid))
		_ = os.Remove(filepath.Join(galaxyStateDir, "port", cid))
		_ = os.Remove(filepath.Join(e.planDir, cid+".json"))
	}
}

// stateFile returns the network names / ifnames galaxy currently holds for a container (nil if no file).
func stateFile(cid string) []string {
	data, err := ioutil.ReadFile(filepath.Join(galaxyStateDir, cid))
	if err != nil {
		return nil
	}
	var infos []struct {
		NetworkType string
		IfName      string
	}
	if json.Unmarshal(data, &infos) != nil {
		return []string{"<undecodable>"}
	}
	out := []string{}
	for _, i := range infos {
		out = append(out, i.NetworkType+"@"+i.IfName)
	}
	return out
}

// cleanup removes every state file carrying our prefix and the run dir if we created it.
func (e *runEnv) cleanup() {
	for _, d := range []string{galaxyStateDir, filepath.Join(galaxyStateDir, "port")} {
		if m, err := filepath.Glob(filepath.Join(d, e.cidPrefix+"*")); err == nil {
			for _, f := range m {
				_ = os.Remove(f)
			}
		}
	}
	_ = os.RemoveAll(e.dir)
}

// invRec is one line of the plugin log.
type invRec struct {
	Seq         int64  `json:"seq"`
	Type        string `json:"type"`
	Command     string `json:"command"`
	ContainerID string `json:"container_id"`
	IfName      string `json:"ifname"`
	NetNS       string `json:"netns"`
	Args        string `json:"args"`
	Path        string `json:"path"`
	Stdin       string `json:"stdin"`
	Failed      bool   `json:"failed"`
	IP          string `json:"ip,omitempty"`
}

// logReader reads the complete lines appended since the last call.
type logReader struct {
	path string
	off  int64
}

func (r *logReader) next() ([]invRec, error) {
	f, err := os.Open(r.path)
	if err != nil {
		return nil, err
	}
	defer f.Close()
	if _, err := f.Seek(r.off, io.SeekStart); err != nil {
		return nil, err
	}
	data, err := ioutil.ReadAll(f)
	if err != nil {
		return nil, err
	}
	end := bytes.LastIndexByte(data, '\n')
	if end < 0 {
		return nil, nil
	}
	data = data[:end+1]
	r.off += int64(len(data))
	var out []invRec
	for _, line := range bytes.Split(data, []byte{'\n'}) {
		if len(line) == 0 {
			continue
		}
		var rec invRec
		if err := json.Unmarshal(line, &rec); err != nil {
			return nil, fmt.Errorf("undecodable plugin log line %q: %v", string(line), err)
		}
		out = append(out, rec)
	}
	return out, nil
}

// nextFor returns the new records of one container (concurrent phase: other containers' lines are skipped).
func (r *logReader) nextFor(cid string) ([]invRec, error) {
	all, err := r.next()
	if err != nil {
		return nil, err
	}
	var out []invRec
	for _, rec := range all {
		if rec.ContainerID == cid {
			out = append(out, rec)
		}
	}
	return out, nil
}

// daemon is one real Galaxy built by VerifNew, served by an httptest server.
type daemon struct {
	g       *galaxy.Galaxy
	srv     *httptest.Server
	kube    *fake.Clientset
	cfg     *staticConf
	env     *runEnv
	confDir string
	client  *http.Client
	pmh     *portmapping.PortMappingHandler
}

const kubeletCNIPath = "/opt/cni/bin"

func newDaemon(env *runEnv, cfg *staticConf, tag string) (*daemon, error) {
	return newDaemonPM(env, cfg, tag, nil)
}

// newDaemonPM: mk (concurrent phase only) may supply the iptables handle of the port mapping handler and a real
// PolicyManager built over the daemon's kube client; nil keeps the daemon of the sequential phases (pm == nil).
func newDaemonPM(env *runEnv, cfg *staticConf, tag string,
	mk func(kube kubernetes.Interface) (utiliptables.Interface, *policy.PolicyManager)) (*daemon, error) {
	return buildDaemon(env, cfg, tag, mk, nil)
}

// overWorld is state that survives a daemon restart.
type overWorld struct {
	kube *fake.Clientset
	ipt  utiliptables.Interface
}

func buildDaemon(env *runEnv, cfg *staticConf, tag string,
	mk func(kube kubernetes.Interface) (utiliptables.Interface, *policy.PolicyManager), over *overWorld) (*daemon, error) {
	confDir := filepath.Join(env.dir, "conf-"+tag)
	if err := os.MkdirAll(confDir, 0755); err != nil {
		return nil, err
	}
	for rel, content := range cfg.Files {
		p := filepath.Join(confDir, rel)
		if err := os.MkdirAll(filepath.Dir(p), 0755); err != nil {
			return nil, err
		}
		if err := ioutil.WriteFile(p, []byte(content), 0644); err != nil {
			return nil, err
		}
	}
	for _, n := range cfg.Nets {
		if err := env.linkType(n.Type); err != nil {
			return nil, err
		}
	}
	// JsonConf goes through JSON text, as the real daemon reads it from its config file.
	var jc galaxy.JsonConf
	if err := json.Unmarshal([]byte(cfg.JSONText), &jc); err != nil {
		return nil, fmt.Errorf("generated json config does not decode: %v", err)
	}
	opts := options.NewServerRunOptions()
	opts.NetworkConfDir = confDir
	opts.CNIPaths = []string{env.binDir}
	pmh := portmapping.New("")
	pmh.Interface = fakes.NewIPTables(nil)
	kube := fake.NewSimpleClientset()
	var pm *policy.PolicyManager
	if over != nil {
		// daemon-level host-port mode (C14): the kube objects and the kernel outlive the daemon; the caller performs
		// the start-up pass itself
		kube, pmh.Interface = over.kube, over.ipt
	}
	if mk != nil {
		var ipt utiliptables.Interface
		ipt, pm = mk(kube)
		if ipt != nil {
			pmh.Interface = ipt
		}
		// what Galaxy.setupIPtables does at start (no pods yet): full port-mapping sync, then the basic rules
		if err := pmh.SetupPortMappingForAllPods(nil); err != nil {
			return nil, fmt.Errorf("SetupPortMappingForAllPods at start: %v", err)
		}
		if err := pmh.EnsureBasicRule(); err != nil {
			return nil, fmt.Errorf("EnsureBasicRule at start: %v", err)
		}
	}
	g, err := galaxy.VerifNew(jc, opts, kube, pmh, pm)
	if err != nil {
		return nil, fmt.Errorf("VerifNew: %v", err)
	}
	srv := httptest.NewServer(g.VerifHandler())
	return &daemon{g: g, srv: srv, kube: kube, cfg: cfg, env: env, confDir: confDir, pmh: pmh,
		client: &http.Client{Transport: &http.Transport{MaxIdleConnsPerHost: 64}}}, nil
}

func (d *daemon) close() {
	d.srv.Close()
	_ = os.RemoveAll(d.confDir)
}

// cniRequest is what the harness sends (what galaxy-sdn would send: its whole environment + stdin config).
type cniRequest struct {
	Command     string `json:"command"`
	ContainerID string `json:"container_id"`
	IfName      string `json:"ifname"`
	NetNS       string `json:"netns"`
	PodNS       string `json:"pod_ns"`
	PodName     string `json:"pod_name"`
}

func (r *cniRequest) baseArgs() string {
	return fmt.Sprintf("IgnoreUnknown=1;K8S_POD_NAMESPACE=%s;K8S_POD_NAME=%s;K8S_POD_INFRA_CONTAINER_ID=%s",
		r.PodNS, r.PodName, r.ContainerID)
}

func (d *daemon) send(r *cniRequest) (int, string, error) {
	body := struct {
		Env    map[string]string `json:"env,omitempty"`
		Config []byte            `json:"config,omitempty"`
	}{
		Env: map[string]string{
			"CNI_COMMAND":     r.Command,
			"CNI_CONTAINERID": r.ContainerID,
			"CNI_NETNS":       r.NetNS,
			"CNI_IFNAME":      r.IfName,
			"CNI_PATH":        kubeletCNIPath,
			"CNI_ARGS":        r.baseArgs(),
			"PATH":            "/usr/bin:/bin",
		},
		Config: []byte(`{"cniVersion":"0.2.0","name":"galaxy-sdn","type":"galaxy-sdn"}`),
	}
	data, _ := json.Marshal(body)
	resp, err := d.client.Post(d.srv.URL+"/cni", "application/json", bytes.NewReader(data))
	if err != nil {
		return 0, "", err
	}
	defer resp.Body.Close()
	b, _ := ioutil.ReadAll(resp.Body)
	return resp.StatusCode, string(b), nil
}

func (d *daemon) expectedPath() string {
	return kubeletCNIPath + ":" + d.env.binDir
}

func (d *daemon) addPod(p *corev1.Pod) error {
	return d.kube.Tracker().Add(p)
}

func (d *daemon) delPod(ns, name string) {
	_ = d.kube.Tracker().Delete(corev1.SchemeGroupVersion.WithResource("pods"), ns, name)
}
