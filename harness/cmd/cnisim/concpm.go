package main

// Concurrent phase only: host-port pods (OpenHostports / SetupPortMapping / cleanupPortMapping), a real PolicyManager
// behind the daemon (SyncPodChains / SyncPodIPInIPSet at the end of every successful ADD) and a goroutine delivering
// policy / pod events and full syncs while CNI requests are in flight. When race-built (C19 runs this binary) the race
// detector is the oracle; the non-race C12 run only keeps the HTTP-status monitor and a socket-leftover check.

import (
	"bufio"
	"encoding/json"
	"fmt"
	"io/ioutil"
	"math/rand"
	"os"
	"path/filepath"
	"strconv"
	"strings"
	"sync"
	"sync/atomic"
	"time"

	corev1 "k8s.io/api/core/v1"
	networkv1 "k8s.io/api/networking/v1"
	metav1 "k8s.io/apimachinery/pkg/apis/meta/v1"
	"k8s.io/apimachinery/pkg/util/intstr"
	"k8s.io/client-go/kubernetes"
	"k8s.io/client-go/tools/cache"
	"tkestack.io/galaxy/pkg/api/k8s"
	"tkestack.io/galaxy/pkg/policy"
	utiliptables "tkestack.io/galaxy/pkg/utils/iptables"
	"verif/harness/evid"
	"verif/harness/fakes"
	"verif/harness/hostports"
)

// polWorld is the informer-cache side of the PolicyManager, written by the harness "like an informer would".
type polWorld struct {
	pods, nss, pols cache.Indexer
	sets            *fakes.IPSet
	ipt             *fakes.IPTables
	pm              *policy.PolicyManager
	host            string
	inflight        int64 // CNI requests currently in flight
}

func newIndexer() cache.Indexer {
	return cache.NewIndexer(cache.MetaNamespaceKeyFunc, cache.Indexers{cache.NamespaceIndex: cache.MetaNamespaceIndexFunc})
}

func tcp() *corev1.Protocol { p := corev1.ProtocolTCP; return &p }
func udp() *corev1.Protocol { p := corev1.ProtocolUDP; return &p }

func basePolicies() []*networkv1.NetworkPolicy {
	p80, p53 := intstr.FromInt(80), intstr.FromInt(53)
	return []*networkv1.NetworkPolicy{
		{ObjectMeta: metav1.ObjectMeta{Name: "web-ingress", Namespace: "default"},
			Spec: networkv1.NetworkPolicySpec{
				PodSelector: metav1.LabelSelector{MatchLabels: map[string]string{"app": "web"}},
				PolicyTypes: []networkv1.PolicyType{networkv1.PolicyTypeIngress},
				Ingress: []networkv1.NetworkPolicyIngressRule{{
					Ports: []networkv1.NetworkPolicyPort{{Protocol: tcp(), Port: &p80}},
					From: []networkv1.NetworkPolicyPeer{{PodSelector: &metav1.LabelSelector{
						MatchLabels: map[string]string{"role": "client"}}}}}}}},
		{ObjectMeta: metav1.ObjectMeta{Name: "web-egress", Namespace: "ns1"},
			Spec: networkv1.NetworkPolicySpec{
				PodSelector: metav1.LabelSelector{MatchLabels: map[string]string{"app": "web"}},
				PolicyTypes: []networkv1.PolicyType{networkv1.PolicyTypeEgress},
				Egress: []networkv1.NetworkPolicyEgressRule{{
					Ports: []networkv1.NetworkPolicyPort{{Protocol: udp(), Port: &p53}},
					To:    []networkv1.NetworkPolicyPeer{{IPBlock: &networkv1.IPBlock{CIDR: "10.0.0.0/8"}}}}}}},
	}
}

func togglePolicy(variant int) *networkv1.NetworkPolicy {
	port := intstr.FromInt(8000 + variant%3)
	return &networkv1.NetworkPolicy{ObjectMeta: metav1.ObjectMeta{Name: "db-ingress", Namespace: "default"},
		Spec: networkv1.NetworkPolicySpec{
			PodSelector: metav1.LabelSelector{MatchLabels: map[string]string{"app": "db"}},
			PolicyTypes: []networkv1.PolicyType{networkv1.PolicyTypeIngress},
			Ingress: []networkv1.NetworkPolicyIngressRule{{
				Ports: []networkv1.NetworkPolicyPort{{Protocol: tcp(), Port: &port}},
				From:  []networkv1.NetworkPolicyPeer{{IPBlock: &networkv1.IPBlock{CIDR: "192.168.0.0/16"}}}}}}}
}

// policySelects: does one of the base policies select a pod with these labels in this namespace?
func policySelects(ns string, labels map[string]string) bool {
	return labels["app"] == "web" && (ns == "default" || ns == "ns1")
}

func newPolWorld() *polWorld {
	w := &polWorld{pods: newIndexer(), nss: newIndexer(), pols: newIndexer(), sets: fakes.NewIPSet(), host: k8s.GetHostname()}
	w.ipt = fakes.NewIPTables(w.sets)
	for _, ns := range []string{"default", "ns1", "kube-system"} {
		_ = w.nss.Add(&corev1.Namespace{ObjectMeta: metav1.ObjectMeta{Name: ns, Labels: map[string]string{"name": ns}}})
	}
	for _, np := range basePolicies() {
		_ = w.pols.Add(np)
	}
	// a few pods on other nodes, so that peer selectors resolve to something
	for i := 0; i < 4; i++ {
		_ = w.pods.Add(w.remotePod(i, 0))
	}
	return w
}

func (w *polWorld) remotePod(i, gen int) *corev1.Pod {
	return &corev1.Pod{ObjectMeta: metav1.ObjectMeta{Name: fmt.Sprintf("remote-%d", i), Namespace: []string{"default", "ns1"}[i%2],
		Labels: map[string]string{"role": "client", "app": []string{"web", "db"}[i%2]}},
		Spec:   corev1.PodSpec{NodeName: "other-node"},
		Status: corev1.PodStatus{PodIP: fmt.Sprintf("10.200.%d.%d", gen%250, 10+i)}}
}

// mk is handed to newDaemonPM.
func (w *polWorld) mk(kube kubernetes.Interface) (utiliptables.Interface, *policy.PolicyManager) {
	w.pm = policy.VerifNew(kube, w.sets, w.ipt, w.host, w.pods, w.nss, w.pols)
	return w.ipt, w.pm
}

// podAdded / podGone keep the pod cache in step with what the CNI goroutines create (as the pod informer would).
func (w *polWorld) podAdded(p *corev1.Pod, ip string) {
	c := p.DeepCopy()
	c.Status.PodIP = ip
	_ = w.pods.Add(c)
}

func (w *polWorld) podGone(ns, name string) {
	_ = w.pods.Delete(&corev1.Pod{ObjectMeta: metav1.ObjectMeta{Name: name, Namespace: ns}})
}

// eventLoop alternates full syncs with policy / pod event handler calls until stop is closed.
func (w *polWorld) eventLoop(run *evid.Run, stop <-chan struct{}, done chan<- struct{}) {
	defer close(done)
	guard := func(name string, f func()) {
		before := atomic.LoadInt64(&w.inflight)
		func() {
			defer func() {
				if r := recover(); r != nil {
					run.Count("policy_call_panics_recovered", 1)
				}
			}()
			f()
		}()
		run.Count("policy_calls_"+name, 1)
		if before > 0 && atomic.LoadInt64(&w.inflight) > 0 {
			run.Count("policy_syncs_overlapped_with_cni_requests", 1)
		}
	}
	toggled := false
	for i := 0; ; i++ {
		select {
		case <-stop:
			return
		default:
		}
		switch i % 6 {
		case 0, 3:
			guard("full_sync", func() { w.pm.VerifFullSync() })
		case 1:
			np := togglePolicy(i)
			if toggled {
				_ = w.pols.Delete(np)
				guard("delete_policy", func() { _ = w.pm.DeletePolicy(np) })
			} else {
				_ = w.pols.Add(np)
				guard("add_policy", func() { _ = w.pm.AddPolicy(np) })
			}
			toggled = !toggled
		case 2:
			old, nw := w.remotePod(i%4, i), w.remotePod(i%4, i+1)
			_ = w.pods.Update(nw)
			guard("update_pod", func() { _ = w.pm.UpdatePod(old, nw) })
		case 4:
			if toggled {
				old, nw := togglePolicy(i-3), togglePolicy(i)
				_ = w.pols.Update(nw)
				guard("update_policy", func() { _ = w.pm.UpdatePolicy(old, nw) })
			} else {
				guard("full_sync", func() { w.pm.VerifFullSync() })
			}
		case 5:
			p := w.remotePod(i%4, i)
			_ = w.pods.Delete(p)
			guard("delete_pod", func() { _ = w.pm.DeletePod(p) })
			_ = w.pods.Add(p)
			guard("add_pod", func() { _ = w.pm.AddPod(p); _ = w.pm.UpdatePod(p, p) })
		}
		time.Sleep(2 * time.Millisecond) // pacing only; nothing is decided on time
	}
}

// ---------------------------------------------------------------------------------------------------------------
// host ports

// concPorts hands out the fixed host ports of the concurrent phase (lock-file blocks, see ports.go).
var concPorts = hostports.New()

func reserveFixedPort(shard int) int32 { return concPorts.Take() }

// addPorts gives about 40% of the concurrent pods container ports that make parsePorts return something.
func addPorts(run *evid.Run, rng *rand.Rand, p *podModel, shard int) {
	if rng.Intn(10) >= 4 {
		return
	}
	protos := []string{"TCP", "UDP"}
	class := rng.Intn(3)
	if class != 1 { // random host port: hostPort 0 + tkestack.io/portmapping annotation
		p.PortMapAnn = true
		n := 1 + rng.Intn(2)
		for i := 0; i < n; i++ {
			p.Ports = append(p.Ports, podPort{HostPort: 0, ContainerPort: int32(8000 + rng.Intn(100)), Proto: protos[rng.Intn(2)]})
		}
	}
	if class != 0 { // fixed host port from the harness range, probed free
		n := 1 + rng.Intn(2)
		for i := 0; i < n; i++ {
			hp := reserveFixedPort(shard)
			if hp == 0 {
				run.Count("fixed_hostport_busy_skipped", 1)
				continue
			}
			p.Ports = append(p.Ports, podPort{HostPort: hp, ContainerPort: int32(9000 + rng.Intn(100)), Proto: protos[rng.Intn(2)]})
		}
	}
}

// savedPorts reads the ports file galaxy wrote for the container (k8s.SavePort: hard-wired /var/lib/cni/galaxy/port).
func savedPorts(cid string) []k8s.Port {
	data, err := ioutil.ReadFile(filepath.Join(galaxyStateDir, "port", cid))
	if err != nil {
		return nil
	}
	var ports []k8s.Port
	_ = json.Unmarshal(data, &ports)
	return ports
}

// ownBoundPorts returns "tcp:port" / "udp:port" for every socket of THIS process that listens (tcp) or is bound (udp),
// from /proc/net/{tcp,tcp6,udp,udp6} joined with /proc/self/fd: no private field of the handler is touched.
func ownBoundPorts() (map[string]bool, error) {
	inodes := map[string]bool{}
	fds, err := ioutil.ReadDir("/proc/self/fd")
	if err != nil {
		return nil, err
	}
	for _, fd := range fds {
		if l, err := os.Readlink("/proc/self/fd/" + fd.Name()); err == nil && strings.HasPrefix(l, "socket:[") {
			inodes[strings.TrimSuffix(strings.TrimPrefix(l, "socket:["), "]")] = true
		}
	}
	out := map[string]bool{}
	for _, f := range []struct{ file, proto, state string }{{"tcp", "tcp", "0A"}, {"tcp6", "tcp", "0A"}, {"udp", "udp", ""}, {"udp6", "udp", ""}} {
		fh, err := os.Open("/proc/net/" + f.file)
		if err != nil {
			continue
		}
		sc := bufio.NewScanner(fh)
		sc.Scan() // header
		for sc.Scan() {
			fl := strings.Fields(sc.Text())
			if len(fl) < 10 || (f.state != "" && fl[3] != f.state) || !inodes[fl[9]] {
				continue
			}
			i := strings.LastIndex(fl[1], ":")
			if i < 0 {
				continue
			}
			port, err := strconv.ParseInt(fl[1][i+1:], 16, 32)
			if err != nil {
				continue
			}
			out[fmt.Sprintf("%s:%d", f.proto, port)] = true
		}
		fh.Close()
	}
	return out, nil
}

// ownBoundPortsStable: /proc/net/* is not read atomically - while other processes create and destroy sockets a line
// can be skipped. The sockets of this process do not change while it is being observed, so two consecutive identical
// snapshots are taken as the observation.
func ownBoundPortsStable(onRetry func()) (map[string]bool, error) {
	prev, err := ownBoundPorts()
	if err != nil {
		return nil, err
	}
	for i := 0; i < 8; i++ {
		cur, err := ownBoundPorts()
		if err != nil {
			return nil, err
		}
		same := len(cur) == len(prev)
		for k := range cur {
			if !prev[k] {
				same = false
			}
		}
		if same {
			return cur, nil
		}
		if onRetry != nil {
			onRetry()
		}
		prev = cur
	}
	return prev, nil
}

// closedPort is a host port whose pod has been torn down by a successful DEL.
type closedPort struct {
	Key  string `json:"socket"`
	Cid  string `json:"container_id"`
	Pod  string `json:"pod"`
	Case string `json:"case"`
}

type portLedger struct {
	mu     sync.Mutex
	closed []closedPort
}

func (l *portLedger) add(c closedPort) {
	l.mu.Lock()
	l.closed = append(l.closed, c)
	l.mu.Unlock()
}
