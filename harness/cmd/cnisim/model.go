package main

// Reference model of C12: static configuration, pod → network list, interface names, invocation sequences.
// Nothing here calls galaxy code: the model works from the generator's *intent* (the structured selection from
// which annotation text / config text was rendered), never from galaxy's parsers.

import (
	"encoding/json"
	"fmt"
	"math/rand"
	"sort"
	"strings"

	corev1 "k8s.io/api/core/v1"
	"k8s.io/apimachinery/pkg/api/resource"
	metav1 "k8s.io/apimachinery/pkg/apis/meta/v1"
	k8stypes "k8s.io/apimachinery/pkg/types"
)

const (
	networksAnnotation    = "k8s.v1.cni.cncf.io/networks"
	extArgsAnnotation     = "k8s.v1.cni.galaxy.io/args"
	eniResource           = "tke.cloud.tencent.com/eni-ip"
	portMappingAnnotation = "tkestack.io/portmapping"
)

var allTypes = []string{"vfbridge0", "vfvlan1", "vfveth2", "vfeni3", "vfsriov4", "vfipvlan5", "vfmacvlan6",
	"vfunderlay7"}
var allNetNames = []string{"net-a", "tke-bridge", "vlan100", "galaxy-flannel", "b2", "eni-net", "underlay-x",
	"k8s-vlan", "z9", "data-plane"}

// netDef is one configured network.
type netDef struct {
	Name   string                 `json:"name"`   // the name pods select it by
	Type   string                 `json:"type"`   // plugin binary
	Source string                 `json:"source"` // jsonconf | jsonconf-noname | file.conf | file.json | subdir.conf
	Conf   map[string]interface{} `json:"conf"`   // what the plugin must receive on stdin (prevResult aside)
}

func (n *netDef) shared() bool { return strings.HasPrefix(n.Source, "jsonconf") }

// staticConf is one daemon configuration.
type staticConf struct {
	Nets     []*netDef         `json:"nets"`
	Default  []string          `json:"default_networks"`
	ENI      string            `json:"eni_network"`
	JSONText string            `json:"json_config_text"`
	Files    map[string]string `json:"conf_dir_files"`
}

func (c *staticConf) lookup(name string) *netDef {
	for _, n := range c.Nets {
		if n.Name == name {
			return n
		}
	}
	return nil
}

type confOpts struct {
	nNets         int
	distinctTypes bool
	sharedOnly    bool // every network in JsonConf.NetworkConf (daemon-wide maps)
	filesOnly     bool
}

func genStaticConf(rng *rand.Rand, o confOpts) *staticConf {
	c := &staticConf{Files: map[string]string{}}
	names := append([]string{}, allNetNames...)
	rng.Shuffle(len(names), func(i, j int) { names[i], names[j] = names[j], names[i] })
	types := append([]string{}, allTypes...)
	rng.Shuffle(len(types), func(i, j int) { types[i], types[j] = types[j], types[i] })
	usedNames := map[string]bool{}
	var networkConf []map[string]interface{}
	for i := 0; i < o.nNets; i++ {
		n := &netDef{Name: names[i]}
		if o.distinctTypes {
			n.Type = types[i%len(types)]
		} else {
			n.Type = types[rng.Intn(minInt(len(types), 1+o.nNets/2+1))]
		}
		src := rng.Intn(10)
		switch {
		case o.sharedOnly:
			src = rng.Intn(5)
		case o.filesOnly:
			src = 5 + rng.Intn(5)
		}
		switch {
		case src <= 3:
			n.Source = "jsonconf"
		case src == 4:
			n.Source = "jsonconf-noname"
		case src <= 6:
			n.Source = "file.conf"
		case src == 7:
			n.Source = "file.json"
		default:
			n.Source = "subdir.conf"
		}
		if n.Source == "jsonconf-noname" {
			// network is addressed by its type name; only possible once per type
			if usedNames[n.Type] {
				n.Source = "jsonconf"
			} else {
				n.Name = n.Type
			}
		}
		if usedNames[n.Name] {
			n.Source, n.Name = "jsonconf", names[i]
		}
		usedNames[n.Name] = true
		conf := map[string]interface{}{"type": n.Type}
		if n.Source != "jsonconf-noname" {
			conf["name"] = n.Name
		}
		switch rng.Intn(5) {
		case 0, 1:
			conf["cniVersion"] = "0.2.0"
		case 2, 3:
			conf["cniVersion"] = "0.3.1"
		}
		// varied payload so that stdin comparison is not vacuous
		if rng.Intn(2) == 0 {
			conf["bridge"] = fmt.Sprintf("br%d", rng.Intn(100))
		}
		if rng.Intn(2) == 0 {
			conf["mtu"] = 1280 + rng.Intn(8000)
		}
		if rng.Intn(3) == 0 {
			conf["ipam"] = map[string]interface{}{"type": "host-local", "subnet": fmt.Sprintf("172.%d.0.0/16", 16+rng.Intn(16)),
				"routes": []interface{}{map[string]interface{}{"dst": "0.0.0.0/0"}}}
		}
		if rng.Intn(3) == 0 {
			conf["vlan_name_prefix"] = fmt.Sprintf("vlan%d-", rng.Intn(10))
			conf["switch"] = []interface{}{"macvlan", "bridge", "pure"}[rng.Intn(3)]
		}
		if rng.Intn(4) == 0 {
			conf["default_bridge_name"] = "docker"
			conf["hairpin"] = rng.Intn(2) == 0
		}
		conf["x-verif-id"] = fmt.Sprintf("%s/%s/%d", n.Name, n.Type, rng.Intn(1<<30))
		n.Conf = conf
		if n.shared() {
			networkConf = append(networkConf, conf)
		} else {
			// file form: may carry a kubeconfig key, which the daemon strips (static behaviour, modelled)
			fileConf := map[string]interface{}{}
			for k, v := range conf {
				fileConf[k] = v
			}
			if rng.Intn(2) == 0 {
				fileConf["kubeconfig"] = "/etc/kubernetes/kubelet.conf"
			}
			text, _ := json.MarshalIndent(fileConf, "", "  ")
			var rel string
			switch n.Source {
			case "file.conf":
				rel = fmt.Sprintf("%02d-%s.conf", 10+i, n.Name)
			case "file.json":
				rel = fmt.Sprintf("%02d-%s.json", 10+i, n.Name)
			default:
				rel = fmt.Sprintf("multus/%02d-%s.conf", 10+i, n.Name)
			}
			c.Files[rel] = string(text)
		}
		c.Nets = append(c.Nets, n)
	}
	// decoys in the conf dir: a conflist with another name, an undecodable file, a non-config file
	c.Files["00-decoy.conflist"] = `{"cniVersion":"0.3.1","name":"decoy-list","plugins":[{"type":"vfbridge0"},{"type":"portmap"}]}`
	if rng.Intn(2) == 0 {
		c.Files["01-broken.conf"] = `{"name": "broken", "type": `
	}
	c.Files["README.txt"] = "not a network config"
	// defaults
	nd := 1 + rng.Intn(minInt(3, len(c.Nets)))
	perm := rng.Perm(len(c.Nets))
	for i := 0; i < nd; i++ {
		c.Default = append(c.Default, c.Nets[perm[i]].Name)
	}
	if rng.Intn(3) != 0 {
		c.ENI = c.Nets[rng.Intn(len(c.Nets))].Name
	}
	jc := map[string]interface{}{"NetworkConf": networkConf, "DefaultNetworks": c.Default, "ENIIPNetwork": c.ENI}
	if networkConf == nil {
		jc["NetworkConf"] = []interface{}{}
	}
	text, _ := json.MarshalIndent(jc, "", "  ")
	c.JSONText = string(text)
	return c
}

// selEntry is one intended network selection of a pod.
type selEntry struct {
	Net string `json:"net"`
	NS  string `json:"ns,omitempty"`
	If  string `json:"if,omitempty"`
}

// podModel is a pod as the generator intends it.
type podModel struct {
	NS            string      `json:"ns"`
	Name          string      `json:"name"`
	Form          string      `json:"form"` // none | comma | json
	NetAnnotation string      `json:"networks_annotation,omitempty"`
	Sel           []selEntry  `json:"selection,omitempty"`
	WantENI       bool        `json:"want_eni"`
	ExtKV         [][2]string `json:"ext_args,omitempty"` // key, raw JSON value under "common"
	ExtAnnotation string      `json:"ext_annotation,omitempty"`
	// concurrent phase only (zero in every sequential phase): labels for NetworkPolicy selection, container ports
	// that make parsePorts return something, the tkestack.io/portmapping annotation, the node the pod runs on
	Labels     map[string]string `json:"labels,omitempty"`
	Ports      []podPort         `json:"ports,omitempty"`
	PortMapAnn bool              `json:"portmapping_annotation,omitempty"`
	NodeName   string            `json:"node_name,omitempty"`
}

// podPort is one container port of a concurrent-phase pod.
type podPort struct {
	HostPort      int32  `json:"host_port"`
	ContainerPort int32  `json:"container_port"`
	Proto         string `json:"proto"`
	HostIP        string `json:"host_ip,omitempty"`
}

func (p *podModel) render() {
	switch p.Form {
	case "comma":
		var items []string
		for i, s := range p.Sel {
			it := s.Net
			if s.NS != "" {
				it = s.NS + "/" + it
			}
			if s.If != "" {
				it += "@" + s.If
			}
			if i > 0 && len(s.Net)%2 == 0 {
				it = " " + it // whitespace after the comma is legal
			}
			items = append(items, it)
		}
		p.NetAnnotation = strings.Join(items, ",")
	case "json":
		var items []map[string]string
		for _, s := range p.Sel {
			m := map[string]string{"name": s.Net}
			if s.NS != "" {
				m["namespace"] = s.NS
			}
			if s.If != "" {
				m["interface"] = s.If
			}
			items = append(items, m)
		}
		b, _ := json.Marshal(items)
		p.NetAnnotation = string(b)
	}
	if len(p.ExtKV) > 0 {
		var sb strings.Builder
		sb.WriteString(`{"common":{`)
		for i, kv := range p.ExtKV {
			if i > 0 {
				sb.WriteString(",")
			}
			k, _ := json.Marshal(kv[0])
			sb.Write(k)
			sb.WriteString(":")
			sb.WriteString(kv[1])
		}
		sb.WriteString(`}}`)
		p.ExtAnnotation = sb.String()
	}
}

func (p *podModel) object() *corev1.Pod {
	pod := &corev1.Pod{ObjectMeta: metav1.ObjectMeta{Name: p.Name, Namespace: p.NS, UID: k8stypes.UID("uid-" + p.NS + "-" + p.Name)},
		Spec: corev1.PodSpec{Containers: []corev1.Container{{Name: "c", Image: "i"}}}}
	ann := map[string]string{}
	if p.Form != "none" {
		ann[networksAnnotation] = p.NetAnnotation
	}
	if p.ExtAnnotation != "" {
		ann[extArgsAnnotation] = p.ExtAnnotation
	}
	if p.PortMapAnn {
		ann[portMappingAnnotation] = ""
	}
	if len(ann) > 0 {
		pod.Annotations = ann
	}
	if len(p.Labels) > 0 {
		pod.Labels = map[string]string{}
		for k, v := range p.Labels {
			pod.Labels[k] = v
		}
	}
	pod.Spec.NodeName = p.NodeName
	for _, pp := range p.Ports {
		pod.Spec.Containers[0].Ports = append(pod.Spec.Containers[0].Ports, corev1.ContainerPort{HostPort: pp.HostPort,
			ContainerPort: pp.ContainerPort, Protocol: corev1.Protocol(pp.Proto), HostIP: pp.HostIP})
	}
	if p.WantENI {
		q := resource.NewQuantity(1, resource.DecimalSI)
		pod.Spec.Containers[0].Resources.Requests = corev1.ResourceList{corev1.ResourceName(eniResource): *q}
	}
	return pod
}

// argGroup is what each delegate appends to CNI_ARGS for this pod: one k=v per extended arg.
func (p *podModel) argGroup() []string {
	var g []string
	for _, kv := range p.ExtKV {
		g = append(g, kv[0]+"="+kv[1])
	}
	return g
}

type podOpts struct {
	maxN          int
	allowUnknown  bool
	allowRepeat   bool
	forceForm     string
	forceSel      []string
	distinctTypes bool
	forceENI      int // 0 random, 1 wants ENI, 2 does not
}

var extArgPool = [][2]string{
	{"ipinfos", `[{"ip":"10.9.8.7/24","vlan":2,"gateway":"10.9.8.1"}]`},
	{"ipinfos", `[{"ip":"192.168.4.9/26","vlan":0,"gateway":"192.168.4.1"},{"ip":"172.20.1.2/16","vlan":4094,"gateway":"172.20.0.1"}]`},
	{"bandwidth", `"10M"`},
	{"qos", `{"ingress":100,"egress":200}`},
	{"flag", `true`},
	{"count", `3`},
	{"label", `"a=b"`},
}

func genPod(rng *rand.Rand, cfg *staticConf, idx int, o podOpts) *podModel {
	p := &podModel{NS: []string{"default", "ns1", "kube-system"}[rng.Intn(3)], Name: fmt.Sprintf("pod-%d", idx)}
	f := rng.Intn(10)
	switch {
	case o.forceForm != "":
		p.Form = o.forceForm
	case f < 4:
		p.Form = "comma"
	case f < 8:
		p.Form = "json"
	default:
		p.Form = "none"
	}
	p.WantENI = rng.Intn(4) == 0
	if o.forceENI != 0 {
		p.WantENI = o.forceENI == 1
	}
	if p.Form != "none" {
		if o.forceSel != nil {
			for _, n := range o.forceSel {
				p.Sel = append(p.Sel, selEntry{Net: n})
			}
		} else {
			n := 1 + rng.Intn(o.maxN)
			seenType := map[string]bool{}
			for _, i := range rng.Perm(len(cfg.Nets)) {
				nd := cfg.Nets[i]
				if len(p.Sel) >= n {
					break
				}
				if o.distinctTypes && seenType[nd.Type] {
					continue
				}
				seenType[nd.Type] = true
				p.Sel = append(p.Sel, selEntry{Net: nd.Name})
			}
			if o.allowRepeat && rng.Intn(12) == 0 && len(p.Sel) < o.maxN {
				p.Sel = append(p.Sel, p.Sel[rng.Intn(len(p.Sel))])
			}
			if o.allowUnknown && rng.Intn(15) == 0 {
				p.Sel[rng.Intn(len(p.Sel))].Net = "no-such-net"
			}
		}
		for i := range p.Sel {
			if rng.Intn(3) == 0 {
				p.Sel[i].If = []string{"net1", "eth5", "vf-if2", "data0", "eth1"}[rng.Intn(5)]
			}
			if rng.Intn(4) == 0 {
				p.Sel[i].NS = []string{"kube-system", "default", "n7"}[rng.Intn(3)]
			}
		}
	}
	if rng.Intn(2) == 0 {
		n := 1 + rng.Intn(3)
		seen := map[string]bool{}
		for i := 0; i < n; i++ {
			kv := extArgPool[rng.Intn(len(extArgPool))]
			if seen[kv[0]] {
				continue
			}
			seen[kv[0]] = true
			p.ExtKV = append(p.ExtKV, kv)
		}
	}
	p.render()
	return p
}

// netEntry is one resolved network of a request (also the unit of the persisted state).
type netEntry struct {
	Net    *netDef  `json:"-"`
	Name   string   `json:"net"`
	Type   string   `json:"type"`
	IfName string   `json:"ifname"`
	Group  []string `json:"arg_group"`
}

// resolve computes the expected network list. unknownAt >= 0 when the list names an unconfigured network.
func resolve(p *podModel, cfg *staticConf, reqIf string) (list []netEntry, unknownAt int) {
	unknownAt = -1
	group := p.argGroup()
	mk := func(name string, idx int, annIf string) bool {
		nd := cfg.lookup(name)
		if nd == nil {
			unknownAt = idx
			return false
		}
		ifn := reqIf
		if idx > 0 {
			ifn = annIf
			if ifn == "" {
				ifn = fmt.Sprintf("eth%d", idx)
			}
		}
		list = append(list, netEntry{Net: nd, Name: nd.Name, Type: nd.Type, IfName: ifn, Group: group})
		return true
	}
	switch {
	case p.Form != "none":
		for i, s := range p.Sel {
			if !mk(s.Net, i, s.If) {
				return list, unknownAt
			}
		}
	case p.WantENI && cfg.ENI != "":
		mk(cfg.ENI, 0, "")
	default:
		for i, n := range cfg.Default {
			if !mk(n, i, "") {
				return list, unknownAt
			}
		}
	}
	return list, -1
}

// expInv is one expected plugin invocation.
type expInv struct {
	Cmd    string   `json:"cmd"`
	Net    string   `json:"net"`
	Type   string   `json:"type"`
	IfName string   `json:"ifname"`
	Fails  bool     `json:"fails"`
	Groups []string `json:"-"` // flattened arg groups accumulated so far (each group's entries in any order)
	nGroup []int    // group sizes
	entry  netEntry
	Index  int `json:"index"` // index into the list the command iterates over
}

// ctrState is the model of /var/lib/cni/galaxy/<cid>: nil = no file.
type ctrState struct {
	List []netEntry
	Kind string // "add" (full list of a successful ADD / an ADD in flight) or "failed-dels"
}

// planTake consumes one planned failure.
func planTake(plan map[string]int, typ, cmd string) bool {
	k := typ + "|" + cmd
	if plan[k] > 0 {
		plan[k]--
		return true
	}
	return false
}

type accum struct {
	flat  []string
	sizes []int
}

func (a *accum) push(g []string) {
	a.flat = append(append([]string{}, a.flat...), g...)
	a.sizes = append(append([]int{}, a.sizes...), len(g))
}

// simAdd: expected invocations, success, and resulting state for an ADD of the given list.
func simAdd(list []netEntry, plan map[string]int) (inv []expInv, ok bool, st *ctrState) {
	var acc accum
	for i, e := range list {
		acc.push(e.Group)
		fails := planTake(plan, e.Type, "ADD")
		inv = append(inv, expInv{Cmd: "ADD", Net: e.Name, Type: e.Type, IfName: e.IfName, Fails: fails, Groups: acc.flat,
			nGroup: acc.sizes, entry: e, Index: i})
		if fails {
			var failed []netEntry
			for j := i; j >= 0; j-- {
				d := list[j]
				acc.push(d.Group)
				df := planTake(plan, d.Type, "DEL")
				inv = append(inv, expInv{Cmd: "DEL", Net: d.Name, Type: d.Type, IfName: d.IfName, Fails: df,
					Groups: acc.flat, nGroup: acc.sizes, entry: d, Index: j})
				if df {
					failed = append([]netEntry{d}, failed...) // original order
				}
			}
			if len(failed) > 0 {
				return inv, false, &ctrState{List: failed, Kind: "failed-dels"}
			}
			return inv, false, nil
		}
	}
	return inv, true, &ctrState{List: list, Kind: "add"}
}

// simDel: expected invocations, success, and resulting state for a DEL given the current state.
func simDel(st *ctrState, plan map[string]int) (inv []expInv, ok bool, out *ctrState) {
	if st == nil {
		return nil, true, nil
	}
	var acc accum
	var failed []netEntry
	for j := len(st.List) - 1; j >= 0; j-- {
		d := st.List[j]
		acc.push(d.Group)
		df := planTake(plan, d.Type, "DEL")
		inv = append(inv, expInv{Cmd: "DEL", Net: d.Name, Type: d.Type, IfName: d.IfName, Fails: df, Groups: acc.flat,
			nGroup: acc.sizes, entry: d, Index: j})
		if df {
			failed = append([]netEntry{d}, failed...)
		}
	}
	if len(failed) > 0 {
		return inv, false, &ctrState{List: failed, Kind: "failed-dels"}
	}
	return inv, true, nil
}

// canonJSON renders any JSON-able value canonically (sorted keys, numbers as float64).
func canonJSON(v interface{}) string {
	b, err := json.Marshal(v)
	if err != nil {
		return "<unmarshalable: " + err.Error() + ">"
	}
	var x interface{}
	if err := json.Unmarshal(b, &x); err != nil {
		return "<undecodable>"
	}
	b, _ = json.Marshal(x)
	return string(b)
}

// argsMatch checks got == base ++ groups where each group's entries may come in any order.
func argsMatch(got, base string, flat []string, sizes []int) bool {
	want := strings.Split(base, ";")
	ge := strings.Split(got, ";")
	if len(ge) != len(want)+len(flat) {
		return false
	}
	for i := range want {
		if ge[i] != want[i] {
			return false
		}
	}
	pos := len(want)
	fpos := 0
	for _, sz := range sizes {
		a := append([]string{}, ge[pos:pos+sz]...)
		b := append([]string{}, flat[fpos:fpos+sz]...)
		sort.Strings(a)
		sort.Strings(b)
		for i := range a {
			if a[i] != b[i] {
				return false
			}
		}
		pos += sz
		fpos += sz
	}
	return true
}

func minInt(a, b int) int {
	if a < b {
		return a
	}
	return b
}
