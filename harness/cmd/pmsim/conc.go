package main

import (
	"fmt"
	"runtime"
	"sync"
	"sync/atomic"

	"tkestack.io/galaxy/pkg/api/k8s"
	"verif/harness/evid"
	"verif/harness/fakes"
)

// concStage: the handover of a pod's host ports between a tear-down that is still running (a late or retried CNI
// DEL of the old sandbox) and the set-up of the re-created pod with the SAME full name on the same node, as real
// goroutines on one handler. Per pod name there is one opener (kubelet never runs two ADDs of one pod at once)
// and one closer; both hammer OpenHostports / CloseHostports with the pod's fixed tcp+udp ports. The oracle is a
// quiescent-point invariant, so no interleaving is assumed: after both goroutines have stopped and one more
// CloseHostports(name) has returned, galaxy tracks nothing for the name, hence no socket of this process may
// still hold one of the pod's ports ("removed completely"). A socket of ours that is still bound then is an
// orphan that no later DEL can close. The unchanged handler opens outside its lock but stores, closes and deletes
// under it, so every socket that was ever stored is closed by the Close that deletes its entry.
func concStage(run *evid.Run, bases []int, tier string) {
	rounds := evid.Tiered(tier, 60, 600)
	opensPerRound := 150
	pairsPerBase := 3 // each pair: tcp port + udp port with the same number, in the block's last slot
	ipt := fakes.NewIPTables(fakes.NewIPSet())
	h := newHandler(ipt)
	var wg sync.WaitGroup
	var stop atomic.Bool
	for bi, base := range bases {
		for k := 0; k < pairsPerBase; k++ {
			wg.Add(1)
			go func(bi, k, port int) {
				defer wg.Done()
				name := fmt.Sprintf("hand_over-%d-%d", bi, k)
				for _, proto := range []string{"tcp", "udp"} {
					if probe(proto, port) != "free" {
						run.Count("conc_pairs_skipped_port_not_free", 1)
						return
					}
				}
				for r := 0; r < rounds && !stop.Load(); r++ {
					var done atomic.Bool
					var cwg sync.WaitGroup
					var closes int64
					cwg.Add(1)
					go func() {
						defer cwg.Done()
						for !done.Load() {
							h.CloseHostports(name)
							closes++
							if closes%3 == 0 {
								runtime.Gosched()
							}
						}
					}()
					var ok, refused int64
					for i := 0; i < opensPerRound; i++ {
						ports := []k8s.Port{{HostPort: int32(port), Protocol: "TCP", PodName: name}, {HostPort: int32(port), Protocol: "UDP", PodName: name}}
						if err := h.OpenHostports(name, false, ports); err == nil {
							ok++
						} else {
							refused++
						}
					}
					done.Store(true)
					cwg.Wait()
					h.CloseHostports(name) // the last DEL: nothing is tracked for the name afterwards
					run.Count("conc_rounds", 1)
					run.Count("conc_open_calls", int64(opensPerRound))
					run.Count("conc_close_calls", closes+1)
					run.Count("conc_handovers_open_succeeded_after_a_concurrent_close", ok)
					run.Count("conc_opens_refused_ports_still_held", refused)
					for _, proto := range []string{"tcp", "udp"} {
						if probe(proto, port) == "free" {
							run.Count("conc_quiescent_probes_free", 1)
							continue
						}
						switch who := holder(proto, port); who {
						case "ours":
						case "gone":
							run.Count("conc_probe_inuse_then_free_again", 1)
							continue
						default: // a socket that is not one of this process's fds: environment, this pair ends
							run.Count("conc_port_taken_by_other_process_"+who, 1)
							return
						}
						stop.Store(true)
						run.Violate(evid.Violation{
							Sig: "orphan-socket-after-concurrent-close-and-reopen-of-same-named-pod",
							Msg: fmt.Sprintf("after the opener and the closer of pod %q stopped and a final CloseHostports returned, %s port %d is still bound by a socket of this process that the handler no longer tracks (round %d: %d opens succeeded, %d refused, %d concurrent closes)", name, proto, port, r, ok, refused, closes),
							Witness: map[string]interface{}{"pod": name, "port": port, "proto": proto, "round": r, "opens_ok": ok, "opens_refused": refused, "closes": closes,
								"workload": "goroutine A: OpenHostports(name,[tcp:port,udp:port]) x150; goroutine B: CloseHostports(name) in a loop; join; CloseHostports(name); bind probe"},
							Case: fmt.Sprintf("%d:conc:%d:%d", run.Seed, bi, k),
						})
						return
					}
				}
			}(bi, k, base+60+k)
		}
	}
	wg.Wait()
	if run.Counter("conc_handovers_open_succeeded_after_a_concurrent_close") < 1000 && run.Violations() == 0 {
		run.Inconclusive("concurrent close/open stage: fewer than 1000 handovers observed")
	}
}
