package main

import (
	"bytes"
	"sync"

	utiliptables "tkestack.io/galaxy/pkg/utils/iptables"
	"verif/harness/fakes"
)

// recOp is one call galaxy made on the iptables interface, with the strict fake's answer.
type recOp struct {
	Op     string   `json:"op"` // policy | chain | rule | delrule | save | restore
	Table  string   `json:"table,omitempty"`
	Chain  string   `json:"chain,omitempty"`
	Pos    string   `json:"pos,omitempty"`
	Args   []string `json:"args,omitempty"`
	Data   string   `json:"data,omitempty"`
	OK     bool     `json:"ok"`
	Exists bool     `json:"exists,omitempty"`
	Err    string   `json:"err,omitempty"`
	Nat    string   `json:"nat,omitempty"` // nat dump after the op (calibrated cases only)
}

// recIPT delegates to the strict fake and records the command script (for witnesses and for calibration).
type recIPT struct {
	f    *fakes.IPTables
	mu   sync.Mutex
	ops  []recOp
	snap bool
}

var _ utiliptables.Interface = &recIPT{}

func (r *recIPT) add(o recOp, err error) {
	o.OK = err == nil
	if err != nil {
		o.Err = err.Error()
	}
	if r.snap && o.Op != "save" {
		o.Nat = r.f.Dump("nat")
	}
	r.mu.Lock()
	r.ops = append(r.ops, o)
	r.mu.Unlock()
}

func (r *recIPT) tail(n int) []recOp {
	r.mu.Lock()
	defer r.mu.Unlock()
	if len(r.ops) <= n {
		return append([]recOp(nil), r.ops...)
	}
	return append([]recOp(nil), r.ops[len(r.ops)-n:]...)
}

func (r *recIPT) GetVersion() (string, error) { return r.f.GetVersion() }
func (r *recIPT) IsIpv6() bool                { return false }
func (r *recIPT) EnsureChain(t utiliptables.Table, c utiliptables.Chain) (bool, error) {
	ex, err := r.f.EnsureChain(t, c)
	r.add(recOp{Op: "chain", Table: string(t), Chain: string(c), Exists: ex}, err)
	return ex, err
}
func (r *recIPT) FlushChain(t utiliptables.Table, c utiliptables.Chain) error {
	err := r.f.FlushChain(t, c)
	r.add(recOp{Op: "flush", Table: string(t), Chain: string(c)}, err)
	return err
}
func (r *recIPT) DeleteChain(t utiliptables.Table, c utiliptables.Chain) error {
	err := r.f.DeleteChain(t, c)
	r.add(recOp{Op: "delchain", Table: string(t), Chain: string(c)}, err)
	return err
}
func (r *recIPT) EnsureRule(p utiliptables.RulePosition, t utiliptables.Table, c utiliptables.Chain, a ...string) (bool, error) {
	ex, err := r.f.EnsureRule(p, t, c, a...)
	r.add(recOp{Op: "rule", Pos: string(p), Table: string(t), Chain: string(c), Args: append([]string(nil), a...), Exists: ex}, err)
	return ex, err
}
func (r *recIPT) DeleteRule(t utiliptables.Table, c utiliptables.Chain, a ...string) error {
	err := r.f.DeleteRule(t, c, a...)
	r.add(recOp{Op: "delrule", Table: string(t), Chain: string(c), Args: append([]string(nil), a...)}, err)
	return err
}
func (r *recIPT) ListRule(t utiliptables.Table, c utiliptables.Chain, a ...string) ([]string, error) {
	return r.f.ListRule(t, c, a...)
}
func (r *recIPT) SaveInto(t utiliptables.Table, b *bytes.Buffer) error {
	err := r.f.SaveInto(t, b)
	r.add(recOp{Op: "save", Table: string(t)}, err)
	return err
}
func (r *recIPT) EnsurePolicy(t utiliptables.Table, c utiliptables.Chain, p string) error {
	err := r.f.EnsurePolicy(t, c, p)
	r.add(recOp{Op: "policy", Table: string(t), Chain: string(c), Args: []string{p}}, err)
	return err
}
func (r *recIPT) Restore(t utiliptables.Table, d []byte, fl utiliptables.FlushFlag, c utiliptables.RestoreCountersFlag) error {
	err := r.f.Restore(t, d, fl, c)
	r.add(recOp{Op: "restore", Table: string(t), Data: string(d)}, err)
	return err
}
func (r *recIPT) RestoreAll(d []byte, fl utiliptables.FlushFlag, c utiliptables.RestoreCountersFlag) error {
	err := r.f.RestoreAll(d, fl, c)
	r.add(recOp{Op: "restore", Data: string(d)}, err)
	return err
}
