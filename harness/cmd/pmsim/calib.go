package main

import (
	"bytes"
	"encoding/json"
	"fmt"
	"os"
	"os/exec"
	"path/filepath"
	"sort"
	"strings"

	utilexec "k8s.io/utils/exec"
	utiliptables "tkestack.io/galaxy/pkg/utils/iptables"
	"verif/harness/evid"
	"verif/harness/fakes"
)

// Calibration (thorough tier): the command script galaxy produced against the strict fake in a case is replayed,
// command by command, through galaxy's own exec-backed iptables runner inside a private network namespace
// (`unshare -n`). Accept/reject of every command and the NAT rule set after every command must agree. A difference
// is a defect of the harness (fake), never a violation of C14.

type calibIn struct {
	Prior string  `json:"prior"`
	Ops   []recOp `json:"ops"`
}

type calibOut struct {
	PriorErr string  `json:"prior_err,omitempty"`
	Ops      []recOp `json:"ops"`
}

func calibChild(spec string) int {
	parts := strings.SplitN(spec, ",", 2)
	if len(parts) != 2 {
		return 2
	}
	data, err := os.ReadFile(parts[0])
	if err != nil {
		return 2
	}
	var in calibIn
	if json.Unmarshal(data, &in) != nil {
		return 2
	}
	real := utiliptables.New(utilexec.New(), utiliptables.ProtocolIpv4)
	var out calibOut
	if err := real.RestoreAll([]byte(in.Prior), utiliptables.NoFlushTables, utiliptables.RestoreCounters); err != nil {
		out.PriorErr = err.Error()
	} else {
		for _, o := range in.Ops {
			r := recOp{Op: o.Op}
			var err error
			switch o.Op {
			case "policy":
				err = real.EnsurePolicy(utiliptables.Table(o.Table), utiliptables.Chain(o.Chain), o.Args[0])
			case "chain":
				r.Exists, err = real.EnsureChain(utiliptables.Table(o.Table), utiliptables.Chain(o.Chain))
			case "rule":
				r.Exists, err = real.EnsureRule(utiliptables.RulePosition(o.Pos), utiliptables.Table(o.Table), utiliptables.Chain(o.Chain), o.Args...)
			case "delrule":
				err = real.DeleteRule(utiliptables.Table(o.Table), utiliptables.Chain(o.Chain), o.Args...)
			case "restore":
				err = real.RestoreAll([]byte(o.Data), utiliptables.NoFlushTables, utiliptables.RestoreCounters)
			case "save":
				var b bytes.Buffer
				err = real.SaveInto(utiliptables.Table(o.Table), &b)
			default:
				err = fmt.Errorf("calibration: op %q not replayed", o.Op)
			}
			r.OK = err == nil
			if err != nil {
				r.Err = err.Error()
			}
			if o.Op != "save" {
				var b bytes.Buffer
				if e := real.SaveInto(utiliptables.TableNAT, &b); e != nil {
					r.Nat = "SAVE FAILED: " + e.Error()
				} else {
					r.Nat = b.String()
				}
			}
			out.Ops = append(out.Ops, r)
		}
	}
	res, _ := json.Marshal(out)
	if os.WriteFile(parts[1], res, 0644) != nil {
		return 2
	}
	return 0
}

// canonTable parses an iptables-save text with the fake's own parser and returns chain -> rules, each rule with
// its option groups sorted (the real tool prints options in its own order).
func canonTable(save string) (map[string][]string, error) {
	var b strings.Builder
	for _, l := range strings.Split(save, "\n") {
		if strings.HasPrefix(l, "#") {
			continue
		}
		b.WriteString(l + "\n")
	}
	f := fakes.NewIPTables(nil)
	if err := f.Plant(b.String()); err != nil {
		return nil, err
	}
	out := map[string][]string{}
	for n, rules := range f.Chains("nat") {
		out[n] = []string{}
		for _, r := range rules {
			g := strings.Split(r.Canon(), "\x00")
			sort.Strings(g)
			out[n] = append(out[n], strings.ReplaceAll(strings.Join(g, " "), "\x01", " "))
		}
	}
	return out, nil
}

func diffTables(a, b map[string][]string) string {
	var names []string
	for n := range a {
		names = append(names, n)
	}
	for n := range b {
		if _, ok := a[n]; !ok {
			names = append(names, n)
		}
	}
	sort.Strings(names)
	for _, n := range names {
		ra, oka := a[n]
		rb, okb := b[n]
		if oka != okb {
			return fmt.Sprintf("chain %s: fake has it=%v, real has it=%v", n, oka, okb)
		}
		if strings.Join(ra, "\n") != strings.Join(rb, "\n") {
			return fmt.Sprintf("chain %s: fake %q, real %q", n, ra, rb)
		}
	}
	return ""
}

func calibrate(run *evid.Run, cases []*caseRun) {
	if _, err := exec.LookPath("unshare"); err != nil {
		run.Set("calibration", "calibration skipped: unshare not found")
		return
	}
	if out, err := exec.Command("unshare", "-n", "iptables-save", "-t", "nat").CombinedOutput(); err != nil {
		run.Set("calibration", fmt.Sprintf("calibration skipped: iptables unusable inside unshare -n: %v %s", err, strings.TrimSpace(string(out))))
		return
	}
	dir := os.Getenv("VERIF_BUILD_DIR")
	if dir == "" {
		d, err := os.MkdirTemp("", "pmsim-calib")
		if err != nil {
			run.Set("calibration", "calibration skipped: no scratch directory")
			return
		}
		dir = d
		defer os.RemoveAll(d)
	}
	self, err := os.Executable()
	if err != nil {
		run.Set("calibration", "calibration skipped: cannot find own executable")
		return
	}
	var mismatches []map[string]interface{}
	done, opsCompared, rejectsBoth, priorRejected := 0, 0, 0, 0
	for i, c := range cases {
		in := calibIn{Prior: c.priorDump, Ops: c.rec.tail(1 << 30)}
		data, _ := json.Marshal(in)
		inPath := filepath.Join(dir, fmt.Sprintf("calib-%d.in", i))
		outPath := filepath.Join(dir, fmt.Sprintf("calib-%d.out", i))
		if os.WriteFile(inPath, data, 0644) != nil {
			continue
		}
		cmd := exec.Command("unshare", "-n", self, "-child", "calib:"+inPath+","+outPath)
		if o, err := cmd.CombinedOutput(); err != nil {
			mismatches = append(mismatches, map[string]interface{}{"case": c.cs.ID, "what": fmt.Sprintf("child failed: %v %s", err, o)})
			continue
		}
		res, err := os.ReadFile(outPath)
		var out calibOut
		if err != nil || json.Unmarshal(res, &out) != nil {
			mismatches = append(mismatches, map[string]interface{}{"case": c.cs.ID, "what": "unreadable child result"})
			continue
		}
		os.Remove(inPath)
		os.Remove(outPath)
		if out.PriorErr != "" {
			priorRejected++
			mismatches = append(mismatches, map[string]interface{}{"case": c.cs.ID, "what": "real iptables-restore rejects the prior table the fake accepted", "err": out.PriorErr, "prior": c.priorDump})
			continue
		}
		done++
		for k, fo := range in.Ops {
			if k >= len(out.Ops) {
				break
			}
			ro := out.Ops[k]
			opsCompared++
			if fo.OK != ro.OK || fo.Exists != ro.Exists {
				mismatches = append(mismatches, map[string]interface{}{"case": c.cs.ID, "op_index": k, "op": fo, "what": "accept/reject or exists differs",
					"fake_ok": fo.OK, "real_ok": ro.OK, "fake_exists": fo.Exists, "real_exists": ro.Exists, "real_err": ro.Err})
				break
			}
			if !fo.OK {
				rejectsBoth++
			}
			if fo.Op == "save" {
				continue
			}
			ft, e1 := canonTable(fo.Nat)
			rt, e2 := canonTable(ro.Nat)
			if e1 != nil || e2 != nil {
				mismatches = append(mismatches, map[string]interface{}{"case": c.cs.ID, "op_index": k, "what": fmt.Sprintf("cannot parse a save: fake %v real %v", e1, e2), "real_save": ro.Nat})
				break
			}
			if d := diffTables(ft, rt); d != "" {
				mismatches = append(mismatches, map[string]interface{}{"case": c.cs.ID, "op_index": k, "op": fo, "what": "rule sets differ after the command: " + d})
				break
			}
		}
	}
	run.Count("calibration_cases_replayed_on_real_iptables", int64(done))
	run.Count("calibration_commands_compared", int64(opsCompared))
	run.Count("calibration_commands_rejected_by_both", int64(rejectsBoth))
	run.Count("calibration_mismatches", int64(len(mismatches)))
	if len(mismatches) > 0 {
		if len(mismatches) > 5 {
			mismatches = mismatches[:5]
		}
		run.Set("calibration", map[string]interface{}{"status": "MISMATCH between strict fake and real iptables (harness defect)", "first": mismatches})
		run.Inconclusive(fmt.Sprintf("calibration: the strict fake and the real iptables disagree (%d cases, first: %v)", len(mismatches), mismatches[0]["what"]))
		return
	}
	if done == 0 {
		run.Set("calibration", "calibration skipped: no case could be replayed")
		return
	}
	run.Set("calibration", fmt.Sprintf("ok: %d cases, %d commands replayed through galaxy's exec runner on iptables in unshare -n; accept/reject and NAT rule sets equal after every command", done, opsCompared))
}
