package main

import (
	"fmt"
	"sort"
	"strings"
	"sync"
	"syscall"

	"tkestack.io/galaxy/pkg/api/k8s"
	"tkestack.io/galaxy/pkg/network/portmapping"
	utiliptables "tkestack.io/galaxy/pkg/utils/iptables"
	"verif/harness/evid"
	"verif/harness/fakes"
)

const (
	stNone   = iota // no socket, no rules
	stOpened        // OpenHostports done, SetupPortMapping not yet
	stLive          // mapping complete
	stLimbo         // CloseHostports done, CleanPortMapping not yet (server.go cleanupPortMapping order)
)

var stNames = []string{"none", "opened", "live", "limbo"}

type podRT struct {
	spec        *PodSpec
	idx         int
	ports       []k8s.Port // working copy handed to galaxy (OpenHostports writes the assigned host ports into it)
	state       int
	tries       int
	blockedDone bool
	chains      []string
	lines       []string
}

type traceEntry struct {
	N     int         `json:"n"`
	Call  string      `json:"call"`
	Pod   string      `json:"pod,omitempty"`
	Ports interface{} `json:"ports,omitempty"`
	Err   string      `json:"err,omitempty"`
	Note  string      `json:"note,omitempty"`
}

type caseRun struct {
	cs        *CaseSpec
	run       *evid.Run
	fake      *fakes.IPTables
	rec       *recIPT
	h         *portmapping.PortMappingHandler
	pods      []*podRT
	priorNat  []string
	priorFilt []string
	priorDump string
	trace     []traceEntry
	held      map[string]int // proto:port -> pod index, ports galaxy must be holding
	failed    bool
	skipped   string
	stats     map[string]int64
	shape     []string
	sig       string
}

var (
	sigMu   sync.Mutex
	sigSeen = map[string]int{}
)

func (c *caseRun) count(k string, n int64) { c.stats[k] += n }

func (c *caseRun) log(call string, p *podRT, err error, note string) {
	e := traceEntry{N: len(c.trace), Call: call, Note: note}
	if p != nil {
		e.Pod = p.spec.Full()
		e.Ports = append([]k8s.Port(nil), p.ports...)
	}
	if err != nil {
		e.Err = err.Error()
	}
	c.trace = append(c.trace, e)
}

func (c *caseRun) violate(sig, msg string, extra map[string]interface{}) {
	if c.failed {
		return
	}
	c.failed = true
	c.sig = sig
	sigMu.Lock()
	sigSeen[sig]++
	n := sigSeen[sig]
	sigMu.Unlock()
	if n > 5 {
		// keep the capped violation list of the evidence usable for *other* signatures
		c.run.Count("repeats_not_listed_"+sig, 1)
		return
	}
	w := map[string]interface{}{"case": c.cs, "calls": c.trace, "last_iptables_ops": c.rec.tail(12)}
	for k, v := range extra {
		w[k] = v
	}
	c.run.Violate(evid.Violation{Sig: sig, Msg: msg, Witness: w, Case: c.cs.ID})
}

// portmapping.New forks (`iptables --version`). A forked child holds copies of every socket of this process until
// it execs, so a port galaxy has just closed could still look bound to a concurrent probe. Every fork of this
// process therefore happens while sockMu is held, i.e. outside all open/close+probe sections.
func newHandlerLocked(ipt utiliptables.Interface) *portmapping.PortMappingHandler {
	h := portmapping.New("")
	h.Interface = ipt
	return h
}

func newHandler(ipt utiliptables.Interface) *portmapping.PortMappingHandler {
	sockMu.Lock()
	defer sockMu.Unlock()
	return newHandlerLocked(ipt)
}

func keyOf(p k8s.Port) string { return fmt.Sprintf("%s:%d", strings.ToLower(p.Protocol), p.HostPort) }

// ---------------------------------------------------------------- prior table

func (c *caseRun) plantPrior() bool {
	if err := c.fake.Plant(c.cs.Prior); err != nil {
		c.run.Inconclusive("harness: prior script rejected by the strict fake: " + err.Error())
		return false
	}
	if len(c.cs.StalePods) > 0 {
		// stale galaxy state is produced by the real code (an earlier incarnation), then damaged
		h0 := newHandler(c.fake)
		var err error
		if c.cs.StaleVia == "forall" {
			err = h0.SetupPortMappingForAllPods(c.cs.StalePods)
		} else {
			if err = h0.EnsureBasicRule(); err == nil {
				err = h0.SetupPortMapping(c.cs.StalePods)
			}
		}
		if err != nil {
			c.run.Inconclusive("harness: planting stale galaxy state failed: " + err.Error())
			return false
		}
	}
	for _, m := range c.cs.StaleMut {
		kv := strings.SplitN(m, ":", 2)
		chains := c.fake.Chains("nat")
		var hp []string
		for n := range chains {
			if strings.HasPrefix(n, hpPrefix) {
				hp = append(hp, n)
			}
		}
		sort.Strings(hp)
		jumps := chains[hostportsChain]
		pick := int(kv[1][0]) // deterministic pseudo choice from the mutation's random tag
		var s string
		switch kv[0] {
		case "handmade-chain-with-jump":
			n := hpPrefix + kv[1]
			s = fmt.Sprintf("*nat\n:%s - [0:0]\n:%s - [0:0]\n-A %s -s 10.88.0.9/32 -m comment --comment \"gone hostport 4711\" -j RETURN\n"+
				"-A %s -p tcp -m comment --comment \"gone hostport 4711\" -m tcp -j DNAT --to-destination 10.88.0.9:80\n"+
				"-A %s -p tcp -m comment --comment \"gone hostport 4711\" -m tcp --dport 4711 -j %s\nCOMMIT\n", n, "KUBE-HOSTPORTS-TMP", n, n, hostportsChain, n)
			if _, ok := chains[hostportsChain]; !ok {
				s = strings.Replace(s, ":KUBE-HOSTPORTS-TMP - [0:0]\n", ":"+hostportsChain+" - [0:0]\n", 1)
			} else {
				s = strings.Replace(s, ":KUBE-HOSTPORTS-TMP - [0:0]\n", "", 1)
			}
		case "handmade-orphan-chain":
			n := hpPrefix + kv[1]
			s = fmt.Sprintf("*nat\n:%s - [0:0]\n-A %s -j RETURN\nCOMMIT\n", n, n)
			if pick%2 == 0 {
				s = fmt.Sprintf("*nat\n:%s - [0:0]\nCOMMIT\n", n)
			}
		case "drop-a-jump":
			if len(jumps) > 0 {
				s = fmt.Sprintf("*nat\n-D %s %s\nCOMMIT\n", hostportsChain, jumps[pick%len(jumps)].String())
			}
		case "duplicate-a-jump":
			if len(jumps) > 0 {
				s = fmt.Sprintf("*nat\n-A %s %s\nCOMMIT\n", hostportsChain, jumps[pick%len(jumps)].String())
			}
		case "garbage-in-hostports":
			if _, ok := chains[hostportsChain]; ok {
				s = fmt.Sprintf("*nat\n-I %s -s 1.2.3.4/32 -j RETURN\nCOMMIT\n", hostportsChain)
			}
		case "garbage-in-hp-chain":
			if len(hp) > 0 {
				s = fmt.Sprintf("*nat\n-A %s -d 9.9.9.9/32 -j RETURN\nCOMMIT\n", hp[pick%len(hp)])
			}
		}
		if s != "" {
			if err := c.fake.Plant(s); err != nil {
				c.run.Inconclusive("harness: stale mutation rejected by the strict fake: " + err.Error())
				return false
			}
		}
	}
	c.fake.ResetRejects()
	c.priorDump = c.fake.Dump("nat") + c.fake.Dump("filter")
	c.priorNat = foreignView(c.fake.Dump("nat"))
	c.priorFilt = foreignView(c.fake.Dump("filter"))
	c.count("prior_foreign_lines", int64(len(c.priorNat)+len(c.priorFilt)))
	c.count("prior_stale_hp_chains", int64(countHP(c.fake.Chains("nat"))))
	c.count("prior_stale_hostports_rules", int64(len(c.fake.Chains("nat")[hostportsChain])))
	return true
}

// ---------------------------------------------------------------- table checks

func (c *caseRun) wants() (req, opt []want) {
	for _, p := range c.pods {
		for _, port := range p.ports {
			if port.HostPort <= 0 {
				continue
			}
			switch p.state {
			case stLive:
				req = append(req, want{port, p.idx})
			case stLimbo:
				opt = append(opt, want{port, p.idx})
			}
		}
	}
	return
}

// checkTable is evaluated after every whole handler call that may touch iptables.
func (c *caseRun) checkTable(op string, actor *podRT, before string) {
	if c.failed {
		return
	}
	c.count("table_checks", 1)
	after := c.fake.Dump("nat")
	extra := func() map[string]interface{} {
		return map[string]interface{}{"op": op, "nat_before_call": before, "nat_after_call": after}
	}
	// the strict fake's reject log: a batch galaxy issued during a legitimate operation and the kernel would refuse
	rj := c.fake.Rejects()
	if len(rj) > 0 {
		c.fake.ResetRejects()
		// a refused single -C/-D of a jump whose target chain does not exist is benign: the rule cannot exist, and since
		// /repo f28808b CleanPortMapping skips it and goes on to its restore batch; whatever it then leaves behind is
		// judged by the table comparison below
		kept := rj[:0:0]
		for _, r := range rj {
			if r.Kind == "missing-chain" && (r.Op == "-D" || r.Op == "-C") {
				c.count("benign_refused_delete_of_jump_to_missing_chain", 1)
				continue
			}
			kept = append(kept, r)
		}
		rj = kept
	}
	if len(rj) > 0 {
		c.count("fake_rejects", int64(len(rj)))
		e := extra()
		e["rejected"] = rj
		sig := fmt.Sprintf("%s-batch-rejected-%s", op, rj[0].Kind)
		if op == "clean" && actor != nil && rj[0].Kind == "chain-in-use" {
			for _, q := range c.pods {
				if q != actor && (q.state == stLive || q.state == stLimbo) && q.spec.Name == actor.spec.Name && q.spec.NS != actor.spec.NS {
					sig = "clean-batch-rejected-chain-shared-with-same-named-pod-in-other-namespace"
					e["sharing_pod"] = q.spec.Full()
				}
			}
		}
		if op == "clean" && actor != nil && rj[0].Kind == "missing-chain" && rj[0].Op == "-D" {
			for _, q := range c.pods {
				if q != actor && q.spec.Name == actor.spec.Name && q.spec.NS != actor.spec.NS {
					sig = "clean-delete-rule-fails-chain-already-removed-by-same-named-pod-in-other-namespace"
				}
			}
		}
		c.violate(sig, fmt.Sprintf("iptables refused a command issued by %s (cleaning up leaves chains behind): %s", op, rj[0].Reason), e)
		return
	}
	// foreign content
	fn := foreignView(after)
	ff := foreignView(c.fake.Dump("filter"))
	c.count("foreign_lines_compared", int64(len(fn)+len(ff)))
	if !sameLines(fn, c.priorNat) || !sameLines(ff, c.priorFilt) {
		rm, ad := diffLines(append(append([]string(nil), c.priorNat...), c.priorFilt...), append(fn, ff...))
		e := extra()
		e["foreign_removed"], e["foreign_added"] = rm, ad
		c.violate(op+"-changes-foreign-rules", fmt.Sprintf("foreign chains/rules differ after %s: removed %q added %q", op, rm, ad), e)
		return
	}
	req, opt := c.wants()
	chains := c.fake.Chains("nat")
	probs, chainOf, lineOf := checkMappings(chains, req, opt)
	c.count("mappings_checked", int64(len(req)))
	if len(probs) > 0 {
		pr := probs[0]
		sig := op + "-" + pr.Kind
		msg := pr.Detail
		e := extra()
		e["problems"] = probs
		switch {
		case op == "clean" && (pr.Kind == "mapping-missing" || pr.Kind == "chain-content-wrong") && actor != nil && pr.Owner >= 0 && pr.Owner != actor.idx:
			victim := c.pods[pr.Owner]
			if victim.spec.Name == actor.spec.Name && victim.spec.NS != actor.spec.NS {
				sig = "clean-removes-live-mapping-of-same-named-pod-in-other-namespace"
				msg = fmt.Sprintf("CleanPortMapping for %s removed the mapping of live pod %s: %s", actor.spec.Full(), victim.spec.Full(), pr.Detail)
				e["minimal"] = minimalTwin(actor, victim, *pr.Port)
			} else {
				sig = "clean-removes-live-mapping-of-other-pod"
			}
		case op == "clean" && pr.Kind == "unexpected-jump":
			sig = "clean-leaves-jump-behind"
		case op == "clean" && pr.Kind == "orphan-chain":
			sig = "clean-leaves-chain-behind"
		case strings.HasPrefix(op, "forall") && pr.Kind == "orphan-chain":
			sig = "forall-stale-kube-hp-chain-survives"
		case strings.HasPrefix(op, "forall") && pr.Kind == "unexpected-jump":
			sig = "forall-stale-jump-survives"
		}
		c.violate(sig, fmt.Sprintf("after %s: %s", op, msg), e)
		return
	}
	// remember the chain of every live port (found through its jump) for the byte-identity check
	k := 0
	for _, p := range c.pods {
		if p.state != stLive {
			continue
		}
		p.chains, p.lines = nil, nil
		for _, port := range p.ports {
			if port.HostPort <= 0 {
				continue
			}
			p.chains = append(p.chains, chainOf[k])
			p.lines = append(p.lines, lineOf[k])
			k++
		}
	}
}

type frame struct {
	text map[string]string
	hp   []string
}

// frameBefore snapshots the text of every other live pod's chains and jumps.
func (c *caseRun) frameBefore(actor *podRT) frame {
	f := frame{text: map[string]string{}}
	chains := c.fake.Chains("nat")
	for _, q := range c.pods {
		if q == actor || q.state != stLive {
			continue
		}
		for _, ch := range q.chains {
			f.text[q.spec.Full()+" "+ch] = chainText(chains, ch)
		}
		f.hp = append(f.hp, q.lines...)
	}
	return f
}

func (c *caseRun) frameAfter(op string, actor *podRT, f frame, before string) {
	if c.failed {
		return
	}
	chains := c.fake.Chains("nat")
	keys := make([]string, 0, len(f.text))
	for k := range f.text {
		keys = append(keys, k)
	}
	sort.Strings(keys)
	for _, k := range keys {
		kv := strings.SplitN(k, " ", 2)
		c.count("other_pod_chains_compared", 1)
		if now := chainText(chains, kv[1]); now != f.text[k] {
			c.violate(op+"-changes-chain-of-other-live-pod", fmt.Sprintf("%s for %s changed chain %s of live pod %s: %q -> %q",
				op, actor.spec.Full(), kv[1], kv[0], f.text[k], now), map[string]interface{}{"nat_before_call": before, "nat_after_call": c.fake.Dump("nat")})
			return
		}
	}
	have := map[string]int{}
	for _, r := range chains[hostportsChain] {
		have[r.String()]++
	}
	for _, l := range f.hp {
		c.count("other_pod_jumps_compared", 1)
		if have[l] == 0 {
			c.violate(op+"-changes-jump-of-other-live-pod", fmt.Sprintf("%s for %s removed or rewrote the jump %q of another live pod",
				op, actor.spec.Full(), l), map[string]interface{}{"nat_before_call": before, "nat_after_call": c.fake.Dump("nat")})
			return
		}
		have[l]--
	}
}

// ---------------------------------------------------------------- sockets

func (c *caseRun) predictOpenFail(p *podRT, random bool, blocker string) (int, string) {
	seen := map[string]bool{}
	for i, port := range p.ports {
		if port.HostPort < 0 || (port.HostPort == 0 && !random) {
			continue
		}
		pr := strings.ToLower(port.Protocol)
		if pr != "tcp" && pr != "udp" {
			return i, "unknown-protocol"
		}
		if port.HostPort == 0 {
			continue
		}
		k := keyOf(port)
		if k == blocker {
			return i, "port-held-by-foreign-socket"
		}
		if o, ok := c.held[k]; ok {
			if o == p.idx {
				return i, "port-held-by-same-pod"
			}
			return i, "port-held-by-other-pod"
		}
		if seen[k] {
			return i, "port-twice-in-pod"
		}
		seen[k] = true
	}
	return -1, ""
}

// openLocked performs one OpenHostports call with all port monitors. sockMu must be held. Returns true when the
// ports are open.
func (c *caseRun) openLocked(p *podRT, random bool, blockFd int, blocker string) bool {
	failIdx, cause := c.predictOpenFail(p, random, blocker)
	req := append([]k8s.Port(nil), p.ports...)
	err := c.h.OpenHostports(p.spec.Full(), random, p.ports)
	c.log(fmt.Sprintf("OpenHostports(random=%v)", random), p, err, cause)
	c.count("open_calls", 1)
	if err == nil && failIdx >= 0 {
		c.violate("open-succeeds-although-"+cause, fmt.Sprintf("OpenHostports(%s) returned nil although port #%d (%s/%d) cannot be free: %s",
			p.spec.Full(), failIdx, req[failIdx].Protocol, req[failIdx].HostPort, cause), map[string]interface{}{"requested": req})
		return true
	}
	if err != nil && failIdx < 0 {
		// No port of this request is held by this galaxy or by the harness. "address already in use" on a port whose
		// holder is not a socket of this process is the environment (another check running in parallel, any other
		// process): counted, the case is abandoned. A holder inside this process stays a violation.
		if strings.Contains(err.Error(), "address already in use") {
			var named int
			if i := strings.Index(err.Error(), "cannot open hostport "); i >= 0 {
				fmt.Sscanf(err.Error()[i+len("cannot open hostport "):], "%d", &named)
			}
			oursHolds := false
			for _, port := range req {
				if named > 0 && int(port.HostPort) == named {
					pr := strings.ToLower(port.Protocol)
					if holder(pr, named) == "ours" {
						oursHolds = true
					}
				}
			}
			if named > 0 && !oursHolds {
				c.count("open_failed_port_taken_by_other_process", 1)
				c.skipped = fmt.Sprintf("port %d taken by another process during the case", named)
				c.failed = true
				// whatever this call opened before the foreign port must still have been released by galaxy
				for _, port := range p.ports {
					if port.HostPort > 0 && int(port.HostPort) != named {
						pr := strings.ToLower(port.Protocol)
						if _, heldByPod := c.held[keyOf(port)]; !heldByPod && probe(pr, int(port.HostPort)) != "free" && holder(pr, int(port.HostPort)) == "ours" {
							c.failed, c.skipped = false, ""
							c.violate("failed-open-leaves-port-bound-port-taken-by-other-process", fmt.Sprintf("OpenHostports(%s) failed on foreign-held port %d but %s/%d opened by the same call is still bound by this process",
								p.spec.Full(), named, pr, port.HostPort), map[string]interface{}{"requested": req, "after_call": p.ports})
						}
					}
				}
				return false
			}
		}
		c.violate("open-fails-on-free-ports", fmt.Sprintf("OpenHostports(%s) failed although no requested port is held: %v", p.spec.Full(), err),
			map[string]interface{}{"requested": req})
		return false
	}
	if err != nil {
		// failed setup leaves no port open: every port this call opened before the failing one is bindable again
		c.count("open_failed_as_expected", 1)
		c.count("open_failed_"+cause, 1)
		c.shape = append(c.shape, "openfail:"+cause+fmt.Sprintf("@%d/%d", failIdx, len(req)))
		for i := 0; i < failIdx; i++ {
			port := p.ports[i]
			if port.HostPort <= 0 || (req[i].HostPort == 0 && !random) {
				continue
			}
			pr := strings.ToLower(port.Protocol)
			c.count("errpath_ports_probed", 1)
			if req[i].HostPort == 0 {
				c.count("errpath_random_ports_probed", 1)
			}
			if st := probe(pr, int(port.HostPort)); st != "free" {
				// only a socket of this process is galaxy's doing; any other holder took the port after its release
				who := holder(pr, int(port.HostPort))
				if st == "inuse" && who != "ours" {
					c.count("released_port_taken_by_other_process", 1)
					continue
				}
				c.violate("failed-open-leaves-port-bound-"+cause, fmt.Sprintf("OpenHostports(%s) failed at port #%d (%s) but port #%d %s/%d opened by the same call is still bound (%s, holder=%s)",
					p.spec.Full(), failIdx, cause, i, pr, port.HostPort, st, who), map[string]interface{}{"requested": req, "after_call": p.ports})
				return false
			}
		}
		// ports of other pods are still held
		c.probeHeld("failed-open")
		// server.go: setupPortMapping error => cleanupPortMapping => CloseHostports (+ cleanIPtables: no port file)
		c.h.CloseHostports(p.spec.Full())
		c.log("CloseHostports(after failed ADD)", p, nil, "")
		c.probeHeld("close-after-failed-open")
		p.ports = append([]k8s.Port(nil), p.spec.Ports...)
		return false
	}
	// success: every handed-out port is > 0, distinct per protocol on the node, and bound
	seen := map[string]bool{}
	for i, port := range p.ports {
		if req[i].HostPort < 0 || (req[i].HostPort == 0 && !random) {
			continue
		}
		pr := strings.ToLower(port.Protocol)
		if port.HostPort <= 0 || port.HostPort > 65535 {
			c.violate("open-returns-no-port-for-random-mapping", fmt.Sprintf("port #%d of %s has HostPort %d after a successful OpenHostports", i, p.spec.Full(), port.HostPort),
				map[string]interface{}{"requested": req, "after_call": p.ports})
			return true
		}
		k := keyOf(port)
		if o, dup := c.held[k]; dup || seen[k] {
			c.violate("host-port-handed-out-twice", fmt.Sprintf("%s handed to %s is already held (pod #%d)", k, p.spec.Full(), o),
				map[string]interface{}{"requested": req, "after_call": p.ports})
			return true
		}
		seen[k] = true
		if req[i].HostPort == 0 {
			c.count("ports_opened_random", 1)
		} else {
			c.count("ports_opened_fixed", 1)
			if port.HostPort != req[i].HostPort {
				c.violate("fixed-host-port-changed", fmt.Sprintf("requested %d got %d", req[i].HostPort, port.HostPort), nil)
				return true
			}
		}
		c.count("ports_opened_"+pr, 1)
		c.count("bind_probes_while_held", 1)
		if st := probe(pr, int(port.HostPort)); st != "inuse" {
			c.violate("handed-out-port-not-bound", fmt.Sprintf("%s handed to %s: harness bind() gives %q, want EADDRINUSE", k, p.spec.Full(), st),
				map[string]interface{}{"requested": req, "after_call": p.ports})
			return true
		}
	}
	for k := range seen {
		c.held[k] = p.idx
	}
	c.run.Max("max_ports_held_by_one_galaxy", int64(len(c.held)))
	return true
}

// probeHeld: every port the model says galaxy holds is still EADDRINUSE and owned by this process.
func (c *caseRun) probeHeld(after string) {
	if c.failed {
		return
	}
	keys := make([]string, 0, len(c.held))
	for k := range c.held {
		keys = append(keys, k)
	}
	sort.Strings(keys)
	for _, k := range keys {
		var pr string
		var port int
		fmt.Sscanf(strings.Replace(k, ":", " ", 1), "%s %d", &pr, &port)
		c.count("bind_probes_while_held", 1)
		if st := probe(pr, port); st != "inuse" {
			c.violate("live-pod-port-released-by-"+after, fmt.Sprintf("%s of live pod %s is no longer bound after %s (bind gives %q)",
				k, c.pods[c.held[k]].spec.Full(), after, st), nil)
			return
		}
	}
}

// closeLocked performs CloseHostports with the release monitor. sockMu must be held.
func (c *caseRun) closeLocked(p *podRT) {
	c.h.CloseHostports(p.spec.Full())
	c.log("CloseHostports", p, nil, "")
	c.count("close_calls", 1)
	for k, o := range c.held {
		if o == p.idx {
			delete(c.held, k)
		}
	}
	for _, port := range p.ports {
		if port.HostPort <= 0 {
			continue
		}
		pr := strings.ToLower(port.Protocol)
		c.count("bind_probes_after_close", 1)
		if st := probe(pr, int(port.HostPort)); st != "free" {
			who := holder(pr, int(port.HostPort))
			if st == "inuse" && who != "ours" {
				c.count("released_port_taken_by_other_process", 1)
				continue
			}
			c.violate("port-still-bound-after-close", fmt.Sprintf("%s/%d of %s: bind gives %q after CloseHostports (holder=%s)",
				pr, port.HostPort, p.spec.Full(), st, who), nil)
			return
		}
	}
	c.probeHeld("close-of-other-pod")
}

// ---------------------------------------------------------------- handler calls

func (c *caseRun) add1Open(p *podRT) {
	sockMu.Lock()
	defer sockMu.Unlock()
	blockFd, blocker := -1, ""
	if p.spec.BlockIdx >= 0 && !p.blockedDone {
		p.blockedDone = true
		bp := p.ports[p.spec.BlockIdx]
		pr := strings.ToLower(bp.Protocol)
		if _, clash := c.held[keyOf(bp)]; !clash {
			fd, err := tryBind(pr, int(bp.HostPort))
			if err != nil {
				c.skipped = fmt.Sprintf("cannot place blocker on %s/%d: %v", pr, bp.HostPort, err)
				c.failed = true
				return
			}
			blockFd, blocker = fd, keyOf(bp)
			c.log("harness occupies "+blocker, nil, nil, "")
		}
	}
	ok := c.openLocked(p, p.spec.Random, blockFd, blocker)
	if blockFd >= 0 {
		syscall.Close(blockFd)
		c.log("harness releases "+blocker, nil, nil, "")
	}
	if c.failed {
		return
	}
	if ok {
		p.state = stOpened
	} else {
		p.tries++
	}
}

func (c *caseRun) add2Setup(p *podRT) {
	before := c.fake.Dump("nat")
	fr := c.frameBefore(p)
	err := c.h.SetupPortMapping(p.ports)
	c.log("SetupPortMapping", p, err, "")
	c.count("setup_calls", 1)
	p.state = stLive
	if err != nil {
		c.checkTable("setup", p, before) // reports a rejected batch first, if that is the reason
		c.violate("setup-returns-error", "SetupPortMapping failed on a legitimate request: "+err.Error(), nil)
		return
	}
	c.checkTable("setup", p, before)
	c.frameAfter("setup", p, fr, before)
}

func (c *caseRun) del1Close(p *podRT) {
	sockMu.Lock()
	c.closeLocked(p)
	sockMu.Unlock()
	p.state = stLimbo
}

func (c *caseRun) del2Clean(p *podRT) {
	before := c.fake.Dump("nat")
	fr := c.frameBefore(p)
	err := c.h.CleanPortMapping(p.ports)
	c.log("CleanPortMapping", p, err, "")
	c.count("clean_calls", 1)
	p.state = stNone
	if err != nil {
		c.checkTable("clean", p, before)
		c.violate("clean-returns-error", "CleanPortMapping failed on a legitimate request: "+err.Error(), nil)
		return
	}
	c.checkTable("clean", p, before)
	c.frameAfter("clean", p, fr, before)
	p.ports = append([]k8s.Port(nil), p.spec.Ports...)
	p.chains, p.lines = nil, nil
}

func (c *caseRun) advance(p *podRT) {
	switch p.state {
	case stNone:
		if p.tries > 2 {
			return
		}
		c.add1Open(p)
	case stOpened:
		c.add2Setup(p)
	case stLive:
		// classify the interleaving for coverage: a same-named pod in teardown limbo?
		c.del1Close(p)
	case stLimbo:
		for _, q := range c.pods {
			if q != p && q.state == stLive && q.spec.Name == p.spec.Name {
				c.count("clean_while_same_named_pod_live", 1)
				c.shape = append(c.shape, "twin-overlap")
			}
		}
		c.del2Clean(p)
	}
}

// forall is the start-up synchronisation: SetupPortMappingForAllPods over every pod known to be on the node, twice.
func (c *caseRun) forall(tag string) {
	var all []k8s.Port
	for _, p := range c.pods {
		if p.state == stOpened || p.state == stLive {
			all = append(all, p.ports...)
			p.state = stLive
		}
	}
	before := c.fake.Dump("nat")
	hpBefore := c.fake.Chains("nat")
	err := c.h.SetupPortMappingForAllPods(all)
	c.trace = append(c.trace, traceEntry{N: len(c.trace), Call: "SetupPortMappingForAllPods", Ports: all, Err: errStr(err)})
	c.count("forall_calls", 1)
	if err != nil {
		c.checkTable(tag, nil, before)
		c.violate(tag+"-returns-error", "SetupPortMappingForAllPods failed: "+err.Error(), map[string]interface{}{"nat_before_call": before})
		return
	}
	c.checkTable(tag, nil, before)
	if c.failed {
		return
	}
	c.count("forall_ports_synced", int64(len(all)))
	hpAfter := c.fake.Chains("nat")
	gone := 0
	for n := range hpBefore {
		if _, ok := hpAfter[n]; !ok && strings.HasPrefix(n, hpPrefix) {
			gone++
		}
	}
	if gone > 0 {
		c.count("stale_hp_chains_removed_by_forall", int64(gone))
		c.count("forall_calls_removing_stale_chains", 1)
		c.shape = append(c.shape, "stale-removed")
	}
	once := c.fake.Dump("nat") + c.fake.Dump("filter")
	err = c.h.SetupPortMappingForAllPods(all)
	c.trace = append(c.trace, traceEntry{N: len(c.trace), Call: "SetupPortMappingForAllPods (again)", Err: errStr(err)})
	twice := c.fake.Dump("nat") + c.fake.Dump("filter")
	c.count("forall_idempotence_checks", 1)
	if err != nil || once != twice {
		rm, ad := diffLines(strings.Split(once, "\n"), strings.Split(twice, "\n"))
		c.violate(tag+"-second-call-changes-table", fmt.Sprintf("second SetupPortMappingForAllPods: err=%v removed=%q added=%q", err, rm, ad),
			map[string]interface{}{"after_first": once, "after_second": twice})
		return
	}
	if rj := c.fake.Rejects(); len(rj) > 0 {
		c.checkTable(tag, nil, before)
	}
}

func errStr(err error) string {
	if err == nil {
		return ""
	}
	return err.Error()
}

// roundtrip: explicit inverse law on a quiescent table.
func (c *caseRun) roundtrip(p *podRT) {
	if p.state != stNone {
		return
	}
	if i, _ := c.predictOpenFail(p, p.spec.Random, ""); i >= 0 || p.spec.BlockIdx >= 0 {
		return
	}
	d0 := c.fake.Dump("nat")
	f0 := c.fake.Dump("filter")
	c.add1Open(p)
	if c.failed || p.state != stOpened {
		return
	}
	c.add2Setup(p)
	if c.failed {
		return
	}
	mid := c.fake.Dump("nat")
	c.del1Close(p)
	if c.failed {
		return
	}
	c.del2Clean(p)
	if c.failed {
		return
	}
	d1 := c.fake.Dump("nat")
	c.count("inverse_roundtrips", 1)
	if mid == d0 {
		c.violate("setup-changes-nothing", "NAT dump identical before and after SetupPortMapping", nil)
		return
	}
	a, b := stripScaffold(d0), stripScaffold(d1)
	if !sameLines(a, b) || f0 != c.fake.Dump("filter") {
		rm, ad := diffLines(a, b)
		c.violate("roundtrip-nat-dump-differs", fmt.Sprintf("open+setup then close+clean of %s does not restore the NAT table: removed %q added %q", p.spec.Full(), rm, ad),
			map[string]interface{}{"nat_before": d0, "nat_between": mid, "nat_after": d1})
	}
}

// restart models a galaxy restart at a quiescent point: sockets are gone, a new handler re-opens the ports of all
// pods on the node (server.go setupIPtables) and synchronises.
func (c *caseRun) restart() {
	for _, p := range c.pods {
		if p.state == stOpened || p.state == stLimbo {
			c.count("restart_skipped_not_quiescent", 1)
			return
		}
	}
	sockMu.Lock()
	var wasLive []*podRT
	for _, p := range c.pods {
		if p.state == stLive {
			c.closeLocked(p)
			if c.failed {
				sockMu.Unlock()
				return
			}
			p.state = stNone
			wasLive = append(wasLive, p)
		}
	}
	c.h = newHandlerLocked(c.rec)
	c.trace = append(c.trace, traceEntry{N: len(c.trace), Call: "galaxy restart: new PortMappingHandler"})
	for _, p := range wasLive {
		{
			if ok := c.openLocked(p, false, -1, ""); ok {
				p.state = stOpened
			} else if !c.failed {
				c.violate("reopen-after-restart-fails", "OpenHostports for a live pod failed after restart", nil)
			}
			if c.failed {
				sockMu.Unlock()
				return
			}
		}
	}
	sockMu.Unlock()
	c.count("restarts", 1)
	c.forall("forall-restart")
}

// ---------------------------------------------------------------- the case

func runCase(run *evid.Run, cs *CaseSpec, snap bool) *caseRun {
	c := &caseRun{cs: cs, run: run, fake: fakes.NewIPTables(nil), held: map[string]int{}, stats: map[string]int64{}}
	c.rec = &recIPT{f: c.fake, snap: snap}
	for i := range cs.Pods {
		c.pods = append(c.pods, &podRT{spec: &cs.Pods[i], idx: i, ports: append([]k8s.Port(nil), cs.Pods[i].Ports...)})
	}
	// fixed ports are probed first: a port occupied by someone else makes the case skipped, not failed
	for i := 0; i < slotPorts; i++ {
		for _, pr := range []string{"tcp", "udp"} {
			if st := probe(pr, cs.FixedLo+i); st != "free" {
				c.skipped = fmt.Sprintf("fixed port %s/%d not free before the case (%s)", pr, cs.FixedLo+i, st)
				return c
			}
		}
	}
	if !c.plantPrior() {
		c.skipped = "harness could not plant the prior table"
		return c
	}
	defer c.cleanupSockets()
	c.h = newHandler(c.rec)
	// start-up: pods already on the node
	sockMu.Lock()
	for _, i := range cs.Existing {
		p := c.pods[i]
		if ok := c.openLocked(p, false, -1, ""); ok {
			p.state = stOpened
		}
		if c.failed {
			break
		}
	}
	sockMu.Unlock()
	if c.failed {
		return c
	}
	c.forall("forall")
	if c.failed {
		return c
	}
	for _, st := range cs.Schedule {
		if c.failed {
			return c
		}
		switch st.Op {
		case "roundtrip":
			c.roundtrip(c.pods[st.Pod])
		case "restart":
			c.restart()
		default:
			c.advance(c.pods[st.Pod])
		}
	}
	// end of case: tear every pod down in galaxy's order and demand the table is back to foreign + scaffolding
	for _, p := range c.pods {
		if c.failed {
			return c
		}
		switch p.state {
		case stOpened:
			c.del1Close(p)
			p.state = stNone
		case stLive:
			c.del1Close(p)
			if !c.failed {
				c.del2Clean(p)
			}
		case stLimbo:
			c.del2Clean(p)
		}
	}
	if !c.failed {
		c.checkTable("final-teardown", nil, "")
		if n := countHP(c.fake.Chains("nat")); n == 0 && len(c.fake.Chains("nat")[hostportsChain]) == 0 {
			c.count("cases_ending_with_clean_table", 1)
		}
	}
	return c
}

// cleanupSockets releases whatever galaxy still holds (only relevant after an aborted case).
func (c *caseRun) cleanupSockets() {
	sockMu.Lock()
	defer sockMu.Unlock()
	for _, p := range c.pods {
		c.h.CloseHostports(p.spec.Full())
	}
}

// minimalTwin replays the smallest history showing the chain-name collision on a fresh table, without sockets.
func minimalTwin(a, b *podRT, victimPort k8s.Port) map[string]interface{} {
	var ap *k8s.Port
	for i := range a.ports {
		if a.ports[i].HostPort == victimPort.HostPort && a.ports[i].Protocol == victimPort.Protocol &&
			a.ports[i].ContainerPort == victimPort.ContainerPort {
			ap = &a.ports[i]
		}
	}
	if ap == nil {
		return nil
	}
	f := fakes.NewIPTables(nil)
	h := newHandler(f)
	out := map[string]interface{}{}
	steps := []string{}
	do := func(name string, err error) {
		steps = append(steps, fmt.Sprintf("%s -> %v", name, err))
	}
	do("EnsureBasicRule()", h.EnsureBasicRule())
	do(fmt.Sprintf("SetupPortMapping(%+v)  # pod %s", *ap, a.spec.Full()), h.SetupPortMapping([]k8s.Port{*ap}))
	do(fmt.Sprintf("SetupPortMapping(%+v)  # pod %s, after CloseHostports(%s) and OpenHostports(%s)", victimPort, b.spec.Full(), a.spec.Full(), b.spec.Full()),
		h.SetupPortMapping([]k8s.Port{victimPort}))
	mid := f.Dump("nat")
	do(fmt.Sprintf("CleanPortMapping(%+v)  # pod %s", *ap, a.spec.Full()), h.CleanPortMapping([]k8s.Port{*ap}))
	out["steps"] = steps
	out["nat_before_clean"] = mid
	out["nat_after_clean"] = f.Dump("nat")
	probs, _, _ := checkMappings(f.Chains("nat"), []want{{victimPort, 1}}, nil)
	out["live_pod_mapping_missing"] = len(probs) > 0
	return out
}
