package main

import (
	"fmt"
	"sort"
	"strings"

	"tkestack.io/galaxy/pkg/api/k8s"
	"verif/harness/fakes"
)

// Reference for the NAT table content the property demands. It never computes galaxy's chain-name hash: a port's
// chain is whatever chain its jump in KUBE-HOSTPORTS points to.

const (
	hostportsChain = "KUBE-HOSTPORTS"
	markMasqChain  = "KUBE-MARK-MASQ"
	hpPrefix       = "KUBE-HP-"
)

type parsed struct {
	comment, proto, dport, src, dst, target, todest string
	mods                                            []string
	extra                                           []string
}

func parseRule(toks []string) parsed {
	var p parsed
	for i := 0; i < len(toks); i++ {
		t := toks[i]
		val := func() string {
			if i+1 < len(toks) {
				i++
				return toks[i]
			}
			p.extra = append(p.extra, t+"<no-arg>")
			return ""
		}
		switch t {
		case "-m":
			p.mods = append(p.mods, val())
		case "--comment":
			p.comment = val()
		case "-p":
			p.proto = val()
		case "--dport":
			p.dport = val()
		case "-s":
			p.src = val()
		case "-d":
			p.dst = val()
		case "-j":
			p.target = val()
		case "--to-destination":
			p.todest = val()
		default:
			p.extra = append(p.extra, t)
		}
	}
	sort.Strings(p.mods)
	return p
}

// sig is the canonical content of a rule apart from the jump target chain name.
func (p parsed) sig(withTarget bool) string {
	tg := p.target
	if !withTarget && strings.HasPrefix(tg, hpPrefix) {
		tg = hpPrefix + "*"
	}
	return fmt.Sprintf("c=%q p=%s dport=%s s=%s d=%s j=%s to=%s m=%s x=%s", p.comment, p.proto, p.dport, p.src, p.dst,
		tg, p.todest, strings.Join(p.mods, ","), strings.Join(p.extra, ","))
}

func cidr32(ip string) string {
	if ip == "" || strings.Contains(ip, "/") {
		return ip
	}
	return ip + "/32"
}

// wantJump / wantChain: what the documentation and the property demand for one port.
func wantJump(p k8s.Port) string {
	proto := strings.ToLower(p.Protocol)
	w := parsed{comment: fmt.Sprintf("%s hostport %d", p.PodName, p.HostPort), proto: proto,
		dport: fmt.Sprint(p.HostPort), dst: cidr32(p.HostIP), target: hpPrefix + "*", mods: []string{"comment", proto}}
	sort.Strings(w.mods)
	return w.sig(false)
}

func wantChain(p k8s.Port) []string {
	proto := strings.ToLower(p.Protocol)
	c := fmt.Sprintf("%s hostport %d", p.PodName, p.HostPort)
	r1 := parsed{comment: c, src: cidr32(p.PodIP), target: markMasqChain, mods: []string{"comment"}}
	r2 := parsed{comment: c, proto: proto, target: "DNAT", todest: fmt.Sprintf("%s:%d", p.PodIP, p.ContainerPort),
		mods: []string{"comment", proto}}
	sort.Strings(r2.mods)
	return []string{r1.sig(true), r2.sig(true)}
}

type obsJump struct {
	line   string
	jsig   string
	target string
	csig   []string
	exists bool
	used   bool
}

type problem struct {
	Kind string // mapping-missing | chain-content-wrong | duplicate-jump | unexpected-jump | orphan-chain |
	// shared-chain | malformed-hostports-rule
	Detail string
	Port   *k8s.Port
	Owner  int // index of the pod the port belongs to, -1 if n/a
}

type want struct {
	port  k8s.Port
	owner int
}

// checkMappings compares the galaxy-owned part of the NAT table with the required and optional (pods whose sockets
// are closed but whose iptables clean-up has not run yet) mappings. It returns the problems and, for every required
// port, the chain found for it (by index in required).
func checkMappings(chains map[string][]fakes.Rule, required, optional []want) ([]problem, []string, []string) {
	var probs []problem
	var obs []*obsJump
	targeted := map[string]int{}
	for _, r := range chains[hostportsChain] {
		pr := parseRule(r.Tokens)
		o := &obsJump{line: r.String(), jsig: pr.sig(false), target: pr.target}
		if !strings.HasPrefix(pr.target, hpPrefix) {
			probs = append(probs, problem{Kind: "unexpected-jump", Detail: "rule in KUBE-HOSTPORTS that is not a jump to a KUBE-HP-* chain: " + r.String(), Owner: -1})
			continue
		}
		rules, ok := chains[pr.target]
		o.exists = ok
		for _, cr := range rules {
			o.csig = append(o.csig, parseRule(cr.Tokens).sig(true))
		}
		targeted[pr.target]++
		obs = append(obs, o)
	}
	chainOf := make([]string, len(required))
	lineOf := make([]string, len(required))
	for i, w := range required {
		js, cs := wantJump(w.port), wantChain(w.port)
		var cands []*obsJump
		for _, o := range obs {
			if o.jsig == js && !o.used {
				cands = append(cands, o)
			}
		}
		p := w.port
		if len(cands) == 0 {
			probs = append(probs, problem{Kind: "mapping-missing", Port: &p, Owner: w.owner,
				Detail: fmt.Sprintf("no jump in KUBE-HOSTPORTS for %s %s/%d hostIP=%q", p.PodName, p.Protocol, p.HostPort, p.HostIP)})
			continue
		}
		// prefer a candidate whose chain content is right
		best := cands[0]
		for _, c := range cands {
			if strings.Join(c.csig, "\n") == strings.Join(cs, "\n") {
				best = c
				break
			}
		}
		best.used = true
		chainOf[i], lineOf[i] = best.target, best.line
		if strings.Join(best.csig, "\n") != strings.Join(cs, "\n") {
			probs = append(probs, problem{Kind: "chain-content-wrong", Port: &p, Owner: w.owner,
				Detail: fmt.Sprintf("chain %s for %s %s/%d holds %q, want %q", best.target, p.PodName, p.Protocol, p.HostPort, best.csig, cs)})
		}
		if len(cands) > 1 {
			for _, c := range cands[1:] {
				if c != best && strings.Join(c.csig, "\n") == strings.Join(best.csig, "\n") && c.target == best.target {
					c.used = true
					probs = append(probs, problem{Kind: "duplicate-jump", Port: &p, Owner: w.owner, Detail: "jump present more than once: " + c.line})
				}
			}
		}
	}
	// required chains pairwise distinct
	seen := map[string]int{}
	for i, c := range chainOf {
		if c == "" {
			continue
		}
		if j, ok := seen[c]; ok {
			p := required[i].port
			probs = append(probs, problem{Kind: "shared-chain", Port: &p, Owner: required[i].owner,
				Detail: fmt.Sprintf("ports #%d and #%d share chain %s", j, i, c)})
		}
		seen[c] = i
	}
	optKeys := map[string]bool{}
	for _, w := range optional {
		optKeys[wantJump(w.port)] = true
	}
	limboTargets := map[string]bool{}
	for _, o := range obs {
		if o.used {
			continue
		}
		if optKeys[o.jsig] {
			limboTargets[o.target] = true
			continue
		}
		probs = append(probs, problem{Kind: "unexpected-jump", Owner: -1, Detail: "jump in KUBE-HOSTPORTS belonging to no live port: " + o.line})
	}
	var names []string
	for n := range chains {
		names = append(names, n)
	}
	sort.Strings(names)
	for _, n := range names {
		if strings.HasPrefix(n, hpPrefix) && targeted[n] == 0 {
			probs = append(probs, problem{Kind: "orphan-chain", Owner: -1, Detail: fmt.Sprintf("chain %s (%d rules) exists without a live port", n, len(chains[n]))})
		}
	}
	for _, o := range obs {
		if !o.exists {
			probs = append(probs, problem{Kind: "malformed-hostports-rule", Owner: -1, Detail: "jump to a chain that does not exist: " + o.line})
		}
	}
	return probs, chainOf, lineOf
}

const portalRule = `-m comment --comment "kube hostport portals" -m addrtype --dst-type LOCAL -j KUBE-HOSTPORTS`

// foreignView returns the lines of a dump that galaxy must never change: everything except the chains galaxy is
// documented to own (KUBE-HOSTPORTS, KUBE-MARK-MASQ, KUBE-HP-*) and the two documented portal jumps in
// nat PREROUTING/OUTPUT. The policy of filter FORWARD (set by EnsureBasicRule) is masked.
func foreignView(dump string) []string {
	var out []string
	for _, l := range strings.Split(dump, "\n") {
		if l == "" {
			continue
		}
		fs := strings.Fields(l)
		var ch string
		if strings.HasPrefix(l, ":") {
			ch = fs[0][1:]
		} else if strings.HasPrefix(l, "-A ") && len(fs) > 1 {
			ch = fs[1]
		}
		if ch == hostportsChain || ch == markMasqChain || strings.HasPrefix(ch, hpPrefix) {
			continue
		}
		if l == "-A PREROUTING "+portalRule || l == "-A OUTPUT "+portalRule {
			continue
		}
		if strings.HasPrefix(l, ":FORWARD ") {
			l = ":FORWARD <policy> [0:0]"
		}
		out = append(out, l)
	}
	return out
}

func diffLines(a, b []string) (removed, added []string) {
	ma := map[string]int{}
	for _, l := range a {
		ma[l]++
	}
	for _, l := range b {
		if ma[l] > 0 {
			ma[l]--
		} else {
			added = append(added, l)
		}
	}
	mb := map[string]int{}
	for _, l := range b {
		mb[l]++
	}
	for _, l := range a {
		if mb[l] > 0 {
			mb[l]--
		} else {
			removed = append(removed, l)
		}
	}
	return
}

func sameLines(a, b []string) bool {
	if len(a) != len(b) {
		return false
	}
	for i := range a {
		if a[i] != b[i] {
			return false
		}
	}
	return true
}

// stripScaffold removes the two scaffolding chains galaxy is documented to own from a nat dump (inverse law).
func stripScaffold(dump string) []string {
	var out []string
	for _, l := range strings.Split(dump, "\n") {
		if l == "" || strings.HasPrefix(l, ":"+hostportsChain+" ") || strings.HasPrefix(l, ":"+markMasqChain+" ") ||
			strings.HasPrefix(l, "-A "+markMasqChain+" ") {
			continue
		}
		out = append(out, l)
	}
	return out
}

func chainText(chains map[string][]fakes.Rule, name string) string {
	rs, ok := chains[name]
	if !ok {
		return "<absent>"
	}
	var b strings.Builder
	for _, r := range rs {
		b.WriteString(r.String())
		b.WriteByte('\n')
	}
	return b.String()
}

func countHP(chains map[string][]fakes.Rule) int {
	n := 0
	for c := range chains {
		if strings.HasPrefix(c, hpPrefix) {
			n++
		}
	}
	return n
}
