package main

import (
	"bufio"
	"fmt"
	"os"
	"strconv"
	"strings"
	"sync"
	"syscall"
)

// sockMu serialises every section in which galaxy opens or closes sockets together with the harness probes that
// follow it, so that kernel-assigned (random) ports handed to one worker's galaxy cannot be confused with the
// ports of another worker's galaxy inside this process.
var sockMu sync.Mutex

// tryBind binds (and for tcp listens on) 0.0.0.0:port WITHOUT SO_REUSEADDR. It returns the socket fd (>=0) when
// the bind succeeded, or the errno.
func tryBind(proto string, port int) (int, error) {
	typ := syscall.SOCK_STREAM
	if proto == "udp" {
		typ = syscall.SOCK_DGRAM
	}
	fd, err := syscall.Socket(syscall.AF_INET, typ|syscall.SOCK_CLOEXEC, 0)
	if err != nil {
		return -1, fmt.Errorf("socket: %v", err)
	}
	sa := &syscall.SockaddrInet4{Port: port}
	if err := syscall.Bind(fd, sa); err != nil {
		syscall.Close(fd)
		return -1, err
	}
	if proto == "tcp" {
		if err := syscall.Listen(fd, 1); err != nil {
			syscall.Close(fd)
			return -1, err
		}
	}
	return fd, nil
}

// probe reports whether the port can be bound right now: "free", "inuse" (EADDRINUSE) or "error:<errno>".
func probe(proto string, port int) string {
	fd, err := tryBind(proto, port)
	if err == nil {
		syscall.Close(fd)
		return "free"
	}
	if err == syscall.EADDRINUSE {
		return "inuse"
	}
	return "error:" + err.Error()
}

// heldByUs reports whether some socket bound to the local port belongs to this process (socket inode present in
// /proc/self/fd). found=false when no socket with that local port is listed at all.
func heldByUs(proto string, port int) (found, ours bool) {
	inodes := map[string]bool{}
	for _, f := range []string{"/proc/net/" + proto, "/proc/net/" + proto + "6"} {
		fh, err := os.Open(f)
		if err != nil {
			continue
		}
		sc := bufio.NewScanner(fh)
		sc.Scan() // header
		for sc.Scan() {
			fs := strings.Fields(sc.Text())
			if len(fs) < 10 {
				continue
			}
			i := strings.LastIndex(fs[1], ":")
			if i < 0 {
				continue
			}
			p, err := strconv.ParseInt(fs[1][i+1:], 16, 32)
			if err != nil || int(p) != port {
				continue
			}
			inodes[fs[9]] = true
		}
		fh.Close()
	}
	if len(inodes) == 0 {
		return false, false
	}
	ents, err := os.ReadDir("/proc/self/fd")
	if err != nil {
		return true, false
	}
	for _, e := range ents {
		l, err := os.Readlink("/proc/self/fd/" + e.Name())
		if err != nil || !strings.HasPrefix(l, "socket:[") {
			continue
		}
		if inodes[strings.TrimSuffix(strings.TrimPrefix(l, "socket:["), "]")] {
			return true, true
		}
	}
	return true, false
}

// holder says who holds a port that a probe found in use: "ours" (a socket of this process: galaxy's or, never at
// this point, the harness's), "other" (listed in /proc/net, not one of our fds), "gone" (free again, nobody listed)
// or "unlisted" (still in use, but no listening/bound entry in /proc/net: e.g. a TCP socket another process has
// bound but not put into LISTEN). galaxy's own sockets always listen, so they are always listed; /proc/net is not
// read atomically, hence the retries before concluding that a socket is not ours.
func holder(proto string, port int) string {
	listed := false
	for try := 0; try < 3; try++ {
		found, ours := heldByUs(proto, port)
		if ours {
			return "ours"
		}
		listed = listed || found
	}
	if listed {
		return "other"
	}
	if probe(proto, port) == "free" {
		return "gone"
	}
	return "unlisted"
}
