// pmsim decides C14 "Host-port mappings are set up, held and removed completely" by driving the real
// pkg/network/portmapping handler (real sockets, strict iptables fake) through generated multi-pod histories
// while monitors check the NAT table, the sockets and the fake's reject log after every handler call.
package main

import (
	"encoding/json"
	"flag"
	"fmt"
	"io"
	"os"
	"sort"
	"strconv"
	"strings"
	"sync"

	"k8s.io/klog"
	"verif/harness/evid"
	"verif/harness/hostports"
)

var newRng = evid.NewRng

func quietKlog() {
	fs := flag.NewFlagSet("klog", flag.ContinueOnError)
	klog.InitFlags(fs)
	_ = fs.Set("logtostderr", "false")
	_ = fs.Set("alsologtostderr", "false")
	_ = fs.Set("stderrthreshold", "FATAL")
	klog.SetOutput(io.Discard)
}

func main() {
	fl := evid.ParseFlags()
	quietKlog()
	if strings.HasPrefix(fl.Child, "calib:") {
		os.Exit(calibChild(strings.TrimPrefix(fl.Child, "calib:")))
	}
	if fl.Prop == "" {
		fl.Prop = "C14"
	}
	run := evid.NewRun(fl.Prop, fl.Tier, fl.Seed, "exploration", "pmsim")
	run.Rule = "case (seed,idx,prior) = 2-5 pods (1-7 host-port requests each: TCP/UDP, fixed ports from a seed-dependent slot of 20 ports or 0=random, " +
		"optional HostIP, same port with the other protocol, same-named pods in other namespaces, a conflicting or unknown-protocol port in the middle) x prior NAT table " +
		"(empty | kube-proxy/docker/user chains | the same plus stale galaxy chains produced by the real code and then damaged) x an interleaving of the " +
		"pods' OpenHostports/SetupPortMapping/CloseHostports/CleanPortMapping calls, start-up SetupPortMappingForAllPods, optional restart. " +
		"Non-trivial and distinct = fingerprint of (prior kind, feature set, per-pod port shapes, executed call sequence with outcomes); a case counts only if " +
		"at least one mapping was set up and removed while another pod's chains or foreign content was present."
	run.Assume("strict fake (verif/harness/fakes) models iptables 1.8.9 nf_tables for the commands galaxy issues; thorough tier calibrates it against the real tool in a private netns")
	run.Assume("sequential stage: handler calls are atomic steps, interleavings are explored at whole-call granularity (the order CloseHostports before CleanPortMapping is server.go's); concurrent stage: one opener and one closer goroutine per pod name on one handler, judged only at quiescent points (both stopped, one more CloseHostports returned)")
	run.Assume("fixed ports come from flock-owned blocks (verif/harness/hostports) and are bind-probed before each case; a port held by a socket that is not one of this process's fds (/proc/net joined with /proc/self/fd) is environment: counted, the case abandoned; a port held by this process after galaxy should have released it is a violation")

	if fl.Replay != "" {
		os.Exit(replay(run, fl.Replay))
	}

	n := evid.Tiered(fl.Tier, 1000, 5000)
	if v := os.Getenv("PMSIM_CASES"); v != "" {
		if x, err := strconv.Atoi(v); err == nil {
			n = x
		}
	}
	calN := 0
	if fl.Tier == "thorough" {
		calN = 20 // port sets (x3 priors) whose command scripts are replayed against the real iptables
	}
	type job struct{ idx, kind int }
	jobs := make(chan job, 64)
	var wg sync.WaitGroup
	var mu sync.Mutex
	var calCases []*caseRun
	var rejectJobs []job
	skipped := 0
	workers := 8
	alloc := hostports.New()
	var bases []int
	for w := 0; w < workers; w++ {
		if b, ok := alloc.Block(); ok {
			bases = append(bases, b)
		}
	}
	if len(bases) == 0 {
		run.Inconclusive("no free block of fixed host ports (all of 10000-29999 is owned by other harness processes)")
		os.Exit(run.Finish(0))
	}
	run.Count("fixed_port_blocks_owned", int64(len(bases)))
	for _, base := range bases {
		wg.Add(1)
		go func(base int) {
			defer wg.Done()
			for j := range jobs {
				cs := genCase(fl.Seed, j.idx, j.kind, base)
				c := runCase(run, cs, j.idx < calN)
				run.Eval(1)
				for k, v := range c.stats {
					run.Count(k, v)
				}
				run.Count("cases_prior_"+cs.PriorKind, 1)
				if c.skipped != "" {
					run.Count("cases_skipped_foreign_port", 1)
					mu.Lock()
					skipped++
					mu.Unlock()
					continue
				}
				if c.failed {
					run.Count("cases_with_violation", 1)
					run.Count("cases_violating_"+c.sig, 1)
					// commands the strict fake refused are exactly what calibration must confirm on the real tool
					if fl.Tier == "thorough" && c.stats["fake_rejects"] > 0 {
						mu.Lock()
						if len(rejectJobs) < 12 {
							rejectJobs = append(rejectJobs, j)
						}
						mu.Unlock()
					}
					continue
				}
				for _, f := range cs.Features {
					run.Count("feature_"+f, 1)
				}
				if c.stats["clean_calls"] > 0 && c.stats["setup_calls"] > 0 &&
					(c.stats["prior_foreign_lines"] > 8 || c.stats["other_pod_chains_compared"] > 0) {
					run.Nontrivial(fingerprint(c))
				}
				if j.idx < 2 {
					run.Sample(sampleOf(c))
				}
				if j.idx < calN {
					mu.Lock()
					calCases = append(calCases, c)
					mu.Unlock()
				}
			}
		}(base)
	}
	for i := 0; i < n; i++ {
		for k := 0; k < 3; k++ {
			jobs <- job{i, k}
		}
	}
	close(jobs)
	wg.Wait()

	// all sequential cases are done and no process is forked from here to the end of the stage
	if run.Violations() == 0 {
		concStage(run, bases, fl.Tier)
	}

	if fl.Tier == "thorough" {
		scratch := evid.NewRun(fl.Prop, fl.Tier, fl.Seed, "exploration", "pmsim-calibration-rerun")
		sort.Slice(rejectJobs, func(a, b int) bool {
			return rejectJobs[a].idx*3+rejectJobs[a].kind < rejectJobs[b].idx*3+rejectJobs[b].kind
		})
		for _, j := range rejectJobs {
			if c := runCase(scratch, genCase(fl.Seed, j.idx, j.kind, bases[0]), true); c.skipped == "" {
				calCases = append(calCases, c)
			}
		}
		sort.Slice(calCases, func(a, b int) bool { return calCases[a].cs.ID < calCases[b].cs.ID })
		calibrate(run, calCases)
	} else {
		run.Set("calibration", "not part of the quick tier")
	}

	// the situations the property is about must have been observed
	for _, k := range []string{"setup_calls", "clean_calls", "forall_calls", "inverse_roundtrips", "ports_opened_random", "ports_opened_fixed",
		"ports_opened_udp", "ports_opened_tcp", "bind_probes_after_close", "errpath_ports_probed", "errpath_random_ports_probed",
		"open_failed_port-held-by-foreign-socket", "open_failed_unknown-protocol", "stale_hp_chains_removed_by_forall",
		"other_pod_chains_compared", "clean_while_same_named_pod_live", "feature_same-port-other-proto", "feature_hostip", "restarts"} {
		if run.Counter(k) == 0 {
			run.Inconclusive("monitor counter " + k + " is zero: the situation was never observed")
		}
	}
	// environment interference (ports taken by processes other than this one) is counted, never a violation; above
	// 5 % the run says too little about galaxy
	if skipped*20 > n*3 {
		run.Inconclusive(fmt.Sprintf("%d of %d cases abandoned because ports were taken by other processes", skipped, n*3))
	}
	if env := run.Counter("open_failed_port_taken_by_other_process"); env*20 > run.Counter("open_calls") {
		run.Inconclusive(fmt.Sprintf("%d of %d OpenHostports calls failed on ports taken by other processes (> 5 %%)", env, run.Counter("open_calls")))
	}
	os.Exit(run.Finish(n * 3 / 2))
}

func fingerprint(c *caseRun) string {
	var b strings.Builder
	b.WriteString(c.cs.PriorKind + "|" + strings.Join(c.cs.Features, ",") + "|")
	for _, p := range c.cs.Pods {
		b.WriteString(p.Tag + ":")
		for _, port := range p.Ports {
			fx := "f"
			if port.HostPort == 0 {
				fx = "r"
			}
			ip := ""
			if port.HostIP != "" {
				ip = "i"
			}
			b.WriteString(strings.ToLower(port.Protocol)[:1] + fx + ip)
		}
		b.WriteString(";")
	}
	b.WriteString("|")
	for _, t := range c.trace {
		e := ""
		if t.Err != "" {
			e = "!"
		}
		if len(t.Call) > 5 {
			b.WriteString(t.Call[:5] + e + strings.TrimSuffix(t.Pod, "x") + ",")
		}
	}
	return b.String()
}

func sampleOf(c *caseRun) interface{} {
	var calls []string
	for _, t := range c.trace {
		s := t.Call
		if t.Pod != "" {
			s += " " + t.Pod
		}
		if t.Err != "" {
			s += " -> error"
		}
		calls = append(calls, s)
	}
	return map[string]interface{}{"id": c.cs.ID, "prior": c.cs.PriorKind, "features": c.cs.Features, "pods": c.cs.Pods,
		"stale_ports": c.cs.StalePods, "stale_mutations": c.cs.StaleMut, "calls": calls, "counters": c.stats}
}

func replay(run *evid.Run, path string) int {
	data, err := os.ReadFile(path)
	if err != nil {
		fmt.Println("cannot read replay file:", err)
		return evid.ExitBroken
	}
	var r struct {
		Seed      int64 `json:"seed"`
		Violation struct {
			Case string `json:"case"`
		} `json:"violation"`
	}
	if err := json.Unmarshal(data, &r); err != nil {
		fmt.Println("bad replay file:", err)
		return evid.ExitBroken
	}
	parts := strings.Split(r.Violation.Case, ":")
	if len(parts) == 4 && parts[1] == "conc" {
		// the concurrent stage has no per-case schedule to replay: the stage is re-run as a whole
		base, ok := hostports.New().Block()
		if !ok {
			run.Inconclusive("no free block of fixed host ports")
			return run.Finish(0)
		}
		concStage(run, []int{base}, run.Tier)
		run.Nontrivial("replay")
		return run.Finish(1)
	}
	if len(parts) != 3 {
		fmt.Println("bad case id", r.Violation.Case)
		return evid.ExitBroken
	}
	seed, _ := strconv.ParseInt(parts[0], 10, 64)
	idx, _ := strconv.Atoi(parts[1])
	kind, _ := strconv.Atoi(parts[2])
	run.Seed = seed
	base, ok := hostports.New().Block()
	if !ok {
		run.Inconclusive("no free block of fixed host ports")
		return run.Finish(0)
	}
	c := runCase(run, genCase(seed, idx, kind, base), false)
	run.Eval(1)
	for k, v := range c.stats {
		run.Count(k, v)
	}
	for _, t := range c.trace {
		fmt.Printf("  %3d %s %s %s\n", t.N, t.Call, t.Pod, t.Err)
	}
	if c.skipped != "" {
		run.Inconclusive("replayed case skipped: " + c.skipped)
	}
	run.Nontrivial("replay")
	return run.Finish(1)
}
