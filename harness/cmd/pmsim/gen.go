package main

import (
	"fmt"
	"math/rand"
	"strings"

	"tkestack.io/galaxy/pkg/api/k8s"
)

// PodSpec is one generated pod with the host-port requests of its containers.
type PodSpec struct {
	Name     string     `json:"name"`
	NS       string     `json:"ns"`
	IP       string     `json:"ip"`
	Random   bool       `json:"randomPortMapping"` // pod carries the tkestack.io/portmapping annotation
	Ports    []k8s.Port `json:"ports"`             // as requested: HostPort 0 = "give me a random one"
	Tag      string     `json:"tag"`               // plain | twin | blocked | sctp | existing
	TwinOf   int        `json:"twinOf"`            // index of the pod this one shares its name with, or -1
	BlockIdx int        `json:"blockIdx"`          // index of the port the harness occupies before the first ADD, or -1
	Stay     bool       `json:"stay"`              // pod stays alive until the end-of-case teardown
}

func (p *PodSpec) Full() string { return k8s.GetPodFullName(p.Name, p.NS) }

// Step of the schedule: which pod advances by one handler call. The call itself follows from the pod's state.
type Step struct {
	Pod int    `json:"pod"`
	Op  string `json:"op"` // advance | restart | roundtrip
}

// CaseSpec is everything a case is a function of.
type CaseSpec struct {
	ID        string     `json:"id"` // seed:idx:prior
	PriorKind string     `json:"priorKind"`
	Prior     string     `json:"priorScript"` // restore script of foreign content
	StalePods []k8s.Port `json:"stalePorts"`  // ports of an earlier galaxy incarnation (set up through the real code)
	StaleMut  []string   `json:"staleMutations"`
	StaleVia  string     `json:"staleVia"` // forall | setup
	Pods      []PodSpec  `json:"pods"`
	Existing  []int      `json:"existingAtStart"`
	Schedule  []Step     `json:"schedule"`
	FixedLo   int        `json:"fixedPortLo"`
	Features  []string   `json:"features"`
}

const b32 = "ABCDEFGHIJKLMNOPQRSTUVWXYZ234567"

func randB32(r *rand.Rand, n int) string {
	b := make([]byte, n)
	for i := range b {
		b[i] = b32[r.Intn(32)]
	}
	return string(b)
}

var podNames = []string{"web-0", "api-7d9f5", "0a", "a", "web-0", "db-1"}
var namespaces = []string{"default", "prod", "kube-system", "team-a"}
var hostIPs = []string{"10.0.0.7", "127.0.0.1", "192.168.1.1", "10.0.0.8"}
var cports = []int32{80, 8080, 53, 443}

const slotPorts = 20

// Fixed host ports: every worker owns one block of hostports.BlockSize (64) ports, exclusively among all harness
// processes on this machine (flock, see verif/harness/hostports); a case uses one of the block's three slots of 20
// ports, chosen from seed and case index. The case's structure is a function of (seed, idx, prior) only; the
// absolute port numbers depend on which block the worker obtained and are recorded in the witness.
func slotOf(seed int64, idx, kind int) int {
	s := int(seed%3) + idx + kind
	if s < 0 {
		s = -s
	}
	return s % 3
}

func genCase(seed int64, idx, kind, blockBase int) *CaseSpec {
	r := newRng(seed, "case", idx*3+kind)
	cs := &CaseSpec{ID: fmt.Sprintf("%d:%d:%d", seed, idx, kind)}
	cs.FixedLo = blockBase + slotOf(seed, idx, kind)*slotPorts
	feat := map[string]bool{}

	// ---- pods
	used := map[string]bool{}
	takenIdx := map[int]bool{}   // slot indexes used at all
	takenKey := map[string]int{} // proto:port -> pod
	freshPort := func() int32 {
		for try := 0; try < 100; try++ {
			i := r.Intn(slotPorts)
			if !takenIdx[i] {
				takenIdx[i] = true
				return int32(cs.FixedLo + i)
			}
		}
		return int32(cs.FixedLo + r.Intn(slotPorts))
	}
	usedPort := func() (int32, bool) {
		var l []int
		for i := range takenIdx {
			l = append(l, i)
		}
		if len(l) == 0 {
			return 0, false
		}
		// deterministic order
		min := l[0]
		for _, v := range l {
			if v < min {
				min = v
			}
		}
		cnt := 0
		for i := 0; i < slotPorts; i++ {
			if takenIdx[i] {
				cnt++
			}
		}
		k := r.Intn(cnt)
		for i := 0; i < slotPorts; i++ {
			if takenIdx[i] {
				if k == 0 {
					return int32(cs.FixedLo + i), true
				}
				k--
			}
		}
		return int32(cs.FixedLo + min), true
	}
	proto := func() string {
		switch x := r.Intn(20); {
		case x < 11:
			return "TCP"
		case x < 19:
			return "UDP"
		default:
			return "tcp"
		}
	}
	nPods := 2 + r.Intn(4)
	for i := 0; i < nPods; i++ {
		var p PodSpec
		p.TwinOf, p.BlockIdx = -1, -1
		p.IP = fmt.Sprintf("10.244.%d.%d", 1+r.Intn(200), 2+i)
		// a twin: same pod name in another namespace, same port requests (the chain-name hash only sees PodName)
		if i > 0 && r.Intn(100) < 22 {
			t := r.Intn(i)
			for cs.Pods[t].Tag == "blocked" || cs.Pods[t].Tag == "sctp" {
				t = r.Intn(i)
				if r.Intn(4) == 0 {
					break
				}
			}
			o := cs.Pods[t]
			if o.Tag != "blocked" && o.Tag != "sctp" {
				p.Name, p.Random, p.Tag, p.TwinOf = o.Name, o.Random, "twin", t
				for _, ns := range namespaces {
					if !used[k8s.GetPodFullName(p.Name, ns)] {
						p.NS = ns
						break
					}
				}
				if p.NS != "" {
					p.Ports = append([]k8s.Port(nil), o.Ports...)
					for j := range p.Ports {
						p.Ports[j].PodIP = p.IP
					}
					switch r.Intn(6) {
					case 0: // differ in protocol of one port
						j := r.Intn(len(p.Ports))
						if strings.ToUpper(p.Ports[j].Protocol) == "TCP" {
							p.Ports[j].Protocol = "UDP"
						} else {
							p.Ports[j].Protocol = "TCP"
						}
						feat["twin-other-proto"] = true
					case 1:
						p.Ports[r.Intn(len(p.Ports))].ContainerPort = int32(1 + r.Intn(65535))
						feat["twin-other-cport"] = true
					case 2:
						p.Ports[r.Intn(len(p.Ports))].HostIP = hostIPs[r.Intn(len(hostIPs))]
						feat["twin-other-hostip"] = true
					default:
						feat["twin-identical-ports"] = true
					}
					used[p.Full()] = true
					cs.Pods = append(cs.Pods, p)
					continue
				}
				p = PodSpec{TwinOf: -1, BlockIdx: -1, IP: p.IP}
			}
		}
		for {
			p.Name, p.NS = podNames[r.Intn(len(podNames))], namespaces[r.Intn(len(namespaces))]
			if !used[p.Full()] {
				break
			}
			p.Name = fmt.Sprintf("p%d-%s", i, strings.ToLower(randB32(r, 4)))
		}
		used[p.Full()] = true
		p.Random = r.Intn(100) < 45
		p.Tag = "plain"
		n := 1 + r.Intn(4)
		for j := 0; j < n; j++ {
			port := k8s.Port{Protocol: proto(), PodName: p.Name, PodIP: p.IP}
			if r.Intn(3) == 0 {
				port.ContainerPort = cports[r.Intn(len(cports))]
			} else {
				port.ContainerPort = int32(1 + r.Intn(65535))
			}
			if r.Intn(100) < 22 {
				port.HostIP = hostIPs[r.Intn(len(hostIPs))]
				feat["hostip"] = true
			}
			switch x := r.Intn(100); {
			case p.Random && x < 50:
				port.HostPort = 0
				feat["random-port"] = true
			case x < 68:
				// reuse a fixed port already requested in this case with the other protocol
				if hp, ok := usedPort(); ok {
					port.HostPort = hp
					lp := strings.ToLower(port.Protocol)
					if _, clash := takenKey[fmt.Sprintf("%s:%d", lp, hp)]; clash {
						if lp == "tcp" {
							port.Protocol = "UDP"
						} else {
							port.Protocol = "TCP"
						}
					}
					feat["same-port-other-proto"] = true
				} else {
					port.HostPort = freshPort()
				}
			case x < 73:
				// reuse with whatever protocol: may conflict with a live pod (an ADD that must fail cleanly)
				if hp, ok := usedPort(); ok {
					port.HostPort = hp
					feat["port-conflict-between-pods"] = true
				} else {
					port.HostPort = freshPort()
				}
			default:
				port.HostPort = freshPort()
			}
			if port.HostPort > 0 {
				k := fmt.Sprintf("%s:%d", strings.ToLower(port.Protocol), port.HostPort)
				if _, ok := takenKey[k]; !ok {
					takenKey[k] = i
				}
			}
			p.Ports = append(p.Ports, port)
		}
		// error-path shapes: the failing port sits in the middle, preceded by a fixed and a random port
		switch x := r.Intn(100); {
		case x < 18:
			p.Tag, p.Random = "blocked", true
			blk := k8s.Port{Protocol: proto(), PodName: p.Name, PodIP: p.IP, ContainerPort: int32(1 + r.Intn(65535)), HostPort: freshPort()}
			pre := []k8s.Port{{Protocol: proto(), PodName: p.Name, PodIP: p.IP, ContainerPort: 81, HostPort: freshPort()},
				{Protocol: proto(), PodName: p.Name, PodIP: p.IP, ContainerPort: 82, HostPort: 0}}
			p.Ports = append(append(pre, blk), p.Ports...)
			p.BlockIdx = 2
			feat["errpath-blocked"] = true
		case x < 28:
			p.Tag, p.Random = "sctp", true
			bad := k8s.Port{Protocol: "SCTP", PodName: p.Name, PodIP: p.IP, ContainerPort: 9, HostPort: freshPort()}
			pre := []k8s.Port{{Protocol: proto(), PodName: p.Name, PodIP: p.IP, ContainerPort: 81, HostPort: 0},
				{Protocol: proto(), PodName: p.Name, PodIP: p.IP, ContainerPort: 82, HostPort: freshPort()}}
			p.Ports = append(append(pre, bad), p.Ports...)
			feat["errpath-unknown-proto"] = true
		}
		cs.Pods = append(cs.Pods, p)
	}
	for i := range cs.Pods {
		cs.Pods[i].Stay = r.Intn(100) < 30
	}

	// ---- pods existing when galaxy starts (fixed ports only: their numbers come from spec or annotation)
	for i := range cs.Pods {
		p := &cs.Pods[i]
		if p.Tag != "plain" || r.Intn(100) >= 40 {
			continue
		}
		ok := true
		for _, port := range p.Ports {
			k := fmt.Sprintf("%s:%d", strings.ToLower(port.Protocol), port.HostPort)
			if port.HostPort == 0 || takenKey[k] != i {
				ok = false
			}
		}
		// ports must be pairwise distinct inside the pod too
		seen := map[string]bool{}
		for _, port := range p.Ports {
			k := fmt.Sprintf("%s:%d", strings.ToLower(port.Protocol), port.HostPort)
			if seen[k] {
				ok = false
			}
			seen[k] = true
		}
		if ok {
			p.Tag = "existing"
			cs.Existing = append(cs.Existing, i)
			feat["existing-at-start"] = true
		}
	}

	// ---- prior table
	switch kind {
	case 0:
		cs.PriorKind = "empty"
		cs.Prior = "*nat\nCOMMIT\n"
	case 1:
		cs.PriorKind = "foreign"
		cs.Prior = genForeign(r)
	default:
		cs.PriorKind = "foreign+stale"
		cs.Prior = genForeign(r)
		cs.StaleVia = []string{"forall", "setup"}[r.Intn(2)]
		n := 1 + r.Intn(5)
		for j := 0; j < n; j++ {
			var sp k8s.Port
			if r.Intn(100) < 45 {
				// an earlier incarnation of one of this case's pods: same name/ports, old pod IP
				o := cs.Pods[r.Intn(len(cs.Pods))]
				sp = o.Ports[r.Intn(len(o.Ports))]
				if sp.Protocol == "SCTP" {
					sp.Protocol = "TCP"
				}
				sp.PodIP = fmt.Sprintf("10.99.%d.%d", r.Intn(250), 2+r.Intn(250))
				if sp.HostPort == 0 {
					sp.HostPort = int32(32768 + r.Intn(20000))
				}
			} else {
				sp = k8s.Port{HostPort: int32(1024 + r.Intn(60000)), ContainerPort: int32(1 + r.Intn(65535)), Protocol: proto(),
					PodName: fmt.Sprintf("old-%s", strings.ToLower(randB32(r, 5))), PodIP: fmt.Sprintf("10.99.%d.%d", r.Intn(250), 2+r.Intn(250))}
				if r.Intn(4) == 0 {
					sp.HostIP = hostIPs[r.Intn(len(hostIPs))]
				}
			}
			dup := false
			for _, q := range cs.StalePods {
				if q.HostPort == sp.HostPort && strings.EqualFold(q.Protocol, sp.Protocol) {
					dup = true
				}
			}
			if !dup {
				cs.StalePods = append(cs.StalePods, sp)
			}
		}
		nm := r.Intn(5)
		for j := 0; j < nm; j++ {
			cs.StaleMut = append(cs.StaleMut, []string{"handmade-chain-with-jump", "handmade-orphan-chain", "drop-a-jump",
				"duplicate-a-jump", "garbage-in-hostports", "garbage-in-hp-chain"}[r.Intn(6)]+":"+randB32(r, 16))
		}
	}

	// ---- schedule: an interleaving of the pods' ADD (open, setup) / DEL (close, clean) calls
	var todo []int
	for i := range cs.Pods {
		if cs.Pods[i].Tag != "existing" {
			todo = append(todo, i)
		}
	}
	// one solo round trip first (explicit inverse law), on a pod that is added again later
	if len(todo) > 0 {
		cs.Schedule = append(cs.Schedule, Step{Pod: todo[r.Intn(len(todo))], Op: "roundtrip"})
	}
	remaining := map[int]int{}
	for _, i := range todo {
		remaining[i] = 4
		if cs.Pods[i].Stay {
			remaining[i] = 2
		}
	}
	for _, i := range cs.Existing {
		if !cs.Pods[i].Stay {
			remaining[i] = 2 // close, clean
		}
	}
	// handover bias: for a twin pair let the first pod's DEL overlap the second pod's ADD
	handover := -1
	for i := range cs.Pods {
		if cs.Pods[i].TwinOf >= 0 && r.Intn(100) < 25 {
			handover = i
		}
	}
	if handover >= 0 {
		a, b := cs.Pods[handover].TwinOf, handover
		if cs.Pods[a].Tag != "existing" && remaining[a] > 0 {
			cs.Schedule = append(cs.Schedule, Step{Pod: a, Op: "advance"}, Step{Pod: a, Op: "advance"})
		}
		cs.Pods[a].Stay = false
		cs.Schedule = append(cs.Schedule, Step{Pod: a, Op: "advance"}, Step{Pod: b, Op: "advance"}, Step{Pod: b, Op: "advance"},
			Step{Pod: a, Op: "advance"})
		remaining[a] = 0
		remaining[b] -= 2
		feat["twin-del-add-overlap"] = true
	}
	restartAt := -1
	if r.Intn(100) < 35 {
		restartAt = r.Intn(8)
	}
	for n := 0; ; n++ {
		var live []int
		for i := range cs.Pods {
			if remaining[i] > 0 {
				live = append(live, i)
			}
		}
		if n == restartAt {
			cs.Schedule = append(cs.Schedule, Step{Pod: -1, Op: "restart"})
			feat["restart"] = true
		}
		if len(live) == 0 {
			break
		}
		i := live[r.Intn(len(live))]
		cs.Schedule = append(cs.Schedule, Step{Pod: i, Op: "advance"})
		remaining[i]--
	}
	for f := range feat {
		cs.Features = append(cs.Features, f)
	}
	sortStrings(cs.Features)
	return cs
}

// genForeign builds a restore script with content that is not galaxy's: kube-proxy-like service chains, docker,
// arbitrary user chains (some with names close to galaxy's prefix), rules in built-in chains, a filter section.
func genForeign(r *rand.Rand) string {
	var chains, rules []string
	addChain := func(n string) { chains = append(chains, ":"+n+" - [0:0]") }
	kubeproxy := r.Intn(100) < 75
	docker := r.Intn(100) < 60
	if kubeproxy {
		for _, c := range []string{"KUBE-SERVICES", "KUBE-NODEPORTS", "KUBE-POSTROUTING", "KUBE-MARK-MASQ", "KUBE-MARK-DROP"} {
			addChain(c)
		}
		rules = append(rules, `-A PREROUTING -m comment --comment "kubernetes service portals" -j KUBE-SERVICES`,
			`-A OUTPUT -m comment --comment "kubernetes service portals" -j KUBE-SERVICES`,
			`-A POSTROUTING -m comment --comment "kubernetes postrouting rules" -j KUBE-POSTROUTING`,
			`-A KUBE-MARK-DROP -j MARK --set-xmark 0x8000/0x8000`,
			`-A KUBE-MARK-MASQ -j MARK --set-xmark 0x4000/0x4000`,
			`-A KUBE-POSTROUTING -m comment --comment "kubernetes service traffic requiring SNAT" -m mark --mark 0x4000/0x4000 -j MASQUERADE`)
		if r.Intn(3) == 0 {
			rules = append(rules, `-A KUBE-MARK-MASQ -j RETURN`)
		}
		ns := 1 + r.Intn(4)
		for s := 0; s < ns; s++ {
			svc := "KUBE-SVC-" + randB32(r, 16)
			addChain(svc)
			vip := fmt.Sprintf("10.96.%d.%d", r.Intn(255), 1+r.Intn(250))
			port := 1 + r.Intn(65000)
			pr := []string{"tcp", "udp"}[r.Intn(2)]
			rules = append(rules, fmt.Sprintf(`-A KUBE-SERVICES -d %s/32 -p %s -m comment --comment "default/svc%d:http cluster IP" -m %s --dport %d -j %s`,
				vip, pr, s, pr, port, svc))
			if r.Intn(2) == 0 {
				rules = append(rules, fmt.Sprintf(`-A KUBE-NODEPORTS -p %s -m comment --comment "default/svc%d:http" -m %s --dport %d -j %s`,
					pr, s, pr, 30000+r.Intn(2767), svc))
			}
			ne := 1 + r.Intn(3)
			for e := 0; e < ne; e++ {
				sep := "KUBE-SEP-" + randB32(r, 16)
				addChain(sep)
				ip := fmt.Sprintf("10.244.%d.%d", r.Intn(255), 2+r.Intn(250))
				rules = append(rules, fmt.Sprintf(`-A %s -m comment --comment "default/svc%d:http" -j %s`, svc, s, sep),
					fmt.Sprintf(`-A %s -s %s/32 -m comment --comment "default/svc%d:http" -j KUBE-MARK-MASQ`, sep, ip, s),
					fmt.Sprintf(`-A %s -p %s -m comment --comment "default/svc%d:http" -m %s -j DNAT --to-destination %s:%d`, sep, pr, s, pr, ip, 1+r.Intn(65000)))
			}
		}
		rules = append(rules, `-A KUBE-SERVICES -m comment --comment "kubernetes service nodeports; NOTE: this must be the last rule in this chain" -m addrtype --dst-type LOCAL -j KUBE-NODEPORTS`)
	}
	if docker {
		addChain("DOCKER")
		rules = append(rules, `-A PREROUTING -m addrtype --dst-type LOCAL -j DOCKER`,
			`-A OUTPUT ! -d 127.0.0.0/8 -m addrtype --dst-type LOCAL -j DOCKER`,
			`-A POSTROUTING -s 172.17.0.0/16 ! -o docker0 -j MASQUERADE`,
			`-A DOCKER -i docker0 -j RETURN`)
		if r.Intn(2) == 0 {
			rules = append(rules, fmt.Sprintf(`-A DOCKER ! -i docker0 -p tcp -m tcp --dport %d -j DNAT --to-destination 172.17.0.2:80`, 1+r.Intn(65000)))
		}
	}
	// arbitrary user chains; some names come close to galaxy's
	cand := []string{"KUBE-HPX", "KUBE-HP", "XKUBE-HP-" + randB32(r, 8), "KUBE-HOSTPORTS-OLD", "cali-PREROUTING", "CUSTOM-" + randB32(r, 6),
		"KUBE-HOSTPORT", "my_chain", "KUBE-MARK-MASQ2"}
	nu := r.Intn(4)
	for u := 0; u < nu; u++ {
		c := cand[r.Intn(len(cand))]
		dup := false
		for _, l := range chains {
			if l == ":"+c+" - [0:0]" {
				dup = true
			}
		}
		if dup {
			continue
		}
		addChain(c)
		nr := r.Intn(3)
		for k := 0; k < nr; k++ {
			switch r.Intn(3) {
			case 0:
				rules = append(rules, fmt.Sprintf(`-A %s -s 192.168.%d.0/24 -j RETURN`, c, r.Intn(255)))
			case 1:
				// (no REDIRECT/DNAT here: the chain may be reached from POSTROUTING, where the kernel refuses them)
				rules = append(rules, fmt.Sprintf(`-A %s -p udp -m udp --dport %d -j RETURN`, c, 1+r.Intn(65000)))
			default:
				rules = append(rules, fmt.Sprintf(`-A %s -d 10.%d.0.0/16 -m comment --comment "user rule %d" -j ACCEPT`, c, r.Intn(255), k))
			}
		}
		if r.Intn(2) == 0 {
			rules = append(rules, fmt.Sprintf(`-A %s -j %s`, []string{"PREROUTING", "OUTPUT", "POSTROUTING"}[r.Intn(3)], c))
		}
	}
	// loose rules in built-ins
	if r.Intn(2) == 0 {
		rules = append(rules, fmt.Sprintf(`-A POSTROUTING -s 10.%d.0.0/16 ! -d 10.0.0.0/8 -j MASQUERADE`, r.Intn(255)))
	}
	if r.Intn(3) == 0 {
		rules = append(rules, fmt.Sprintf(`-A PREROUTING -p tcp -m tcp --dport %d -j REDIRECT --to-ports 8080`, 1+r.Intn(65000)))
	}
	if r.Intn(3) == 0 {
		rules = append(rules, `-A INPUT -s 127.0.0.1/32 -j ACCEPT`)
	}
	// a previous galaxy run may have left its portal jumps (not always in last position)
	if r.Intn(3) == 0 {
		addChain(hostportsChain)
		rules = append(rules, "-A PREROUTING "+portalRule)
		if r.Intn(2) == 0 {
			rules = append(rules, "-A OUTPUT "+portalRule)
		}
		if r.Intn(2) == 0 {
			rules = append(rules, `-A PREROUTING -d 10.1.1.1/32 -j RETURN`)
		}
	}
	s := "*nat\n" + strings.Join(chains, "\n") + "\n" + strings.Join(rules, "\n") + "\nCOMMIT\n"
	// filter section
	var fc, fr []string
	if docker {
		fc = append(fc, ":DOCKER-USER - [0:0]", ":DOCKER - [0:0]")
		fr = append(fr, `-A FORWARD -j DOCKER-USER`, `-A FORWARD -o docker0 -j DOCKER`, `-A DOCKER-USER -j RETURN`)
	}
	if kubeproxy {
		fc = append(fc, ":KUBE-FORWARD - [0:0]")
		fr = append(fr, `-A FORWARD -m comment --comment "kubernetes forwarding rules" -j KUBE-FORWARD`,
			`-A KUBE-FORWARD -m mark --mark 0x4000/0x4000 -j ACCEPT`)
	}
	pol := ""
	if docker && r.Intn(2) == 0 {
		pol = ":FORWARD DROP [0:0]\n"
	}
	s += "*filter\n" + pol + strings.Join(fc, "\n") + "\n" + strings.Join(fr, "\n") + "\nCOMMIT\n"
	return s
}

func sortStrings(s []string) {
	for i := 1; i < len(s); i++ {
		for j := i; j > 0 && s[j] < s[j-1]; j-- {
			s[j], s[j-1] = s[j-1], s[j]
		}
	}
}
