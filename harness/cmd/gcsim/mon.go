package main

import (
	"fmt"
	"os"
	"sort"
	"strings"
	"sync"
	"time"

	"verif/harness/evid"
)

// The monitor owns the fake runtime's decision logic (which answer to serve), the single sequence-numbered event
// log (inspects, pod lookups, clean-port callbacks, polls, outage marks) and the oracles.
//
// Logical clock: every GC loop (IP loop, gc-dir loop) owns a sentinel container (always running) whose file sorts
// last in the loop's last directory. A sentinel inspect therefore marks "this loop finished one pass", and while
// the fake holds that inspect the loop is blocked, so the loop's directories can be read race-free ("poll between
// rounds"). Nothing here decides on wall-clock time.

type event struct {
	Seq   int    `json:"seq"`
	Kind  string `json:"kind"` // inspect | podget | callback | poll | outage | removed
	ID    string `json:"id,omitempty"`
	Class string `json:"class,omitempty"`
	Dead  bool   `json:"dead,omitempty"`
}

type tfile struct {
	Path      string
	Loop      string // ip | gc
	Kind      string // ipfile | statefile | portfile | portmapping | noncontainer-<kind> | symlink-target
	ID        string // owning container ("" for non-container files)
	Container bool
	present   bool
	goneSeq   int
	rule      string // Kind portmapping: substring of the nat dump that stands for the mapping
}

type ctrState struct {
	spec      *ctrSpec
	n         int // inspects served from the script
	cur       int // script index served last
	firstDead int // seq of the first "dead" answer, 0 = none yet
	deadCount int
	lastClass string
	oblSeq    int            // seq at which the sticky dead tail of the script was first served
	full      map[string]int // loop -> clean full rounds completed after oblSeq
	settled   map[string]bool
	flagged   map[string]bool
	cbCalls   int
	cbErrs    int // clean-port calls that returned an error
	// real wiring
	natLines      []string // lines of the nat dump added by this container's SetupPortMapping
	portFile      string
	faults        int  // iptables faults injected so far
	faultStopSeq  int  // seq at which the transient faults of this container were exhausted (0 = not yet)
	passesAfter   int  // clean gc passes ended since faultStopSeq
	cleanRecorded bool // port state seen completely clean after the faults stopped
	orphaned      bool
	lateFlagged   bool
}

type runtimeFake interface {
	Start() error
	Stop()
}

type mon struct {
	mu   sync.Mutex
	cond *sync.Cond
	p    *popSpec
	run  *evid.Run
	fake runtimeFake

	ctr   map[string]*ctrState
	byPod map[string]*ctrState
	seq   int
	log   []event
	files []*tfile
	natFn func() string

	// gate
	hold        bool
	holdGen     int
	held        map[string]bool // loop -> its sentinel inspect is held in the current hold
	releaseFail map[int]bool
	refusing    bool
	refused     map[string]int

	outageState int // 0 not started, 1 running, 2 over
	s0Taken     bool
	s0Seq       int
	outagePos   int
	quiesceOK   bool

	prevSent         map[string]int
	dirty            map[string]bool
	cleanRounds      map[string]int
	cleanAfterOutage map[string]int

	lastActivity time.Time
	lastRound    map[string]time.Time // per loop: wall-clock of the last observed pass end (watchdog only)
	finished     bool
	closed       bool // after the final poll: nothing is answered any more
	inconcl      []string
	viol         map[string]bool // dedup inside one population
}

func newMon(p *popSpec, run *evid.Run) *mon {
	m := &mon{p: p, run: run, ctr: map[string]*ctrState{}, byPod: map[string]*ctrState{}, releaseFail: map[int]bool{}, held: map[string]bool{},
		refused: map[string]int{}, prevSent: map[string]int{}, dirty: map[string]bool{}, cleanRounds: map[string]int{},
		cleanAfterOutage: map[string]int{}, lastActivity: time.Now(), viol: map[string]bool{},
		lastRound: map[string]time.Time{"ip": time.Now(), "gc": time.Now()}}
	m.cond = sync.NewCond(&m.mu)
	for i := range p.Ctrs {
		c := &p.Ctrs[i]
		cs := &ctrState{spec: c, full: map[string]int{}, settled: map[string]bool{}, flagged: map[string]bool{}}
		m.ctr[c.ID] = cs
		m.byPod[c.NS+"/"+c.Pod] = cs
	}
	for _, id := range []string{sentIP, sentGC} {
		sp := &ctrSpec{ID: id, Shape: "sentinel", Tail: -1, NS: "default", Pod: "pod-" + id}
		if p.Mode == "docker" {
			sp.Script = []step{{Class: "running"}}
		} else {
			sp.Script = []step{{Class: "ready", Pod: "running"}}
		}
		cs := &ctrState{spec: sp, full: map[string]int{}, settled: map[string]bool{}, flagged: map[string]bool{}}
		m.ctr[id] = cs
		m.byPod[sp.NS+"/"+sp.Pod] = cs
	}
	return m
}

func (m *mon) caseID() string { return fmt.Sprintf("%d:%s:%d", m.p.Seed, m.p.Mode, m.p.Idx) }

func (m *mon) ev(kind, id, class string, dead bool) {
	m.log = append(m.log, event{Seq: m.seq, Kind: kind, ID: id, Class: class, Dead: dead})
}

// witness: population parameters, the container's spec and every event about it plus round/outage marks.
func (m *mon) witness(id string, f *tfile) map[string]interface{} {
	w := map[string]interface{}{"mode": m.p.Mode, "seed": m.p.Seed, "population": m.p.Idx, "outage": m.p.Outage,
		"ip_dirs": m.p.IPDirs, "gc_dirs": m.p.GCDirs, "real_callback": m.p.RealCallback,
		"replay": fmt.Sprintf("gcsim -prop C17 -seed %d -only %s:%d", m.p.Seed, m.p.Mode, m.p.Idx)}
	if cs := m.ctr[id]; cs != nil {
		w["container"] = cs.spec
		w["dead_answers_served"] = cs.deadCount
	}
	if f != nil {
		w["file"] = map[string]interface{}{"path": f.Path, "kind": f.Kind, "loop": f.Loop, "observed_gone_at_seq": f.goneSeq}
	}
	var evs []event
	for _, e := range m.log {
		if e.ID == id || e.Kind == "outage" || (e.Kind == "poll" && len(evs) < 400) {
			evs = append(evs, e)
		}
	}
	if len(evs) > 300 {
		evs = evs[len(evs)-300:]
	}
	w["events"] = evs
	return w
}

func (m *mon) violate(sig, msg, id string, f *tfile) {
	key := sig + "|" + id
	if f != nil {
		key += "|" + f.Path
	}
	if m.viol[key] {
		return
	}
	m.viol[key] = true
	// keep the witness slots (50 per run) for distinct signatures: at most 2 witnesses per signature per process
	sigMu.Lock()
	sigSeen[sig]++
	n := sigSeen[sig]
	sigMu.Unlock()
	if n > 2 {
		m.run.Count("violations_not_recorded_same_signature", 1)
		return
	}
	m.run.Violate(evid.Violation{Sig: sig, Msg: msg, Witness: m.witness(id, f), Case: m.caseID()})
}

var (
	sigMu   sync.Mutex
	sigSeen = map[string]int{}
)

func loopOfSentinel(id string) string {
	switch id {
	case sentIP:
		return "ip"
	case sentGC:
		return "gc"
	}
	return ""
}

func (m *mon) beginHold() {
	m.hold = true
	m.holdGen++
	m.held = map[string]bool{}
}

func (m *mon) release(fail bool) {
	m.releaseFail[m.holdGen] = fail
	m.hold = false
	m.cond.Broadcast()
}

// waitBoth blocks until the sentinel inspect of BOTH loops is held at the gate. While a hold is on, every other
// scripted inspect is refused at once, so each loop runs to the end of its pass (acting on whatever answer it had
// received before) and then blocks in its sentinel inspect. Loops are identified by their sentinel id, never by
// counting requests: cleanupVeth is a third source of inspects whenever some v-h* link exists on the host.
// mu must be held. Returns false when the watchdog fires.
func (m *mon) waitBoth(what string) bool {
	deadline := time.Now().Add(30 * time.Second)
	for !(m.held["ip"] && m.held["gc"]) {
		if time.Now().After(deadline) {
			m.inconcl = append(m.inconcl, fmt.Sprintf("%s: watchdog: sentinel inspects held after 30s: ip=%v gc=%v (%s)",
				m.caseID(), m.held["ip"], m.held["gc"], what))
			return false
		}
		m.cond.Wait()
	}
	return true
}

// enter is called by the fake runtime for every inspect request. It returns the scripted step to serve, or
// fail=true when the request must be dropped (outage).
func (m *mon) enter(id string) (st step, label string, fail bool) {
	m.mu.Lock()
	defer m.mu.Unlock()
	m.lastActivity = time.Now()
	if m.ctr[id] == nil {
		// not a container of this population: an inspect of cleanupVeth for a v-h* link some other process left on
		// the host. Answered with an error (the link is kept), never held, never part of any round/outage logic.
		m.seq++
		m.ev("inspect", id, "unscripted", false)
		m.run.Count("inspects_"+m.p.Mode+"_unscripted", 1)
		return step{Class: "unscripted"}, "unscripted", false
	}
	for {
		if m.closed {
			m.seq++
			m.ev("inspect", id, "after-end-dropped", false)
			return step{}, "after-end-dropped", true
		}
		if m.hold {
			l := loopOfSentinel(id)
			if l == "" {
				m.seq++
				m.ev("inspect", id, "outage-refused", false)
				m.run.Count("inspects_"+m.p.Mode+"_outage-refused", 1)
				return step{}, "outage-refused", true
			}
			gen := m.holdGen
			m.held[l] = true
			m.cond.Broadcast()
			for m.hold && m.holdGen == gen {
				m.cond.Wait()
			}
			if m.releaseFail[gen] {
				m.seq++
				m.ev("inspect", id, "outage-dropped", false)
				m.run.Count("inspects_"+m.p.Mode+"_outage-dropped", 1)
				return step{}, "outage-dropped", true
			}
			continue
		}
		if m.refusing {
			m.seq++
			m.ev("inspect", id, "outage-refused", false)
			m.run.Count("inspects_"+m.p.Mode+"_outage-refused", 1)
			if l := loopOfSentinel(id); l != "" {
				m.refused[l]++
				// 4 refusals of each loop's sentinel: at least two whole passes of each loop (the HTTP client may
				// transparently retry a request once)
				if m.refused["ip"] >= 4 && m.refused["gc"] >= 4 {
					m.refusing = false
					m.beginHold()
					go m.outageEnd()
				}
			}
			return step{}, "outage-refused", true
		}
		if m.p.Outage.Kind != "none" && m.outageState == 0 && !m.finished && m.seq+1 >= m.p.Outage.At {
			// from this request on nothing is answered any more; the outage window that is monitored (S0..S1)
			// starts once both loops are provably blocked
			m.outageState = 1
			m.outagePos = m.seq + 1
			m.dirty["ip"], m.dirty["gc"] = true, true
			m.beginHold()
			go m.outageBegin()
			continue
		}
		break
	}
	m.seq++
	q := m.seq
	if l := loopOfSentinel(id); l != "" {
		m.roundEnd(l, q)
	}
	cs := m.ctr[id]
	idx := cs.n
	if idx >= len(cs.spec.Script) {
		idx = len(cs.spec.Script) - 1
	}
	cs.n++
	cs.cur = idx
	st = cs.spec.Script[idx]
	label = stepLabel(st)
	kind := stepKind(m.p.Mode, st)
	// CRI NOTREADY: the deciding "dead" observation is the pod lookup that follows (logged by podGet), except for
	// a sandbox without annotations, whose lookup cannot be attributed to a container.
	dead := kind == "dead" && (st.Class != "notready" || st.Pod == "noannot")
	cs.lastClass = label
	m.ev("inspect", id, label, dead)
	if loopOfSentinel(id) == "" {
		m.run.Count("inspects_"+m.p.Mode+"_"+kind+"_"+label, 1)
	} else {
		m.run.Count("inspects_"+m.p.Mode+"_sentinel", 1)
	}
	if dead {
		cs.markDead(q)
	}
	if cs.spec.Tail >= 0 && idx >= cs.spec.Tail && cs.oblSeq == 0 {
		cs.oblSeq = q
	}
	m.cond.Broadcast()
	return st, label, false
}

func (cs *ctrState) markDead(q int) {
	if cs.firstDead == 0 {
		cs.firstDead = q
	}
	cs.deadCount++
}

// podGet is called by the fake kube client for every pod lookup. Returns the pod state to present.
func (m *mon) podGet(ns, name string) string {
	m.mu.Lock()
	defer m.mu.Unlock()
	m.seq++
	cs := m.byPod[ns+"/"+name]
	if cs == nil {
		m.ev("podget", ns+"/"+name, "unknown-pod", false)
		m.run.Count("podgets_unknown-pod", 1)
		return "gone"
	}
	st := cs.spec.Script[cs.cur]
	state := st.Pod
	if st.Class != "notready" {
		state = "running"
	}
	dead := contains(criDeadPods, state)
	m.ev("podget", cs.spec.ID, "pod-"+state, dead)
	m.run.Count("podgets_"+state, 1)
	if dead {
		cs.markDead(m.seq)
	}
	cs.lastClass = "notready/" + state
	return state
}

// callback is the recording clean-port function handed to the collector. It returns the scripted error of the
// recording mode (nil in real wiring, where the caller reports the real result through callbackResult).
func (m *mon) callback(id string) error {
	m.mu.Lock()
	defer m.mu.Unlock()
	m.seq++
	m.ev("callback", id, "", false)
	m.run.Count("cleanport_callbacks", 1)
	cs := m.ctr[id]
	switch {
	case cs == nil:
		m.violate("cleanport-called-for-non-container-name", fmt.Sprintf("clean-port callback called for %q which is "+
			"not the name of any container state file", id), id, nil)
	case cs.firstDead == 0:
		m.violate("cleanport-called-while-"+classOr(cs.lastClass), fmt.Sprintf("clean-port callback called for container "+
			"%s at seq %d but the runtime never answered dead/not-found for it (last answer: %s)", id, m.seq,
			classOr(cs.lastClass)), id, nil)
	}
	if m.s0Taken && m.outageState == 1 {
		m.violate("cleanport-called-during-runtime-outage-"+m.p.Outage.Kind, fmt.Sprintf("clean-port callback for %s at seq %d "+
			"while the runtime was unreachable (nothing was answered since inspect #%d and both loops' sentinel inspects were "+
			"held, i.e. both loops had acted on every earlier answer, at seq %d)", id, m.seq, m.outagePos, m.s0Seq), id, nil)
	}
	if cs == nil {
		return nil
	}
	cs.cbCalls++
	if !m.p.RealCallback && (cs.spec.CBFail < 0 || cs.cbCalls <= cs.spec.CBFail) {
		cs.cbErrs++
		m.log[len(m.log)-1].Class = "returns-error"
		m.run.Count("cleanport_errors_returned", 1)
		return fmt.Errorf("scripted clean-port failure #%d for %s", cs.cbCalls, id)
	}
	return nil
}

// callbackResult notes the result of the real clean-port function (whole entry-point call finished) and evaluates
// the port state it left. injected = iptables faults injected during this call.
func (m *mon) callbackResult(id string, err error, injected int) {
	m.mu.Lock()
	defer m.mu.Unlock()
	cs := m.ctr[id]
	if err != nil {
		m.seq++
		m.ev("callback", id, fmt.Sprintf("real-cleanup-error (%d faults injected): %v", injected, err), false)
		m.run.Count("cleanport_errors_returned", 1)
		if cs != nil {
			cs.cbErrs++
		}
	}
	if cs == nil {
		return
	}
	if injected > 0 {
		if cs.faults == 0 && cs.spec.Ipt.transient() {
			m.run.Count("containers_with_transient_iptables_faults", 1)
		}
		cs.faults += injected
		m.run.Count("iptables_faults_injected_"+cs.spec.Ipt.Kind, int64(injected))
		if f := cs.spec.Ipt; cs.faultStopSeq == 0 && ((f.Kind == "first-k" && cs.faults >= f.K) || f.Kind == "nth-once") {
			cs.faultStopSeq = m.seq
		}
	}
	if len(cs.natLines) == 0 {
		return
	}
	m.orphanCheck(cs, fmt.Sprintf("after clean-port call #%d returned %v", cs.cbCalls, err))
	// a clean-up attempt that met no fault and reported success must have cleaned everything
	if err == nil && injected == 0 && cs.spec.PortFile == "" && !cs.lateFlagged {
		n, first := cs.rulesLeft(m.natFn())
		if pf := fileExists(cs.portFile); n > 0 && pf {
			cs.lateFlagged = true
			m.violate("cleanport-succeeded-without-fault-but-left-port-state", fmt.Sprintf("clean-port call #%d for %s met no "+
				"fault and returned nil, but %d nat lines (e.g. %q) and the port file are still there", cs.cbCalls, id, n, first), id, nil)
		}
	}
}

// natHas reports how many of the container's nat lines (chains and rules its port mapping added) are installed.
func (cs *ctrState) rulesLeft(nat string) (n int, first string) {
	nat = "\n" + nat
	for _, l := range cs.natLines {
		if strings.Contains(nat, "\n"+l+"\n") {
			if n == 0 {
				first = l
			}
			n++
		}
	}
	return
}

func (m *mon) ctrSorted() []*ctrState {
	ids := make([]string, 0, len(m.ctr))
	for id := range m.ctr {
		ids = append(ids, id)
	}
	sort.Strings(ids)
	out := make([]*ctrState, 0, len(ids))
	for _, id := range ids {
		out = append(out, m.ctr[id])
	}
	return out
}

func fileExists(path string) bool {
	_, err := os.Lstat(path)
	return err == nil
}

// orphanCheck: rules of the container installed but no port file any more: nothing will ever clean those rules
// (cleanIPtables finds no port file and reports success). Only evaluated when no clean-up call can be in progress.
// Containers whose port file was planted corrupt are exempt (their ports are unknown by construction). mu held.
func (m *mon) orphanCheck(cs *ctrState, where string) {
	if len(cs.natLines) == 0 || cs.spec.PortFile != "" || cs.orphaned || m.natFn == nil {
		return
	}
	m.run.Count("orphan_checks_performed", 1)
	n, first := cs.rulesLeft(m.natFn())
	if n == 0 || fileExists(cs.portFile) {
		return
	}
	cs.orphaned = true
	state := 0
	for _, f := range m.files {
		if f.ID == cs.spec.ID && f.Container && f.present && (f.Kind == "statefile" || f.Kind == "statefile-symlink") {
			if fileExists(f.Path) {
				state++
			}
		}
	}
	sig := "dead-container-portmapping-orphaned-portfile-gone"
	if cs.firstDead == 0 {
		sig = "live-container-portmapping-orphaned-portfile-gone"
	}
	if m.p.PortDirGC {
		sig += "-portdir-is-gc-dir"
	}
	m.violate(sig, fmt.Sprintf("%s: container %s: %d of %d nat lines of its port mapping are still installed (e.g. %q) but "+
		"its port file %s is gone (%d state files left in the gc dirs); clean-port was called %d times, returned an error "+
		"%d times, %d iptables faults injected (%+v): no later clean-up can find these rules", where, cs.spec.ID, n,
		len(cs.natLines), first, cs.portFile, state, cs.cbCalls, cs.cbErrs, cs.faults, cs.spec.Ipt), cs.spec.ID, nil)
}

func classOr(s string) string {
	if s == "" {
		return "never-inspected"
	}
	return strings.ReplaceAll(s, "/", "-")
}

func exists(f *tfile, nat string) bool {
	if f.Kind == "portmapping" {
		return strings.Contains("\n"+nat, "\n"+f.rule+"\n")
	}
	_, err := os.Lstat(f.Path)
	return err == nil
}

// snapshot polls the files of one loop ("" = all). mu held. phase: round | outage-end | final | post
func (m *mon) snapshot(loop, phase string) {
	nat := ""
	if m.natFn != nil {
		nat = m.natFn()
	}
	m.ev("poll", "", phase+":"+loop, false)
	m.run.Count("polls", 1)
	for _, f := range m.files {
		if !f.present || (loop != "" && f.Loop != loop) {
			continue
		}
		if exists(f, nat) {
			continue
		}
		f.present = false
		f.goneSeq = m.seq
		m.log = append(m.log, event{Seq: m.seq, Kind: "removed", ID: f.ID, Class: f.Kind + ":" + f.Path})
		cs := m.ctr[f.ID]
		switch {
		case phase == "outage-end":
			m.violate("removed-during-runtime-outage-"+m.p.Outage.Kind+":"+f.Kind, fmt.Sprintf("%s %s was removed while the "+
				"container runtime could not be asked (outage %q: nothing answered from inspect #%d on; both loops' sentinel inspects "+
				"were held at seq %d, the file was still there then; gone at the poll at seq %d)", f.Kind, f.Path, m.p.Outage.Kind,
				m.outagePos, m.s0Seq, m.seq), f.ID, f)
		case phase == "post":
			m.violate("removed-after-runtime-gone:"+f.Kind, fmt.Sprintf("%s %s was removed after the final poll although the "+
				"runtime answered nothing any more", f.Kind, f.Path), f.ID, f)
		case !f.Container:
			m.violate("noncontainer-removed:"+f.Kind, fmt.Sprintf("%s %s is not a container's state but was removed "+
				"(seen gone at seq %d)", f.Kind, f.Path, m.seq), f.ID, f)
		case cs == nil || cs.firstDead == 0:
			last := ""
			if cs != nil {
				last = cs.lastClass
			}
			m.violate(f.Kind+"-removed-while-"+classOr(last), fmt.Sprintf("%s %s of container %s observed gone at seq %d, "+
				"but no dead/not-found answer was ever served for that container (last answer: %s)", f.Kind, f.Path, f.ID,
				m.seq, classOr(last)), f.ID, f)
		default:
			m.run.Count("deletions_observed_"+f.Kind, 1)
		}
	}
	if loop != "ip" && m.natFn != nil {
		// the gc loop (the only caller of clean-port) is blocked in its sentinel inspect: no clean-up is in progress
		for _, cs := range m.ctrSorted() {
			m.orphanCheck(cs, "poll "+phase+" at seq "+fmt.Sprint(m.seq))
		}
	}
}

// afterFaults: containers whose transient iptables faults are exhausted: how many gc passes until their port state
// (port file and every nat line) is clean. Where the port state dir is a gc dir (production wiring, opt-in) every
// pass retries, so a dead container must be clean within 2 clean full passes; in the default wiring retries end
// with the container's last state file, so the port state may legitimately stay (with its port file). mu held.
func (m *mon) afterFaults(clean bool) {
	nat := m.natFn()
	for _, cs := range m.ctrSorted() {
		if cs.faultStopSeq == 0 || cs.cleanRecorded || !cs.spec.Ipt.transient() {
			continue
		}
		if clean {
			cs.passesAfter++
		}
		n, first := cs.rulesLeft(nat)
		pf := fileExists(cs.portFile)
		if n == 0 && !pf {
			cs.cleanRecorded = true
			m.run.Count("transient_fault_containers_clean_afterwards", 1)
			m.run.Max("max_gc_passes_until_clean_after_faults_stopped", int64(cs.passesAfter))
			continue
		}
		if m.p.PortDirGC && cs.oblSeq > 0 && cs.passesAfter >= 3 && !cs.lateFlagged && !cs.orphaned {
			cs.lateFlagged = true
			m.violate("dead-container-portstate-not-cleaned-after-transient-fault", fmt.Sprintf("container %s is dead since seq %d, "+
				"its %d transient iptables faults (%+v) were exhausted at seq %d, %d clean gc passes ended since; still there: "+
				"port file=%v, %d nat lines (e.g. %q)", cs.spec.ID, cs.oblSeq, cs.faults, cs.spec.Ipt, cs.faultStopSeq,
				cs.passesAfter, pf, n, first), cs.spec.ID, nil)
		}
	}
}

// roundEnd: the sentinel of loop l is being inspected at seq q: the loop has finished a pass and is blocked.
func (m *mon) roundEnd(l string, q int) {
	prev := m.prevSent[l]
	m.prevSent[l] = q
	m.lastRound[l] = time.Now()
	clean := !m.dirty[l] && prev > 0
	if m.dirty[l] && m.outageState != 1 {
		m.dirty[l] = false // the pass that overlapped the outage is over
	}
	if clean {
		m.cleanRounds[l]++
		if m.outageState == 2 {
			m.cleanAfterOutage[l]++
		}
		for _, cs := range m.ctr {
			if cs.oblSeq > 0 && cs.oblSeq < prev {
				cs.full[l]++
			}
		}
	}
	m.run.Count("gc_rounds_observed_"+l, 1)
	m.snapshot(l, "round")
	if l == "gc" && m.natFn != nil {
		m.afterFaults(clean)
	}
	// bounded liveness, counted in passes of this loop
	for _, cs := range m.ctr {
		if cs.oblSeq == 0 || cs.settled[l] {
			continue
		}
		left, total := 0, 0
		var first *tfile
		mayFail := cs.spec.portCleanMayFail()
		for _, f := range m.files {
			if f.ID == cs.spec.ID && f.Container && f.Loop == l {
				if mayFail && (f.Kind == "portfile" || f.Kind == "portmapping") {
					continue // the cleanup of the port state may legitimately fail; the state FILES are owed
				}
				total++
				if f.present {
					left++
					if first == nil {
						first = f
					}
				}
			}
		}
		if total == 0 {
			cs.settled[l] = true
			continue
		}
		if left == 0 {
			cs.settled[l] = true
			m.run.Count(fmt.Sprintf("removal_after_full_rounds_%d", cs.full[l]), 1)
			m.run.Max("max_rounds_to_removal", int64(cs.full[l]))
			continue
		}
		// a clean-port callback that fails only its first n calls: a collector that retries "next time" gets n extra passes
		bound := 2
		if cs.spec.CBFail > 0 {
			bound += cs.spec.CBFail
		}
		if cs.full[l] >= bound && !cs.flagged[l] {
			cs.flagged[l] = true
			sig := "dead-container-" + first.Kind + "-not-removed-after-2-rounds"
			extra := ""
			if cs.cbErrs > 0 && l == "gc" {
				sig = "dead-container-" + first.Kind + "-kept-while-portclean-fails"
				extra = fmt.Sprintf("; its clean-port callback was called %d times and returned an error %d times", cs.cbCalls, cs.cbErrs)
			}
			m.violate(sig, fmt.Sprintf("container %s has been answered %s since seq %d; the %s loop has completed %d full "+
				"passes after that (runtime reachable throughout, bound %d) and %s still exists (%d of %d files left)%s",
				cs.spec.ID, cs.lastClass, cs.oblSeq, l, cs.full[l], bound, first.Path, left, total, extra), cs.spec.ID, first)
		}
	}
	m.cond.Broadcast()
}

func (m *mon) outageBegin() {
	m.mu.Lock()
	ok := m.waitBoth("outage begin")
	m.quiesceOK = ok
	m.snapshot("", "outage-begin")
	m.s0Taken = ok
	m.s0Seq = m.seq
	m.ev("outage", "", "begin:"+m.p.Outage.Kind, false)
	if m.p.Outage.Kind == "reset" {
		m.refusing = true
		m.refused = map[string]int{}
		m.release(true)
		m.mu.Unlock()
		return
	}
	m.mu.Unlock()
	m.fake.Stop() // socket gone, every connection closed
	m.mu.Lock()
	m.release(true)
	m.mu.Unlock()
	time.Sleep(time.Duration(m.p.Outage.WindowMs) * time.Millisecond) // workload parameter, not an oracle
	m.mu.Lock()
	m.beginHold()
	m.mu.Unlock()
	if err := m.fake.Start(); err != nil {
		m.mu.Lock()
		m.inconcl = append(m.inconcl, m.caseID()+": cannot restart fake runtime: "+err.Error())
		m.outageState = 2
		m.s0Taken = false
		m.release(false)
		m.mu.Unlock()
		return
	}
	m.outageEnd()
}

func (m *mon) outageEnd() {
	m.mu.Lock()
	defer m.mu.Unlock()
	ok := m.waitBoth("outage end")
	if ok && m.s0Taken {
		m.snapshot("", "outage-end")
		m.run.Count("outage_windows_exercised_"+m.p.Mode+"_"+m.p.Outage.Kind, 1)
		m.run.Count(fmt.Sprintf("opos_%s_%d", m.p.Mode, m.outagePos), 1)
		m.run.Max("max_outage_position", int64(m.outagePos))
	} else {
		m.snapshot("", "round")
	}
	m.ev("outage", "", "end", false)
	m.s0Taken = false
	m.outageState = 2
	m.release(false)
}

func (m *mon) done() bool {
	need := m.p.MaxTail + 4
	if m.cleanRounds["ip"] < need || m.cleanRounds["gc"] < need {
		return false
	}
	if m.outageState == 1 {
		return false
	}
	if m.outageState == 2 && (m.cleanAfterOutage["ip"] < 3 || m.cleanAfterOutage["gc"] < 3) {
		return false
	}
	return true
}

// waitDone blocks until the logical end condition holds; wall-clock watchdog => inconclusive.
func (m *mon) waitDone() {
	m.mu.Lock()
	defer m.mu.Unlock()
	for !m.done() {
		for _, l := range []string{"ip", "gc"} {
			if time.Since(m.lastRound[l]) > 30*time.Second {
				m.inconcl = append(m.inconcl, fmt.Sprintf("%s: watchdog: the %s loop's sentinel (last file of its last directory) "+
					"has not been inspected for 30s, passes cannot be counted (clean passes ip=%d gc=%d, outage state %d, last "+
					"inspect %.0fs ago)", m.caseID(), l, m.cleanRounds["ip"], m.cleanRounds["gc"], m.outageState,
					time.Since(m.lastActivity).Seconds()))
				return
			}
		}
		m.cond.Wait()
	}
}

// finalPoll: quiesce both loops, poll everything, then (caller) take the runtime away.
func (m *mon) finalPoll() (quiesced bool) {
	m.mu.Lock()
	defer m.mu.Unlock()
	m.finished = true
	if m.outageState == 1 {
		return false
	}
	m.beginHold()
	ok := m.waitBoth("final poll")
	m.snapshot("", "final")
	return ok
}

// closeGate ends the population: held and future inspects are dropped unanswered.
func (m *mon) closeGate() {
	m.mu.Lock()
	defer m.mu.Unlock()
	m.closed = true
	if m.hold {
		m.release(true)
	}
}

// tick wakes up waiters so that watchdog deadlines are noticed.
func (m *mon) tick(stop <-chan struct{}) {
	t := time.NewTicker(50 * time.Millisecond)
	defer t.Stop()
	for {
		select {
		case <-stop:
			return
		case <-t.C:
			m.cond.Broadcast()
		}
	}
}

func (m *mon) postPoll() {
	m.mu.Lock()
	defer m.mu.Unlock()
	m.snapshot("", "post")
}

// summarize adds end-of-population counters and returns whether the population was non-trivial.
func (m *mon) summarize() bool {
	m.mu.Lock()
	defer m.mu.Unlock()
	var keptLive, keptNonCtr, goneDead, obl, failing int
	for _, f := range m.files {
		cs := m.ctr[f.ID]
		switch {
		case !f.Container && f.present:
			keptNonCtr++
		case f.Container && f.present && cs != nil && cs.firstDead == 0 && cs.spec.Shape != "sentinel":
			keptLive++
		case f.Container && !f.present:
			goneDead++
		}
	}
	deadC, liveC, errC := 0, 0, 0
	for _, cs := range m.ctr {
		if cs.spec.Shape == "sentinel" {
			continue
		}
		if cs.oblSeq > 0 {
			obl++
			if cs.cbErrs > 0 {
				failing++
			}
		}
		if cs.firstDead > 0 {
			deadC++
		} else if cs.n > 0 {
			if strings.HasPrefix(cs.spec.Shape, "error") {
				errC++
			} else {
				liveC++
			}
		}
	}
	m.run.Count("files_of_never-dead_containers_still_present_at_end", int64(keptLive))
	m.run.Count("noncontainer_files_still_present_at_end", int64(keptNonCtr))
	m.run.Count("containers_answered_dead", int64(deadC))
	m.run.Count("containers_only_alive_answers", int64(liveC))
	m.run.Count("containers_only_error_or_alive_answers", int64(errC))
	for _, cs := range m.ctr {
		if cs.faultStopSeq > 0 && !cs.cleanRecorded && !cs.orphaned {
			m.run.Count("transient_fault_containers_portstate_left_with_portfile", 1)
		}
	}
	m.run.Count("liveness_obligations", int64(obl))
	m.run.Count("dead_containers_with_failing_portclean", int64(failing))
	if m.p.Outage.Kind != "none" && m.outageState == 0 {
		m.run.Count("outage_not_reached", 1)
	}
	sort.Strings(m.inconcl)
	for _, s := range m.inconcl {
		m.run.Inconclusive(s)
	}
	return deadC > 0 && (liveC+errC) > 0 && goneDead > 0 && keptLive > 0
}
