// Engine gcsim: decides C17 "GC removes only dead containers' state, and eventually all of it" by running the real
// flannel GC (pkg/gc) against generated directory populations and a scripted fake container runtime
// (Docker Engine API over a unix socket, or CRI PodSandboxStatus over gRPC) while monitors watch the fake's
// inspect log, the directories and the clean-port callback.
package main

import (
	"encoding/json"
	"flag"
	"fmt"
	"os"
	"os/exec"
	"path/filepath"
	"sort"
	"strconv"
	"strings"
	"sync"
	"syscall"
	"time"

	klogv1 "k8s.io/klog"

	"verif/harness/evid"
)

type childSpec struct {
	Mode    string `json:"mode"`
	Indices []int  `json:"indices"`
	Out     string `json:"out"`
	Journal string `json:"journal"`
	Base    string `json:"base"`
}

func initKlog() {
	fs := flag.NewFlagSet("klog", flag.ContinueOnError)
	klogv1.InitFlags(fs)
	_ = fs.Set("logtostderr", "true")
	_ = fs.Set("v", "0")
}

func main() {
	initKlog()
	only := flag.String("only", "", "run a single population: <mode>:<idx>")
	flag.BoolVar(&portDirGC, "portdir-gc", os.Getenv("GCSIM_PORTDIR_GC") == "1", "opt-in: real-wiring populations put the port "+
		"state dir /var/lib/cni/galaxy/port (private bind mount) into gc_dirs as the daemon's default flags do")
	fl := evid.ParseFlags()
	if fl.Child != "" {
		os.Exit(childMain(fl))
	}
	if fl.Prop == "" {
		fl.Prop = "C17"
	}
	if fl.Replay != "" {
		data, err := os.ReadFile(fl.Replay)
		if err != nil {
			fmt.Println("cannot read replay file:", err)
			os.Exit(evid.ExitBroken)
		}
		var rp struct {
			Seed      int64 `json:"seed"`
			Violation struct {
				Case string `json:"case"`
			} `json:"violation"`
		}
		if err := json.Unmarshal(data, &rp); err != nil {
			fmt.Println("bad replay file:", err)
			os.Exit(evid.ExitBroken)
		}
		parts := strings.SplitN(rp.Violation.Case, ":", 2)
		if len(parts) == 2 {
			fl.Seed = rp.Seed
			*only = parts[1]
		}
	}
	os.Exit(parentMain(fl, *only))
}

func parentMain(fl *evid.Flags, only string) int {
	run := evid.NewRun(fl.Prop, fl.Tier, fl.Seed, "exploration", "gcsim")
	run.Rule = "population = PRNG(seed, mode, index): 1-3 IP dirs and 1-3 gc dirs (production-like nesting, some missing), " +
		"3-30 containers each with a scripted answer sequence (shapes: alive, error, error/alive mix, dead, alive-then-dead, " +
		"error-then-dead, dead-once-then-alive, mixed) over the answer classes of the runtime mode, 0-2 IP reservation files per " +
		"IP dir (content variants id / id\\neth0 / id\\r\\neth0 / padded) and a state file per gc dir with p=0.6, plus " +
		"non-container files (IP-named sub-directories, non-IP names, empty files, empty first line, symlinks with outside " +
		"targets); about a third of the dead containers with a state file have a failing port cleanup (recording callback " +
		"returning an error always or the first 1-4 calls; real wiring: truncated/garbage/empty port file, or iptables operations failing during the " +
		"container's clean-up: permanently, the first 1-3 operations, or exactly the n-th once); " +
		"2 of 3 populations (3 of 4 thorough) add a runtime outage (socket down, or every request dropped) starting at " +
		"a chosen position of the inspect sequence; 1 of 3 wire the real Galaxy.cleanIPtables over the strict iptables fake. " +
		"Non-trivial = at least one container answered dead whose files were seen removed AND at least one never-dead container " +
		"whose files were still there at the end; distinct = mode/outage kind/callback wiring/hash of the multiset of container scripts"
	run.Assume("the fake Docker Engine API / CRI server stand for the container runtime: answers are what dockerd/containerd would " +
		"send for the scripted state; an empty container id is answered like dockerd (301 to the list endpoint) and containerd " +
		"(Unknown 'Prefix can't be empty'), i.e. not as not-found")
	run.Assume("'dead' answers are: docker State.Status exited|dead, HTTP 404, CRI NotFound, CRI NOTREADY followed by a pod lookup " +
		"that returns NotFound or a pod without waiting/running container statuses")
	run.Assume("cleanupVeth runs and is not monitored (links cannot be faked without a hook, the property text does not mention " +
		"them); when other processes leave v-h* veth links on the host it inspects ids that belong to no population: those are " +
		"answered with an error (link kept), counted as inspects_*_unscripted, never held and never used to count passes")
	run.Assume("real clean-port wiring: the port state dir /var/lib/cni/galaxy/port is a private bind mount per child process; by " +
		"default it is NOT one of the collector's gc_dirs (the daemon's default flags do list it; -portdir-gc / " +
		"GCSIM_PORTDIR_GC=1 wires it in). Without it a container's port state is retried only once per remaining state file, so " +
		"port state left WITH its port file after transient faults is counted, not judged; rules left WITHOUT a port file are a violation")
	run.Assume("round counting relies on ioutil.ReadDir returning names sorted, so that the sentinel file of a loop is the last " +
		"inspect of a pass; a loop blocked in its sentinel inspect cannot change its directories")
	run.Assume("runtime 'down' outages last a wall-clock window of 70-130 ms (>= 3 GC periods of 20 ms); the number of collector " +
		"passes inside that window is not observable from the server side; 'reset' outages last until each loop's sentinel was refused 4 times")

	base := os.Getenv("VERIF_BUILD_DIR")
	cleanup := func() {}
	if base == "" {
		d, err := os.MkdirTemp("", "gcsim")
		if err != nil {
			fmt.Println("cannot create temp dir:", err)
			return evid.ExitBroken
		}
		base = d
		cleanup = func() { os.RemoveAll(d) }
	} else {
		base = filepath.Join(base, "gcsim-work")
		_ = os.MkdirAll(base, 0755)
		cleanup = func() { os.RemoveAll(base) }
	}
	defer cleanup()

	perMode := evid.Tiered(fl.Tier, 20, 1500)
	shards := evid.Tiered(fl.Tier, 4, 8)
	var specs []childSpec
	if only != "" {
		parts := strings.SplitN(only, ":", 2)
		idx, err := strconv.Atoi(parts[len(parts)-1])
		if err != nil || len(parts) != 2 || (parts[0] != "docker" && parts[0] != "cri") {
			fmt.Println("bad -only, want docker:<idx> or cri:<idx>")
			return evid.ExitBroken
		}
		specs = append(specs, childSpec{Mode: parts[0], Indices: []int{idx}})
	} else {
		for _, mode := range []string{"docker", "cri"} {
			for s := 0; s < shards; s++ {
				cs := childSpec{Mode: mode}
				for i := s; i < perMode; i += shards {
					cs.Indices = append(cs.Indices, i)
				}
				specs = append(specs, cs)
			}
		}
	}
	exe, err := os.Executable()
	if err != nil {
		fmt.Println("cannot find own executable:", err)
		return evid.ExitBroken
	}
	limit := time.Duration(evid.Tiered(fl.Tier, 900, 3*3600)) * time.Second
	var wg sync.WaitGroup
	for i := range specs {
		sp := &specs[i]
		sp.Base = filepath.Join(base, fmt.Sprintf("c%d", i))
		_ = os.MkdirAll(sp.Base, 0755)
		sp.Out = filepath.Join(sp.Base, "partial.json")
		sp.Journal = filepath.Join(sp.Base, "journal")
		specFile := filepath.Join(sp.Base, "spec.json")
		data, _ := json.Marshal(sp)
		if err := os.WriteFile(specFile, data, 0644); err != nil {
			fmt.Println("cannot write child spec:", err)
			return evid.ExitBroken
		}
		wg.Add(1)
		go func(sp *childSpec, specFile string) {
			defer wg.Done()
			var env []string
			for _, e := range os.Environ() {
				if strings.HasPrefix(e, "DOCKER_") || strings.HasPrefix(e, "CONTAINERD_HOST=") || strings.HasPrefix(e, "GCSIM_NS=") {
					continue
				}
				env = append(env, e)
			}
			mk := func(ns bool) *exec.Cmd {
				args := []string{"-prop", fl.Prop, "-tier", fl.Tier, "-seed", strconv.FormatInt(fl.Seed, 10), "-child", specFile}
				if portDirGC {
					args = append(args, "-portdir-gc")
				}
				cmd := exec.Command(exe, args...)
				cmd.Stderr = os.Stderr
				cmd.Stdout = os.Stderr
				cmd.Env = env
				if ns {
					// own mount namespace: the child bind-mounts a private directory over the constant port state dir
					cmd.SysProcAttr = &syscall.SysProcAttr{Unshareflags: syscall.CLONE_NEWNS}
					cmd.Env = append(append([]string{}, env...), "GCSIM_NS=1")
				}
				return cmd
			}
			cmd := mk(true)
			if err := cmd.Start(); err != nil {
				cmd = mk(false)
				if err := cmd.Start(); err != nil {
					run.Inconclusive("cannot start child: " + err.Error())
					return
				}
			}
			done := make(chan error, 1)
			go func() { done <- cmd.Wait() }()
			var werr error
			select {
			case werr = <-done:
			case <-time.After(limit):
				_ = cmd.Process.Kill()
				werr = fmt.Errorf("watchdog %v expired", limit)
				<-done
			}
			// a killed child cannot remove its port state files (ids are vf<pid>-...)
			if left, _ := filepath.Glob(filepath.Join(portStateDir, fmt.Sprintf("vf%d-*", cmd.Process.Pid))); len(left) > 0 {
				for _, f := range left {
					_ = os.Remove(f)
				}
			}
			if p, err := evid.ReadPartial(sp.Out); err == nil {
				mergeChild(run, p, sp.Mode)
			} else if werr == nil {
				werr = fmt.Errorf("no partial result: %v", err)
			}
			if werr != nil {
				last := "(none)"
				if j, err := os.ReadFile(sp.Journal); err == nil {
					lines := strings.Split(strings.TrimSpace(string(j)), "\n")
					last = lines[len(lines)-1]
				}
				run.Inconclusive(fmt.Sprintf("child for mode %s died or hung (%v); last journal line: %s", sp.Mode, werr, last))
			}
		}(sp, specFile)
	}
	wg.Wait()

	// outage positions exercised
	posMu.Lock()
	summary := map[string]interface{}{}
	for mode, set := range positions {
		var l []int
		for p := range set {
			l = append(l, p)
		}
		sort.Ints(l)
		run.Count("outage_positions_distinct_"+mode, int64(len(l)))
		if len(l) > 0 {
			summary[mode] = map[string]interface{}{"distinct": len(l), "min": l[0], "max": l[len(l)-1], "missing_below_max": missing(l)}
		}
	}
	posMu.Unlock()
	run.Set("outage_positions_exercised", summary)

	if only == "" {
		sum := func(prefix string) (n int64) {
			// counters are only readable one by one
			for k := range counterNames {
				if strings.HasPrefix(k, prefix) {
					n += run.Counter(k)
				}
			}
			return
		}
		for _, mode := range []string{"docker", "cri"} {
			for _, kind := range []string{"alive", "dead", "error"} {
				if sum("inspects_"+mode+"_"+kind+"_") == 0 {
					run.Inconclusive("no " + kind + " answer served in mode " + mode)
				}
			}
			if sum("outage_windows_exercised_"+mode) == 0 {
				run.Inconclusive("no runtime outage window exercised in mode " + mode)
			}
		}
		if sum("deletions_observed_") == 0 {
			run.Inconclusive("no deletion observed")
		}
		if run.Counter("cleanport_callbacks") == 0 {
			run.Inconclusive("clean-port callback never called")
		}
		if run.Counter("files_of_never-dead_containers_still_present_at_end") == 0 {
			run.Inconclusive("no file of a never-dead container observed")
		}
		if run.Counter("containers_with_transient_iptables_faults") == 0 {
			run.Inconclusive("no dead container with ports and transient iptables faults during its clean-up was exercised")
		}
		if run.Counter("orphan_checks_performed") == 0 {
			run.Inconclusive("no port-mapping orphan check performed")
		}
		if run.Counter("dead_containers_with_failing_portclean") == 0 {
			run.Inconclusive("no dead container whose port cleanup failed was observed")
		}
		if run.Counter("liveness_obligations") == 0 {
			run.Inconclusive("no liveness obligation arose")
		}
		return run.Finish(perMode) // at least half of the 2*perMode populations distinct and non-trivial
	}
	return run.Finish(0)
}

var (
	portDirGC      bool // -portdir-gc
	privatePortDir bool // child: /var/lib/cni/galaxy/port is a private bind mount of this process
	posMu          sync.Mutex
	positions      = map[string]map[int]bool{}
	counterNames   = map[string]bool{}
)

func missing(sorted []int) []int {
	var out []int
	for i, want := 0, 1; i < len(sorted); want++ {
		if sorted[i] == want {
			i++
			continue
		}
		if len(out) < 40 {
			out = append(out, want)
		}
	}
	return out
}

// mergeChild folds the per-position outage counters into a set and merges the rest.
func mergeChild(run *evid.Run, p *evid.Partial, mode string) {
	posMu.Lock()
	for k := range p.Counters {
		if strings.HasPrefix(k, "opos_") {
			parts := strings.Split(k, "_")
			if n, err := strconv.Atoi(parts[len(parts)-1]); err == nil {
				if positions[parts[1]] == nil {
					positions[parts[1]] = map[int]bool{}
				}
				positions[parts[1]][n] = true
			}
			delete(p.Counters, k)
			continue
		}
		counterNames[k] = true
	}
	posMu.Unlock()
	run.Merge(p)
}

func childMain(fl *evid.Flags) int {
	data, err := os.ReadFile(fl.Child)
	if err != nil {
		fmt.Fprintln(os.Stderr, "child: cannot read spec:", err)
		return evid.ExitBroken
	}
	var sp childSpec
	if err := json.Unmarshal(data, &sp); err != nil {
		fmt.Fprintln(os.Stderr, "child: bad spec:", err)
		return evid.ExitBroken
	}
	run := evid.NewRun(fl.Prop, fl.Tier, fl.Seed, "exploration", "gcsim")
	j, err := os.OpenFile(sp.Journal, os.O_CREATE|os.O_WRONLY|os.O_APPEND, 0644)
	if err != nil {
		fmt.Fprintln(os.Stderr, "child: cannot open journal:", err)
		return evid.ExitBroken
	}
	defer j.Close()
	if os.Getenv("GCSIM_NS") == "1" {
		priv := filepath.Join(sp.Base, "portstate")
		err := syscall.Mount("", "/", "", syscall.MS_REC|syscall.MS_PRIVATE, "")
		if err == nil {
			err = os.MkdirAll(priv, 0700)
		}
		if err == nil {
			err = os.MkdirAll(portStateDir, 0700)
		}
		if err == nil {
			err = syscall.Mount(priv, portStateDir, "", syscall.MS_BIND, "")
		}
		privatePortDir = err == nil
		if err != nil {
			fmt.Fprintln(os.Stderr, "child: no private port state dir:", err)
		}
	}
	if privatePortDir {
		run.Count("children_with_private_port_state_dir", 1)
	} else if portDirGC {
		run.Inconclusive("-portdir-gc needs a private mount of " + portStateDir + ", which is not available")
	}
	pid := os.Getpid()
	for _, idx := range sp.Indices {
		p := genPop(fl.Seed, sp.Mode, idx, fl.Tier, pid)
		p.PortDirGC = portDirGC && privatePortDir && p.RealCallback
		spec, _ := json.Marshal(map[string]interface{}{"mode": sp.Mode, "idx": idx, "seed": fl.Seed, "containers": len(p.Ctrs),
			"outage": p.Outage, "real_callback": p.RealCallback})
		fmt.Fprintf(j, "start %s\n", spec)
		_ = j.Sync()
		if err := runPopulation(run, p, sp.Base); err != nil {
			run.Inconclusive(fmt.Sprintf("population %s:%d could not be set up: %v", sp.Mode, idx, err))
		}
		fmt.Fprintf(j, "done %s:%d\n", sp.Mode, idx)
		tmp := sp.Out + ".tmp"
		if err := run.WritePartial(tmp); err == nil {
			_ = os.Rename(tmp, sp.Out)
		}
	}
	return 0
}
