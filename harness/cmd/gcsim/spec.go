package main

import (
	"fmt"
	"math/rand"
	"sort"
	"strings"

	"verif/harness/evid"
)

// A population is one generated world: directories with files, containers with scripted runtime answers,
// an optional runtime outage. Everything derives from (seed, mode, index).

type step struct {
	Class  string `json:"class"`             // answer class, see classInfo
	Pod    string `json:"pod,omitempty"`     // CRI mode: pod state looked up after a NOTREADY answer
	SlowMs int    `json:"slow_ms,omitempty"` // answer is delayed (workload only)
}

type ipFile struct {
	Dir     int    `json:"dir"`
	Name    string `json:"name"`
	Content string `json:"content"`
}

type portSpec struct {
	HostPort      int32  `json:"hostPort"`
	ContainerPort int32  `json:"containerPort"`
	Protocol      string `json:"protocol"`
	PodName       string `json:"podName"`
	PodIP         string `json:"podIP"`
}

type ctrSpec struct {
	ID      string     `json:"id"`
	Shape   string     `json:"shape"`
	Script  []step     `json:"script"` // the last step repeats for ever
	Tail    int        `json:"tail"`   // index from which every step is a "dead" answer, -1 if none
	NS      string     `json:"ns,omitempty"`
	Pod     string     `json:"pod,omitempty"`
	IPFiles []ipFile   `json:"ip_files,omitempty"`
	GCFiles []int      `json:"gc_files,omitempty"` // indexes of gc dirs holding a state file named ID
	Ports   []portSpec `json:"ports,omitempty"`    // real clean-port wiring only
	// failing port cleanup. Recording callback: CBFail -1 = the callback returns an error every time, n>0 = the first
	// n calls fail. Real wiring: PortFile truncated|garbage|empty = what /var/lib/cni/galaxy/port/<id> holds instead
	// of the ports JSON (crash in mid-write); Ipt = iptables operations fail while this container's clean-up runs.
	CBFail   int       `json:"cb_fail,omitempty"`
	PortFile string    `json:"port_file,omitempty"`
	Ipt      *iptFault `json:"ipt_fault,omitempty"`
}

// iptFault: which iptables operations (DeleteRule / RestoreAll, counted per container across rounds) fail while the
// container's clean-up runs. permanent: all; first-k: operations 1..K; nth-once: exactly operation N.
type iptFault struct {
	Kind string `json:"kind"`
	K    int    `json:"k,omitempty"`
	N    int    `json:"n,omitempty"`
	Text string `json:"text"` // permission-denied | xtables-lock | temporarily-unavailable
}

func (f *iptFault) transient() bool { return f != nil && f.Kind != "permanent" }

var iptErrText = map[string]string{
	"permission-denied":       "iptables: Permission denied (you must be root)",
	"xtables-lock":            "exit status 4: Another app is currently holding the xtables lock. Perhaps you want to use the -w option?",
	"temporarily-unavailable": "exit status 4: iptables: Resource temporarily unavailable.",
}

// portCleanMayFail: the port state of this container cannot (or need not) be cleaned; only its files in the gc
// dirs and IP dirs are owed.
func (c *ctrSpec) portCleanMayFail() bool { return c.CBFail != 0 || c.PortFile != "" || c.Ipt != nil }

type dirSpec struct {
	Rel    string `json:"rel"`
	Exists bool   `json:"exists"`
}

type extraFile struct {
	Loop    string `json:"loop"` // "ip" or "gc"
	Dir     int    `json:"dir"`
	Name    string `json:"name"`
	Kind    string `json:"kind"` // subdir | nonip-name | empty | empty-first-line | symlink
	Content string `json:"content,omitempty"`
}

type outageSpec struct {
	Kind     string `json:"kind"` // none | down | reset
	At       int    `json:"at"`   // position in the inspect sequence (1-based) at which the runtime goes away
	WindowMs int    `json:"window_ms,omitempty"`
}

type popSpec struct {
	Mode         string      `json:"mode"` // docker | cri
	Seed         int64       `json:"seed"`
	Idx          int         `json:"idx"`
	IPDirs       []dirSpec   `json:"ip_dirs"`
	GCDirs       []dirSpec   `json:"gc_dirs"`
	Ctrs         []ctrSpec   `json:"containers"`
	Extra        []extraFile `json:"extra_files"`
	Outage       outageSpec  `json:"outage"`
	RealCallback bool        `json:"real_callback"`
	PortDirGC    bool        `json:"port_dir_is_gc_dir,omitempty"` // opt-in: the real port state dir is the last gc dir
	MaxTail      int         `json:"max_tail"`
}

const (
	sentIP     = "sentinel-ip"
	sentGC     = "zzzz-sentinel-gc"
	sentIPName = "ff02::1" // sorts after every other IP file name generated here
)

// answer classes. kind: alive | dead | error. For class "notready" (CRI) the kind depends on the pod state.
var dockerAlive = []string{"running", "created", "paused", "restarting", "removing", "nostate", "emptystatus"}
var dockerDead = []string{"exited", "dead", "notfound"}
var dockerErr = []string{"err500", "err400", "err503", "trunc-exited", "garbage", "wrongtype", "emptybody", "reset", "partial"}

var criAlivePods = []string{"running", "waiting", "mixed"}
var criDeadPods = []string{"gone", "terminated", "nostatus", "noannot"}
var criErr = []string{"unavailable", "unknown", "internal", "deadline", "nilstatus", "notready/geterr"}

func contains(l []string, s string) bool {
	for _, x := range l {
		if x == s {
			return true
		}
	}
	return false
}

// stepKind classifies a scripted step.
func stepKind(mode string, s step) string {
	if mode == "docker" {
		switch {
		case contains(dockerAlive, s.Class):
			return "alive"
		case contains(dockerDead, s.Class):
			return "dead"
		}
		return "error"
	}
	switch s.Class {
	case "ready":
		return "alive"
	case "notfound":
		return "dead"
	case "notready":
		if contains(criAlivePods, s.Pod) {
			return "alive"
		}
		if contains(criDeadPods, s.Pod) {
			return "dead"
		}
		return "error"
	}
	return "error"
}

func stepLabel(s step) string {
	if s.Class == "notready" {
		return "notready/" + s.Pod
	}
	return s.Class
}

func pick(rng *rand.Rand, l []string) string { return l[rng.Intn(len(l))] }

func genStep(rng *rand.Rand, mode, kind string) step {
	var s step
	if mode == "docker" {
		switch kind {
		case "alive":
			s.Class = pick(rng, dockerAlive)
		case "dead":
			s.Class = pick(rng, dockerDead)
		default:
			s.Class = pick(rng, dockerErr)
		}
	} else {
		switch kind {
		case "alive":
			if rng.Intn(2) == 0 {
				s.Class = "ready"
				s.Pod = "running"
			} else {
				s.Class = "notready"
				s.Pod = pick(rng, criAlivePods)
			}
		case "dead":
			if rng.Intn(3) == 0 {
				s.Class = "notfound"
				s.Pod = "gone"
			} else {
				s.Class = "notready"
				s.Pod = pick(rng, criDeadPods)
			}
		default:
			c := pick(rng, criErr)
			if c == "notready/geterr" {
				s.Class = "notready"
				s.Pod = "geterr"
			} else {
				s.Class = c
				s.Pod = "running"
			}
		}
	}
	if rng.Intn(12) == 0 {
		s.SlowMs = 20 + rng.Intn(70)
	}
	return s
}

func genScript(rng *rand.Rand, mode string) (shape string, sc []step) {
	n := func(lo, hi int) int { return lo + rng.Intn(hi-lo+1) }
	rep := func(kind string, k int) {
		for i := 0; i < k; i++ {
			sc = append(sc, genStep(rng, mode, kind))
		}
	}
	switch r := rng.Intn(100); {
	case r < 20:
		shape = "alive"
		rep("alive", n(1, 4))
	case r < 33:
		shape = "error"
		rep("error", n(1, 4))
	case r < 40:
		shape = "error-alive-mix"
		for i, k := 0, n(2, 5); i < k; i++ {
			rep([]string{"alive", "error"}[rng.Intn(2)], 1)
		}
	case r < 58:
		shape = "dead"
		rep("dead", n(1, 2))
	case r < 72:
		shape = "alive-then-dead"
		rep("alive", n(1, 4))
		rep("dead", n(1, 2))
	case r < 82:
		shape = "error-then-dead"
		rep("error", n(1, 3))
		rep("dead", n(1, 2))
	case r < 90:
		shape = "dead-once-then-alive"
		rep("dead", 1)
		rep("alive", n(1, 2))
	default:
		shape = "mixed"
		for i, k := 0, n(3, 5); i < k; i++ {
			rep([]string{"alive", "error", "dead"}[rng.Intn(3)], 1)
		}
	}
	return
}

func tailOf(mode string, sc []step) int {
	t := -1
	for i := len(sc) - 1; i >= 0; i-- {
		if stepKind(mode, sc[i]) != "dead" {
			break
		}
		t = i
	}
	return t
}

func hexID(rng *rand.Rand, n int) string {
	const hx = "0123456789abcdef"
	b := make([]byte, n)
	for i := range b {
		b[i] = hx[rng.Intn(16)]
	}
	return string(b)
}

var nonIPNames = []string{"last_reserved_ip.0", "lock", "10.0.0", "10.0.0.256", "10.0.0.1.bak", "abcdef", ".hidden",
	"1.2.3.4 ", "10.0.0.1-", "fd00::zz"}

// genPop builds population idx for a mode.
func genPop(seed int64, mode string, idx int, tier string, pid int) *popSpec {
	rng := evid.NewRng(seed, "pop-"+mode, idx)
	p := &popSpec{Mode: mode, Seed: seed, Idx: idx}

	// directory layout: production-like nested layout most of the time
	switch rng.Intn(4) {
	case 0:
		p.IPDirs = []dirSpec{{"networks", true}}
	case 1:
		p.IPDirs = []dirSpec{{"networks", true}, {"networks/galaxy-flannel", true}}
	case 2:
		p.IPDirs = []dirSpec{{"networks", true}, {"networks/galaxy-flannel", false}}
	default:
		p.IPDirs = []dirSpec{{"missing-ip", false}, {"networks", true}, {"other-ip", true}}
	}
	switch rng.Intn(4) {
	case 0:
		p.GCDirs = []dirSpec{{"galaxy", true}}
	case 1:
		p.GCDirs = []dirSpec{{"flannel", true}, {"galaxy", true}, {"galaxy/port", true}}
	case 2:
		p.GCDirs = []dirSpec{{"flannel", false}, {"galaxy", true}, {"galaxy/port", true}}
	default:
		p.GCDirs = []dirSpec{{"flannel", true}, {"galaxy", true}, {"galaxy/port", false}}
	}
	existing := func(l []dirSpec) (r []int) {
		for i, d := range l {
			if d.Exists {
				r = append(r, i)
			}
		}
		return
	}
	ipEx, gcEx := existing(p.IPDirs), existing(p.GCDirs)

	p.RealCallback = rng.Intn(3) == 0

	usedIP := map[string]bool{}
	newIP := func(dir int) string {
		for {
			var name string
			switch rng.Intn(6) {
			case 0:
				name = fmt.Sprintf("fd00::%x", 1+rng.Intn(4000))
			case 1:
				name = fmt.Sprintf("192.168.%d.%d", rng.Intn(256), rng.Intn(256))
			default:
				name = fmt.Sprintf("172.16.%d.%d", rng.Intn(32), 1+rng.Intn(254))
			}
			k := fmt.Sprintf("%d/%s", dir, name)
			if !usedIP[k] {
				usedIP[k] = true
				return name
			}
		}
	}
	content := func(id string) string {
		switch rng.Intn(7) {
		case 0:
			return id
		case 1:
			return id + "\neth0"
		case 2:
			return id + "\r\neth0"
		case 3:
			return id + "\n"
		case 4:
			return " " + id + " \neth0\n"
		case 5:
			return id + "\r\n"
		default:
			return id + "\neth0"
		}
	}

	nc := 3 + rng.Intn(28) // 3..30 containers
	hostPort := int32(20000 + rng.Intn(1000))
	for i := 0; i < nc; i++ {
		var c ctrSpec
		if p.RealCallback || rng.Intn(4) == 0 {
			c.ID = fmt.Sprintf("vf%d-%d-%s%d-%d", pid, seed, mode[:1], idx, i)
		} else {
			c.ID = hexID(rng, 64)
		}
		c.Shape, c.Script = genScript(rng, mode)
		c.Tail = tailOf(mode, c.Script)
		if c.Tail > p.MaxTail {
			p.MaxTail = c.Tail
		}
		if len(c.Script) > p.MaxTail {
			p.MaxTail = len(c.Script)
		}
		c.NS = []string{"default", "kube-system", "ns-" + hexID(rng, 3)}[rng.Intn(3)]
		c.Pod = fmt.Sprintf("pod-%d-%s", i, hexID(rng, 4))
		for _, d := range ipEx {
			if rng.Intn(2) == 0 {
				for k, n := 0, 1+rng.Intn(2); k < n; k++ {
					c.IPFiles = append(c.IPFiles, ipFile{Dir: d, Name: newIP(d), Content: content(c.ID)})
				}
			}
		}
		for _, d := range gcEx {
			if rng.Intn(5) < 3 {
				c.GCFiles = append(c.GCFiles, d)
			}
		}
		if len(c.IPFiles) == 0 && len(c.GCFiles) == 0 {
			if rng.Intn(2) == 0 {
				d := ipEx[rng.Intn(len(ipEx))]
				c.IPFiles = append(c.IPFiles, ipFile{Dir: d, Name: newIP(d), Content: content(c.ID)})
			} else {
				c.GCFiles = append(c.GCFiles, gcEx[rng.Intn(len(gcEx))])
			}
		}
		if p.RealCallback && len(c.GCFiles) > 0 && rng.Intn(3) != 0 {
			for k, n := 0, 1+rng.Intn(2); k < n; k++ {
				hostPort++
				c.Ports = append(c.Ports, portSpec{HostPort: hostPort, ContainerPort: int32(80 + k),
					Protocol: []string{"tcp", "udp"}[rng.Intn(2)], PodName: c.Pod,
					PodIP: fmt.Sprintf("172.16.%d.%d", 100+i, 2+k)})
			}
		}
		// dead containers whose port cleanup fails
		if c.Tail >= 0 && len(c.GCFiles) > 0 {
			if !p.RealCallback && rng.Intn(100) < 35 {
				if rng.Intn(5) < 3 {
					c.CBFail = -1
				} else {
					c.CBFail = 1 + rng.Intn(4)
				}
			}
			if p.RealCallback && len(c.Ports) > 0 && rng.Intn(100) < 85 {
				text := "xtables-lock"
				if rng.Intn(3) == 0 {
					text = "temporarily-unavailable" // PortMappingHandler.withRetry retries this one itself
				}
				switch rng.Intn(8) {
				case 0:
					c.PortFile = "truncated"
				case 1:
					c.PortFile = "garbage"
				case 2:
					c.PortFile = "empty"
				case 3:
					c.Ipt = &iptFault{Kind: "permanent", Text: "permission-denied"}
				case 4, 5:
					c.Ipt = &iptFault{Kind: "first-k", K: 1 + rng.Intn(3), Text: text}
				default:
					c.Ipt = &iptFault{Kind: "nth-once", N: 1 + rng.Intn(4), Text: text}
				}
			}
		}
		p.Ctrs = append(p.Ctrs, c)
	}

	// non-container files; their names/contents point at containers that ARE answered dead, so that a collector
	// which does not apply the file-kind rules would remove them
	var deadIDs []string
	for _, c := range p.Ctrs {
		if c.Tail >= 0 {
			deadIDs = append(deadIDs, c.ID)
		}
	}
	deadID := func() string {
		if len(deadIDs) == 0 {
			return p.Ctrs[0].ID
		}
		return deadIDs[rng.Intn(len(deadIDs))]
	}
	usedExtra := map[string]bool{}
	addExtra := func(e extraFile) {
		k := fmt.Sprintf("%s/%d/%s", e.Loop, e.Dir, e.Name)
		if usedExtra[k] {
			return
		}
		usedExtra[k] = true
		p.Extra = append(p.Extra, e)
	}
	for _, d := range ipEx {
		for k, n := 0, rng.Intn(5); k < n; k++ {
			switch rng.Intn(5) {
			case 0: // a sub-directory named like an IP
				addExtra(extraFile{Loop: "ip", Dir: d, Name: newIP(d), Kind: "subdir", Content: deadID()})
			case 1:
				addExtra(extraFile{Loop: "ip", Dir: d, Name: pick(rng, nonIPNames), Kind: "nonip-name", Content: content(deadID())})
			case 2:
				addExtra(extraFile{Loop: "ip", Dir: d, Name: newIP(d), Kind: "empty"})
			default:
				addExtra(extraFile{Loop: "ip", Dir: d, Name: newIP(d), Kind: "empty-first-line",
					Content: pick(rng, []string{"\neth0", "\r\neth0", "  \n" + deadID(), "\n", " \t\r\n" + deadID() + "\neth0"})})
			}
		}
	}
	for _, d := range gcEx {
		if rng.Intn(2) == 0 {
			// a sub-directory named by a dead container id
			id := deadID()
			inDir := false
			for _, c := range p.Ctrs {
				if c.ID == id {
					inDir = intsContain(c.GCFiles, d)
				}
			}
			name := id
			if inDir {
				name = "dir-" + hexID(rng, 8)
			}
			if name < sentGC && !nestedName(p.GCDirs, d, name) {
				addExtra(extraFile{Loop: "gc", Dir: d, Name: name, Kind: "subdir", Content: deadID()})
			}
		}
	}

	// a symlink named by a dead container id (a state "file" the collector may unlink); its target lives outside
	// the collected directories and must survive
	for _, d := range gcEx {
		if rng.Intn(3) == 0 && len(deadIDs) > 0 {
			id := deadID()
			ok := true
			for _, c := range p.Ctrs {
				if c.ID == id && intsContain(c.GCFiles, d) {
					ok = false
				}
			}
			if ok && !nestedName(p.GCDirs, d, id) {
				addExtra(extraFile{Loop: "gc", Dir: d, Name: id, Kind: "symlink", Content: "target of " + id})
			}
		}
	}

	// runtime outage
	every := 3
	if tier == "thorough" {
		every = 4
	}
	if idx%every != every-1 {
		p.Outage.Kind = []string{"down", "reset"}[rng.Intn(2)]
		if tier == "thorough" {
			p.Outage.At = 1 + idx%157 // 157 is prime: with idx%4 != 3 every position 1..157 is reached within 628 indexes
		} else {
			p.Outage.At = 1 + rng.Intn(90)
		}
		p.Outage.WindowMs = 70 + rng.Intn(60)
	} else {
		p.Outage.Kind = "none"
	}
	return p
}

func intsContain(l []int, x int) bool {
	for _, v := range l {
		if v == x {
			return true
		}
	}
	return false
}

// nestedName: true if dir d of l already has a nested configured directory called name.
func nestedName(l []dirSpec, d int, name string) bool {
	for _, o := range l {
		if o.Rel == l[d].Rel+"/"+name {
			return true
		}
	}
	return false
}

// fingerprint of a population: mode, outage kind and the multiset of (shape, has-ip, has-gc) of its containers.
func (p *popSpec) fingerprint() string {
	var parts []string
	for _, c := range p.Ctrs {
		var cls []string
		for _, s := range c.Script {
			cls = append(cls, stepLabel(s))
		}
		parts = append(parts, fmt.Sprintf("%s[%s]i%dg%d", c.Shape, strings.Join(cls, ">"), len(c.IPFiles), len(c.GCFiles)))
	}
	sort.Strings(parts)
	h := uint64(14695981039346656037)
	for _, s := range parts {
		for _, b := range []byte(s) {
			h = (h ^ uint64(b)) * 1099511628211
		}
	}
	return fmt.Sprintf("%s/%s/rc=%v/%016x", p.Mode, p.Outage.Kind, p.RealCallback, h)
}
