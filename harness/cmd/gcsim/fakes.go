package main

import (
	"context"
	"encoding/json"
	"errors"
	"fmt"
	"net"
	"net/http"
	"os"
	"regexp"
	"strings"
	"sync"
	"time"

	"google.golang.org/grpc"
	"google.golang.org/grpc/codes"
	"google.golang.org/grpc/status"
	corev1 "k8s.io/api/core/v1"
	apierrors "k8s.io/apimachinery/pkg/api/errors"
	metav1 "k8s.io/apimachinery/pkg/apis/meta/v1"
	"k8s.io/apimachinery/pkg/runtime"
	"k8s.io/apimachinery/pkg/runtime/schema"
	kubefake "k8s.io/client-go/kubernetes/fake"
	k8stesting "k8s.io/client-go/testing"
	criapi "k8s.io/cri-api/pkg/apis/runtime/v1"
)

// ---------------------------------------------------------------- fake Docker Engine API on a unix socket

type dockerFake struct {
	m    *mon
	sock string
	mu   sync.Mutex
	srv  *http.Server
}

func (d *dockerFake) Start() error {
	_ = os.Remove(d.sock)
	l, err := net.Listen("unix", d.sock)
	if err != nil {
		return err
	}
	srv := &http.Server{Handler: d}
	d.mu.Lock()
	d.srv = srv
	d.mu.Unlock()
	go srv.Serve(l)
	return nil
}

func (d *dockerFake) Stop() {
	d.mu.Lock()
	srv := d.srv
	d.srv = nil
	d.mu.Unlock()
	if srv != nil {
		_ = srv.Close() // closes the listener (unlinks the socket) and every connection
	}
	_ = os.Remove(d.sock)
}

var reVersion = regexp.MustCompile(`^/v[0-9]+(\.[0-9]+)*`)

// dropConn closes the connection without writing a response.
func dropConn(w http.ResponseWriter) {
	if hj, ok := w.(http.Hijacker); ok {
		if c, _, err := hj.Hijack(); err == nil {
			_ = c.Close()
			return
		}
	}
	panic(http.ErrAbortHandler)
}

func dockerJSON(id, status string) map[string]interface{} {
	st := map[string]interface{}{"Status": status, "Running": status == "running" || status == "paused" || status == "restarting",
		"Paused": status == "paused", "Restarting": status == "restarting", "OOMKilled": false, "Dead": status == "dead",
		"Pid": 4242, "ExitCode": 0, "Error": "", "StartedAt": "2026-01-01T00:00:00Z", "FinishedAt": "0001-01-01T00:00:00Z"}
	if status == "exited" || status == "dead" {
		st["Pid"] = 0
		st["ExitCode"] = 137
		st["FinishedAt"] = "2026-01-02T00:00:00Z"
	}
	return map[string]interface{}{"Id": id, "Created": "2026-01-01T00:00:00Z", "Path": "/pause", "Args": []string{},
		"State": st, "Image": "sha256:0123", "Name": "/k8s_POD_x", "RestartCount": 0, "Driver": "overlay2",
		"Mounts": []interface{}{}, "Config": map[string]interface{}{"Hostname": "x", "Image": "pause"},
		"NetworkSettings": map[string]interface{}{"Bridge": ""}}
}

func writeJSON(w http.ResponseWriter, code int, v interface{}) {
	w.Header().Set("Content-Type", "application/json")
	w.WriteHeader(code)
	_ = json.NewEncoder(w).Encode(v)
}

func (d *dockerFake) ServeHTTP(w http.ResponseWriter, r *http.Request) {
	prefix := reVersion.FindString(r.URL.Path)
	path := strings.TrimPrefix(r.URL.Path, prefix)
	if path == "/containers/json" {
		// container list (reached through the redirect below)
		d.m.note("inspects_docker_error_emptyid-list")
		writeJSON(w, 200, []interface{}{})
		return
	}
	if r.Method != "GET" || !strings.HasPrefix(path, "/containers/") || !strings.HasSuffix(path, "/json") {
		w.WriteHeader(404)
		fmt.Fprint(w, "page not found")
		return
	}
	id := strings.TrimSuffix(strings.TrimPrefix(path, "/containers/"), "/json")
	if id == "" {
		// dockerd's router cleans "/containers//json" and redirects to the list endpoint
		w.Header().Set("Location", prefix+"/containers/json")
		w.WriteHeader(http.StatusMovedPermanently)
		return
	}
	st, _, fail := d.m.enter(id)
	if fail {
		dropConn(w)
		return
	}
	if st.SlowMs > 0 {
		time.Sleep(time.Duration(st.SlowMs) * time.Millisecond)
	}
	switch st.Class {
	case "running", "created", "paused", "restarting", "removing", "exited", "dead":
		writeJSON(w, 200, dockerJSON(id, st.Class))
	case "emptystatus":
		writeJSON(w, 200, dockerJSON(id, ""))
	case "nostate":
		writeJSON(w, 200, map[string]interface{}{"Id": id, "Name": "/k8s_POD_x"})
	case "notfound":
		writeJSON(w, 404, map[string]string{"message": "No such container: " + id})
	case "err500":
		writeJSON(w, 500, map[string]string{"message": "devmapper: Unknown device " + id})
	case "err400":
		writeJSON(w, 400, map[string]string{"message": "bad parameter"})
	case "err503":
		w.WriteHeader(503)
		fmt.Fprint(w, "Service Unavailable")
	case "trunc-exited":
		w.Header().Set("Content-Type", "application/json")
		fmt.Fprintf(w, `{"Id":%q,"Name":"/k8s_POD_x","State":{"Status":"exited","Running":fal`, id)
	case "garbage":
		w.Header().Set("Content-Type", "text/html")
		fmt.Fprint(w, "<html><body><h1>502 Bad Gateway</h1></body></html>")
	case "wrongtype":
		w.Header().Set("Content-Type", "application/json")
		fmt.Fprintf(w, `{"Id":%q,"State":"exited"}`, id)
	case "emptybody":
		w.WriteHeader(200)
	case "reset":
		dropConn(w)
	case "partial":
		if hj, ok := w.(http.Hijacker); ok {
			if c, _, err := hj.Hijack(); err == nil {
				fmt.Fprintf(c, "HTTP/1.1 200 OK\r\nContent-Type: application/json\r\nContent-Length: 4096\r\n\r\n"+
					`{"Id":%q,"State":{"Status":"exited","Running":false,`, id)
				_ = c.Close()
				return
			}
		}
		panic(http.ErrAbortHandler)
	default: // unscripted id
		writeJSON(w, 500, map[string]string{"message": "fake runtime: unscripted container id"})
	}
}

func (m *mon) note(counter string) {
	m.run.Count(counter, 1)
}

// ---------------------------------------------------------------- fake CRI RuntimeService on a unix socket

type criFake struct {
	criapi.UnimplementedRuntimeServiceServer
	m    *mon
	sock string
	mu   sync.Mutex
	gs   *grpc.Server
}

func (c *criFake) Start() error {
	_ = os.Remove(c.sock)
	l, err := net.Listen("unix", c.sock)
	if err != nil {
		return err
	}
	gs := grpc.NewServer()
	criapi.RegisterRuntimeServiceServer(gs, c)
	c.mu.Lock()
	c.gs = gs
	c.mu.Unlock()
	go gs.Serve(l)
	return nil
}

func (c *criFake) Stop() {
	c.mu.Lock()
	gs := c.gs
	c.gs = nil
	c.mu.Unlock()
	if gs != nil {
		gs.Stop() // closes listener and all connections; pending RPCs fail at the client
	}
	_ = os.Remove(c.sock)
}

func (c *criFake) PodSandboxStatus(ctx context.Context, req *criapi.PodSandboxStatusRequest) (*criapi.PodSandboxStatusResponse, error) {
	id := req.GetPodSandboxId()
	if id == "" {
		// containerd: truncindex "Prefix can't be empty" is not a NotFound
		c.m.note("inspects_cri_error_emptyid-unknown")
		return nil, status.Error(codes.Unknown, "an error occurred when try to find sandbox: Prefix can't be empty")
	}
	st, _, fail := c.m.enter(id)
	if fail {
		return nil, status.Error(codes.Unavailable, "transport is closing")
	}
	if st.SlowMs > 0 {
		time.Sleep(time.Duration(st.SlowMs) * time.Millisecond)
	}
	cs := c.m.ctr[id]
	mk := func(state criapi.PodSandboxState, annot bool) *criapi.PodSandboxStatusResponse {
		s := &criapi.PodSandboxStatus{Id: id, State: state, CreatedAt: 1,
			Metadata: &criapi.PodSandboxMetadata{Name: cs.spec.Pod, Namespace: cs.spec.NS, Uid: "uid-" + id}}
		if annot {
			s.Annotations = map[string]string{"io.kubernetes.cri.sandbox-name": cs.spec.Pod,
				"io.kubernetes.cri.sandbox-namespace": cs.spec.NS}
		}
		return &criapi.PodSandboxStatusResponse{Status: s, Info: map[string]string{"info": "{}"}}
	}
	switch st.Class {
	case "ready":
		return mk(criapi.PodSandboxState_SANDBOX_READY, true), nil
	case "notready":
		return mk(criapi.PodSandboxState_SANDBOX_NOTREADY, st.Pod != "noannot"), nil
	case "notfound":
		return nil, status.Errorf(codes.NotFound, "an error occurred when try to find sandbox %q: not found", id)
	case "unavailable":
		return nil, status.Error(codes.Unavailable, "connection error: desc = transport: error while dialing")
	case "unknown":
		return nil, status.Error(codes.Unknown, "failed to get sandbox status: bolt: database not open")
	case "internal":
		return nil, status.Error(codes.Internal, "internal")
	case "deadline":
		return nil, status.Error(codes.DeadlineExceeded, "context deadline exceeded")
	case "nilstatus":
		return &criapi.PodSandboxStatusResponse{}, nil
	}
	return nil, status.Error(codes.Internal, "fake runtime: unscripted sandbox id")
}

// ---------------------------------------------------------------- fake kube client (pod lookups of the CRI mode)

func newKube(m *mon) *kubefake.Clientset {
	cs := kubefake.NewSimpleClientset()
	cs.PrependReactor("get", "pods", func(action k8stesting.Action) (bool, runtime.Object, error) {
		ga, ok := action.(k8stesting.GetAction)
		if !ok {
			return false, nil, nil
		}
		ns, name := ga.GetNamespace(), ga.GetName()
		state := m.podGet(ns, name)
		term := corev1.ContainerState{Terminated: &corev1.ContainerStateTerminated{ExitCode: 137, Reason: "Error"}}
		running := corev1.ContainerState{Running: &corev1.ContainerStateRunning{StartedAt: metav1.Now()}}
		waiting := corev1.ContainerState{Waiting: &corev1.ContainerStateWaiting{Reason: "CrashLoopBackOff"}}
		var sts []corev1.ContainerState
		switch state {
		case "geterr":
			return true, nil, apierrors.NewInternalError(errors.New("etcdserver: request timed out"))
		case "running":
			sts = []corev1.ContainerState{running}
		case "waiting":
			sts = []corev1.ContainerState{waiting}
		case "mixed":
			sts = []corev1.ContainerState{term, running}
		case "terminated":
			sts = []corev1.ContainerState{term, term}
		case "nostatus":
		default: // gone, noannot, unknown pod
			return true, nil, apierrors.NewNotFound(schema.GroupResource{Resource: "pods"}, name)
		}
		pod := &corev1.Pod{ObjectMeta: metav1.ObjectMeta{Name: name, Namespace: ns}}
		for i, s := range sts {
			pod.Status.ContainerStatuses = append(pod.Status.ContainerStatuses,
				corev1.ContainerStatus{Name: fmt.Sprintf("c%d", i), State: s})
		}
		return true, pod, nil
	})
	return cs
}
