package main

import (
	"encoding/json"
	"errors"
	"flag"
	"fmt"
	"os"
	"path/filepath"
	"strings"
	"sync"
	"time"

	"k8s.io/client-go/kubernetes"
	"tkestack.io/galaxy/pkg/api/docker"
	"tkestack.io/galaxy/pkg/api/k8s"
	"tkestack.io/galaxy/pkg/galaxy"
	"tkestack.io/galaxy/pkg/gc"
	"tkestack.io/galaxy/pkg/network/portmapping"

	"verif/harness/evid"
	"verif/harness/fakes"
)

const gcInterval = 20 * time.Millisecond
const portStateDir = "/var/lib/cni/galaxy/port" // constant stateDir of pkg/api/k8s

func mustWrite(path, content string) error {
	return os.WriteFile(path, []byte(content), 0644)
}

// runPopulation builds the directories of p under base, starts the fake runtime and the REAL collector, waits for
// the logical end condition and evaluates the end-of-run oracles.
func runPopulation(run *evid.Run, p *popSpec, base string) error {
	dir := filepath.Join(base, fmt.Sprintf("%s%d", p.Mode[:1], p.Idx))
	if err := os.MkdirAll(dir, 0755); err != nil {
		return err
	}
	defer os.RemoveAll(dir)
	m := newMon(p, run)

	if p.PortDirGC {
		// production wiring (gc_dirs default): the port state dir itself is the last gc dir
		p.GCDirs = append(p.GCDirs, dirSpec{Rel: "@portdir", Exists: true})
	}
	abs := func(l []dirSpec) (paths []string, last int) {
		last = -1
		for i, d := range l {
			if d.Rel == "@portdir" {
				paths = append(paths, portStateDir)
			} else {
				paths = append(paths, filepath.Join(dir, d.Rel))
			}
			if d.Exists {
				last = i
			}
		}
		return
	}
	ipPaths, lastIP := abs(p.IPDirs)
	gcPaths, lastGC := abs(p.GCDirs)
	for i, d := range p.IPDirs {
		if d.Exists {
			if err := os.MkdirAll(ipPaths[i], 0755); err != nil {
				return err
			}
		}
	}
	for i, d := range p.GCDirs {
		if d.Exists {
			if err := os.MkdirAll(gcPaths[i], 0755); err != nil {
				return err
			}
		}
	}
	track := func(f *tfile) { f.present = true; m.files = append(m.files, f) }
	var myPortFiles []string
	defer func() {
		for _, f := range myPortFiles {
			_ = os.Remove(f)
		}
	}()

	// real clean-port wiring
	var kube kubernetes.Interface = newKube(m)
	cb := func(id string) error { return m.callback(id) }
	var pmh *portmapping.PortMappingHandler
	if p.RealCallback {
		ipt := fakes.NewIPTables(nil)
		pmh = &portmapping.PortMappingHandler{Interface: ipt}
		if err := pmh.EnsureBasicRule(); err != nil {
			return fmt.Errorf("EnsureBasicRule on strict fake: %v", err)
		}
		g, err := galaxy.VerifNew(galaxy.JsonConf{}, nil, kube, pmh, nil)
		if err != nil {
			return fmt.Errorf("galaxy.VerifNew: %v", err)
		}
		// iptables faults while a container's clean-up runs. Callbacks are serial (only the gc-dir loop calls them).
		// The hook runs under the fake's kernel lock: it must not take the monitor's lock (polls hold it while
		// dumping the nat table), hence its own small state.
		var fmu sync.Mutex
		var cur *ctrState
		var curInjected int
		ops := map[string]int{}
		ipt.FailHook = func(op string) error {
			fmu.Lock()
			defer fmu.Unlock()
			if cur == nil || cur.spec.Ipt == nil {
				return nil
			}
			f := cur.spec.Ipt
			ops[cur.spec.ID]++
			n := ops[cur.spec.ID]
			if f.Kind == "permanent" || (f.Kind == "first-k" && n <= f.K) || (f.Kind == "nth-once" && n == f.N) {
				curInjected++
				return errors.New(iptErrText[f.Text])
			}
			return nil
		}
		cb = func(id string) error {
			_ = m.callback(id)
			fmu.Lock()
			cur, curInjected = m.ctr[id], 0
			fmu.Unlock()
			err := g.VerifCleanIPtables(id)
			fmu.Lock()
			injected := curInjected
			cur = nil
			fmu.Unlock()
			m.callbackResult(id, err, injected)
			return err
		}
		m.natFn = func() string { return ipt.Dump("nat") }
	}

	for i := range p.Ctrs {
		c := &p.Ctrs[i]
		for _, f := range c.IPFiles {
			path := filepath.Join(ipPaths[f.Dir], f.Name)
			if err := mustWrite(path, f.Content); err != nil {
				return err
			}
			track(&tfile{Path: path, Loop: "ip", Kind: "ipfile", ID: c.ID, Container: true})
		}
		for _, d := range c.GCFiles {
			path := filepath.Join(gcPaths[d], c.ID)
			if err := mustWrite(path, `{"galaxy-flannel":{}}`); err != nil {
				return err
			}
			track(&tfile{Path: path, Loop: "gc", Kind: "statefile", ID: c.ID, Container: true})
		}
		if len(c.Ports) > 0 && pmh != nil {
			var ports []k8s.Port
			for _, ps := range c.Ports {
				ports = append(ports, k8s.Port{HostPort: ps.HostPort, ContainerPort: ps.ContainerPort, Protocol: ps.Protocol,
					PodName: ps.PodName, PodIP: ps.PodIP})
			}
			before := map[string]bool{}
			for _, l := range strings.Split(m.natFn(), "\n") {
				before[l] = true
			}
			if err := pmh.SetupPortMapping(ports); err != nil {
				return fmt.Errorf("SetupPortMapping on strict fake: %v", err)
			}
			data, _ := json.Marshal(ports)
			switch c.PortFile {
			case "truncated":
				data = data[:len(data)/2]
			case "garbage":
				data = []byte("\x00\x00\x00{\"hostPort\":")
			case "empty":
				data = nil
			}
			if err := k8s.SavePort(c.ID, data); err != nil {
				return fmt.Errorf("SavePort: %v", err)
			}
			pf := filepath.Join(portStateDir, c.ID)
			myPortFiles = append(myPortFiles, pf)
			track(&tfile{Path: pf, Loop: "gc", Kind: "portfile", ID: c.ID, Container: true})
			cs := m.ctr[c.ID]
			cs.portFile = pf
			// every chain declaration and rule this container's mapping added to the nat table
			for _, l := range strings.Split(m.natFn(), "\n") {
				if l == "" || before[l] || strings.HasPrefix(l, ":KUBE-MARK-MASQ") || strings.HasPrefix(l, "-A KUBE-MARK-MASQ") ||
					strings.HasPrefix(l, "#") {
					continue
				}
				cs.natLines = append(cs.natLines, l)
				track(&tfile{Path: "nat:" + l, Loop: "gc", Kind: "portmapping", ID: c.ID, Container: true, rule: l})
			}
			if len(cs.natLines) < 3*len(c.Ports) {
				return fmt.Errorf("port mapping of %s: only %d new nat lines visible after setup:\n%s", c.ID, len(cs.natLines), m.natFn())
			}
			run.Count("portmappings_installed", int64(len(c.Ports)))
		}
	}
	targets := filepath.Join(dir, "targets")
	for _, e := range p.Extra {
		var path string
		if e.Loop == "ip" {
			path = filepath.Join(ipPaths[e.Dir], e.Name)
		} else {
			path = filepath.Join(gcPaths[e.Dir], e.Name)
		}
		switch e.Kind {
		case "subdir":
			if err := os.MkdirAll(path, 0755); err != nil {
				return err
			}
			inner := filepath.Join(path, "inner")
			if err := mustWrite(inner, e.Content); err != nil {
				return err
			}
			track(&tfile{Path: path, Loop: e.Loop, Kind: "noncontainer-subdir", ID: e.Content})
			track(&tfile{Path: inner, Loop: e.Loop, Kind: "noncontainer-subdir-content", ID: e.Content})
		case "symlink":
			_ = os.MkdirAll(targets, 0755)
			tgt := filepath.Join(targets, fmt.Sprintf("%d-%s", e.Dir, e.Name))
			if err := mustWrite(tgt, e.Content); err != nil {
				return err
			}
			if err := os.Symlink(tgt, path); err != nil {
				return err
			}
			track(&tfile{Path: path, Loop: "gc", Kind: "statefile-symlink", ID: e.Name, Container: true})
			track(&tfile{Path: tgt, Loop: "gc", Kind: "noncontainer-symlink-target", ID: e.Name})
		default:
			if err := mustWrite(path, e.Content); err != nil {
				return err
			}
			id := strings.TrimSpace(strings.Split(strings.TrimSpace(e.Content), "\n")[0])
			track(&tfile{Path: path, Loop: e.Loop, Kind: "noncontainer-" + e.Kind, ID: id})
		}
		run.Count("noncontainer_files_planted_"+e.Kind, 1)
	}
	// sentinels: last file of the last directory of each loop
	sip := filepath.Join(ipPaths[lastIP], sentIPName)
	if err := mustWrite(sip, sentIP+"\neth0"); err != nil {
		return err
	}
	track(&tfile{Path: sip, Loop: "ip", Kind: "ipfile", ID: sentIP, Container: true})
	sgc := filepath.Join(gcPaths[lastGC], sentGC)
	myPortFiles = append(myPortFiles, filepath.Join(portStateDir, sentGC))
	if err := mustWrite(sgc, "{}"); err != nil {
		return err
	}
	track(&tfile{Path: sgc, Loop: "gc", Kind: "statefile", ID: sentGC, Container: true})

	// fake runtime
	sock := filepath.Join(dir, "rt.sock")
	if len(sock) > 100 {
		return fmt.Errorf("socket path too long: %s", sock)
	}
	if p.Mode == "docker" {
		m.fake = &dockerFake{m: m, sock: sock}
		os.Unsetenv("CONTAINERD_HOST")
		os.Setenv("DOCKER_HOST", "unix://"+sock)
	} else {
		m.fake = &criFake{m: m, sock: sock}
		os.Unsetenv("DOCKER_HOST")
		os.Setenv("CONTAINERD_HOST", "unix://"+sock)
	}
	if err := m.fake.Start(); err != nil {
		return err
	}
	defer m.fake.Stop()
	stopTick := make(chan struct{})
	go m.tick(stopTick)
	defer close(stopTick)

	dockerCli, err := docker.NewDockerInterface()
	if err != nil {
		return fmt.Errorf("docker.NewDockerInterface: %v", err)
	}
	_ = flag.Set("gc_dirs", strings.Join(gcPaths, ","))
	_ = flag.Set("flannel_allocated_ip_dir", strings.Join(ipPaths, ","))
	_ = flag.Set("flannel_gc_interval", gcInterval.String())
	quit := make(chan struct{})
	gc.NewFlannelGC(kube, dockerCli, quit, cb).Run()

	m.waitDone()
	quiesced := m.finalPoll()
	m.closeGate()
	close(quit)
	m.fake.Stop()
	// the loops finish their current pass against a dead runtime and exit; nothing may disappear any more
	time.Sleep(4 * gcInterval)
	if quiesced {
		m.postPoll()
	}
	if m.summarize() {
		run.Nontrivial(p.fingerprint())
	}
	run.Eval(1)
	if p.Idx < 3 {
		run.Sample(map[string]interface{}{"mode": p.Mode, "idx": p.Idx, "containers": len(p.Ctrs), "outage": p.Outage,
			"real_callback": p.RealCallback, "ip_dirs": p.IPDirs, "gc_dirs": p.GCDirs, "first_container": p.Ctrs[0],
			"extra_files": len(p.Extra), "events_logged": len(m.log)})
	}
	return nil
}
