package main

import (
	"bytes"
	"encoding/json"
	"fmt"
	"math/rand"
	"net/http"
	"net/http/httptest"
	"sort"
	"strings"
	"sync"
	"sync/atomic"
	"time"

	restful "github.com/emicklei/go-restful"
	"github.com/prometheus/client_golang/prometheus"
	corev1 "k8s.io/api/core/v1"
	metav1 "k8s.io/apimachinery/pkg/apis/meta/v1"
	corelister "k8s.io/client-go/listers/core/v1"
	"tkestack.io/galaxy/pkg/api/galaxy/constant"
	"tkestack.io/galaxy/pkg/api/k8s/schedulerapi"
	"tkestack.io/galaxy/pkg/ipam/api"
	galaxylisterpkg "tkestack.io/galaxy/pkg/ipam/client/listers/galaxy/v1alpha1"

	"verif/harness/evid"
	"verif/harness/model"
	"verif/harness/world"
)

const NS = "ns1"

// Rec is one recorded client-boundary operation.
type Rec struct {
	Client int    `json:"c"`
	Op     string `json:"op"`
	Arg    string `json:"arg"`
	Res    string `json:"res"`
	Call   int64  `json:"t0"`
	Ret    int64  `json:"t1"`
}

// Round is one concurrent round over one world.
type Round struct {
	W     *world.World
	Topo  *model.Topo
	seed  int64
	id    string
	clock int64 // logical clock for call/return stamps
	mu    sync.Mutex
	hist  []Rec
	api   http.Handler
	stop  chan struct{}
	// overlap accounting
	inflight map[string]int
	overlaps map[string]int
	alarms   []alarm
	counts   map[string]int64
	inconcl  []string
	yieldRng *rand.Rand
	yieldMu  sync.Mutex
	// C09: widen the window between the reload's list and its table swap
	listDelay   time.Duration
	pumpStop    chan struct{}
	pumpDone    chan struct{}
	linWitness  []string
	confHistory []map[string]int
	// preOp, if set, is called when a client operation starts; the returned func when it has returned
	preOp func(op string) func()
}

type alarm struct {
	Prop, Sig, Msg string
}

func (r *Round) alarm(prop, sig, msg string) {
	r.mu.Lock()
	r.alarms = append(r.alarms, alarm{prop, sig, msg})
	r.mu.Unlock()
}

func (r *Round) count(k string, n int64) {
	r.mu.Lock()
	r.counts[k] += n
	r.mu.Unlock()
}

func (r *Round) tick() int64 { return atomic.AddInt64(&r.clock, 1) }

// do records one client-boundary operation with call/return stamps from one counter.
func (r *Round) do(client int, op, arg string, f func() string) string {
	t0 := r.tick()
	r.mu.Lock()
	for other, n := range r.inflight {
		if n > 0 {
			a, b := op, other
			if a > b {
				a, b = b, a
			}
			r.overlaps[a+"|"+b]++
		}
	}
	r.inflight[op]++
	pre := r.preOp
	r.mu.Unlock()
	var post func()
	if pre != nil {
		post = pre(op)
	}
	res := f()
	if post != nil {
		post()
	}
	t1 := r.tick()
	r.mu.Lock()
	r.inflight[op]--
	r.hist = append(r.hist, Rec{Client: client, Op: op, Arg: arg, Res: res, Call: t0, Ret: t1})
	r.counts["ops_"+op]++
	r.mu.Unlock()
	return res
}

func short(err error) string {
	if err == nil {
		return "ok"
	}
	e := err.Error()
	if len(e) > 120 {
		e = e[:120]
	}
	return "err: " + e
}

// newRound builds a world over topo with the real plugin, Run() loops, an event pump and the HTTP API.
func newRound(seed int64, id string, topo *model.Topo, withProvider bool) (*Round, error) {
	w := world.NewWorld(false)
	w.RealLoop = true
	w.ConfText = model.ConfText(topo.Pools)
	w.SetConfigMap(w.ConfText)
	for _, n := range topo.Nodes {
		w.AddNode(n.Name, n.IP)
	}
	if withProvider {
		w.Provider = &world.Provider{}
	}
	r := &Round{W: w, Topo: topo, seed: seed, id: id, inflight: map[string]int{}, overlaps: map[string]int{},
		counts: map[string]int64{}, yieldRng: evid.NewRng(seed, "yield"+id, 0)}
	w.In.Yield = r.yield
	// also between two IPAM calls of the plugin (no API-server call in between), more sparingly: they are frequent
	w.In.IPAMYield = func(method string, after bool) {
		r.yieldMu.Lock()
		x := r.yieldRng.Intn(100)
		us := 20 + r.yieldRng.Intn(180)
		r.yieldMu.Unlock()
		switch {
		case x < 70:
		case x < 90:
			runtimeGosched()
		default:
			time.Sleep(time.Duration(us) * time.Microsecond)
		}
	}
	if err := w.StartPlugin(); err != nil {
		return nil, err
	}
	r.mountAPI()
	r.startLoops()
	return r, nil
}

// yield widens the windows between galaxy's critical sections: it runs before and after every API call galaxy makes.
func (r *Round) yield(c world.Call, after bool) {
	r.yieldMu.Lock()
	x := r.yieldRng.Intn(100)
	us := 50 + r.yieldRng.Intn(450)
	r.yieldMu.Unlock()
	if after && c.Verb == "list" && c.Resource == "floatingips" && r.listDelay > 0 {
		time.Sleep(r.listDelay)
		return
	}
	switch {
	case x < 40:
	case x < 70:
		runtimeGosched()
	default:
		time.Sleep(time.Duration(us) * time.Microsecond)
	}
}

func (r *Round) mountAPI() {
	w := r.W
	ws := new(restful.WebService)
	ws.Path("/v1").Consumes(restful.MIME_JSON).Produces(restful.MIME_JSON)
	c := api.NewController(w.Plugin.GetIpam(), corelister.NewPodLister(w.PodIdx), w.Plugin.Release)
	ws.Route(ws.GET("/ip").To(c.ListIPs))
	ws.Route(ws.POST("/ip").To(c.ReleaseIPs))
	pc := &api.PoolController{PoolLister: galaxylisterpkg.NewPoolLister(w.PoolIdx),
		Client: world.WrapGalaxy(w.Galaxy, w.In), LockPoolFunc: w.Plugin.LockDpPool, IPAM: w.Plugin.GetIpam()}
	ws.Route(ws.GET("/pool/{name}").To(pc.Get))
	ws.Route(ws.POST("/pool").To(pc.CreateOrUpdate))
	container := restful.NewContainer()
	container.Add(ws)
	r.api = container
}

func (r *Round) startLoops() {
	r.stop = make(chan struct{})
	r.W.Plugin.Run(r.stop)
	r.pumpStop = make(chan struct{})
	r.pumpDone = make(chan struct{})
	go r.pump()
}

// pump delivers watch events to the informer caches and handlers with a small PRNG lag.
func (r *Round) pump() {
	defer close(r.pumpDone)
	rng := evid.NewRng(r.seed, "pump"+r.id, 0)
	for {
		select {
		case <-r.pumpStop:
			return
		default:
		}
		delivered := false
		for _, res := range []string{"pods", "pools", "dp", "sts", "fips"} {
			if r.W.Pending(res) > 0 && rng.Intn(3) != 0 {
				r.W.Deliver(res, false)
				delivered = true
			}
		}
		if !delivered {
			time.Sleep(200 * time.Microsecond)
		}
	}
}

// barrier joins everything the round started: pump drained, loops stopped, release queue drained.
// Returns false (inconclusive) if quiescence is not reached.
func (r *Round) barrier() bool {
	// let the pump finish delivering
	deadline := time.Now().Add(120 * time.Second) // watchdog only (expiry = inconclusive)
	for r.W.PendingAll() > 0 {
		if time.Now().After(deadline) {
			r.inconcl = append(r.inconcl, "event pump did not drain")
			return false
		}
		time.Sleep(time.Millisecond)
	}
	close(r.pumpStop)
	<-r.pumpDone
	// wait until the loop workers have nothing in flight: API call counter stable and channel empty
	stable := 0
	last := r.W.In.Total()
	for stable < 6 {
		if time.Now().After(deadline) {
			r.inconcl = append(r.inconcl, "release workers did not quiesce")
			return false
		}
		time.Sleep(5 * time.Millisecond)
		if pod, ok := r.W.Plugin.VerifTakeReleaseEvent(); ok {
			// hand it back through the public event entry point so that a worker takes it
			_ = r.W.Plugin.DeletePod(pod)
			stable = 0
			continue
		}
		if t := r.W.In.Total(); t != last {
			last, stable = t, 0
			continue
		}
		stable++
	}
	close(r.stop)
	// anything a worker re-queued after a failed unbind
	for i := 0; i < 1000; i++ {
		pod, ok := r.W.Plugin.VerifTakeReleaseEvent()
		if !ok {
			break
		}
		_ = r.W.Plugin.VerifUnbind(pod)
	}
	return true
}

// stableView observes dump and store until two consecutive observations agree and no galaxy API call happened
// in between (so that no operation was in flight).
func (r *Round) stableView() (map[string]world.DumpEntry, map[string]world.StoreEntry, bool) {
	for i := 0; i < 50; i++ {
		t0 := r.W.In.Total()
		d1, _ := r.W.DumpWithDups()
		s1 := r.W.Store()
		time.Sleep(2 * time.Millisecond)
		d2, _ := r.W.DumpWithDups()
		s2 := r.W.Store()
		if r.W.In.Total() == t0 && fmt.Sprint(sortedDump(d1)) == fmt.Sprint(sortedDump(d2)) && fmt.Sprint(sortedStore(s1)) == fmt.Sprint(sortedStore(s2)) {
			return d2, s2, true
		}
	}
	return nil, nil, false
}

func sortedDump(d map[string]world.DumpEntry) []world.DumpEntry {
	var out []world.DumpEntry
	for _, e := range d {
		out = append(out, e)
	}
	sort.Slice(out, func(i, j int) bool { return out[i].IP < out[j].IP })
	return out
}

func sortedStore(d map[string]world.StoreEntry) []world.StoreEntry {
	var out []world.StoreEntry
	for _, e := range d {
		out = append(out, e)
	}
	sort.Slice(out, func(i, j int) bool { return out[i].IP < out[j].IP })
	return out
}

// ---- client operations ----

func (r *Round) nodes() []corev1.Node {
	var out []corev1.Node
	for _, n := range r.Topo.Nodes {
		node := corev1.Node{ObjectMeta: metav1.ObjectMeta{Name: n.Name}}
		if n.IP != "" {
			node.Status.Addresses = []corev1.NodeAddress{{Type: corev1.NodeInternalIP, Address: n.IP}}
		}
		out = append(out, node)
	}
	return out
}

func (r *Round) httpDo(method, path string, body interface{}) (int, []byte) {
	var rd *bytes.Reader
	if body != nil {
		b, _ := json.Marshal(body)
		rd = bytes.NewReader(b)
	} else {
		rd = bytes.NewReader(nil)
	}
	req := httptest.NewRequest(method, path, rd)
	req.Header.Set("Content-Type", "application/json")
	req.Header.Set("Accept", "application/json")
	rw := httptest.NewRecorder()
	r.api.ServeHTTP(rw, req)
	return rw.Code, rw.Body.Bytes()
}

// podSpec describes a pod the round creates.
type podSpec struct {
	Name   string
	Owner  *metav1.OwnerReference
	Ann    map[string]string
	KeyTyp string
	App    string
	Pool   string
}

func (p podSpec) key() string { return model.PodKey(p.Pool, p.KeyTyp, NS, p.App, p.Name) }

func dpPod(app string, rs int, n int, pool, policy string) podSpec {
	ann := map[string]string{}
	if policy != "" {
		ann[constant.ReleasePolicyAnnotation] = policy
	}
	if pool != "" {
		ann[constant.IPPoolAnnotation] = pool
	}
	return podSpec{Name: fmt.Sprintf("%s-rs%d-p%d", app, rs, n), Owner: &metav1.OwnerReference{Kind: "ReplicaSet", Name: fmt.Sprintf("%s-rs%d", app, rs)},
		Ann: ann, KeyTyp: "dp", App: app, Pool: pool}
}

func stsPod(app string, idx int, policy string) podSpec {
	ann := map[string]string{}
	if policy != "" {
		ann[constant.ReleasePolicyAnnotation] = policy
	}
	return podSpec{Name: fmt.Sprintf("%s-%d", app, idx), Owner: &metav1.OwnerReference{Kind: "StatefulSet", Name: app}, Ann: ann, KeyTyp: "sts", App: app}
}

// createPod creates the pod in truth (add event goes through the pump).
func (r *Round) createPod(ps podSpec) *corev1.Pod {
	p := world.NewPod(NS, ps.Name, r.W.NewUID(), ps.Owner, ps.Ann)
	if err := r.W.CreatePod(p); err != nil {
		return nil
	}
	return p
}

func (r *Round) filter(client int, p *corev1.Pod) []string {
	var names []string
	r.do(client, "filter", p.Name+"/"+string(p.UID), func() string {
		nodes, _, err := r.W.Plugin.Filter(p, r.nodes())
		for _, n := range nodes {
			names = append(names, n.Name)
		}
		if err != nil {
			return short(err)
		}
		return "nodes=" + strings.Join(names, ",")
	})
	return names
}

func (r *Round) bind(client int, p *corev1.Pod, node string) bool {
	res := r.do(client, "bind", p.Name+"/"+string(p.UID)+"@"+node, func() string {
		return short(r.W.Plugin.Bind(&schedulerapi.ExtenderBindingArgs{PodName: p.Name, PodNamespace: NS, PodUID: p.UID, Node: node}))
	})
	return res == "ok"
}

// schedule = filter, wait for the informer to know the pod, bind on a PRNG-chosen offered node.
func (r *Round) schedule(client int, rng *rand.Rand, p *corev1.Pod) bool {
	nodes := r.filter(client, p)
	if len(nodes) == 0 {
		return false
	}
	for i := 0; i < 2000; i++ {
		if _, ok, _ := r.W.PodIdx.GetByKey(NS + "/" + p.Name); ok {
			break
		}
		time.Sleep(100 * time.Microsecond)
	}
	return r.bind(client, p, nodes[rng.Intn(len(nodes))])
}

func (r *Round) deletePod(client int, name string) {
	r.do(client, "delete-pod", name, func() string {
		if r.W.DeletePod(NS, name) {
			return "ok"
		}
		return "absent"
	})
}

func (r *Round) collectMetrics(client int) {
	r.do(client, "metrics", "", func() string {
		ch := make(chan prometheus.Metric, 4096)
		r.W.Plugin.GetIpam().Collect(ch)
		close(ch)
		n := 0
		for range ch {
			n++
		}
		return fmt.Sprint(n)
	})
}

func (r *Round) witness(extra map[string]interface{}) map[string]interface{} {
	r.mu.Lock()
	h := append([]Rec(nil), r.hist...)
	r.mu.Unlock()
	sort.Slice(h, func(i, j int) bool { return h[i].Call < h[j].Call })
	if len(h) > 400 {
		h = h[len(h)-400:]
	}
	w := map[string]interface{}{"round": r.id, "seed": r.seed, "config": r.W.ConfText, "history": h}
	for k, v := range extra {
		w[k] = v
	}
	return w
}
