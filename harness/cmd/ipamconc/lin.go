package main

import (
	"fmt"
	"net"
	"sort"
	"strings"
	"sync"
	"sync/atomic"
	"time"

	"github.com/anishathalye/porcupine"
	"github.com/prometheus/client_golang/prometheus"
	"tkestack.io/galaxy/pkg/api/galaxy/constant"
	"tkestack.io/galaxy/pkg/ipam/floatingip"

	"verif/harness/evid"
	"verif/harness/model"
	"verif/harness/world"
)

// linearizability of the bare floatingip.IPAM interface (real crdIpam over the wrapped fake store)

type linIn struct {
	Op     string // alloc-subnet alloc-specific release release-ips update-attr by-ip dump reserve
	Key    string
	Key2   string
	IP     string
	Subnet string
}

type linOut struct {
	IP   string
	Err  string // "" ok | "noip" | "err"
	Key  string
	Dump string
	Flag bool
}

type linState string // "ip=key;ip=key;..." sorted by ip

func parseState(s linState) map[string]string {
	m := map[string]string{}
	for _, kv := range strings.Split(string(s), ";") {
		if kv == "" {
			continue
		}
		i := strings.Index(kv, "=")
		m[kv[:i]] = kv[i+1:]
	}
	return m
}

func fmtState(m map[string]string) linState {
	keys := make([]string, 0, len(m))
	for k := range m {
		keys = append(keys, k)
	}
	sort.Strings(keys)
	var b strings.Builder
	for _, k := range keys {
		b.WriteString(k + "=" + m[k] + ";")
	}
	return linState(b.String())
}

func linModel(topo *model.Topo) porcupine.Model {
	routable := func(ip, subnet string) bool {
		pi := topo.PoolOf(ip)
		return pi >= 0 && topo.Pools[pi].ServesNodeSubnet(subnet)
	}
	return porcupine.Model{
		Init: func() interface{} {
			m := map[string]string{}
			for ip := range topo.AllIPs() {
				m[ip] = ""
			}
			return fmtState(m)
		},
		Step: func(state, input, output interface{}) (bool, interface{}) {
			st := parseState(state.(linState))
			in := input.(linIn)
			out := output.(linOut)
			switch in.Op {
			case "alloc-subnet":
				switch out.Err {
				case "":
					if k, ok := st[out.IP]; !ok || k != "" || !routable(out.IP, in.Subnet) {
						return false, state
					}
					st[out.IP] = in.Key
					return true, fmtState(st)
				case "noip":
					for ip, k := range st {
						if k == "" && routable(ip, in.Subnet) {
							return false, state
						}
					}
					return true, state
				case "err":
					// the store refused the object of the address this call had picked (a concurrent
					// AllocateSpecificIP created it first): the call fails without effect although other addresses
					// may be free - a spurious failure, not an inconsistency
					return true, state
				}
				return false, state
			case "alloc-specific":
				if out.Err == "" {
					if k, ok := st[in.IP]; !ok || k != "" {
						return false, state
					}
					st[in.IP] = in.Key
					return true, fmtState(st)
				}
				// refused: either the address is taken, or the store refused the object because a concurrent
				// AllocateSpecificIP of the same address had created it but not yet published it in memory (the
				// create happens outside the cache lock). Both are failures without effect.
				return true, state
			case "release", "release-ips":
				if out.Err == "" {
					if st[in.IP] != in.Key || in.Key == "" {
						return false, state
					}
					st[in.IP] = ""
					return true, fmtState(st)
				}
				if k, ok := st[in.IP]; ok && k == in.Key && k != "" {
					return false, state
				}
				return true, state
			case "update-attr":
				if out.Err == "" {
					return st[in.IP] == in.Key && in.Key != "", state
				}
				return !(st[in.IP] == in.Key && in.Key != ""), state
			case "by-ip":
				return st[in.IP] == out.Key, state
			case "reserve": // re-key every ip of Key to Key2
				any := false
				for ip, k := range st {
					if k == in.Key {
						st[ip] = in.Key2
						any = true
					}
				}
				if out.Err != "" {
					return false, state
				}
				return any == out.Flag, fmtState(st)
			case "dump":
				return string(state.(linState)) == out.Dump, state
			}
			return false, state
		},
		Equal: func(a, b interface{}) bool { return a.(linState) == b.(linState) },
		DescribeOperation: func(input, output interface{}) string {
			return fmt.Sprintf("%+v -> %+v", input, output)
		},
	}
}

// roundLin runs one short concurrent history on a bare crdIpam and checks it with porcupine.
func roundLin(seed int64, idx int) *Round {
	rng := evid.NewRng(seed, "lin", idx)
	r := &Round{id: fmt.Sprintf("lin-%d", idx), seed: seed, counts: map[string]int64{}, inflight: map[string]int{}, overlaps: map[string]int{},
		yieldRng: evid.NewRng(seed, "yield-lin", idx)}
	// small topology: at most 8 addresses so that the NP-hard search stays tiny
	var topo *model.Topo
	for i := 0; i < 500; i++ {
		t := model.GenTopo(rng)
		if n := len(t.AllIPs()); n >= 3 && n <= 8 {
			topo = t
			break
		}
	}
	if topo == nil {
		r.inconcl = append(r.inconcl, "no small topology generated")
		return r
	}
	r.Topo = topo
	w := world.NewWorld(false)
	w.In.Yield = r.yield
	r.W = w
	w.ConfText = model.ConfText(topo.Pools)
	ipam := floatingip.NewCrdIPAM(world.WrapGalaxy(w.Galaxy, w.In), nil)
	pools, err := world.ParsePools(w.ConfText)
	if err != nil || ipam.ConfigurePool(pools) != nil {
		r.inconcl = append(r.inconcl, "cannot configure the bare IPAM")
		return r
	}
	var ips, subnets []string
	for ip := range topo.AllIPs() {
		ips = append(ips, ip)
	}
	sort.Strings(ips)
	sn := map[string]bool{}
	for _, p := range topo.Pools {
		for _, n := range p.NodeSubnets {
			sn[n.String()] = true
		}
	}
	for s := range sn {
		subnets = append(subnets, s)
	}
	sort.Strings(subnets)
	keys := []string{"sts_ns1_a_a-0", "sts_ns1_a_a-1", "dp_ns1_b_b-x", "dp_ns1_b_"}
	nclients := 3 + rng.Intn(4)
	nops := 40 / nclients
	var clock int64
	var mu sync.Mutex
	var ops []porcupine.Operation
	var wg sync.WaitGroup
	for c := 0; c < nclients; c++ {
		wg.Add(1)
		go func(c int) {
			defer wg.Done()
			crng := evid.NewRng(seed, fmt.Sprintf("lin-%d-c", idx), c)
			for k := 0; k < nops; k++ {
				in := linIn{Key: keys[crng.Intn(len(keys))], IP: ips[crng.Intn(len(ips))], Subnet: subnets[crng.Intn(len(subnets))]}
				switch x := crng.Intn(20); {
				case x < 5:
					in.Op = "alloc-subnet"
				case x < 8:
					in.Op = "alloc-specific"
				case x < 11:
					in.Op = "release"
				case x < 13:
					in.Op = "release-ips"
				case x < 14:
					in.Op = "update-attr"
				case x < 17:
					in.Op = "by-ip"
				case x < 18:
					in.Op = "reserve"
					in.Key2 = keys[crng.Intn(len(keys))]
					if in.Key2 == in.Key {
						in.Op = "by-ip"
					}
				default:
					in.Op = "dump"
				}
				var out linOut
				t0 := atomic.AddInt64(&clock, 1)
				attr := floatingip.Attr{Policy: constant.ReleasePolicyNever, Uid: fmt.Sprintf("u%d", c)}
				switch in.Op {
				case "alloc-subnet":
					_, sub, _ := net.ParseCIDR(in.Subnet)
					ip, err := ipam.AllocateInSubnet(in.Key, sub, attr)
					if err == nil {
						out.IP = ip.String()
					} else if err == floatingip.ErrNoEnoughIP {
						out.Err = "noip"
					} else {
						out.Err = "err"
					}
				case "alloc-specific":
					if err := ipam.AllocateSpecificIP(in.Key, net.ParseIP(in.IP), attr); err != nil {
						out.Err = "err"
					}
				case "release":
					if err := ipam.Release(in.Key, net.ParseIP(in.IP)); err != nil {
						out.Err = "err"
					}
				case "release-ips":
					rel, _, err := ipam.ReleaseIPs(map[string]string{in.IP: in.Key})
					if err != nil || len(rel) == 0 {
						out.Err = "err"
					}
				case "update-attr":
					if err := ipam.UpdateAttr(in.Key, net.ParseIP(in.IP), attr); err != nil {
						out.Err = "err"
					}
				case "by-ip":
					f, _ := ipam.ByIP(net.ParseIP(in.IP))
					out.Key = f.Key
				case "reserve":
					ok, err := ipam.ReserveIP(in.Key, in.Key2, floatingip.Attr{})
					out.Flag = ok
					if err != nil {
						out.Err = "err"
					}
				case "dump":
					fips, _ := ipam.ByPrefix("")
					m := map[string]string{}
					for _, f := range fips {
						if old, dup := m[f.FloatingIP.IP.String()]; dup && old != "" {
							continue
						}
						m[f.FloatingIP.IP.String()] = f.Key
					}
					out.Dump = string(fmtState(m))
				}
				t1 := atomic.AddInt64(&clock, 1)
				mu.Lock()
				ops = append(ops, porcupine.Operation{ClientId: c, Input: in, Output: out, Call: t0, Return: t1})
				mu.Unlock()
			}
		}(c)
	}
	// metrics scrape runs alongside (read-only; not part of the model, part of the race workload)
	wg.Add(1)
	go func() {
		defer wg.Done()
		for i := 0; i < 5; i++ {
			ch := make(chan prometheus.Metric, 1024)
			ipam.Collect(ch)
			close(ch)
			for range ch {
			}
			time.Sleep(100 * time.Microsecond)
		}
	}()
	wg.Wait()
	r.counts["lin_histories"]++
	r.counts["lin_operations"] += int64(len(ops))
	// count pairs of operations that really overlapped
	overl := 0
	for i := range ops {
		for j := i + 1; j < len(ops); j++ {
			if ops[i].ClientId != ops[j].ClientId && ops[i].Call < ops[j].Return && ops[j].Call < ops[i].Return {
				overl++
			}
		}
	}
	r.counts["lin_overlapping_op_pairs"] += int64(overl)
	res, info := porcupine.CheckOperationsVerbose(linModel(topo), ops, 10*time.Second)
	switch res {
	case porcupine.Ok:
		r.counts["lin_ok"]++
	case porcupine.Unknown:
		r.counts["lin_checker_timeouts"]++
	case porcupine.Illegal:
		var hist []string
		// longest partial linearization: shows how far a legal order gets
		best := []porcupine.Operation{}
		for _, part := range info.PartialLinearizationsOperations() {
			for _, pl := range part {
				if len(pl) > len(best) {
					best = pl
				}
			}
		}
		hist = append(hist, fmt.Sprintf("longest legal prefix has %d of %d operations; it ends with:", len(best), len(ops)))
		for i := len(best) - 3; i < len(best); i++ {
			if i >= 0 {
				o := best[i]
				hist = append(hist, fmt.Sprintf("  c%d [%d,%d] %+v -> %+v", o.ClientId, o.Call, o.Return, o.Input, o.Output))
			}
		}
		hist = append(hist, "full history:")
		sort.Slice(ops, func(i, j int) bool { return ops[i].Call < ops[j].Call })
		for _, o := range ops {
			hist = append(hist, fmt.Sprintf("c%d [%d,%d] %+v -> %+v", o.ClientId, o.Call, o.Return, o.Input, o.Output))
		}
		r.linWitness = hist
		r.alarm("C01", "ipam-history-not-linearizable", "the recorded concurrent history of the IPAM interface has no legal sequential order (an operation handed out or released an address inconsistently)")
	}
	return r
}
