// Engine ipamconc (built with -race): the real galaxy-ipam plugin with its Run() loop workers, an event pump with
// PRNG lag and goroutines issuing filter/bind/delete/resync/API/pool/reload/reserve/metrics requests concurrently,
// with yields injected at every API-server call boundary. Decides C07 and C09, contributes the concurrent halves of
// C01/C04 (-merge) and runs the race-detector workloads of C19.
package main

import (
	"encoding/json"
	"flag"
	"fmt"
	"os"
	"os/exec"
	"path/filepath"
	"regexp"
	"sort"
	"strings"
	"sync"
	"time"

	"k8s.io/klog"

	"verif/harness/evid"
)

func jsonUnmarshal(b []byte, v interface{}) error { return json.Unmarshal(b, v) }

type devNull struct{}

func (devNull) Write(p []byte) (int, error) { return len(p), nil }

var merge = flag.Bool("merge", false, "merge the evidence an earlier engine wrote for this property")

func main() {
	klog.InitFlags(nil)
	_ = flag.Set("logtostderr", "false")
	_ = flag.Set("alsologtostderr", "false")
	_ = flag.Set("stderrthreshold", "FATAL")
	klog.SetOutput(devNull{})
	fl := evid.ParseFlags()
	if fl.Child != "" {
		os.Exit(child(fl))
	}
	switch fl.Prop {
	case "C07":
		os.Exit(runRounds(fl, "C07", "c07", evid.Tiered(fl.Tier, 600, 8000), []string{"pool_growths_observed", "pool_reached_size", "overlap_filter|filter", "overlap_filter|pool-set"}))
	case "C09":
		os.Exit(runRounds(fl, "C09", "c09", evid.Tiered(fl.Tier, 300, 5000), []string{"reloads_overlapping_an_allocation", "ops_reserve", "overlap_filter|reload"}))
	case "C01", "C04":
		os.Exit(runRounds(fl, fl.Prop, "mix+lin", evid.Tiered(fl.Tier, 24, 400), []string{"bindings", "ownership_intervals", "lin_histories", "lin_overlapping_op_pairs"}))
	case "C19":
		os.Exit(runC19(fl))
	}
	fmt.Println("ipamconc: unsupported property", fl.Prop)
	os.Exit(2)
}

func rule(kind string) string {
	return map[string]string{
		"c07": "round = generated topology + Pool object 'pa' (size 1-3) shared by 1-3 deployments with replicas > size; one goroutine per pod " +
			"runs filter->bind concurrently (yields at every API call of galaxy), an administrator goroutine changes the size and " +
			"pre-allocates through the real HTTP API, a churn goroutine deletes bound pods; an observer counts the IPs held under the pool " +
			"after every operation and continuously. Non-trivial round: the pool grew and reached its size while >= 2 filters overlapped.",
		"c09": "round = generated topology; 4-7 worker goroutines create/schedule/delete pods while a reloader applies 3-5 mutated " +
			"configurations through the real updateConfigMap (with a delay injected right after the reload's store list), and an administrator " +
			"reserves/unreserves addresses with labelled FloatingIP objects whose watch events are pumped with lag; checked at a barrier. " +
			"Non-trivial round: at least one reload overlapped an allocation.",
		"mix+lin": "mix round = all entry points on one plugin instance with few pod names (same-named re-incarnations), checked at a barrier " +
			"(ownership, ownership intervals from the binding log, memory vs store); lin round = 3-6 clients x <= 40 operations of the bare IPAM " +
			"interface on <= 8 addresses, history checked with porcupine against a sequential model. Non-trivial: bindings or overlapping operations observed.",
	}[kind]
}

func oneRound(kind string, seed int64, i int) *Round {
	switch kind {
	case "c07":
		return roundC07(seed, i)
	case "c09":
		return roundC09(seed, i)
	case "mix":
		return roundMix(seed, i)
	case "lin":
		return roundLin(seed, i)
	}
	return nil
}

func runRounds(fl *evid.Flags, prop, kind string, n int, need []string) int {
	level := "exploration"
	run := evid.NewRun(prop, fl.Tier, fl.Seed, level, "ipamconc")
	run.Rule = rule(kind)
	type job struct {
		kind string
		i    int
	}
	var jobs []job
	if kind == "mix+lin" {
		for i := 0; i < n; i++ {
			jobs = append(jobs, job{"mix", i})
		}
		for i := 0; i < n*20; i++ {
			jobs = append(jobs, job{"lin", i})
		}
	} else {
		for i := 0; i < n; i++ {
			jobs = append(jobs, job{kind, i})
		}
	}
	ch := make(chan job, len(jobs))
	for _, j := range jobs {
		ch <- j
	}
	close(ch)
	var wg sync.WaitGroup
	var mu sync.Mutex
	for wkr := 0; wkr < 4; wkr++ {
		wg.Add(1)
		go func() {
			defer wg.Done()
			for j := range ch {
				r := oneRound(j.kind, fl.Seed, j.i)
				mu.Lock()
				absorb(run, r, prop)
				mu.Unlock()
			}
		}()
	}
	wg.Wait()
	for _, k := range need {
		if run.Counter(k) == 0 {
			run.Inconclusive("situation counter " + k + " is zero: the rounds did not produce what the property is about")
		}
	}
	run.Assume("fake API server (client-go object trackers + pods/binding reactor); informer caches fed by a pump goroutine with PRNG lag; the plugin's own Run() loop workers handle release events")
	run.Assume("verdicts are taken on observations that are stable across two reads with no galaxy API call in between, or from call/return stamps of one atomic counter; wall-clock only bounds barriers (expiry = inconclusive)")
	if *merge {
		mergeEarlier(run, prop)
	}
	return run.Finish(2)
}

func absorb(run *evid.Run, r *Round, prop string) {
	run.Eval(1)
	for k, v := range r.counts {
		if strings.HasPrefix(k, "max_") {
			run.Max(k, v)
		} else {
			run.Count(k, v)
		}
	}
	for _, s := range r.inconcl {
		run.Inconclusive(r.id + ": " + s)
	}
	nontrivial := false
	switch {
	case strings.HasPrefix(r.id, "c07"):
		nontrivial = r.counts["pool_reached_size"] > 0 && r.counts["overlap_filter|filter"] > 0
	case strings.HasPrefix(r.id, "c09"):
		nontrivial = r.counts["reloads_overlapping_an_allocation"] > 0
	case strings.HasPrefix(r.id, "mix"):
		nontrivial = r.counts["bindings"] > 0
	case strings.HasPrefix(r.id, "lin"):
		nontrivial = r.counts["lin_overlapping_op_pairs"] > 0
	}
	if nontrivial {
		var ov []string
		for k := range r.overlaps {
			ov = append(ov, k)
		}
		sort.Strings(ov)
		fp := r.id[:3] + "|" + strings.Join(ov, ",")
		if r.Topo != nil {
			fp += fmt.Sprintf("|pools=%d ips=%d", len(r.Topo.Pools), len(r.Topo.AllIPs()))
		}
		if strings.HasPrefix(r.id, "lin") {
			fp += fmt.Sprintf("|ops=%d pairs=%d", r.counts["lin_operations"], r.counts["lin_overlapping_op_pairs"])
		}
		run.Nontrivial(fp)
	}
	other := int64(0)
	for _, a := range r.alarms {
		if os.Getenv("VERIF_DEBUG_ALL") != "" {
			fmt.Printf("ALARM %s %s round=%s: %s\n", a.Prop, a.Sig, r.id, a.Msg)
		}
		if a.Prop != prop {
			other++
			continue
		}
		extra := map[string]interface{}{}
		if r.linWitness != nil {
			extra["linearizability_history"] = r.linWitness
		}
		var wit interface{}
		if r.W != nil {
			wit = r.witness(extra)
		}
		run.Violate(evid.Violation{Sig: a.Sig, Msg: a.Msg, Witness: wit, Case: fmt.Sprintf("%d:%s", r.seed, r.id)})
	}
	run.Count("alarms_of_other_properties_in_same_rounds", other)
	if r.W != nil && r.id[len(r.id)-2:] == "-0" {
		run.Sample(map[string]interface{}{"round": r.id, "config": r.W.ConfText, "first_ops": headRecs(r, 15)})
	}
}

func headRecs(r *Round, n int) []Rec {
	r.mu.Lock()
	defer r.mu.Unlock()
	h := append([]Rec(nil), r.hist...)
	sort.Slice(h, func(i, j int) bool { return h[i].Call < h[j].Call })
	if len(h) > n {
		h = h[:n]
	}
	return h
}

// mergeEarlier folds the coverage that an earlier engine (ipamsim) wrote for the same property into this run, so
// that the property's single evidence file describes both halves.
func mergeEarlier(run *evid.Run, prop string) {
	run.MergeEarlier("ipamconc")
}

// ---------------- C19: race detector ----------------

var raceHdr = regexp.MustCompile(`(?m)^WARNING: DATA RACE`)

func runC19(fl *evid.Flags) int {
	run := evid.NewRun("C19", fl.Tier, fl.Seed, "exploration", "ipamconc(racemon)")
	run.Rule = "child processes built with -race run (a) mix rounds: every galaxy-ipam entry point on one plugin instance, (b) c07/c09 rounds " +
		"(pool lock, reload), (c) bare-IPAM stress rounds (lin), and the race-built cnisim (concurrent /cni ADD/DEL on shared network " +
		"configs) and polsim (policy manager full syncs and events, which fan out goroutines per pod) engines as sub-processes; " +
		"GORACE=halt_on_error=0 log_path=...; reports are counted by 'WARNING: DATA RACE' blocks and de-duplicated by the pair of " +
		"innermost galaxy frames. Non-trivial and distinct: a pair of entry points observed overlapping in time (from call/return stamps)."
	bd := os.Getenv("VERIF_BUILD_DIR")
	if bd == "" {
		d, err := os.MkdirTemp("", "racemon")
		if err != nil {
			run.Inconclusive("no scratch dir")
			return run.Finish(2)
		}
		defer os.RemoveAll(d)
		bd = d
	}
	reps := evid.Tiered(fl.Tier, 3, 30)
	type childJob struct {
		name string
		args []string
		bin  string
	}
	var jobs []childJob
	for rep := 0; rep < reps; rep++ {
		seed := fl.Seed + int64(rep)*1000003
		for _, k := range []string{"mix:8", "c07:10", "c09:8", "lin:150"} {
			jobs = append(jobs, childJob{name: fmt.Sprintf("%s-%d", strings.Split(k, ":")[0], rep), bin: os.Args[0],
				args: []string{"-prop", "C19", "-tier", fl.Tier, "-seed", fmt.Sprint(seed), "-child", k}})
		}
		for _, e := range []struct{ bin, prop string }{{"cnisim", "C12"}, {"polsim", "C15"}} {
			p := filepath.Join(bd, e.bin)
			if _, err := os.Stat(p); err != nil {
				if rep == 0 {
					run.Count("external_engine_missing_"+e.bin, 1)
				}
				continue
			}
			jobs = append(jobs, childJob{name: fmt.Sprintf("%s-%d", e.bin, rep), bin: p,
				args: []string{"-prop", e.prop, "-tier", "quick", "-seed", fmt.Sprint(seed)}})
		}
	}
	type report struct {
		key, text, child string
	}
	var mu sync.Mutex
	var reports []report
	raw := 0
	sem := make(chan struct{}, 4)
	var wg sync.WaitGroup
	for _, j := range jobs {
		wg.Add(1)
		sem <- struct{}{}
		go func(j childJob) {
			defer wg.Done()
			defer func() { <-sem }()
			dir := filepath.Join(bd, "race-"+j.name)
			_ = os.MkdirAll(dir, 0755)
			cmd := exec.Command(j.bin, j.args...)
			cmd.Env = append(os.Environ(), "GORACE=halt_on_error=0 log_path="+filepath.Join(dir, "race"),
				"VERIF_OUT_DIR="+dir, "VERIF_BUILD_DIR="+dir, "TMPDIR="+dir)
			errf, _ := os.Create(filepath.Join(dir, "stderr"))
			outf, _ := os.Create(filepath.Join(dir, "stdout"))
			cmd.Stderr, cmd.Stdout = errf, outf
			done := make(chan error, 1)
			if err := cmd.Start(); err != nil {
				mu.Lock()
				run.Inconclusive("child " + j.name + " did not start: " + err.Error())
				mu.Unlock()
				return
			}
			go func() { done <- cmd.Wait() }()
			select {
			case <-done:
			case <-time.After(20 * time.Minute):
				_ = cmd.Process.Kill()
				mu.Lock()
				run.Inconclusive("child " + j.name + ": watchdog expired")
				mu.Unlock()
			}
			errf.Close()
			outf.Close()
			mu.Lock()
			defer mu.Unlock()
			run.Eval(1)
			// partial results of our own children
			if p, err := evid.ReadPartial(filepath.Join(dir, "partial.json")); err == nil {
				p.Violations = nil // alarms of other properties are not C19's business
				p.Inconclusive = nil
				run.Merge(p)
			} else if j.bin == os.Args[0] {
				tail := ""
				if b, err := os.ReadFile(filepath.Join(dir, "stderr")); err == nil {
					// the first panic / fatal line and the end of the child's stderr tell why it died
					txt := string(b)
					for _, mark := range []string{"\npanic: ", "\nfatal error: "} {
						if i := strings.Index(txt, mark); i >= 0 {
							end := i + 1500
							if end > len(txt) {
								end = len(txt)
							}
							tail += " | " + strings.ReplaceAll(txt[i+1:end], "\n", " / ")
							break
						}
					}
					if len(txt) > 600 {
						txt = txt[len(txt)-600:]
					}
					tail += " | stderr ends: " + strings.ReplaceAll(txt, "\n", " / ")
				}
				run.Inconclusive("child " + j.name + " left no partial result" + tail)
			} else {
				run.Count("external_engine_runs", 1)
			}
			// fatal errors
			if b, err := os.ReadFile(filepath.Join(dir, "stderr")); err == nil {
				if i := strings.Index(string(b), "fatal error: concurrent map"); i >= 0 {
					end := i + 3000
					if end > len(b) {
						end = len(b)
					}
					reports = append(reports, report{key: "fatal-concurrent-map-access|" + firstGalaxyFrame(string(b[i:end])), text: string(b[i:end]), child: j.name})
					raw++
				}
			}
			files, _ := filepath.Glob(filepath.Join(dir, "race*"))
			files2, _ := filepath.Glob(filepath.Join(dir, "*", "race*"))
			for _, f := range append(files, files2...) {
				if st, err := os.Stat(f); err != nil || st.IsDir() {
					continue
				}
				b, err := os.ReadFile(f)
				if err != nil {
					continue
				}
				blocks := splitRaceBlocks(string(b))
				raw += len(blocks)
				for _, blk := range blocks {
					reports = append(reports, report{key: raceKey(blk), text: blk, child: j.name})
				}
			}
		}(j)
	}
	wg.Wait()
	run.Count("race_reports_raw", int64(raw))
	seen := map[string]bool{}
	for _, rp := range reports {
		if seen[rp.key] {
			continue
		}
		seen[rp.key] = true
		if strings.HasPrefix(rp.key, "harness-only") {
			run.Inconclusive("race report with both stacks in harness/fake code (harness bug): " + rp.key)
			continue
		}
		run.Violate(evid.Violation{Sig: "data-race:" + rp.key, Msg: "Go race detector report (de-duplicated by innermost galaxy frames): " + rp.key,
			Witness: map[string]interface{}{"child": rp.child, "report": rp.text}, Case: fmt.Sprintf("%d:%s", fl.Seed, rp.child)})
	}
	run.Count("race_reports_deduplicated", int64(len(seen)))
	run.Assume("only races on executed paths whose accesses overlap in the runs are seen; no static lock-discipline analysis")
	run.Assume("harness fakes are goroutine-safe; a report with both stacks inside harness/fake code marks the run broken, not violated")
	for _, k := range []string{"ops_filter", "ops_bind", "ops_resync", "ops_reload", "ops_metrics", "ops_api-release", "lin_operations"} {
		if run.Counter(k) == 0 {
			run.Inconclusive("entry point counter " + k + " is zero")
		}
	}
	return run.Finish(2)
}

func splitRaceBlocks(s string) []string {
	idx := raceHdr.FindAllStringIndex(s, -1)
	var out []string
	for i, loc := range idx {
		end := len(s)
		if i+1 < len(idx) {
			end = idx[i+1][0]
		}
		out = append(out, s[loc[0]:end])
	}
	return out
}

var frameRe = regexp.MustCompile(`(?m)^\s+((?:tkestack\.io/galaxy|verif/harness)[^\s(]*(?:\([^)]*\))?[^\s(]*)\(`)

func firstGalaxyFrame(stack string) string {
	for _, m := range frameRe.FindAllStringSubmatch(stack, -1) {
		if strings.HasPrefix(m[1], "tkestack.io/galaxy") {
			return m[1]
		}
	}
	return "?"
}

// raceKey = sorted pair of the innermost galaxy frames of the two stacks (line numbers stripped).
func raceKey(block string) string {
	// stacks are separated by blank lines; the first two sections are the two accesses
	sections := strings.Split(block, "\n\n")
	var fr []string
	for _, sec := range sections {
		if !(strings.Contains(sec, "Read at") || strings.Contains(sec, "Write at") || strings.Contains(sec, "Previous read at") ||
			strings.Contains(sec, "Previous write at") || strings.Contains(sec, "read at") || strings.Contains(sec, "write at")) {
			continue
		}
		f := firstGalaxyFrame(sec)
		fr = append(fr, f)
		if len(fr) == 2 {
			break
		}
	}
	if len(fr) < 2 {
		fr = append(fr, "?")
	}
	allHarness := true
	for _, f := range fr {
		if f != "?" {
			allHarness = false
		}
	}
	if allHarness {
		return "harness-only|" + shortHash(block)
	}
	sort.Strings(fr)
	return strings.Join(fr, " <-> ")
}

func shortHash(s string) string {
	h := uint32(2166136261)
	for i := 0; i < len(s) && i < 400; i++ {
		h = (h ^ uint32(s[i])) * 16777619
	}
	return fmt.Sprintf("%08x", h)
}

// child runs "<kind>:<n>" rounds and writes a partial result.
func child(fl *evid.Flags) int {
	parts := strings.Split(fl.Child, ":")
	n := 1
	if len(parts) > 1 {
		fmt.Sscan(parts[1], &n)
	}
	run := evid.NewRun("C19", fl.Tier, fl.Seed, "exploration", "ipamconc-child")
	for i := 0; i < n; i++ {
		r := oneRound(parts[0], fl.Seed, i)
		absorb(run, r, "C19")
	}
	dir := os.Getenv("VERIF_OUT_DIR")
	if dir == "" {
		dir = "."
	}
	if err := run.WritePartial(filepath.Join(dir, "partial.json")); err != nil {
		return 2
	}
	return 0
}
