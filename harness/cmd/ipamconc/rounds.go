package main

import (
	"fmt"
	"math/rand"
	"runtime"
	"sort"
	"strings"
	"sync"
	"time"
	"tkestack.io/galaxy/pkg/api/k8s/schedulerapi"

	corev1 "k8s.io/api/core/v1"
	"tkestack.io/galaxy/pkg/ipam/api"
	galaxyv1alpha1 "tkestack.io/galaxy/pkg/ipam/apis/galaxy/v1alpha1"

	"verif/harness/evid"
	"verif/harness/model"
	"verif/harness/world"
)

func runtimeGosched() { runtime.Gosched() }

// bigTopo generates a topology with enough addresses for a concurrent round.
func bigTopo(rng *rand.Rand, minIPs int) *model.Topo {
	for i := 0; i < 200; i++ {
		t := model.GenTopo(rng)
		routable := 0
		for ip := range t.AllIPs() {
			for _, n := range t.Nodes {
				if t.Routable(ip, n) {
					routable++
					break
				}
			}
		}
		if routable >= minIPs {
			return t
		}
	}
	return model.GenTopo(rng)
}

// ---------------- C07: sized pool under concurrent filters and pool updates ----------------

type poolObs struct {
	mu        sync.Mutex
	prev      int
	windowMax int
	observed  int
	maxCnt    int
	// largest size visible (truth or lister) at the start of, or set during, every allocating call that is in flight or
	// that returned since the previous observation: a call may legitimately allocate up to a size it can have seen
	active   map[int64]int
	activeOp map[int64]string // diagnostics: which entry point the in-flight call is
	// every size the administrator has set so far (initial size first) and, per call, how many had been set when it
	// started: a call may have read the size in force at its start (the last or, while that request is still being
	// processed, the one before) or any size set while it runs
	timeline    []int
	activeFrom  map[int64]int
	finishedMin int // smallest start index among calls returned since the previous observation (-1 = none)
	finished    []int
	nextID      int64
	// size the administrator is in the middle of setting (-1 = none): between the moment the request is issued and the
	// moment truth and lister show it, a call that starts still sees the old size but may read the new one later
	adminSize int
}

func (r *Round) poolSizeNow(name string) int {
	b := -1
	if sz, ok := r.W.PoolSizeTruth(name); ok && sz > b {
		b = sz
	}
	if o, ok, _ := r.W.PoolIdx.GetByKey("kube-system/" + name); ok {
		if sz := o.(*galaxyv1alpha1.Pool).Size; sz > b {
			b = sz
		}
	}
	return b
}

func (r *Round) observePool(po *poolObs, name string) {
	po.mu.Lock()
	defer po.mu.Unlock()
	fips, _ := r.W.Plugin.GetIpam().ByPrefix("pool__" + name + "_")
	cnt := 0
	for _, f := range fips {
		k, ok := model.ParseKey(f.Key)
		if ok && (k.IsPrefix() || k.Type == "dp") {
			cnt++
		}
	}
	now := r.poolSizeNow(name)
	b := po.windowMax
	if now > b {
		b = now
	}
	if po.adminSize > b {
		b = po.adminSize
	}
	// every size set since the earliest start of a call that is in flight or returned since the last observation
	minFrom := len(po.timeline) - 2
	for _, f := range po.activeFrom {
		if f < minFrom {
			minFrom = f
		}
	}
	if po.finishedMin >= 0 && po.finishedMin < minFrom {
		minFrom = po.finishedMin
	}
	if minFrom < 0 {
		minFrom = 0
	}
	for _, v := range po.timeline[minFrom:] {
		if v > b {
			b = v
		}
	}
	for _, v := range po.active {
		if v > b {
			b = v
		}
	}
	for _, v := range po.finished {
		if v > b {
			b = v
		}
	}
	if cnt > po.prev && cnt > b {
		var held []string
		for _, f := range fips {
			held = append(held, f.Key)
		}
		sort.Strings(held)
		r.alarm("C07", "sized-pool-grew-beyond-size:concurrent", fmt.Sprintf("pool %s holds %d IPs (was %d) while the largest size in force since the previous observation was %d "+
			"[tick %d: size now %d, window max %d, administrator setting %d, in-flight calls saw %v (%v), returned calls saw %v; sizes set so far %v; keys %v]",
			name, cnt, po.prev, b, r.tick(), now, po.windowMax, po.adminSize, po.active, po.activeOp, po.finished, po.timeline, held))
	}
	po.finished = po.finished[:0]
	po.finishedMin = -1
	if cnt > po.prev {
		r.count("pool_growths_observed", 1)
		if cnt == b {
			r.count("pool_reached_size", 1)
		}
	}
	if cnt > po.maxCnt {
		po.maxCnt = cnt
	}
	po.prev = cnt
	po.windowMax = now
	po.observed++
}

func (po *poolObs) settle() {
	po.mu.Lock()
	po.adminSize = -1
	po.mu.Unlock()
}

func (po *poolObs) raise(sz int) {
	po.mu.Lock()
	po.adminSize = sz
	po.timeline = append(po.timeline, sz)
	if sz > po.windowMax {
		po.windowMax = sz
	}
	// a call in flight reads the size at some point of its execution, not at its start: every size set while it runs
	// is a size it may legitimately have seen
	for id, v := range po.active {
		if sz > v {
			po.active[id] = sz
		}
	}
	po.mu.Unlock()
}

func roundC07(seed int64, idx int) *Round {
	rng := evid.NewRng(seed, "c07", idx)
	topo := bigTopo(rng, 8)
	r, err := newRound(seed, fmt.Sprintf("c07-%d", idx), topo, false)
	if err != nil {
		return &Round{id: fmt.Sprintf("c07-%d", idx), inconcl: []string{"cannot build round: " + err.Error()}, counts: map[string]int64{}}
	}
	size := 1 + rng.Intn(3)
	ndp := 1 + rng.Intn(3)
	po := &poolObs{windowMax: size, active: map[int64]int{}, activeOp: map[int64]string{}, adminSize: -1,
		timeline: []int{size}, activeFrom: map[int64]int{}, finishedMin: -1}
	r.preOp = func(op string) func() {
		if op != "filter" && op != "pool-set" && op != "bind" {
			return nil
		}
		vis := r.poolSizeNow("pa")
		po.mu.Lock()
		if po.adminSize > vis {
			vis = po.adminSize
		}
		po.nextID++
		id := po.nextID
		po.active[id] = vis
		po.activeOp[id] = op
		from := len(po.timeline) - 2
		if from < 0 {
			from = 0
		}
		po.activeFrom[id] = from
		po.mu.Unlock()
		return func() {
			po.mu.Lock()
			if v, ok := po.active[id]; ok && v > vis {
				vis = v
			}
			delete(po.active, id)
			delete(po.activeOp, id)
			if po.finishedMin < 0 || from < po.finishedMin {
				po.finishedMin = from
			}
			delete(po.activeFrom, id)
			po.finished = append(po.finished, vis)
			po.mu.Unlock()
		}
	}
	r.W.SetPool("pa", size, false)
	for d := 0; d < ndp; d++ {
		r.W.SetDeployment(NS, fmt.Sprintf("d%d", d), int32(size+2+rng.Intn(3)))
	}
	waitLister := func() {
		for i := 0; i < 5000 && r.W.PendingAll() > 0; i++ {
			time.Sleep(100 * time.Microsecond)
		}
	}
	waitLister()
	npods := 2*size + 3 + rng.Intn(4)
	var wg sync.WaitGroup
	bound := make(chan string, npods*2)
	for i := 0; i < npods; i++ {
		wg.Add(1)
		go func(i int) {
			defer wg.Done()
			prng := evid.NewRng(seed, fmt.Sprintf("c07-%d-pod", idx), i)
			ps := dpPod(fmt.Sprintf("d%d", i%ndp), 0, i, "pa", "")
			p := r.createPod(ps)
			if p == nil {
				return
			}
			for try := 0; try < 3; try++ {
				ok := r.schedule(i, prng, p)
				r.observePool(po, "pa")
				if ok {
					bound <- p.Name
					break
				}
				time.Sleep(time.Duration(prng.Intn(300)) * time.Microsecond)
			}
		}(i)
	}
	// pool administrator: size up/down, pre-allocation on/off, through the real HTTP API
	wg.Add(1)
	go func() {
		defer wg.Done()
		arng := evid.NewRng(seed, fmt.Sprintf("c07-%d-admin", idx), 0)
		for k := 0; k < 4+arng.Intn(4); k++ {
			nsz := size + arng.Intn(3) - 1
			if nsz < 0 {
				nsz = 0
			}
			pre := arng.Intn(3) == 0
			po.raise(nsz)
			r.do(100, "pool-set", fmt.Sprintf("pa size=%d prealloc=%v", nsz, pre), func() string {
				code, _ := r.httpDo("POST", "/v1/pool", api.Pool{Name: "pa", Size: nsz, PreAllocateIP: pre})
				return fmt.Sprint(code)
			})
			r.W.SyncPoolsFromTruth()
			r.observePool(po, "pa")
			po.settle()
			time.Sleep(time.Duration(arng.Intn(800)) * time.Microsecond)
		}
	}()
	// churn: delete some bound pods so that their IPs go back to the pool's reserve and get re-keyed by later filters
	wg.Add(1)
	go func() {
		defer wg.Done()
		crng := evid.NewRng(seed, fmt.Sprintf("c07-%d-churn", idx), 0)
		for k := 0; k < 3; k++ {
			select {
			case name := <-bound:
				r.deletePod(200, name)
				r.observePool(po, "pa")
			case <-time.After(5 * time.Millisecond):
			}
			time.Sleep(time.Duration(crng.Intn(500)) * time.Microsecond)
		}
	}()
	// observer
	obsStop := make(chan struct{})
	var owg sync.WaitGroup
	owg.Add(1)
	go func() {
		defer owg.Done()
		for {
			select {
			case <-obsStop:
				return
			default:
				r.observePool(po, "pa")
				time.Sleep(150 * time.Microsecond)
			}
		}
	}()
	wg.Wait()
	close(obsStop)
	owg.Wait()
	if r.barrier() {
		r.observePool(po, "pa")
	}
	r.count("pool_observations", int64(po.observed))
	if int64(po.maxCnt) > r.counts["max_pool_count"] {
		r.counts["max_pool_count"] = int64(po.maxCnt)
	}
	r.noteOverlaps()
	return r
}

func (r *Round) noteOverlaps() {
	r.mu.Lock()
	defer r.mu.Unlock()
	for k, v := range r.overlaps {
		r.counts["overlap_"+k] += int64(v)
	}
}

// ---------------- C09: reload / reservation versus concurrent allocate and release ----------------

func roundC09(seed int64, idx int) *Round {
	rng := evid.NewRng(seed, "c09", idx)
	topo := bigTopo(rng, 10)
	r, err := newRound(seed, fmt.Sprintf("c09-%d", idx), topo, false)
	if err != nil {
		return &Round{id: fmt.Sprintf("c09-%d", idx), inconcl: []string{"cannot build round: " + err.Error()}, counts: map[string]int64{}}
	}
	r.listDelay = time.Duration(500+rng.Intn(2500)) * time.Microsecond
	r.W.SetStatefulSet(NS, "s0", 50)
	r.W.SetDeployment(NS, "d0", 50)
	for i := 0; i < 5000 && r.W.PendingAll() > 0; i++ {
		time.Sleep(100 * time.Microsecond)
	}
	var topoMu sync.Mutex
	current := topo
	var wg sync.WaitGroup
	done := make(chan struct{})
	nworkers := 4 + rng.Intn(4)
	for wkr := 0; wkr < nworkers; wkr++ {
		wg.Add(1)
		go func(wkr int) {
			defer wg.Done()
			wrng := evid.NewRng(seed, fmt.Sprintf("c09-%d-w", idx), wkr)
			var mine []string
			for k := 0; ; k++ {
				select {
				case <-done:
					return
				default:
				}
				var ps podSpec
				if wrng.Intn(2) == 0 {
					ps = stsPod("s0", wkr*100+k, []string{"", "immutable", "never"}[wrng.Intn(3)])
				} else {
					ps = dpPod("d0", 0, wkr*100+k, "", "")
				}
				if p := r.createPod(ps); p != nil {
					if r.schedule(wkr, wrng, p) {
						mine = append(mine, p.Name)
					}
				}
				if len(mine) > 0 && wrng.Intn(3) == 0 {
					j := wrng.Intn(len(mine))
					r.deletePod(wkr, mine[j])
					mine = append(mine[:j], mine[j+1:]...)
				}
				if k > 12 {
					return
				}
			}
		}(wkr)
	}
	// reloader
	wg.Add(1)
	go func() {
		defer wg.Done()
		defer close(done)
		rrng := evid.NewRng(seed, fmt.Sprintf("c09-%d-reload", idx), 0)
		for k := 0; k < 3+rrng.Intn(3); k++ {
			time.Sleep(time.Duration(200+rrng.Intn(1500)) * time.Microsecond)
			topoMu.Lock()
			nt := model.MutateTopo(rrng, current)
			topoMu.Unlock()
			text := model.ConfText(nt.Pools)
			r.W.SetConfigMap(text)
			res := r.do(300, "reload", fmt.Sprintf("%d pools", len(nt.Pools)), func() string {
				_, err := r.W.Plugin.VerifReloadConfigMap()
				return short(err)
			})
			if res == "ok" {
				topoMu.Lock()
				current = nt
				r.confHistory = append(r.confHistory, nt.AllIPs())
				topoMu.Unlock()
			}
		}
	}()
	// administrator reserving / unreserving addresses
	wg.Add(1)
	go func() {
		defer wg.Done()
		arng := evid.NewRng(seed, fmt.Sprintf("c09-%d-admin", idx), 0)
		var reserved []string
		for k := 0; k < 6; k++ {
			time.Sleep(time.Duration(arng.Intn(1500)) * time.Microsecond)
			topoMu.Lock()
			all := current.AllIPs()
			topoMu.Unlock()
			var ips []string
			for ip := range all {
				ips = append(ips, ip)
			}
			sort.Strings(ips)
			if len(ips) == 0 {
				continue
			}
			ip := ips[arng.Intn(len(ips))]
			r.do(400, "reserve", ip, func() string {
				err := r.W.ReserveFIP(ip, "admin-reserved")
				if err == nil {
					reserved = append(reserved, ip)
				}
				return short(err)
			})
			if len(reserved) > 0 && arng.Intn(3) == 0 {
				x := reserved[0]
				reserved = reserved[1:]
				r.do(400, "unreserve", x, func() string { return short(r.W.UnreserveFIP(x)) })
			}
		}
	}()
	wg.Wait()
	if !r.barrier() {
		return r
	}
	dump, store, ok := r.stableView()
	if !ok {
		r.inconcl = append(r.inconcl, "no stable observation at the barrier")
		return r
	}
	topoMu.Lock()
	final := current
	topoMu.Unlock()
	configured := final.AllIPs()
	// reload is lossless: memory and store agree on every configured IP after reloads that overlapped allocations
	for ip := range configured {
		e, in := dump[ip]
		st, inStore := store[ip]
		switch {
		case !in:
			r.alarm("C09", "configured-ip-missing-after-concurrent-reload", fmt.Sprintf("%s is configured but IPAM does not know it", ip))
		case e.Key == "" && inStore && !st.Reserved:
			r.alarm("C09", "allocation-made-during-reload-lost-from-memory", fmt.Sprintf("store holds %s -> %q but IPAM memory says it is free (every later allocation of it hits AlreadyExists)", ip, st.Key))
		case e.Key == "" && inStore && st.Reserved:
			r.alarm("C09", "reserved-object-not-in-memory-after-events-delivered", fmt.Sprintf("%s is reserved in the store but free in memory", ip))
		case e.Key != "" && !e.Reserved && !inStore:
			r.alarm("C09", "memory-allocation-without-store-object-after-concurrent-reload", fmt.Sprintf("memory: %s -> %q, store: no object", ip, e.Key))
		case e.Key != "" && !e.Reserved && inStore && st.Reserved:
			r.alarm("C09", "admin-reserved-ip-allocated", fmt.Sprintf("%s carries the reserved label in the store but IPAM allocated it to %q", ip, e.Key))
		case e.Key != "" && !e.Reserved && inStore && st.Key != e.Key:
			r.alarm("C09", "memory-store-key-differs-after-concurrent-reload", fmt.Sprintf("%s: memory %q store %q", ip, e.Key, st.Key))
		}
	}
	for ip, e := range dump {
		if _, ok := configured[ip]; !ok && e.Key != "" {
			r.alarm("C09", "deconfigured-ip-allocated", fmt.Sprintf("%s is not configured any more but allocated to %q", ip, e.Key))
		}
	}
	for ip, st := range store {
		if _, ok := configured[ip]; !ok && !st.Reserved {
			r.alarm("C09", "deconfigured-object-left-in-store", fmt.Sprintf("%s -> %q is outside the configuration in force but its object is still in the store", ip, st.Key))
		}
	}
	// live bound pods keep their IP if it is still configured (allocations made while the reload was in progress)
	told := map[string]world.Binding{}
	for _, b := range r.W.Bindings() {
		told[b.UID] = b
	}
	for _, p := range r.W.ListPods() {
		b, ok := told[string(p.UID)]
		if !ok || !world.Live(p) {
			continue
		}
		for _, ip := range b.IPs {
			if _, ok := configured[ip]; !ok {
				continue
			}
			if e := dump[ip]; !strings.HasSuffix(e.Key, "_"+p.Name) {
				// only a reload that dropped the IP in between (and a later one that re-added it) can excuse this
				if !r.ipWasDeconfigured(ip) {
					r.alarm("C09", "live-pod-allocation-lost-across-reload", fmt.Sprintf("pod %s bound with %s (still configured) but IPAM owner is %q", p.Name, ip, e.Key))
				}
			}
		}
	}
	r.countReloadOverlaps()
	r.noteOverlaps()
	return r
}

func (r *Round) ipWasDeconfigured(ip string) bool {
	// some configuration applied during the round did not contain the address (it may have been re-added later)
	if _, in := r.Topo.AllIPs()[ip]; !in {
		return true
	}
	for _, c := range r.confHistory {
		if _, in := c[ip]; !in {
			return true
		}
	}
	return false
}

// countReloadOverlaps counts reloads whose [call, return] interval overlapped at least one filter/bind.
func (r *Round) countReloadOverlaps() {
	r.mu.Lock()
	defer r.mu.Unlock()
	for _, a := range r.hist {
		if a.Op != "reload" {
			continue
		}
		r.counts["reloads"]++
		for _, b := range r.hist {
			if (b.Op == "filter" || b.Op == "bind") && b.Call < a.Ret && a.Call < b.Ret {
				r.counts["reloads_overlapping_an_allocation"]++
				break
			}
		}
	}
}

// ---------------- mix: every entry point on one plugin instance (C19 a; concurrent halves of C01/C04) ----------------

func roundMix(seed int64, idx int) *Round {
	rng := evid.NewRng(seed, "mix", idx)
	topo := bigTopo(rng, 10)
	r, err := newRound(seed, fmt.Sprintf("mix-%d", idx), topo, rng.Intn(2) == 0)
	if err != nil {
		return &Round{id: fmt.Sprintf("mix-%d", idx), inconcl: []string{"cannot build round: " + err.Error()}, counts: map[string]int64{}}
	}
	r.W.SetStatefulSet(NS, "s0", 4)
	r.W.SetStatefulSet(NS, "s1", 4)
	r.W.SetDeployment(NS, "d0", 4)
	r.W.SetPool("pa", 2, false)
	for i := 0; i < 5000 && r.W.PendingAll() > 0; i++ {
		time.Sleep(100 * time.Microsecond)
	}
	var wg sync.WaitGroup
	type life struct {
		uid     string
		name    string
		boundAt int64
		deadAt  int64
	}
	var lmu sync.Mutex
	lives := map[string]*life{}
	deaths := map[string]int64{} // uid -> tick taken before the delete/finish call
	// schedulers with few pod names (same-named re-incarnations)
	for c := 0; c < 4; c++ {
		wg.Add(1)
		go func(c int) {
			defer wg.Done()
			crng := evid.NewRng(seed, fmt.Sprintf("mix-%d-sched", idx), c)
			for k := 0; k < 10; k++ {
				var ps podSpec
				switch crng.Intn(3) {
				case 0:
					ps = stsPod("s0", crng.Intn(3), "immutable")
				case 1:
					ps = stsPod("s1", crng.Intn(3), "")
				default:
					ps = dpPod("d0", 0, c*100+k, []string{"", "pa"}[crng.Intn(2)], []string{"", "never"}[crng.Intn(2)])
				}
				if old := r.W.GetPod(NS, ps.Name); old != nil {
					// delete the old incarnation first (its events race with the new one's scheduling); the death
					// is recorded for the incarnation that was really deleted, with a tick taken before the call
					t := r.tick()
					r.do(c, "delete-pod", ps.Name, func() string {
						uid := r.W.DeletePodUID(NS, ps.Name)
						if uid == "" {
							return "absent"
						}
						lmu.Lock()
						if _, ok := deaths[uid]; !ok {
							deaths[uid] = t
						}
						lmu.Unlock()
						return "ok " + uid
					})
				}
				p := r.createPod(ps)
				if p == nil {
					continue
				}
				for try := 0; try < 2; try++ {
					if r.schedule(c, crng, p) {
						t := r.tick()
						lmu.Lock()
						lives[string(p.UID)] = &life{uid: string(p.UID), name: p.Name, boundAt: t}
						lmu.Unlock()
						break
					}
					time.Sleep(time.Duration(crng.Intn(400)) * time.Microsecond)
				}
				if crng.Intn(4) == 0 {
					name := p.Name
					t := r.tick()
					lmu.Lock()
					if _, ok := deaths[string(p.UID)]; !ok {
						deaths[string(p.UID)] = t
					}
					lmu.Unlock()
					r.do(c, "finish-pod", name, func() string {
						r.W.UpdatePod(NS, name, func(q *corev1.Pod) {
							if string(q.UID) == string(p.UID) {
								q.Status.Phase = corev1.PodSucceeded
							}
						})
						return "ok"
					})
				}
			}
		}(c)
	}
	// background entry points
	bg := func(client int, name string, n int, f func(rng *rand.Rand)) {
		wg.Add(1)
		go func() {
			defer wg.Done()
			brng := evid.NewRng(seed, fmt.Sprintf("mix-%d-%s", idx, name), 0)
			for k := 0; k < n; k++ {
				time.Sleep(time.Duration(brng.Intn(1200)) * time.Microsecond)
				f(brng)
			}
		}()
	}
	bg(10, "resync", 6, func(*rand.Rand) {
		r.do(10, "resync", "", func() string { return short(r.W.Plugin.VerifResyncOnce()) })
	})
	bg(11, "syncips", 4, func(*rand.Rand) {
		r.do(11, "sync-pod-ips", "", func() string { r.W.Plugin.VerifSyncPodIPs(); return "ok" })
	})
	bg(12, "metrics", 8, func(*rand.Rand) { r.collectMetrics(12) })
	bg(13, "apilist", 6, func(brng *rand.Rand) {
		var lr api.ListIPResp
		r.do(13, "api-list", "", func() string {
			code, body := r.httpDo("GET", "/v1/ip?size=9999", nil)
			_ = jsonUnmarshal(body, &lr)
			return fmt.Sprint(code)
		})
		var cands []api.FloatingIP
		for _, f := range lr.Content {
			if f.PodName != "" || f.AppName != "" || f.PoolName != "" {
				cands = append(cands, f)
			}
		}
		if len(cands) > 0 {
			f := cands[brng.Intn(len(cands))]
			r.do(13, "api-release", f.IP+" "+f.PodName, func() string {
				code, _ := r.httpDo("POST", "/v1/ip", api.ReleaseIPReq{IPs: []api.FloatingIP{f}})
				return fmt.Sprint(code)
			})
		}
	})
	bg(14, "poolset", 4, func(brng *rand.Rand) {
		sz := brng.Intn(4)
		r.do(14, "pool-set", fmt.Sprint(sz), func() string {
			code, _ := r.httpDo("POST", "/v1/pool", api.Pool{Name: "pa", Size: sz, PreAllocateIP: brng.Intn(3) == 0})
			return fmt.Sprint(code)
		})
		r.W.SyncPoolsFromTruth()
	})
	bg(16, "preempt", 6, func(brng *rand.Rand) {
		// the scheduler's preemption call for a pod (any pod: pods with the default policy return at once, the others
		// go through getSubnet and the node-subnet cache like a filter)
		pods := r.W.ListPods()
		if len(pods) == 0 {
			return
		}
		p := pods[brng.Intn(len(pods))]
		victims := map[string]*schedulerapi.MetaVictims{}
		for _, n := range r.nodes() {
			victims[n.Name] = &schedulerapi.MetaVictims{}
		}
		r.do(16, "preempt", p.Name, func() string {
			left := r.W.Plugin.Preempt(&schedulerapi.ExtenderPreemptionArgs{Pod: p, NodeNameToMetaVictims: victims})
			return fmt.Sprint(len(left))
		})
	})
	bg(15, "reload", 3, func(brng *rand.Rand) {
		// same configuration text with a harmless difference (whitespace) so that the reload really runs
		text := r.W.ConfText + strings.Repeat(" ", 1+brng.Intn(3))
		r.W.SetConfigMap(text)
		r.do(15, "reload", "", func() string { _, err := r.W.Plugin.VerifReloadConfigMap(); return short(err) })
	})
	wg.Wait()
	if !r.barrier() {
		return r
	}
	_ = r.W.Plugin.VerifResyncOnce()
	dump, store, ok := r.stableView()
	if !ok {
		r.inconcl = append(r.inconcl, "no stable observation at the barrier")
		return r
	}
	// M-own at the barrier
	told := map[string]world.Binding{}
	for _, b := range r.W.Bindings() {
		told[b.UID] = b
	}
	owner := map[string]string{}
	for _, p := range r.W.ListPods() {
		b, ok := told[string(p.UID)]
		if !ok || !world.Live(p) {
			continue
		}
		for _, ip := range b.IPs {
			if o, dup := owner[ip]; dup && o != string(p.UID) {
				r.alarm("C01", "two-live-pods-told-same-ip:concurrent", fmt.Sprintf("live pods %s and %s were both bound with %s", o, p.UID, ip))
			}
			owner[ip] = string(p.UID)
			if e := dump[ip]; !strings.HasSuffix(e.Key, "_"+p.Name) {
				r.alarm("C04", "live-pod-ip-lost:concurrent", fmt.Sprintf("live pod %s/%s bound with %s, IPAM owner is %q", p.Name, p.UID, ip, e.Key))
			}
		}
	}
	// offline ownership intervals: [bind return, death call) of different incarnations told the same IP must not overlap
	type iv struct {
		uid  string
		from int64
		to   int64
	}
	byIP := map[string][]iv{}
	lmu.Lock()
	for uid, l := range lives {
		b, ok := told[uid]
		if !ok {
			continue
		}
		to, dead := deaths[uid]
		if !dead {
			to = 1 << 62
		}
		for _, ip := range b.IPs {
			byIP[ip] = append(byIP[ip], iv{uid, l.boundAt, to})
		}
	}
	lmu.Unlock()
	for ip, ivs := range byIP {
		for i := range ivs {
			for j := i + 1; j < len(ivs); j++ {
				if ivs[i].uid != ivs[j].uid && ivs[i].from < ivs[j].to && ivs[j].from < ivs[i].to {
					r.alarm("C01", "overlapping-ownership-intervals:concurrent", fmt.Sprintf("%s was told to %s during [%d,%d) and to %s during [%d,%d)", ip, ivs[i].uid, ivs[i].from, ivs[i].to, ivs[j].uid, ivs[j].from, ivs[j].to))
				}
			}
		}
		r.count("ownership_intervals", int64(len(ivs)))
	}
	// memory == store at the barrier
	for ip, e := range dump {
		st, inStore := store[ip]
		if e.Key != "" && !e.Reserved && (!inStore || st.Key != e.Key) {
			r.alarm("C05", "memory-store-disagree:concurrent", fmt.Sprintf("%s: memory %q, store %q (present=%v)", ip, e.Key, st.Key, inStore))
		}
		if e.Key == "" && inStore && !st.Reserved {
			r.alarm("C05", "memory-store-disagree:concurrent", fmt.Sprintf("%s: memory free, store %q", ip, st.Key))
		}
	}
	r.count("bindings", int64(len(told)))
	r.noteOverlaps()
	return r
}
